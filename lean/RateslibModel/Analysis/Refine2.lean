/-
Second-order refinement: evaluating an expression with the list-based SECOND-order dual numbers of the
model (over ℝ) yields, along every direction in the plane of two variable names, exactly the scalar
2-jet of the expression (value, first derivative, half second derivative).
-/
import RateslibModel.Analysis.Jets2Sound
import RateslibModel.Analysis.Refine
import RateslibModel.Proofs.Dual2Layout
namespace Rateslib
open Real

/-- the generic chain-rule shape shared by exp, log, Φ, Φ⁻¹, pow: first order scaled by `c1`, second
order `c1 · H + c2 · ggᵀ` -/
structure ChainSpec (a r : Dual2 ℝ) (f0 c1 c2 : ℝ) : Prop where
  wf : r.WF
  vars : r.vars = a.vars
  real : r.real = f0
  den : ∀ n, Dual2.den r n = c1 * Dual2.den a n
  den2 : ∀ n w, Dual2.den2 r n w = c1 * Dual2.den2 a n w + c2 * (Dual2.den a n * Dual2.den a w)

theorem exp_spec (a : Dual2 ℝ) (ha : a.WF) :
    ChainSpec a (Dual2.exp a) (Real.exp a.real) (Real.exp a.real) (Real.exp a.real * (1 / 2)) := by
  have mx := ha.mshape
  have hl := ha.2.1
  have mo : MShape a.vars.length (outer a.dual a.dual) := mshape_outer _ _ _ hl hl
  have mo2 := Dual2.mshape_map _ _ ((half : ℝ) * ·) mo
  have ms := Dual2.mshape_zipWith _ _ _ (· + ·) mx mo2
  have mall := Dual2.mshape_map _ _ (Real.exp a.real * ·) ms
  refine ⟨⟨ha.1, by simp [Dual2.exp, vscaleL, hl], mall.1, mall.2⟩, rfl, rfl, fun n => ?_, fun n w => ?_⟩
  · simp only [Dual2.exp, Dual2.den_mk, vscaleL_eq]
    rw [L1_map _ _ _ (by simp) hl]
    rfl
  · simp only [Dual2.exp, Dual2.den2_mk, mscaleL_eq, madd_eq]
    rw [L2_map _ _ _ (by simp) ms, L2_zip _ _ _ _ (by simp) mx mo2, L2_map _ _ _ (by simp) mo,
      L2_outer _ _ _ hl hl]
    simp only [half, exp_real, Dual2.den, Dual2.den2]
    ring

theorem log_spec (a : Dual2 ℝ) (ha : a.WF) :
    ChainSpec a (Dual2.log a) (Real.log a.real) (1 / a.real) (-(1 / 2) * (1 / a.real * (1 / a.real))) := by
  have mx := ha.mshape
  have hl := ha.2.1
  have mo : MShape a.vars.length (outer a.dual a.dual) := mshape_outer _ _ _ hl hl
  have m1 := Dual2.mshape_map _ _ ((1 / a.real) * ·) mx
  have mo1 := Dual2.mshape_map _ _ (· * (half : ℝ)) mo
  have mo2 := Dual2.mshape_map _ _ (· * (1 / a.real * (1 / a.real))) mo1
  have mall := Dual2.mshape_zipWith _ _ _ (· - ·) m1 mo2
  refine ⟨⟨ha.1, by simp [Dual2.log, vscaleL, hl], mall.1, mall.2⟩, rfl, rfl, fun n => ?_, fun n w => ?_⟩
  · simp only [Dual2.log, Dual2.den_mk, vscaleL_eq]
    rw [L1_map _ _ _ (by simp) hl]
    rfl
  · simp only [Dual2.log, Dual2.den2_mk, mscaleL_eq, mscaleR_eq, msub_eq]
    rw [L2_zip _ _ _ _ (by simp) m1 mo2, L2_map _ _ _ (by simp) mx, L2_map _ _ _ (by simp) mo1,
      L2_map _ _ _ (by simp) mo, L2_outer _ _ _ hl hl]
    simp only [half, Dual2.den, Dual2.den2]
    ring

/-- the common shape `madd (mscaleL c1 H) (mscaleL c2 O)` of Φ and Φ⁻¹ -/
theorem cdf_shape_spec (a : Dual2 ℝ) (ha : a.WF) (f0 c1 c2 : ℝ) :
    ChainSpec a ⟨f0, a.vars, vscaleL c1 a.dual,
      madd (mscaleL c1 a.dual2) (mscaleL c2 (outer a.dual a.dual))⟩ f0 c1 c2 := by
  have mx := ha.mshape
  have hl := ha.2.1
  have mo : MShape a.vars.length (outer a.dual a.dual) := mshape_outer _ _ _ hl hl
  have m1 := Dual2.mshape_map _ _ (c1 * ·) mx
  have mo1 := Dual2.mshape_map _ _ (c2 * ·) mo
  have mall := Dual2.mshape_zipWith _ _ _ (· + ·) m1 mo1
  refine ⟨⟨ha.1, by simp [vscaleL, hl], mall.1, mall.2⟩, rfl, rfl, fun n => ?_, fun n w => ?_⟩
  · simp only [Dual2.den_mk, vscaleL_eq]
    rw [L1_map _ _ _ (by simp) hl]
    rfl
  · simp only [Dual2.den2_mk, mscaleL_eq, madd_eq]
    rw [L2_zip _ _ _ _ (by simp) m1 mo1, L2_map _ _ _ (by simp) mx, L2_map _ _ _ (by simp) mo,
      L2_outer _ _ _ hl hl]
    rfl

theorem pow_spec (a : Dual2 ℝ) (ha : a.WF) (p : ℝ) :
    ChainSpec a (Dual2.pow a p) (a.real ^ p) (p * a.real ^ (p - 1))
      (1 / 2 * p * (p - 1) * a.real ^ (p - 2)) := by
  have mx := ha.mshape
  have hl := ha.2.1
  have mo : MShape a.vars.length (outer a.dual a.dual) := mshape_outer _ _ _ hl hl
  have m1 := Dual2.mshape_map _ _ (· * (p * a.real ^ (p - 1))) mx
  have mo1 := Dual2.mshape_map _ _ (· * (1 / 2 * p * (p - 1) * a.real ^ (p - 2))) mo
  have mall := Dual2.mshape_zipWith _ _ _ (· + ·) m1 mo1
  -- over ℝ the repaired (guarded) coefficients are the plain ones
  have hform : Dual2.pow a p = ⟨a.real ^ p, a.vars, vscaleR a.dual (p * a.real ^ (p - 1)),
      madd (mscaleR a.dual2 (p * a.real ^ (p - 1)))
        (mscaleR (outer a.dual a.dual) (half * p * (p - 1) * a.real ^ (p - 2)))⟩ := by
    simp only [Dual2.pow, coeffPow_real, powf_real]
  rw [hform]
  refine ⟨⟨ha.1, by simp [vscaleR, hl], ?_, ?_⟩, rfl, rfl, fun n => ?_, fun n w => ?_⟩
  · simpa [madd_eq, mscaleR_eq, powf_real, half] using mall.1
  · simpa [madd_eq, mscaleR_eq, powf_real, half] using mall.2
  · simp only [Dual2.den_mk, vscaleR_eq, powf_real]
    rw [L1_map _ _ _ (by simp) hl]
    simp only [Dual2.den]
    ring
  · simp only [Dual2.den2_mk, mscaleR_eq, madd_eq, powf_real, half]
    rw [L2_zip _ _ _ _ (by simp) m1 mo1, L2_map _ _ _ (by simp) mx, L2_map _ _ _ (by simp) mo,
      L2_outer _ _ _ hl hl]
    simp only [Dual2.den, Dual2.den2]
    ring

theorem neg_spec (a : Dual2 ℝ) (ha : a.WF) : ChainSpec a (Dual2.neg a) (-a.real) (-1) 0 := by
  have mx := ha.mshape
  have hl := ha.2.1
  have m1 := Dual2.mshape_map _ _ (fun x : ℝ => -x) mx
  refine ⟨⟨ha.1, by simp [Dual2.neg, vneg, hl], m1.1, m1.2⟩, rfl, rfl, fun n => ?_, fun n w => ?_⟩
  · simp only [Dual2.neg, Dual2.den_mk, vneg_eq]
    rw [L1_map _ _ _ (by simp) hl]
    simp only [Dual2.den]; ring
  · simp only [Dual2.neg, Dual2.den2_mk, mneg_eq]
    rw [L2_map _ _ _ (by simp) mx]
    simp only [Dual2.den2]; ring

theorem scaleL_spec (a : Dual2 ℝ) (ha : a.WF) (f0 c : ℝ) :
    ChainSpec a ⟨f0, a.vars, vscaleL c a.dual, mscaleL c a.dual2⟩ f0 c 0 := by
  have mx := ha.mshape
  have hl := ha.2.1
  have m1 := Dual2.mshape_map _ _ (c * ·) mx
  refine ⟨⟨ha.1, by simp [vscaleL, hl], m1.1, m1.2⟩, rfl, rfl, fun n => ?_, fun n w => ?_⟩
  · simp only [Dual2.den_mk, vscaleL_eq]
    rw [L1_map _ _ _ (by simp) hl]
    rfl
  · simp only [Dual2.den2_mk, mscaleL_eq]
    rw [L2_map _ _ _ (by simp) mx]
    simp only [Dual2.den2]; ring

theorem new_const_spec (c : ℝ) :
    (Dual2.new c []).WF ∧ (Dual2.new c []).real = c ∧ (∀ n, Dual2.den (Dual2.new c []) n = 0) ∧
    (∀ n w, Dual2.den2 (Dual2.new c []) n w = 0) := by
  refine ⟨⟨by simp [Dual2.new, dedup], by simp [Dual2.new, dedup, onesV], by simp [Dual2.new, dedup, zerosM], ?_⟩,
    rfl, fun n => ?_, fun n w => ?_⟩
  · intro r hr; simp [Dual2.new, dedup, zerosM] at hr
  · exact lookup_not_mem _ _ _ (by simp [Dual2.new, dedup])
  · exact lookup2_not_mem_left _ _ _ _ (by simp [Dual2.new, dedup])

theorem J2.ext' {a b : J2} (h0 : a.v0 = b.v0) (h1 : a.v1 = b.v1) (h2 : a.v2 = b.v2) : a = b := by
  cases a; cases b; simp_all

namespace Expr

/-- evaluation on the model's SECOND-order dual numbers, constants promoted to variable-free numbers -/
noncomputable def evalD2 : Expr → (Nat → Dual2 ℝ) → Dual2 ℝ
  | leaf i, env => env i
  | const c, _ => Dual2.new c []
  | add a b, env => Dual2.add false (evalD2 a env) (evalD2 b env)
  | sub a b, env => Dual2.sub false (evalD2 a env) (evalD2 b env)
  | mul a b, env => Dual2.mul false (evalD2 a env) (evalD2 b env)
  | div a b, env => Dual2.div false (evalD2 a env) (evalD2 b env)
  | neg a, env => Dual2.neg (evalD2 a env)
  | powc a p, env => Dual2.pow (evalD2 a env) p
  | exp a, env => Dual2.exp (evalD2 a env)
  | log a, env => Dual2.log (evalD2 a env)
  | ncdf a, env => Dual2.normCdf (evalD2 a env)
  | nicdf a, env => Dual2.invNormCdf (evalD2 a env)
  | abs a, env => Dual2.abs (evalD2 a env)

/-- the scalar 2-jet of a second-order number along the direction `α·e_v + β·e_w`: value, directional
first derivative, HALF directional second derivative `Σ uₙ u_m · den2 n m` -/
noncomputable def dirJet (α β : ℝ) (v w : String) (d : Dual2 ℝ) : J2 :=
  ⟨d.real, α * Dual2.den d v + β * Dual2.den d w,
   α * α * Dual2.den2 d v v + α * β * (Dual2.den2 d v w + Dual2.den2 d w v)
     + β * β * Dual2.den2 d w w⟩

theorem chain_dirJet {a r : Dual2 ℝ} {f0 c1 c2 : ℝ} (S : ChainSpec a r f0 c1 c2)
    (α β : ℝ) (v w : String) :
    dirJet α β v w r = ⟨f0, c1 * (dirJet α β v w a).v1,
      c1 * (dirJet α β v w a).v2 + c2 * ((dirJet α β v w a).v1 * (dirJet α β v w a).v1)⟩ := by
  apply J2.ext'
  · exact S.real
  · simp only [dirJet, S.den]; ring
  · simp only [dirJet, S.den2]; ring

theorem mul_dirJet (a b : Dual2 ℝ) (ha : a.WF) (hb : b.WF) (α β : ℝ) (v w : String) :
    dirJet α β v w (Dual2.mul false a b) = mulJ2 (dirJet α β v w a) (dirJet α β v w b) := by
  have S := Dual2.mul_spec false a b ha hb (by simp)
  apply J2.ext'
  · exact S.real
  · simp only [dirJet, mulJ2, S.den]; ring
  · simp only [dirJet, mulJ2, S.den2, half]; ring

theorem pow_dirJet (a : Dual2 ℝ) (ha : a.WF) (p : ℝ) (α β : ℝ) (v w : String) :
    dirJet α β v w (Dual2.pow a p) = powJ2 (dirJet α β v w a) p := by
  rw [chain_dirJet (pow_spec a ha p)]
  apply J2.ext'
  · rfl
  · simp only [powJ2, dirJet]; ring
  · simp only [powJ2, dirJet]; ring

/-- REFINEMENT at second order: evaluating a formula on the list-based `Dual2` numbers yields a
shape-valid number whose value, directional first derivative and (half) directional second derivative
along ANY direction in the plane of two variable names are exactly the scalar 2-jet of the formula at
the leaves' jets. -/
theorem evalD2_refines (e : Expr) (env : Nat → Dual2 ℝ) (hwf : ∀ i, (env i).WF)
    (α β : ℝ) (v w : String) :
    (evalD2 e env).WF ∧
      dirJet α β v w (evalD2 e env) = evalJ2 e (fun i => dirJet α β v w (env i)) := by
  induction e with
  | leaf i => exact ⟨hwf i, rfl⟩
  | const c =>
    obtain ⟨h1, h2, h3, h4⟩ := new_const_spec c
    refine ⟨h1, J2.ext' h2 ?_ ?_⟩
    · simp only [evalD2, dirJet, h3, evalJ2]; ring
    · simp only [evalD2, dirJet, h4, evalJ2]; ring
  | add a b iha ihb =>
    obtain ⟨wa, ja⟩ := iha; obtain ⟨wb, jb⟩ := ihb
    have S := Dual2.add_spec false (evalD2 a env) (evalD2 b env) wa wb (by simp)
    refine ⟨S.wf, ?_⟩
    simp only [evalD2, evalJ2, ← ja, ← jb]
    apply J2.ext'
    · simp only [dirJet, S.real]
    · simp only [dirJet, S.den]; ring
    · simp only [dirJet, S.den2]; ring
  | sub a b iha ihb =>
    obtain ⟨wa, ja⟩ := iha; obtain ⟨wb, jb⟩ := ihb
    have S := Dual2.sub_spec false (evalD2 a env) (evalD2 b env) wa wb (by simp)
    refine ⟨S.wf, ?_⟩
    simp only [evalD2, evalJ2, ← ja, ← jb]
    apply J2.ext'
    · simp only [dirJet, S.real]
    · simp only [dirJet, S.den]; ring
    · simp only [dirJet, S.den2]; ring
  | mul a b iha ihb =>
    obtain ⟨wa, ja⟩ := iha; obtain ⟨wb, jb⟩ := ihb
    refine ⟨(Dual2.mul_spec false _ _ wa wb (by simp)).wf, ?_⟩
    simp only [evalD2, evalJ2, ← ja, ← jb]
    exact mul_dirJet _ _ wa wb α β v w
  | div a b iha ihb =>
    obtain ⟨wa, ja⟩ := iha; obtain ⟨wb, jb⟩ := ihb
    have wp := (pow_spec (evalD2 b env) wb (-1)).wf
    refine ⟨(Dual2.mul_spec false _ _ wa wp (by simp)).wf, ?_⟩
    simp only [evalD2, evalJ2, ← ja, ← jb, Dual2.div]
    rw [mul_dirJet _ _ wa wp α β v w, pow_dirJet _ wb]
  | neg a iha =>
    obtain ⟨wa, ja⟩ := iha
    have S := neg_spec (evalD2 a env) wa
    refine ⟨S.wf, ?_⟩
    simp only [evalD2, evalJ2, ← ja]
    rw [chain_dirJet S]
    apply J2.ext' <;> simp only [dirJet] <;> ring
  | powc a p iha =>
    obtain ⟨wa, ja⟩ := iha
    refine ⟨(pow_spec _ wa p).wf, ?_⟩
    simp only [evalD2, evalJ2, ← ja]
    exact pow_dirJet _ wa p α β v w
  | exp a iha =>
    obtain ⟨wa, ja⟩ := iha
    have S := exp_spec (evalD2 a env) wa
    refine ⟨S.wf, ?_⟩
    simp only [evalD2, evalJ2, ← ja]
    rw [chain_dirJet S]
    apply J2.ext' <;> simp only [dirJet] <;> ring
  | log a iha =>
    obtain ⟨wa, ja⟩ := iha
    have S := log_spec (evalD2 a env) wa
    refine ⟨S.wf, ?_⟩
    simp only [evalD2, evalJ2, ← ja]
    rw [chain_dirJet S]
    apply J2.ext' <;> simp only [dirJet] <;> ring
  | ncdf a iha =>
    obtain ⟨wa, ja⟩ := iha
    have S := cdf_shape_spec (evalD2 a env) wa (Transc.ncdf (evalD2 a env).real)
      (Dual.normPdf (evalD2 a env).real) (half * (Dual.normPdf (evalD2 a env).real * -(evalD2 a env).real))
    have hE : Dual2.normCdf (evalD2 a env) = _ := rfl
    refine ⟨by rw [show evalD2 (ncdf a) env = Dual2.normCdf (evalD2 a env) from rfl]; exact S.wf, ?_⟩
    simp only [evalD2, evalJ2, ← ja]
    rw [show Dual2.normCdf (evalD2 a env) = ⟨Transc.ncdf (evalD2 a env).real, (evalD2 a env).vars,
        vscaleL (Dual.normPdf (evalD2 a env).real) (evalD2 a env).dual,
        madd (mscaleL (Dual.normPdf (evalD2 a env).real) (evalD2 a env).dual2)
          (mscaleL (half * (Dual.normPdf (evalD2 a env).real * -(evalD2 a env).real))
            (outer (evalD2 a env).dual (evalD2 a env).dual))⟩ from rfl, chain_dirJet S]
    apply J2.ext' <;> simp only [dirJet, ncdf_real, normPdf_real, half] <;> ring_nf
  | nicdf a iha =>
    obtain ⟨wa, ja⟩ := iha
    have S := cdf_shape_spec (evalD2 a env) wa (Transc.nicdf (evalD2 a env).real)
      (Dual.invPdf (Transc.nicdf (evalD2 a env).real))
      (half * (Transc.powf (Dual.invPdf (Transc.nicdf (evalD2 a env).real)) 2
        * Transc.nicdf (evalD2 a env).real))
    refine ⟨by rw [show evalD2 (nicdf a) env = Dual2.invNormCdf (evalD2 a env) from rfl]; exact S.wf, ?_⟩
    simp only [evalD2, evalJ2, ← ja]
    rw [show Dual2.invNormCdf (evalD2 a env) = ⟨Transc.nicdf (evalD2 a env).real, (evalD2 a env).vars,
        vscaleL (Dual.invPdf (Transc.nicdf (evalD2 a env).real)) (evalD2 a env).dual,
        madd (mscaleL (Dual.invPdf (Transc.nicdf (evalD2 a env).real)) (evalD2 a env).dual2)
          (mscaleL (half * (Transc.powf (Dual.invPdf (Transc.nicdf (evalD2 a env).real)) 2
              * Transc.nicdf (evalD2 a env).real))
            (outer (evalD2 a env).dual (evalD2 a env).dual))⟩ from rfl, chain_dirJet S]
    apply J2.ext' <;> simp only [dirJet, nicdf_real, invPdf_real, powf_real, half] <;> ring
  | abs a iha =>
    obtain ⟨wa, ja⟩ := iha
    have ja0 : (evalJ2 a fun i => dirJet α β v w (env i)).v0 = (evalD2 a env).real := by rw [← ja]; rfl
    by_cases hpos : 0 < (evalD2 a env).real
    · have hl : Transc.ltb 0 (evalD2 a env).real = true := by rw [ltb_real]; exact decide_eq_true hpos
      have : Dual2.abs (evalD2 a env) = evalD2 a env := by simp [Dual2.abs, hl]
      refine ⟨by rw [show evalD2 (abs a) env = Dual2.abs (evalD2 a env) from rfl, this]; exact wa, ?_⟩
      simp only [evalD2, evalJ2]
      rw [this, ja0, if_pos hpos, ← ja]
    · have hl : Transc.ltb 0 (evalD2 a env).real = false := by rw [ltb_real]; exact decide_eq_false hpos
      have : Dual2.abs (evalD2 a env) = ⟨-(evalD2 a env).real, (evalD2 a env).vars,
          vscaleL (-1) (evalD2 a env).dual, mscaleL (-1) (evalD2 a env).dual2⟩ := by
        simp [Dual2.abs, hl]
      have S := scaleL_spec (evalD2 a env) wa (-(evalD2 a env).real) (-1)
      refine ⟨by rw [show evalD2 (abs a) env = Dual2.abs (evalD2 a env) from rfl, this]; exact S.wf, ?_⟩
      simp only [evalD2, evalJ2]
      rw [this, ja0, if_neg hpos, ← ja, chain_dirJet S]
      apply J2.ext' <;> simp only [dirJet] <;> ring

/-- symmetric stored Hessian, by name -/
def Sym2 (d : Dual2 ℝ) : Prop := ∀ n w, Dual2.den2 d n w = Dual2.den2 d w n

theorem chain_sym {a r : Dual2 ℝ} {f0 c1 c2 : ℝ} (S : ChainSpec a r f0 c1 c2) (h : Sym2 a) : Sym2 r := by
  intro n w
  rw [S.den2, S.den2, h n w]; ring

theorem evalD2_sym (e : Expr) (env : Nat → Dual2 ℝ) (hwf : ∀ i, (env i).WF) (hs : ∀ i, Sym2 (env i)) :
    Sym2 (evalD2 e env) := by
  have W : ∀ e : Expr, (evalD2 e env).WF := fun e => (evalD2_refines e env hwf 0 0 "" "").1
  induction e with
  | leaf i => exact hs i
  | const c => intro n w; simp only [evalD2]; rw [(new_const_spec c).2.2.2, (new_const_spec c).2.2.2]
  | add a b iha ihb =>
    intro n w
    have S := Dual2.add_spec false (evalD2 a env) (evalD2 b env) (W a) (W b) (by simp)
    simp only [evalD2]; rw [S.den2, S.den2, iha n w, ihb n w]
  | sub a b iha ihb =>
    intro n w
    have S := Dual2.sub_spec false (evalD2 a env) (evalD2 b env) (W a) (W b) (by simp)
    simp only [evalD2]; rw [S.den2, S.den2, iha n w, ihb n w]
  | mul a b iha ihb =>
    intro n w
    have S := Dual2.mul_spec false (evalD2 a env) (evalD2 b env) (W a) (W b) (by simp)
    simp only [evalD2]; rw [S.den2, S.den2, iha n w, ihb n w]; ring
  | div a b iha ihb =>
    intro n w
    have P := pow_spec (evalD2 b env) (W b) (-1)
    have hp := chain_sym P ihb
    have S := Dual2.mul_spec false (evalD2 a env) _ (W a) P.wf (by simp)
    simp only [evalD2, Dual2.div]; rw [S.den2, S.den2, iha n w, hp n w]; ring
  | neg a iha => exact chain_sym (neg_spec _ (W a)) iha
  | powc a p iha => exact chain_sym (pow_spec _ (W a) p) iha
  | exp a iha => exact chain_sym (exp_spec _ (W a)) iha
  | log a iha => exact chain_sym (log_spec _ (W a)) iha
  | ncdf a iha => exact chain_sym (cdf_shape_spec _ (W a) _ _ _) iha
  | nicdf a iha => exact chain_sym (cdf_shape_spec _ (W a) _ _ _) iha
  | abs a iha =>
    by_cases hpos : 0 < (evalD2 a env).real
    · have hl : Transc.ltb 0 (evalD2 a env).real = true := by rw [ltb_real]; exact decide_eq_true hpos
      have : Dual2.abs (evalD2 a env) = evalD2 a env := by simp [Dual2.abs, hl]
      simp only [evalD2]; rw [this]; exact iha
    · have hl : Transc.ltb 0 (evalD2 a env).real = false := by rw [ltb_real]; exact decide_eq_false hpos
      have : Dual2.abs (evalD2 a env) = ⟨-(evalD2 a env).real, (evalD2 a env).vars,
          vscaleL (-1) (evalD2 a env).dual, mscaleL (-1) (evalD2 a env).dual2⟩ := by
        simp [Dual2.abs, hl]
      simp only [evalD2]; rw [this]
      exact chain_sym (scaleL_spec _ (W a) _ (-1)) iha

end Expr
end Rateslib
