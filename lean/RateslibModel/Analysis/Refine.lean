/-
Refinement: evaluating an expression with the list-based first-order dual numbers of the model
(over ℝ) yields, for every variable name, exactly the scalar jet of the expression.
-/
import RateslibModel.Analysis.Jets
import RateslibModel.Proofs.DualOps
namespace Rateslib
open Real
open Rateslib.Dual

theorem powf_real (x p : ℝ) : Transc.powf x p = x ^ p := rfl

/-- over ℝ the guarded power of the repaired `pow` is the plain power as soon as it is multiplied by its
coefficient (`0 · x^e = 0`) -/
theorem coeffPow_real (c x e : ℝ) : c * Dual.coeffPow c x e = c * x ^ e := by
  unfold Dual.coeffPow
  by_cases h : c = 0
  · subst h; simp
  · have : Transc.eqb c (0 : ℝ) = false := by
      show decide (c = 0) = false
      simp [h]
    rw [this]; rfl
theorem exp_real (x : ℝ) : Transc.exp x = Real.exp x := rfl
theorem ln_real (x : ℝ) : Transc.ln x = Real.log x := rfl
theorem ncdf_real (x : ℝ) : Transc.ncdf x = Phi x := rfl
theorem nicdf_real (x : ℝ) : Transc.nicdf x = PhiInv x := rfl
theorem ltb_real (x y : ℝ) : Transc.ltb x y = decide (x < y) := rfl

theorem normPdf_real (x : ℝ) : Dual.normPdf x = phi x := by
  simp only [Dual.normPdf, phi, half]
  rfl

theorem invPdf_real (x : ℝ) : Dual.invPdf x = Real.sqrt (2 * π) * Real.exp (1 / 2 * x ^ (2 : ℝ)) := by
  simp only [Dual.invPdf, half]
  rfl

namespace Expr

/-- evaluation on the model's first-order dual numbers, constants promoted to variable-free duals -/
noncomputable def evalD : Expr → (Nat → Dual ℝ) → Dual ℝ
  | leaf i, env => env i
  | const c, _ => Dual.new c []
  | add a b, env => Dual.add false (evalD a env) (evalD b env)
  | sub a b, env => Dual.sub false (evalD a env) (evalD b env)
  | mul a b, env => Dual.mul false (evalD a env) (evalD b env)
  | div a b, env => Dual.div false (evalD a env) (evalD b env)
  | neg a, env => Dual.neg (evalD a env)
  | powc a p, env => Dual.pow (evalD a env) p
  | exp a, env => Dual.exp (evalD a env)
  | log a, env => Dual.log (evalD a env)
  | ncdf a, env => Dual.normCdf (evalD a env)
  | nicdf a, env => Dual.invNormCdf (evalD a env)
  | abs a, env => Dual.abs (evalD a env)

/-- (value, derivative w.r.t. the variable named `v`) -/
noncomputable def jetOf (d : Dual ℝ) (v : String) : ℝ × ℝ := (d.real, den d v)

theorem jetOf_fst (d : Dual ℝ) (v : String) : (jetOf d v).1 = d.real := rfl
theorem jetOf_snd (d : Dual ℝ) (v : String) : (jetOf d v).2 = den d v := rfl

theorem wf_scaleL (x : Dual ℝ) (s r : ℝ) (h : x.WF) : (⟨r, x.vars, vscaleL s x.dual⟩ : Dual ℝ).WF :=
  ⟨h.1, by simp [vscaleL, h.2]⟩
theorem wf_scaleR (x : Dual ℝ) (s r : ℝ) (h : x.WF) : (⟨r, x.vars, vscaleR x.dual s⟩ : Dual ℝ).WF :=
  ⟨h.1, by simp [vscaleR, h.2]⟩
theorem wf_neg (x : Dual ℝ) (r : ℝ) (h : x.WF) : (⟨r, x.vars, vneg x.dual⟩ : Dual ℝ).WF :=
  ⟨h.1, by simp [vneg, h.2]⟩

theorem wf_new' (f : ℝ) (vars : List String) : (Dual.new f vars).WF :=
  ⟨nodup_dedup vars, by simp [Dual.new, onesV]⟩

/-- Refinement of the whole evaluator, by induction on the expression: the result is shape-valid and
its (value, derivative by name) pair is the scalar jet of the expression at the leaves' pairs. -/
theorem evalD_refines (e : Expr) (env : Nat → Dual ℝ) (hwf : ∀ i, (env i).WF) (v : String) :
    (evalD e env).WF ∧ jetOf (evalD e env) v = evalJ e (fun i => jetOf (env i) v) := by
  induction e with
  | leaf i => exact ⟨hwf i, rfl⟩
  | const c =>
    refine ⟨wf_new' c [], Prod.ext rfl ?_⟩
    simp only [evalD, evalJ, jetOf_snd]
    exact lookup_not_mem _ _ _ (by simp [Dual.new, dedup])
  | add a b iha ihb =>
    obtain ⟨wa, ja⟩ := iha; obtain ⟨wb, jb⟩ := ihb
    have S := add_spec false (evalD a env) (evalD b env) wa wb (by simp)
    refine ⟨S.wf, Prod.ext ?_ ?_⟩
    · simp only [evalD, evalJ, ← ja, ← jb, jetOf_fst, S.real]
    · simp only [evalD, evalJ, ← ja, ← jb, jetOf_snd, S.den]
  | sub a b iha ihb =>
    obtain ⟨wa, ja⟩ := iha; obtain ⟨wb, jb⟩ := ihb
    have S := sub_spec false (evalD a env) (evalD b env) wa wb (by simp)
    refine ⟨S.wf, Prod.ext ?_ ?_⟩
    · simp only [evalD, evalJ, ← ja, ← jb, jetOf_fst, S.real]
    · simp only [evalD, evalJ, ← ja, ← jb, jetOf_snd, S.den]
  | mul a b iha ihb =>
    obtain ⟨wa, ja⟩ := iha; obtain ⟨wb, jb⟩ := ihb
    have S := mul_spec false (evalD a env) (evalD b env) wa wb (by simp)
    refine ⟨S.wf, Prod.ext ?_ ?_⟩
    · simp only [evalD, evalJ, ← ja, ← jb, jetOf_fst, S.real]
    · simp only [evalD, evalJ, ← ja, ← jb, jetOf_fst, jetOf_snd, S.den]
  | div a b iha ihb =>
    obtain ⟨wa, ja⟩ := iha; obtain ⟨wb, jb⟩ := ihb
    have wb_ : (⟨1 / (evalD b env).real, (evalD b env).vars,
        vscaleL (-1 / ((evalD b env).real * (evalD b env).real)) (evalD b env).dual⟩ : Dual ℝ).WF :=
      wf_scaleL _ _ _ wb
    have S := mul_spec false (evalD a env) _ wa wb_ (by simp)
    have hd := den_scaleL (evalD b env) (-1 / ((evalD b env).real * (evalD b env).real)) wb
      (1 / (evalD b env).real) v
    refine ⟨S.wf, Prod.ext ?_ ?_⟩
    · simp only [evalD, Dual.div, evalJ, ← ja, ← jb, jetOf_fst, S.real]
    · simp only [evalD, Dual.div, evalJ, ← ja, ← jb, jetOf_fst, jetOf_snd, S.den, hd]
  | neg a iha =>
    obtain ⟨wa, ja⟩ := iha
    refine ⟨wf_neg _ _ wa, Prod.ext ?_ ?_⟩
    · simp only [evalD, Dual.neg, evalJ, ← ja, jetOf_fst]
    · simp only [evalD, Dual.neg, evalJ, ← ja, jetOf_snd, den_neg _ wa]
  | powc a p iha =>
    obtain ⟨wa, ja⟩ := iha
    have w1 : (⟨(evalD a env).real, (evalD a env).vars, vscaleR (evalD a env).dual p⟩ : Dual ℝ).WF :=
      wf_scaleR _ _ _ wa
    have h1 := den_scaleR ⟨(evalD a env).real, (evalD a env).vars, vscaleR (evalD a env).dual p⟩
      (Dual.coeffPow p (evalD a env).real (p - 1)) w1 (Transc.powf (evalD a env).real p) v
    have h2 := den_scaleR (evalD a env) p wa (evalD a env).real v
    simp only [powf_real] at h1
    refine ⟨wf_scaleR ⟨_, _, vscaleR (evalD a env).dual p⟩ _ _ w1, Prod.ext ?_ ?_⟩
    · simp only [evalD, Dual.pow, evalJ, ← ja, jetOf_fst, powf_real]
    · simp only [evalD, Dual.pow, evalJ, ← ja, jetOf_fst, jetOf_snd, h1, h2, powf_real]
      rw [mul_assoc, coeffPow_real, ← mul_assoc]
  | exp a iha =>
    obtain ⟨wa, ja⟩ := iha
    refine ⟨wf_scaleL _ _ _ wa, Prod.ext ?_ ?_⟩
    · simp only [evalD, Dual.exp, evalJ, ← ja, jetOf_fst, exp_real]
    · simp only [evalD, Dual.exp, evalJ, ← ja, jetOf_fst, jetOf_snd, den_scaleL _ _ wa, exp_real]
  | log a iha =>
    obtain ⟨wa, ja⟩ := iha
    refine ⟨wf_scaleL _ _ _ wa, Prod.ext ?_ ?_⟩
    · simp only [evalD, Dual.log, evalJ, ← ja, jetOf_fst, ln_real]
    · simp only [evalD, Dual.log, evalJ, ← ja, jetOf_fst, jetOf_snd, den_scaleL _ _ wa]
  | ncdf a iha =>
    obtain ⟨wa, ja⟩ := iha
    refine ⟨wf_scaleL _ _ _ wa, Prod.ext ?_ ?_⟩
    · simp only [evalD, Dual.normCdf, evalJ, ← ja, jetOf_fst, ncdf_real]
    · simp only [evalD, Dual.normCdf, evalJ, ← ja, jetOf_fst, jetOf_snd, den_scaleL _ _ wa, normPdf_real]
  | nicdf a iha =>
    obtain ⟨wa, ja⟩ := iha
    refine ⟨wf_scaleL _ _ _ wa, Prod.ext ?_ ?_⟩
    · simp only [evalD, Dual.invNormCdf, evalJ, ← ja, jetOf_fst, nicdf_real]
    · simp only [evalD, Dual.invNormCdf, evalJ, ← ja, jetOf_fst, jetOf_snd, den_scaleL _ _ wa,
        nicdf_real, invPdf_real]
  | abs a iha =>
    obtain ⟨wa, ja⟩ := iha
    have ja1 : (evalJ a fun i => jetOf (env i) v).1 = (evalD a env).real := by rw [← ja, jetOf_fst]
    by_cases hpos : 0 < (evalD a env).real
    · have hl : Transc.ltb 0 (evalD a env).real = true := by rw [ltb_real]; exact decide_eq_true hpos
      have : Dual.abs (evalD a env) = ⟨(evalD a env).real, (evalD a env).vars, (evalD a env).dual⟩ := by
        simp [Dual.abs, hl]
      refine ⟨by rw [show evalD (abs a) env = Dual.abs (evalD a env) from rfl, this]; exact wa, ?_⟩
      simp only [evalD, evalJ]
      rw [this, ja1, if_pos hpos, ← ja]
    · have hl : Transc.ltb 0 (evalD a env).real = false := by rw [ltb_real]; exact decide_eq_false hpos
      have : Dual.abs (evalD a env)
          = ⟨-(evalD a env).real, (evalD a env).vars, vscaleL (-1) (evalD a env).dual⟩ := by
        simp [Dual.abs, hl]
      refine ⟨by rw [show evalD (abs a) env = Dual.abs (evalD a env) from rfl, this]
                 exact wf_scaleL _ _ _ wa, ?_⟩
      simp only [evalD, evalJ]
      rw [this, ja1, if_neg hpos, ← ja]
      exact Prod.ext rfl (den_scaleL _ _ wa _ v)

end Expr
end Rateslib
