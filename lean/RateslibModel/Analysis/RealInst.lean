/-
The scalar type ℝ as an instance of the model's `Transc` class (noncomputable; used only in proofs),
with the standard normal cdf Φ and an inverse.
-/
import RateslibModel.Model.Dual
import Mathlib.Analysis.SpecialFunctions.Pow.Deriv
import Mathlib.Analysis.SpecialFunctions.ExpDeriv
import Mathlib.Analysis.SpecialFunctions.Log.Deriv
import Mathlib.Analysis.SpecialFunctions.Sqrt
import Mathlib.MeasureTheory.Integral.IntervalIntegral.FundThmCalculus
import Mathlib.Analysis.Calculus.InverseFunctionTheorem.Deriv
import Mathlib.Analysis.Calculus.Deriv.MeanValue
namespace Rateslib
open Real

/-- standard normal density -/
noncomputable def phi (x : ℝ) : ℝ := 1 / Real.sqrt (2 * π) * Real.exp (-(1 / 2) * x ^ (2 : ℝ))

/-- standard normal cdf, normalised by Φ(0) = 1/2 -/
noncomputable def Phi (x : ℝ) : ℝ := 1 / 2 + ∫ t in (0 : ℝ)..x, phi t

theorem phi_pos (x : ℝ) : 0 < phi x := by
  unfold phi
  have : 0 < Real.sqrt (2 * π) := Real.sqrt_pos.2 (by positivity)
  positivity

theorem phi_cont : Continuous phi := by
  unfold phi
  have : ∀ x : ℝ, x ^ (2 : ℝ) = x ^ (2 : ℕ) := fun x => by
    rw [← Real.rpow_natCast]; norm_num
  simp only [this]
  fun_prop

theorem Phi_hasDerivAt (x : ℝ) : HasDerivAt Phi (phi x) x := by
  unfold Phi
  exact ((phi_cont.integral_hasStrictDerivAt 0 x).hasDerivAt).const_add (1 / 2)

theorem Phi_hasStrictDerivAt (x : ℝ) : HasStrictDerivAt Phi (phi x) x := by
  unfold Phi
  exact (phi_cont.integral_hasStrictDerivAt 0 x).const_add (1 / 2)

theorem Phi_strictMono : StrictMono Phi := by
  apply strictMono_of_deriv_pos
  intro x
  rw [(Phi_hasDerivAt x).deriv]
  exact phi_pos x

/-- an inverse of Φ on its range -/
noncomputable def PhiInv : ℝ → ℝ := Function.invFun Phi

theorem PhiInv_Phi (x : ℝ) : PhiInv (Phi x) = x :=
  Function.leftInverse_invFun Phi_strictMono.injective x

theorem PhiInv_hasDerivAt (p : ℝ) (hp : p ∈ Set.range Phi) :
    HasDerivAt PhiInv (1 / phi (PhiInv p)) p := by
  obtain ⟨x, rfl⟩ := hp
  rw [PhiInv_Phi]
  have h := (Phi_hasStrictDerivAt x).to_local_left_inverse (phi_pos x).ne'
    (Filter.Eventually.of_forall PhiInv_Phi)
  simpa [one_div] using h.hasDerivAt

noncomputable instance : Transc ℝ where
  exp := Real.exp
  ln := Real.log
  powf := fun x p => x ^ p
  sqrt := Real.sqrt
  pi := π
  ncdf := Phi
  nicdf := PhiInv
  trunc := fun x => if 0 ≤ x then (⌊x⌋ : ℝ) else (⌈x⌉ : ℝ)
  fmod := fun a b => a - (if 0 ≤ a / b then (⌊a / b⌋ : ℝ) else (⌈a / b⌉ : ℝ)) * b
  signum := fun x => if 0 ≤ x then 1 else -1
  ltb := fun a b => decide (a < b)
  leb := fun a b => decide (a ≤ b)
  eqb := fun a b => decide (a = b)
  ofInt := fun n => (n : ℝ)

end Rateslib
