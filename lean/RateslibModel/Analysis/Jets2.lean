/-
Second-order scalar jets (value, first derivative, HALF second derivative — the half is what the
code stores) computed with exactly the formulas of the Dual2 implementation projected on a
direction, and their soundness along twice-differentiable curves.
-/
import RateslibModel.Analysis.Jets
namespace Rateslib
open Real Filter Topology

/-- `φ` has value `a0`, first derivative `a1` and second derivative `2·a2` at `t₀`. -/
structure Jet2At (φ : ℝ → ℝ) (t₀ a0 a1 a2 : ℝ) : Prop where
  val : φ t₀ = a0
  der : ∃ φ' : ℝ → ℝ, (∀ᶠ t in 𝓝 t₀, HasDerivAt φ (φ' t) t) ∧ φ' t₀ = a1 ∧ HasDerivAt φ' (2 * a2) t₀

namespace Jet2At

theorem hasDerivAt {φ : ℝ → ℝ} {t₀ a0 a1 a2 : ℝ} (h : Jet2At φ t₀ a0 a1 a2) : HasDerivAt φ a1 t₀ := by
  obtain ⟨φ', h1, h2, _⟩ := h.der
  rw [← h2]; exact h1.self_of_nhds

theorem const (c t₀ : ℝ) : Jet2At (fun _ => c) t₀ c 0 0 :=
  ⟨rfl, fun _ => 0, Eventually.of_forall fun t => hasDerivAt_const t c, rfl, by simpa using hasDerivAt_const t₀ (0 : ℝ)⟩

theorem add {φ ψ : ℝ → ℝ} {t₀ a0 a1 a2 b0 b1 b2 : ℝ} (ha : Jet2At φ t₀ a0 a1 a2)
    (hb : Jet2At ψ t₀ b0 b1 b2) : Jet2At (fun t => φ t + ψ t) t₀ (a0 + b0) (a1 + b1) (a2 + b2) := by
  obtain ⟨φ', h1, h2, h3⟩ := ha.der
  obtain ⟨ψ', g1, g2, g3⟩ := hb.der
  refine ⟨by simp only [ha.val, hb.val], fun t => φ' t + ψ' t, ?_, by simp only [h2, g2], ?_⟩
  · filter_upwards [h1, g1] with t p q using p.add q
  · exact (h3.add g3).congr_deriv (by ring)

theorem neg {φ : ℝ → ℝ} {t₀ a0 a1 a2 : ℝ} (ha : Jet2At φ t₀ a0 a1 a2) :
    Jet2At (fun t => -φ t) t₀ (-a0) (-a1) (-a2) := by
  obtain ⟨φ', h1, h2, h3⟩ := ha.der
  refine ⟨by simp only [ha.val], fun t => -φ' t, ?_, by simp only [h2], ?_⟩
  · filter_upwards [h1] with t p using p.neg
  · exact h3.neg.congr_deriv (by ring)

theorem sub {φ ψ : ℝ → ℝ} {t₀ a0 a1 a2 b0 b1 b2 : ℝ} (ha : Jet2At φ t₀ a0 a1 a2)
    (hb : Jet2At ψ t₀ b0 b1 b2) : Jet2At (fun t => φ t - ψ t) t₀ (a0 - b0) (a1 - b1) (a2 - b2) := by
  have := ha.add hb.neg
  simpa only [sub_eq_add_neg] using this

/-- product rule to second order: `(a0 b0, a1 b0 + b1 a0, a2 b0 + b2 a0 + a1 b1)` -/
theorem mul {φ ψ : ℝ → ℝ} {t₀ a0 a1 a2 b0 b1 b2 : ℝ} (ha : Jet2At φ t₀ a0 a1 a2)
    (hb : Jet2At ψ t₀ b0 b1 b2) :
    Jet2At (fun t => φ t * ψ t) t₀ (a0 * b0) (a1 * b0 + b1 * a0) (a2 * b0 + b2 * a0 + a1 * b1) := by
  obtain ⟨φ', h1, h2, h3⟩ := ha.der
  obtain ⟨ψ', g1, g2, g3⟩ := hb.der
  have hφ := ha.hasDerivAt
  have hψ := hb.hasDerivAt
  refine ⟨by simp only [ha.val, hb.val], fun t => φ' t * ψ t + φ t * ψ' t, ?_, ?_, ?_⟩
  · filter_upwards [h1, g1] with t p q using p.mul q
  · simp only [h2, g2, ha.val, hb.val]; ring
  · have := (h3.mul hψ).add (hφ.mul g3)
    exact this.congr_deriv (by simp only [h2, g2, ha.val, hb.val]; ring)

/-- chain rule to second order for an outer function `g` with derivatives `g'`, `g''` near `a0`:
`(g a0, g' a0 · a1, ½ g'' a0 · a1² + g' a0 · a2)` -/
theorem comp {φ : ℝ → ℝ} {t₀ a0 a1 a2 : ℝ} (ha : Jet2At φ t₀ a0 a1 a2) (g g' : ℝ → ℝ) (g2 : ℝ)
    (hg : ∀ᶠ x in 𝓝 a0, HasDerivAt g (g' x) x) (hg' : HasDerivAt g' g2 a0) :
    Jet2At (fun t => g (φ t)) t₀ (g a0) (g' a0 * a1) (1 / 2 * g2 * a1 ^ 2 + g' a0 * a2) := by
  obtain ⟨φ', h1, h2, h3⟩ := ha.der
  have hφ := ha.hasDerivAt
  have hcont : Tendsto φ (𝓝 t₀) (𝓝 a0) := by
    have := hφ.continuousAt.tendsto; rwa [ha.val] at this
  refine ⟨by simp only [ha.val], fun t => g' (φ t) * φ' t, ?_, by simp only [ha.val, h2], ?_⟩
  · filter_upwards [h1, hcont.eventually hg] with t p q using q.comp t p
  · have hg'' : HasDerivAt g' g2 (φ t₀) := by rw [ha.val]; exact hg'
    have := (hg''.comp t₀ hφ).mul h3
    exact this.congr_deriv (by simp only [ha.val, h2, Function.comp]; ring)

end Jet2At

/-! ### the outer functions of C01/C02 with their first and second derivatives -/

theorem exp_jet (a0 : ℝ) : (∀ᶠ x in 𝓝 a0, HasDerivAt Real.exp (Real.exp x) x) ∧
    HasDerivAt Real.exp (Real.exp a0) a0 :=
  ⟨Eventually.of_forall Real.hasDerivAt_exp, Real.hasDerivAt_exp a0⟩

theorem log_jet (a0 : ℝ) (h : 0 < a0) : (∀ᶠ x in 𝓝 a0, HasDerivAt Real.log (1 / x) x) ∧
    HasDerivAt (fun x : ℝ => 1 / x) (-(1 / a0) * (1 / a0)) a0 := by
  refine ⟨?_, ?_⟩
  · filter_upwards [lt_mem_nhds h] with x hx
    simpa [one_div] using Real.hasDerivAt_log hx.ne'
  · have := (hasDerivAt_id a0).inv h.ne'
    simp only [one_div]
    exact this.congr_deriv (by simp only [id]; field_simp)

/-- `x ↦ x^p` with its first and second derivative near `a0` — away from 0 for every real `p`, and AT 0
exactly where `x^p` is twice differentiable there: `p ≥ 2`, and the polynomials `x¹`, `x⁰` -/
theorem rpow_jet (a0 p : ℝ) (h : a0 ≠ 0 ∨ 2 ≤ p ∨ p = 1 ∨ p = 0) :
    (∀ᶠ x in 𝓝 a0, HasDerivAt (fun x : ℝ => x ^ p) (p * x ^ (p - 1)) x) ∧
    HasDerivAt (fun x : ℝ => p * x ^ (p - 1)) (p * ((p - 1) * a0 ^ (p - 2))) a0 := by
  rcases h with h | h | h | h
  · refine ⟨?_, ?_⟩
    · filter_upwards [isOpen_ne.mem_nhds h] with x hx
      exact Real.hasDerivAt_rpow_const (Or.inl hx)
    · have := (Real.hasDerivAt_rpow_const (p := p - 1) (Or.inl h)).const_mul p
      exact this.congr_deriv (by ring_nf)
  · refine ⟨?_, ?_⟩
    · exact Eventually.of_forall fun x => Real.hasDerivAt_rpow_const (Or.inr (by linarith))
    · have := (Real.hasDerivAt_rpow_const (x := a0) (p := p - 1) (Or.inr (by linarith))).const_mul p
      exact this.congr_deriv (by ring_nf)
  · subst h
    refine ⟨?_, ?_⟩
    · exact Eventually.of_forall fun x => Real.hasDerivAt_rpow_const (Or.inr (le_refl _))
    · have hc : (fun x : ℝ => (1 : ℝ) * x ^ ((1 : ℝ) - 1)) = fun _ => (1 : ℝ) := by
        funext x; simp
      rw [hc]
      exact (hasDerivAt_const a0 (1 : ℝ)).congr_deriv (by ring)
  · subst h
    refine ⟨?_, ?_⟩
    · refine Eventually.of_forall fun x => ?_
      have hc : (fun x : ℝ => x ^ (0 : ℝ)) = fun _ => (1 : ℝ) := by funext y; simp
      rw [hc]
      exact (hasDerivAt_const x (1 : ℝ)).congr_deriv (by ring)
    · have hc : (fun x : ℝ => (0 : ℝ) * x ^ ((0 : ℝ) - 1)) = fun _ => (0 : ℝ) := by funext x; simp
      rw [hc]
      exact (hasDerivAt_const a0 (0 : ℝ)).congr_deriv (by ring)

theorem phi_hasDerivAt (x : ℝ) : HasDerivAt phi (-x * phi x) x := by
  unfold phi
  have hsq : ∀ y : ℝ, y ^ (2 : ℝ) = y ^ (2 : ℕ) := fun y => by rw [← Real.rpow_natCast]; norm_num
  simp only [hsq]
  have h1 : HasDerivAt (fun y : ℝ => -(1 / 2) * y ^ 2) (-(1 / 2) * (2 * x)) x := by
    have := (hasDerivAt_pow 2 x).const_mul (-(1 / 2) : ℝ)
    simpa using this
  have := (h1.exp).const_mul (1 / Real.sqrt (2 * π))
  exact this.congr_deriv (by ring)

theorem Phi_jet (a0 : ℝ) : (∀ᶠ x in 𝓝 a0, HasDerivAt Phi (phi x) x) ∧
    HasDerivAt phi (-a0 * phi a0) a0 :=
  ⟨Eventually.of_forall Phi_hasDerivAt, phi_hasDerivAt a0⟩

theorem range_Phi_mem_nhds (x : ℝ) : Set.range Phi ∈ 𝓝 (Phi x) := by
  have h := (Phi_hasStrictDerivAt x).map_nhds_eq (phi_pos x).ne'
  rw [← h]
  exact Filter.mem_map.2 (Filter.mem_of_superset Filter.univ_mem (fun y _ => ⟨y, rfl⟩))

theorem PhiInv_jet (p : ℝ) (hp : p ∈ Set.range Phi) :
    (∀ᶠ q in 𝓝 p, HasDerivAt PhiInv (1 / phi (PhiInv q)) q) ∧
    HasDerivAt (fun q => 1 / phi (PhiInv q)) ((1 / phi (PhiInv p)) ^ 2 * PhiInv p) p := by
  obtain ⟨x, rfl⟩ := hp
  refine ⟨?_, ?_⟩
  · filter_upwards [range_Phi_mem_nhds x] with q hq using PhiInv_hasDerivAt q hq
  · have hinv := PhiInv_hasDerivAt (Phi x) ⟨x, rfl⟩
    have hphi := (phi_hasDerivAt (PhiInv (Phi x))).comp (Phi x) hinv
    have hne : phi (PhiInv (Phi x)) ≠ 0 := (phi_pos _).ne'
    have := hphi.inv hne
    simp only [one_div]
    exact this.congr_deriv (by simp only [Function.comp]; field_simp)

theorem abs_jet_pos (a0 : ℝ) (h : 0 < a0) : (∀ᶠ x in 𝓝 a0, HasDerivAt (fun x : ℝ => |x|) ((fun _ => (1 : ℝ)) x) x) ∧
    HasDerivAt (fun _ : ℝ => (1 : ℝ)) 0 a0 := by
  refine ⟨?_, hasDerivAt_const a0 1⟩
  filter_upwards [lt_mem_nhds h] with x hx using hasDerivAt_abs_pos hx

theorem abs_jet_neg (a0 : ℝ) (h : a0 < 0) : (∀ᶠ x in 𝓝 a0, HasDerivAt (fun x : ℝ => |x|) ((fun _ => (-1 : ℝ)) x) x) ∧
    HasDerivAt (fun _ : ℝ => (-1 : ℝ)) 0 a0 := by
  refine ⟨?_, hasDerivAt_const a0 (-1)⟩
  filter_upwards [gt_mem_nhds h] with x hx using hasDerivAt_abs_neg hx

end Rateslib
