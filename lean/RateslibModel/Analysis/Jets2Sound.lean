import RateslibModel.Analysis.Jets2
namespace Rateslib
open Real Filter Topology

/-- (value, first derivative, HALF second derivative) -/
structure J2 where
  v0 : ℝ
  v1 : ℝ
  v2 : ℝ

namespace Jet2At
theorem of_eq {φ : ℝ → ℝ} {t₀ a0 a1 a2 b0 b1 b2 : ℝ} (h : Jet2At φ t₀ a0 a1 a2)
    (e0 : a0 = b0) (e1 : a1 = b1) (e2 : a2 = b2) : Jet2At φ t₀ b0 b1 b2 := by
  subst e0 e1 e2; exact h
end Jet2At

namespace Expr

/-- points at which the expression is twice differentiable -/
def Dom2 : Expr → (Nat → ℝ) → Prop
  | leaf _, _ => True
  | const _, _ => True
  | add a b, v => Dom2 a v ∧ Dom2 b v
  | sub a b, v => Dom2 a v ∧ Dom2 b v
  | mul a b, v => Dom2 a v ∧ Dom2 b v
  | div a b, v => Dom2 a v ∧ Dom2 b v ∧ evalR b v ≠ 0
  | neg a, v => Dom2 a v
  | powc a p, v => Dom2 a v ∧ (evalR a v ≠ 0 ∨ 2 ≤ p ∨ p = 1 ∨ p = 0)
  | exp a, v => Dom2 a v
  | log a, v => Dom2 a v ∧ 0 < evalR a v
  | ncdf a, v => Dom2 a v
  | nicdf a, v => Dom2 a v ∧ evalR a v ∈ Set.range Phi
  | abs a, v => Dom2 a v ∧ evalR a v ≠ 0

/-- the product of two second-order jets as `Dual2 * Dual2` computes it (mul.rs:46-74 projected on a
direction: `dual2 = A_a b0 + A_b a0 + ½(αβᵀ + βαᵀ)`) -/
noncomputable def mulJ2 (a b : J2) : J2 :=
  ⟨a.v0 * b.v0, a.v1 * b.v0 + b.v1 * a.v0,
   (a.v2 * b.v0 + b.v2 * a.v0) + 1 / 2 * (a.v1 * b.v1 + b.v1 * a.v1)⟩

/-- `Dual2::pow` (pow.rs) -/
noncomputable def powJ2 (a : J2) (p : ℝ) : J2 :=
  let coeff := p * a.v0 ^ (p - 1)
  let coeff2 := 1 / 2 * p * (p - 1) * a.v0 ^ (p - 2)
  ⟨a.v0 ^ p, a.v1 * coeff, a.v2 * coeff + (a.v1 * a.v1) * coeff2⟩

/-- second-order scalar jets with the code's formulas (Model/Dual.lean, namespace Dual2) -/
noncomputable def evalJ2 : Expr → (Nat → J2) → J2
  | leaf i, j => j i
  | const c, _ => ⟨c, 0, 0⟩
  | add a b, j => ⟨(evalJ2 a j).v0 + (evalJ2 b j).v0, (evalJ2 a j).v1 + (evalJ2 b j).v1,
                   (evalJ2 a j).v2 + (evalJ2 b j).v2⟩
  | sub a b, j => ⟨(evalJ2 a j).v0 - (evalJ2 b j).v0, (evalJ2 a j).v1 - (evalJ2 b j).v1,
                   (evalJ2 a j).v2 - (evalJ2 b j).v2⟩
  | mul a b, j => mulJ2 (evalJ2 a j) (evalJ2 b j)
  | div a b, j => mulJ2 (evalJ2 a j) (powJ2 (evalJ2 b j) (-1))
  | neg a, j => ⟨-(evalJ2 a j).v0, -(evalJ2 a j).v1, -(evalJ2 a j).v2⟩
  | powc a p, j => powJ2 (evalJ2 a j) p
  | exp a, j =>
    let x := evalJ2 a j
    let c := Real.exp x.v0
    ⟨c, c * x.v1, c * (x.v2 + 1 / 2 * (x.v1 * x.v1))⟩
  | log a, j =>
    let x := evalJ2 a j
    let s := 1 / x.v0
    ⟨Real.log x.v0, s * x.v1, s * x.v2 - (x.v1 * x.v1) * (1 / 2) * (s * s)⟩
  | ncdf a, j =>
    let x := evalJ2 a j
    let scalar := phi x.v0
    let scalar2 := scalar * -x.v0
    ⟨Phi x.v0, scalar * x.v1, scalar * x.v2 + (1 / 2 * scalar2) * (x.v1 * x.v1)⟩
  | nicdf a, j =>
    let x := evalJ2 a j
    let base := PhiInv x.v0
    let scalar := Real.sqrt (2 * π) * Real.exp (1 / 2 * base ^ (2 : ℝ))
    let scalar2 := scalar ^ (2 : ℝ) * base
    ⟨base, scalar * x.v1, scalar * x.v2 + (1 / 2 * scalar2) * (x.v1 * x.v1)⟩
  | abs a, j =>
    let x := evalJ2 a j
    if 0 < x.v0 then x else ⟨-x.v0, -1 * x.v1, -1 * x.v2⟩

theorem powJ2_sound {φ : ℝ → ℝ} {t₀ : ℝ} {a : J2} (p : ℝ) (h : Jet2At φ t₀ a.v0 a.v1 a.v2)
    (hne : a.v0 ≠ 0 ∨ 2 ≤ p ∨ p = 1 ∨ p = 0) :
    Jet2At (fun t => φ t ^ p) t₀ (powJ2 a p).v0 (powJ2 a p).v1 (powJ2 a p).v2 := by
  obtain ⟨g1, g2⟩ := rpow_jet a.v0 p hne
  have := h.comp (fun x => x ^ p) (fun x => p * x ^ (p - 1)) _ g1 g2
  exact this.of_eq rfl (by simp only [powJ2]; ring) (by simp only [powJ2]; ring)

theorem mulJ2_sound {φ ψ : ℝ → ℝ} {t₀ : ℝ} {a b : J2} (ha : Jet2At φ t₀ a.v0 a.v1 a.v2)
    (hb : Jet2At ψ t₀ b.v0 b.v1 b.v2) :
    Jet2At (fun t => φ t * ψ t) t₀ (mulJ2 a b).v0 (mulJ2 a b).v1 (mulJ2 a b).v2 :=
  (ha.mul hb).of_eq rfl rfl (by simp only [mulJ2]; ring)

/-- Second-order jet soundness: value, first derivative and half second derivative along any
twice-differentiable curve of leaf values. -/
theorem jet2_sound (e : Expr) (u : Nat → ℝ → ℝ) (t₀ : ℝ) (j : Nat → J2)
    (hu : ∀ i, Jet2At (u i) t₀ (j i).v0 (j i).v1 (j i).v2) (hd : Dom2 e (fun i => u i t₀)) :
    Jet2At (fun t => evalR e (fun i => u i t)) t₀ (evalJ2 e j).v0 (evalJ2 e j).v1 (evalJ2 e j).v2 := by
  induction e with
  | leaf i => exact hu i
  | const c => exact Jet2At.const c t₀
  | add a b iha ihb => exact (iha hd.1).add (ihb hd.2)
  | sub a b iha ihb => exact (iha hd.1).sub (ihb hd.2)
  | mul a b iha ihb => exact mulJ2_sound (iha hd.1) (ihb hd.2)
  | div a b iha ihb =>
    have hb := ihb hd.2.1
    have hne : (evalJ2 b j).v0 ≠ 0 := by rw [← hb.val]; exact hd.2.2
    have hp := powJ2_sound (-1) hb (Or.inl hne)
    have := mulJ2_sound (iha hd.1) hp
    have heq : (fun t => evalR (div a b) fun i => u i t)
        = fun t => (evalR a fun i => u i t) * (evalR b fun i => u i t) ^ (-1 : ℝ) := by
      funext t; simp only [evalR, Real.rpow_neg_one, div_eq_mul_inv]
    rw [heq]; exact this
  | neg a iha => exact (iha hd).neg
  | powc a p iha =>
    have ha := iha hd.1
    exact powJ2_sound p ha (by rw [← ha.val]; exact hd.2)
  | exp a iha =>
    have ha := iha hd
    obtain ⟨g1, g2⟩ := exp_jet (evalJ2 a j).v0
    exact (ha.comp Real.exp Real.exp _ g1 g2).of_eq rfl rfl (by simp only [evalJ2]; ring)
  | log a iha =>
    have ha := iha hd.1
    have hpos : 0 < (evalJ2 a j).v0 := by rw [← ha.val]; exact hd.2
    obtain ⟨g1, g2⟩ := log_jet (evalJ2 a j).v0 hpos
    exact (ha.comp Real.log (fun x => 1 / x) _ g1 g2).of_eq rfl rfl (by simp only [evalJ2]; ring)
  | ncdf a iha =>
    have ha := iha hd
    obtain ⟨g1, g2⟩ := Phi_jet (evalJ2 a j).v0
    exact (ha.comp Phi phi _ g1 g2).of_eq rfl rfl (by simp only [evalJ2]; ring)
  | nicdf a iha =>
    have ha := iha hd.1
    have hr : (evalJ2 a j).v0 ∈ Set.range Phi := by rw [← ha.val]; exact hd.2
    obtain ⟨g1, g2⟩ := PhiInv_jet (evalJ2 a j).v0 hr
    have hsq : ∀ y : ℝ, y ^ (2 : ℝ) = y ^ (2 : ℕ) := fun y => by rw [← Real.rpow_natCast]; norm_num
    have hs := inv_phi (PhiInv (evalJ2 a j).v0)
    refine (ha.comp PhiInv (fun q => 1 / phi (PhiInv q)) _ g1 g2).of_eq rfl ?_ ?_
    · simp only [evalJ2]; rw [hs]
    · simp only [evalJ2]; rw [hs, hsq]; ring
  | abs a iha =>
    have ha := iha hd.1
    have hne : (evalJ2 a j).v0 ≠ 0 := by rw [← ha.val]; exact hd.2
    by_cases hpos : 0 < (evalJ2 a j).v0
    · obtain ⟨g1, g2⟩ := abs_jet_pos (evalJ2 a j).v0 hpos
      have := ha.comp (fun x => |x|) (fun _ => 1) _ g1 g2
      refine this.of_eq ?_ ?_ ?_
      · simp only [evalJ2, if_pos hpos, abs_of_pos hpos]
      · simp only [evalJ2, if_pos hpos]; ring
      · simp only [evalJ2, if_pos hpos]; ring
    · have hneg : (evalJ2 a j).v0 < 0 := lt_of_le_of_ne (not_lt.1 hpos) hne
      obtain ⟨g1, g2⟩ := abs_jet_neg (evalJ2 a j).v0 hneg
      have := ha.comp (fun x => |x|) (fun _ => -1) _ g1 g2
      refine this.of_eq ?_ ?_ ?_
      · simp only [evalJ2, if_neg hpos, abs_of_neg hneg]
      · simp only [evalJ2, if_neg hpos]
      · simp only [evalJ2, if_neg hpos]; ring

end Expr
end Rateslib
