/-
Expressions over the operators of C01, their plain real evaluation, and scalar jets (value,
derivative) computed with exactly the formulas the dual-number code uses.  `jet_sound`: the jet of
an expression is its true value and true derivative wherever the expression is differentiable.
-/
import RateslibModel.Analysis.RealInst
import Mathlib.Analysis.Calculus.Deriv.Abs
namespace Rateslib
open Real

inductive Expr where
  | leaf (i : Nat)
  | const (c : ℝ)
  | add (a b : Expr)
  | sub (a b : Expr)
  | mul (a b : Expr)
  | div (a b : Expr)
  | neg (a : Expr)
  | powc (a : Expr) (p : ℝ)
  | exp (a : Expr)
  | log (a : Expr)
  | ncdf (a : Expr)
  | nicdf (a : Expr)
  | abs (a : Expr)

namespace Expr

/-- plain evaluation on real numbers -/
noncomputable def evalR : Expr → (Nat → ℝ) → ℝ
  | leaf i, v => v i
  | const c, _ => c
  | add a b, v => evalR a v + evalR b v
  | sub a b, v => evalR a v - evalR b v
  | mul a b, v => evalR a v * evalR b v
  | div a b, v => evalR a v / evalR b v
  | neg a, v => -evalR a v
  | powc a p, v => evalR a v ^ p
  | exp a, v => Real.exp (evalR a v)
  | log a, v => Real.log (evalR a v)
  | ncdf a, v => Phi (evalR a v)
  | nicdf a, v => PhiInv (evalR a v)
  | abs a, v => |evalR a v|

/-- the points at which the expression is differentiable (and its f64 evaluation meaningful) -/
def Dom : Expr → (Nat → ℝ) → Prop
  | leaf _, _ => True
  | const _, _ => True
  | add a b, v => Dom a v ∧ Dom b v
  | sub a b, v => Dom a v ∧ Dom b v
  | mul a b, v => Dom a v ∧ Dom b v
  | div a b, v => Dom a v ∧ Dom b v ∧ evalR b v ≠ 0
  | neg a, v => Dom a v
  | powc a p, v => Dom a v ∧ (evalR a v ≠ 0 ∨ 1 ≤ p ∨ p = 0)
  | exp a, v => Dom a v
  | log a, v => Dom a v ∧ 0 < evalR a v
  | ncdf a, v => Dom a v
  | nicdf a, v => Dom a v ∧ evalR a v ∈ Set.range Phi
  | abs a, v => Dom a v ∧ evalR a v ≠ 0

/-- scalar jets with the code's formulas (cf. Model/Dual.lean: mul, div, pow, exp, log, normCdf,
invNormCdf, abs) -/
noncomputable def evalJ : Expr → (Nat → ℝ × ℝ) → ℝ × ℝ
  | leaf i, v => v i
  | const c, _ => (c, 0)
  | add a b, v => ((evalJ a v).1 + (evalJ b v).1, (evalJ a v).2 + (evalJ b v).2)
  | sub a b, v => ((evalJ a v).1 - (evalJ b v).1, (evalJ a v).2 - (evalJ b v).2)
  | mul a b, v => ((evalJ a v).1 * (evalJ b v).1,
                   (evalJ a v).2 * (evalJ b v).1 + (evalJ b v).2 * (evalJ a v).1)
  | div a b, v =>
    let a0 := (evalJ a v).1; let a1 := (evalJ a v).2
    let b0 := (evalJ b v).1; let b1 := (evalJ b v).2
    (a0 * (1 / b0), a1 * (1 / b0) + ((-1 / (b0 * b0)) * b1) * a0)
  | neg a, v => (-(evalJ a v).1, -(evalJ a v).2)
  | powc a p, v => ((evalJ a v).1 ^ p, (evalJ a v).2 * p * (evalJ a v).1 ^ (p - 1))
  | exp a, v => (Real.exp (evalJ a v).1, Real.exp (evalJ a v).1 * (evalJ a v).2)
  | log a, v => (Real.log (evalJ a v).1, (1 / (evalJ a v).1) * (evalJ a v).2)
  | ncdf a, v => (Phi (evalJ a v).1, phi (evalJ a v).1 * (evalJ a v).2)
  | nicdf a, v =>
    let base := PhiInv (evalJ a v).1
    (base, (Real.sqrt (2 * π) * Real.exp (1 / 2 * base ^ (2 : ℝ))) * (evalJ a v).2)
  | abs a, v => if 0 < (evalJ a v).1 then evalJ a v else (-(evalJ a v).1, -1 * (evalJ a v).2)

theorem inv_phi (x : ℝ) : Real.sqrt (2 * π) * Real.exp (1 / 2 * x ^ (2 : ℝ)) = 1 / phi x := by
  unfold phi
  have hs : Real.sqrt (2 * π) ≠ 0 := (Real.sqrt_pos.2 (by positivity)).ne'
  have he : Real.exp (-(1 / 2) * x ^ (2 : ℝ)) ≠ 0 := (Real.exp_pos _).ne'
  rw [show (1 / 2 * x ^ (2 : ℝ)) = -(-(1 / 2) * x ^ (2 : ℝ)) by ring, Real.exp_neg]
  field_simp

/-- Jet soundness: value and derivative. -/
theorem jet_sound (e : Expr) (u : Nat → ℝ → ℝ) (u' : Nat → ℝ) (t₀ : ℝ)
    (hu : ∀ i, HasDerivAt (u i) (u' i) t₀) (hd : Dom e (fun i => u i t₀)) :
    (evalJ e (fun i => (u i t₀, u' i))).1 = evalR e (fun i => u i t₀) ∧
    HasDerivAt (fun t => evalR e (fun i => u i t)) (evalJ e (fun i => (u i t₀, u' i))).2 t₀ := by
  induction e with
  | leaf i => exact ⟨rfl, hu i⟩
  | const c => exact ⟨rfl, hasDerivAt_const t₀ c⟩
  | add a b iha ihb =>
    obtain ⟨ha0, ha1⟩ := iha hd.1; obtain ⟨hb0, hb1⟩ := ihb hd.2
    exact ⟨by simp only [evalJ, evalR, ha0, hb0], ha1.add hb1⟩
  | sub a b iha ihb =>
    obtain ⟨ha0, ha1⟩ := iha hd.1; obtain ⟨hb0, hb1⟩ := ihb hd.2
    exact ⟨by simp only [evalJ, evalR, ha0, hb0], ha1.sub hb1⟩
  | mul a b iha ihb =>
    obtain ⟨ha0, ha1⟩ := iha hd.1; obtain ⟨hb0, hb1⟩ := ihb hd.2
    refine ⟨by simp only [evalJ, evalR, ha0, hb0], ?_⟩
    exact (ha1.mul hb1).congr_deriv (by simp only [evalJ]; rw [ha0, hb0]; ring)
  | div a b iha ihb =>
    obtain ⟨ha0, ha1⟩ := iha hd.1; obtain ⟨hb0, hb1⟩ := ihb hd.2.1
    have hb : evalR b (fun i => u i t₀) ≠ 0 := hd.2.2
    refine ⟨by simp only [evalJ, evalR, ha0, hb0]; ring, ?_⟩
    exact (ha1.div hb1 hb).congr_deriv (by simp only [evalJ]; rw [ha0, hb0]; field_simp; ring)
  | neg a iha =>
    obtain ⟨ha0, ha1⟩ := iha hd
    exact ⟨by simp only [evalJ, evalR, ha0], ha1.neg⟩
  | powc a p iha =>
    obtain ⟨ha0, ha1⟩ := iha hd.1
    refine ⟨by simp only [evalJ, evalR, ha0], ?_⟩
    rcases hd.2 with h | h | h
    · exact (ha1.rpow_const (Or.inl h)).congr_deriv (by simp only [evalJ]; rw [ha0])
    · exact (ha1.rpow_const (Or.inr h)).congr_deriv (by simp only [evalJ]; rw [ha0])
    · -- x^0 is the constant 1 (also at 0): derivative 0 = a1 · 0 · x^(−1)
      subst h
      have hc : (fun t => evalR (powc a 0) fun i => u i t) = fun _ => (1 : ℝ) := by
        funext t; simp only [evalR, Real.rpow_zero]
      rw [hc]
      exact (hasDerivAt_const t₀ (1 : ℝ)).congr_deriv (by simp only [evalJ]; ring)
  | exp a iha =>
    obtain ⟨ha0, ha1⟩ := iha hd
    refine ⟨by simp only [evalJ, evalR, ha0], ?_⟩
    exact ha1.exp.congr_deriv (by simp only [evalJ]; rw [ha0])
  | log a iha =>
    obtain ⟨ha0, ha1⟩ := iha hd.1
    refine ⟨by simp only [evalJ, evalR, ha0], ?_⟩
    exact (ha1.log hd.2.ne').congr_deriv (by simp only [evalJ]; rw [ha0]; ring)
  | ncdf a iha =>
    obtain ⟨ha0, ha1⟩ := iha hd
    refine ⟨by simp only [evalJ, evalR, ha0], ?_⟩
    have := (Phi_hasDerivAt (evalR a fun i => u i t₀)).comp t₀ ha1
    exact this.congr_deriv (by simp only [evalJ]; rw [ha0])
  | nicdf a iha =>
    obtain ⟨ha0, ha1⟩ := iha hd.1
    refine ⟨by simp only [evalJ, evalR, ha0], ?_⟩
    have := (PhiInv_hasDerivAt (evalR a fun i => u i t₀) hd.2).comp t₀ ha1
    exact this.congr_deriv (by simp only [evalJ]; rw [ha0, inv_phi])
  | abs a iha =>
    obtain ⟨ha0, ha1⟩ := iha hd.1
    have hne : evalR a (fun i => u i t₀) ≠ 0 := hd.2
    by_cases hpos : 0 < evalR a (fun i => u i t₀)
    · have hj : 0 < (evalJ a fun i => (u i t₀, u' i)).1 := by rw [ha0]; exact hpos
      have e : evalJ (abs a) (fun i => (u i t₀, u' i)) = evalJ a (fun i => (u i t₀, u' i)) := by
        simp only [evalJ]; rw [if_pos hj]
      rw [e]
      refine ⟨?_, ?_⟩
      · rw [ha0]; simp only [evalR, abs_of_pos hpos]
      · exact ((hasDerivAt_abs_pos hpos).comp t₀ ha1).congr_deriv (by ring)
    · have hneg : evalR a (fun i => u i t₀) < 0 := lt_of_le_of_ne (not_lt.1 hpos) hne
      have hj : ¬ 0 < (evalJ a fun i => (u i t₀, u' i)).1 := by rw [ha0]; exact hpos
      have e : evalJ (abs a) (fun i => (u i t₀, u' i))
          = (-(evalJ a fun i => (u i t₀, u' i)).1, -1 * (evalJ a fun i => (u i t₀, u' i)).2) := by
        simp only [evalJ]; rw [if_neg hj]
      rw [e]
      refine ⟨?_, ?_⟩
      · simp only [ha0, evalR, abs_of_neg hneg]
      · exact ((hasDerivAt_abs_neg hneg).comp t₀ ha1).congr_deriv (by ring)

end Expr
end Rateslib
