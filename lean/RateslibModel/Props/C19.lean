/-
C19  Ordering, sign, remainder, sums and identities are coherent with the value.
-/
import RateslibModel.Proofs.DualOps
import Mathlib.Algebra.Field.Defs
namespace Rateslib
open Dual

section Generic
variable {α : Type} [Add α] [Sub α] [Mul α] [Div α] [Neg α] [OfNat α 0] [OfNat α 1] [OfNat α 2]
  [Transc α]

/-- Comparisons between dual numbers, and between a dual number and a float, depend only on the
values and agree with the float comparison (every scalar type, hence f64 itself). -/
theorem C19_ord (a b : Dual α) (x : α) (a2 b2 : Dual2 α) :
    Dual.lt a b = Transc.ltb a.real b.real ∧ Dual.le a b = Transc.leb a.real b.real ∧
    Dual.ltF a x = Transc.ltb a.real x ∧ Dual.fLt x b = Transc.ltb x b.real ∧
    Dual2.lt a2 b2 = Transc.ltb a2.real b2.real ∧ Dual2.le a2 b2 = Transc.leb a2.real b2.real :=
  ⟨rfl, rfl, rfl, rfl, rfl, rfl⟩

/-- Absolute value: for a positive value nothing changes; otherwise value, gradient and Hessian are
all multiplied by −1 together (array for array). -/
theorem C19_abs (a : Dual α) (a2 : Dual2 α) :
    (Transc.ltb 0 a.real = true → a.abs = a) ∧
    (Transc.ltb 0 a.real = false → a.abs = ⟨-a.real, a.vars, a.dual.map (-1 * ·)⟩) ∧
    (Transc.ltb 0 a2.real = true → a2.abs = a2) ∧
    (Transc.ltb 0 a2.real = false →
      a2.abs = ⟨-a2.real, a2.vars, a2.dual.map (-1 * ·), a2.dual2.map (fun r => r.map (-1 * ·))⟩) := by
  refine ⟨fun h => ?_, fun h => ?_, fun h => ?_, fun h => ?_⟩
  · simp [Dual.abs, h]
  · simp [Dual.abs, h, vscaleL]
  · simp [Dual2.abs, h]
  · simp [Dual2.abs, h, vscaleL, mscaleL]

/-- Summing a sequence equals adding left to right from the variable-free zero. -/
theorem C19_sum (xs : List (Dual α)) (ys : List (Dual2 α)) :
    Dual.sum xs = xs.foldl (fun acc x => Dual.add false acc x) ⟨0, [], []⟩ ∧
    Dual2.sum ys = ys.foldl (fun acc x => Dual2.add false acc x) ⟨0, [], [], []⟩ :=
  ⟨rfl, rfl⟩

/-- The remainder is defined as `a − trunc(a.real / b.real) · b` for dual operands… -/
theorem C19_rem_def (p : Bool) (a b : Dual α) (a2 b2 : Dual2 α) :
    Dual.rem p a b = Dual.sub p a (Dual.fMul (Transc.trunc (a.real / b.real)) b) ∧
    Dual2.rem p a2 b2 = Dual2.sub p a2 (Dual2.mulF b2 (Transc.trunc (a2.real / b2.real))) :=
  ⟨rfl, rfl⟩

/-- …and a float divisor leaves the derivatives unchanged (the truncated quotient is locally
constant), the value being the float remainder. -/
theorem C19_rem_float (a : Dual α) (x : α) :
    Dual.remF a x = ⟨Transc.fmod a.real x, a.vars, a.dual⟩ := rfl

end Generic

section Field
variable {α : Type} [Field α] [Transc α]

theorem wf_new (f : α) (vars : List String) : (Dual.new f vars).WF :=
  ⟨nodup_dedup vars, by simp [Dual.new, onesV]⟩

/-- `a % b = a − q·b` with `q = trunc(a.real / b.real)`, in value and in every derivative, whatever
the layouts of `a` and `b`. -/
theorem C19_rem (p : Bool) (a b : Dual α) (ha : a.WF) (hb : b.WF) (hp : p = true → a.vars = b.vars)
    (n : String) :
    (Dual.rem p a b).real = a.real - Transc.trunc (a.real / b.real) * b.real ∧
    den (Dual.rem p a b) n = den a n - Transc.trunc (a.real / b.real) * den b n := by
  set q := Transc.trunc (a.real / b.real) with hq
  have hqb : (Dual.fMul q b).WF := ⟨hb.1, by simp [Dual.fMul, vscaleL, hb.2]⟩
  have S := sub_spec p a (Dual.fMul q b) ha hqb hp
  have hd : den (Dual.fMul q b) n = q * den b n := den_scaleL b q hb _ n
  refine ⟨?_, ?_⟩
  · show (Dual.sub p a (Dual.fMul q b)).real = _
    rw [S.real]; simp only [Dual.fMul]; ring
  · show den (Dual.sub p a (Dual.fMul q b)) n = _
    rw [S.den n, hd]

/-- The zero and one elements are neutral for addition and multiplication (name by name). -/
theorem C19_neutral (a : Dual α) (ha : a.WF) (n : String) :
    ((Dual.add false (Dual.new 0 []) a).real = a.real ∧ den (Dual.add false (Dual.new 0 []) a) n = den a n) ∧
    ((Dual.add false a (Dual.new 0 [])).real = a.real ∧ den (Dual.add false a (Dual.new 0 [])) n = den a n) ∧
    ((Dual.mul false (Dual.new 1 []) a).real = a.real ∧ den (Dual.mul false (Dual.new 1 []) a) n = den a n) ∧
    ((Dual.mul false a (Dual.new 1 [])).real = a.real ∧ den (Dual.mul false a (Dual.new 1 [])) n = den a n) := by
  have hz : ∀ f : α, den (Dual.new f []) n = 0 := fun f => lookup_not_mem _ _ _ (by simp [Dual.new, dedup])
  have hr : ∀ f : α, (Dual.new f []).real = f := fun _ => rfl
  have A1 := add_spec false (Dual.new 0 []) a (wf_new 0 []) ha (by simp)
  have A2 := add_spec false a (Dual.new 0 []) ha (wf_new 0 []) (by simp)
  have M1 := mul_spec false (Dual.new 1 []) a (wf_new 1 []) ha (by simp)
  have M2 := mul_spec false a (Dual.new 1 []) ha (wf_new 1 []) (by simp)
  refine ⟨⟨?_, ?_⟩, ⟨?_, ?_⟩, ⟨?_, ?_⟩, ⟨?_, ?_⟩⟩
  · rw [A1.real, hr]; ring
  · rw [A1.den, hz]; ring
  · rw [A2.real, hr]; ring
  · rw [A2.den, hz]; ring
  · rw [M1.real, hr]; ring
  · rw [M1.den, hz, hr]; ring
  · rw [M2.real, hr]; ring
  · rw [M2.den, hz, hr]; ring

end Field

end Rateslib
