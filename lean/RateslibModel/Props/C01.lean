/-
C01  First-order automatic differentiation is exact.

`Expr` is any formula built from +, −, ×, ÷, negation, real powers, exp, log, normal cdf Φ, inverse
normal cdf and abs over leaves and constants.  `evalD e env` evaluates it with the MODEL's first-order
dual-number operations (Model/Dual.lean, tied to the Rust code by the correspondence run) on
arbitrary shape-valid dual leaves `env i` (any tagging: several names per leaf, arbitrary
coefficients, any layouts).  `evalR` is plain real evaluation.  f64 rounding and the statrs
implementation of Φ, Φ⁻¹ are modelled, not verified.
-/
import RateslibModel.Analysis.Refine
namespace Rateslib
open Real Expr
open Rateslib.Dual

/-- The value returned equals plain evaluation of the formula at the leaves' values, wherever the
formula is differentiable. -/
theorem C01_value (e : Expr) (env : Nat → Dual ℝ) (hwf : ∀ i, (env i).WF)
    (hd : Dom e (fun i => (env i).real)) :
    (evalD e env).real = evalR e (fun i => (env i).real) := by
  have hr := (evalD_refines e env hwf "").2
  have hu : ∀ i, HasDerivAt (fun t : ℝ => (env i).real + t * den (env i) "") (den (env i) "") 0 := by
    intro i
    have := ((hasDerivAt_id (0 : ℝ)).mul_const (den (env i) "")).const_add (env i).real
    simpa using this
  have hs := (jet_sound e (fun i t => (env i).real + t * den (env i) "") (fun i => den (env i) "") 0
    hu (by simpa using hd)).1
  have : (jetOf (evalD e env) "").1 = (evalD e env).real := rfl
  rw [← this, hr]
  simpa [jetOf] using hs

/-- The gradient is the true derivative: let the leaves move along ANY differentiable curve
`t ↦ u i t` through their values whose velocity at `t₀` is the leaf's sensitivity to the variable
named `v`; then the formula, as a function of `t`, has derivative at `t₀` equal to the sensitivity
to `v` that the dual-number evaluation reports. -/
theorem C01_grad_exact (e : Expr) (env : Nat → Dual ℝ) (hwf : ∀ i, (env i).WF) (v : String)
    (u : Nat → ℝ → ℝ) (t₀ : ℝ) (hu0 : ∀ i, u i t₀ = (env i).real)
    (hu : ∀ i, HasDerivAt (u i) (den (env i) v) t₀)
    (hd : Dom e (fun i => (env i).real)) :
    HasDerivAt (fun t => evalR e (fun i => u i t)) (den (evalD e env) v) t₀ := by
  have hr := (evalD_refines e env hwf v).2
  have hd' : Dom e (fun i => u i t₀) := by simpa only [hu0] using hd
  have hs := (jet_sound e u (fun i => den (env i) v) t₀ hu hd').2
  have h2 : (jetOf (evalD e env) v).2 = den (evalD e env) v := rfl
  rw [← h2, hr]
  have : (fun i => jetOf (env i) v) = (fun i => (u i t₀, den (env i) v)) := by
    funext i; simp only [jetOf, hu0]
  rw [this]; exact hs

/-- In particular the reported sensitivity to `v` is the true partial derivative with respect to the
tagged variable `v`: move `v` by `t` (every leaf responds linearly with its own coefficient for `v`),
keep every other variable fixed. -/
theorem C01_partial_derivative (e : Expr) (env : Nat → Dual ℝ) (hwf : ∀ i, (env i).WF) (v : String)
    (hd : Dom e (fun i => (env i).real)) :
    HasDerivAt (fun t => evalR e (fun i => (env i).real + t * den (env i) v))
      (den (evalD e env) v) 0 := by
  apply C01_grad_exact e env hwf v (fun i t => (env i).real + t * den (env i) v) 0
  · intro i; simp
  · intro i
    have := ((hasDerivAt_id (0 : ℝ)).mul_const (den (env i) v)).const_add (env i).real
    simpa using this
  · exact hd

/-- The result is shape-valid and its (value, sensitivity by name) pair is the scalar jet of the
formula: the list-level machinery (alignment, re-indexing, unions) never leaks into the result. -/
theorem C01_refines (e : Expr) (env : Nat → Dual ℝ) (hwf : ∀ i, (env i).WF) (v : String) :
    (evalD e env).WF ∧
      ((evalD e env).real, den (evalD e env) v)
        = evalJ e (fun i => ((env i).real, den (env i) v)) :=
  evalD_refines e env hwf v

/-- Mixing floats and duals in either operand position gives the same answer (value and sensitivity
to every name) as promoting the float to a constant — for +, −, × in both positions (÷ in both
positions: `C01_mixed_div`). -/
theorem C01_mixed_eq_promoted (f : ℝ) (d : Dual ℝ) (hd : d.WF) (v : String) :
    jetOf (Dual.addF d f) v = jetOf (Dual.add false d (Dual.new f [])) v ∧
    jetOf (Dual.fAdd f d) v = jetOf (Dual.add false (Dual.new f []) d) v ∧
    jetOf (Dual.subF d f) v = jetOf (Dual.sub false d (Dual.new f [])) v ∧
    jetOf (Dual.fSub f d) v = jetOf (Dual.sub false (Dual.new f []) d) v ∧
    jetOf (Dual.mulF d f) v = jetOf (Dual.mul false d (Dual.new f [])) v ∧
    jetOf (Dual.fMul f d) v = jetOf (Dual.mul false (Dual.new f []) d) v := by
  have hz : den (Dual.new f []) v = 0 := lookup_not_mem _ _ _ (by simp [Dual.new, dedup])
  have hr : (Dual.new f []).real = f := rfl
  have wn := wf_new' f []
  have A1 := add_spec false d (Dual.new f []) hd wn (by simp)
  have A2 := add_spec false (Dual.new f []) d wn hd (by simp)
  have S1 := sub_spec false d (Dual.new f []) hd wn (by simp)
  have S2 := sub_spec false (Dual.new f []) d wn hd (by simp)
  have M1 := mul_spec false d (Dual.new f []) hd wn (by simp)
  have M2 := mul_spec false (Dual.new f []) d wn hd (by simp)
  have hself : den (⟨d.real, d.vars, d.dual⟩ : Dual ℝ) v = den d v := rfl
  refine ⟨?_, ?_, ?_, ?_, ?_, ?_⟩
  · refine Prod.ext ?_ ?_
    · simp only [jetOf_fst, A1.real, hr]; rfl
    · simp only [jetOf_snd, A1.den, hz, add_zero]; rfl
  · refine Prod.ext ?_ ?_
    · simp only [jetOf_fst, A2.real, hr]; simp only [Dual.fAdd]; ring
    · simp only [jetOf_snd, A2.den, hz, zero_add]; rfl
  · refine Prod.ext ?_ ?_
    · simp only [jetOf_fst, S1.real, hr]; rfl
    · simp only [jetOf_snd, S1.den, hz, sub_zero]; rfl
  · refine Prod.ext ?_ ?_
    · simp only [jetOf_fst, S2.real, hr]; rfl
    · simp only [jetOf_snd, S2.den, hz, zero_sub]
      exact den_neg d hd _ v
  · refine Prod.ext ?_ ?_
    · simp only [jetOf_fst, M1.real, hr]; rfl
    · simp only [jetOf_snd, M1.den, hz, hr, zero_mul, add_zero]
      rw [show den (Dual.mulF d f) v = f * den d v from den_scaleL d f hd _ v]; ring
  · refine Prod.ext ?_ ?_
    · simp only [jetOf_fst, M2.real, hr]; simp only [Dual.fMul]; ring
    · simp only [jetOf_snd, M2.den, hz, hr, zero_mul, zero_add]
      rw [show den (Dual.fMul f d) v = f * den d v from den_scaleL d f hd _ v]; ring

theorem rpow_neg_two (x : ℝ) : x ^ ((-1 : ℝ) - 1) = 1 / (x * x) := by
  have : ((-1 : ℝ) - 1) = ((-2 : ℤ) : ℝ) := by norm_num
  rw [this, Real.rpow_intCast]
  rw [zpow_neg, zpow_ofNat, pow_two, one_div]

/-- …and for division: a dual number divided by a float, and a float divided by a dual number , equal the division with the float promoted to a constant. -/
theorem C01_mixed_div (f : ℝ) (d : Dual ℝ) (hd : d.WF) (v : String) :
    jetOf (Dual.divF d f) v = jetOf (Dual.div false d (Dual.new f [])) v ∧
    jetOf (Dual.fDiv f d) v = jetOf (Dual.div false (Dual.new f []) d) v := by
  have hz : den (Dual.new f []) v = 0 := lookup_not_mem _ _ _ (by simp [Dual.new, dedup])
  have wn := wf_new' f []
  constructor
  · -- d / f
    have wb : (⟨1 / (Dual.new f []).real, (Dual.new f []).vars,
        vscaleL (-1 / ((Dual.new f []).real * (Dual.new f []).real)) (Dual.new f []).dual⟩ : Dual ℝ).WF :=
      wf_scaleL _ _ _ wn
    have M := mul_spec false d _ hd wb (by simp)
    have hb : den (⟨1 / (Dual.new f []).real, (Dual.new f []).vars,
        vscaleL (-1 / ((Dual.new f []).real * (Dual.new f []).real)) (Dual.new f []).dual⟩ : Dual ℝ) v = 0 := by
      rw [den_scaleL (Dual.new f []) _ wn _ v, hz, mul_zero]
    refine Prod.ext ?_ ?_
    · simp only [jetOf_fst, Dual.div, M.real]; simp [Dual.divF, Dual.new, div_eq_mul_inv]
    · simp only [jetOf_snd, Dual.div, M.den, hb]
      rw [show den (Dual.divF d f) v = (1 / f) * den d v from den_scaleL d (1 / f) hd _ v]
      simp [Dual.new]; ring
  · -- f / d
    have wb : (⟨1 / d.real, d.vars, vscaleL (-1 / (d.real * d.real)) d.dual⟩ : Dual ℝ).WF :=
      wf_scaleL _ _ _ hd
    have M := mul_spec false (Dual.new f []) _ wn wb (by simp)
    have hb : den (⟨1 / d.real, d.vars, vscaleL (-1 / (d.real * d.real)) d.dual⟩ : Dual ℝ) v
        = -1 / (d.real * d.real) * den d v := den_scaleL d _ hd _ v
    refine Prod.ext ?_ ?_
    · simp only [jetOf_fst, Dual.div, M.real]
      simp [Dual.fDiv, Dual.new, div_eq_mul_inv]
    · simp only [jetOf_snd, Dual.div, M.den, hb, hz]
      rw [show den (Dual.fDiv f d) v = (-f / (d.real * d.real)) * den d v from den_scaleL d _ hd _ v]
      simp [Dual.new]; ring

/-- Owned and borrowed negation agree (the two macro expansions compute `-x` and `x * -1`). -/
theorem C01_variants (d : Dual ℝ) (hd : d.WF) (v : String) :
    jetOf (Dual.neg d) v = jetOf (Dual.negRef d) v := by
  refine Prod.ext rfl ?_
  simp only [jetOf_snd, Dual.neg, Dual.negRef]
  rw [den_neg d hd, den_scaleR d (-1) hd]; ring

/-! Non-vacuity: a concrete formula, leaves with different layouts, inside the domain:
`log (x·y) / z` with x = 2 tagged {a,b}, y = 3 tagged {b}, z = 5 tagged {c,a}. -/
noncomputable def exEnv : Nat → Dual ℝ
  | 0 => ⟨2, ["a", "b"], [1, 4]⟩
  | 1 => ⟨3, ["b"], [1]⟩
  | _ => ⟨5, ["c", "a"], [1, 2]⟩
def exExpr : Expr := .div (.log (.mul (.leaf 0) (.leaf 1))) (.leaf 2)
example : (∀ i, (exEnv i).WF) ∧ Dom exExpr (fun i => (exEnv i).real) := by
  constructor
  · intro i
    rcases i with _ | _ | i <;> exact ⟨by simp [exEnv], by simp [exEnv]⟩
  · simp only [exExpr, Dom, evalR, exEnv, true_and]
    norm_num

/-- a power with base exactly 0 is inside the domain of the theorems wherever `x^p` is differentiable there:
`p ≥ 1` and `x⁰` -/
example : Dom (.powc (.leaf 0) 1) (fun _ => (0 : ℝ)) ∧ Dom (.powc (.leaf 0) 0) (fun _ => (0 : ℝ)) := by
  refine ⟨?_, ?_⟩ <;> simp only [Dom, evalR, true_and] <;> norm_num

end Rateslib
