/-
C10  FX sensitivities are exact and the market state follows its update history.

SENSITIVITIES (Proofs/FXSens.lean): the triangulation preserves every relation closed under its arithmetic
(`fill_consistentR`); instantiated with "value `u_i/u_j`, sensitivity `value·(λ_i − λ_j)`" this gives, for
quotes given as plain numbers, `C10_sensitivity`: with `σ` the CUT of the currencies that the quote `q0`
crosses and no other quote crosses — in a tree of quotes, the two sides of the edge `q0` — the sensitivity of
EVERY cross i/j to `fx_<q0>` is `(σ i − σ j) · cross / quote`: `+cross/quote` or `−cross/quote` when the path
from i to j crosses `q0` (sign by direction of travel), `0` when it does not.  `C10_sensitivity_general` is
the same for quotes that are already dual numbers (any log-derivative potential).  SECOND ORDER
(`C10_second_order_same`, `C10_second_order_cross`): the stored (half) second derivatives are
`½·cross·(s² − s)/quote²` for one quote twice and `½·cross·s0·s1/(quote0·quote1)` for two different quotes —
the matching second derivatives of `cross ∝ quote^s`.
NO HYPOTHESIS ON POTENTIALS OR CUTS (`C10_sensitivity_tree`; Proofs/TreePotential.lean, Proofs/FXTree.lean):
whenever the first-order array is returned for `n − 1` non-zero plain-number quotes over `n` currencies, the
value potential `u` and, for every quote, a 0/1 cut `σ` that it alone crosses EXIST (a tree admits every edge
assignment as a coboundary; a potential whose only non-trivial edge is `q0` is two-valued on a connected
graph), so every sensitivity is `+cross/quote`, `−cross/quote` or `0`.
STATE MACHINE: naming, refused updates, rebuild after accepted updates, derivative-order switches.
-/
import RateslibModel.Proofs.FXInit
import RateslibModel.Proofs.FXSens
import RateslibModel.Proofs.FXTree
import RateslibModel.Analysis.RealInst
namespace Rateslib
open Real

section Generic
variable {α : Type} [Add α] [Sub α] [Mul α] [Div α] [Neg α] [OfNat α 0] [OfNat α 1] [OfNat α 2]
  [Transc α]

/-- A quote given as a plain number for pair xxxyyy is lifted to a dual number tagged `fx_xxxyyy` with
unit sensitivity; quotes that are already dual numbers keep their own variables. -/
theorem C10_naming (q : FXQuote α) (f : α) (d : Dual α) (e : Dual2 α) :
    fxVarName q = "fx_" ++ q.lhs ++ q.rhs ∧
    setOrder (.f64 f) .one [fxVarName q] = .dual ⟨f, [fxVarName q], [1]⟩ ∧
    setOrder (.f64 f) .two [fxVarName q] = .dual2 ⟨f, [fxVarName q], [1], [[0]]⟩ ∧
    setOrder (.dual d) .one [fxVarName q] = .dual d ∧
    setOrder (.dual2 e) .two [fxVarName q] = .dual2 e := by
  refine ⟨rfl, ?_, ?_, rfl, rfl⟩
  · simp [setOrder, Dual.new, dedup, onesV]
  · simp [setOrder, Dual2.new, dedup, onesV, zerosM, zerosV]

/-- the market state machine: an update or an order switch that is refused leaves the state as it is -/
inductive FxOp (α : Type) where
  | update (news : List (FXQuote α))
  | setOrder (k : ADOrder)

def fxApply (f : FXRates α) : FxOp α → FXRates α
  | .update news => match f.update news with | .ok f' => f' | .error _ => f
  | .setOrder k => match f.setAdOrder k with | .ok f' => f' | .error _ => f

/-- the quote list after replacing, for each new quote in turn, the stored quote of the same pair -/
def replaceQuotes (qs news : List (FXQuote α)) : List (FXQuote α) :=
  news.foldl
    (fun qs fxr =>
      let idx := ((List.range qs.length).zip qs).foldl (fun a p => if samePair fxr p.2 then p.1 else a) 0
      qs.set idx fxr)
    qs

/-- Updates naming unknown pairs are refused without changing anything… -/
theorem C10_refused_update_noop (f : FXRates α) (news : List (FXQuote α))
    (h : ∃ v ∈ news, ∀ x ∈ f.quotes, samePair x v = false) :
    f.update news = .error .unknownPair ∧ fxApply f (.update news) = f := by
  obtain ⟨v, hv, hx⟩ := h
  have : (news.all fun v => f.quotes.any fun x => samePair x v) = false := by
    rw [List.all_eq_false]
    refine ⟨v, hv, ?_⟩
    simp only [Bool.not_eq_true, List.any_eq_false]
    intro x hxm; simp [hx x hxm]
  constructor
  · simp [FXRates.update, this]
  · simp [fxApply, FXRates.update, this]

/-- …and an accepted update yields exactly the market built directly from the latest quotes with the
current first currency as base. -/
theorem C10_update_is_rebuild (f f' : FXRates α) (news : List (FXQuote α)) (h : f.update news = .ok f') :
    FXRates.tryNew (replaceQuotes f.quotes news) f.currencies.head? = .ok f' := by
  unfold FXRates.update at h
  split at h
  · cases h
  · exact h

/-- Switching derivative order never changes the quote list or the currency order. -/
theorem C10_order_keeps_quotes (f f' : FXRates α) (k : ADOrder) (h : f.setAdOrder k = .ok f') :
    f'.quotes = f.quotes ∧ f'.currencies = f.currencies := by
  unfold FXRates.setAdOrder at h
  split at h
  all_goals first
    | (cases h; exact ⟨rfl, rfl⟩)
    | (split at h
       · cases h
       · cases h; exact ⟨rfl, rfl⟩)

/-- Lowering the order projects every rate onto its value (no recomputation). -/
theorem C10_lowering_projects (f : FXRates α) (a : Nat → Nat → Dual α) (b : Nat → Nat → Dual2 α) :
    (f.arr = .dual a → f.setAdOrder .zero = .ok { f with arr := .f64 (fun i j => (a i j).real) }) ∧
    (f.arr = .dual2 b → f.setAdOrder .zero = .ok { f with arr := .f64 (fun i j => (b i j).real) }) ∧
    (f.arr = .dual2 b → f.setAdOrder .one = .ok { f with arr := .dual (fun i j => Dual.ofDual2 (b i j)) }) := by
  refine ⟨fun h => ?_, fun h => ?_, fun h => ?_⟩ <;> simp [FXRates.setAdOrder, h]

end Generic

/-! ### values do not depend on the derivative order — for every scalar type, so bit for bit in f64 -/
section Values
variable {α : Type} [Add α] [Sub α] [Mul α] [Div α] [Neg α] [OfNat α 0] [OfNat α 1] [OfNat α 2]
  [Transc α]


theorem dual_mul_real (p : Bool) (a b : Dual α) : (Dual.mul p a b).real = a.real * b.real := by
  unfold Dual.mul Dual.aligned
  cases varsCmp p a.vars b.vars <;> simp [Dual.toUnionVars, Dual.toNewVars]

theorem dual_recip_real (x : Dual α) : (Dual.fDiv 1 x).real = 1 / x.real := rfl

/-- taking the value is a homomorphism from the dual-number arithmetic of the triangulation to the
float arithmetic -/
theorem real_hom : FxHom (τ := Dual α) (σ := α) (fun d => d.real) :=
  ⟨fun a b => dual_mul_real false a b, dual_recip_real⟩

theorem initArr_map {τ σ : Type} [FxOps τ] [FxOps σ] (h : τ → σ) (hh : FxHom h)
    (hone : h FxOps.one = FxOps.one) (pairs : List (Nat × Nat × τ)) (zero : τ) :
    (initArr pairs zero).map h = initArr (pairs.map (fun p => (p.1, p.2.1, h p.2.2))) (h zero) := by
  rw [initArr_eq, initArr_eq]
  have hstep : ∀ (acc : FxArr τ) (p : Nat × Nat × τ),
      (initStep acc p).map h = initStep (acc.map h) (p.1, p.2.1, h p.2.2) := by
    intro acc p
    simp only [initStep, FxArr.map]
    congr 1
    rw [upd2_map, upd2_map]
    congr 1
    simp only [upd2, and_self, if_true, hh.recip]
  have h0 : (⟨fun a b => if a = b then FxOps.one else zero, fun a b => decide (a = b)⟩ : FxArr τ).map h
      = ⟨fun a b => if a = b then FxOps.one else h zero, fun a b => decide (a = b)⟩ := by
    simp only [FxArr.map]
    congr 1
    funext a b; split <;> simp [hone]
  rw [← h0]
  generalize (⟨fun a b => if a = b then FxOps.one else zero, fun a b => decide (a = b)⟩ : FxArr τ) = acc
  induction pairs generalizing acc with
  | nil => rfl
  | cons p ps ih => simp only [List.foldl_cons, List.map_cons]; rw [ih, hstep]

/-- Switching derivative order never changes a rate's value: the first-order matrix built from the
same quotes has, entry by entry, the zero-order matrix as its values — for EVERY scalar type with the
code's operations, hence bit for bit in f64: the value part of every dual-number operation the
triangulation uses (product, reciprocal) is the float operation on the values.  (This is true of the code
only since the repair of `f64 / Dual` recorded in known_findings.json: `a * x.pow(-1)` was 1 ulp off
`a / x` for some `x`.) -/
theorem C10_order_keeps_values (currencies : List String) (quotes : List (FXQuote α))
    (a1 : Nat → Nat → Dual α) (h1 : createFxArray currencies quotes .one = some (.dual a1)) :
    ∃ a0, createFxArray currencies quotes .zero = some (.f64 a0) ∧ ∀ i j, (a1 i j).real = a0 i j := by
  unfold createFxArray at h1 ⊢
  simp only at h1 ⊢
  cases hf : fill currencies.length (fillFuel currencies.length)
      (initArr (List.map (fun p => (p.1.1, p.1.2, p.2.toDual))
        (List.map (fun q => (pairIdx currencies q, setOrder q.rate ADOrder.one [fxVarName q])) quotes))
        (Dual.new (0 : α) [])) [] with
  | none => rw [hf] at h1; cases h1
  | some A =>
    rw [hf] at h1
    simp only [Option.map_some, Option.some.injEq, FxArray.dual.injEq] at h1
    have hm := fill_map (fun d : Dual α => d.real) real_hom currencies.length
      (fillFuel currencies.length)
      (initArr (List.map (fun p => (p.1.1, p.1.2, p.2.toDual))
        (List.map (fun q => (pairIdx currencies q, setOrder q.rate ADOrder.one [fxVarName q])) quotes))
        (Dual.new (0 : α) [])) []
    rw [hf] at hm
    rw [initArr_map (fun d : Dual α => d.real) real_hom rfl] at hm
    have hq : (List.map (fun p : Nat × Nat × Dual α => (p.1, p.2.1, p.2.2.real))
        (List.map (fun p => (p.1.1, p.1.2, p.2.toDual))
          (List.map (fun q => (pairIdx currencies q, setOrder q.rate ADOrder.one [fxVarName q])) quotes)))
        = List.map (fun p => (p.1.1, p.1.2, p.2.toF64))
          (List.map (fun q => (pairIdx currencies q, setOrder q.rate ADOrder.zero [fxVarName q])) quotes) := by
      simp only [List.map_map]
      apply List.map_congr_left
      intro q _
      simp only [Function.comp]
      cases q.rate <;> rfl
    rw [hq] at hm
    have hz : (Dual.new (0 : α) []).real = (0 : α) := rfl
    rw [hz] at hm
    refine ⟨(A.map fun d => d.real).fx, ?_, ?_⟩
    · rw [← hm]; rfl
    · intro i j; rw [← h1]; rfl

end Values

/-! ### sensitivities -/
section Sensitivities
open Rateslib.Dual

/-- FIRST-ORDER SENSITIVITIES OF EVERY RATE, general form (quotes of any kind): if the lifted quotes are
described by value potentials `u` and, for the variable `v`, a log-derivative potential `lam`
(`∂_v quote = quote·(lam a − lam b)`), so is every entry of the triangulated first-order array. -/
theorem C10_sensitivity_general (currencies : List String) (quotes : List (FXQuote ℝ)) (u : Nat → ℝ)
    (hu : ∀ i, u i ≠ 0) (lam : Nat → ℝ) (v : String)
    (hq : ∀ q ∈ quotes, RateRel u lam v (pairIdx currencies q).1 (pairIdx currencies q).2
      (setOrder q.rate .one [fxVarName q]).toDual)
    (a1 : Nat → Nat → Dual ℝ) (h1 : createFxArray currencies quotes .one = some (.dual a1)) :
    ∀ i j, i < currencies.length → j < currencies.length →
      (a1 i j).WF ∧ (a1 i j).real = u i / u j ∧ den (a1 i j) v = u i / u j * (lam i - lam j) :=
  fxArray_rateRel currencies quotes u hu lam v hq a1 h1

/-- FIRST-ORDER SENSITIVITIES, quotes given as plain numbers: the sensitivity of every cross i/j to the
variable `fx_<q0>` of a quote `q0` is `(σ i − σ j) · cross / quote`, `σ` the cut that `q0` alone crosses:
`± cross/quote` on the path (sign by direction of travel), `0` off it. -/
theorem C10_sensitivity (currencies : List String) (quotes : List (FXQuote ℝ)) (u : Nat → ℝ)
    (hu : ∀ i, u i ≠ 0)
    (hval : ∀ q ∈ quotes, ∃ f, q.rate = .f64 f ∧
      f = u (pairIdx currencies q).1 / u (pairIdx currencies q).2)
    (q0 : FXQuote ℝ) (f0 : ℝ) (hf0 : q0.rate = .f64 f0)
    (hf0u : f0 = u (pairIdx currencies q0).1 / u (pairIdx currencies q0).2)
    (σ : Nat → ℝ) (h0 : σ (pairIdx currencies q0).1 - σ (pairIdx currencies q0).2 = 1)
    (hoth : ∀ q ∈ quotes, fxVarName q ≠ fxVarName q0 → σ (pairIdx currencies q).1 = σ (pairIdx currencies q).2)
    (hsame : ∀ q ∈ quotes, fxVarName q = fxVarName q0 →
      pairIdx currencies q = pairIdx currencies q0 ∧ q.rate = q0.rate)
    (a1 : Nat → Nat → Dual ℝ) (h1 : createFxArray currencies quotes .one = some (.dual a1)) :
    ∀ i j, i < currencies.length → j < currencies.length →
      (a1 i j).real = u i / u j ∧
      den (a1 i j) (fxVarName q0) = (σ i - σ j) * (a1 i j).real / f0 :=
  fx_sensitivity_cut currencies quotes u hu hval q0 f0 hf0 hf0u σ h0 hoth hsame a1 h1

/-- FIRST-ORDER SENSITIVITIES ON A TREE OF PLAIN-NUMBER QUOTES, nothing assumed about potentials or cuts:
whenever the first-order array is returned for `n − 1` non-zero plain-number quotes over `n` currencies, there
are a non-vanishing `u` and, for the quote `q0`, a 0/1 cut `σ` with `σ a0 = 1`, `σ b0 = 0` such that every
cross `i/j` has value `u i / u j` and sensitivity `(σ i − σ j) · cross / quote` to `fx_<q0>` — that is
`+cross/quote`, `−cross/quote` or `0` (`C10_sensitivity_cases`). -/
theorem C10_sensitivity_tree (currencies : List String) (quotes : List (FXQuote ℝ))
    (hcount : quotes.length + 1 = currencies.length)
    (hidx : ∀ q ∈ quotes, (pairIdx currencies q).1 < currencies.length ∧
      (pairIdx currencies q).2 < currencies.length)
    (hplain : ∀ q ∈ quotes, ∃ f, q.rate = .f64 f ∧ f ≠ 0)
    (q0 : FXQuote ℝ) (hq0 : q0 ∈ quotes) (f0 : ℝ) (hf0 : q0.rate = .f64 f0)
    (hsame : ∀ q ∈ quotes, fxVarName q = fxVarName q0 →
      pairIdx currencies q = pairIdx currencies q0 ∧ q.rate = q0.rate)
    (a1 : Nat → Nat → Dual ℝ) (h1 : createFxArray currencies quotes .one = some (.dual a1)) :
    ∃ (u σ : Nat → ℝ), (∀ i, u i ≠ 0) ∧ (∀ i, i < currencies.length → σ i = 0 ∨ σ i = 1) ∧
      σ (pairIdx currencies q0).1 = 1 ∧ σ (pairIdx currencies q0).2 = 0 ∧
      ∀ i j, i < currencies.length → j < currencies.length →
        (a1 i j).real = u i / u j ∧
        den (a1 i j) (fxVarName q0) = (σ i - σ j) * (a1 i j).real / f0 :=
  fx_sensitivity_tree currencies quotes hcount hidx hplain q0 hq0 f0 hf0 hsame a1 h1

/-- the three cases of `C10_sensitivity` for a 0/1 cut, spelled out -/
theorem C10_sensitivity_cases (cross f0 si sj : ℝ) (hi : si = 0 ∨ si = 1) (hj : sj = 0 ∨ sj = 1) :
    (si - sj) * cross / f0 = cross / f0 ∨ (si - sj) * cross / f0 = -(cross / f0) ∨
    (si - sj) * cross / f0 = 0 := by
  rcases hi with rfl | rfl <;> rcases hj with rfl | rfl
  · right; right; simp
  · right; left; ring
  · left; ring
  · right; right; simp

/-- SECOND ORDER, one quote twice: `½ · cross · (s² − s) / quote²` (stored half second derivative). -/
theorem C10_second_order_same (currencies : List String) (quotes : List (FXQuote ℝ)) (u : Nat → ℝ)
    (hu : ∀ i, u i ≠ 0)
    (hval : ∀ q ∈ quotes, ∃ f, q.rate = .f64 f ∧
      f = u (pairIdx currencies q).1 / u (pairIdx currencies q).2)
    (q0 : FXQuote ℝ) (f0 : ℝ) (hf0 : q0.rate = .f64 f0)
    (hf0u : f0 = u (pairIdx currencies q0).1 / u (pairIdx currencies q0).2)
    (σ : Nat → ℝ) (h0 : σ (pairIdx currencies q0).1 - σ (pairIdx currencies q0).2 = 1)
    (hoth : ∀ q ∈ quotes, fxVarName q ≠ fxVarName q0 → σ (pairIdx currencies q).1 = σ (pairIdx currencies q).2)
    (hsame : ∀ q ∈ quotes, fxVarName q = fxVarName q0 →
      pairIdx currencies q = pairIdx currencies q0 ∧ q.rate = q0.rate)
    (a2 : Nat → Nat → Dual2 ℝ) (h2 : createFxArray currencies quotes .two = some (.dual2 a2)) :
    ∀ i j, i < currencies.length → j < currencies.length →
      Dual2.den2 (a2 i j) (fxVarName q0) (fxVarName q0)
        = 1 / 2 * (a2 i j).real * ((σ i - σ j) ^ 2 - (σ i - σ j)) / f0 ^ 2 :=
  fx_sensitivity2_same currencies quotes u hu hval q0 f0 hf0 hf0u σ h0 hoth hsame a2 h2

/-- SECOND ORDER, two different quotes: `½ · cross · s0 · s1 / (quote0 · quote1)`. -/
theorem C10_second_order_cross (currencies : List String) (quotes : List (FXQuote ℝ)) (u : Nat → ℝ)
    (hu : ∀ i, u i ≠ 0)
    (hval : ∀ q ∈ quotes, ∃ f, q.rate = .f64 f ∧
      f = u (pairIdx currencies q).1 / u (pairIdx currencies q).2)
    (q0 q1 : FXQuote ℝ) (f0 f1 : ℝ) (hf0 : q0.rate = .f64 f0) (hf1 : q1.rate = .f64 f1)
    (hf0u : f0 = u (pairIdx currencies q0).1 / u (pairIdx currencies q0).2)
    (hf1u : f1 = u (pairIdx currencies q1).1 / u (pairIdx currencies q1).2)
    (hne : fxVarName q0 ≠ fxVarName q1)
    (σ0 σ1 : Nat → ℝ)
    (h0 : σ0 (pairIdx currencies q0).1 - σ0 (pairIdx currencies q0).2 = 1)
    (h1 : σ1 (pairIdx currencies q1).1 - σ1 (pairIdx currencies q1).2 = 1)
    (hoth0 : ∀ q ∈ quotes, fxVarName q ≠ fxVarName q0 → σ0 (pairIdx currencies q).1 = σ0 (pairIdx currencies q).2)
    (hoth1 : ∀ q ∈ quotes, fxVarName q ≠ fxVarName q1 → σ1 (pairIdx currencies q).1 = σ1 (pairIdx currencies q).2)
    (hsame0 : ∀ q ∈ quotes, fxVarName q = fxVarName q0 →
      pairIdx currencies q = pairIdx currencies q0 ∧ q.rate = q0.rate)
    (hsame1 : ∀ q ∈ quotes, fxVarName q = fxVarName q1 →
      pairIdx currencies q = pairIdx currencies q1 ∧ q.rate = q1.rate)
    (a2 : Nat → Nat → Dual2 ℝ) (h2 : createFxArray currencies quotes .two = some (.dual2 a2)) :
    ∀ i j, i < currencies.length → j < currencies.length →
      Dual2.den2 (a2 i j) (fxVarName q0) (fxVarName q1)
        = 1 / 2 * (a2 i j).real * ((σ0 i - σ0 j) * (σ1 i - σ1 j)) / (f0 * f1) :=
  fx_sensitivity2_cross currencies quotes u hu hval q0 q1 f0 f1 hf0 hf1 hf0u hf1u hne σ0 σ1 h0 h1
    hoth0 hoth1 hsame0 hsame1 a2 h2

/-- SECOND ORDER ON A TREE, one quote twice, nothing assumed about potentials or cuts. -/
theorem C10_second_order_same_tree (currencies : List String) (quotes : List (FXQuote ℝ))
    (hcount : quotes.length + 1 = currencies.length)
    (hidx : ∀ q ∈ quotes, (pairIdx currencies q).1 < currencies.length ∧
      (pairIdx currencies q).2 < currencies.length)
    (hplain : ∀ q ∈ quotes, ∃ f, q.rate = .f64 f ∧ f ≠ 0)
    (q0 : FXQuote ℝ) (hq0 : q0 ∈ quotes) (f0 : ℝ) (hf0 : q0.rate = .f64 f0)
    (hsame : ∀ q ∈ quotes, fxVarName q = fxVarName q0 →
      pairIdx currencies q = pairIdx currencies q0 ∧ q.rate = q0.rate)
    (a2 : Nat → Nat → Dual2 ℝ) (h2 : createFxArray currencies quotes .two = some (.dual2 a2)) :
    ∃ σ : Nat → ℝ, (∀ i, i < currencies.length → σ i = 0 ∨ σ i = 1) ∧
      σ (pairIdx currencies q0).1 = 1 ∧ σ (pairIdx currencies q0).2 = 0 ∧
      ∀ i j, i < currencies.length → j < currencies.length →
        Dual2.den2 (a2 i j) (fxVarName q0) (fxVarName q0)
          = 1 / 2 * (a2 i j).real * ((σ i - σ j) ^ 2 - (σ i - σ j)) / f0 ^ 2 :=
  fx_sensitivity2_same_tree currencies quotes hcount hidx hplain q0 hq0 f0 hf0 hsame a2 h2

/-- SECOND ORDER ON A TREE, two different quotes, nothing assumed about potentials or cuts. -/
theorem C10_second_order_cross_tree (currencies : List String) (quotes : List (FXQuote ℝ))
    (hcount : quotes.length + 1 = currencies.length)
    (hidx : ∀ q ∈ quotes, (pairIdx currencies q).1 < currencies.length ∧
      (pairIdx currencies q).2 < currencies.length)
    (hplain : ∀ q ∈ quotes, ∃ f, q.rate = .f64 f ∧ f ≠ 0)
    (q0 q1 : FXQuote ℝ) (hq0 : q0 ∈ quotes) (hq1 : q1 ∈ quotes) (f0 f1 : ℝ)
    (hf0 : q0.rate = .f64 f0) (hf1 : q1.rate = .f64 f1) (hne : fxVarName q0 ≠ fxVarName q1)
    (hsame0 : ∀ q ∈ quotes, fxVarName q = fxVarName q0 →
      pairIdx currencies q = pairIdx currencies q0 ∧ q.rate = q0.rate)
    (hsame1 : ∀ q ∈ quotes, fxVarName q = fxVarName q1 →
      pairIdx currencies q = pairIdx currencies q1 ∧ q.rate = q1.rate)
    (a2 : Nat → Nat → Dual2 ℝ) (h2 : createFxArray currencies quotes .two = some (.dual2 a2)) :
    ∃ σ0 σ1 : Nat → ℝ, (∀ i, i < currencies.length → σ0 i = 0 ∨ σ0 i = 1) ∧
      (∀ i, i < currencies.length → σ1 i = 0 ∨ σ1 i = 1) ∧
      ∀ i j, i < currencies.length → j < currencies.length →
        Dual2.den2 (a2 i j) (fxVarName q0) (fxVarName q1)
          = 1 / 2 * (a2 i j).real * ((σ0 i - σ0 j) * (σ1 i - σ1 j)) / (f0 * f1) :=
  fx_sensitivity2_cross_tree currencies quotes hcount hidx hplain q0 q1 hq0 hq1 f0 f1 hf0 hf1 hne
    hsame0 hsame1 a2 h2

end Sensitivities

end Rateslib
