/-
C07  Built-in holiday calendars agree with their published rules.

The constants `Gen.*` are REGENERATED on every run from the running code (harness `dump tables`:
get_calendar_by_name for each name, then is_weekday / is_holiday on each of the 84 371 dates
1970-01-01..2200-12-31), from the get_calendar docstring and from the nine fixing CSV files; the
kernel re-checks every theorem below against what the code says now (`decide +kernel`, no axioms
beyond the three standard ones).  `Gen.wdHols_x` = ascending day numbers of the holidays of "x" that
fall on a working weekday, so "d is reported a holiday on a weekday" is `d ∈ Gen.wdHols_x`.
-/
import RateslibModel.Proofs.Holidays
import RateslibModel.Proofs.C07.All
import RateslibModel.Proofs.C07.FedNyc
import RateslibModel.Proofs.C07.DocNames
namespace Rateslib

/-- Reading of the rule tables: `d ∈ ruleDates rs` iff `d` is a Monday–Friday of 1970..2200 that is an
observed date of some rule of `rs` for some reference year. -/
theorem C07_rule_semantics (rs : List Rule) (d : Int) :
    d ∈ ruleDates rs ↔
      (rangeLo ≤ d ∧ d ≤ rangeHi ∧ isMonFri d = true ∧ ∃ y ∈ refYears, ∃ r ∈ rs, d ∈ r.dates y) :=
  mem_ruleDates rs d

/-- "tgt": every weekday from 1970 to 2200 is reported as a holiday exactly when the published rules
make it one; the working week is Monday–Friday. -/
theorem C07_full_tgt (d : Int) :
    (d ∈ Gen.wdHols_tgt ↔
      (rangeLo ≤ d ∧ d ≤ rangeHi ∧ isMonFri d = true ∧ ∃ y ∈ refYears, ∃ r ∈ tgtRules, d ∈ r.dates y))
    ∧ Gen.mask_tgt = [5, 6] := by
  rw [C07.full_tgt.1]; exact ⟨mem_ruleDates _ d, C07.full_tgt.2⟩

/-- "nyc": every weekday from 1970 to 2200 is reported as a holiday exactly when the published rules
make it one; the working week is Monday–Friday. -/
theorem C07_full_nyc (d : Int) :
    (d ∈ Gen.wdHols_nyc ↔
      (rangeLo ≤ d ∧ d ≤ rangeHi ∧ isMonFri d = true ∧ ∃ y ∈ refYears, ∃ r ∈ nycRules, d ∈ r.dates y))
    ∧ Gen.mask_nyc = [5, 6] := by
  rw [C07.full_nyc.1]; exact ⟨mem_ruleDates _ d, C07.full_nyc.2⟩

/-- "fed": every weekday from 1970 to 2200 is reported as a holiday exactly when the published rules
make it one; the working week is Monday–Friday. -/
theorem C07_full_fed (d : Int) :
    (d ∈ Gen.wdHols_fed ↔
      (rangeLo ≤ d ∧ d ≤ rangeHi ∧ isMonFri d = true ∧ ∃ y ∈ refYears, ∃ r ∈ fedRules, d ∈ r.dates y))
    ∧ Gen.mask_fed = [5, 6] := by
  rw [C07.full_fed.1]; exact ⟨mem_ruleDates _ d, C07.full_fed.2⟩

/-- "ldn": every weekday from 1970 to 2200 is reported as a holiday exactly when the published rules
make it one; the working week is Monday–Friday. -/
theorem C07_full_ldn (d : Int) :
    (d ∈ Gen.wdHols_ldn ↔
      (rangeLo ≤ d ∧ d ≤ rangeHi ∧ isMonFri d = true ∧ ∃ y ∈ refYears, ∃ r ∈ ldnRules, d ∈ r.dates y))
    ∧ Gen.mask_ldn = [5, 6] := by
  rw [C07.full_ldn.1]; exact ⟨mem_ruleDates _ d, C07.full_ldn.2⟩

/-- "stk": every weekday from 1970 to 2200 is reported as a holiday exactly when the published rules
make it one; the working week is Monday–Friday. -/
theorem C07_full_stk (d : Int) :
    (d ∈ Gen.wdHols_stk ↔
      (rangeLo ≤ d ∧ d ≤ rangeHi ∧ isMonFri d = true ∧ ∃ y ∈ refYears, ∃ r ∈ stkRules, d ∈ r.dates y))
    ∧ Gen.mask_stk = [5, 6] := by
  rw [C07.full_stk.1]; exact ⟨mem_ruleDates _ d, C07.full_stk.2⟩

/-- "osl": every weekday from 1970 to 2200 is reported as a holiday exactly when the published rules
make it one; the working week is Monday–Friday. -/
theorem C07_full_osl (d : Int) :
    (d ∈ Gen.wdHols_osl ↔
      (rangeLo ≤ d ∧ d ≤ rangeHi ∧ isMonFri d = true ∧ ∃ y ∈ refYears, ∃ r ∈ oslRules, d ∈ r.dates y))
    ∧ Gen.mask_osl = [5, 6] := by
  rw [C07.full_osl.1]; exact ⟨mem_ruleDates _ d, C07.full_osl.2⟩

/-- "zur": every weekday from 1970 to 2200 is reported as a holiday exactly when the published rules
make it one; the working week is Monday–Friday. -/
theorem C07_full_zur (d : Int) :
    (d ∈ Gen.wdHols_zur ↔
      (rangeLo ≤ d ∧ d ≤ rangeHi ∧ isMonFri d = true ∧ ∃ y ∈ refYears, ∃ r ∈ zurRules, d ∈ r.dates y))
    ∧ Gen.mask_zur = [5, 6] := by
  rw [C07.full_zur.1]; exact ⟨mem_ruleDates _ d, C07.full_zur.2⟩

/-- 'all' and 'bus' have no holidays (and 'all' has no weekend). -/
theorem C07_all_bus :
    Gen.wdHols_all = [] ∧ Gen.weHols_all = [] ∧ Gen.mask_all = [] ∧
    Gen.wdHols_bus = [] ∧ Gen.weHols_bus = [] ∧ Gen.mask_bus = [5, 6] := C07.all_bus

/-- 'fed' is the 'nyc' calendar without Good Friday. -/
theorem C07_fed_is_nyc_minus_good_friday :
    Gen.wdHols_fed = Gen.wdHols_nyc.filter (fun d => !C07.goodFridays.contains d)
    ∧ Gen.mask_fed = Gen.mask_nyc := C07.fed_is_nyc_minus_good_friday

/-- "tro": every weekday occurrence of its documented fixed-date and Easter-linked holidays is a holiday. -/
theorem C07_partial_tro (d : Int) (h : d ∈ ruleDates troPartial) : d ∈ Gen.wdHols_tro :=
  subsetSorted_sound _ _ C07.partial_tro.1 d h

/-- "tyo": every weekday occurrence of its documented fixed-date and Easter-linked holidays is a holiday. -/
theorem C07_partial_tyo (d : Int) (h : d ∈ ruleDates tyoPartial) : d ∈ Gen.wdHols_tyo :=
  subsetSorted_sound _ _ C07.partial_tyo.1 d h

/-- "syd": every weekday occurrence of its documented fixed-date and Easter-linked holidays is a holiday. -/
theorem C07_partial_syd (d : Int) (h : d ∈ ruleDates sydPartial) : d ∈ Gen.wdHols_syd :=
  subsetSorted_sound _ _ C07.partial_syd.1 d h

/-- "wlg": every weekday occurrence of its documented fixed-date and Easter-linked holidays is a holiday. -/
theorem C07_partial_wlg (d : Int) (h : d ∈ ruleDates wlgPartial) : d ∈ Gen.wdHols_wlg :=
  subsetSorted_sound _ _ C07.partial_wlg.1 d h

/-- "mum": every weekday occurrence of its documented fixed-date and Easter-linked holidays is a holiday. -/
theorem C07_partial_mum (d : Int) (h : d ∈ ruleDates mumPartial) : d ∈ Gen.wdHols_mum :=
  subsetSorted_sound _ _ C07.partial_mum.1 d h

/-- Every calendar name listed in the documentation resolves. -/
theorem C07_doc_names_resolve :
    (Gen.docNameResolution.map Prod.snd).all id = true ∧ Gen.docNameResolution.length ≥ 1 :=
  C07.doc_names_resolve

theorem C07_builtin_names_resolve :
    [Gen.resolves_all, Gen.resolves_bus, Gen.resolves_nyc, Gen.resolves_fed, Gen.resolves_tgt,
     Gen.resolves_ldn, Gen.resolves_stk, Gen.resolves_osl, Gen.resolves_zur, Gen.resolves_tro,
     Gen.resolves_tyo, Gen.resolves_syd, Gen.resolves_wlg, Gen.resolves_mum].all id = true :=
  C07.builtin_names_resolve

/-- usd/nyc: over the period covered by the fixing history the calendar's business days are exactly
the publication dates (`busDaysCheck` walks every day from the first to the last publication date and
requires each business day to be the next publication date, and nothing to be left over). -/
theorem C07_fixings_usd :
    Gen.fixingDates_usd ≠ [] ∧
    busDaysCheck Gen.mask_nyc
      ((Gen.fixingDates_usd.getLast?.getD 0 - Gen.fixingDates_usd.headD 0 + 1).toNat)
      (Gen.fixingDates_usd.headD 0) Gen.wdHols_nyc Gen.fixingDates_usd = true := C07.fixings_usd

/-- gbp/ldn: over the period covered by the fixing history the calendar's business days are exactly
the publication dates (`busDaysCheck` walks every day from the first to the last publication date and
requires each business day to be the next publication date, and nothing to be left over). -/
theorem C07_fixings_gbp :
    Gen.fixingDates_gbp ≠ [] ∧
    busDaysCheck Gen.mask_ldn
      ((Gen.fixingDates_gbp.getLast?.getD 0 - Gen.fixingDates_gbp.headD 0 + 1).toNat)
      (Gen.fixingDates_gbp.headD 0) Gen.wdHols_ldn Gen.fixingDates_gbp = true := C07.fixings_gbp

/-- cad/tro: over the period covered by the fixing history the calendar's business days are exactly
the publication dates (`busDaysCheck` walks every day from the first to the last publication date and
requires each business day to be the next publication date, and nothing to be left over). -/
theorem C07_fixings_cad :
    Gen.fixingDates_cad ≠ [] ∧
    busDaysCheck Gen.mask_tro
      ((Gen.fixingDates_cad.getLast?.getD 0 - Gen.fixingDates_cad.headD 0 + 1).toNat)
      (Gen.fixingDates_cad.headD 0) Gen.wdHols_tro Gen.fixingDates_cad = true := C07.fixings_cad

/-- eur/tgt: over the period covered by the fixing history the calendar's business days are exactly
the publication dates (`busDaysCheck` walks every day from the first to the last publication date and
requires each business day to be the next publication date, and nothing to be left over). -/
theorem C07_fixings_eur :
    Gen.fixingDates_eur ≠ [] ∧
    busDaysCheck Gen.mask_tgt
      ((Gen.fixingDates_eur.getLast?.getD 0 - Gen.fixingDates_eur.headD 0 + 1).toNat)
      (Gen.fixingDates_eur.headD 0) Gen.wdHols_tgt Gen.fixingDates_eur = true := C07.fixings_eur

/-- jpy/tyo: over the period covered by the fixing history the calendar's business days are exactly
the publication dates (`busDaysCheck` walks every day from the first to the last publication date and
requires each business day to be the next publication date, and nothing to be left over). -/
theorem C07_fixings_jpy :
    Gen.fixingDates_jpy ≠ [] ∧
    busDaysCheck Gen.mask_tyo
      ((Gen.fixingDates_jpy.getLast?.getD 0 - Gen.fixingDates_jpy.headD 0 + 1).toNat)
      (Gen.fixingDates_jpy.headD 0) Gen.wdHols_tyo Gen.fixingDates_jpy = true := C07.fixings_jpy

/-- sek/stk: over the period covered by the fixing history the calendar's business days are exactly
the publication dates (`busDaysCheck` walks every day from the first to the last publication date and
requires each business day to be the next publication date, and nothing to be left over). -/
theorem C07_fixings_sek :
    Gen.fixingDates_sek ≠ [] ∧
    busDaysCheck Gen.mask_stk
      ((Gen.fixingDates_sek.getLast?.getD 0 - Gen.fixingDates_sek.headD 0 + 1).toNat)
      (Gen.fixingDates_sek.headD 0) Gen.wdHols_stk Gen.fixingDates_sek = true := C07.fixings_sek

/-- nok/osl: over the period covered by the fixing history the calendar's business days are exactly
the publication dates (`busDaysCheck` walks every day from the first to the last publication date and
requires each business day to be the next publication date, and nothing to be left over). -/
theorem C07_fixings_nok :
    Gen.fixingDates_nok ≠ [] ∧
    busDaysCheck Gen.mask_osl
      ((Gen.fixingDates_nok.getLast?.getD 0 - Gen.fixingDates_nok.headD 0 + 1).toNat)
      (Gen.fixingDates_nok.headD 0) Gen.wdHols_osl Gen.fixingDates_nok = true := C07.fixings_nok

/-- aud/syd: over the period covered by the fixing history the calendar's business days are exactly
the publication dates (`busDaysCheck` walks every day from the first to the last publication date and
requires each business day to be the next publication date, and nothing to be left over). -/
theorem C07_fixings_aud :
    Gen.fixingDates_aud ≠ [] ∧
    busDaysCheck Gen.mask_syd
      ((Gen.fixingDates_aud.getLast?.getD 0 - Gen.fixingDates_aud.headD 0 + 1).toNat)
      (Gen.fixingDates_aud.headD 0) Gen.wdHols_syd Gen.fixingDates_aud = true := C07.fixings_aud

/-- inr/mum: over the period covered by the fixing history the calendar's business days are exactly
the publication dates (`busDaysCheck` walks every day from the first to the last publication date and
requires each business day to be the next publication date, and nothing to be left over). -/
theorem C07_fixings_inr :
    Gen.fixingDates_inr ≠ [] ∧
    busDaysCheck Gen.mask_mum
      ((Gen.fixingDates_inr.getLast?.getD 0 - Gen.fixingDates_inr.headD 0 + 1).toNat)
      (Gen.fixingDates_inr.headD 0) Gen.wdHols_mum Gen.fixingDates_inr = true := C07.fixings_inr

/-! Non-vacuity: the rules generate what one expects on known dates. -/
example : easterDay 2024 = toDay 2024 3 31 := by decide
example : toDay 2024 3 29 ∈ ruleDates nycRules := by decide +kernel      -- Good Friday 2024
example : ¬ toDay 2024 3 29 ∈ ruleDates fedRules := by decide +kernel
example : toDay 2022 6 20 ∈ ruleDates fedRules := by decide +kernel      -- Juneteenth observed (Sunday → Monday)
example : toDay 2020 5 8 ∈ ruleDates ldnRules ∧ ¬ toDay 2020 5 4 ∈ ruleDates ldnRules := by decide +kernel

end Rateslib
