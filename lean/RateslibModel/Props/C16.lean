/-
C16  Saving and loading an object gives back an equal object.

PROVED: the binary pickling format, as modelled in Model/Serde.lean (bincode 1.3 + serde derive
layout: fixed-width little-endian integers, f64 bit patterns, length-prefixed sequences and strings,
u32 variant indices, Option tags, ndarray's {v, dim, data}), round-trips: for every value whose sizes
fit in 64 bits, decoding what was encoded — followed by anything — returns exactly that value and the
untouched remainder.  Floats are arbitrary 64-bit patterns, so "all finite floating-point contents"
(and more) is covered.  The model's bytes are compared byte for byte with the implementation's on every
run.
PARTIAL (DESIGN.md "C16 partial"): the JSON text layer (serde_json, ryu), the tagged entry point,
Cal/UnionCal (hash-ordered bytes) and "answers every query identically" are
validated by model-free round trips on the real code (they exposed a genuine defect, since repaired),
not by theorems.
-/
import RateslibModel.Proofs.Serde
namespace Rateslib.Serde

theorem C16_bincode_dual (d : SDual) (h : ValidDual d) (rest : Bytes) :
    decDual (encDual d ++ rest) = some (d, rest) := lawful_dual d h rest

theorem C16_bincode_dual2 (d : SDual2) (h : ValidDual2 d) (rest : Bytes) :
    decDual2 (encDual2 d ++ rest) = some (d, rest) := lawful_dual2 d h rest

theorem C16_bincode_number (x : SNumber) (h : ValidNumber x) (rest : Bytes) :
    decNumber (encNumber x ++ rest) = some (x, rest) := lawful_number x h rest

/-- splines of all three types (coefficients floats, Dual or Dual2; solved or not) -/
theorem C16_bincode_spline_f64 (s : SSpline Nat) (h : ValidSpline (fun b => b < 2 ^ 64) s) (rest : Bytes) :
    decSpline decU64 (encSpline encU64 s ++ rest) = some (s, rest) :=
  lawful_spline encU64 decU64 _ lawful_u64 s h rest

theorem C16_bincode_spline_dual (s : SSpline SDual) (h : ValidSpline ValidDual s) (rest : Bytes) :
    decSpline decDual (encSpline encDual s ++ rest) = some (s, rest) :=
  lawful_spline encDual decDual _ lawful_dual s h rest

theorem C16_bincode_spline_dual2 (s : SSpline SDual2) (h : ValidSpline ValidDual2 s) (rest : Bytes) :
    decSpline decDual2 (encSpline encDual2 s ++ rest) = some (s, rest) :=
  lawful_spline encDual2 decDual2 _ lawful_dual2 s h rest

/-- an FX market is stored as its quotes and currencies only -/
theorem C16_bincode_fxrates (f : SFXRates) (h : ValidFXRates f) (rest : Bytes) :
    decFXRates (encFXRates f ++ rest) = some (f, rest) := lawful_fxrates f h rest

/-- a named calendar is stored by name only -/
theorem C16_bincode_named_cal (name : Bytes) (h : name.length < 2 ^ 64) (rest : Bytes) :
    decNamedCal (encNamedCal name ++ rest) = some (name, rest) := lawful_str name h rest

/-- a curve with a named calendar: typed node map (all nodes of the map's kind), interpolator, id,
convention, modifier, optional index base, calendar name -/
theorem C16_bincode_curve (c : SCurve) (h : ValidCurve c) (rest : Bytes) :
    decCurve (encCurve c ++ rest) = some (c, rest) := lawful_curve c h rest

/-! Non-vacuity: the bytes observed for `Dual(2.5, [x, yy], [1.0, -0.5])`. -/
example : encDual ⟨0x4004000000000000, [[0x78], [0x79, 0x79]], ⟨2, [0x3ff0000000000000, 0xbfe0000000000000]⟩⟩
    = [0,0,0,0,0,0,4,0x40, 2,0,0,0,0,0,0,0, 1,0,0,0,0,0,0,0, 0x78, 2,0,0,0,0,0,0,0, 0x79,0x79,
       1, 2,0,0,0,0,0,0,0, 2,0,0,0,0,0,0,0, 0,0,0,0,0,0,0xf0,0x3f, 0,0,0,0,0,0,0xe0,0xbf] := by decide

end Rateslib.Serde
