/-
C16  Saving and loading an object gives back an equal object.

PROVED: the binary pickling format, as modelled in Model/Serde.lean (bincode 1.3 + serde derive
layout: fixed-width little-endian integers, f64 bit patterns, length-prefixed sequences and strings,
u32 variant indices, Option tags, ndarray's {v, dim, data}), round-trips: for every value whose sizes
fit in 64 bits, decoding what was encoded — followed by anything — returns exactly that value and the
untouched remainder.  Floats are arbitrary 64-bit patterns, so "all finite floating-point contents"
(and more) is covered.  The model's bytes are compared byte for byte with the implementation's on every
run.
PROVED (JSON, document level): the documents `to_json` writes for every serialisable type (numbers of every kind, the three calendar kinds,
curves of every node and calendar kind, splines of every coefficient type, FX markets) — the
forms `writeDual`, `writeDual2`, `writeNumber`, `writeCal`, `writeUnionCal`, `writeNamedCal`, `writeCurveG`,
`writeSplineG`, `writeFXRates` of Model/Load.lean, recognised in the implementation's own
output on every run (`written` lines) — are accepted by the loader model with exactly the written shape,
whenever the contents satisfy the type invariants.
PARTIAL (DESIGN.md "C16 partial"): the JSON text layer (serde_json, ryu), the tagged entry point,
Cal/UnionCal (hash-ordered bytes) and "answers every query identically" are
validated by model-free round trips on the real code (they exposed a genuine defect, since repaired),
not by theorems.
-/
import RateslibModel.Proofs.Serde
import RateslibModel.Proofs.WriteLoad
namespace Rateslib.Serde

theorem C16_bincode_dual (d : SDual) (h : ValidDual d) (rest : Bytes) :
    decDual (encDual d ++ rest) = some (d, rest) := lawful_dual d h rest

theorem C16_bincode_dual2 (d : SDual2) (h : ValidDual2 d) (rest : Bytes) :
    decDual2 (encDual2 d ++ rest) = some (d, rest) := lawful_dual2 d h rest

theorem C16_bincode_number (x : SNumber) (h : ValidNumber x) (rest : Bytes) :
    decNumber (encNumber x ++ rest) = some (x, rest) := lawful_number x h rest

/-- splines of all three types (coefficients floats, Dual or Dual2; solved or not) -/
theorem C16_bincode_spline_f64 (s : SSpline Nat) (h : ValidSpline (fun b => b < 2 ^ 64) s) (rest : Bytes) :
    decSpline decU64 (encSpline encU64 s ++ rest) = some (s, rest) :=
  lawful_spline encU64 decU64 _ lawful_u64 s h rest

theorem C16_bincode_spline_dual (s : SSpline SDual) (h : ValidSpline ValidDual s) (rest : Bytes) :
    decSpline decDual (encSpline encDual s ++ rest) = some (s, rest) :=
  lawful_spline encDual decDual _ lawful_dual s h rest

theorem C16_bincode_spline_dual2 (s : SSpline SDual2) (h : ValidSpline ValidDual2 s) (rest : Bytes) :
    decSpline decDual2 (encSpline encDual2 s ++ rest) = some (s, rest) :=
  lawful_spline encDual2 decDual2 _ lawful_dual2 s h rest

/-- an FX market is stored as its quotes and currencies only -/
theorem C16_bincode_fxrates (f : SFXRates) (h : ValidFXRates f) (rest : Bytes) :
    decFXRates (encFXRates f ++ rest) = some (f, rest) := lawful_fxrates f h rest

/-- a named calendar is stored by name only -/
theorem C16_bincode_named_cal (name : Bytes) (h : name.length < 2 ^ 64) (rest : Bytes) :
    decNamedCal (encNamedCal name ++ rest) = some (name, rest) := lawful_str name h rest

/-- a curve with a named calendar: typed node map (all nodes of the map's kind), interpolator, id,
convention, modifier, optional index base, calendar name -/
theorem C16_bincode_curve (c : SCurve) (h : ValidCurve c) (rest : Bytes) :
    decCurve (encCurve c ++ rest) = some (c, rest) := lawful_curve c h rest

/-! Non-vacuity: the bytes observed for `Dual(2.5, [x, yy], [1.0, -0.5])`. -/
example : encDual ⟨0x4004000000000000, [[0x78], [0x79, 0x79]], ⟨2, [0x3ff0000000000000, 0xbfe0000000000000]⟩⟩
    = [0,0,0,0,0,0,4,0x40, 2,0,0,0,0,0,0,0, 1,0,0,0,0,0,0,0, 0x78, 2,0,0,0,0,0,0,0, 0x79,0x79,
       1, 2,0,0,0,0,0,0,0, 2,0,0,0,0,0,0,0, 0,0,0,0,0,0,0xf0,0x3f, 0,0,0,0,0,0,0xe0,0xbf] := by decide

end Rateslib.Serde

namespace Rateslib
open Load

/-- A saved first-order number loads: the document `to_json` writes for a number with distinct names and one
coefficient per name is accepted, with that many names and coefficients. -/
theorem C16_written_dual_loads (re : JNum) (names : List String) (d : List JNum) (hn : names.Nodup)
    (hl : d.length = names.length) (hsz : d.length < 2 ^ 64) :
    loadDual (writeDual re names d) = some ⟨names.length, names.length⟩ :=
  load_written_dual re names d hn hl hsz

/-- A saved second-order number loads (n names, n coefficients, an n × n second-order block). -/
theorem C16_written_dual2_loads (re : JNum) (names : List String) (d h : List JNum) (hn : names.Nodup)
    (hl : d.length = names.length) (hh : h.length = names.length * names.length) (hsz : d.length < 2 ^ 64) :
    loadDual2 (writeDual2 re names d h) = some ⟨names.length, names.length, names.length, names.length⟩ :=
  load_written_dual2 re names d h hn hl hh hsz

/-- A saved float-noded curve loads with ALL its nodes: distinct timestamps written as integer literals (of any
sign and digit count), any interpolation rule, convention and modifier, with or without an index base. -/
theorem C16_written_curve_loads (table : String → Option Cal) (keys : List String) (ks : List Int)
    (vals : List JNum) (interp id conv modi : String) (base : Option JNum) (cal : String)
    (hk : keys.map parseI64Key = ks.map some) (hd : ks.Nodup) (hl : vals.length = keys.length)
    (hi : interp ∈ interpolatorNames) (hc : conv ∈ conventionNames) (hm : modi ∈ modifierNames)
    (hcal : loadNamedCal table (.obj [("name", .str cal)]) = some cal) :
    loadCurve table (writeCurveF64 keys vals interp id conv modi base cal)
      = some ⟨.f64 keys.length, interp, id, conv, modi, base.isSome, "NamedCal"⟩ :=
  load_written_curve table keys ks vals interp id conv modi base cal hk hd hl hi hc hm hcal

/-- A saved float spline loads, before or after `csolve`: order `k`, sorted knots, `n = len t − k`, and — if
solved — `n` coefficients. -/
theorem C16_written_spline_loads (k : Nat) (t : List JNum) (c : Option (List JNum)) (n : Nat)
    (ht : 2 ≤ t.length) (hs : sortedNums t = true) (hk : k ≤ t.length) (hn : n = t.length - k)
    (hc : ∀ xs, c = some xs → xs.length = n) (hsz : t.length < 2 ^ 64) :
    loadSpline asF64 (writeSplineF64 k t c n) = some ⟨k, t.length, n, c.map List.length⟩ :=
  load_written_spline k t c n ht hs hk hn hc hsz

/-- A saved `Number` of any kind loads. -/
theorem C16_written_number_loads (n : NumDoc) (h : n.OK) : loadNumber (writeNumber n) = some () :=
  load_written_number n h

/-- A saved calendar loads with all its holidays and mask days (distinct holidays in the library's datetime text,
distinct weekday names, in any order — the mask is stored as a hash set). -/
theorem C16_written_cal_loads (c : List String × List String) (h : CalDocOK c) :
    loadCal (writeCal c.1 c.2) = some ⟨c.1.length, c.2.length⟩ :=
  load_written_cal c h

/-- A saved union of calendars loads with all members and all settlement calendars (or none). -/
theorem C16_written_unioncal_loads (cals : List (List String × List String))
    (settle : Option (List (List String × List String)))
    (hc : ∀ c ∈ cals, CalDocOK c) (hs : ∀ ss, settle = some ss → ∀ c ∈ ss, CalDocOK c) :
    loadUnionCal (writeUnionCal cals settle) = some (cals.length, settle.map List.length) :=
  load_written_unioncal cals settle hc hs

/-- A named calendar is stored by its (lower-cased) name only and REBUILT on loading: the stored name is accepted
again and names the same calendars. -/
theorem C16_written_namedcal_loads (table : String → Option Cal) (name nm : String) (u : UnionCal)
    (h : namedTryNew table name = .ok (nm, u)) :
    loadNamedCal table (writeNamedCal nm) = some nm ∧ namedTryNew table nm = .ok (nm, u) :=
  load_written_namedcal table name nm u h

/-- A saved curve of ANY node kind and ANY calendar kind loads: given that its node document and its calendar
document load (the next five theorems), every rule, convention and modifier the library defines, with or
without an index base. -/
theorem C16_written_curve_any_loads (table : String → Option Cal) (nodesDoc calDoc : JVal) (ns : NodesShape)
    (kind : String) (interp id conv modi : String) (base : Option JNum)
    (hn : loadNodes nodesDoc = some ns) (hcal : loadCalType table calDoc = some kind)
    (hi : interp ∈ interpolatorNames) (hc : conv ∈ conventionNames) (hm : modi ∈ modifierNames) :
    loadCurve table (writeCurveG nodesDoc calDoc interp id conv modi base)
      = some ⟨ns, interp, id, conv, modi, base.isSome, kind⟩ :=
  load_written_curve_g table nodesDoc calDoc ns kind interp id conv modi base hn hcal hi hc hm

/-- first-order nodes under distinct integer keys: every node is read back, in document order -/
theorem C16_written_dual_nodes_load (keys : List String) (ks : List Int)
    (ds : List (JNum × List String × List JNum))
    (hk : keys.map parseI64Key = ks.map some) (hd : ks.Nodup) (hl : ds.length = keys.length)
    (h : ∀ x ∈ ds, NumDoc.OK (.dual x.1 x.2.1 x.2.2)) :
    loadNodes (.obj [("Dual", .obj (keys.zip (ds.map (fun x => writeDual x.1 x.2.1 x.2.2))))])
      = some (.dual (ds.map (fun x => ⟨x.2.1.length, x.2.1.length⟩))) :=
  loadNodes_dual keys ks ds hk hd hl h

theorem C16_written_dual2_nodes_load (keys : List String) (ks : List Int)
    (ds : List (JNum × List String × List JNum × List JNum))
    (hk : keys.map parseI64Key = ks.map some) (hd : ks.Nodup) (hl : ds.length = keys.length)
    (h : ∀ x ∈ ds, NumDoc.OK (.dual2 x.1 x.2.1 x.2.2.1 x.2.2.2)) :
    loadNodes (.obj [("Dual2", .obj (keys.zip (ds.map (fun x => writeDual2 x.1 x.2.1 x.2.2.1 x.2.2.2))))])
      = some (.dual2 (ds.map (fun x => ⟨x.2.1.length, x.2.1.length, x.2.1.length, x.2.1.length⟩))) :=
  loadNodes_dual2 keys ks ds hk hd hl h

theorem C16_written_caltype_loads (table : String → Option Cal) :
    (∀ c, CalDocOK c → loadCalType table (.obj [("Cal", writeCal c.1 c.2)]) = some "Cal") ∧
    (∀ cals settle, (∀ c ∈ cals, CalDocOK c) → (∀ ss, settle = some ss → ∀ c ∈ ss, CalDocOK c) →
      loadCalType table (.obj [("UnionCal", writeUnionCal cals settle)]) = some "UnionCal") ∧
    (∀ nm, loadNamedCal table (writeNamedCal nm) = some nm →
      loadCalType table (.obj [("NamedCal", writeNamedCal nm)]) = some "NamedCal") :=
  ⟨fun c h => loadCalType_cal table c h, fun cals settle hc hs => loadCalType_union table cals settle hc hs,
   fun nm h => loadCalType_named table nm h⟩

/-- A saved spline of ANY coefficient type loads, before or after `csolve`, given that its coefficient documents
load (floats: `C16_written_spline_loads`; dual numbers: `C16_written_dual_coeffs_load`). -/
theorem C16_written_spline_any_loads {α : Type} (elem : JVal → Option α) (k : Nat) (t : List JNum)
    (c : Option (List JVal)) (n : Nat)
    (ht : 2 ≤ t.length) (hs : sortedNums t = true) (hk : k ≤ t.length) (hn : n = t.length - k)
    (hc : ∀ items, c = some items → items.length = n ∧ ∃ vals, items.mapM elem = some vals)
    (hsz : t.length < 2 ^ 64) :
    loadSpline elem (writeSplineG k t c n) = some ⟨k, t.length, n, c.map List.length⟩ :=
  load_written_spline_g elem k t c n ht hs hk hn hc hsz

theorem C16_written_dual_coeffs_load :
    (∀ ds : List (JNum × List String × List JNum), (∀ x ∈ ds, NumDoc.OK (.dual x.1 x.2.1 x.2.2)) →
      (ds.map (fun x => writeDual x.1 x.2.1 x.2.2)).mapM loadDual
        = some (ds.map (fun x => ⟨x.2.1.length, x.2.1.length⟩))) ∧
    (∀ ds : List (JNum × List String × List JNum × List JNum),
      (∀ x ∈ ds, NumDoc.OK (.dual2 x.1 x.2.1 x.2.2.1 x.2.2.2)) →
      (ds.map (fun x => writeDual2 x.1 x.2.1 x.2.2.1 x.2.2.2)).mapM loadDual2
        = some (ds.map (fun x => ⟨x.2.1.length, x.2.1.length, x.2.1.length, x.2.1.length⟩))) :=
  ⟨mapM_written_duals, mapM_written_dual2s⟩

/-- A saved FX market reaches the loader's `try_new` with exactly the stored quotes and currencies (stored names
are fixed points of `Ccy::try_new`, stored pairs are distinct, the settlement text is the date it stands for):
loading the written document IS the validation of the stored state, so a market that was valid when saved loads. -/
theorem C16_written_fxrates_loads (qs : List WQuote) (cs : List String) (hq : ∀ q ∈ qs, q.OK)
    (hc : ∀ c ∈ cs, ccyTryNew c = some c) (hn : cs.Nodup) :
    loadFXRates (writeFXRates qs cs) = validFXRates (qs.map WQuote.shape) cs :=
  load_written_fxrates qs cs hq hc hn

/-- the tagged entry point on a tagged document is the inner loader of that tag -/
theorem C16_tagged_is_inner (table : String → Option Cal) (body : JVal) :
    loadTagged table (.obj [("Dual", body)]) = ofOpt .dual (loadDual body) ∧
    loadTagged table (.obj [("Dual2", body)]) = ofOpt .dual2 (loadDual2 body) ∧
    loadTagged table (.obj [("Cal", body)]) = ofOpt .cal (loadCal body) ∧
    loadTagged table (.obj [("UnionCal", body)]) = ofOpt (fun p => .unionCal p.1 p.2) (loadUnionCal body) ∧
    loadTagged table (.obj [("NamedCal", body)]) = ofOpt .namedCal (loadNamedCal table body) ∧
    loadTagged table (.obj [("FXRates", body)]) = ofOpt .fxRates (loadFXRates body) ∧
    loadTagged table (.obj [("PPSplineF64", body)]) = ofOpt (.spline "PPSplineF64") (loadSpline asF64 body) ∧
    loadTagged table (.obj [("PPSplineDual", body)]) = ofOpt (.spline "PPSplineDual") (loadSpline loadDual body) ∧
    loadTagged table (.obj [("PPSplineDual2", body)]) = ofOpt (.spline "PPSplineDual2") (loadSpline loadDual2 body) ∧
    loadTagged table (.obj [("Curve", body)]) = ofOpt .curve (loadCurve table body) := by
  refine ⟨?_, ?_, ?_, ?_, ?_, ?_, ?_, ?_, ?_, ?_⟩ <;> simp [loadTagged, enumOf]

/-- … so every `C16_written_*_loads` theorem is a statement about the tagged `from_json` as well; for instance a
saved first-order number, wrapped in its tag as the tagged `to_json` writes it, loads as a `Dual` of that shape. -/
theorem C16_written_tagged_dual_loads (table : String → Option Cal) (re : JNum) (names : List String)
    (d : List JNum) (hn : names.Nodup) (hl : d.length = names.length) (hsz : d.length < 2 ^ 64) :
    loadTagged table (.obj [("Dual", writeDual re names d)]) = .ok (.dual ⟨names.length, names.length⟩) := by
  rw [(C16_tagged_is_inner table _).1, load_written_dual re names d hn hl hsz]
  rfl

example : CalDocOK (["2024-12-25T00:00:00", "1999-01-01T00:00:00"], ["Sat", "Sun"]) :=
  ⟨⟨[1735084800, 915148800], by decide +kernel, by decide⟩, ⟨[5, 6], by decide +kernel, by decide⟩⟩

/-! Non-vacuity: integer literals of different sign and digit count are keys; a concrete written document. -/
example : ["-86400", "999999999", "1000000000"].map parseI64Key = [-86400, 999999999, 1000000000].map some := by
  decide +kernel
example : (⟨"eur", "usd", .f64 ⟨false, 11, -1, false⟩, some ("2004-01-01T00:00:00", 1072915200)⟩ : WQuote).OK := by
  refine ⟨by decide +kernel, by decide +kernel, by decide, trivial, ?_⟩
  intro s d h
  injection h with h; injection h with h1 h2
  subst h1; subst h2
  decide +kernel
example : loadDual (writeDual ⟨false, 25, -1, false⟩ ["x", "yy"] [natNum 1, ⟨true, 5, -1, false⟩]) = some ⟨2, 2⟩ := by
  decide +kernel

end Rateslib
