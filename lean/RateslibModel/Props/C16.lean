/-
C16  Saving and loading an object gives back an equal object.

PROVED: the binary pickling format, as modelled in Model/Serde.lean (bincode 1.3 + serde derive
layout: fixed-width little-endian integers, f64 bit patterns, length-prefixed sequences and strings,
u32 variant indices, Option tags, ndarray's {v, dim, data}), round-trips: for every value whose sizes
fit in 64 bits, decoding what was encoded — followed by anything — returns exactly that value and the
untouched remainder.  Floats are arbitrary 64-bit patterns, so "all finite floating-point contents"
(and more) is covered.  The model's bytes are compared byte for byte with the implementation's on every
run.
PROVED (JSON, document level): the documents `to_json` writes for Dual, Dual2, float-noded curves, float splines and FX markets — the
forms `writeDual`, `writeDual2`, `writeCurveF64`, `writeSplineF64`, `writeFXRates` of Model/Load.lean, recognised in the implementation's own
output on every run (`written` lines) — are accepted by the loader model with exactly the written shape,
whenever the contents satisfy the type invariants.
PARTIAL (DESIGN.md "C16 partial"): the JSON text layer (serde_json, ryu), the tagged entry point,
Cal/UnionCal (hash-ordered bytes) and "answers every query identically" are
validated by model-free round trips on the real code (they exposed a genuine defect, since repaired),
not by theorems.
-/
import RateslibModel.Proofs.Serde
import RateslibModel.Proofs.WriteLoad
namespace Rateslib.Serde

theorem C16_bincode_dual (d : SDual) (h : ValidDual d) (rest : Bytes) :
    decDual (encDual d ++ rest) = some (d, rest) := lawful_dual d h rest

theorem C16_bincode_dual2 (d : SDual2) (h : ValidDual2 d) (rest : Bytes) :
    decDual2 (encDual2 d ++ rest) = some (d, rest) := lawful_dual2 d h rest

theorem C16_bincode_number (x : SNumber) (h : ValidNumber x) (rest : Bytes) :
    decNumber (encNumber x ++ rest) = some (x, rest) := lawful_number x h rest

/-- splines of all three types (coefficients floats, Dual or Dual2; solved or not) -/
theorem C16_bincode_spline_f64 (s : SSpline Nat) (h : ValidSpline (fun b => b < 2 ^ 64) s) (rest : Bytes) :
    decSpline decU64 (encSpline encU64 s ++ rest) = some (s, rest) :=
  lawful_spline encU64 decU64 _ lawful_u64 s h rest

theorem C16_bincode_spline_dual (s : SSpline SDual) (h : ValidSpline ValidDual s) (rest : Bytes) :
    decSpline decDual (encSpline encDual s ++ rest) = some (s, rest) :=
  lawful_spline encDual decDual _ lawful_dual s h rest

theorem C16_bincode_spline_dual2 (s : SSpline SDual2) (h : ValidSpline ValidDual2 s) (rest : Bytes) :
    decSpline decDual2 (encSpline encDual2 s ++ rest) = some (s, rest) :=
  lawful_spline encDual2 decDual2 _ lawful_dual2 s h rest

/-- an FX market is stored as its quotes and currencies only -/
theorem C16_bincode_fxrates (f : SFXRates) (h : ValidFXRates f) (rest : Bytes) :
    decFXRates (encFXRates f ++ rest) = some (f, rest) := lawful_fxrates f h rest

/-- a named calendar is stored by name only -/
theorem C16_bincode_named_cal (name : Bytes) (h : name.length < 2 ^ 64) (rest : Bytes) :
    decNamedCal (encNamedCal name ++ rest) = some (name, rest) := lawful_str name h rest

/-- a curve with a named calendar: typed node map (all nodes of the map's kind), interpolator, id,
convention, modifier, optional index base, calendar name -/
theorem C16_bincode_curve (c : SCurve) (h : ValidCurve c) (rest : Bytes) :
    decCurve (encCurve c ++ rest) = some (c, rest) := lawful_curve c h rest

/-! Non-vacuity: the bytes observed for `Dual(2.5, [x, yy], [1.0, -0.5])`. -/
example : encDual ⟨0x4004000000000000, [[0x78], [0x79, 0x79]], ⟨2, [0x3ff0000000000000, 0xbfe0000000000000]⟩⟩
    = [0,0,0,0,0,0,4,0x40, 2,0,0,0,0,0,0,0, 1,0,0,0,0,0,0,0, 0x78, 2,0,0,0,0,0,0,0, 0x79,0x79,
       1, 2,0,0,0,0,0,0,0, 2,0,0,0,0,0,0,0, 0,0,0,0,0,0,0xf0,0x3f, 0,0,0,0,0,0,0xe0,0xbf] := by decide

end Rateslib.Serde

namespace Rateslib
open Load

/-- A saved first-order number loads: the document `to_json` writes for a number with distinct names and one
coefficient per name is accepted, with that many names and coefficients. -/
theorem C16_written_dual_loads (re : JNum) (names : List String) (d : List JNum) (hn : names.Nodup)
    (hl : d.length = names.length) (hsz : d.length < 2 ^ 64) :
    loadDual (writeDual re names d) = some ⟨names.length, names.length⟩ :=
  load_written_dual re names d hn hl hsz

/-- A saved second-order number loads (n names, n coefficients, an n × n second-order block). -/
theorem C16_written_dual2_loads (re : JNum) (names : List String) (d h : List JNum) (hn : names.Nodup)
    (hl : d.length = names.length) (hh : h.length = names.length * names.length) (hsz : d.length < 2 ^ 64) :
    loadDual2 (writeDual2 re names d h) = some ⟨names.length, names.length, names.length, names.length⟩ :=
  load_written_dual2 re names d h hn hl hh hsz

/-- A saved float-noded curve loads with ALL its nodes: distinct timestamps written as integer literals (of any
sign and digit count), any interpolation rule, convention and modifier, with or without an index base. -/
theorem C16_written_curve_loads (table : String → Option Cal) (keys : List String) (ks : List Int)
    (vals : List JNum) (interp id conv modi : String) (base : Option JNum) (cal : String)
    (hk : keys.map parseI64Key = ks.map some) (hd : ks.Nodup) (hl : vals.length = keys.length)
    (hi : interp ∈ interpolatorNames) (hc : conv ∈ conventionNames) (hm : modi ∈ modifierNames)
    (hcal : loadNamedCal table (.obj [("name", .str cal)]) = some cal) :
    loadCurve table (writeCurveF64 keys vals interp id conv modi base cal)
      = some ⟨.f64 keys.length, interp, id, conv, modi, base.isSome, "NamedCal"⟩ :=
  load_written_curve table keys ks vals interp id conv modi base cal hk hd hl hi hc hm hcal

/-- A saved float spline loads, before or after `csolve`: order `k`, sorted knots, `n = len t − k`, and — if
solved — `n` coefficients. -/
theorem C16_written_spline_loads (k : Nat) (t : List JNum) (c : Option (List JNum)) (n : Nat)
    (ht : 2 ≤ t.length) (hs : sortedNums t = true) (hk : k ≤ t.length) (hn : n = t.length - k)
    (hc : ∀ xs, c = some xs → xs.length = n) (hsz : t.length < 2 ^ 64) :
    loadSpline asF64 (writeSplineF64 k t c n) = some ⟨k, t.length, n, c.map List.length⟩ :=
  load_written_spline k t c n ht hs hk hn hc hsz

/-- A saved FX market reaches the loader's `try_new` with exactly the stored quotes and currencies (stored names
are fixed points of `Ccy::try_new`, stored pairs are distinct, the settlement text is the date it stands for):
loading the written document IS the validation of the stored state, so a market that was valid when saved loads. -/
theorem C16_written_fxrates_loads (qs : List WQuote) (cs : List String) (hq : ∀ q ∈ qs, q.OK)
    (hc : ∀ c ∈ cs, ccyTryNew c = some c) (hn : cs.Nodup) :
    loadFXRates (writeFXRates qs cs) = validFXRates (qs.map WQuote.shape) cs :=
  load_written_fxrates qs cs hq hc hn

/-! Non-vacuity: integer literals of different sign and digit count are keys; a concrete written document. -/
example : ["-86400", "999999999", "1000000000"].map parseI64Key = [-86400, 999999999, 1000000000].map some := by
  decide +kernel
example : (⟨"eur", "usd", ⟨false, 11, -1, false⟩, some ("2004-01-01T00:00:00", 1072915200)⟩ : WQuote).OK := by
  refine ⟨by decide +kernel, by decide +kernel, by decide, ?_⟩
  intro s d h
  injection h with h; injection h with h1 h2
  subst h1; subst h2
  decide +kernel
example : loadDual (writeDual ⟨false, 25, -1, false⟩ ["x", "yy"] [natNum 1, ⟨true, 5, -1, false⟩]) = some ⟨2, 2⟩ := by
  decide +kernel

end Rateslib
