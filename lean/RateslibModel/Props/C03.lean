/-
C03  Derivatives are tracked by variable name, whatever the internal layout.

`den d n` is the derivative of `d` with respect to the variable NAMED `n` (0 if `d` does not carry
`n`).  `WF` is the shape invariant (duplicate-free names, gradient of matching length).  `p` is the
pointer-equality flag of the two operands' variable lists; the reachable-state invariant is
`p = true → a.vars = b.vars`.  All statements hold over every commutative ring `α` (so over ℝ, and
over the jets used for C01/C02); f64 rounding is modelled, not verified.

Second-order numbers (`C03_*_dual2`): the same statements with, in addition, the stored (half) second
derivative `den2 d n w` per PAIR of names; `×` is the product rule with the symmetrised cross term.
`C03_eq_dual2`: `==` on second-order numbers = agreement of value, of every first derivative by name and of
every (half) second derivative by pair of names.
-/
import RateslibModel.Proofs.Dual2Layout
import RateslibModel.Proofs.NewFrom
namespace Rateslib
open Dual

variable {α : Type} [CommRing α]

/-- The result carries exactly the union of the operands' variable names, each once, with a
derivative array of matching shape (for +, −, ×). -/
theorem C03_wf (p : Bool) (a b : Dual α) (ha : a.WF) (hb : b.WF) (hp : p = true → a.vars = b.vars) :
    ((add p a b).WF ∧ ∀ n, n ∈ (add p a b).vars ↔ n ∈ a.vars ∨ n ∈ b.vars) ∧
    ((sub p a b).WF ∧ ∀ n, n ∈ (sub p a b).vars ↔ n ∈ a.vars ∨ n ∈ b.vars) ∧
    ((mul p a b).WF ∧ ∀ n, n ∈ (mul p a b).vars ↔ n ∈ a.vars ∨ n ∈ b.vars) :=
  ⟨⟨(add_spec p a b ha hb hp).wf, (add_spec p a b ha hb hp).mem⟩,
   ⟨(sub_spec p a b ha hb hp).wf, (sub_spec p a b ha hb hp).mem⟩,
   ⟨(mul_spec p a b ha hb hp).wf, (mul_spec p a b ha hb hp).mem⟩⟩

/-- The result depends only on each operand's value and its derivative per variable name:
`+`, `−`, `×` act name by name (sum, difference, product rule). -/
theorem C03_hom (p : Bool) (a b : Dual α) (ha : a.WF) (hb : b.WF) (hp : p = true → a.vars = b.vars)
    (n : String) :
    ((add p a b).real = a.real + b.real ∧ den (add p a b) n = den a n + den b n) ∧
    ((sub p a b).real = a.real - b.real ∧ den (sub p a b) n = den a n - den b n) ∧
    ((mul p a b).real = a.real * b.real ∧
      den (mul p a b) n = den a n * b.real + den b n * a.real) :=
  ⟨⟨(add_spec p a b ha hb hp).real, (add_spec p a b ha hb hp).den n⟩,
   ⟨(sub_spec p a b ha hb hp).real, (sub_spec p a b ha hb hp).den n⟩,
   ⟨(mul_spec p a b ha hb hp).real, (mul_spec p a b ha hb hp).den n⟩⟩

/-- Layout is irrelevant: replacing an operand by any other representation of the same number
(different order, extra zero-derivative variables, shared or unshared storage) cannot change the
result, name by name. -/
theorem C03_layout_irrelevant (p p' : Bool) (a a' b b' : Dual α)
    (ha : a.WF) (ha' : a'.WF) (hb : b.WF) (hb' : b'.WF)
    (hp : p = true → a.vars = b.vars) (hp' : p' = true → a'.vars = b'.vars)
    (hra : a.real = a'.real) (hda : ∀ n, den a n = den a' n)
    (hrb : b.real = b'.real) (hdb : ∀ n, den b n = den b' n) (n : String) :
    (den (add p a b) n = den (add p' a' b') n ∧ (add p a b).real = (add p' a' b').real) ∧
    (den (sub p a b) n = den (sub p' a' b') n ∧ (sub p a b).real = (sub p' a' b').real) ∧
    (den (mul p a b) n = den (mul p' a' b') n ∧ (mul p a b).real = (mul p' a' b').real) := by
  have h := C03_hom p a b ha hb hp n
  have h' := C03_hom p' a' b' ha' hb' hp' n
  refine ⟨⟨?_, ?_⟩, ⟨?_, ?_⟩, ⟨?_, ?_⟩⟩
  · rw [h.1.2, h'.1.2, hda, hdb]
  · rw [h.1.1, h'.1.1, hra, hrb]
  · rw [h.2.1.2, h'.2.1.2, hda, hdb]
  · rw [h.2.1.1, h'.2.1.1, hra, hrb]
  · rw [h.2.2.2, h'.2.2.2, hda, hdb, hra, hrb]
  · rw [h.2.2.1, h'.2.2.1, hra, hrb]

/-- Equality treats a missing variable and a zero derivative as the same thing: two numbers are
equal exactly when their values agree and their derivatives agree for every name. -/
theorem C03_eq [Transc α] [LawfulEqb α] (p : Bool) (a b : Dual α) (ha : a.WF) (hb : b.WF)
    (hp : p = true → a.vars = b.vars) :
    Dual.eq p a b = true ↔ (a.real = b.real ∧ ∀ n, den a n = den b n) :=
  eq_spec p a b ha hb hp

/-- The pointer-equality flag itself is irrelevant under the invariant. -/
theorem C03_ptr_irrelevant (a b : Dual α) (h : a.vars = b.vars) :
    add true a b = add false a b ∧ sub true a b = sub false a b ∧ mul true a b = mul false a b := by
  simp only [add, sub, mul, aligned_ptr_irrelevant a b h, and_self]

/-! ### second-order numbers -/
section Second
variable [Div α]

/-- Shape and names of `+`, `−`, `×` on second-order numbers: well-formed (square Hessian of matching
size), exactly the union of the operands' names. -/
theorem C03_wf_dual2 (p : Bool) (a b : Dual2 α) (ha : a.WF) (hb : b.WF) (hp : p = true → a.vars = b.vars) :
    ((Dual2.add p a b).WF ∧ ∀ n, n ∈ (Dual2.add p a b).vars ↔ n ∈ a.vars ∨ n ∈ b.vars) ∧
    ((Dual2.sub p a b).WF ∧ ∀ n, n ∈ (Dual2.sub p a b).vars ↔ n ∈ a.vars ∨ n ∈ b.vars) ∧
    ((Dual2.mul p a b).WF ∧ ∀ n, n ∈ (Dual2.mul p a b).vars ↔ n ∈ a.vars ∨ n ∈ b.vars) :=
  ⟨⟨(Dual2.add_spec p a b ha hb hp).wf, (Dual2.add_spec p a b ha hb hp).mem⟩,
   ⟨(Dual2.sub_spec p a b ha hb hp).wf, (Dual2.sub_spec p a b ha hb hp).mem⟩,
   ⟨(Dual2.mul_spec p a b ha hb hp).wf, (Dual2.mul_spec p a b ha hb hp).mem⟩⟩

/-- `+`, `−`, `×` on second-order numbers act name by name and name-pair by name-pair, whatever the
stored layout: value, gradient and (half) Hessian of the result are the sum, difference and
second-order product rule of the operands' — the cross term is `½ (aₙ b_w + a_w bₙ)`. -/
theorem C03_hom_dual2 (p : Bool) (a b : Dual2 α) (ha : a.WF) (hb : b.WF)
    (hp : p = true → a.vars = b.vars) (n w : String) :
    ((Dual2.add p a b).real = a.real + b.real ∧
      Dual2.den (Dual2.add p a b) n = Dual2.den a n + Dual2.den b n ∧
      Dual2.den2 (Dual2.add p a b) n w = Dual2.den2 a n w + Dual2.den2 b n w) ∧
    ((Dual2.sub p a b).real = a.real - b.real ∧
      Dual2.den (Dual2.sub p a b) n = Dual2.den a n - Dual2.den b n ∧
      Dual2.den2 (Dual2.sub p a b) n w = Dual2.den2 a n w - Dual2.den2 b n w) ∧
    ((Dual2.mul p a b).real = a.real * b.real ∧
      Dual2.den (Dual2.mul p a b) n = Dual2.den a n * b.real + Dual2.den b n * a.real ∧
      Dual2.den2 (Dual2.mul p a b) n w = Dual2.den2 a n w * b.real + Dual2.den2 b n w * a.real
        + half * (Dual2.den a n * Dual2.den b w + Dual2.den a w * Dual2.den b n)) :=
  ⟨⟨(Dual2.add_spec p a b ha hb hp).real, (Dual2.add_spec p a b ha hb hp).den n,
    (Dual2.add_spec p a b ha hb hp).den2 n w⟩,
   ⟨(Dual2.sub_spec p a b ha hb hp).real, (Dual2.sub_spec p a b ha hb hp).den n,
    (Dual2.sub_spec p a b ha hb hp).den2 n w⟩,
   ⟨(Dual2.mul_spec p a b ha hb hp).real, (Dual2.mul_spec p a b ha hb hp).den n,
    (Dual2.mul_spec p a b ha hb hp).den2 n w⟩⟩

/-- Layout is irrelevant at second order too: any other representation of the same two numbers (other
order, zero-padded variables, shared or unshared storage) gives the same result, name by name and
name-pair by name-pair. -/
theorem C03_layout_irrelevant_dual2 (p p' : Bool) (a a' b b' : Dual2 α)
    (ha : a.WF) (ha' : a'.WF) (hb : b.WF) (hb' : b'.WF)
    (hp : p = true → a.vars = b.vars) (hp' : p' = true → a'.vars = b'.vars)
    (hra : a.real = a'.real) (hda : ∀ n, Dual2.den a n = Dual2.den a' n)
    (hha : ∀ n w, Dual2.den2 a n w = Dual2.den2 a' n w)
    (hrb : b.real = b'.real) (hdb : ∀ n, Dual2.den b n = Dual2.den b' n)
    (hhb : ∀ n w, Dual2.den2 b n w = Dual2.den2 b' n w) (n w : String) :
    Dual2.den2 (Dual2.add p a b) n w = Dual2.den2 (Dual2.add p' a' b') n w ∧
    Dual2.den2 (Dual2.sub p a b) n w = Dual2.den2 (Dual2.sub p' a' b') n w ∧
    Dual2.den2 (Dual2.mul p a b) n w = Dual2.den2 (Dual2.mul p' a' b') n w ∧
    Dual2.den (Dual2.mul p a b) n = Dual2.den (Dual2.mul p' a' b') n := by
  have h := C03_hom_dual2 p a b ha hb hp n w
  have h' := C03_hom_dual2 p' a' b' ha' hb' hp' n w
  refine ⟨?_, ?_, ?_, ?_⟩
  · rw [h.1.2.2, h'.1.2.2, hha, hhb]
  · rw [h.2.1.2.2, h'.2.1.2.2, hha, hhb]
  · rw [h.2.2.2.2, h'.2.2.2.2, hha, hhb, hra, hrb, hda n, hda w, hdb n, hdb w]
  · rw [h.2.2.2.1, h'.2.2.2.1, hda, hdb, hra, hrb]

/-- …and the pointer-equality flag is irrelevant under the invariant. -/
theorem C03_ptr_irrelevant_dual2 (a b : Dual2 α) (h : a.vars = b.vars) :
    Dual2.add true a b = Dual2.add false a b ∧ Dual2.sub true a b = Dual2.sub false a b ∧
    Dual2.mul true a b = Dual2.mul false a b := by
  simp only [Dual2.add, Dual2.sub, Dual2.mul, Dual2.aligned_ptr_irrelevant a b h, and_self]

/-- Equality at second order treats a missing variable and zero derivatives as the same thing: two
second-order numbers are equal exactly when their values, their first derivatives for every name and
their (half) second derivatives for every pair of names agree — whatever the layouts. -/
theorem C03_eq_dual2 [Transc α] [LawfulEqb α] (p : Bool) (a b : Dual2 α) (ha : a.WF) (hb : b.WF)
    (hp : p = true → a.vars = b.vars) :
    Dual2.eq p a b = true ↔
      (a.real = b.real ∧ (∀ n, Dual2.den a n = Dual2.den b n) ∧
        ∀ n w, Dual2.den2 a n w = Dual2.den2 b n w) :=
  Dual2.eq_spec p a b ha hb hp

end Second

/-! `new_from` / `try_new_from`: a number constructed on ANOTHER number's variable list is the freshly
constructed number projected BY NAME onto that list — exactly the other's list, each derivative kept for a
name the list has and dropped for one it has not, whatever the two orders. -/
section NewFrom
variable [Div α]

theorem C03_new_from (ov : List String) (hov : ov.Nodup) (real : α) (vars : List String) :
    (Dual.newFrom ov real vars).WF ∧ (Dual.newFrom ov real vars).vars = ov ∧
    (Dual.newFrom ov real vars).real = real ∧
    ∀ n, den (Dual.newFrom ov real vars) n = if n ∈ ov then den (Dual.new real vars) n else 0 :=
  Dual.toNewVars_cmp (Dual.new real vars) ov (Dual.new_wf real vars) hov

/-- the fallible form: an error exactly when `try_new` gives one, otherwise the projection by name -/
theorem C03_try_new_from (ov : List String) (hov : ov.Nodup) (real : α) (vars : List String) (dual : List α) :
    (Dual.tryNew real vars dual = none → Dual.tryNewFrom ov real vars dual = none) ∧
    ∀ d, Dual.tryNew real vars dual = some d →
      ∃ r, Dual.tryNewFrom ov real vars dual = some r ∧ r.WF ∧ r.vars = ov ∧ r.real = real ∧
        ∀ n, den r n = if n ∈ ov then den d n else 0 := by
  constructor
  · intro h; simp only [Dual.tryNewFrom, h]
  · intro d h
    obtain ⟨hw, hr, _⟩ := Dual.tryNew_wf real vars dual d h
    obtain ⟨h1, h2, h3, h4⟩ := Dual.toNewVars_cmp d ov hw hov
    exact ⟨_, by simp only [Dual.tryNewFrom, h], h1, h2, by rw [h3, hr], h4⟩

theorem C03_new_from_dual2 (ov : List String) (hov : ov.Nodup) (real : α) (vars : List String) :
    (Dual2.newFrom ov real vars).WF ∧ (Dual2.newFrom ov real vars).vars = ov ∧
    (Dual2.newFrom ov real vars).real = real ∧
    (∀ n, Dual2.den (Dual2.newFrom ov real vars) n =
      if n ∈ ov then Dual2.den (Dual2.new real vars) n else 0) ∧
    ∀ n w, Dual2.den2 (Dual2.newFrom ov real vars) n w =
      if n ∈ ov ∧ w ∈ ov then Dual2.den2 (Dual2.new real vars) n w else 0 :=
  Dual2.toNewVars_cmp (Dual2.new real vars) ov (Dual2.new_wf real vars) hov

end NewFrom

/-! Non-vacuity: the hypotheses are met by concrete numbers with different layouts. -/
example : (⟨2, ["x", "y"], [1, 3]⟩ : Dual ℤ).WF ∧ (⟨5, ["y", "z"], [4, 7]⟩ : Dual ℤ).WF := by
  constructor <;> exact ⟨by decide, rfl⟩

example : (⟨2, ["x", "y"], [1, 3], [[1, 2], [2, 5]]⟩ : Dual2 ℚ).WF ∧
    (⟨5, ["y", "z"], [4, 7], [[0, 1], [1, 3]]⟩ : Dual2 ℚ).WF := by
  constructor <;> exact ⟨by decide, rfl, rfl, by decide⟩

end Rateslib
