/-
C17  Gradients are read back by name, in the order asked for.
-/
import RateslibModel.Proofs.Dual2Layout
import Mathlib.Tactic.FieldSimp
import Mathlib.Algebra.Field.Basic
import Mathlib.Tactic.LinearCombination
namespace Rateslib
open Dual

variable {α : Type} [CommRing α]

/-- Asking a first-order number for its gradient with respect to distinct names returns the
derivatives in exactly that order, zero for names it does not depend on — on the fast path (equal
lists) and on the look-up path alike. -/
theorem C17_gradient1 (d : Dual α) (vs : List String) (hd : d.WF) (hv : vs.Nodup) :
    d.gradient1 vs = vs.map (den d) :=
  gradient1_spec d vs hd hv

/-- The same for the gradient of a second-order number. -/
theorem C17_gradient1_dual2 (d : Dual2 α) (vs : List String) (hd : d.WF) (hv : vs.Nodup) :
    d.gradient1 vs = vs.map (Dual2.den d) := by
  have : d.gradient1 vs = (⟨d.real, d.vars, d.dual⟩ : Dual α).gradient1 vs := rfl
  rw [this, gradient1_spec _ vs ⟨hd.1, hd.2.1⟩ hv]
  rfl

/-- The Hessian read-back: entry (i, j) is twice the stored second derivative for the pair of names
(`vs[i]`, `vs[j]`), in the order asked for, on both code paths. -/
theorem C17_gradient2 (d : Dual2 α) (vs : List String) (hd : d.WF) (hv : vs.Nodup) :
    d.gradient2 vs = vs.map (fun v => vs.map (fun w => 2 * Dual2.den2 d v w)) := by
  unfold Dual2.gradient2
  rw [dedup_of_nodup vs hv]
  simp only
  have key : mscaleL (2 : α) (vs.map (fun v => vs.map (fun w => lookup2OrZero d.vars d.dual2 v w)))
      = vs.map (fun v => vs.map (fun w => 2 * Dual2.den2 d v w)) := by
    simp [mscaleL, vscaleL, Dual2.den2, List.map_map, Function.comp_def]
  cases hc : varsCmp false d.vars vs with
  | arcEq => unfold varsCmp at hc; repeat' split at hc
             all_goals simp_all
  | valEq =>
    have : d.vars = vs := by
      unfold varsCmp at hc
      repeat' split at hc
      all_goals simp_all
    simp only
    conv => lhs; rw [Dual2.dual2_eq_map_den2 d hd]
    rw [← this]
    simp [mscaleL, vscaleL, List.map_map, Function.comp_def]
  | superset => exact key
  | subset => exact key
  | difference => exact key

/-- The gradient 'as a manifold': for distinct names, element `i` is a second-order number whose
value is the first derivative w.r.t. `vs[i]`, whose own gradient is the matching Hessian row (twice
the stored half-Hessian), with zero second-order part, on the requested variable list — uniformly,
also for names the number does not depend on (value 0, zero gradient). -/
theorem C17_manifold (d : Dual2 α) (vs : List String) (hv : vs.Nodup) :
    d.gradient1Manifold vs = vs.map (fun v =>
      (⟨Dual2.den d v, vs, vs.map (fun w => Dual2.den2 d v w * 2), zerosM vs.length vs.length⟩ : Dual2 α)) := by
  unfold Dual2.gradient1Manifold
  apply List.map_congr_left
  intro v _
  simp only [dedup_of_nodup vs hv]
  cases hx : d.vars.idxOf? v with
  | none =>
    simp only [Dual2.den, Dual2.den2, lookupOrZero, lookup2OrZero, hx]
    congr 1
    simp [zerosV]
  | some i =>
    simp only
    congr 1
    · simp [Dual2.den, lookupOrZero, hx]
    · apply List.map_congr_left
      intro w _
      cases hy : d.vars.idxOf? w with
      | none => simp [Dual2.den2, lookup2OrZero, hx, hy]
      | some j => simp [Dual2.den2, lookup2OrZero, hx, hy]

section ProductRule
variable {K : Type} [Field K]

/-- the manifold element of `d` for the name `v` on the request list `vs` (the form `C17_manifold`
proves every element has) -/
def manifoldElem (d : Dual2 K) (vs : List String) (v : String) : Dual2 K :=
  ⟨Dual2.den d v, vs, vs.map (fun w => Dual2.den2 d v w * 2), zerosM vs.length vs.length⟩

theorem manifoldElem_wf (d : Dual2 K) (vs : List String) (hv : vs.Nodup) (v : String) :
    (manifoldElem d vs v).WF := by
  refine ⟨hv, by simp [manifoldElem], by simp [manifoldElem, zerosM], ?_⟩
  intro r hr
  simp only [manifoldElem, zerosM, List.mem_replicate] at hr
  rw [hr.2]; simp [zerosV, manifoldElem]

theorem manifoldElem_den (d : Dual2 K) (vs : List String) (v w : String) (hw : w ∈ vs) :
    Dual2.den (manifoldElem d vs v) w = Dual2.den2 d v w * 2 :=
  lookup_map_names vs _ w hw

/-- every element of the manifold gradient is `manifoldElem` (restatement of `C17_manifold`) -/
theorem C17_manifold_elems (d : Dual2 K) (vs : List String) (hv : vs.Nodup) :
    d.gradient1Manifold vs = vs.map (manifoldElem d vs) :=
  C17_manifold d vs hv

/-- THE PRODUCT RULE ON MANIFOLDS: for second-order numbers `a`, `b` of any layouts and any list of
distinct names, the manifold element of the product `a·b` for a name `v` has the same value and the same
gradient (with respect to every requested name `w`) as `M_v(a)·b + a·M_v(b)` — i.e. differentiating the
first derivatives once more by the ordinary product rule reproduces the second derivatives of the
product.  (Over any field in which 2 ≠ 0; the stored Hessian is the HALF second derivative.) -/
theorem C17_manifold_product_rule (h2 : (2 : K) ≠ 0) (a b : Dual2 K) (ha : a.WF) (hb : b.WF)
    (vs : List String) (hv : vs.Nodup) (v w : String) (hw : w ∈ vs) :
    let lhs := manifoldElem (Dual2.mul false a b) vs v
    let rhs := Dual2.add false (Dual2.mul false (manifoldElem a vs v) b) (Dual2.mul false a (manifoldElem b vs v))
    lhs.real = rhs.real ∧ Dual2.den lhs w = Dual2.den rhs w := by
  intro lhs rhs
  have wa := manifoldElem_wf a vs hv v
  have wb := manifoldElem_wf b vs hv v
  have m1 := Dual2.mul_spec false (manifoldElem a vs v) b wa hb (by simp)
  have m2 := Dual2.mul_spec false a (manifoldElem b vs v) ha wb (by simp)
  have s := Dual2.add_spec false _ _ m1.wf m2.wf (by simp)
  have mab := Dual2.mul_spec false a b ha hb (by simp)
  have hhalf : (half : K) * 2 = 1 := by
    unfold half; field_simp
  constructor
  · show Dual2.den (Dual2.mul false a b) v = _
    rw [s.real, m1.real, m2.real, mab.den]
    simp only [manifoldElem]
    ring
  · rw [manifoldElem_den _ vs v w hw, mab.den2, s.den, m1.den, m2.den,
      manifoldElem_den a vs v w hw, manifoldElem_den b vs v w hw]
    simp only [manifoldElem]
    linear_combination (Dual2.den a v * Dual2.den b w + Dual2.den a w * Dual2.den b v) * hhalf
end ProductRule

/-! Non-vacuity -/
example : (⟨2, ["x", "y"], [1, 3], [[1, 2], [2, 5]]⟩ : Dual2 ℤ).WF := by
  refine ⟨by decide, rfl, rfl, ?_⟩
  intro r hr; simp at hr; rcases hr with rfl | rfl <;> rfl
example : (⟨2, ["x", "y"], [1, 3], [[1, 2], [2, 5]]⟩ : Dual2 ℤ).gradient2 ["y", "z", "x"]
    = [[10, 0, 4], [0, 0, 0], [4, 0, 2]] := by decide

end Rateslib
