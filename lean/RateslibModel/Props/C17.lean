/-
C17  Gradients are read back by name, in the order asked for.
-/
import RateslibModel.Proofs.DualOps
namespace Rateslib
open Dual

variable {α : Type} [CommRing α]

/-- shape invariant of a second-order number -/
def Dual2.WF (d : Dual2 α) : Prop :=
  d.vars.Nodup ∧ d.dual.length = d.vars.length ∧ d.dual2.length = d.vars.length ∧
    ∀ r ∈ d.dual2, r.length = d.vars.length

/-- first and (stored, i.e. half) second derivative by NAME -/
def Dual2.den (d : Dual2 α) (n : String) : α := lookupOrZero d.vars d.dual n
def Dual2.den2 (d : Dual2 α) (n m : String) : α := lookup2OrZero d.vars d.dual2 n m

/-- Asking a first-order number for its gradient with respect to distinct names returns the
derivatives in exactly that order, zero for names it does not depend on — on the fast path (equal
lists) and on the look-up path alike. -/
theorem C17_gradient1 (d : Dual α) (vs : List String) (hd : d.WF) (hv : vs.Nodup) :
    d.gradient1 vs = vs.map (den d) :=
  gradient1_spec d vs hd hv

/-- The same for the gradient of a second-order number. -/
theorem C17_gradient1_dual2 (d : Dual2 α) (vs : List String) (hd : d.WF) (hv : vs.Nodup) :
    d.gradient1 vs = vs.map (Dual2.den d) := by
  have : d.gradient1 vs = (⟨d.real, d.vars, d.dual⟩ : Dual α).gradient1 vs := rfl
  rw [this, gradient1_spec _ vs ⟨hd.1, hd.2.1⟩ hv]
  rfl

theorem den2_idx (d : Dual2 α) (h1 : d.vars.Nodup) (i j : Nat) (hi : i < d.vars.length)
    (hj : j < d.vars.length) :
    Dual2.den2 d d.vars[i] d.vars[j] = (d.dual2.getD i []).getD j 0 := by
  unfold Dual2.den2 lookup2OrZero
  rw [idxOf_nodup d.vars h1 i hi, idxOf_nodup d.vars h1 j hj]

theorem dual2_eq_map_den2 (d : Dual2 α) (h : d.WF) :
    d.dual2 = d.vars.map (fun v => d.vars.map (fun w => Dual2.den2 d v w)) := by
  obtain ⟨h1, _, h3, h4⟩ := h
  apply List.ext_getElem (by simp [h3])
  intro i hi1 hi2
  have hi : i < d.vars.length := by simpa using hi2
  rw [List.getElem_map]
  have hrow : (d.dual2[i]).length = d.vars.length := h4 _ (List.getElem_mem hi1)
  apply List.ext_getElem (by simp [hrow])
  intro j hj1 hj2
  have hj : j < d.vars.length := by simpa using hj2
  rw [List.getElem_map, den2_idx d h1 i j hi hj]
  simp only [List.getD_eq_getElem?_getD, List.getElem?_eq_getElem hi1, Option.getD_some,
    List.getElem?_eq_getElem hj1]

/-- The Hessian read-back: entry (i, j) is twice the stored second derivative for the pair of names
(`vs[i]`, `vs[j]`), in the order asked for, on both code paths. -/
theorem C17_gradient2 (d : Dual2 α) (vs : List String) (hd : d.WF) (hv : vs.Nodup) :
    d.gradient2 vs = vs.map (fun v => vs.map (fun w => 2 * Dual2.den2 d v w)) := by
  unfold Dual2.gradient2
  rw [dedup_of_nodup vs hv]
  simp only
  have key : mscaleL (2 : α) (vs.map (fun v => vs.map (fun w => lookup2OrZero d.vars d.dual2 v w)))
      = vs.map (fun v => vs.map (fun w => 2 * Dual2.den2 d v w)) := by
    simp [mscaleL, vscaleL, Dual2.den2, List.map_map, Function.comp_def]
  cases hc : varsCmp false d.vars vs with
  | arcEq => unfold varsCmp at hc; repeat' split at hc
             all_goals simp_all
  | valEq =>
    have : d.vars = vs := by
      unfold varsCmp at hc
      repeat' split at hc
      all_goals simp_all
    simp only
    conv => lhs; rw [dual2_eq_map_den2 d hd]
    rw [← this]
    simp [mscaleL, vscaleL, List.map_map, Function.comp_def]
  | superset => exact key
  | subset => exact key
  | difference => exact key

/-- The gradient 'as a manifold': for distinct names, element `i` is a second-order number whose
value is the first derivative w.r.t. `vs[i]`, whose own gradient is the matching Hessian row (twice
the stored half-Hessian), with zero second-order part, on the requested variable list — uniformly,
also for names the number does not depend on (value 0, zero gradient). -/
theorem C17_manifold (d : Dual2 α) (vs : List String) (hv : vs.Nodup) :
    d.gradient1Manifold vs = vs.map (fun v =>
      (⟨Dual2.den d v, vs, vs.map (fun w => Dual2.den2 d v w * 2), zerosM vs.length vs.length⟩ : Dual2 α)) := by
  unfold Dual2.gradient1Manifold
  apply List.map_congr_left
  intro v _
  simp only [dedup_of_nodup vs hv]
  cases hx : d.vars.idxOf? v with
  | none =>
    simp only [Dual2.den, Dual2.den2, lookupOrZero, lookup2OrZero, hx]
    congr 1
    simp [zerosV]
  | some i =>
    simp only
    congr 1
    · simp [Dual2.den, lookupOrZero, hx]
    · apply List.map_congr_left
      intro w _
      cases hy : d.vars.idxOf? w with
      | none => simp [Dual2.den2, lookup2OrZero, hx, hy]
      | some j => simp [Dual2.den2, lookup2OrZero, hx, hy]

/-! Non-vacuity -/
example : (⟨2, ["x", "y"], [1, 3], [[1, 2], [2, 5]]⟩ : Dual2 ℤ).WF := by
  refine ⟨by decide, rfl, rfl, ?_⟩
  intro r hr; simp at hr; rcases hr with rfl | rfl <;> rfl
example : (⟨2, ["x", "y"], [1, 3], [[1, 2], [2, 5]]⟩ : Dual2 ℤ).gradient2 ["y", "z", "x"]
    = [[10, 0, 4], [0, 0, 0], [4, 0, 2]] := by decide

end Rateslib
