/-
C11  Curve look-ups follow each interpolation rule at, between and beyond nodes.
-/
import RateslibModel.Proofs.IndexLeft
import RateslibModel.Proofs.CurveSort
import RateslibModel.Analysis.RealInst
namespace Rateslib
open Real

/-- The interval used for a date: for at least two nodes `index_left` terminates, and returns the
interval whose right end is the first node on or after the date, clamped to the first and last
intervals: `i ≤ n−2`; `i = 0` or `xs[i] < v`; `i = n−2` or `v ≤ xs[i+1]`. -/
theorem C11_index_left (xs : List Int) (v : Int) (h2 : 2 ≤ xs.length) :
    ∃ i, indexLeftInt xs v = some i ∧ IsLeftIndex xs v i :=
  indexLeftInt_spec xs v h2

/-- For strictly increasing node dates that interval is unique: the answer is determined by the
property, whatever the bisection does. -/
theorem C11_index_left_unique (xs : List Int) (hs : xs.Pairwise (· < ·)) (v : Int) (i j : Nat)
    (hi : IsLeftIndex xs v i) (hj : IsLeftIndex xs v j) : i = j :=
  isLeftIndex_unique xs hs v i j hi hj

/-- Corollaries in the property's words: before/at the second node ⇒ first interval; after the
last-but-one node ⇒ last interval; otherwise the bracketing interval. -/
theorem C11_index_left_cases (xs : List Int) (hs : xs.Pairwise (· < ·)) (v : Int) (i : Nat)
    (h : indexLeftInt xs v = some i) (h2 : 2 ≤ xs.length) :
    (v ≤ xs.getD 1 0 → i = 0) ∧ (xs.getD (xs.length - 2) 0 < v → i = xs.length - 2) := by
  obtain ⟨j, hj, hspec⟩ := indexLeftInt_spec xs v h2
  rw [h] at hj; cases hj
  refine ⟨fun hv => ?_, fun hv => ?_⟩
  · exact isLeftIndex_unique xs hs v i 0 hspec ⟨by omega, Or.inl rfl, Or.inr (by simpa using hv)⟩
  · refine isLeftIndex_unique xs hs v i (xs.length - 2) hspec ⟨by omega, ?_, Or.inl (by omega)⟩
    by_cases h0 : xs.length - 2 = 0
    · exact Or.inl h0
    · exact Or.inr hv

section Values
variable {α : Type} [Add α] [Sub α] [Mul α] [Div α] [Neg α] [OfNat α 0] [OfNat α 1] [OfNat α 2]
  [Transc α]

/-- A look-up uses exactly the two nodes of that interval (every rule, every value type): the value
is the rule's closed form `interpOn` of nodes `i`, `i+1`. -/
theorem C11_interval_used (c : Curve α) (ts : Int) (h2 : 2 ≤ c.keys.length) :
    ∃ i, IsLeftIndex c.keys ts i ∧
      c.value ts = (match c.vals with
        | .f64 v => (interpOn (α := α) c.interp c.keys v i ts).map Number.f64
        | .dual v => (interpOn (α := α) c.interp c.keys v i ts).map Number.dual
        | .dual2 v => (interpOn (α := α) c.interp c.keys v i ts).map Number.dual2) := by
  obtain ⟨i, hi, hs⟩ := indexLeftInt_spec c.keys ts h2
  refine ⟨i, hs, ?_⟩
  unfold Curve.value
  rw [hi]
  cases c.vals <;> rfl

/-- Flat rules return a node's value itself (no arithmetic, so exactly — for f64 too): flat-forward
is the left node's value up to but excluding the right node; flat-backward is the right node's
value after the left node. -/
theorem C11_flat_exact {τ : Type} [NumOps α τ] (keys : List Int) (vals : List τ) (i : Nat) (x x1 x2 : Int)
    (y1 y2 : τ) (hx1 : keys[i]? = some x1) (hx2 : keys[i + 1]? = some x2)
    (hy1 : vals[i]? = some y1) (hy2 : vals[i + 1]? = some y2) :
    interpOn (α := α) .flatForward keys vals i x = some (if x ≥ x2 then y2 else y1) ∧
    interpOn (α := α) .flatBackward keys vals i x = some (if x ≤ x1 then y1 else y2) := by
  simp [interpOn, hx1, hx2, hy1, hy2]

end Values

/-! ### the three smooth closed forms over ℝ -/

/-- straight line: hits both nodes and stays between them -/
theorem C11_linear (x1 x2 y1 y2 x : ℝ) (h : x1 < x2) :
    linearInterp (α := ℝ) (τ := ℝ) x1 y1 x2 y2 x1 = y1 ∧
    linearInterp (α := ℝ) (τ := ℝ) x1 y1 x2 y2 x2 = y2 ∧
    (x1 ≤ x → x ≤ x2 →
      min y1 y2 ≤ linearInterp (α := ℝ) (τ := ℝ) x1 y1 x2 y2 x ∧
      linearInterp (α := ℝ) (τ := ℝ) x1 y1 x2 y2 x ≤ max y1 y2) := by
  have hne : x2 - x1 ≠ 0 := by linarith
  have e : ∀ x : ℝ, linearInterp (α := ℝ) (τ := ℝ) x1 y1 x2 y2 x = y1 + (y2 - y1) * ((x - x1) / (x2 - x1)) :=
    fun _ => rfl
  refine ⟨by rw [e]; simp, by rw [e]; field_simp; ring, fun h1 h2 => ?_⟩
  rw [e]
  have ht0 : 0 ≤ (x - x1) / (x2 - x1) := div_nonneg (by linarith) (by linarith)
  have ht1 : (x - x1) / (x2 - x1) ≤ 1 := by rw [div_le_one (by linarith)]; linarith
  set t := (x - x1) / (x2 - x1)
  rcases le_total y1 y2 with hy | hy
  · rw [min_eq_left hy, max_eq_right hy]
    constructor <;> nlinarith
  · rw [min_eq_right hy, max_eq_left hy]
    constructor <;> nlinarith

theorem logLinear_eq (x1 x2 y1 y2 x : ℝ) :
    logLinearInterp (α := ℝ) (τ := ℝ) x1 y1 x2 y2 x
      = Real.exp (linearInterp (α := ℝ) (τ := ℝ) x1 (Real.log y1) x2 (Real.log y2) x) := rfl

/-- straight line in logarithms: hits both (positive) nodes and stays between them -/
theorem C11_log_linear (x1 x2 y1 y2 x : ℝ) (h : x1 < x2) (hy1 : 0 < y1) (hy2 : 0 < y2) :
    logLinearInterp (α := ℝ) (τ := ℝ) x1 y1 x2 y2 x1 = y1 ∧
    logLinearInterp (α := ℝ) (τ := ℝ) x1 y1 x2 y2 x2 = y2 ∧
    (x1 ≤ x → x ≤ x2 →
      min y1 y2 ≤ logLinearInterp (α := ℝ) (τ := ℝ) x1 y1 x2 y2 x ∧
      logLinearInterp (α := ℝ) (τ := ℝ) x1 y1 x2 y2 x ≤ max y1 y2) := by
  obtain ⟨l1, l2, l3⟩ := C11_linear x1 x2 (Real.log y1) (Real.log y2) x h
  refine ⟨by rw [logLinear_eq, l1, Real.exp_log hy1], by rw [logLinear_eq, l2, Real.exp_log hy2],
    fun h1 h2 => ?_⟩
  obtain ⟨b1, b2⟩ := l3 h1 h2
  rw [logLinear_eq]
  constructor
  · rcases le_total y1 y2 with hy | hy
    · rw [min_eq_left hy]
      rw [min_eq_left (Real.log_le_log hy1 hy)] at b1
      calc y1 = Real.exp (Real.log y1) := (Real.exp_log hy1).symm
        _ ≤ _ := Real.exp_le_exp.2 b1
    · rw [min_eq_right hy]
      rw [min_eq_right (Real.log_le_log hy2 hy)] at b1
      calc y2 = Real.exp (Real.log y2) := (Real.exp_log hy2).symm
        _ ≤ _ := Real.exp_le_exp.2 b1
  · rcases le_total y1 y2 with hy | hy
    · rw [max_eq_right hy]
      rw [max_eq_right (Real.log_le_log hy1 hy)] at b2
      calc _ ≤ Real.exp (Real.log y2) := Real.exp_le_exp.2 b2
        _ = y2 := Real.exp_log hy2
    · rw [max_eq_left hy]
      rw [max_eq_left (Real.log_le_log hy2 hy)] at b2
      calc _ ≤ Real.exp (Real.log y1) := Real.exp_le_exp.2 b2
        _ = y1 := Real.exp_log hy1

theorem eqb_real (x y : ℝ) : Transc.eqb x y = decide (x = y) := rfl
theorem ln_real0 (x : ℝ) : Transc.ln x = Real.log x := rfl

/-- straight line in the continuously-compounded zero rate measured from the first node `x0`: hits
the right node; hits the left node when that is not the first node; and at the first node itself
(whose own value is presumed to be 1) returns 1. -/
theorem C11_zero_rate (x0 x1 x2 y1 y2 : ℝ) (h01 : x0 ≤ x1) (h12 : x1 < x2) (hy1 : 0 < y1) (hy2 : 0 < y2) :
    linearZeroInterp (α := ℝ) (τ := ℝ) x0 x1 y1 x2 y2 x2 = y2 ∧
    (x0 < x1 → linearZeroInterp (α := ℝ) (τ := ℝ) x0 x1 y1 x2 y2 x1 = y1) ∧
    (x0 = x1 → linearZeroInterp (α := ℝ) (τ := ℝ) x0 x1 y1 x2 y2 x1 = 1) := by
  have ht2 : x2 - x0 ≠ 0 := by linarith
  refine ⟨?_, fun h => ?_, fun h => ?_⟩
  · show Real.exp _ = y2
    simp only [NumOps.mulF, NumOps.log, NumOps.add, NumOps.sub, eqb_real, ln_real0]
    by_cases ht1 : x1 - x0 = 0
    · simp only [ht1, decide_true, if_true]
      rw [show Real.log y2 * (-1 / (x2 - x0)) * -(x2 - x0) = Real.log y2 by field_simp]
      exact Real.exp_log hy2
    · simp only [ht1, decide_false, Bool.false_eq_true, if_false]
      have h21 : x2 - x0 - (x1 - x0) ≠ 0 := by
        have : x2 - x0 - (x1 - x0) = x2 - x1 := by ring
        rw [this]; linarith
      rw [div_self h21]
      rw [show (Real.log y1 * (-1 / (x1 - x0)) +
          (Real.log y2 * (-1 / (x2 - x0)) - Real.log y1 * (-1 / (x1 - x0))) * 1) * -(x2 - x0)
          = Real.log y2 by field_simp; ring]
      exact Real.exp_log hy2
  · have ht1 : x1 - x0 ≠ 0 := by linarith
    show Real.exp _ = y1
    simp only [NumOps.mulF, NumOps.log, NumOps.add, NumOps.sub, eqb_real, ln_real0, ht1, decide_false,
      Bool.false_eq_true, if_false, sub_self, zero_div, mul_zero, add_zero]
    rw [show Real.log y1 * (-1 / (x1 - x0)) * -(x1 - x0) = Real.log y1 by field_simp]
    exact Real.exp_log hy1
  · subst h
    show Real.exp _ = 1
    simp only [NumOps.mulF, sub_self, neg_zero, mul_zero, Real.exp_zero]

/-- The order in which nodes are supplied does not matter (distinct dates): the constructed curve is
the same for every permutation of the node list. -/
theorem C11_order_irrelevant {α : Type} [OfNat α 0] [OfNat α 1]
    (n₁ n₂ : List (Int × Number α)) (hp : n₁.Perm n₂) (hd : (n₁.map Prod.fst).Nodup)
    (interp : Interp) (ad : ADOrder) (id : String) (base : Option α) :
    Curve.new n₁ interp ad id base = Curve.new n₂ interp ad id base := by
  unfold Curve.new
  rw [sortByKey_perm_invariant n₁ n₂ hp hd]

/-! Non-vacuity -/
example : indexLeftInt [10, 20, 30, 40, 50] 30 = some 1 ∧ indexLeftInt [10, 20, 30, 40, 50] 31 = some 2
    ∧ indexLeftInt [10, 20, 30, 40, 50] 5 = some 0 ∧ indexLeftInt [10, 20, 30, 40, 50] 99 = some 3 := by decide
example : ([10, 20, 30, 40, 50] : List Int).Pairwise (· < ·) := by decide

end Rateslib
