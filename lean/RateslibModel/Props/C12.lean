/-
C12  Curve values carry exact sensitivities to their nodes at every derivative order.
-/
import RateslibModel.Props.C11
import RateslibModel.Analysis.Refine
import RateslibModel.Analysis.Refine2
namespace Rateslib
open Real Expr
open Rateslib.Dual

section Generic
variable {α : Type} [Add α] [Sub α] [Mul α] [Div α] [Neg α] [OfNat α 0] [OfNat α 1] [OfNat α 2]
  [Transc α]

/-- the float values of the nodes -/
def NodeVals.reals : NodeVals α → List α
  | .f64 v => v | .dual v => v.map (·.real) | .dual2 v => v.map (·.real)

theorem map_zip_range_snd {β γ : Type} (v : List β) (f : Nat × β → γ) (g : β → γ)
    (h : ∀ p, f p = g p.2 ∨ True) (hf : ∀ i x, f (i, x) = g x) :
    ((List.range v.length).zip v).map f = v.map g := by
  apply List.ext_getElem (by simp)
  intro i h1 h2
  simp [hf]

/-- Switching derivative order never changes any node value, bit for bit (every scalar type). -/
theorem C12_node_values_invariant (c : Curve α) (k : ADOrder) :
    (c.setAdOrder k).vals.reals = c.vals.reals ∧ (c.setAdOrder k).keys = c.keys := by
  refine ⟨?_, rfl⟩
  unfold Curve.setAdOrder
  cases k <;> cases hv : c.vals <;> simp only [NodeVals.reals, List.map_map]
  all_goals first
    | rfl
    | (apply List.ext_getElem (by simp); intro i h1 h2; simp [Dual.new, Dual2.new, Dual.ofDual2, Dual2.ofDual])

/-- …hence any sequence of switches keeps every node value and date. -/
theorem C12_values_invariant (c : Curve α) (ks : List ADOrder) :
    (ks.foldl Curve.setAdOrder c).vals.reals = c.vals.reals ∧ (ks.foldl Curve.setAdOrder c).keys = c.keys := by
  induction ks generalizing c with
  | nil => exact ⟨rfl, rfl⟩
  | cons k ks ih =>
    obtain ⟨h1, h2⟩ := ih (c.setAdOrder k)
    obtain ⟨g1, g2⟩ := C12_node_values_invariant c k
    exact ⟨h1.trans g1, h2.trans g2⟩

/-- Switching a float-valued curve to first (second) order tags the i-th node in date order,
counting from 0, with the single variable `<curve id><i>` and unit sensitivity (zero Hessian). -/
theorem C12_tags (c : Curve α) (v : List α) (hv : c.vals = .f64 v) (hk : c.keys.length = v.length) :
    (c.setAdOrder .one).vals =
      .dual (((List.range v.length).zip v).map (fun p => ⟨p.2, [c.id ++ toString p.1], [1]⟩)) ∧
    (c.setAdOrder .two).vals =
      .dual2 (((List.range v.length).zip v).map (fun p => ⟨p.2, [c.id ++ toString p.1], [1], [[0]]⟩)) := by
  have htag : ∀ i, i < v.length →
      (getVariableTags c.id c.keys.length)[i]?.getD "" = c.id ++ Nat.repr i := by
    intro i hi
    simp [getVariableTags, List.getElem?_map, hk, List.getElem?_range hi]
  constructor
  · simp only [Curve.setAdOrder, hv]
    congr 1
    apply List.map_congr_left
    intro p hp
    have hi : p.1 < v.length := by
      have := List.of_mem_zip hp
      simpa using this.1
    simp [Dual.new, dedup, onesV]
    exact htag p.1 hi
  · simp only [Curve.setAdOrder, hv]
    congr 1
    apply List.map_congr_left
    intro p hp
    have hi : p.1 < v.length := by
      have := List.of_mem_zip hp
      simpa using this.1
    simp [Dual2.new, dedup, onesV, zerosM, zerosV]
    exact htag p.1 hi

/-- Switches between first and second order keep the variable names (and sensitivities) already
present; lowering to order 0 keeps the values only. -/
theorem C12_keep_names (c : Curve α) (v1 : List (Dual α)) (v2 : List (Dual2 α)) :
    (c.vals = .dual v1 → (c.setAdOrder .two).vals
        = .dual2 (v1.map fun d => ⟨d.real, d.vars, d.dual, zerosM d.dual.length d.dual.length⟩)) ∧
    (c.vals = .dual2 v2 → (c.setAdOrder .one).vals = .dual (v2.map fun d => ⟨d.real, d.vars, d.dual⟩)) ∧
    (c.vals = .dual v1 → (c.setAdOrder .one).vals = .dual v1) ∧
    (c.vals = .dual2 v2 → (c.setAdOrder .two).vals = .dual2 v2) := by
  refine ⟨fun h => ?_, fun h => ?_, fun h => ?_, fun h => ?_⟩ <;> simp only [Curve.setAdOrder, h] <;> rfl

theorem aligned_real (p : Bool) (a b : Dual α) :
    (Dual.aligned p a b).1.real = a.real ∧ (Dual.aligned p a b).2.real = b.real := by
  unfold Dual.aligned
  cases varsCmp p a.vars b.vars <;> simp [Dual.toUnionVars, Dual.toNewVars]

theorem aligned2_real (p : Bool) (a b : Dual2 α) :
    (Dual2.aligned p a b).1.real = a.real ∧ (Dual2.aligned p a b).2.real = b.real := by
  unfold Dual2.aligned
  cases varsCmp p a.vars b.vars <;> simp [Dual2.toUnionVars, Dual2.toNewVars]

/-- The looked-up VALUE does not depend on the derivative order, bit for bit, for the three smooth
rules (the value part of every dual-number operation used is the float operation itself). -/
theorem C12_lookup_value_invariant (x1 x2 x0 x : α) (y1 y2 : Dual α) (z1 z2 : Dual2 α) :
    (linearInterp (α := α) x1 y1 x2 y2 x).real = linearInterp (α := α) (τ := α) x1 y1.real x2 y2.real x ∧
    (logLinearInterp (α := α) x1 y1 x2 y2 x).real = logLinearInterp (α := α) (τ := α) x1 y1.real x2 y2.real x ∧
    (linearZeroInterp (α := α) x0 x1 y1 x2 y2 x).real
      = linearZeroInterp (α := α) (τ := α) x0 x1 y1.real x2 y2.real x ∧
    (linearInterp (α := α) x1 z1 x2 z2 x).real = linearInterp (α := α) (τ := α) x1 z1.real x2 z2.real x ∧
    (logLinearInterp (α := α) x1 z1 x2 z2 x).real = logLinearInterp (α := α) (τ := α) x1 z1.real x2 z2.real x ∧
    (linearZeroInterp (α := α) x0 x1 z1 x2 z2 x).real
      = linearZeroInterp (α := α) (τ := α) x0 x1 z1.real x2 z2.real x := by
  have ar := @aligned_real α _ _ _ _ _ _ _ _ _
  have ar2 := @aligned2_real α _ _ _ _ _ _ _ _ _
  refine ⟨?_, ?_, ?_, ?_, ?_, ?_⟩
  all_goals
    simp only [linearInterp, logLinearInterp, linearZeroInterp, NumOps.add, NumOps.sub, NumOps.mulF,
      NumOps.log, NumOps.exp, Dual.add, Dual.sub, Dual.mulF, Dual.log, Dual.exp, Dual2.add, Dual2.sub,
      Dual2.mulF, Dual2.log, Dual2.exp]
    try split
    all_goals simp only [ar, ar2, (ar _ _ _).1, (ar _ _ _).2, (ar2 _ _ _).1, (ar2 _ _ _).2]

/-- An index curve's index value is its base divided by the curve value, zero before the first
node, and an error without a base. -/
theorem C12_index_value (c : Curve α) (ts : Int) :
    (c.indexBase = none → c.indexValue ts = .err) ∧
    (∀ ib k0, c.indexBase = some ib → c.keys.head? = some k0 → ts < k0 → c.indexValue ts = .ok (.f64 0)) ∧
    (∀ ib k0 v, c.indexBase = some ib → c.keys.head? = some k0 → ¬ ts < k0 → c.value ts = some v →
      c.indexValue ts = .ok (fOpNumber .div ib v)) := by
  refine ⟨fun h => ?_, fun ib k0 h1 h2 h3 => ?_, fun ib k0 v h1 h2 h3 h4 => ?_⟩
  · simp [Curve.indexValue, h]
  · simp [Curve.indexValue, h1, h2, h3]
  · simp [Curve.indexValue, h1, h2, h3, h4]

end Generic

/-! ### exact sensitivities of the straight-line rule over ℝ (the other rules compose exp/log the same way) -/

/-- the straight-line rule as a formula of C01's grammar over the two bracketing node values -/
noncomputable def linExpr (c : ℝ) : Expr := .add (.leaf 0) (.mul (.sub (.leaf 1) (.leaf 0)) (.const c))

/-- Gradient of a straight-line look-up: for every variable name, the reported sensitivity is the true
derivative of the interpolation formula when the two bracketing node values move with their own
sensitivities to that name — in particular `1 − t` and `t` with respect to the nodes' own tags. -/
theorem C12_grad_linear (x1 x2 x : ℝ) (y1 y2 : Dual ℝ) (h1 : y1.WF) (h2 : y2.WF) (v : String) :
    jetOf (linearInterp (α := ℝ) x1 y1 x2 y2 x) v
      = evalJ (linExpr ((x - x1) / (x2 - x1))) (fun i => if i = 0 then jetOf y1 v else jetOf y2 v) := by
  set c := (x - x1) / (x2 - x1)
  have S := sub_spec false y2 y1 h2 h1 (by simp)
  have hm : (Dual.mulF (Dual.sub false y2 y1) c).WF := ⟨S.wf.1, by simp [Dual.mulF, vscaleL, S.wf.2]⟩
  have A := add_spec false y1 (Dual.mulF (Dual.sub false y2 y1) c) h1 hm (by simp)
  have hd : den (Dual.mulF (Dual.sub false y2 y1) c) v = c * den (Dual.sub false y2 y1) v :=
    den_scaleL _ c S.wf _ v
  refine Prod.ext ?_ ?_
  · show (Dual.add false y1 (Dual.mulF (Dual.sub false y2 y1) c)).real = _
    rw [A.real]; simp only [Dual.mulF, S.real, linExpr, evalJ]; simp [jetOf]
  · show den (Dual.add false y1 (Dual.mulF (Dual.sub false y2 y1) c)) v = _
    rw [A.den, hd, S.den]; simp only [linExpr, evalJ]; simp [jetOf]; ring

/-- Nodes outside the interval used contribute nothing: the result carries only the variables of the
two bracketing nodes, so its sensitivity to any other name is zero. -/
theorem C12_local (x1 x2 x : ℝ) (y1 y2 : Dual ℝ) (h1 : y1.WF) (h2 : y2.WF) (n : String)
    (hn1 : n ∉ y1.vars) (hn2 : n ∉ y2.vars) :
    den (linearInterp (α := ℝ) x1 y1 x2 y2 x) n = 0 := by
  set c := (x - x1) / (x2 - x1)
  have S := sub_spec false y2 y1 h2 h1 (by simp)
  have hm : (Dual.mulF (Dual.sub false y2 y1) c).WF := ⟨S.wf.1, by simp [Dual.mulF, vscaleL, S.wf.2]⟩
  have A := add_spec false y1 (Dual.mulF (Dual.sub false y2 y1) c) h1 hm (by simp)
  apply lookup_not_mem
  intro hmem
  have := (A.mem n).1 hmem
  rcases this with h | h
  · exact hn1 h
  · have : n ∈ (Dual.sub false y2 y1).vars := h
    rcases (S.mem n).1 this with h | h
    · exact hn2 h
    · exact hn1 h

/-! ### exact sensitivities of the log-linear and zero-rate rules -/

theorem jetOf_log (y : Dual ℝ) (h : y.WF) (v : String) :
    (Dual.log y).WF ∧ jetOf (Dual.log y) v = (Real.log y.real, 1 / y.real * den y v) :=
  ⟨wf_scaleL _ _ _ h, Prod.ext rfl (den_scaleL y (1 / y.real) h _ v)⟩

theorem jetOf_exp (y : Dual ℝ) (h : y.WF) (v : String) :
    (Dual.exp y).WF ∧ jetOf (Dual.exp y) v = (Real.exp y.real, Real.exp y.real * den y v) :=
  ⟨wf_scaleL _ _ _ h, Prod.ext rfl (den_scaleL y (Transc.exp y.real) h _ v)⟩

theorem jetOf_mulF (y : Dual ℝ) (c : ℝ) (h : y.WF) (v : String) :
    (Dual.mulF y c).WF ∧ jetOf (Dual.mulF y c) v = (y.real * c, c * den y v) :=
  ⟨wf_scaleL _ _ _ h, Prod.ext rfl (den_scaleL y c h _ v)⟩

theorem linearInterp_wf (x1 x2 x : ℝ) (y1 y2 : Dual ℝ) (h1 : y1.WF) (h2 : y2.WF) :
    (linearInterp (α := ℝ) x1 y1 x2 y2 x).WF := by
  have S := sub_spec false y2 y1 h2 h1 (by simp)
  have hm := (jetOf_mulF (Dual.sub false y2 y1) ((x - x1) / (x2 - x1)) S.wf "").1
  exact (add_spec false y1 _ h1 hm (by simp)).wf

/-- the log-linear rule as a formula of C01's grammar -/
noncomputable def logLinExpr (c : ℝ) : Expr :=
  .exp (.add (.log (.leaf 0)) (.mul (.sub (.log (.leaf 1)) (.log (.leaf 0))) (.const c)))

/-- Gradient of a log-linear look-up = the C01 jet of the formula `exp(log y₁ + (log y₂ − log y₁)·c)`. -/
theorem C12_grad_log_linear (x1 x2 x : ℝ) (y1 y2 : Dual ℝ) (h1 : y1.WF) (h2 : y2.WF) (v : String) :
    jetOf (logLinearInterp (α := ℝ) x1 y1 x2 y2 x) v
      = evalJ (logLinExpr ((x - x1) / (x2 - x1))) (fun i => if i = 0 then jetOf y1 v else jetOf y2 v) := by
  obtain ⟨w1, j1⟩ := jetOf_log y1 h1 v
  obtain ⟨w2, j2⟩ := jetOf_log y2 h2 v
  have L := C12_grad_linear x1 x2 x (Dual.log y1) (Dual.log y2) w1 w2 v
  have wl := linearInterp_wf x1 x2 x (Dual.log y1) (Dual.log y2) w1 w2
  obtain ⟨_, je⟩ := jetOf_exp _ wl v
  show jetOf (Dual.exp (linearInterp (α := ℝ) x1 (Dual.log y1) x2 (Dual.log y2) x)) v = _
  rw [je]
  have hr : (linearInterp (α := ℝ) x1 (Dual.log y1) x2 (Dual.log y2) x).real
      = (jetOf (linearInterp (α := ℝ) x1 (Dual.log y1) x2 (Dual.log y2) x) v).1 := rfl
  have hd : den (linearInterp (α := ℝ) x1 (Dual.log y1) x2 (Dual.log y2) x) v
      = (jetOf (linearInterp (α := ℝ) x1 (Dual.log y1) x2 (Dual.log y2) x) v).2 := rfl
  rw [hr, hd, L]
  have d1 : den (Dual.log y1) v = 1 / y1.real * den y1 v := congrArg Prod.snd j1
  have d2 : den (Dual.log y2) v = 1 / y2.real * den y2 v := congrArg Prod.snd j2
  have r1 : (Dual.log y1).real = Real.log y1.real := rfl
  have r2 : (Dual.log y2).real = Real.log y2.real := rfl
  simp only [logLinExpr, linExpr, evalJ, jetOf, if_true, d1, d2, r1, r2]
  simp


/-- the zero-rate rule as a formula of C01's grammar: `exp(−t · (r₁ + (r₂ − r₁)·c))`, `rᵢ = log yᵢ · aᵢ` -/
noncomputable def zeroRateExpr (a1 a2 c mt : ℝ) : Expr :=
  .exp (.mul (.add (.mul (.log (.leaf 0)) (.const a1))
      (.mul (.sub (.mul (.log (.leaf 1)) (.const a2)) (.mul (.log (.leaf 0)) (.const a1))) (.const c)))
    (.const mt))

/-- … and when the left node IS the first node (t₁ = 0): the right node's rate alone -/
noncomputable def zeroRateExpr0 (a2 mt : ℝ) : Expr :=
  .exp (.mul (.mul (.log (.leaf 1)) (.const a2)) (.const mt))


/-- Gradient of a zero-rate look-up = the C01 jet of the rule's formula (both branches). -/
theorem C12_grad_zero_rate (x0 x1 x2 x : ℝ) (y1 y2 : Dual ℝ) (h1 : y1.WF) (h2 : y2.WF) (v : String) :
    (x1 - x0 ≠ 0 →
      jetOf (linearZeroInterp (α := ℝ) x0 x1 y1 x2 y2 x) v
        = evalJ (zeroRateExpr (-1 / (x1 - x0)) (-1 / (x2 - x0))
            ((x - x0 - (x1 - x0)) / (x2 - x0 - (x1 - x0))) (-(x - x0)))
            (fun i => if i = 0 then jetOf y1 v else jetOf y2 v)) ∧
    (x1 - x0 = 0 →
      jetOf (linearZeroInterp (α := ℝ) x0 x1 y1 x2 y2 x) v
        = evalJ (zeroRateExpr0 (-1 / (x2 - x0)) (-(x - x0)))
            (fun i => if i = 0 then jetOf y1 v else jetOf y2 v)) := by
  obtain ⟨w1, j1⟩ := jetOf_log y1 h1 v
  obtain ⟨w2, j2⟩ := jetOf_log y2 h2 v
  obtain ⟨wr1, jr1⟩ := jetOf_mulF (Dual.log y1) (-1 / (x1 - x0)) w1 v
  obtain ⟨wr2, jr2⟩ := jetOf_mulF (Dual.log y2) (-1 / (x2 - x0)) w2 v
  have d1 : den (Dual.log y1) v = 1 / y1.real * den y1 v := congrArg Prod.snd j1
  have d2 : den (Dual.log y2) v = 1 / y2.real * den y2 v := congrArg Prod.snd j2
  have e1 : den (Dual.mulF (Dual.log y1) (-1 / (x1 - x0))) v = -1 / (x1 - x0) * den (Dual.log y1) v :=
    congrArg Prod.snd jr1
  have e2 : den (Dual.mulF (Dual.log y2) (-1 / (x2 - x0))) v = -1 / (x2 - x0) * den (Dual.log y2) v :=
    congrArg Prod.snd jr2
  constructor
  · intro hne
    have hb : Transc.eqb (x1 - x0) (0 : ℝ) = false := by
      show decide (x1 - x0 = 0) = false; exact decide_eq_false hne
    -- the interpolated rate r = r1 + (r2 - r1) c is a straight-line rule on (r1, r2)
    set R1 := Dual.mulF (Dual.log y1) (-1 / (x1 - x0)) with hR1
    set R2 := Dual.mulF (Dual.log y2) (-1 / (x2 - x0)) with hR2
    have S := sub_spec false R2 R1 wr2 wr1 (by simp)
    set c := (x - x0 - (x1 - x0)) / (x2 - x0 - (x1 - x0)) with hc
    obtain ⟨wm, jm⟩ := jetOf_mulF (Dual.sub false R2 R1) c S.wf v
    have A := add_spec false R1 (Dual.mulF (Dual.sub false R2 R1) c) wr1 wm (by simp)
    obtain ⟨wt, jt⟩ := jetOf_mulF (Dual.add false R1 (Dual.mulF (Dual.sub false R2 R1) c)) (-(x - x0)) A.wf v
    obtain ⟨_, je⟩ := jetOf_exp _ wt v
    have hform : linearZeroInterp (α := ℝ) x0 x1 y1 x2 y2 x
        = Dual.exp (Dual.mulF (Dual.add false R1 (Dual.mulF (Dual.sub false R2 R1) c)) (-(x - x0))) := by
      simp only [linearZeroInterp, hb, NumOps.add, NumOps.sub, NumOps.mulF, NumOps.log, NumOps.exp]
      rfl
    rw [hform, je]
    have dt : den (Dual.mulF (Dual.add false R1 (Dual.mulF (Dual.sub false R2 R1) c)) (-(x - x0))) v
        = -(x - x0) * den (Dual.add false R1 (Dual.mulF (Dual.sub false R2 R1) c)) v := congrArg Prod.snd jt
    have dm : den (Dual.mulF (Dual.sub false R2 R1) c) v = c * den (Dual.sub false R2 R1) v :=
      congrArg Prod.snd jm
    have rt : (Dual.mulF (Dual.add false R1 (Dual.mulF (Dual.sub false R2 R1) c)) (-(x - x0))).real
        = (Dual.add false R1 (Dual.mulF (Dual.sub false R2 R1) c)).real * (-(x - x0)) := rfl
    have rm : (Dual.mulF (Dual.sub false R2 R1) c).real = (Dual.sub false R2 R1).real * c := rfl
    have rr1 : R1.real = Real.log y1.real * (-1 / (x1 - x0)) := rfl
    have rr2 : R2.real = Real.log y2.real * (-1 / (x2 - x0)) := rfl
    refine Prod.ext ?_ ?_
    · simp only [zeroRateExpr, evalJ, jetOf, if_true, rt, A.real, rm, S.real, rr1, rr2]
      simp
    · simp only [zeroRateExpr, evalJ, jetOf, if_true, rt, A.real, rm, S.real, rr1, rr2, dt, A.den, dm,
        S.den, e1, e2, d1, d2]
      simp
      ring
  · intro heq
    have hb : Transc.eqb (x1 - x0) (0 : ℝ) = true := by
      show decide (x1 - x0 = 0) = true; exact decide_eq_true heq
    set R2 := Dual.mulF (Dual.log y2) (-1 / (x2 - x0)) with hR2
    obtain ⟨wt, jt⟩ := jetOf_mulF R2 (-(x - x0)) wr2 v
    obtain ⟨_, je⟩ := jetOf_exp _ wt v
    have hform : linearZeroInterp (α := ℝ) x0 x1 y1 x2 y2 x = Dual.exp (Dual.mulF R2 (-(x - x0))) := by
      simp only [linearZeroInterp, hb, NumOps.mulF, NumOps.log, NumOps.exp]
      rfl
    rw [hform, je]
    have dt : den (Dual.mulF R2 (-(x - x0))) v = -(x - x0) * den R2 v := congrArg Prod.snd jt
    have rt : (Dual.mulF R2 (-(x - x0))).real = R2.real * (-(x - x0)) := rfl
    have rr2 : R2.real = Real.log y2.real * (-1 / (x2 - x0)) := rfl
    refine Prod.ext ?_ ?_
    · simp only [zeroRateExpr0, evalJ, jetOf, rt, rr2]
      simp
    · simp only [zeroRateExpr0, evalJ, jetOf, rt, rr2, dt, e2, d2]
      simp
      ring

/-! ### second order: value, gradient and Hessian of every smooth rule along any two-name direction -/
/-- componentwise affine combination of 2-jets -/
noncomputable def J2.lin (a b : J2) (c : ℝ) : J2 :=
  ⟨a.v0 + (b.v0 - a.v0) * c, a.v1 + (b.v1 - a.v1) * c, a.v2 + (b.v2 - a.v2) * c⟩

theorem mulF2_spec (a : Dual2 ℝ) (ha : a.WF) (c : ℝ) : ChainSpec a (Dual2.mulF a c) (a.real * c) c 0 :=
  scaleL_spec a ha (a.real * c) c

theorem linearInterp2 (x1 x2 x : ℝ) (y1 y2 : Dual2 ℝ) (h1 : y1.WF) (h2 : y2.WF) (α β : ℝ) (v w : String) :
    (linearInterp (α := ℝ) x1 y1 x2 y2 x).WF ∧
    dirJet α β v w (linearInterp (α := ℝ) x1 y1 x2 y2 x)
      = J2.lin (dirJet α β v w y1) (dirJet α β v w y2) ((x - x1) / (x2 - x1)) := by
  set c := (x - x1) / (x2 - x1)
  have S := Dual2.sub_spec false y2 y1 h2 h1 (by simp)
  have M := mulF2_spec (Dual2.sub false y2 y1) S.wf c
  have A := Dual2.add_spec false y1 (Dual2.mulF (Dual2.sub false y2 y1) c) h1 M.wf (by simp)
  refine ⟨A.wf, ?_⟩
  show dirJet α β v w (Dual2.add false y1 (Dual2.mulF (Dual2.sub false y2 y1) c)) = _
  apply J2.ext'
  · simp only [dirJet, J2.lin, A.real, M.real, S.real]
  · simp only [dirJet, J2.lin, A.den, M.den, S.den]; ring
  · simp only [dirJet, J2.lin, A.den2, M.den2, S.den2]; ring

/-- Hessian (and gradient, and value) of a straight-line look-up on second-order nodes: along every
direction of two variable names, the 2-jet of the result is the 2-jet of the rule's formula. -/
theorem C12_hess_linear (x1 x2 x : ℝ) (y1 y2 : Dual2 ℝ) (h1 : y1.WF) (h2 : y2.WF) (α β : ℝ) (v w : String) :
    dirJet α β v w (linearInterp (α := ℝ) x1 y1 x2 y2 x)
      = evalJ2 (linExpr ((x - x1) / (x2 - x1)))
          (fun i => if i = 0 then dirJet α β v w y1 else dirJet α β v w y2) := by
  rw [(linearInterp2 x1 x2 x y1 y2 h1 h2 α β v w).2]
  apply J2.ext'
  · simp only [J2.lin, linExpr, evalJ2, mulJ2, if_true]; simp
  · simp only [J2.lin, linExpr, evalJ2, mulJ2, if_true]; simp
  · simp only [J2.lin, linExpr, evalJ2, mulJ2, if_true]; simp

theorem C12_hess_log_linear (x1 x2 x : ℝ) (y1 y2 : Dual2 ℝ) (h1 : y1.WF) (h2 : y2.WF) (α β : ℝ) (v w : String) :
    dirJet α β v w (logLinearInterp (α := ℝ) x1 y1 x2 y2 x)
      = evalJ2 (logLinExpr ((x - x1) / (x2 - x1)))
          (fun i => if i = 0 then dirJet α β v w y1 else dirJet α β v w y2) := by
  have L1 := log_spec y1 h1
  have L2 := log_spec y2 h2
  obtain ⟨wl, jl⟩ := linearInterp2 x1 x2 x (Dual2.log y1) (Dual2.log y2) L1.wf L2.wf α β v w
  have E := exp_spec _ wl
  show dirJet α β v w (Dual2.exp (linearInterp (α := ℝ) x1 (Dual2.log y1) x2 (Dual2.log y2) x)) = _
  have hX0 : (linearInterp (α := ℝ) x1 (Dual2.log y1) x2 (Dual2.log y2) x).real
      = ((dirJet α β v w (Dual2.log y1)).lin (dirJet α β v w (Dual2.log y2)) ((x - x1) / (x2 - x1))).v0 := by
    rw [← jl]; rfl
  rw [chain_dirJet E, hX0, jl, chain_dirJet L1, chain_dirJet L2]
  apply J2.ext'
  · simp only [J2.lin, logLinExpr, evalJ2, mulJ2, if_true, dirJet]; simp
  · simp only [J2.lin, logLinExpr, evalJ2, mulJ2, if_true, dirJet]; simp
  · simp only [J2.lin, logLinExpr, evalJ2, mulJ2, if_true, dirJet]; simp; ring

theorem C12_hess_zero_rate (x0 x1 x2 x : ℝ) (y1 y2 : Dual2 ℝ) (h1 : y1.WF) (h2 : y2.WF) (α β : ℝ)
    (v w : String) :
    (x1 - x0 ≠ 0 →
      dirJet α β v w (linearZeroInterp (α := ℝ) x0 x1 y1 x2 y2 x)
        = evalJ2 (zeroRateExpr (-1 / (x1 - x0)) (-1 / (x2 - x0))
            ((x - x0 - (x1 - x0)) / (x2 - x0 - (x1 - x0))) (-(x - x0)))
            (fun i => if i = 0 then dirJet α β v w y1 else dirJet α β v w y2)) ∧
    (x1 - x0 = 0 →
      dirJet α β v w (linearZeroInterp (α := ℝ) x0 x1 y1 x2 y2 x)
        = evalJ2 (zeroRateExpr0 (-1 / (x2 - x0)) (-(x - x0)))
            (fun i => if i = 0 then dirJet α β v w y1 else dirJet α β v w y2)) := by
  have L1 := log_spec y1 h1
  have L2 := log_spec y2 h2
  have R1 := mulF2_spec (Dual2.log y1) L1.wf (-1 / (x1 - x0))
  have R2 := mulF2_spec (Dual2.log y2) L2.wf (-1 / (x2 - x0))
  constructor
  · intro hne
    have hb : Transc.eqb (x1 - x0) (0 : ℝ) = false := by
      show decide (x1 - x0 = 0) = false; exact decide_eq_false hne
    set c := (x - x0 - (x1 - x0)) / (x2 - x0 - (x1 - x0)) with hc
    have S := Dual2.sub_spec false _ _ R2.wf R1.wf (by simp)
    have M := mulF2_spec _ S.wf c
    have A := Dual2.add_spec false _ _ R1.wf M.wf (by simp)
    have T := mulF2_spec _ A.wf (-(x - x0))
    have E := exp_spec _ T.wf
    have hform : linearZeroInterp (α := ℝ) x0 x1 y1 x2 y2 x
        = Dual2.exp (Dual2.mulF (Dual2.add false (Dual2.mulF (Dual2.log y1) (-1 / (x1 - x0)))
            (Dual2.mulF (Dual2.sub false (Dual2.mulF (Dual2.log y2) (-1 / (x2 - x0)))
              (Dual2.mulF (Dual2.log y1) (-1 / (x1 - x0)))) c)) (-(x - x0))) := by
      simp only [linearZeroInterp, hb, NumOps.add, NumOps.sub, NumOps.mulF, NumOps.log, NumOps.exp]
      rfl
    rw [hform, chain_dirJet E, chain_dirJet T]
    apply J2.ext'
    · simp only [zeroRateExpr, evalJ2, mulJ2, if_true, dirJet, T.real, A.real, M.real, S.real, R1.real,
        R2.real, L1.real, L2.real]
      simp
    · simp only [zeroRateExpr, evalJ2, mulJ2, if_true, dirJet, T.real, A.real, M.real, S.real, R1.real,
        R2.real, L1.real, L2.real, A.den, M.den, S.den, R1.den, R2.den, L1.den, L2.den]
      simp; ring
    · simp only [zeroRateExpr, evalJ2, mulJ2, if_true, dirJet, T.real, A.real, M.real, S.real, R1.real,
        R2.real, L1.real, L2.real, A.den, M.den, S.den, R1.den, R2.den, L1.den, L2.den, A.den2, M.den2,
        S.den2, R1.den2, R2.den2, L1.den2, L2.den2]
      simp; ring
  · intro heq
    have hb : Transc.eqb (x1 - x0) (0 : ℝ) = true := by
      show decide (x1 - x0 = 0) = true; exact decide_eq_true heq
    have T := mulF2_spec _ R2.wf (-(x - x0))
    have E := exp_spec _ T.wf
    have hform : linearZeroInterp (α := ℝ) x0 x1 y1 x2 y2 x
        = Dual2.exp (Dual2.mulF (Dual2.mulF (Dual2.log y2) (-1 / (x2 - x0))) (-(x - x0))) := by
      simp only [linearZeroInterp, hb, NumOps.mulF, NumOps.log, NumOps.exp]
      rfl
    rw [hform, chain_dirJet E, chain_dirJet T]
    apply J2.ext'
    · simp only [zeroRateExpr0, evalJ2, mulJ2, dirJet, T.real, R2.real, L2.real]
      simp
    · simp only [zeroRateExpr0, evalJ2, mulJ2, dirJet, T.real, R2.real, L2.real, R2.den, L2.den]
      simp; ring
    · simp only [zeroRateExpr0, evalJ2, mulJ2, dirJet, T.real, R2.real, L2.real, R2.den, L2.den, R2.den2,
        L2.den2]
      simp; ring


section Routes
variable {α : Type} [Add α] [Sub α] [Mul α] [Div α] [Neg α] [OfNat α 0] [OfNat α 1] [OfNat α 2] [Transc α]

/-- a float-noded curve built directly at order `k` is the curve built at order 0 and then switched to `k`
(the two construction routes of the library: the Python-facing constructor, and `CurveDF::try_new` followed by
`set_ad_order`) -/
theorem C12_construction_routes_agree (nodes : List (Int × Number α)) (interp : Interp) (ad : ADOrder) (id : String)
    (base : Option α) (hf : ∀ p ∈ nodes, ∃ x, p.2 = Number.f64 x) :
    Curve.new nodes interp ad id base = (Curve.new nodes interp .zero id base).setAdOrder ad := by
  -- the sorted values are floats
  have hs : ∃ xs : List α, (sortByKey nodes).map Prod.snd = xs.map Number.f64 := by
    have hall : ∀ p ∈ sortByKey nodes, ∃ x, p.2 = Number.f64 x :=
      fun p hp => hf p ((perm_sortByKey nodes).subset hp)
    generalize sortByKey nodes = l at hall
    induction l with
    | nil => exact ⟨[], rfl⟩
    | cons p ps ih =>
      obtain ⟨x, hx⟩ := hall p List.mem_cons_self
      obtain ⟨xs, hxs⟩ := ih (fun q hq => hall q (List.mem_cons_of_mem _ hq))
      exact ⟨x :: xs, by simp [hx, hxs]⟩
  obtain ⟨xs, hxs⟩ := hs
  have hlen : (sortByKey nodes).length = xs.length := by
    have := congrArg List.length hxs; simpa using this
  unfold Curve.new Curve.setAdOrder
  simp only [hxs, hlen]
  cases ad with
  | zero =>
    simp only
  | one =>
    simp only [List.length_map]
    congr 2
    rw [zip_range_map_f64 xs _ (fun p => Dual.new p.2 [(getVariableTags id xs.length).getD p.1 ""])
      (fun i x => rfl)]
    rw [zip_range_map_f64 xs (fun p => p.2.toF64) (fun p => p.2) (fun i x => rfl)]
    have e1 : ((List.range xs.length).zip xs).map (fun p => p.2) = xs := by
      rw [List.map_snd_zip]; simp
    have e2 : ((List.range xs.length).zip (xs.map Number.f64)).length = xs.length := by simp
    rw [e1, e2, hlen]
  | two =>
    simp only [List.length_map]
    congr 2
    rw [zip_range_map_f64 xs _ (fun p => Dual2.new p.2 [(getVariableTags id xs.length).getD p.1 ""])
      (fun i x => rfl)]
    rw [zip_range_map_f64 xs (fun p => p.2.toF64) (fun p => p.2) (fun i x => rfl)]
    have e1 : ((List.range xs.length).zip xs).map (fun p => p.2) = xs := by
      rw [List.map_snd_zip]; simp
    have e2 : ((List.range xs.length).zip (xs.map Number.f64)).length = xs.length := by simp
    rw [e1, e2, hlen]

end Routes

end Rateslib
