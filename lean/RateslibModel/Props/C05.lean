/-
C05  Business-day arithmetic counts exactly the business days it says it does.
`count c a b` is the number of business days in the half-open interval `(a, b]`.
-/
import RateslibModel.Proofs.BusRange
namespace Rateslib
open DR

variable (c : DR)

/-- Adding `n ≥ 0` business days to a business day (no settlement): the result is a business day on
or after the start with exactly `n` business days in `(start, result]`. -/
theorem C05_count_pos (fuel : Nat) (d n r : Int) (hn : 0 ≤ n)
    (h : c.addBusDays fuel d n false = .ok (some r)) :
    c.isBus r = true ∧ d ≤ r ∧ c.count d r = n.natAbs := by
  unfold addBusDays at h
  by_cases hb : c.isNonBus d = true
  · rw [if_pos hb] at h; cases h
  · rw [if_neg hb, if_neg (by omega)] at h
    have hd : c.isBus d = true := by simpa [isNonBus] using hb
    cases hs : c.stepFwd fuel n.natAbs d with
    | none => rw [hs] at h; simp at h
    | some nd =>
      rw [hs] at h
      simp only [Bool.not_false, if_true] at h
      injection h with h; injection h with h; subst h
      obtain ⟨a1, a2, a3⟩ := c.stepFwd_count fuel _ d nd hs
      exact ⟨a3 hd, a1, a2⟩

/-- Mirror image for `n < 0`: exactly `|n|` business days in `[result, start)`. -/
theorem C05_count_neg (fuel : Nat) (d n r : Int) (hn : n < 0)
    (h : c.addBusDays fuel d n false = .ok (some r)) :
    c.isBus r = true ∧ r ≤ d ∧ c.count (r - 1) (d - 1) = n.natAbs := by
  unfold addBusDays at h
  by_cases hb : c.isNonBus d = true
  · rw [if_pos hb] at h; cases h
  · rw [if_neg hb, if_pos hn] at h
    have hd : c.isBus d = true := by simpa [isNonBus] using hb
    cases hs : c.stepBwd fuel n.natAbs d with
    | none => rw [hs] at h; simp at h
    | some nd =>
      rw [hs] at h
      simp only [Bool.not_false, if_true] at h
      injection h with h; injection h with h; subst h
      obtain ⟨a1, a2, a3⟩ := c.stepBwd_count fuel _ d nd hs
      exact ⟨a3 hd, a1, a2⟩

/-- With settlement enforced the result is the no-settlement result moved onward, in the direction
of `n` (forward when `n = 0`), to the first eligible day (see `C04_following`/`C04_previous`). -/
theorem C05_settlement (fuel : Nat) (d n r : Int)
    (h : c.addBusDays fuel d n false = .ok (some r)) :
    c.addBusDays fuel d n true =
      .ok (if n < 0 then c.roll fuel r .p true else c.roll fuel r .f true) := by
  unfold addBusDays at h ⊢
  by_cases hb : c.isNonBus d = true
  · rw [if_pos hb] at h; cases h
  · rw [if_neg hb] at h ⊢
    by_cases hn : n < 0
    · rw [if_pos hn] at h ⊢
      cases hs : c.stepBwd fuel n.natAbs d with
      | none => rw [hs] at h; simp at h
      | some nd =>
        rw [hs] at h; simp only [Bool.not_false, if_true] at h
        injection h with h; injection h with h; subst h
        have : ¬ (0 ≤ n) := by omega
        simp [roll, this]
    · rw [if_neg hn] at h ⊢
      cases hs : c.stepFwd fuel n.natAbs d with
      | none => rw [hs] at h; simp at h
      | some nd =>
        rw [hs] at h; simp only [Bool.not_false, if_true] at h
        injection h with h; injection h with h; subst h
        simp [roll, hn]

/-- Without settlement, adding `-n` afterwards returns to the start. -/
theorem C05_inverse (fuel : Nat) (d n r : Int)
    (h : c.addBusDays fuel d n false = .ok (some r)) :
    c.addBusDays fuel r (-n) false = .ok (some d) := by
  have hr : c.isBus r = true := by
    by_cases hn : 0 ≤ n
    · exact (C05_count_pos c fuel d n r hn h).1
    · exact (C05_count_neg c fuel d n r (by omega) h).1
  unfold addBusDays at h ⊢
  by_cases hb : c.isNonBus d = true
  · rw [if_pos hb] at h; cases h
  · rw [if_neg hb] at h
    have hd : c.isBus d = true := by simpa [isNonBus] using hb
    have hnr : ¬ c.isNonBus r = true := by simp [isNonBus, hr]
    rw [if_neg hnr]
    by_cases hn : n < 0
    · rw [if_pos hn] at h
      cases hs : c.stepBwd fuel n.natAbs d with
      | none => rw [hs] at h; simp at h
      | some nd =>
        rw [hs] at h; simp only [Bool.not_false, if_true] at h
        injection h with h; injection h with h; subst h
        rw [if_neg (by omega)]
        have : (-n).natAbs = n.natAbs := by omega
        rw [this, c.stepFwd_of_stepBwd fuel _ d nd hd hs]; simp
    · rw [if_neg hn] at h
      cases hs : c.stepFwd fuel n.natAbs d with
      | none => rw [hs] at h; simp at h
      | some nd =>
        rw [hs] at h; simp only [Bool.not_false, if_true] at h
        injection h with h; injection h with h; subst h
        have hsb := c.stepBwd_of_stepFwd fuel _ d nd hd hs
        by_cases hz : n = 0
        · subst hz
          simp only [Int.natAbs_zero, stepFwd] at hs; cases hs
          simp [stepFwd]
        · rw [if_pos (by omega)]
          have : (-n).natAbs = n.natAbs := by omega
          rw [this, hsb]; simp

/-- A non-business start date is rejected with an error. -/
theorem C05_rejects (fuel : Nat) (d n : Int) (s : Bool) (h : c.isBus d = false) :
    c.addBusDays fuel d n s = .err := by
  unfold addBusDays; simp [isNonBus, h]

theorem addBusDays_ne_err (fuel : Nat) (d n : Int) (s : Bool) (h : c.isBus d = true) :
    c.addBusDays fuel d n s ≠ .err := by
  unfold addBusDays
  have : ¬ c.isNonBus d = true := by simp [isNonBus, h]
  rw [if_neg this]
  repeat' split
  all_goals simp

/-- The lag rule: business start = business-day addition; otherwise roll in the direction of `n`
and count one day less (a zero lag rolls forward). -/
theorem C05_lag (fuel : Nat) (d n : Int) (s : Bool) :
    (c.isBus d = true → c.lag fuel d n s = c.addBusDays fuel d n s) ∧
    (c.isBus d = false → n = 0 → c.lag fuel d n s = .ok (c.rollFwd fuel d)) ∧
    (c.isBus d = false → 0 < n → ∀ r, c.rollFwd fuel d = some r →
        c.lag fuel d n s = c.addBusDays fuel r (n - 1) s) ∧
    (c.isBus d = false → n < 0 → ∀ r, c.rollBwd fuel d = some r →
        c.lag fuel d n s = c.addBusDays fuel r (n + 1) s) := by
  refine ⟨fun hb => ?_, fun hb hn => ?_, fun hb hn r hr => ?_, fun hb hn r hr => ?_⟩
  · unfold lag; rw [if_pos hb]
    have := addBusDays_ne_err c fuel d n s hb
    cases hx : c.addBusDays fuel d n s <;> simp_all
  · unfold lag; simp [hb, hn]
  · have hr' := (c.rollFwd_some fuel d r hr).2.2.1
    have hne := addBusDays_ne_err c fuel r (n - 1) s hr'
    unfold lag; rw [if_neg (by simp [hb]), if_neg (by omega), if_neg (by omega), hr]
    cases hx : c.addBusDays fuel r (n - 1) s <;> simp_all
  · have hr' := (c.rollBwd_some fuel d r hr).2.2.1
    have hne := addBusDays_ne_err c fuel r (n + 1) s hr'
    unfold lag; rw [if_neg (by simp [hb]), if_neg (by omega), if_pos hn, hr]
    cases hx : c.addBusDays fuel r (n + 1) s <;> simp_all

/-- The business-date range is exactly the business days of the calendar-date range, in order. -/
theorem C05_range (fuel : Nat) (s e : Int) (l : List Int)
    (h : c.busDateRange fuel s e = .ok (some l)) :
    l = (calDateRange s e).filter c.isBus := by
  unfold busDateRange at h
  by_cases hb : (c.isNonBus s || c.isNonBus e) = true
  · rw [if_pos hb] at h; cases h
  · rw [if_neg hb] at h
    injection h with h
    have hs : c.isBus s = true := by
      simp only [Bool.or_eq_true, not_or, isNonBus] at hb
      simpa using hb.1
    rw [c.filter_calDateRange]
    simpa using c.busRangeLoop_spec fuel e _ s [] l hs h

/-- …and a range whose start or end is not a business day is rejected. -/
theorem C05_range_rejects (fuel : Nat) (s e : Int) (h : c.isBus s = false ∨ c.isBus e = false) :
    c.busDateRange fuel s e = .err := by
  unfold busDateRange
  rcases h with h | h <;> simp [isNonBus, h]

/-- Calendar-day addition is the shifted date followed by adjustment, for every day count. -/
theorem C05_add_days (fuel : Nat) (d n : Int) (m : Modifier) (s : Bool) :
    c.addDays fuel d n m s = .ok (c.roll fuel (d + n) m s) := by
  unfold addDays
  split
  · congr 2; omega
  · rfl

/-! Non-vacuity -/
def exCal5 : DR := (Cal.toDR ⟨fun w => w == 5 || w == 6, fun d => d == 19811 || d == 19814⟩)
example : exCal5.addBusDays 50 19810 3 false = .ok (some 19817) := by decide
example : exCal5.count 19810 19817 = 3 := by decide
example : exCal5.addBusDays 50 19817 (-3) false = .ok (some 19810) := by decide
example : exCal5.busDateRange 50 19810 19817 = .ok (some [19810, 19815, 19816, 19817]) := by decide

end Rateslib
