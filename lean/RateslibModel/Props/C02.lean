/- C02 (placeholder while the second-order theorems are written) -/
import RateslibModel.Model.Dual
