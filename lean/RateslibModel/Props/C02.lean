/-
C02  Second-order automatic differentiation is exact and consistent with first order.

Scope of what is PROVED here (see DESIGN.md, "C02 partial"): the second-order chain rules the Dual2
code applies — written as scalar 2-jets `J2 = (value, first derivative, HALF second derivative)`,
the projection of a Dual2 number on a direction — are sound for every formula of C01's grammar, and
agree with the first-order rules in value and first derivative; the read-back doubles the stored
half-Hessian; converting down drops only the Hessian.  The refinement from the list-level `Dual2`
arithmetic of Model/Dual.lean to these jets (alignment of Hessian blocks by variable name) is not yet
a theorem; it is covered by the correspondence run (Hessian by name pair, symmetric-Hessian oracle)
and by C03's exhaustive layout run.
-/
import RateslibModel.Analysis.Jets2Sound
import RateslibModel.Props.C17
namespace Rateslib
open Real Expr Filter Topology

/-- Second-order exactness of the rules: along any curve of leaf values that is twice differentiable
at `t₀` with 2-jets `j i`, the formula `t ↦ evalR e (u t)` has value, first derivative and half second
derivative given by the three components of `evalJ2 e j` — the Dual2 rules of mul.rs, pow.rs,
math_funcs.rs, signed.rs, neg.rs projected on the direction of the curve. -/
theorem C02_second_exact (e : Expr) (u : Nat → ℝ → ℝ) (t₀ : ℝ) (j : Nat → J2)
    (hu : ∀ i, Jet2At (u i) t₀ (j i).v0 (j i).v1 (j i).v2) (hd : Dom2 e (fun i => u i t₀)) :
    Jet2At (fun t => evalR e (fun i => u i t)) t₀ (evalJ2 e j).v0 (evalJ2 e j).v1 (evalJ2 e j).v2 :=
  jet2_sound e u t₀ j hu hd

theorem dom_of_dom2 (e : Expr) (v : Nat → ℝ) (h : Dom2 e v) : Dom e v := by
  induction e with
  | leaf i => trivial
  | const c => trivial
  | add a b iha ihb => exact ⟨iha h.1, ihb h.2⟩
  | sub a b iha ihb => exact ⟨iha h.1, ihb h.2⟩
  | mul a b iha ihb => exact ⟨iha h.1, ihb h.2⟩
  | div a b iha ihb => exact ⟨iha h.1, ihb h.2.1, h.2.2⟩
  | neg a iha => exact iha h
  | powc a p iha => exact ⟨iha h.1, Or.inl h.2⟩
  | exp a iha => exact iha h
  | log a iha => exact ⟨iha h.1, h.2⟩
  | ncdf a iha => exact iha h
  | nicdf a iha => exact ⟨iha h.1, h.2⟩
  | abs a iha => exact ⟨iha h.1, h.2⟩

theorem jet2_quadratic (a0 a1 a2 : ℝ) :
    Jet2At (fun t => a0 + a1 * t + a2 * (t * t)) 0 a0 a1 a2 := by
  have hid : Jet2At (fun t : ℝ => t) 0 0 1 0 :=
    ⟨rfl, fun _ => 1, Eventually.of_forall fun t => hasDerivAt_id t, rfl,
      by simpa using hasDerivAt_const (0 : ℝ) (1 : ℝ)⟩
  have h1 := (Jet2At.const a1 0).mul hid
  have h2 := (Jet2At.const a2 0).mul (hid.mul hid)
  exact (((Jet2At.const a0 0).add h1).add h2).of_eq (by ring) (by ring) (by ring)

/-- The same value and gradient as the first-order type: the value and first-derivative components
of the second-order rules coincide with the first-order rules of C01, wherever the formula is twice
differentiable. -/
theorem C02_proj (e : Expr) (j : Nat → J2) (hd : Dom2 e (fun i => (j i).v0)) :
    (evalJ2 e j).v0 = (evalJ e (fun i => ((j i).v0, (j i).v1))).1 ∧
    (evalJ2 e j).v1 = (evalJ e (fun i => ((j i).v0, (j i).v1))).2 := by
  let u : Nat → ℝ → ℝ := fun i t => (j i).v0 + (j i).v1 * t + (j i).v2 * (t * t)
  have hu2 : ∀ i, Jet2At (u i) 0 (j i).v0 (j i).v1 (j i).v2 := fun i => jet2_quadratic _ _ _
  have hu0 : ∀ i, u i 0 = (j i).v0 := fun i => by simp [u]
  have hd2 : Dom2 e (fun i => u i 0) := by simpa only [hu0] using hd
  have S2 := jet2_sound e u 0 j hu2 hd2
  have S1 := jet_sound e u (fun i => (j i).v1) 0 (fun i => (hu2 i).hasDerivAt) (dom_of_dom2 e _ hd2)
  simp only [hu0] at S1
  refine ⟨?_, ?_⟩
  · rw [S1.1, ← S2.val]; simp only [hu0]
  · exact S2.hasDerivAt.unique S1.2

/-- Converting the second-order result down to first order loses nothing but the Hessian. -/
theorem C02_from_drops_only_hessian {α : Type} (d : Dual2 α) :
    (Dual.ofDual2 d).real = d.real ∧ (Dual.ofDual2 d).vars = d.vars ∧ (Dual.ofDual2 d).dual = d.dual :=
  ⟨rfl, rfl, rfl⟩

/-- The Hessian read back per variable pair is twice the stored half-Hessian, in the order asked for
(so with `C02_second_exact`: the read-back quadratic form `hᵀ H h` is the true second directional
derivative). -/
theorem C02_readback {α : Type} [CommRing α] (d : Dual2 α) (vs : List String) (hd : d.WF) (hv : vs.Nodup) :
    d.gradient2 vs = vs.map (fun v => vs.map (fun w => 2 * Dual2.den2 d v w)) :=
  C17_gradient2 d vs hd hv

/-- The product rule's cross term is symmetrised: as a quadratic form `½(αβᵀ + βαᵀ)` contributes
`a1·b1`, and the jet product is commutative (the Hessian of a product does not depend on operand
order). -/
theorem C02_mul_comm (a b : J2) : mulJ2 a b = mulJ2 b a := by
  simp only [mulJ2, J2.mk.injEq]
  refine ⟨by ring, by ring, by ring⟩

/-! Non-vacuity -/
example : Dom2 (.div (.log (.mul (.leaf 0) (.leaf 1))) (.leaf 2)) (fun i => (i : ℝ) + 2) := by
  simp only [Dom2, evalR, true_and]
  norm_num

end Rateslib
