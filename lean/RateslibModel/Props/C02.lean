/-
C02  Second-order automatic differentiation is exact and consistent with first order.

Chain of the proof: (1) the second-order chain rules the Dual2 code applies — written as scalar 2-jets
`J2 = (value, first derivative, HALF second derivative)` along a direction — are sound for every formula
of C01's grammar (`C02_second_exact`) and agree with the first-order rules (`C02_proj`); (2) the
LIST-LEVEL `Dual2` arithmetic of Model/Dual.lean (alignment of gradient and Hessian blocks by variable
name, whatever the layouts of the operands) refines these jets along every direction in the plane of
two variable names (`C02_refines`, by induction over the formula with the name-indexed specifications
of Proofs/Dual2Layout.lean and Analysis/Refine2.lean); hence (3) value, gradient and Hessian entries —
diagonal AND mixed — of the list-level result are the true derivatives (`C02_hessian_exact`,
`C02_hessian_entries`), and the Hessian is symmetric (`C02_symmetric`); the read-back doubles the stored
half-Hessian (`C02_readback`); converting down drops only the Hessian.
-/
import RateslibModel.Analysis.Refine2
import RateslibModel.Props.C17
import RateslibModel.Proofs.Mixed2
namespace Rateslib
open Real Expr Filter Topology

/-- Second-order exactness of the rules: along any curve of leaf values that is twice differentiable
at `t₀` with 2-jets `j i`, the formula `t ↦ evalR e (u t)` has value, first derivative and half second
derivative given by the three components of `evalJ2 e j` — the Dual2 rules of mul.rs, pow.rs,
math_funcs.rs, signed.rs, neg.rs projected on the direction of the curve. -/
theorem C02_second_exact (e : Expr) (u : Nat → ℝ → ℝ) (t₀ : ℝ) (j : Nat → J2)
    (hu : ∀ i, Jet2At (u i) t₀ (j i).v0 (j i).v1 (j i).v2) (hd : Dom2 e (fun i => u i t₀)) :
    Jet2At (fun t => evalR e (fun i => u i t)) t₀ (evalJ2 e j).v0 (evalJ2 e j).v1 (evalJ2 e j).v2 :=
  jet2_sound e u t₀ j hu hd

theorem dom_of_dom2 (e : Expr) (v : Nat → ℝ) (h : Dom2 e v) : Dom e v := by
  induction e with
  | leaf i => trivial
  | const c => trivial
  | add a b iha ihb => exact ⟨iha h.1, ihb h.2⟩
  | sub a b iha ihb => exact ⟨iha h.1, ihb h.2⟩
  | mul a b iha ihb => exact ⟨iha h.1, ihb h.2⟩
  | div a b iha ihb => exact ⟨iha h.1, ihb h.2.1, h.2.2⟩
  | neg a iha => exact iha h
  | powc a p iha =>
    refine ⟨iha h.1, ?_⟩
    rcases h.2 with h0 | h2 | h1 | h0
    · exact Or.inl h0
    · exact Or.inr (Or.inl (by linarith))
    · exact Or.inr (Or.inl (by rw [h1]))
    · exact Or.inr (Or.inr h0)
  | exp a iha => exact iha h
  | log a iha => exact ⟨iha h.1, h.2⟩
  | ncdf a iha => exact iha h
  | nicdf a iha => exact ⟨iha h.1, h.2⟩
  | abs a iha => exact ⟨iha h.1, h.2⟩

theorem jet2_quadratic (a0 a1 a2 : ℝ) :
    Jet2At (fun t => a0 + a1 * t + a2 * (t * t)) 0 a0 a1 a2 := by
  have hid : Jet2At (fun t : ℝ => t) 0 0 1 0 :=
    ⟨rfl, fun _ => 1, Eventually.of_forall fun t => hasDerivAt_id t, rfl,
      by simpa using hasDerivAt_const (0 : ℝ) (1 : ℝ)⟩
  have h1 := (Jet2At.const a1 0).mul hid
  have h2 := (Jet2At.const a2 0).mul (hid.mul hid)
  exact (((Jet2At.const a0 0).add h1).add h2).of_eq (by ring) (by ring) (by ring)

/-- The same value and gradient as the first-order type: the value and first-derivative components
of the second-order rules coincide with the first-order rules of C01, wherever the formula is twice
differentiable. -/
theorem C02_proj (e : Expr) (j : Nat → J2) (hd : Dom2 e (fun i => (j i).v0)) :
    (evalJ2 e j).v0 = (evalJ e (fun i => ((j i).v0, (j i).v1))).1 ∧
    (evalJ2 e j).v1 = (evalJ e (fun i => ((j i).v0, (j i).v1))).2 := by
  let u : Nat → ℝ → ℝ := fun i t => (j i).v0 + (j i).v1 * t + (j i).v2 * (t * t)
  have hu2 : ∀ i, Jet2At (u i) 0 (j i).v0 (j i).v1 (j i).v2 := fun i => jet2_quadratic _ _ _
  have hu0 : ∀ i, u i 0 = (j i).v0 := fun i => by simp [u]
  have hd2 : Dom2 e (fun i => u i 0) := by simpa only [hu0] using hd
  have S2 := jet2_sound e u 0 j hu2 hd2
  have S1 := jet_sound e u (fun i => (j i).v1) 0 (fun i => (hu2 i).hasDerivAt) (dom_of_dom2 e _ hd2)
  simp only [hu0] at S1
  refine ⟨?_, ?_⟩
  · rw [S1.1, ← S2.val]; simp only [hu0]
  · exact S2.hasDerivAt.unique S1.2

/-- Converting the second-order result down to first order loses nothing but the Hessian. -/
theorem C02_from_drops_only_hessian {α : Type} (d : Dual2 α) :
    (Dual.ofDual2 d).real = d.real ∧ (Dual.ofDual2 d).vars = d.vars ∧ (Dual.ofDual2 d).dual = d.dual :=
  ⟨rfl, rfl, rfl⟩

/-- The Hessian read back per variable pair is twice the stored half-Hessian, in the order asked for
(so with `C02_second_exact`: the read-back quadratic form `hᵀ H h` is the true second directional
derivative). -/
theorem C02_readback {α : Type} [CommRing α] (d : Dual2 α) (vs : List String) (hd : d.WF) (hv : vs.Nodup) :
    d.gradient2 vs = vs.map (fun v => vs.map (fun w => 2 * Dual2.den2 d v w)) :=
  C17_gradient2 d vs hd hv

/-- The product rule's cross term is symmetrised: as a quadratic form `½(αβᵀ + βαᵀ)` contributes
`a1·b1`, and the jet product is commutative (the Hessian of a product does not depend on operand
order). -/
theorem C02_mul_comm (a b : J2) : mulJ2 a b = mulJ2 b a := by
  simp only [mulJ2, J2.mk.injEq]
  refine ⟨by ring, by ring, by ring⟩

/-- REFINEMENT: for every formula, every shape-valid leaves (any layouts) and every direction
`α·e_v + β·e_w`, the list-level second-order evaluation is shape-valid and its (value, directional
derivative, half directional second derivative) is the scalar 2-jet of the formula at the leaves' jets. -/
theorem C02_refines (e : Expr) (env : Nat → Dual2 ℝ) (hwf : ∀ i, (env i).WF) (α β : ℝ) (v w : String) :
    (evalD2 e env).WF ∧
      dirJet α β v w (evalD2 e env) = evalJ2 e (fun i => dirJet α β v w (env i)) :=
  evalD2_refines e env hwf α β v w

/-- Hence the list-level result carries the TRUE derivatives: let the leaf values move along any
curves `u i` whose 2-jets at `t₀` are the leaves' jets in the direction `α·e_v + β·e_w`; then
`t ↦ e(u t)` has at `t₀` the value `real`, the first derivative `α·∂_v + β·∂_w` and the half second
derivative `α²·H_vv + αβ·(H_vw + H_wv) + β²·H_ww` read off the evaluated `Dual2` number by NAME. -/
theorem C02_hessian_exact (e : Expr) (env : Nat → Dual2 ℝ) (hwf : ∀ i, (env i).WF) (α β : ℝ)
    (v w : String) (u : Nat → ℝ → ℝ) (t₀ : ℝ)
    (hu : ∀ i, Jet2At (u i) t₀ (dirJet α β v w (env i)).v0 (dirJet α β v w (env i)).v1
      (dirJet α β v w (env i)).v2)
    (hd : Dom2 e (fun i => u i t₀)) :
    Jet2At (fun t => evalR e (fun i => u i t)) t₀ (evalD2 e env).real
      (α * Dual2.den (evalD2 e env) v + β * Dual2.den (evalD2 e env) w)
      (α * α * Dual2.den2 (evalD2 e env) v v
        + α * β * (Dual2.den2 (evalD2 e env) v w + Dual2.den2 (evalD2 e env) w v)
        + β * β * Dual2.den2 (evalD2 e env) w w) := by
  have h := jet2_sound e u t₀ (fun i => dirJet α β v w (env i)) hu hd
  rw [← (C02_refines e env hwf α β v w).2] at h
  exact h

/-- The Hessian is symmetric by name whenever the leaves' are. -/
theorem C02_symmetric (e : Expr) (env : Nat → Dual2 ℝ) (hwf : ∀ i, (env i).WF)
    (hs : ∀ i, ∀ n w, Dual2.den2 (env i) n w = Dual2.den2 (env i) w n) (n w : String) :
    Dual2.den2 (evalD2 e env) n w = Dual2.den2 (evalD2 e env) w n :=
  evalD2_sym e env hwf hs n w

/-- Entries: the diagonal entry `H_vv` is the half second derivative along `e_v`; the mixed entry is
obtained by polarisation — the half second derivative along `e_v + e_w` minus those along `e_v` and
`e_w` is `H_vw + H_wv = 2·H_vw`. (Pure algebra on `dirJet`; with `C02_hessian_exact` and
`C02_symmetric` this identifies every stored entry with half the true second partial derivative.) -/
theorem C02_hessian_entries (d : Dual2 ℝ) (v w : String) :
    (dirJet 1 0 v w d).v2 = Dual2.den2 d v v ∧
    (dirJet 1 1 v w d).v2 - (dirJet 1 0 v w d).v2 - (dirJet 0 1 v w d).v2
      = Dual2.den2 d v w + Dual2.den2 d w v := by
  constructor <;> simp only [dirJet] <;> ring

/-! Non-vacuity -/
example : Dom2 (.div (.log (.mul (.leaf 0) (.leaf 1))) (.leaf 2)) (fun i => (i : ℝ) + 2) := by
  simp only [Dom2, evalR, true_and]
  norm_num

/-- MIXED OPERANDS AT SECOND ORDER: a float on either side of + − × ÷ gives the same number — value, every first
and every second derivative, i.e. the same 2-jet along every direction `α·e_v + β·e_w` — as promoting the float
to a variable-free constant (`x + f`, `x − f`, `f − x`, `x · f`, `x / f`, `f / x`; `f + x` and `f · x` are the
commutative expansions of the first and fourth). -/
theorem C02_mixed_eq_promoted (f : ℝ) (d : Dual2 ℝ) (hd : d.WF) (α β : ℝ) (v w : String) :
    dirJet α β v w (Dual2.addF d f) = dirJet α β v w (Dual2.add false d (Dual2.new f [])) ∧
    dirJet α β v w (Dual2.subF d f) = dirJet α β v w (Dual2.sub false d (Dual2.new f [])) ∧
    dirJet α β v w (Dual2.fSub f d) = dirJet α β v w (Dual2.sub false (Dual2.new f []) d) ∧
    dirJet α β v w (Dual2.mulF d f) = dirJet α β v w (Dual2.mul false d (Dual2.new f [])) ∧
    dirJet α β v w (Dual2.divF d f) = dirJet α β v w (Dual2.div false d (Dual2.new f [])) ∧
    dirJet α β v w (Dual2.fDiv f d) = dirJet α β v w (Dual2.div false (Dual2.new f []) d) :=
  mixed2_eq_promoted f d hd α β v w

/-- a power with base exactly 0 is inside the domain of the theorems wherever `x^p` is twice differentiable
there — `p ≥ 2` and the polynomials `x¹`, `x⁰` (the repaired code, known_findings.json, returns 0 · ∞ no more) -/
example : Dom2 (.powc (.leaf 0) 1) (fun _ => (0 : ℝ)) ∧ Dom2 (.powc (.leaf 0) 0) (fun _ => (0 : ℝ)) ∧
    Dom2 (.powc (.leaf 0) 3) (fun _ => (0 : ℝ)) := by
  refine ⟨?_, ?_, ?_⟩ <;> simp only [Dom2, evalR, true_and] <;> norm_num

end Rateslib
