/-
C18  Changing derivative order or mixing number kinds never alters values.
Stated for every scalar type (no algebraic law is used), hence for f64 itself.
-/
import RateslibModel.Proofs.DualOps
namespace Rateslib

variable {α : Type} [Add α] [Sub α] [Mul α] [Div α] [Neg α] [OfNat α 0] [OfNat α 1] [OfNat α 2]
  [Transc α]

/-- The 3×3 order-conversion table: raising a float attaches exactly the requested names (each once)
with unit sensitivity (and a zero Hessian at order 2); raising first to second order adds a zero
Hessian; lowering drops only the higher-order terms; lowering to a float returns the value;
same-order requests return the number unchanged. -/
theorem C18_set_order (f : α) (d : Dual α) (e : Dual2 α) (vars : List String) :
    setOrder (.f64 f) .zero vars = .f64 f ∧
    setOrder (.dual d) .zero vars = .f64 d.real ∧
    setOrder (.dual2 e) .zero vars = .f64 e.real ∧
    setOrder (.f64 f) .one vars = .dual ⟨f, dedup vars, List.replicate (dedup vars).length 1⟩ ∧
    setOrder (.dual d) .one vars = .dual d ∧
    setOrder (.dual2 e) .one vars = .dual ⟨e.real, e.vars, e.dual⟩ ∧
    setOrder (.f64 f) .two vars =
      .dual2 ⟨f, dedup vars, List.replicate (dedup vars).length 1,
              List.replicate (dedup vars).length (List.replicate (dedup vars).length 0)⟩ ∧
    setOrder (.dual d) .two vars =
      .dual2 ⟨d.real, d.vars, d.dual, List.replicate d.dual.length (List.replicate d.dual.length 0)⟩ ∧
    setOrder (.dual2 e) .two vars = .dual2 e :=
  ⟨rfl, rfl, rfl, rfl, rfl, rfl, rfl, rfl, rfl⟩

/-- Every order change preserves the value. -/
theorem C18_values_preserved (v : Number α) (o : ADOrder) (vars : List String) :
    (setOrder v o vars).toF64 = v.toF64 := by
  cases v <;> cases o <;> rfl

/-- The requested names are attached exactly (as a duplicate-free list containing the same names). -/
theorem C18_names_attached (f : α) (vars : List String) :
    (∀ n, n ∈ (Dual.new f vars).vars ↔ n ∈ vars) ∧ (Dual.new f vars).vars.Nodup ∧
    (Dual.new f vars).dual.length = (Dual.new f vars).vars.length ∧
    ∀ x ∈ (Dual.new f vars).dual, x = 1 := by
  refine ⟨fun n => mem_dedup vars n, nodup_dedup vars, by simp [Dual.new, onesV], ?_⟩
  intro x hx
  simp only [Dual.new, onesV] at hx
  exact List.eq_of_mem_replicate hx

/-- `From` conversions between the kinds: to a float = the value; Dual2 → Dual drops only the
Hessian; Dual → Dual2 adds a zero Hessian; a float becomes a variable-free number. -/
theorem C18_from (f : α) (d : Dual α) (e : Dual2 α) :
    (Number.f64 f).toF64 = f ∧ (Number.dual d).toF64 = d.real ∧ (Number.dual2 e).toF64 = e.real ∧
    (Number.dual2 e).toDual = ⟨e.real, e.vars, e.dual⟩ ∧
    (Number.dual d).toDual2 = ⟨d.real, d.vars, d.dual, zerosM d.dual.length d.dual.length⟩ ∧
    (Number.f64 f).toDual = ⟨f, [], []⟩ ∧ (Number.f64 f).toDual2 = ⟨f, [], [], []⟩ ∧
    (Number.dual d).toDual = d ∧ (Number.dual2 e).toDual2 = e :=
  ⟨rfl, rfl, rfl, rfl, rfl, rfl, rfl, rfl, rfl⟩

/-- Arithmetic on the container is refused exactly for the two mixed-order pairings… -/
theorem C18_number_ops_refusal (op : BinOp) (p : Bool) (a b : Number α) :
    numberOp op p a b = none ↔
      ((∃ d e, a = .dual d ∧ b = .dual2 e) ∨ (∃ d e, a = .dual2 d ∧ b = .dual e)) := by
  cases a <;> cases b <;> simp [numberOp]

/-- …and otherwise equals the same arithmetic on the contained types (including the float on
either side forms). -/
theorem C18_number_ops (op : BinOp) (p : Bool) (f g : α) (d d' : Dual α) (e e' : Dual2 α) :
    numberOp op p (.f64 f) (.f64 g) = some (.f64 (scalarOp op f g)) ∧
    numberOp op p (.f64 f) (.dual d) = some (.dual (fOpDual op f d)) ∧
    numberOp op p (.f64 f) (.dual2 e) = some (.dual2 (fOpDual2 op f e)) ∧
    numberOp op p (.dual d) (.f64 g) = some (.dual (dualOpF op d g)) ∧
    numberOp op p (.dual d) (.dual d') = some (.dual (dualOp op p d d')) ∧
    numberOp op p (.dual2 e) (.f64 g) = some (.dual2 (dual2OpF op e g)) ∧
    numberOp op p (.dual2 e) (.dual2 e') = some (.dual2 (dual2Op op p e e')) ∧
    numberOpF op (.dual d) g = .dual (dualOpF op d g) ∧
    fOpNumber op f (.dual d) = .dual (fOpDual op f d) ∧
    numberOpF op (.dual2 e) g = .dual2 (dual2OpF op e g) ∧
    fOpNumber op f (.dual2 e) = .dual2 (fOpDual2 op f e) :=
  ⟨rfl, rfl, rfl, rfl, rfl, rfl, rfl, rfl, rfl, rfl, rfl⟩

/-- Comparisons through the container are refused for the same two pairings. -/
theorem C18_number_cmp_refusal (p : Bool) (a b : Number α) :
    (numberEq p a b = none ↔
      ((∃ d e, a = .dual d ∧ b = .dual2 e) ∨ (∃ d e, a = .dual2 d ∧ b = .dual e))) ∧
    (numberLt a b = none ↔
      ((∃ d e, a = .dual d ∧ b = .dual2 e) ∨ (∃ d e, a = .dual2 d ∧ b = .dual e))) := by
  cases a <;> cases b <;> simp [numberEq, numberLt]

/-- Mixing a float with a dual number never alters the value part: it is the float operation on the
values (for + − × ÷ in either position). -/
theorem C18_mixed_values (f : α) (d : Dual α) :
    (Dual.addF d f).real = d.real + f ∧ (Dual.subF d f).real = d.real - f ∧
    (Dual.fSub f d).real = f - d.real ∧ (Dual.mulF d f).real = d.real * f ∧
    (Dual.divF d f).real = d.real / f ∧
    (Dual.fDiv f d).real = f / d.real :=
  ⟨rfl, rfl, rfl, rfl, rfl, rfl⟩

end Rateslib
