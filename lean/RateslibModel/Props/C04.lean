/-
C04  Date adjustment lands on the nearest eligible business day in its direction.
`roll fuel d m s = some r` means the implementation's loops terminate with `r`; `none` is
"fuel exhausted".  `C04_fuel_*` show a result exists whenever an eligible day lies within `fuel`
days in the search direction — i.e. for every calendar with a finite holiday list and a working
weekday common to all consulted calendars (take `fuel` beyond the last holiday + 7).
-/
import RateslibModel.Proofs.Roll
namespace Rateslib
open DR

variable (c : DR)

/-- 'following': the first date on or after `d` that is eligible. -/
theorem C04_following (fuel : Nat) (d r : Int) (s : Bool) (h : c.roll fuel d .f s = some r) :
    d ≤ r ∧ c.Elig s r ∧ ∀ x, d ≤ x → x < r → ¬ c.Elig s x := by
  cases s with
  | true =>
    simp only [roll, if_true] at h
    exact c.rollFwdSettled_some fuel d r h
  | false =>
    simp only [roll] at h
    obtain ⟨a1, _, a3, a4⟩ := c.rollFwd_some fuel d r h
    exact ⟨a1, ⟨a3, fun h => by cases h⟩, fun x h1 h2 hE => by have := a4 x h1 h2; rw [hE.1] at this; cases this⟩

/-- 'previous': the mirror image. -/
theorem C04_previous (fuel : Nat) (d r : Int) (s : Bool) (h : c.roll fuel d .p s = some r) :
    r ≤ d ∧ c.Elig s r ∧ ∀ x, r < x → x ≤ d → ¬ c.Elig s x := by
  cases s with
  | true =>
    simp only [roll, if_true] at h
    exact c.rollBwdSettled_some fuel d r h
  | false =>
    simp only [roll] at h
    obtain ⟨a1, _, a3, a4⟩ := c.rollBwd_some fuel d r h
    exact ⟨a1, ⟨a3, fun h => by cases h⟩, fun x h1 h2 hE => by have := a4 x h1 h2; rw [hE.1] at this; cases this⟩

/-- 'modified following': the following date unless it lies in a different calendar month, in which
case the previous date. -/
theorem C04_modified_following (fuel : Nat) (d : Int) (s : Bool) :
    c.roll fuel d .modF s =
      match c.roll fuel d .f s with
      | none => none
      | some n => if monthOf n = monthOf d then some n else c.roll fuel d .p s := by
  cases s
  · simp only [roll, rollModFwd]; cases c.rollFwd fuel d <;> simp
  · simp only [roll, rollFwdModSettled, if_true]; cases c.rollFwdSettled fuel d <;> simp

/-- 'modified previous': mirror image. -/
theorem C04_modified_previous (fuel : Nat) (d : Int) (s : Bool) :
    c.roll fuel d .modP s =
      match c.roll fuel d .p s with
      | none => none
      | some n => if monthOf n = monthOf d then some n else c.roll fuel d .f s := by
  cases s
  · simp only [roll, rollModBwd]; cases c.rollBwd fuel d <;> simp
  · simp only [roll, rollBwdModSettled, if_true]; cases c.rollBwdSettled fuel d <;> simp

/-- 'actual' returns the date unchanged (and ignores the settlement flag). -/
theorem C04_act (fuel : Nat) (d : Int) (s : Bool) : c.roll fuel d .act s = some d := by
  cases s <;> rfl

/-- A date that is already eligible is never moved, whatever the rule. -/
theorem C04_fixed_point (fuel : Nat) (d : Int) (m : Modifier) (s : Bool) (h : c.Elig s d) :
    c.roll (fuel + 1) d m s = some d := by
  have hF : c.roll (fuel + 1) d .f s = some d := by
    cases s with
    | true => simp only [roll, if_true]; exact c.rollFwdSettled_fix fuel d h
    | false => simp only [roll]; exact c.rollFwd_fix fuel d h.1
  have hP : c.roll (fuel + 1) d .p s = some d := by
    cases s with
    | true => simp only [roll, if_true]; exact c.rollBwdSettled_fix fuel d h
    | false => simp only [roll]; exact c.rollBwd_fix fuel d h.1
  cases m with
  | act => exact C04_act c _ d s
  | f => exact hF
  | p => exact hP
  | modF => rw [C04_modified_following, hF]; simp
  | modP => rw [C04_modified_previous, hP]; simp

/-- Every result of a non-'actual' rule is eligible. -/
theorem C04_result_eligible (fuel : Nat) (d r : Int) (m : Modifier) (s : Bool) (hm : m ≠ .act)
    (h : c.roll fuel d m s = some r) : c.Elig s r := by
  cases m with
  | act => exact absurd rfl hm
  | f => exact (C04_following c fuel d r s h).2.1
  | p => exact (C04_previous c fuel d r s h).2.1
  | modF =>
    rw [C04_modified_following] at h
    cases hF : c.roll fuel d .f s with
    | none => rw [hF] at h; cases h
    | some n =>
      rw [hF] at h; simp only at h
      split at h
      · cases h; exact (C04_following c fuel d _ s hF).2.1
      · exact (C04_previous c fuel d r s h).2.1
  | modP =>
    rw [C04_modified_previous] at h
    cases hP : c.roll fuel d .p s with
    | none => rw [hP] at h; cases h
    | some n =>
      rw [hP] at h; simp only at h
      split at h
      · cases h; exact (C04_previous c fuel d _ s hP).2.1
      · exact (C04_following c fuel d r s h).2.1

/-- Adjusting twice equals adjusting once. -/
theorem C04_idempotent (fuel : Nat) (d r : Int) (m : Modifier) (s : Bool)
    (h : c.roll (fuel + 1) d m s = some r) : c.roll (fuel + 1) r m s = some r := by
  by_cases hm : m = .act
  · subst hm; exact C04_act c _ r s
  · exact C04_fixed_point c fuel r m s (C04_result_eligible c _ d r m s hm h)

/-- Termination of the forward search: if some eligible day lies within `fuel` days on or after `d`,
the search returns a value (so, by `C04_following`, the first such day). -/
theorem C04_fuel_following (fuel : Nat) (d e : Int) (s : Bool) (h1 : d ≤ e) (h2 : e < d + fuel)
    (he : c.Elig true e) : ∃ r, c.roll fuel d .f s = some r := by
  cases s with
  | true => simp only [roll, if_true]; exact c.rollFwdSettled_exists fuel d e h1 h2 he
  | false => simp only [roll]; exact c.rollFwd_exists fuel d e h1 h2 he.1

theorem C04_fuel_previous (fuel : Nat) (d e : Int) (s : Bool) (h1 : e ≤ d) (h2 : d - fuel < e)
    (he : c.Elig true e) : ∃ r, c.roll fuel d .p s = some r := by
  cases s with
  | true => simp only [roll, if_true]; exact c.rollBwdSettled_exists fuel d e h1 h2 he
  | false => simp only [roll]; exact c.rollBwd_exists fuel d e h1 h2 he.1

/-- With eligible days within reach on both sides every rule terminates with a value. -/
theorem C04_total (fuel : Nat) (d e1 e2 : Int) (m : Modifier) (s : Bool)
    (h1 : d ≤ e1) (h2 : e1 < d + fuel) (he1 : c.Elig true e1)
    (h3 : e2 ≤ d) (h4 : d - fuel < e2) (he2 : c.Elig true e2) :
    ∃ r, c.roll fuel d m s = some r := by
  obtain ⟨rf, hf⟩ := C04_fuel_following c fuel d e1 s h1 h2 he1
  obtain ⟨rp, hp⟩ := C04_fuel_previous c fuel d e2 s h3 h4 he2
  cases m with
  | act => exact ⟨d, C04_act c fuel d s⟩
  | f => exact ⟨rf, hf⟩
  | p => exact ⟨rp, hp⟩
  | modF => rw [C04_modified_following, hf]; simp only; split <;> simp_all
  | modP => rw [C04_modified_previous, hp]; simp only; split <;> simp_all

/-! Non-vacuity: a western week with a Friday+Monday holiday cluster at a month end
(2024-03-29 = day 19811 is a Friday; Monday 2024-04-01 = 19814 is a holiday). -/
def exCal : DR := (Cal.toDR ⟨fun w => w == 5 || w == 6, fun d => d == 19811 || d == 19814⟩)
example : exCal.roll 50 19812 .f false = some 19815 := by decide
example : exCal.roll 50 19812 .modF false = some 19810 := by decide
example : exCal.Elig true 19815 := by decide
example : exCal.roll 50 19812 .modP true = some 19810 := by decide

end Rateslib
