/-
C09  An FX market built from n−1 quotes is complete and arbitrage-free.

`fill` is the model of the recursive triangulation `mut_arrays_remaining_elements`; `initArr` seeds
the matrix with the quotes and their reciprocals.  Theorems about VALUES are over an arbitrary field
`K` with the arithmetic of the f64 code path (`fieldFxOps`: `*`, `1/x`, `1`), which at `K = ℝ` is
definitionally the instance the model uses (last example).  A quote set is described by a
*potential* `u`: every quote `(a, b, x)` has `x = u a / u b` — exactly what a tree of quotes admits.

COMPLETENESS / REJECTION (`C09_complete`, `C09_disconnected_rejected`): the triangulation returns a
result exactly when the quoted pairs CONNECT all n currencies — for n − 1 quotes that is exactly "the
quotes form a tree"; a right-count quote set with a cycle leaves some currency unconnected and is
rejected.

NO HYPOTHESIS ON POTENTIALS (`C09_tree_arbitrage_free`; Proofs/TreePotential.lean, Proofs/FXTree.lean): `n − 1`
edges that connect `n` vertices form a tree, and on a tree every assignment of group elements to the edges is
a coboundary (union–find over the edge list: classes = n − merging edges; connectedness leaves one class, so
every edge merged and fits the potential).  Hence, whenever the triangulation returns a result for `n − 1`
non-zero quotes over `n` currencies, a non-vanishing potential `u` with `quote = u a / u b` EXISTS, and every
one of the `n × n` rates is populated and equal to `u i / u j`.
-/
import RateslibModel.Proofs.FXComplete
import RateslibModel.Proofs.FXTree
import Mathlib.Tactic.IntervalCases
import Mathlib.Tactic.Tauto
namespace Rateslib

section Field
variable {K : Type} [Field K]

/-- Arbitrage-free: whenever the triangulation returns a result, EVERY cross rate is the ratio of the
two currencies' potentials — and all `n × n` rates are populated. -/
theorem C09_arbitrage_free (u : Nat → K) (hu : ∀ i, u i ≠ 0) (n : Nat) (pairs : List (Nat × Nat × K))
    (hp : ∀ p ∈ pairs, p.2.2 = u p.1 / u p.2.1) (fuel : Nat) (a' : FxArr K)
    (h : fill n fuel (initArr pairs 0) [] = some a') :
    ∀ i j, i < n → j < n → a'.edges i j = true ∧ a'.fx i j = u i / u j := by
  obtain ⟨hc, hfull⟩ := fill_consistent u hu n fuel _ a' [] (init_consistent u hu pairs hp)
    (init_symm pairs 0) h
  intro i j hi hj
  have he := edges_full n a'.edges hfull i j hi hj
  exact ⟨he, hc i j he⟩

/-- ARBITRAGE-FREE, NO POTENTIAL ASSUMED: whenever the triangulation returns a result for `n − 1` non-zero
quotes over `n` currencies (indices in range), there is a non-vanishing `u` such that every quote is
`u a / u b` and EVERY one of the `n × n` rates is populated and equals `u i / u j` — so each rate times its
inverse is 1 and any cross is the product of the quotes along any path. -/
theorem C09_tree_arbitrage_free (n fuel : Nat) (pairs : List (Nat × Nat × K)) (a' : FxArr K)
    (hidx : ∀ p ∈ pairs, p.1 < n ∧ p.2.1 < n) (hlen : pairs.length + 1 = n)
    (hnz : ∀ p ∈ pairs, p.2.2 ≠ 0)
    (h : fill n fuel (initArr pairs 0) [] = some a') :
    ∃ u : Nat → K, (∀ i, u i ≠ 0) ∧ (∀ p ∈ pairs, p.2.2 = u p.1 / u p.2.1) ∧
      ∀ i j, i < n → j < n → a'.edges i j = true ∧ a'.fx i j = u i / u j := by
  obtain ⟨u, hu, hp⟩ := potential_of_fill n fuel pairs a' hidx hlen hnz h
  exact ⟨u, hu, hp, C09_arbitrage_free u hu n pairs hp fuel a' h⟩

/-- Each rate times its inverse is 1, every currency against itself is 1, and any cross equals the
product along any path of populated rates (by induction from the triangle law) — so the result does
not depend on the order in which the quotes were supplied nor on the base currency: it is determined
by the potential alone. -/
theorem C09_inverse_and_path (u : Nat → K) (hu : ∀ i, u i ≠ 0) (n : Nat) (pairs : List (Nat × Nat × K))
    (hp : ∀ p ∈ pairs, p.2.2 = u p.1 / u p.2.1) (fuel : Nat) (a' : FxArr K)
    (h : fill n fuel (initArr pairs 0) [] = some a') (i j k : Nat) (hi : i < n) (hj : j < n) (hk : k < n) :
    a'.fx i i = 1 ∧ a'.fx i j * a'.fx j i = 1 ∧ a'.fx i j * a'.fx j k = a'.fx i k := by
  have A := C09_arbitrage_free u hu n pairs hp fuel a' h
  rw [(A i i hi hi).2, (A i j hi hj).2, (A j i hj hi).2, (A j k hj hk).2, (A i k hi hk).2]
  refine ⟨?_, ?_, ?_⟩ <;> field_simp [hu i, hu j, hu k]

theorem C09_order_base_irrelevant (u : Nat → K) (hu : ∀ i, u i ≠ 0) (n : Nat)
    (pairs₁ pairs₂ : List (Nat × Nat × K))
    (hp₁ : ∀ p ∈ pairs₁, p.2.2 = u p.1 / u p.2.1) (hp₂ : ∀ p ∈ pairs₂, p.2.2 = u p.1 / u p.2.1)
    (f₁ f₂ : Nat) (a₁ a₂ : FxArr K)
    (h₁ : fill n f₁ (initArr pairs₁ 0) [] = some a₁) (h₂ : fill n f₂ (initArr pairs₂ 0) [] = some a₂)
    (i j : Nat) (hi : i < n) (hj : j < n) : a₁.fx i j = a₂.fx i j := by
  rw [(C09_arbitrage_free u hu n pairs₁ hp₁ f₁ a₁ h₁ i j hi hj).2,
    (C09_arbitrage_free u hu n pairs₂ hp₂ f₂ a₂ h₂ i j hi hj).2]

end Field

variable {τ : Type} [FxOps τ]

/-- which pairs the seed populates: the diagonal and every quoted pair, both ways round -/
theorem C09_seed_edges (pairs : List (Nat × Nat × τ)) (zero : τ) (i j : Nat) :
    (initArr pairs zero).edges i j = true ↔
      i = j ∨ ∃ p ∈ pairs, (i = p.1 ∧ j = p.2.1) ∨ (i = p.2.1 ∧ j = p.1) :=
  init_edges pairs zero i j

/-- COMPLETE: if the quoted pairs connect all `n` currencies (every set of currencies that is closed
under the quoted pairs and non-empty is everything) the triangulation terminates — within the fuel the
model gives it — with a result; by `C09_arbitrage_free` all n × n rates are then populated and right. -/
theorem C09_complete (n : Nat) (pairs : List (Nat × Nat × τ)) (zero : τ)
    (hconn : Connected n (initArr pairs zero)) :
    ∃ a', fill n (fillFuel n) (initArr pairs zero) [] = some a' := by
  apply fill_complete n (fillFuel n) _ [] (init_symm pairs zero) (init_refl n pairs zero) hconn
  · intro p hp; cases hp
  · have : inPrev n [] = 0 := by simp [inPrev]
    rw [this]
    exact fillFuel_enough n _

/-- REJECTED: if some non-empty set of currencies is closed under the quoted pairs and misses a
currency (the quotes do not connect the market: under-specified, or the right number of quotes but
with a cycle), no result is ever returned. -/
theorem C09_disconnected_rejected (n : Nat) (pairs : List (Nat × Nat × τ)) (zero : τ) (S : Nat → Prop)
    (hS : Closed n (initArr pairs zero) S) (i0 j0 : Nat) (hi0 : i0 < n) (hj0 : j0 < n) (hin : S i0)
    (hout : ¬ S j0) (fuel : Nat) :
    fill n fuel (initArr pairs zero) [] = none :=
  fill_none_of_disconnected n S i0 j0 hi0 hj0 hin hout fuel _ [] (init_symm pairs zero) hS

/-- Quoted pairs are returned exactly as quoted and the diagonal exactly as 1 (every element type,
f64 itself included): the triangulation never rewrites an entry that is already populated. -/
theorem C09_exact_quotes (n fuel : Nat) (pairs : List (Nat × Nat × τ)) (zero : τ) (a' : FxArr τ)
    (h : fill n fuel (initArr pairs zero) [] = some a') (i j : Nat)
    (hij : (initArr pairs zero).edges i j = true) :
    a'.fx i j = (initArr pairs zero).fx i j :=
  (fill_keeps n fuel _ a' [] (init_symm pairs zero) h i j hij).1

/-- the seed holds the last quote written at a position: a quote `(row, col, x)` that no later quote
overwrites is stored at `[row][col]` as given -/
theorem C09_seed_holds_quote (ps : List (Nat × Nat × τ)) (row col : Nat) (x zero : τ) (hne : row ≠ col) :
    (initArr (ps ++ [(row, col, x)]) zero).fx row col = x ∧
    (initArr (ps ++ [(row, col, x)]) zero).edges row col = true := by
  rw [initArr_eq, List.foldl_append]
  simp only [List.foldl_cons, List.foldl_nil, initStep, upd2]
  constructor
  · rw [if_neg (by intro h; exact hne h.1)]
    first | rfl | simp
  · first | rfl | (split <;> simp) | simp

section
variable {α : Type} [Add α] [Sub α] [Mul α] [Div α] [Neg α] [OfNat α 0] [OfNat α 1] [OfNat α 2]
  [Transc α]

/-- Quote sets that are under-specified, over-specified or have inconsistent settlement dates are
rejected with an error and never yield rates. -/
theorem C09_rejects (quotes : List (FXQuote α)) (base : Option String) :
    (quotes = [] → FXRates.tryNew quotes base = .error .empty) ∧
    (quotes ≠ [] → (fxCurrencies quotes base).length > quotes.length + 1 →
      FXRates.tryNew quotes base = .error .underspecified) ∧
    (quotes ≠ [] → (fxCurrencies quotes base).length < quotes.length + 1 →
      FXRates.tryNew quotes base = .error .overspecified) := by
  refine ⟨fun h => by simp [FXRates.tryNew, h], fun h hq => ?_, fun h hq => ?_⟩
  · have : quotes.isEmpty = false := by cases quotes <;> simp_all
    simp [FXRates.tryNew, this, hq]
  · have : quotes.isEmpty = false := by cases quotes <;> simp_all
    have h2 : ¬ (fxCurrencies quotes base).length > quotes.length + 1 := by omega
    simp [FXRates.tryNew, this, hq, h2]

theorem C09_rejects_settlement (quotes : List (FXQuote α)) (base : Option String) (q0 : FXQuote α)
    (rest : List (FXQuote α)) (hq : quotes = q0 :: rest)
    (hcount : (fxCurrencies quotes base).length = quotes.length + 1)
    (hmix : ∃ q ∈ quotes, q.settlement ≠ q0.settlement) :
    FXRates.tryNew quotes base = .error .settlement := by
  obtain ⟨q, hqm, hne⟩ := hmix
  have hc : ¬ (fxCurrencies quotes base).length > quotes.length + 1 := by omega
  have hc2 : ¬ (fxCurrencies quotes base).length < quotes.length + 1 := by omega
  unfold FXRates.tryNew
  have hem : quotes.isEmpty = false := by rw [hq]; rfl
  rw [hem]
  simp only [Bool.false_eq_true, if_false, hc, hc2]
  have hs0 : (quotes.head?.map (·.settlement)).getD none = q0.settlement := by rw [hq]; rfl
  rw [hs0]
  cases hs : q0.settlement with
  | none =>
    have hall : (quotes.all fun x => x.settlement.isNone) = false := by
      rw [List.all_eq_false]
      refine ⟨q, hqm, ?_⟩
      rw [hs] at hne
      cases hq' : q.settlement with
      | none => exact absurd hq' hne
      | some d => simp
    simp only [hall, Bool.not_false, if_true]
  | some d =>
    have hall : (quotes.all fun x => x.settlement == some d) = false := by
      rw [List.all_eq_false]
      refine ⟨q, hqm, ?_⟩
      rw [hs] at hne
      simpa using hne
    simp only [hall, Bool.not_false, if_true]

end

/-! Non-vacuity: three currencies, quotes eurusd = 2 (as usd per eur: row eur, col usd) and
usdjpy = 4 admit the potential u = (8, 4, 1); the triangulation completes and every cross is a
ratio of potentials.  At `K = ℝ`/`ℚ` the field arithmetic is the arithmetic the model uses. -/
example : (fill 3 (fillFuel 3) (initArr [(0, 1, (2 : ℚ)), (1, 2, 4)] 0) []).map
    (fun a => (a.fx 0 2, a.fx 2 0, a.fx 0 1, a.fx 1 1)) = some (8, 1 / 8, 2, 1) := by decide +kernel

/-- the hypothesis of `C09_complete` is met by the chain eur–usd–jpy … -/
example : Connected 3 (initArr [(0, 1, (2 : ℚ)), (1, 2, 4)] 0) := by
  intro S hS hne j hj
  obtain ⟨i, hi, hSi⟩ := hne
  have e01 : S 0 ↔ S 1 := hS 0 1 (by decide) (by decide) (by decide)
  have e12 : S 1 ↔ S 2 := hS 1 2 (by decide) (by decide) (by decide)
  interval_cases i <;> interval_cases j <;> tauto

/-- … and that of `C09_disconnected_rejected` by two quotes on four currencies that leave the pair
{2, 3} apart from {0, 1} (eurusd and gbpjpy: right count for 3 currencies, not for these 4 — and also
the shape a cycle leaves behind) -/
example : Closed 4 (initArr [(0, 1, (2 : ℚ)), (2, 3, 4)] 0) (fun i => i < 2) := by
  intro i j hi hj hij
  rw [C09_seed_edges] at hij
  rcases hij with rfl | ⟨p, hp, h⟩
  · exact Iff.rfl
  · simp only [List.mem_cons, List.mem_nil_iff, or_false] at hp
    rcases hp with rfl | rfl <;> rcases h with ⟨rfl, rfl⟩ | ⟨rfl, rfl⟩ <;> simp

/-! Non-vacuity of the tree hypotheses: the chain 0 – 1 – 2 (two quotes, three currencies) is connected, so
`forest_potential` applies to it with any values on its edges. -/
example : ConnectedE (G := ℚ) 3 [(0, 1, 2), (1, 2, 5)] := by
  intro S hS hne j hj
  have h01 := hS (0, 1, 2) (by simp)
  have h12 := hS (1, 2, 5) (by simp)
  simp only at h01 h12
  obtain ⟨i, hi, hSi⟩ := hne
  have h0 : S 0 := by
    interval_cases i
    · exact hSi
    · exact h01.2 hSi
    · exact h01.2 (h12.2 hSi)
  interval_cases j
  · exact h0
  · exact h01.1 h0
  · exact h12.1 (h01.1 h0)

end Rateslib
