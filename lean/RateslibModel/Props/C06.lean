/-
C06  Combined and named calendars mean the union of their parts.
-/
import RateslibModel.Model.Cal
namespace Rateslib

/-- In a combined calendar a date is a business day exactly when it is a business day in every
member calendar. -/
theorem C06_bus (u : UnionCal) (d : Int) :
    u.toDR.isBus d = true ↔ ∀ c ∈ u.calendars, c.toDR.isBus d = true := by
  simp only [DR.isBus, UnionCal.toDR, Bool.and_eq_true, Bool.not_eq_true', List.all_eq_true]
  constructor
  · rintro ⟨h1, h2⟩ c hc
    refine ⟨h1 c hc, ?_⟩
    cases h : c.toDR.isHoliday d with
    | false => rfl
    | true =>
      have : (u.calendars.any fun c => c.toDR.isHoliday d) = true := List.any_eq_true.2 ⟨c, hc, h⟩
      rw [h2] at this; cases this
  · intro h
    refine ⟨fun c hc => (h c hc).1, ?_⟩
    cases hh : (u.calendars.any fun c => c.toDR.isHoliday d) with
    | false => rfl
    | true =>
      obtain ⟨c, hc, hx⟩ := List.any_eq_true.1 hh
      have := (h c hc).2
      rw [hx] at this; cases this

/-- It is a valid settlement day exactly when it is a business day in every associated settlement
calendar (always, if there are none). -/
theorem C06_settle (u : UnionCal) (d : Int) :
    u.toDR.isSettlement d = true ↔ ∀ c ∈ u.settlement.getD [], c.toDR.isBus d = true := by
  simp only [UnionCal.toDR]
  cases hs : u.settlement with
  | none => simp
  | some v =>
    simp only [Option.getD_some, Bool.not_eq_true', DR.isNonBus]
    constructor
    · intro h c hc
      cases hb : c.toDR.isBus d with
      | true => rfl
      | false =>
        have : (v.any fun c => !c.toDR.isBus d) = true := List.any_eq_true.2 ⟨c, hc, by simp [hb]⟩
        rw [h] at this; cases this
    · intro h
      cases hh : (v.any fun c => !c.toDR.isBus d) with
      | false => rfl
      | true =>
        obtain ⟨c, hc, hx⟩ := List.any_eq_true.1 hh
        rw [h c hc] at hx; cases hx

theorem lookupAll_eq_some (table : String → Option Cal) : ∀ (ns : List String) (cs : List Cal),
    lookupAll table ns = some cs ↔ ns.map table = cs.map some := by
  intro ns
  induction ns with
  | nil => intro cs; cases cs <;> simp [lookupAll]
  | cons n ns ih =>
    intro cs
    unfold lookupAll
    cases hn : table n with
    | none => cases cs <;> simp [hn]
    | some c =>
      cases hl : lookupAll table ns with
      | none =>
        cases cs with
        | nil => simp
        | cons c' cs' =>
          simp only [List.map_cons, hn, List.cons.injEq, Option.some.injEq]
          constructor
          · intro h; cases h
          · rintro ⟨_, h⟩; rw [← ih cs', hl] at h; cases h
      | some cs0 =>
        cases cs with
        | nil => simp
        | cons c' cs' =>
          simp only [List.map_cons, hn, List.cons.injEq, Option.some.injEq]
          rw [← ih cs', hl]
          simp

/-- A name with no pipe is the union of the looked-up parts, no settlement calendars; the name is
interpreted regardless of letter case (only `lowerStr name` is consulted). -/
theorem C06_named_members (table : String → Option Cal) (name p0 : String) (cs : List Cal)
    (hs : (lowerStr name).splitOn "|" = [p0]) (hp : (p0.splitOn ",").map table = cs.map some) :
    namedTryNew table name = .ok (lowerStr name, ⟨cs, none⟩) := by
  unfold namedTryNew
  simp only [hs, parseCals, (lookupAll_eq_some table _ cs).2 hp]

/-- A name `members|settlement` is the union of the members with the looked-up settlement calendars. -/
theorem C06_named_settlement (table : String → Option Cal) (name p0 p1 : String) (cs ss : List Cal)
    (hs : (lowerStr name).splitOn "|" = [p0, p1])
    (hp0 : (p0.splitOn ",").map table = cs.map some) (hp1 : (p1.splitOn ",").map table = ss.map some) :
    namedTryNew table name = .ok (lowerStr name, ⟨cs, some ss⟩) := by
  unfold namedTryNew
  simp only [hs, parseCals, (lookupAll_eq_some table _ cs).2 hp0, (lookupAll_eq_some table _ ss).2 hp1]

/-- Converse: whatever is accepted is such a union of looked-up parts. -/
theorem C06_named_is_union (table : String → Option Cal) (name n : String) (u : UnionCal)
    (h : namedTryNew table name = .ok (n, u)) :
    n = lowerStr name ∧
    ((∃ p0, (lowerStr name).splitOn "|" = [p0] ∧ (p0.splitOn ",").map table = u.calendars.map some
        ∧ u.settlement = none) ∨
     (∃ p0 p1 ss, (lowerStr name).splitOn "|" = [p0, p1] ∧ (p0.splitOn ",").map table = u.calendars.map some
        ∧ u.settlement = some ss ∧ (p1.splitOn ",").map table = ss.map some)) := by
  simp only [namedTryNew] at h
  split at h
  · rename_i p0 hs
    simp only [parseCals] at h
    cases hl : lookupAll table (p0.splitOn ",") with
    | none => rw [hl] at h; cases h
    | some cs =>
      rw [hl] at h
      injection h with h; injection h with h1 h2; subst h1; subst h2
      exact ⟨rfl, Or.inl ⟨p0, hs, (lookupAll_eq_some table _ cs).1 hl, rfl⟩⟩
  · rename_i p0 p1 hs
    simp only [parseCals] at h
    cases hl : lookupAll table (p0.splitOn ",") with
    | none => rw [hl] at h; cases h
    | some cs =>
      rw [hl] at h
      cases hl1 : lookupAll table (p1.splitOn ",") with
      | none => rw [hl1] at h; cases h
      | some ss =>
        rw [hl1] at h
        injection h with h; injection h with h1 h2; subst h1; subst h2
        exact ⟨rfl, Or.inr ⟨p0, p1, ss, hs, (lookupAll_eq_some table _ cs).1 hl, rfl,
          (lookupAll_eq_some table _ ss).1 hl1⟩⟩
  · cases h

/-- More than one '|' is reported as an error. -/
theorem C06_error_pipes (table : String → Option Cal) (name : String)
    (h : ((lowerStr name).splitOn "|").length > 2) : namedTryNew table name = .err := by
  simp only [namedTryNew]
  split
  · rename_i hs; rw [hs] at h; simp at h
  · rename_i hs; rw [hs] at h; simp at h
  · rfl

/-- An unknown name in any position is reported as an error. -/
theorem C06_error_unknown (table : String → Option Cal) (name part nm : String)
    (hp : part ∈ (lowerStr name).splitOn "|") (hn : nm ∈ part.splitOn ",") (hu : table nm = none) :
    namedTryNew table name = .err := by
  have key : ∀ p, nm ∈ p.splitOn "," → parseCals table p = none := by
    intro p hmem
    cases hl : parseCals table p with
    | none => rfl
    | some cs =>
      have := (lookupAll_eq_some table _ cs).1 hl
      have hm : table nm ∈ (p.splitOn ",").map table := List.mem_map.2 ⟨nm, hmem, rfl⟩
      rw [this, hu] at hm
      simp at hm
  simp only [namedTryNew]
  split
  · rename_i p0 hs
    rw [hs] at hp; simp at hp; subst hp
    simp [key _ hn]
  · rename_i p0 p1 hs
    rw [hs] at hp; simp at hp
    rcases hp with hp | hp
    · subst hp; simp [key _ hn]
    · subst hp
      simp only [key _ hn]
      cases parseCals table p0 <;> rfl
  · rfl

theorem calDateRange_mem (s e x : Int) : x ∈ calDateRange s e ↔ s ≤ x ∧ x ≤ e := by
  unfold calDateRange
  simp only [List.mem_map, List.mem_range]
  constructor
  · rintro ⟨i, hi, rfl⟩; omega
  · rintro ⟨h1, h2⟩; exact ⟨(x - s).toNat, by omega, by omega⟩

/-- A combined or named calendar compares equal to a calendar of any kind exactly when the two
agree on every business day and settlement day of the supported range 1970-01-01..2200-12-31. -/
theorem C06_eq (a b : DR) :
    drEq a b = true ↔ ∀ d, 0 ≤ d → d ≤ 84370 →
      (a.isBus d = b.isBus d ∧ a.isSettlement d = b.isSettlement d) := by
  unfold drEq
  rw [List.all_eq_true]
  simp only [calDateRange_mem, eqLo, eqHi, Bool.and_eq_true, beq_iff_eq]
  constructor
  · intro h d h1 h2; exact h d ⟨h1, h2⟩
  · intro h d hd; exact h d hd.1 hd.2

/-! Non-vacuity.  `String.splitOn`/`toLower` do not reduce in the kernel, so the hypotheses of the
`C06_named_*` theorems are exhibited by the correspondence run instead (every accepted name of the
generated stream is an instance: the compiled model evaluates exactly these definitions).  The
predicates themselves are exhibited here on concrete calendars. -/
def exA : Cal := ⟨fun w => w == 5 || w == 6, fun d => d == 3⟩
def exB : Cal := ⟨fun w => w == 6, fun d => d == 4⟩
example : (UnionCal.toDR ⟨[exA, exB], some [exB]⟩).isBus 5 = true := by decide
example : (UnionCal.toDR ⟨[exA, exB], some [exB]⟩).isBus 4 = false := by decide
example : (UnionCal.toDR ⟨[exA], some [exB]⟩).isSettlement 4 = false := by decide
example : lookupAll (fun _ => some exA) ["x", "y"] = some [exA, exA] := rfl

end Rateslib
