/-
C14  B-spline basis: non-negative local partition of unity, correct derivatives.

Over ℝ, for ANY order `K ≥ 1` and ANY non-decreasing knot list with `K`-fold end knots (every interior
multiplicity), with `n = len − K` basis functions and domain `[t₀, t_last]`.

VALUES: support, non-negativity, Cox–de Boor values before the last knot, the right-end-point rule, partition
of unity on the whole domain.
DERIVATIVES (`Proofs/BSplineDeriv.lean`): order 0 of `bspldnev` is the value (`C14_deriv_zero`); at every point
strictly before the last knot — interior knots of any multiplicity and the left end point included — the
order-`(m+1)` output, as a function of the abscissa, is the RIGHT derivative of the order-`m` output
(`C14_right_derivative`), and it is given by the derivative recursion over the half-open Cox–de Boor
functions (`C14_derivative_recursion`); exactly at the last knot it is the LEFT derivative
(`C14_left_derivative_at_right_end`) — here the right-end-point rule, evaluated with the ORIGINAL order that the
derivative recursion carries along, is what makes the values those of the left-continuous representative of
the same piecewise polynomial (`C14_right_end_derivatives`, `C14_one_piecewise_polynomial`); orders `m ≥ k`
vanish (`C14_deriv_high`).  By induction on `m` these say: the `m`-th output is the `m`-th one-sided
derivative of the Cox–de Boor piecewise polynomial, from the right everywhere and from the left at the right
end point.
-/
import RateslibModel.Proofs.BSplinePoU
import RateslibModel.Proofs.BSplineDeriv
import RateslibModel.Proofs.DualOps
import RateslibModel.Analysis.Refine2
namespace Rateslib
open Finset

/-- `K`-fold end knots -/
def EndKnots (t : List ℝ) (K : Nat) : Prop :=
  2 * K ≤ t.length ∧ knot t (K - 1) = knot t 0 ∧ knot t (t.length - K) = knot t (t.length - 1)

/-- Local support: a basis function vanishes outside its `k` knot spans (by the very first test of the
implementation) — every scalar type with a lawful `<`; stated over ℝ. -/
theorem C14_support (t : List ℝ) (x : ℝ) (k i org : Nat) (hk : 1 ≤ k)
    (h : x < knot t i ∨ knot t (i + k) < x) : bsplev t x k i org = 0 := by
  obtain ⟨k', rfl⟩ : ∃ k', k = k' + 1 := ⟨k - 1, by omega⟩
  unfold bsplev
  rw [if_pos]
  simp only [Bool.or_eq_true, ltb_iff]
  exact h

/-- Derivatives of order `m ≥ k` vanish identically; order 0 is the value. -/
theorem C14_deriv_high (t : List ℝ) (x : ℝ) (i k m : Nat) (org : Option Nat) (hm : k ≤ m) (hm0 : 0 < m) :
    bspldnev t x m i k org = 0 := by
  obtain ⟨m', rfl⟩ : ∃ m', m = m' + 1 := ⟨m - 1, by omega⟩
  unfold bspldnev
  rw [if_pos]
  simp only [Bool.or_eq_true, decide_eq_true_eq]
  right; omega

theorem C14_deriv_zero (t : List ℝ) (x : ℝ) (i k : Nat) (org : Option Nat) :
    bspldnev t x 0 i k org = bsplev t x k i k := rfl

/-- Strictly inside the domain (and at the left end point and at every interior knot) the values
are those of the Cox–de Boor recursion. -/
theorem C14_is_cox_de_boor (t : List ℝ) (hs : SortedKnots t) (x : ℝ) (hx : x < knot t (t.length - 1))
    (k i org : Nat) (hik : i + k < t.length) : bsplev t x k i org = pureB t x k i :=
  bsplev_eq_pure t hs x hx k i org hik

/-- At the right end point the last basis function is 1 and all others are 0. -/
theorem C14_right_end (t : List ℝ) (hs : SortedKnots t) (K : Nat) (hK : 1 ≤ K) (hlen : K + 1 ≤ t.length)
    (i : Nat) (hi : i + K < t.length) :
    bsplev t (knot t (t.length - 1)) K i K = if i + K + 1 = t.length then 1 else 0 := by
  by_cases hlast : i + K + 1 = t.length
  · rw [if_pos hlast]
    obtain ⟨k', rfl⟩ : ∃ k', K = k' + 1 := ⟨K - 1, by omega⟩
    unfold bsplev
    have h1 : ¬ ((Transc.ltb (knot t (t.length - 1)) (knot t i) ||
        Transc.ltb (knot t (i + (k' + 1))) (knot t (t.length - 1))) = true) := by
      simp only [Bool.or_eq_true, ltb_iff, not_or, not_lt]
      refine ⟨hs _ _ (by omega) (by omega), ?_⟩
      have : i + (k' + 1) = t.length - 1 := by omega
      rw [this]
    rw [if_neg h1, if_pos]
    simp only [Bool.and_eq_true, eqb_iff, decide_eq_true_eq, true_and]
    omega
  · rw [if_neg hlast]
    exact bsplev_right_end_zero t hs K i (by omega)

/-- Non-negativity everywhere in the domain, right end point included. -/
theorem C14_nonneg (t : List ℝ) (hs : SortedKnots t) (K : Nat) (hK : 1 ≤ K) (hlen : K + 1 ≤ t.length)
    (x : ℝ) (hx : x ≤ knot t (t.length - 1)) (i : Nat) (hi : i + K < t.length) :
    0 ≤ bsplev t x K i K := by
  rcases lt_or_eq_of_le hx with h | h
  · rw [bsplev_eq_pure t hs x h K i K hi]; exact pureB_nonneg t hs x K i hi
  · rw [h, C14_right_end t hs K hK hlen i hi]; split <;> norm_num

/-- sum over `range n` of a function supported on `[a, a+K)` -/
theorem sum_window (g : Nat → ℝ) (n a K : Nat) (haK : a + K ≤ n)
    (h0 : ∀ i, i < n → (i < a ∨ a + K ≤ i) → g i = 0) :
    ∑ i ∈ range n, g i = ∑ r ∈ range K, g (a + r) := by
  rw [range_eq_Ico, ← sum_Ico_consecutive g (Nat.zero_le a) (by omega : a ≤ n),
    ← sum_Ico_consecutive g (by omega : a ≤ a + K) haK]
  have z1 : ∑ i ∈ Ico 0 a, g i = 0 := by
    apply sum_eq_zero; intro i hi; rw [mem_Ico] at hi; exact h0 i (by omega) (Or.inl hi.2)
  have z2 : ∑ i ∈ Ico (a + K) n, g i = 0 := by
    apply sum_eq_zero; intro i hi; rw [mem_Ico] at hi; exact h0 i hi.2 (Or.inr hi.1)
  rw [z1, z2, zero_add, add_zero, sum_Ico_eq_sum_range]
  have : a + K - a = K := by omega
  rw [this]

/-- Partition of unity: anywhere in the spline's domain — exactly at interior knots and at the right
end point included — the `n` basis functions sum to one. -/
theorem C14_partition_of_unity (t : List ℝ) (hs : SortedKnots t) (K : Nat) (hK : 1 ≤ K)
    (he : EndKnots t K) (x : ℝ) (hx0 : knot t 0 ≤ x) (hx1 : x ≤ knot t (t.length - 1)) :
    ∑ i ∈ range (t.length - K), bsplev t x K i K = 1 := by
  obtain ⟨hlen, e0, eL⟩ := he
  set n := t.length - K with hn
  have hnK : K ≤ n := by omega
  rcases lt_or_eq_of_le hx1 with hlt | heq
  · -- interior: Cox–de Boor values, then the span argument
    have hpure : ∀ i, i < n → bsplev t x K i K = pureB t x K i := by
      intro i hi; exact bsplev_eq_pure t hs x hlt K i K (by omega)
    rw [sum_congr rfl (fun i hi => hpure i (mem_range.1 hi))]
    -- the span index: the greatest j ≤ n-1 with t_j ≤ x
    set j := Nat.findGreatest (fun j => knot t j ≤ x) (n - 1) with hjdef
    have hPK : knot t (K - 1) ≤ x := by rw [e0]; exact hx0
    have hjspec : knot t j ≤ x := Nat.findGreatest_spec (P := fun j => knot t j ≤ x) (by omega : K - 1 ≤ n - 1) hPK
    have hjge : K - 1 ≤ j := Nat.le_findGreatest (by omega) hPK
    have hjle : j ≤ n - 1 := Nat.findGreatest_le _
    have hjnext : x < knot t (j + 1) := by
      by_cases hjn : j = n - 1
      · have : j + 1 = t.length - K := by omega
        rw [this, eL]; exact hlt
      · by_contra hcon
        push Not at hcon
        have := Nat.findGreatest_is_greatest (P := fun j => knot t j ≤ x) (k := j + 1) (n := n - 1)
          (by omega) (by omega)
        exact this hcon
    have hwin := sum_window (fun i => pureB t x K i) n (j + 1 - K) K (by omega) (by
      intro i hi hout
      apply pureB_support t hs x K i (by omega)
      rcases hout with h | h
      · right
        have : knot t (i + K) ≤ knot t j := hs _ _ (by omega) (by omega)
        linarith
      · left
        have : knot t (j + 1) ≤ knot t i := hs _ _ (by omega) (by omega)
        linarith)
    rw [hwin]
    exact pureB_sum_span t hs x j hjspec hjnext K hK (by omega) (by omega)
  · -- right end point: the last function is 1, the others 0
    rw [heq]
    have hval : ∀ i, i < n → bsplev t (knot t (t.length - 1)) K i K = if i = n - 1 then 1 else 0 := by
      intro i hi
      rw [C14_right_end t hs K hK (by omega) i (by omega)]
      have : (i + K + 1 = t.length) ↔ (i = n - 1) := by omega
      simp only [this]
    rw [sum_congr rfl (fun i hi => hval i (mem_range.1 hi))]
    rw [sum_ite_eq' (range n) (n - 1) (fun _ => (1 : ℝ))]
    rw [if_pos (mem_range.2 (by omega))]

/-! ### derivatives -/

/-- RIGHT DERIVATIVES: at every point strictly before the last knot — interior knots of any multiplicity
and the left end point included — the order-`(m+1)` output of `bspldnev`, as a function of the abscissa,
is the right derivative of its order-`m` output (any order `k`, any index, any carried original order). -/
theorem C14_right_derivative (t : List ℝ) (hs : SortedKnots t) (x : ℝ) (hx : x < knot t (t.length - 1))
    (m k i : Nat) (org : Option Nat) (hik : i + k < t.length) :
    HasDerivWithinAt (fun y => bspldnev t y m i k org) (bspldnev t x (m + 1) i k org) (Set.Ici x) x :=
  bspldnev_right_deriv t hs x hx m k i org hik

/-- …and every order is given by the derivative recursion
`B^(m+1)_{i,k} = (k−1)·(B^(m)_{i,k−1}/(t_{i+k−1}−t_i) − B^(m)_{i+1,k−1}/(t_{i+k}−t_{i+1}))` over the half-open
Cox–de Boor functions (`genD (bR t)`; zero-width terms are zero): the zero-denominator guards of the code
only skip terms that are zero. -/
theorem C14_derivative_recursion (t : List ℝ) (hs : SortedKnots t) (x : ℝ) (hx : x < knot t (t.length - 1))
    (m k i : Nat) (org : Option Nat) (hik : i + k < t.length) :
    bspldnev t x m i k org = genD (bR t) t x m k i ∧
    genD (bR t) t x 0 k i = pureB t x k i :=
  ⟨bspldnev_eq_genD t hs x hx m k i org hik, by simp only [genD]; exact (pureB_eq_genB t x k i).symm⟩

/-- the hypotheses at the right end point: order-`K` spline whose last knot has multiplicity exactly `K` -/
theorem C14_rightEnd_of_endKnots (t : List ℝ) (hs : SortedKnots t) (K : Nat) (hK : 1 ≤ K) (he : EndKnots t K)
    (hint : knot t (t.length - K - 1) < knot t (t.length - 1)) : RightEnd t K :=
  ⟨hs, hK, by have := he.1; omega, he.2.2, hint⟩

/-- LEFT DERIVATIVES AT THE RIGHT END POINT: the order-`(m+1)` output of `bspldnev` at the last knot is the
LEFT derivative there of its order-`m` output. -/
theorem C14_left_derivative_at_right_end (t : List ℝ) (hs : SortedKnots t) (K : Nat) (hK : 1 ≤ K)
    (he : EndKnots t K) (hint : knot t (t.length - K - 1) < knot t (t.length - 1))
    (m i : Nat) (hi : i + K < t.length) :
    HasDerivWithinAt (fun y => bspldnev t y m i K none)
      (bspldnev t (knot t (t.length - 1)) (m + 1) i K none) (Set.Iic (knot t (t.length - 1)))
      (knot t (t.length - 1)) :=
  bspldnev_left_deriv_end t K (C14_rightEnd_of_endKnots t hs K hK he hint) m i hi

/-- At the last knot the outputs are the derivative recursion over the LEFT-continuous indicators
`(t_i, t_{i+1}]` — what the right-end-point rule with the carried original order computes. -/
theorem C14_right_end_derivatives (t : List ℝ) (hs : SortedKnots t) (K : Nat) (hK : 1 ≤ K)
    (he : EndKnots t K) (hint : knot t (t.length - K - 1) < knot t (t.length - 1))
    (m i : Nat) (hi : i + K < t.length) :
    bspldnev t (knot t (t.length - 1)) m i K none = genD (bL t) t (knot t (t.length - 1)) m K i :=
  (C14_rightEnd_of_endKnots t hs K hK he hint).bspldnev_end m i hi

/-- The left- and the right-continuous recursion define the same piecewise polynomial: they agree, with all
derivative recursions, wherever `x` is not a knot. -/
theorem C14_one_piecewise_polynomial (t : List ℝ) (x : ℝ) (hx : ∀ j, j < t.length → knot t j ≠ x)
    (m k i : Nat) (hik : i + k < t.length) : genD (bL t) t x m k i = genD (bR t) t x m k i :=
  genD_bL_eq_bR t x hx m k i hik

/-- A DUAL ABSCISSA on a single basis function (`bsplev_single_dual` is `m = 0`, `bspldnev_single_dual` any `m`):
the value is the order-`m` output at the abscissa's value, the variables are the abscissa's, and the sensitivity
to every name is the RIGHT derivative of the order-`m` output there times the abscissa's own sensitivity to that
name — the chain rule, name by name, at every point strictly before the last knot. -/
theorem C14_dual_abscissa_single (t : List ℝ) (hs : SortedKnots t) (x : Dual ℝ) (hw : x.WF)
    (hx : x.real < knot t (t.length - 1)) (m k i : Nat) (hik : i + k < t.length) :
    (bspldnevDual t x i k m).real = bspldnev t x.real m i k none ∧
    (bspldnevDual t x i k m).WF ∧ (bspldnevDual t x i k m).vars = x.vars ∧
    ∃ d, HasDerivWithinAt (fun y => bspldnev t y m i k none) d (Set.Ici x.real) x.real ∧
      ∀ v, Dual.den (bspldnevDual t x i k m) v = d * Dual.den x v := by
  refine ⟨rfl, ⟨hw.1, by simp [bspldnevDual, vscaleL, hw.2]⟩, rfl, _, 
    C14_right_derivative t hs x.real hx m k i none hik, fun v => ?_⟩
  exact Dual.den_scaleL x _ hw _ v

/-- …and a SECOND-ORDER dual abscissa (`bsplev_single_dual2`, `bspldnev_single_dual2`): with `d₁`, `d₂` the right
derivatives of the order-`m` and order-`(m+1)` outputs, the first-order sensitivities are `d₁·∂x` and the stored
(half) second-order ones `d₁·½∂²x + ½d₂·∂x∂x`, by pair of names. -/
theorem C14_dual2_abscissa_single (t : List ℝ) (hs : SortedKnots t) (x : Dual2 ℝ) (hw : x.WF)
    (hx : x.real < knot t (t.length - 1)) (m k i : Nat) (hik : i + k < t.length) :
    ∃ d1 d2, HasDerivWithinAt (fun y => bspldnev t y m i k none) d1 (Set.Ici x.real) x.real ∧
      HasDerivWithinAt (fun y => bspldnev t y (m + 1) i k none) d2 (Set.Ici x.real) x.real ∧
      ChainSpec x (bspldnevDual2 t x i k m) (bspldnev t x.real m i k none) d1 (half * d2) :=
  ⟨_, _, C14_right_derivative t hs x.real hx m k i none hik,
    C14_right_derivative t hs x.real hx (m + 1) k i none hik, cdf_shape_spec x hw _ _ _⟩

/-! Non-vacuity: cubic splines on knots (0,0,0,0,1,3,3,3,3): sorted, 4-fold ends. -/
def exKnots : List ℝ := [0, 0, 0, 0, 1, 3, 3, 3, 3]
example : SortedKnots exKnots ∧ EndKnots exKnots 4 := by
  constructor
  · intro a b hab hb
    simp only [exKnots, List.length_cons, List.length_nil] at hb
    have : ∀ i, i ≤ 8 → knot exKnots i = [0, 0, 0, 0, 1, 3, 3, 3, 3].getD i (0 : ℝ) := fun _ _ => rfl
    interval_cases b <;> interval_cases a <;> simp [knot, exKnots]
  · refine ⟨by simp [exKnots], ?_, ?_⟩ <;> simp [knot, exKnots]

example : knot exKnots (exKnots.length - 4 - 1) < knot exKnots (exKnots.length - 1) := by
  simp [knot, exKnots]

end Rateslib
