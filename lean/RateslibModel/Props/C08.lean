/-
C08  Month arithmetic and roll-day rules follow calendar arithmetic.
Property theorems only; helper lemmas are in Proofs/Dates.lean.
-/
import RateslibModel.Proofs.Dates
namespace Rateslib

/-- The month index `M = 12·y + (m−1)` advances by exactly `k`, for every integer offset `k`
(negative, zero, positive, multi-year), and the resulting month is in 1..12. -/
theorem C08_add_months_ym (y mo k : Int) (h1 : 1 ≤ mo) (h2 : mo ≤ 12) :
    addMonthsYm y mo k = ((y * 12 + (mo - 1) + k) / 12, (y * 12 + (mo - 1) + k) % 12 + 1) := by
  have h := addMonthsYm_spec y mo k h1 h2
  apply Prod.ext <;> simp only <;> omega

/-- The roll day that `add_months` resolves: the start date's own day if no roll is given,
31 (capped) for end-of-month, 1 for start-of-month, the given day otherwise. -/
def rollDayOf (startDay : Int) : RollDay → Int
  | .unspecified => startDay
  | .int d => d
  | .eom => 31
  | .som => 1
  | .imm => 0

/-- Unadjusted result of adding `k` months: the date in the month exactly `k` months away whose
day is the requested roll day capped at that month's length. -/
theorem C08_add_months (c : Ymd) (k : Int) (roll : RollDay)
    (hm1 : 1 ≤ c.m) (hm2 : c.m ≤ 12) (hd1 : 1 ≤ c.d) (hd2 : c.d ≤ 31)
    (hr : ∀ d, roll = .int d → 1 ≤ d ∧ d ≤ 31) (himm : roll ≠ .imm) :
    let M := c.y * 12 + (c.m - 1) + k
    addMonthsRaw c k roll
      = .ok ⟨M / 12, M % 12 + 1, min (rollDayOf c.d roll) (monthLen (M / 12) (M % 12 + 1))⟩ := by
  intro M
  have hM1 : 1 ≤ M % 12 + 1 := by omega
  have hM2 : M % 12 + 1 ≤ 12 := by omega
  unfold addMonthsRaw
  rw [C08_add_months_ym c.y c.m k hm1 hm2]
  cases roll with
  | unspecified => simp only [getRoll, rollDayOf]; exact getRollByDay_spec _ _ _ hM1 hM2 hd1 hd2
  | int d => simp only [getRoll, rollDayOf]; exact getRollByDay_spec _ _ _ hM1 hM2 (hr d rfl).1 (hr d rfl).2
  | eom => simp only [getRoll, rollDayOf]; exact getRollByDay_spec _ _ _ hM1 hM2 (by omega) (by omega)
  | som => simp only [getRoll, rollDayOf]; exact getRollByDay_spec _ _ _ hM1 hM2 (by omega) (by omega)
  | imm => exact absurd rfl himm

/-- IMM roll: the result is the IMM date of the month exactly `k` months away. -/
theorem C08_add_months_imm (c : Ymd) (k : Int) (hm1 : 1 ≤ c.m) (hm2 : c.m ≤ 12) :
    let M := c.y * 12 + (c.m - 1) + k
    addMonthsRaw c k .imm = .ok (getImm (M / 12) (M % 12 + 1)) := by
  intro M
  unfold addMonthsRaw
  rw [C08_add_months_ym c.y c.m k hm1 hm2]
  simp only [getRoll, M]

/-- The IMM date of every month is its third Wednesday: it is a Wednesday (weekday 2, Monday = 0),
lies in the same month and its day is in 15..21 — so exactly two Wednesdays (d−7, d−14) precede it
in the month and d−21 < 1. -/
theorem C08_imm (y m : Int) :
    weekday (toDay y m (getImm y m).d) = 2 ∧ 15 ≤ (getImm y m).d ∧ (getImm y m).d ≤ 21
      ∧ (getImm y m).y = y ∧ (getImm y m).m = m :=
  weekday_getImm y m

/-- The end-of-month date is the month's last day. -/
theorem C08_eom (y m : Int) (h1 : 1 ≤ m) (h2 : m ≤ 12) :
    getEom y m = .ok ⟨y, m, monthLen y m⟩ ∧ validYmd y m (monthLen y m) = true
      ∧ validYmd y m (monthLen y m + 1) = false := by
  have hb := monthLen_bounds y m h1 h2
  refine ⟨getEom_spec y m h1 h2, ?_, ?_⟩
  · rw [validYmd_iff]; omega
  · cases h : validYmd y m (monthLen y m + 1) with
    | false => rfl
    | true => have := (validYmd_iff _ _ _).1 h; omega

/-- Leap years follow the Gregorian rule. -/
theorem C08_leap (y : Int) :
    isLeapYear y = true ↔ (y % 4 = 0 ∧ (y % 100 ≠ 0 ∨ y % 400 = 0)) := by
  unfold isLeapYear
  rw [validYmd_iff]
  unfold monthLen isLeapRule
  by_cases h4 : y % 4 = 0 <;> by_cases h100 : y % 100 = 0 <;> by_cases h400 : y % 400 = 0 <;>
    simp [h4, h100, h400] <;> omega

/-- `get_roll` refuses an unspecified roll and never panics for roll days 1..31. -/
theorem C08_get_roll_total (y m : Int) (r : RollDay) (h1 : 1 ≤ m) (h2 : m ≤ 12)
    (hr : ∀ d, r = .int d → 1 ≤ d ∧ d ≤ 31) :
    (r = .unspecified → getRoll y m r = .err) ∧ (r ≠ .unspecified → ∃ t, getRoll y m r = .ok t) := by
  cases r with
  | unspecified => simp [getRoll]
  | int d => simp [getRoll, getRollByDay_spec y m d h1 h2 (hr d rfl).1 (hr d rfl).2]
  | eom => simp [getRoll, getRollByDay_spec y m 31 h1 h2]
  | som => simp [getRoll, getRollByDay_spec y m 1 h1 h2]
  | imm => simp [getRoll]

/-! Non-vacuity: concrete instances of the hypotheses and of the statements. -/
example : addMonthsRaw ⟨2024, 1, 31⟩ 1 .unspecified = .ok ⟨2024, 2, 29⟩ := by decide
example : addMonthsRaw ⟨2023, 11, 30⟩ (-21) .eom = .ok ⟨2022, 2, 28⟩ := by decide
example : addMonthsRaw ⟨2023, 11, 30⟩ 37 (.int 31) = .ok ⟨2026, 12, 31⟩ := by decide
example : getImm 2024 3 = ⟨2024, 3, 20⟩ := by decide
example : isLeapYear 2000 = true ∧ isLeapYear 2100 = false ∧ isLeapYear 2024 = true := by decide

end Rateslib
