/-
C20  Fallible entry points return errors, never abort; date arithmetic is total.

In the model every place where the implementation can panic is an explicit `Outcome.panic` marker
(`lag`'s `.unwrap()`, `get_roll_by_day`'s `panic!`, `add_months`'s `get_roll(..).unwrap()`), the
loops carry fuel (`none` = still searching after `fuel` days; C04/C05 show a result exists whenever a
business day lies within reach — and one always does: `C20_adjust_terminates`, `C20_cal_adjust_terminates`,
`C20_union_adjust_terminates` give the explicit fuel bound "distance to the span of the holidays + 8 days" for
every calendar with a working weekday, resp. every combination whose parts share one, so the real loops,
which carry no fuel, terminate), and every validating constructor / loader returns `Option`/`Except`.
The theorems say: the panic markers are unreachable for every argument in the documented ranges, and
every value that IS returned satisfies its type's shape invariants.  That the implementation has no
further panic sites than the model is what the correspondence run checks (every call under
`catch_unwind`, JSON loading in a worker process so that an abort is observed).

Loading from JSON is stated over every JSON TREE (`Load.JVal`), which covers every text obtained from a
valid document by deleting, duplicating or altering fields and values, and far more.
-/
import RateslibModel.Props.C04
import RateslibModel.Props.C05
import RateslibModel.Props.C08
import RateslibModel.Proofs.Load
import RateslibModel.Proofs.NewFrom
import RateslibModel.Model.Spline
namespace Rateslib
open DR

/-! ### date arithmetic -/
section Dates
variable (c : DR)

/-- civil dates produced from day numbers always have a month in 1..12 and a day in 1..31 -/
theorem ofDay_bounds (n : Int) :
    1 ≤ (ofDay n).m ∧ (ofDay n).m ≤ 12 ∧ 1 ≤ (ofDay n).d ∧ (ofDay n).d ≤ 31 := by
  unfold ofDay
  simp only
  split <;> omega

/-- Calendar-day addition never aborts, for EVERY day count (in particular all 256 values of the
8-bit parameter, −128 included). -/
theorem C20_add_days_total (fuel : Nat) (d n : Int) (m : Modifier) (s : Bool) :
    ∃ r, c.addDays fuel d n m s = .ok r :=
  ⟨_, C05_add_days c fuel d n m s⟩

/-- Business-day addition: an error exactly for a non-business start, a value otherwise; never an abort. -/
theorem C20_add_bus_days_total (fuel : Nat) (d n : Int) (s : Bool) :
    (c.isBus d = false → c.addBusDays fuel d n s = .err) ∧
    (c.isBus d = true → ∃ r, c.addBusDays fuel d n s = .ok r) := by
  refine ⟨C05_rejects c fuel d n s, fun hb => ?_⟩
  unfold addBusDays
  have : ¬ c.isNonBus d = true := by simp [isNonBus, hb]
  rw [if_neg this]
  repeat' split
  all_goals exact ⟨_, rfl⟩

/-- `lag` never aborts: the `.unwrap()` of the inner business-day addition is only ever applied to a
date that the preceding roll has made a business day, and `days ± 1` stays inside the 8-bit range. -/
theorem C20_lag_total (fuel : Nat) (d n : Int) (s : Bool) :
    ∃ r, c.lag fuel d n s = .ok r := by
  obtain ⟨h1, h2, h3, h4⟩ := C05_lag c fuel d n s
  by_cases hb : c.isBus d = true
  · rw [h1 hb]; exact (C20_add_bus_days_total c fuel d n s).2 hb
  · have hb' : c.isBus d = false := by simpa using hb
    rcases Int.lt_trichotomy n 0 with hn | hn | hn
    · cases hr : c.rollBwd fuel d with
      | none =>
        refine ⟨none, ?_⟩
        unfold lag; rw [if_neg (by simp [hb']), if_neg (by omega), if_pos hn, hr]
      | some r =>
        rw [h4 hb' hn r hr]
        exact (C20_add_bus_days_total c fuel r (n + 1) s).2 (c.rollBwd_some fuel d r hr).2.2.1
    · exact ⟨_, h2 hb' hn⟩
    · cases hr : c.rollFwd fuel d with
      | none =>
        refine ⟨none, ?_⟩
        unfold lag; rw [if_neg (by simp [hb']), if_neg (by omega), if_neg (by omega), hr]
      | some r =>
        rw [h3 hb' hn r hr]
        exact (C20_add_bus_days_total c fuel r (n - 1) s).2 (c.rollFwd_some fuel d r hr).2.2.1

/-- the 8-bit arithmetic inside `lag` (`days + 1` for negative, `days − 1` for positive counts) cannot
overflow -/
theorem C20_lag_i8 (n : Int) (h1 : -128 ≤ n) (h2 : n ≤ 127) :
    (n < 0 → i8ok (n + 1) = true) ∧ (0 < n → i8ok (n - 1) = true) := by
  unfold i8ok
  constructor <;> intro h <;> simp <;> omega

/-- Month addition never aborts for any month offset, any date and roll days 1..31 (or end-of-month,
start-of-month, IMM, or the date's own day): the `get_roll(..).unwrap()` and the `panic!` in
`get_roll_by_day` are unreachable. -/
theorem C20_add_months_total (fuel : Nat) (d months : Int) (m : Modifier) (roll : RollDay) (s : Bool)
    (hr : ∀ k, roll = .int k → 1 ≤ k ∧ k ≤ 31) :
    ∃ r, c.addMonths fuel d months m roll s = .ok r := by
  obtain ⟨hm1, hm2, hd1, hd2⟩ := ofDay_bounds d
  unfold addMonths
  by_cases himm : roll = .imm
  · subst himm
    rw [C08_add_months_imm (ofDay d) months hm1 hm2]
    exact ⟨_, rfl⟩
  · rw [C08_add_months (ofDay d) months roll hm1 hm2 hd1 hd2 hr himm]
    exact ⟨_, rfl⟩

/-- Adjustment itself has no abort path at all (its only failure mode in the model is fuel), and with
an eligible day within reach on both sides every rule returns a date. -/
theorem C20_adjust_total (fuel : Nat) (d e1 e2 : Int) (m : Modifier) (s : Bool)
    (h1 : d ≤ e1) (h2 : e1 < d + fuel) (he1 : c.Elig true e1)
    (h3 : e2 ≤ d) (h4 : d - fuel < e2) (he2 : c.Elig true e2) :
    ∃ r, c.roll fuel d m s = some r :=
  C04_total c fuel d e1 e2 m s h1 h2 he1 h3 h4 he2

/-! ### eligible days exist: the adjustment loops terminate -/

/-- the first day on or after `x` whose weekday is `w` -/
def nextWeekday (x w : Int) : Int := x + (w - weekday x) % 7
/-- the last day on or before `x` whose weekday is `w` -/
def prevWeekday (x w : Int) : Int := x - (weekday x - w) % 7

theorem nextWeekday_spec (x w : Int) (hw : 0 ≤ w ∧ w < 7) :
    x ≤ nextWeekday x w ∧ nextWeekday x w < x + 7 ∧ weekday (nextWeekday x w) = w := by
  unfold nextWeekday weekday
  omega

theorem prevWeekday_spec (x w : Int) (hw : 0 ≤ w ∧ w < 7) :
    prevWeekday x w ≤ x ∧ x - 7 < prevWeekday x w ∧ weekday (prevWeekday x w) = w := by
  unfold prevWeekday weekday
  omega

/-- TERMINATION OF EVERY ADJUSTMENT, for any date-roll object that has a working weekday `w` on which,
outside a bounded range `[lo, hi]` (the span of its holidays), every date is a business day and a settlement
day: whatever the date, modifier and settlement flag, the adjustment returns a date as soon as the fuel
covers the distance to that range plus eight days — the real loops, which carry no fuel, terminate. -/
theorem C20_adjust_terminates (w : Int) (hw : 0 ≤ w ∧ w < 7) (lo hi : Int)
    (H : ∀ e, weekday e = w → (e < lo ∨ hi < e) → c.isBus e = true ∧ c.isSettlement e = true)
    (d : Int) (m : Modifier) (s : Bool) (fuel : Nat)
    (hf : max (max (hi - d) (d - lo)) 0 + 8 < fuel) :
    ∃ r, c.roll fuel d m s = some r := by
  obtain ⟨a1, a2, a3⟩ := nextWeekday_spec (max d (hi + 1)) w hw
  obtain ⟨b1, b2, b3⟩ := prevWeekday_spec (min d (lo - 1)) w hw
  have he1 := H _ a3 (Or.inr (by omega))
  have he2 := H _ b3 (Or.inl (by omega))
  exact C20_adjust_total c fuel d _ _ m s (by omega) (by omega) ⟨he1.1, fun _ => he1.2⟩
    (by omega) (by omega) ⟨he2.1, fun _ => he2.2⟩

/-- …in particular for every plain calendar with at least one working weekday and holidays in a bounded
range (every `Cal`: its holiday set is finite). -/
theorem C20_cal_adjust_terminates (cal : Cal) (w : Int) (hw : 0 ≤ w ∧ w < 7) (hmask : cal.mask w = false)
    (lo hi : Int) (hb : ∀ e, cal.hol e = true → lo ≤ e ∧ e ≤ hi)
    (d : Int) (m : Modifier) (s : Bool) (fuel : Nat) (hf : max (max (hi - d) (d - lo)) 0 + 8 < fuel) :
    ∃ r, cal.toDR.roll fuel d m s = some r := by
  apply C20_adjust_terminates cal.toDR w hw lo hi _ d m s fuel hf
  intro e he hout
  refine ⟨?_, rfl⟩
  show (!cal.mask (weekday e) && !cal.hol e) = true
  rw [he, hmask]
  cases hh : cal.hol e with
  | false => rfl
  | true => have := hb e hh; omega

/-- …and for every combined calendar whose members and settlement calendars share a working weekday (a
combination without a common working weekday has no business day at all: the real loops then run to
chrono's overflow panic — the excluded point). -/
theorem C20_union_adjust_terminates (u : UnionCal) (w : Int) (hw : 0 ≤ w ∧ w < 7)
    (hmask : ∀ cal ∈ u.calendars, cal.mask w = false)
    (hmaskS : ∀ v, u.settlement = some v → ∀ cal ∈ v, cal.mask w = false)
    (lo hi : Int) (hb : ∀ cal ∈ u.calendars, ∀ e, cal.hol e = true → lo ≤ e ∧ e ≤ hi)
    (hbS : ∀ v, u.settlement = some v → ∀ cal ∈ v, ∀ e, cal.hol e = true → lo ≤ e ∧ e ≤ hi)
    (d : Int) (m : Modifier) (s : Bool) (fuel : Nat) (hf : max (max (hi - d) (d - lo)) 0 + 8 < fuel) :
    ∃ r, u.toDR.roll fuel d m s = some r := by
  apply C20_adjust_terminates u.toDR w hw lo hi _ d m s fuel hf
  intro e he hout
  have hnohol : ∀ cal : Cal, (∀ x, cal.hol x = true → lo ≤ x ∧ x ≤ hi) → cal.hol e = false := by
    intro cal hc
    cases hh : cal.hol e with
    | false => rfl
    | true => have := hc e hh; omega
  constructor
  · show (u.calendars.all (fun c => c.toDR.isWeekday e) && !u.calendars.any (fun c => c.toDR.isHoliday e)) = true
    have h1 : u.calendars.all (fun c => c.toDR.isWeekday e) = true := by
      rw [List.all_eq_true]
      intro cal hc
      show (!cal.mask (weekday e)) = true
      rw [he, hmask cal hc]; rfl
    have h2 : u.calendars.any (fun c => c.toDR.isHoliday e) = false := by
      rw [List.any_eq_false]
      intro cal hc
      show ¬ cal.hol e = true
      rw [hnohol cal (hb cal hc)]; simp
    rw [h1, h2]; rfl
  · show (match u.settlement with
      | none => true
      | some v => !v.any (fun c => c.toDR.isNonBus e)) = true
    cases hsv : u.settlement with
    | none => rfl
    | some v =>
      simp only
      have : v.any (fun c => c.toDR.isNonBus e) = false := by
        rw [List.any_eq_false]
        intro cal hc
        show ¬ (!(!cal.mask (weekday e) && !cal.hol e)) = true
        rw [he, hmaskS v hsv cal hc, hnohol cal (hbS v hsv cal hc)]; simp
      rw [this]; rfl

end Dates
/-! ### validating constructors -/
section Constructors
variable {α : Type} [OfNat α 0] [OfNat α 1]

omit [OfNat α 0] in
/-- `Dual::try_new` returns a number whose sensitivities match its (de-duplicated) names, or an error. -/
theorem C20_dual_try_new (re : α) (vs : List String) (ds : List α) (d : Dual α)
    (h : Dual.tryNew re vs ds = some d) :
    d.vars = dedup vs ∧ d.dual.length = d.vars.length := by
  unfold Dual.tryNew at h
  simp only at h
  generalize (if ds.isEmpty = true then onesV (dedup vs).length else ds) = d0 at h
  by_cases hne : ((dedup vs).length != d0.length) = true
  · rw [if_pos hne] at h; cases h
  · rw [if_neg hne] at h
    injection h with h
    subst h
    have : (dedup vs).length = d0.length := by simpa using hne
    exact ⟨rfl, this.symm⟩

omit [OfNat α 0] [OfNat α 1] in
theorem reshape_shape (n : Nat) (flat : List α) :
    (Dual2.reshape n flat).length = n ∧ ∀ row ∈ Dual2.reshape n flat, row.length ≤ n := by
  unfold Dual2.reshape
  refine ⟨by simp, ?_⟩
  intro row hrow
  simp only [List.mem_map, List.mem_range] at hrow
  obtain ⟨i, _, rfl⟩ := hrow
  rw [List.length_take]
  exact Nat.min_le_left _ _

/-- `Dual2::try_new`: names, sensitivities and the Hessian's row count agree. -/
theorem C20_dual2_try_new (re : α) (vs : List String) (ds hs : List α) (d : Dual2 α)
    (h : Dual2.tryNew re vs ds hs = some d) :
    d.vars = dedup vs ∧ d.dual.length = d.vars.length ∧ d.dual2.length = d.vars.length := by
  unfold Dual2.tryNew at h
  simp only at h
  generalize (if ds.isEmpty = true then onesV (dedup vs).length else ds) = d0 at h
  by_cases hne : ((dedup vs).length != d0.length) = true
  · rw [if_pos hne] at h; cases h
  · rw [if_neg hne] at h
    have hl : (dedup vs).length = d0.length := by simpa using hne
    by_cases he : hs.isEmpty = true
    · rw [if_pos he] at h
      injection h with h; subst h
      exact ⟨rfl, hl.symm, by simp [zerosM]⟩
    · rw [if_neg he] at h
      by_cases hh : (hs.length != (dedup vs).length * (dedup vs).length) = true
      · rw [if_pos hh] at h; cases h
      · rw [if_neg hh] at h
        injection h with h; subst h
        exact ⟨rfl, hl.symm, (reshape_shape _ _).1⟩

/-- `Dual::try_new_from` (a fresh number on ANOTHER number's variable list): an error, or a number with exactly that
list and as many sensitivities. -/
theorem C20_dual_try_new_from (ov : List String) (re : α) (vs : List String) (ds : List α) (r : Dual α)
    (h : Dual.tryNewFrom ov re vs ds = some r) : r.vars = ov ∧ r.dual.length = r.vars.length := by
  unfold Dual.tryNewFrom at h
  cases hd : Dual.tryNew re vs ds with
  | none => rw [hd] at h; cases h
  | some d =>
    rw [hd] at h; injection h with h; subst h
    have hs := C20_dual_try_new re vs ds d hd
    by_cases hv : varsCmp false d.vars ov = .valEq
    · have e := varsCmp_false_valEq _ _ hv
      simp only [hv, Dual.toNewVars]
      exact ⟨trivial, by rw [← e]; exact hs.2⟩
    · have h1 := varsCmp_false_ne_arcEq d.vars ov
      have : d.toNewVars ov (varsCmp false d.vars ov) = ⟨d.real, ov, ov.map (lookupOrZero d.vars d.dual)⟩ := by
        cases hc : varsCmp false d.vars ov <;> simp_all [Dual.toNewVars]
      rw [this]; exact ⟨rfl, by simp⟩

/-- `Dual2::try_new_from`: an error, or a number with exactly the other list, as many sensitivities and as many
Hessian rows. -/
theorem C20_dual2_try_new_from (ov : List String) (re : α) (vs : List String) (ds hs : List α) (r : Dual2 α)
    (h : Dual2.tryNewFrom ov re vs ds hs = some r) :
    r.vars = ov ∧ r.dual.length = r.vars.length ∧ r.dual2.length = r.vars.length := by
  unfold Dual2.tryNewFrom at h
  cases hd : Dual2.tryNew re vs ds hs with
  | none => rw [hd] at h; cases h
  | some d =>
    rw [hd] at h; injection h with h; subst h
    have hs' := C20_dual2_try_new re vs ds hs d hd
    by_cases hv : varsCmp false d.vars ov = .valEq
    · have e := varsCmp_false_valEq _ _ hv
      simp only [hv, Dual2.toNewVars]
      exact ⟨trivial, by rw [← e]; exact hs'.2.1, by rw [← e]; exact hs'.2.2⟩
    · have h1 := varsCmp_false_ne_arcEq d.vars ov
      have : d.toNewVars ov (varsCmp false d.vars ov) = ⟨d.real, ov, ov.map (lookupOrZero d.vars d.dual),
          ov.map (fun v => ov.map (fun w => lookup2OrZero d.vars d.dual2 v w))⟩ := by
        cases hc : varsCmp false d.vars ov <;> simp_all [Dual2.toNewVars]
      rw [this]; exact ⟨rfl, by simp, by simp⟩

end Constructors

open Load in
/-- `Ccy::try_new`: the stored name is the lower-cased input and has exactly three bytes. -/
theorem C20_ccy_try_new (name c : String) (h : ccyTryNew name = some c) :
    c = lowerStr name ∧ c.utf8ByteSize = 3 :=
  ccy_try_new_spec name c h

open Load in
/-- `FXPair::try_new`: two valid, DISTINCT currencies. -/
theorem C20_fxpair_try_new (l r a b : String) (h : fxPairTryNew l r = some (a, b)) :
    ccyTryNew l = some a ∧ ccyTryNew r = some b ∧ a ≠ b := by
  unfold fxPairTryNew at h
  cases hl : ccyTryNew l with
  | none => simp [hl] at h
  | some x =>
    cases hr : ccyTryNew r with
    | none => simp [hl, hr] at h
    | some y =>
      simp only [hl, hr] at h
      split at h
      · cases h
      · next hne =>
        injection h with h
        injection h with h1 h2
        subst h1; subst h2
        exact ⟨rfl, rfl, hne⟩

open Load in
/-- The stored name of a currency is a fixed point of the constructor: constructing (or loading) a currency from
a stored name gives that same currency, so a saved currency, pair or market names the same currencies when it is
read back. -/
theorem C20_ccy_stored_name_reloads (name c : String) (h : ccyTryNew name = some c) : ccyTryNew c = some c :=
  ccy_stored_reloads name c h

open Load in
/-- `FXPair::try_new` accepts a pair EXACTLY when both codes have three bytes after lower-casing and differ
after lower-casing; in particular two spellings of one currency ("USD"/"usd", "Äb"/"äb") never make a pair. -/
theorem C20_fxpair_accepts_iff (l r : String) :
    (fxPairTryNew l r).isSome ↔
      ((lowerStr l).utf8ByteSize = 3 ∧ (lowerStr r).utf8ByteSize = 3 ∧ lowerStr l ≠ lowerStr r) :=
  fxpair_accepts_iff l r

open Load in
theorem C20_fxpair_self_rejected (l r : String) (h : lowerStr l = lowerStr r) : fxPairTryNew l r = none :=
  fxpair_self_rejected l r h

/-- lower-casing is idempotent (what makes a stored name a fixed point) -/
theorem C20_lower_idempotent (s : String) : lowerStr (lowerStr s) = lowerStr s := lowerStr_idem s

/-! the character table on cased letters inside and outside ASCII, and on uncased neighbours -/
example : lowerChar 'A' = 'a' ∧ lowerChar 'Z' = 'z' ∧ lowerChar '@' = '@' ∧ lowerChar '[' = '[' := by decide
example : lowerChar 'Ä' = 'ä' ∧ lowerChar 'Þ' = 'þ' ∧ lowerChar '×' = '×' ∧ lowerChar 'ß' = 'ß' := by decide
example : lowerChar 'Д' = 'д' ∧ lowerChar 'Ѐ' = 'ѐ' ∧ lowerChar 'Я' = 'я' ∧ lowerChar 'я' = 'я' := by decide

/-- `NamedCal::try_new` has no abort path: every string gives a calendar or an error. -/
theorem C20_named_try_new (table : String → Option Cal) (name : String) :
    (∃ r, namedTryNew table name = .ok r) ∨ namedTryNew table name = .err := by
  unfold namedTryNew
  simp only
  split
  · split
    · exact Or.inr rfl
    · exact Or.inl ⟨_, rfl⟩
  · split
    · exact Or.inr rfl
    · split
      · exact Or.inr rfl
      · exact Or.inl ⟨_, rfl⟩
  · exact Or.inr rfl

section FX
variable {α : Type} [Add α] [Sub α] [Mul α] [Div α] [Neg α] [OfNat α 0] [OfNat α 1] [OfNat α 2]
  [Transc α]

/-- `FXRates::try_new`: a market that is returned has exactly one more currency than quotes, keeps the
quotes it was given, and holds its matrix at the default first order. -/
theorem C20_fxrates_try_new (quotes : List (FXQuote α)) (base : Option String) (f : FXRates α)
    (h : FXRates.tryNew quotes base = .ok f) :
    f.quotes = quotes ∧ f.currencies = fxCurrencies quotes base ∧
    f.currencies.length = f.quotes.length + 1 ∧ f.arr.ad = .one :=
  fxrates_try_new_spec quotes base f h

end FX

/-! ### spline solving -/
section Spline
variable {α : Type} [Add α] [Sub α] [Mul α] [Div α] [Neg α] [OfNat α 0] [OfNat α 1] [OfNat α 2]
  [Transc α]
variable {τ : Type} [ModOps α τ]

omit [OfNat α 2] in
/-- `csolve` returns an error for mismatched lengths and otherwise a spline with the SAME order and
knots and exactly `n` coefficients — whatever the sites and data are (singular, repeated, non-finite:
the solver has no abort path; `argabsmax` orders incomparable magnitudes as equal). -/
theorem C20_csolve (s : PPSpline α τ) (tau : List α) (y : List τ) (l r : Nat) (lsq : Bool) :
    (s.csolve tau y l r lsq = none ↔
      ((tau.length ≠ s.n ∧ ¬ (lsq = true ∧ tau.length > s.n)) ∨ tau.length ≠ y.length)) ∧
    (∀ s', s.csolve tau y l r lsq = some s' →
      s'.k = s.k ∧ s'.t = s.t ∧ ∃ cs, s'.c = some cs ∧ cs.length = s.n) := by
  unfold PPSpline.csolve
  constructor
  · by_cases h1 : (decide (tau.length ≠ s.n) && !(lsq && decide (tau.length > s.n))) = true
    · rw [if_pos h1]
      simp only [true_iff]
      left
      simp only [Bool.and_eq_true, decide_eq_true_eq, Bool.not_eq_true', Bool.and_eq_false_iff,
        decide_eq_false_iff_not] at h1
      refine ⟨h1.1, ?_⟩
      rintro ⟨ha, hb⟩
      rcases h1.2 with h | h
      · simp [ha] at h
      · exact h hb
    · rw [if_neg h1]
      by_cases h2 : tau.length ≠ y.length
      · rw [if_pos h2]; simp [h2]
      · rw [if_neg h2]
        simp only [reduceCtorEq, false_iff, not_or]
        refine ⟨?_, h2⟩
        intro ⟨ha, hb⟩
        apply h1
        simp only [Bool.and_eq_true, decide_eq_true_eq, Bool.not_eq_true', Bool.and_eq_false_iff,
          decide_eq_false_iff_not]
        refine ⟨ha, ?_⟩
        by_cases hl : lsq = true
        · right; intro hgt; exact hb ⟨hl, hgt⟩
        · left; simpa using hl
  · intro s' h
    split at h
    · cases h
    · split at h
      · cases h
      · injection h with h
        subst h
        exact ⟨rfl, rfl, _, rfl, by simp⟩

end Spline

/-! ### loading from JSON text -/
section Loading
open Load

/-- the shape invariants of everything the tagged entry point can return -/
def ShapeOK (table : String → Option Cal) : Loaded → Prop
  | .dual s => s.nvars = s.ndual
  | .dual2 s => s.nvars = s.ndual ∧ s.rows = s.nvars ∧ s.cols = s.nvars
  | .spline _ s => 2 ≤ s.t ∧ s.k ≤ s.t ∧ s.n = s.t - s.k ∧ ∀ l, s.c = some l → l = s.n
  | .fxRates s => s.currencies.length = s.nquotes + 1 ∧ ∀ c ∈ s.currencies, c.utf8ByteSize = 3
  | .namedCal nm => ∃ name u, namedTryNew table name = .ok (nm, u)
  | .cal _ => True
  | .unionCal _ _ => True
  | .curve s => NodesOK s.nodes ∧ s.interpolator ∈ interpolatorNames ∧ s.convention ∈ conventionNames ∧
      s.modifier ∈ modifierNames ∧ s.calendar ∈ ["Cal", "UnionCal", "NamedCal"]

/-- A dual number loaded from ANY JSON tree has as many sensitivities as names. -/
theorem C20_load_dual (j : JVal) (s : DualShape) (h : loadDual j = some s) : s.nvars = s.ndual :=
  load_dual j s h

/-- …and a second-order one also has a square Hessian of that size. -/
theorem C20_load_dual2 (j : JVal) (s : Dual2Shape) (h : loadDual2 j = some s) :
    s.nvars = s.ndual ∧ s.rows = s.nvars ∧ s.cols = s.nvars :=
  load_dual2 j s h

/-- A spline loaded from any JSON tree has at least two knots, `n = len(t) − k`, and `n`
coefficients if it has any (for each of the three coefficient types). -/
theorem C20_load_spline {α : Type} (elem : JVal → Option α) (j : JVal) (s : SplineShape)
    (h : loadSpline elem j = some s) :
    2 ≤ s.t ∧ s.k ≤ s.t ∧ s.n = s.t - s.k ∧ (∀ l, s.c = some l → l = s.n) :=
  load_spline elem j s h

/-- An FX market loaded from any JSON tree has one more currency than quotes, and every currency is
a three-byte code. -/
theorem C20_load_fxrates (j : JVal) (s : FXShape) (h : loadFXRates j = some s) :
    s.currencies.length = s.nquotes + 1 ∧ ∀ c ∈ s.currencies, c.utf8ByteSize = 3 :=
  load_fxrates j s h

/-- A named calendar loaded from any JSON tree is one that `NamedCal::try_new` accepts. -/
theorem C20_load_named (table : String → Option Cal) (j : JVal) (nm : String)
    (h : loadNamedCal table j = some nm) : ∃ name u, namedTryNew table name = .ok (nm, u) :=
  load_named table j nm h

/-- A curve loaded from any JSON tree: every dual-number node passed its validating model (names =
sensitivities, square Hessian), and rule, convention, modifier and calendar kind are ones the library defines.
(There is no further validation: an empty node set loads.) -/
theorem C20_load_curve (table : String → Option Cal) (j : JVal) (s : CurveShape)
    (h : loadCurve table j = some s) :
    NodesOK s.nodes ∧ s.interpolator ∈ interpolatorNames ∧ s.convention ∈ conventionNames ∧
    s.modifier ∈ modifierNames ∧ s.calendar ∈ ["Cal", "UnionCal", "NamedCal"] :=
  load_curve table j s h

/-- THE LOADING THEOREM: for every JSON tree the tagged entry point returns an error or a value
satisfying its type's shape invariants; it has no abort path. -/
theorem C20_load_tagged (table : String → Option Cal) (j : JVal) :
    loadTagged table j = .err ∨ ∃ l, loadTagged table j = .ok l ∧ ShapeOK table l := by
  unfold loadTagged
  cases he : enumOf j with
  | none => exact Or.inl rfl
  | some tv =>
    obtain ⟨tag, v⟩ := tv
    simp only
    repeat' split
    · cases h : loadDual v with
      | none => exact Or.inl rfl
      | some s => exact Or.inr ⟨_, rfl, load_dual v s h⟩
    · cases h : loadDual2 v with
      | none => exact Or.inl rfl
      | some s => exact Or.inr ⟨_, rfl, load_dual2 v s h⟩
    · cases h : loadCal v with
      | none => exact Or.inl rfl
      | some s => exact Or.inr ⟨_, rfl, trivial⟩
    · cases h : loadUnionCal v with
      | none => exact Or.inl rfl
      | some s => exact Or.inr ⟨_, rfl, trivial⟩
    · cases h : loadNamedCal table v with
      | none => exact Or.inl rfl
      | some s => exact Or.inr ⟨_, rfl, load_named table v s h⟩
    · cases h : loadFXRates v with
      | none => exact Or.inl rfl
      | some s => exact Or.inr ⟨_, rfl, load_fxrates v s h⟩
    · cases h : loadSpline asF64 v with
      | none => exact Or.inl rfl
      | some s => exact Or.inr ⟨_, rfl, load_spline _ v s h⟩
    · cases h : loadSpline loadDual v with
      | none => exact Or.inl rfl
      | some s => exact Or.inr ⟨_, rfl, load_spline _ v s h⟩
    · cases h : loadSpline loadDual2 v with
      | none => exact Or.inl rfl
      | some s => exact Or.inr ⟨_, rfl, load_spline _ v s h⟩
    · cases h : loadCurve table v with
      | none => exact Or.inl rfl
      | some s => exact Or.inr ⟨_, rfl, load_curve table v s h⟩
    · exact Or.inl rfl

/-- The per-type entry points (`NamedCal::from_json`, `Cal::from_json`, `UnionCal::from_json`, `FXRates::from_json`,
`serde_json::from_str::<Dual>` …) reach the same derived `Deserialize` as the tagged entry point does through its
variant: a document `body` read as type `tag` is the tagged loader on `{tag: body}` — an error or a value whose
shape invariants hold, for every JSON tree, with no abort path. -/
theorem C20_load_typed (table : String → Option Cal) (tag : String) (body : JVal) :
    loadTagged table (.obj [(tag, body)]) = .err ∨
      ∃ l, loadTagged table (.obj [(tag, body)]) = .ok l ∧ ShapeOK table l :=
  C20_load_tagged table _

end Loading

/-! ### Non-vacuity: concrete documents and calls (these are tests of the model, labelled as such).
A well-formed Dual loads; the shape-invalid one (one name, two sensitivities) passes serde's derive
(`rawDual`) and is refused by the validating data model; duplicated names collapse; a duplicated field is
an error, an unknown one is skipped, the positional form is accepted; splines with a wrong `n` or
unsorted knots are refused; −128 calendar days and a −128 business-day lag are computed. -/
section Examples
open Load
def jOne : JVal := .num ⟨false, 1, 0, true⟩
def jTwo : JVal := .num ⟨false, 2, 0, true⟩
def jNd (dim : JVal) (data : List JVal) : JVal := .obj [("v", jOne), ("dim", .arr [dim]), ("data", .arr data)]
def exDual (names : List JVal) (dim : JVal) (data : List JVal) : JVal :=
  .obj [("real", .num ⟨false, 15, -1, false⟩), ("vars", .arr names), ("dual", jNd dim data)]
example : loadDual (exDual [.str "x"] jOne [jOne]) = some ⟨1, 1⟩ := by decide
example : rawDual (exDual [.str "x"] jTwo [jOne, jTwo]) = some ⟨1, 2⟩ ∧
    loadDual (exDual [.str "x"] jTwo [jOne, jTwo]) = none := by decide
example : rawDual (exDual [.str "x", .str "x"] jTwo [jOne, jTwo]) = some ⟨1, 2⟩ := by decide
example : loadDual (exDual [.str "x"] jTwo [jOne]) = none := by decide
example : loadDual (.obj [("real", jOne), ("real", jOne), ("vars", .arr []), ("dual", jNd (.num ⟨false, 0, 0, true⟩) [])]) = none := by decide
example : loadDual (.obj [("extra", .null), ("real", jOne), ("vars", .arr []), ("dual", jNd (.num ⟨false, 0, 0, true⟩) [])]) = some ⟨0, 0⟩ := by decide
example : loadDual (.arr [jOne, .arr [], jNd (.num ⟨false, 0, 0, true⟩) []]) = some ⟨0, 0⟩ := by decide
def exCurve (key : String) (conv : JVal) : JVal :=
  .obj [("inner", .obj [("nodes", .obj [("F64", .obj [("0", jOne), (key, jTwo), ("0", jTwo)])]),
    ("interpolator", .obj [("Linear", .obj [])]), ("id", .str "c"), ("convention", conv),
    ("modifier", .obj [("ModF", .null)]), ("index_base", .null),
    ("calendar", .obj [("Cal", .obj [("holidays", .arr []), ("week_mask", .arr [])])])])]
/-- a curve document loads (repeated key collapses, unit variants in both spellings); a key that is not an
`i64` literal, or an unknown convention, is an error -/
example : (loadCurve (fun _ => none) (exCurve "86400" (.str "Act360"))).map (fun s => (s.nodes, s.convention))
    = some (.f64 2, "Act360") := by decide +kernel
example : loadCurve (fun _ => none) (exCurve "086400" (.str "Act360")) = none := by decide +kernel
example : loadCurve (fun _ => none) (exCurve "-0" (.str "Act360")) = none := by decide +kernel
example : loadCurve (fun _ => none) (exCurve "9223372036854775808" (.str "Act360")) = none := by decide +kernel
example : loadCurve (fun _ => none) (exCurve "1" (.str "Act361")) = none := by decide +kernel
def exSpline (n : JVal) (t : List JVal) : JVal :=
  .obj [("inner", .obj [("k", jTwo), ("t", .arr t), ("c", .null), ("n", n)])]
example : loadSpline asF64 (exSpline jOne [jOne, jOne, jTwo]) = some ⟨2, 3, 1, none⟩ := by decide
example : loadSpline asF64 (exSpline jTwo [jOne, jOne, jTwo]) = none := by decide
example : loadSpline asF64 (exSpline jOne [jOne, jTwo, jOne]) = none := by decide
example : loadTagged (fun _ => none) (.obj [("Dual", exDual [.str "x"] jOne [jOne])]) = .ok (.dual ⟨1, 1⟩) := by decide
example : exCal5.addDays 50 19810 (-128) .p false = .ok (some 19682) := by decide
example : exCal5.lag 50 19812 (-128) false = .ok (exCal5.stepBwd 50 127 19810) := by decide +kernel
end Examples

end Rateslib
