/-
C13  The linear solver returns the true solution together with its derivatives.

`dsolve21` is the model of `dsolve21_` (forward elimination with partial pivoting, explicit zeroing,
back substitution).  The soundness theorem is proved over ANY commutative ring with a division
operation: all it needs is that every pivot `p` actually divided by satisfies `x / p * p = x`.
  * In a field that is `p ≠ 0` (`C13_sound_field`); the solution is then also the ONLY one
    (`C13_complete`).
  * Over an ordered field (ℝ) with the code's magnitude comparison, a system with EXACTLY ONE solution
    never meets a zero pivot, so the solver returns that solution (`C13_nonsingular`): if the current
    column were zero from the diagonal down, the partially eliminated matrix would have a kernel vector.
  * In the ring of dual numbers `ℝ[ε]/(ε²)` (value, derivative), `Mathlib`'s `TrivSqZeroExt ℝ ℝ`, `Good` is
    "the VALUE of the pivot is non-zero" (`C13_sound_dual_numbers`).
  * LIST-LEVEL numbers, DUAL-NUMBER MATRIX (`C13_dual_matrix_refines`, `C13_dual_matrix`;
    Proofs/LinHom.lean): the generic solver commutes with every homomorphism of its arithmetic, pivot
    choices included; the (value, sensitivity-to-`v`) projection of list-level first-order numbers is one
    (any layouts, any variable tagging), so the list-level answer projects onto the ring-level answer, and
    `A x = b` holds in value and in the first derivative w.r.t. every variable name carried by `A` or `b`,
    as soon as the VALUE system is regular.
  * SECOND ORDER (`C13_dual2_matrix_refines`, `C13_dual2_matrix`; Proofs/Jet2Ring.lean): the same with the
    directional 2-jets `ℝ[ε]/(ε³)` along every direction `α·e_v + β·e_w`: `A x = b` holds as an identity of
    2-jets, i.e. in value, all first and all second derivatives.
  * FLOAT MATRIX, dual right-hand side (`C13_dual_rhs`, `C13_dual2_rhs`, the code path of `fdsolve`): values
    and sensitivities of the answer are the answers for the values and sensitivities of the data (the
    solver is linear in the right-hand side; Proofs/FLinear.lean).
  * LEAST SQUARES (`C13_lsq`, `C13_lsq_refines`): normal equations, and the same refinement.
-/
import RateslibModel.Proofs.Gauss4
import RateslibModel.Analysis.RealInst
import RateslibModel.Proofs.FLinearInst
import RateslibModel.Proofs.SplineDeriv
import RateslibModel.Proofs.SplineRepro
import RateslibModel.Proofs.Jet2Ring
import Mathlib.Algebra.TrivSqZeroExt.Basic
import Mathlib.Data.Real.Basic
namespace Rateslib
open Finset

section Ring
variable {R : Type} [CommRing R] [Div R] (ge : R → R → Bool)

/-- Soundness over any commutative ring with division: if every pivot met can be divided by, the
returned vector satisfies `A x = b` (row by row), whatever the pivot-comparison function is. -/
theorem C13_sound (n : Nat) (s : Sys R) (hp : PivotsGood ge n (List.range n) s) :
    ∀ r, r < n → ∑ c ∈ range n, s.a r c * (@dsolve21 R (ringLinOps ge) n s) c = s.b r :=
  dsolve21_sound ge n s hp

theorem dotOver_range (k : Nat) (f g : Nat → R) :
    @dotOver R (ringLinOps ge) (List.range k) f g = ∑ r ∈ range k, f r * g r := by
  rw [dotOver_eq, List.range_eq_range', sum_range', Nat.zero_add, Finset.range_eq_Ico]

/-- With least squares allowed the same holds for the normal equations `(AᵀA) x = Aᵀ b`. -/
theorem C13_lsq (rows n : Nat) (s : Sys R)
    (hp : PivotsGood ge n (List.range n)
      ⟨fun i j => @dotOver R (ringLinOps ge) (List.range rows) (fun r => s.a r i) (fun r => s.a r j),
       fun i => @dotOver R (ringLinOps ge) (List.range rows) (fun r => s.a r i) s.b⟩) :
    ∀ i, i < n →
      ∑ j ∈ range n, (∑ r ∈ range rows, s.a r i * s.a r j) * (@dsolve R (ringLinOps ge) rows n s true) j
        = ∑ r ∈ range rows, s.a r i * s.b r := by
  intro i hi
  have h := dsolve21_sound ge n _ hp i hi
  unfold rowDot at h
  simp only [dotOver_range] at h
  have hd : @dsolve R (ringLinOps ge) rows n s true
      = @dsolve21 R (ringLinOps ge) n
          ⟨fun i j => @dotOver R (ringLinOps ge) (List.range rows) (fun r => s.a r i) (fun r => s.a r j),
           fun i => @dotOver R (ringLinOps ge) (List.range rows) (fun r => s.a r i) s.b⟩ := by
    simp only [dsolve, if_true]
  rw [hd]
  simp only [dotOver_range]
  exact h

/-- Row order of the system does not change the solution set; hence, when the solution is unique, it
does not change the answer. -/
theorem C13_row_order_irrelevant (n : Nat) (s : Sys R) (σ : Nat → Nat)
    (hσ : ∀ r, r < n → σ r < n) (hsurj : ∀ r, r < n → ∃ r', r' < n ∧ σ r' = r)
    (huniq : ∀ x y : Nat → R, Sol n s x → Sol n s y → ∀ c, c < n → x c = y c)
    (hp1 : PivotsGood ge n (List.range n) s)
    (hp2 : PivotsGood ge n (List.range n) ⟨fun r => s.a (σ r), fun r => s.b (σ r)⟩) :
    ∀ c, c < n → (@dsolve21 R (ringLinOps ge) n ⟨fun r => s.a (σ r), fun r => s.b (σ r)⟩) c
      = (@dsolve21 R (ringLinOps ge) n s) c := by
  have h1 := dsolve21_sound ge n s hp1
  have h2 := dsolve21_sound ge n _ hp2
  apply huniq _ _ ?_ h1
  intro r hr
  obtain ⟨r', hr', rfl⟩ := hsurj r hr
  exact h2 r' hr'

end Ring

/-- In a field every non-zero pivot can be divided by. -/
theorem C13_good_field {K : Type} [Field K] (p : K) (hp : p ≠ 0) : Good p :=
  fun x => div_mul_cancel₀ x hp

theorem C13_sound_field {K : Type} [Field K] (ge : K → K → Bool) (n : Nat) (s : Sys K)
    (hp : PivotsGood ge n (List.range n) s) :
    ∀ r, r < n → ∑ c ∈ range n, s.a r c * (@dsolve21 K (ringLinOps ge) n s) c = s.b r :=
  C13_sound ge n s hp

/-- NON-SINGULAR SYSTEMS: over an ordered field, with the code's pivot rule (largest magnitude in the
column from the diagonal down), a system that has exactly one solution never divides by zero, and the
value returned is that solution. -/
theorem C13_nonsingular {K : Type} [Field K] [LinearOrder K] [IsStrictOrderedRing K] (n : Nat) (s : Sys K)
    (hex : ∃ x0, Sol n s x0) (huniq : ∀ x y, Sol n s x → Sol n s y → ∀ c, c < n → x c = y c) :
    PivotsGood absGeK n (List.range n) s ∧
    (∀ r, r < n → ∑ c ∈ range n, s.a r c * (@dsolve21 K (ringLinOps absGeK) n s) c = s.b r) ∧
    (∀ x, Sol n s x → ∀ c, c < n → x c = (@dsolve21 K (ringLinOps absGeK) n s) c) := by
  have hp : PivotsGood absGeK n (List.range n) s := by
    rw [List.range_eq_range']
    exact pivots_good_of_unique n n 0 s (by omega) (fun r c hc _ _ => by omega) (fun i hi => by omega)
      hex huniq
  have hs := dsolve21_sound absGeK n s hp
  exact ⟨hp, hs, fun x hx c hc => huniq x _ hx hs c hc⟩

/-- at `K = ℝ` the comparison of the theorem is the comparison the model's scalar instance uses -/
theorem C13_absGe_real (x y : ℝ) : @LinOps.absGe ℝ linOpsScalar x y = absGeK x y := by
  have habs : ∀ t : ℝ, absS t = |t| := by
    intro t
    unfold absS
    by_cases h : t < 0
    · have : Transc.ltb t 0 = true := decide_eq_true h
      rw [if_pos this, abs_of_neg h]
    · have : Transc.ltb t 0 = false := decide_eq_false h
      rw [this]; simp only [Bool.false_eq_true, if_false]
      exact (abs_of_nonneg (not_lt.mp h)).symm
  show (!Transc.ltb (absS x) (absS y)) = absGeK x y
  rw [habs, habs]
  unfold absGeK
  show (!decide (|x| < |y|)) = decide (|y| ≤ |x|)
  by_cases h : |x| < |y|
  · simp [h, not_le.mpr h]
  · simp [h, not_lt.mp h]

/-! ### dual numbers: the solution carries the true first derivative -/

/-- a dual number whose VALUE is non-zero can be divided by (division as the code performs it:
multiplication by the reciprocal, `tszDiv` of Proofs/LinHom.lean) -/
theorem C13_good_dual_number (p : TrivSqZeroExt ℝ ℝ) (hp : p.fst ≠ 0) : Good p := good_tsz p hp

/-- `A x = b` holds in the ring of dual numbers — i.e. in value and in first derivative along any
direction — whenever the pivots' values are non-zero. -/
theorem C13_sound_dual_numbers (ge : TrivSqZeroExt ℝ ℝ → TrivSqZeroExt ℝ ℝ → Bool) (n : Nat)
    (s : Sys (TrivSqZeroExt ℝ ℝ)) (hp : PivotsGood ge n (List.range n) s) :
    ∀ r, r < n → ∑ c ∈ range n, s.a r c * (@dsolve21 _ (ringLinOps ge) n s) c = s.b r :=
  C13_sound ge n s hp

open Rateslib.Dual in
/-- Float matrix, first-order dual-number right-hand side (any layouts): the list-level solver's answer
is well-formed; its values are the solver's answer for the VALUES of the data, and its sensitivity to
every variable name `v` is the solver's answer for the data's SENSITIVITIES to `v`.  With `C13_nonsingular`
both are the true solutions, i.e. `A x = b` holds in value and in every first derivative carried by `b`. -/
theorem C13_dual_rhs (n : Nat) (a : Nat → Nat → ℝ) (b : Nat → Dual ℝ) (hb : ∀ i, (b i).WF)
    (v : String) (r : Nat) :
    (fdsolve21 (α := ℝ) n ⟨a, b⟩ r).WF ∧
    (fdsolve21 (α := ℝ) n ⟨a, b⟩ r).real = fdsolve21 (α := ℝ) (σ := ℝ) n ⟨a, fun i => (b i).real⟩ r ∧
    den (fdsolve21 (α := ℝ) n ⟨a, b⟩ r) v = fdsolve21 (α := ℝ) (σ := ℝ) n ⟨a, fun i => den (b i) v⟩ r :=
  fdsolve21_dual_rhs n a b hb v r


/-! ### dual-number matrices, list level -/
section DualMatrix
open Rateslib.Dual Expr

/-- the comparison of the theorems below is the one the model's own float instance uses, and it is the
magnitude comparison of `C13_nonsingular` -/
theorem C13_geR (x y : ℝ) : @LinOps.absGe ℝ linOpsScalar x y = geR x y ∧ geR x y = absGeK x y :=
  ⟨rfl, C13_absGe_real x y⟩

/-- COMPLETENESS (any field): if the elimination meets no zero pivot, EVERY solution of the system is the
returned one. -/
theorem C13_complete {K : Type} [Field K] (ge : K → K → Bool) (n : Nat) (s : Sys K)
    (hp : PivotsGood ge n (List.range n) s) (x : Nat → K) (hx : Sol n s x) :
    ∀ c, c < n → x c = @dsolve21 K (ringLinOps ge) n s c :=
  dsolve21_unique ge n s hp x hx

/-- DUAL-NUMBER MATRIX AND RIGHT-HAND SIDE, list level, any layouts: for every variable name `v`, the
(value, sensitivity-to-`v`) pairs of the list-level solver's answer ARE the answer of the same elimination
(same pivot choices) run in the ring of dual numbers on the (value, sensitivity) pairs of the data. -/
theorem C13_dual_matrix_refines (v : String) (n : Nat) (s : Sys (Dual ℝ))
    (ha : ∀ r c, (s.a r c).WF) (hb : ∀ r, (s.b r).WF) (r : Nat) :
    (@dsolve21 (Dual ℝ) linOpsDual n s r).WF ∧
    jetT v (@dsolve21 (Dual ℝ) linOpsDual n s r)
      = @dsolve21 (TrivSqZeroExt ℝ ℝ) linOpsT n
          ⟨fun r c => jetT v (s.a r c), fun r => jetT v (s.b r)⟩ r :=
  dsolve21_dual_refines v n s ha hb r

/-- … hence, if the elimination on the VALUES meets no zero pivot (a uniquely solvable value system,
`C13_nonsingular`), `A x = b` holds in value AND in the first derivative with respect to every variable
name carried by `A` or `b`. -/
theorem C13_dual_matrix (v : String) (n : Nat) (s : Sys (Dual ℝ))
    (ha : ∀ r c, (s.a r c).WF) (hb : ∀ r, (s.b r).WF)
    (hp : PivotsGood geR n (List.range n) ⟨fun r c => (s.a r c).real, fun r => (s.b r).real⟩) :
    ∀ r, r < n →
      (∑ c ∈ range n, (s.a r c).real * (@dsolve21 (Dual ℝ) linOpsDual n s c).real = (s.b r).real) ∧
      (∑ c ∈ range n, ((s.a r c).real * den (@dsolve21 (Dual ℝ) linOpsDual n s c) v
          + den (s.a r c) v * (@dsolve21 (Dual ℝ) linOpsDual n s c).real) = den (s.b r) v) :=
  dual_matrix_solution v n s ha hb hp

/-- SECOND ORDER: along every direction `α·e_v + β·e_w` the 2-jets of the list-level answer are the answer
of the same elimination in the ring of 2-jets `ℝ[ε]/(ε³)`. -/
theorem C13_dual2_matrix_refines (α β : ℝ) (v w : String) (n : Nat) (s : Sys (Dual2 ℝ))
    (ha : ∀ r c, (s.a r c).WF) (hb : ∀ r, (s.b r).WF) (r : Nat) :
    (@dsolve21 (Dual2 ℝ) linOpsDual2 n s r).WF ∧
    dirJet α β v w (@dsolve21 (Dual2 ℝ) linOpsDual2 n s r)
      = @dsolve21 J2 linOpsJ n
          ⟨fun r c => dirJet α β v w (s.a r c), fun r => dirJet α β v w (s.b r)⟩ r :=
  dsolve21_dual2_refines α β v w n s ha hb r

/-- … hence, for a regular value system, `A x = b` as an identity of 2-jets along EVERY direction: in
value, in every first and in every second derivative carried by `A` or `b`. -/
theorem C13_dual2_matrix (α β : ℝ) (v w : String) (n : Nat) (s : Sys (Dual2 ℝ))
    (ha : ∀ r c, (s.a r c).WF) (hb : ∀ r, (s.b r).WF)
    (hp : PivotsGood geR n (List.range n) ⟨fun r c => (s.a r c).real, fun r => (s.b r).real⟩) :
    ∀ r, r < n →
      ∑ c ∈ range n, dirJet α β v w (s.a r c) * dirJet α β v w (@dsolve21 (Dual2 ℝ) linOpsDual2 n s c)
        = dirJet α β v w (s.b r) :=
  dual2_matrix_solution α β v w n s ha hb hp

/-- LEAST SQUARES: the normal-equations branch refines in the same way (first order shown). -/
theorem C13_lsq_refines (v : String) (rows n : Nat) (s : Sys (Dual ℝ))
    (ha : ∀ r c, (s.a r c).WF) (hb : ∀ r, (s.b r).WF) (lsq : Bool) (r : Nat) :
    (@dsolve (Dual ℝ) linOpsDual rows n s lsq r).WF ∧
    jetT v (@dsolve (Dual ℝ) linOpsDual rows n s lsq r)
      = @dsolve (TrivSqZeroExt ℝ ℝ) linOpsT rows n
          ⟨fun r c => jetT v (s.a r c), fun r => jetT v (s.b r)⟩ lsq r :=
  @dsolve_hom _ _ linOpsDual linOpsT _ _ (jetT_linHom v) rows n s _
    ⟨fun r c => ⟨ha r c, rfl⟩, fun r => ⟨hb r, rfl⟩⟩ lsq r

/-- FLOAT MATRIX, SECOND-order right-hand side: values, first-order and (half) second-order sensitivities
of the answer are the answers for the corresponding projections of the data. -/
theorem C13_dual2_rhs (n : Nat) (a : Nat → Nat → ℝ) (b : Nat → Dual2 ℝ) (hb : ∀ i, (b i).WF)
    (v w : String) (r : Nat) :
    (fdsolve21 (α := ℝ) n ⟨a, b⟩ r).WF ∧
    (fdsolve21 (α := ℝ) n ⟨a, b⟩ r).real = fdsolve21 (α := ℝ) (σ := ℝ) n ⟨a, fun i => (b i).real⟩ r ∧
    Dual2.den (fdsolve21 (α := ℝ) n ⟨a, b⟩ r) v
      = fdsolve21 (α := ℝ) (σ := ℝ) n ⟨a, fun i => Dual2.den (b i) v⟩ r ∧
    Dual2.den2 (fdsolve21 (α := ℝ) n ⟨a, b⟩ r) v w
      = fdsolve21 (α := ℝ) (σ := ℝ) n ⟨a, fun i => Dual2.den2 (b i) v w⟩ r :=
  fdsolve21_dual2_rhs n a b hb v w r

end DualMatrix

/-! Non-vacuity: a 2×2 rational system whose first pivot needs a row swap (0x + 2y = 2, 4x + y = 9). -/
def exSys : Sys ℚ :=
  ⟨fun r c => if r = 0 then (if c = 0 then 0 else 2) else (if c = 0 then 4 else 1), fun r => if r = 0 then 2 else 9⟩
example : (@dsolve21 ℚ (ringLinOps fun x y => decide (|x| ≥ |y|)) 2 exSys 0,
           @dsolve21 ℚ (ringLinOps fun x y => decide (|x| ≥ |y|)) 2 exSys 1) = (2, 1) := by decide +kernel
example : Good (4 : ℚ) := C13_good_field 4 (by norm_num)

end Rateslib
