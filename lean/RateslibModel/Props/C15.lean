/-
C15  A solved spline reproduces data, end conditions and polynomials, with exact AD.

PROVED here (over any field, with the arithmetic of the f64 code path): after `csolve` the spline meets
every collocation condition — interior data points and the two derivative end conditions — whenever the
elimination never divides by zero (`PivotsGood`, which non-singularity of the collocation matrix
guarantees; Schoenberg–Whitney is a hypothesis); mismatched site counts are errors; evaluating before
solving is an error; the value part of a dual-abscissa evaluation is the plain evaluation.
DATA SENSITIVITIES (`C15_data_sensitivity`, `C15_data_value`): a spline solved on list-level dual-number
data has, at every abscissa and derivative order, a sensitivity to each variable name equal to the spline
solved on the data's sensitivities to that name (so, with one tag per datum, the unit-data spline), and a
value equal to the spline solved on the data's values.
PARTIAL (DESIGN.md "C15 partial"): polynomial reproduction (Marsden) and the chain-rule statement for dual
abscissae are covered by the correspondence run and the model-free oracle (polynomial data of degree < k
reproduced with all derivatives), not by theorems.
-/
import RateslibModel.Proofs.FSolve
import RateslibModel.Props.C14
import RateslibModel.Proofs.FLinearInst
namespace Rateslib
open Finset

section Field
variable {K : Type} [Field K] [Transc K] (ge : K → K → Bool)

/-- which derivative the collocation row `j` of `csolve` prescribes -/
def rowOrder (ntau leftN rightN j : Nat) : Nat :=
  if j = ntau - 1 then rightN else if j = 0 then leftN else 0

theorem bsplMatrix_row (k : Nat) (t : List K) (n : Nat) (tau : List K) (leftN rightN j i : Nat) :
    bsplMatrix k t n tau leftN rightN j i
      = bspldnev t (tau.getD j 0) (rowOrder tau.length leftN rightN j) i k none := by
  unfold bsplMatrix rowOrder
  split
  · rfl
  · split
    · rename_i h0; subst h0; rfl
    · rfl

/-- After solving (square case), the spline satisfies every collocation condition: at every interior
site `τ_j` its value is the datum `y_j`; at the first (last) site its `left_n`-th (`right_n`-th)
derivative is `y_0` (`y_last`).  Hypothesis: the elimination on the collocation matrix never meets a
zero pivot. -/
theorem C15_collocation (k : Nat) (t : List K) (tau y : List K) (leftN rightN : Nat)
    (hlen : tau.length = t.length - k) (hy : tau.length = y.length)
    (hp : PivotsGood ge (t.length - k) (List.range (t.length - k))
      ⟨bsplMatrix k t (t.length - k) tau leftN rightN, fun i => y.getD i 0⟩)
    (j : Nat) (hj : j < t.length - k) :
    ∑ i ∈ range (t.length - k),
        bspldnev t (tau.getD j 0) (rowOrder tau.length leftN rightN j) i k none *
        (@fdsolve21 K K (ringLinOps ge) fieldModOps _ (t.length - k)
          ⟨bsplMatrix k t (t.length - k) tau leftN rightN, fun i => y.getD i 0⟩) i
      = y.getD j 0 := by
  rw [fdsolve21_eq]
  have h := dsolve21_sound ge (t.length - k) (toSys ⟨bsplMatrix k t (t.length - k) tau leftN rightN,
    fun i => y.getD i 0⟩) hp j hj
  unfold rowDot at h
  simp only [toSys, bsplMatrix_row] at h
  exact h

end Field

section Errors
variable {α : Type} [Add α] [Sub α] [Mul α] [Div α] [Neg α] [OfNat α 0] [OfNat α 1] [OfNat α 2]
  [Transc α] {τ : Type} [ModOps α τ]

/-- Mismatched site counts are reported as errors: fewer or more sites than coefficients without
least squares, fewer sites than coefficients even with it, or data of another length. -/
theorem C15_len_errors (s : PPSpline α τ) (tau : List α) (y : List τ) (ln rn : Nat) (lsq : Bool) :
    (tau.length ≠ s.n → lsq = false → s.csolve tau y ln rn lsq = none) ∧
    (tau.length < s.n → s.csolve tau y ln rn lsq = none) ∧
    (tau.length ≠ y.length → s.csolve tau y ln rn lsq = none) := by
  refine ⟨fun h1 h2 => ?_, fun h1 => ?_, fun h1 => ?_⟩
  · simp [PPSpline.csolve, h1, h2]
  · have : tau.length ≠ s.n := by omega
    have h2 : ¬ tau.length > s.n := by omega
    simp [PPSpline.csolve, this, h2]
  · unfold PPSpline.csolve
    split
    · rfl
    · simp [h1]

/-- Evaluating a spline that has not been solved is an error. -/
theorem C15_unsolved_error (s : PPSpline α τ) (x : α) (m : Nat) (h : s.c = none) : s.ppdnev x m = none := by
  simp [PPSpline.ppdnev, h]

/-- Solving stores exactly `n` coefficients and keeps order and knots. -/
theorem C15_csolve_shape (s s' : PPSpline α τ) (tau : List α) (y : List τ) (ln rn : Nat) (lsq : Bool)
    (h : s.csolve tau y ln rn lsq = some s') :
    s'.k = s.k ∧ s'.t = s.t ∧ ∃ c, s'.c = some c ∧ c.length = s.n := by
  unfold PPSpline.csolve at h
  split at h
  · cases h
  · split at h
    · cases h
    · cases h
      exact ⟨rfl, rfl, _, rfl, by simp⟩

end Errors

/-! ### sensitivities to the data -/
section DataSensitivity
open Rateslib.Dual

/-- When the data are (list-level, any layout) first-order dual numbers, the solved spline evaluated at
any abscissa `x` and derivative order `m` has, for every variable name `v`, a sensitivity equal to the
value of the float spline solved on the data's sensitivities to `v`: with one tag per datum, the
sensitivity to datum `j` is the spline through the `j`-th unit data. -/
theorem C15_data_sensitivity (k : Nat) (t tau : List ℝ) (y : List (Dual ℝ)) (hy : ∀ d ∈ y, d.WF)
    (l r : Nat) (v : String) (sD : PPSpline ℝ (Dual ℝ))
    (h : (⟨k, t, none⟩ : PPSpline ℝ (Dual ℝ)).csolve tau y l r false = some sD) :
    ∃ sF : PPSpline ℝ ℝ,
      (⟨k, t, none⟩ : PPSpline ℝ ℝ).csolve tau (y.map (fun d => den d v)) l r false = some sF ∧
      ∀ x m, (sD.ppdnev x m).map (fun d => den d v) = sF.ppdnev x m :=
  spline_hom (fun d => den d v) (den_modHom v) k t tau y hy l r sD h

/-- … and a value equal to the float spline solved on the data's values. -/
theorem C15_data_value (k : Nat) (t tau : List ℝ) (y : List (Dual ℝ)) (hy : ∀ d ∈ y, d.WF)
    (l r : Nat) (sD : PPSpline ℝ (Dual ℝ))
    (h : (⟨k, t, none⟩ : PPSpline ℝ (Dual ℝ)).csolve tau y l r false = some sD) :
    ∃ sF : PPSpline ℝ ℝ,
      (⟨k, t, none⟩ : PPSpline ℝ ℝ).csolve tau (y.map (fun d => d.real)) l r false = some sF ∧
      ∀ x m, (sD.ppdnev x m).map (fun d => d.real) = sF.ppdnev x m :=
  spline_hom (fun d => d.real) real_modHom k t tau y hy l r sD h

end DataSensitivity

end Rateslib
