/-
C15  A solved spline reproduces data, end conditions and polynomials, with exact AD.

COLLOCATION (over any field, with the arithmetic of the f64 code path): after `csolve` the spline meets every
collocation condition — interior data points and the two derivative end conditions — whenever the
elimination never divides by zero (`PivotsGood`, which non-singularity of the collocation matrix
guarantees, `C13_nonsingular`; Schoenberg–Whitney is a hypothesis); mismatched site counts are errors;
evaluating before solving is an error.
POLYNOMIAL REPRODUCTION (`C15_polynomials_are_splines`, `C15_polynomial_reproduction`; Proofs/Marsden.lean,
Proofs/SplineRepro.lean): by Marsden's identity every polynomial of degree below the order is a spline on
the whole domain, and — since a system whose elimination meets no zero pivot has exactly one solution
(`C15_solver_complete`) — a spline solved on data taken from such a polynomial (values at interior sites,
the prescribed derivatives at the end sites) equals it, with ALL derivatives, everywhere in the domain,
knots and both end points included.
DERIVATIVES OF THE SPLINE (`C15_spline_derivative`, `C15_spline_derivative_right_end`): the order-`(m+1)`
evaluation is the right derivative of the order-`m` evaluation (left derivative at the right end point).
DUAL-NUMBER ABSCISSAE (`C15_dual_abscissa`, `C15_dual2_abscissa`, `C15_dual_abscissa_dual_coeffs`,
`C15_dual2_abscissa_dual2_coeffs`): value = plain evaluation; first-order sensitivities `S'(x)·∂x`;
stored second-order sensitivities `S'(x)·½∂²x + ½S''(x)·∂x∂x`; with dual-number coefficients additionally the
product rule (first order by names; second order as 2-jets along every direction).
DATA SENSITIVITIES (`C15_data_sensitivity`, `C15_data_value`, `C15_data_sensitivity2`): a spline solved on
list-level dual-number data has, at every abscissa and derivative order, a sensitivity to each variable name
equal to the spline solved on the data's sensitivities to that name (so, with one tag per datum, the
unit-data spline), a value equal to the spline solved on the data's values, and (second-order data) second
sensitivities equal to the spline solved on the data's second sensitivities.
LEAST SQUARES (`C15_polynomial_reproduction_lsq`): with at least as many sites as coefficients and least squares
allowed, the normal equations built from polynomial data are solved by Marsden's coefficients, so — full
column rank, i.e. no zero pivot in THEIR elimination — the solved spline again equals the polynomial with all
derivatives.  `C15_polynomial_reproduction_unique`: the same from UNIQUENESS of the interpolation problem alone
(a solution exists — Marsden's — and a uniquely solvable system meets no zero pivot).
-/
import RateslibModel.Proofs.FSolve
import RateslibModel.Props.C14
import RateslibModel.Proofs.FLinearInst
import RateslibModel.Proofs.SplineRepro
import RateslibModel.Proofs.Jet2Ring
namespace Rateslib
open Finset

section Field
variable {K : Type} [Field K] [Transc K] (ge : K → K → Bool)

/-- After solving (square case), the spline satisfies every collocation condition: at every interior
site `τ_j` its value is the datum `y_j`; at the first (last) site its `left_n`-th (`right_n`-th)
derivative is `y_0` (`y_last`).  Hypothesis: the elimination on the collocation matrix never meets a
zero pivot. -/
theorem C15_collocation (k : Nat) (t : List K) (tau y : List K) (leftN rightN : Nat)
    (hlen : tau.length = t.length - k) (hy : tau.length = y.length)
    (hp : PivotsGood ge (t.length - k) (List.range (t.length - k))
      ⟨bsplMatrix k t (t.length - k) tau leftN rightN, fun i => y.getD i 0⟩)
    (j : Nat) (hj : j < t.length - k) :
    ∑ i ∈ range (t.length - k),
        bspldnev t (tau.getD j 0) (rowOrder tau.length leftN rightN j) i k none *
        (@fdsolve21 K K (ringLinOps ge) fieldModOps _ (t.length - k)
          ⟨bsplMatrix k t (t.length - k) tau leftN rightN, fun i => y.getD i 0⟩) i
      = y.getD j 0 := by
  rw [fdsolve21_eq]
  have h := dsolve21_sound ge (t.length - k) (toSys ⟨bsplMatrix k t (t.length - k) tau leftN rightN,
    fun i => y.getD i 0⟩) hp j hj
  unfold rowDot at h
  simp only [toSys, bsplMatrix_row] at h
  exact h

end Field

section Errors
variable {α : Type} [Add α] [Sub α] [Mul α] [Div α] [Neg α] [OfNat α 0] [OfNat α 1] [OfNat α 2]
  [Transc α] {τ : Type} [ModOps α τ]

/-- Mismatched site counts are reported as errors: fewer or more sites than coefficients without
least squares, fewer sites than coefficients even with it, or data of another length. -/
theorem C15_len_errors (s : PPSpline α τ) (tau : List α) (y : List τ) (ln rn : Nat) (lsq : Bool) :
    (tau.length ≠ s.n → lsq = false → s.csolve tau y ln rn lsq = none) ∧
    (tau.length < s.n → s.csolve tau y ln rn lsq = none) ∧
    (tau.length ≠ y.length → s.csolve tau y ln rn lsq = none) := by
  refine ⟨fun h1 h2 => ?_, fun h1 => ?_, fun h1 => ?_⟩
  · simp [PPSpline.csolve, h1, h2]
  · have : tau.length ≠ s.n := by omega
    have h2 : ¬ tau.length > s.n := by omega
    simp [PPSpline.csolve, this, h2]
  · unfold PPSpline.csolve
    split
    · rfl
    · simp [h1]

/-- Evaluating a spline that has not been solved is an error. -/
theorem C15_unsolved_error (s : PPSpline α τ) (x : α) (m : Nat) (h : s.c = none) : s.ppdnev x m = none := by
  simp [PPSpline.ppdnev, h]

/-- Solving stores exactly `n` coefficients and keeps order and knots. -/
theorem C15_csolve_shape (s s' : PPSpline α τ) (tau : List α) (y : List τ) (ln rn : Nat) (lsq : Bool)
    (h : s.csolve tau y ln rn lsq = some s') :
    s'.k = s.k ∧ s'.t = s.t ∧ ∃ c, s'.c = some c ∧ c.length = s.n := by
  unfold PPSpline.csolve at h
  split at h
  · cases h
  · split at h
    · cases h
    · cases h
      exact ⟨rfl, rfl, _, rfl, by simp⟩

end Errors


/-! ### derivatives of the spline, dual-number abscissae -/
section Abscissa
open Rateslib.Dual

/-- THE SPLINE'S DERIVATIVES, from the right: strictly before the last knot, the order-`(m+1)` evaluation of
a solved spline is the right derivative of its order-`m` evaluation. -/
theorem C15_spline_derivative (s : PPSpline ℝ ℝ) (c : List ℝ) (hc : s.c = some c) (hs : SortedKnots s.t)
    (x : ℝ) (hx : x < knot s.t (s.t.length - 1)) (m : Nat) :
    ∃ (f : ℝ → ℝ) (f' : ℝ), (∀ y, s.ppdnev y m = some (f y)) ∧ s.ppdnev x (m + 1) = some f' ∧
      HasDerivWithinAt f f' (Set.Ici x) x :=
  ppdnev_right_deriv s c hc hs x hx m

/-- … and from the left at the right end point. -/
theorem C15_spline_derivative_right_end (s : PPSpline ℝ ℝ) (c : List ℝ) (hc : s.c = some c)
    (H : RightEnd s.t s.k) (m : Nat) :
    ∃ (f : ℝ → ℝ) (f' : ℝ), (∀ y, s.ppdnev y m = some (f y)) ∧
      s.ppdnev (knot s.t (s.t.length - 1)) (m + 1) = some f' ∧
      HasDerivWithinAt f f' (Set.Iic (knot s.t (s.t.length - 1))) (knot s.t (s.t.length - 1)) :=
  ppdnev_left_deriv_end s c hc H m

/-- EVALUATION AT A DUAL-NUMBER ABSCISSA (float coefficients, first order, any layout of the abscissa): the
result is well formed, its value is the plain evaluation at the value of the abscissa, and its sensitivity
to every variable name is the spline's own next derivative there times the abscissa's sensitivity. -/
theorem C15_dual_abscissa (s : PPSpline ℝ ℝ) (x : Dual ℝ) (hx : x.WF) (m : Nat) (v : String) :
    (∀ d, ppdnevDualF s x m = some d → d.WF) ∧
    (ppdnevDualF s x m).map (fun d => d.real) = s.ppdnev x.real m ∧
    (ppdnevDualF s x m).map (fun d => den d v) = (s.ppdnev x.real (m + 1)).map (fun S1 => S1 * den x v) :=
  ppdnevDualF_spec s x hx m v

/-- SECOND ORDER: value, first-order sensitivities `S'(x)·∂x`, and stored (half) second-order sensitivities
`S'(x)·½∂²x + ½S''(x)·∂x∂x` — the spline's own first and second derivatives. -/
theorem C15_dual2_abscissa (s : PPSpline ℝ ℝ) (x : Dual2 ℝ) (hx : x.WF) (m : Nat) (v w : String) :
    (∀ d, ppdnevDual2F s x m = some d → d.WF) ∧
    (ppdnevDual2F s x m).map (fun d => d.real) = s.ppdnev x.real m ∧
    (ppdnevDual2F s x m).map (fun d => Dual2.den d v)
      = (s.ppdnev x.real (m + 1)).map (fun S1 => S1 * Dual2.den x v) ∧
    (∀ S1 S2, s.ppdnev x.real (m + 1) = some S1 → s.ppdnev x.real (m + 2) = some S2 →
      (ppdnevDual2F s x m).map (fun d => Dual2.den2 d v w)
        = some (S1 * Dual2.den2 x v w + S2 * (1 / 2 * (Dual2.den x v * Dual2.den x w)))) :=
  ppdnevDual2F_spec s x hx m v w

/-- Dual-number coefficients AND dual-number abscissa (first order): product rule and chain rule together —
the sensitivity to `v` is the evaluation of the spline whose coefficients are the coefficients'
sensitivities to `v`, plus the value-spline's next derivative times the abscissa's sensitivity to `v`. -/
theorem C15_dual_abscissa_dual_coeffs (s : PPSpline ℝ (Dual ℝ)) (c : List (Dual ℝ)) (hc : s.c = some c)
    (hwf : ∀ d ∈ c, d.WF) (x : Dual ℝ) (hx : x.WF) (m : Nat) (v : String) :
    ∃ d, ppdnevDualD s x m = some d ∧ d.WF ∧
      some d.real = (⟨s.k, s.t, some (c.map fun d => d.real)⟩ : PPSpline ℝ ℝ).ppdnev x.real m ∧
      ∃ A B, (⟨s.k, s.t, some (c.map fun d => den d v)⟩ : PPSpline ℝ ℝ).ppdnev x.real m = some A ∧
        (⟨s.k, s.t, some (c.map fun d => d.real)⟩ : PPSpline ℝ ℝ).ppdnev x.real (m + 1) = some B ∧
        den d v = A + B * den x v :=
  ppdnevDualD_spec s c hc hwf x hx m v

open Expr in
/-- Second-order coefficients AND second-order abscissa: along every direction `α·e_v + β·e_w` of the
variable space, the 2-jet of the result is the spline formula `Σ c_i · B_i(x)` evaluated in the ring of
2-jets `ℝ[ε]/(ε³)` at the 2-jets of the coefficients and of the abscissa (`basisJet`: Taylor to second order
with the spline's own first and second derivatives). -/
theorem C15_dual2_abscissa_dual2_coeffs (s : PPSpline ℝ (Dual2 ℝ)) (c : List (Dual2 ℝ)) (hc : s.c = some c)
    (hwf : ∀ d ∈ c, d.WF) (x : Dual2 ℝ) (hx : x.WF) (m : Nat) (α β : ℝ) (v w : String) :
    ∃ d, ppdnevDual2D2 s x m = some d ∧ d.WF ∧
      dirJet α β v w d
        = ((List.range s.n).map fun i =>
            dirJet α β v w (c.getD i (Dual2.new 0 [])) * basisJet s.t s.k m i (dirJet α β v w x)).sum :=
  ppdnevDual2D2_jet s c hc hwf x hx m α β v w

end Abscissa

/-! ### polynomial reproduction -/
section Reproduction
open Polynomial

/-- COMPLETENESS OF THE SOLVER (any field): if the elimination meets no zero pivot, EVERY solution of the
system is the returned one. -/
theorem C15_solver_complete {K : Type} [Field K] (ge : K → K → Bool) (n : Nat) (s : Sys K)
    (hp : PivotsGood ge n (List.range n) s) (x : Nat → K) (hx : Sol n s x) :
    ∀ c, c < n → x c = @dsolve21 K (ringLinOps ge) n s c :=
  dsolve21_unique ge n s hp x hx

/-- EVERY POLYNOMIAL OF DEGREE BELOW THE ORDER IS A SPLINE, WITH ALL ITS DERIVATIVES: with Marsden's
coefficients the model's derivative evaluation of every order `m`, anywhere in the domain — knots and both
end points included — is the `m`-th derivative of the polynomial. -/
theorem C15_polynomials_are_splines (t : List ℝ) (K : Nat) (H : RightEnd t K) (he : EndKnots t K)
    (p : ℝ[X]) (hp : p.natDegree < K) (m : Nat) (x : ℝ) (hx0 : knot t 0 ≤ x) (hx1 : x ≤ knot t (t.length - 1)) :
    (⟨K, t, some ((List.range (t.length - K)).map (marsdenCoef t K p))⟩ : PPSpline ℝ ℝ).ppdnev x m
      = some ((derivative^[m] p).eval x) := by
  rw [ppdnev_real _ _ rfl]
  congr 1
  rw [← poly_spline_derivs t K H he p hp m x hx0 hx1]
  unfold splineFn
  rw [fdot_real_sum, fdot_real_sum]
  apply Finset.sum_congr rfl
  intro i hi
  rw [Finset.mem_range] at hi
  congr 1
  rw [getD_map_range]
  exact if_pos hi

/-- POLYNOMIAL REPRODUCTION: solve a spline of order `K` (square system, sites in the domain, any end
derivative orders) on data taken from a polynomial `p` of degree below `K` — values at interior sites, the
prescribed derivatives at the two end sites.  If the elimination meets no zero pivot (non-singular
collocation matrix), the solved spline and ALL its derivatives equal `p` and its derivatives everywhere in
the domain, knots and both end points included. -/
theorem C15_polynomial_reproduction (t : List ℝ) (K : Nat) (H : RightEnd t K) (he : EndKnots t K)
    (p : ℝ[X]) (hp : p.natDegree < K) (tau : List ℝ) (l r : Nat)
    (htau : ∀ j, j < tau.length → knot t 0 ≤ tau.getD j 0 ∧ tau.getD j 0 ≤ knot t (t.length - 1))
    (y : List ℝ)
    (hy : ∀ j, j < tau.length → y.getD j 0 = (derivative^[rowOrder tau.length l r j] p).eval (tau.getD j 0))
    (hpiv : PivotsGood geR (t.length - K) (List.range (t.length - K))
      ⟨bsplMatrix K t (t.length - K) tau l r, fun i => y.getD i 0⟩)
    (s' : PPSpline ℝ ℝ) (h : (⟨K, t, none⟩ : PPSpline ℝ ℝ).csolve tau y l r false = some s') :
    ∀ (x : ℝ), knot t 0 ≤ x → x ≤ knot t (t.length - 1) → ∀ m,
      s'.ppdnev x m = some ((derivative^[m] p).eval x) :=
  poly_reproduction t K H he p hp tau l r htau y hy hpiv s' h

/-- POLYNOMIAL REPRODUCTION FROM UNIQUENESS ALONE: if the interpolation problem has AT MOST ONE solution (what the
Schoenberg–Whitney conditions guarantee), no pivot of the elimination is zero — a solution exists, Marsden's, and
a uniquely solvable system never meets a zero pivot under the code's pivot rule (`C13_nonsingular`) — so the
solved spline and all its derivatives equal the polynomial's, everywhere in the domain. -/
theorem C15_polynomial_reproduction_unique (t : List ℝ) (K : Nat) (H : RightEnd t K) (he : EndKnots t K)
    (p : ℝ[X]) (hp : p.natDegree < K) (tau : List ℝ) (l r : Nat)
    (htau : ∀ j, j < tau.length → knot t 0 ≤ tau.getD j 0 ∧ tau.getD j 0 ≤ knot t (t.length - 1))
    (y : List ℝ)
    (hy : ∀ j, j < tau.length → y.getD j 0 = (derivative^[rowOrder tau.length l r j] p).eval (tau.getD j 0))
    (huniq : ∀ a b : Nat → ℝ,
      Sol (t.length - K) ⟨bsplMatrix K t (t.length - K) tau l r, fun i => y.getD i 0⟩ a →
      Sol (t.length - K) ⟨bsplMatrix K t (t.length - K) tau l r, fun i => y.getD i 0⟩ b →
      ∀ c, c < t.length - K → a c = b c)
    (s' : PPSpline ℝ ℝ) (h : (⟨K, t, none⟩ : PPSpline ℝ ℝ).csolve tau y l r false = some s') :
    ∀ (x : ℝ), knot t 0 ≤ x → x ≤ knot t (t.length - 1) → ∀ m,
      s'.ppdnev x m = some ((derivative^[m] p).eval x) :=
  poly_reproduction_unique t K H he p hp tau l r htau y hy huniq s' h

/-- POLYNOMIAL REPRODUCTION, LEAST-SQUARES BRANCH: at least as many sites as coefficients, least squares
allowed, data from a polynomial of degree below the order; if the elimination on the normal equations
`AᵀA c = Aᵀy` meets no zero pivot, the solved spline and all its derivatives equal the polynomial's,
everywhere in the domain. -/
theorem C15_polynomial_reproduction_lsq (t : List ℝ) (K : Nat) (H : RightEnd t K) (he : EndKnots t K)
    (p : ℝ[X]) (hp : p.natDegree < K) (tau : List ℝ) (l r : Nat)
    (htau : ∀ j, j < tau.length → knot t 0 ≤ tau.getD j 0 ∧ tau.getD j 0 ≤ knot t (t.length - 1))
    (y : List ℝ)
    (hy : ∀ j, j < tau.length → y.getD j 0 = (derivative^[rowOrder tau.length l r j] p).eval (tau.getD j 0))
    (hpiv : PivotsGood geR (t.length - K) (List.range (t.length - K))
      ⟨fun i j => ∑ q ∈ Finset.range tau.length,
          bsplMatrix K t (t.length - K) tau l r q i * bsplMatrix K t (t.length - K) tau l r q j,
       fun i => ∑ q ∈ Finset.range tau.length, bsplMatrix K t (t.length - K) tau l r q i * y.getD q 0⟩)
    (s' : PPSpline ℝ ℝ) (h : (⟨K, t, none⟩ : PPSpline ℝ ℝ).csolve tau y l r true = some s') :
    ∀ (x : ℝ), knot t 0 ≤ x → x ≤ knot t (t.length - 1) → ∀ m,
      s'.ppdnev x m = some ((derivative^[m] p).eval x) :=
  poly_reproduction_lsq t K H he p hp tau l r htau y hy hpiv s' h

/-- the comparison of the theorem is the one the model's own float instance uses -/
theorem C15_geR_is_model_instance (x y : ℝ) : @LinOps.absGe ℝ linOpsScalar x y = geR x y := rfl

end Reproduction

/-! ### sensitivities to the data -/
section DataSensitivity
open Rateslib.Dual

/-- When the data are (list-level, any layout) first-order dual numbers, the solved spline evaluated at
any abscissa `x` and derivative order `m` has, for every variable name `v`, a sensitivity equal to the
value of the float spline solved on the data's sensitivities to `v`: with one tag per datum, the
sensitivity to datum `j` is the spline through the `j`-th unit data. -/
theorem C15_data_sensitivity (k : Nat) (t tau : List ℝ) (y : List (Dual ℝ)) (hy : ∀ d ∈ y, d.WF)
    (l r : Nat) (v : String) (sD : PPSpline ℝ (Dual ℝ))
    (h : (⟨k, t, none⟩ : PPSpline ℝ (Dual ℝ)).csolve tau y l r false = some sD) :
    ∃ sF : PPSpline ℝ ℝ,
      (⟨k, t, none⟩ : PPSpline ℝ ℝ).csolve tau (y.map (fun d => den d v)) l r false = some sF ∧
      ∀ x m, (sD.ppdnev x m).map (fun d => den d v) = sF.ppdnev x m :=
  spline_hom (fun d => den d v) (den_modHom v) k t tau y hy l r sD h

/-- … and a value equal to the float spline solved on the data's values. -/
theorem C15_data_value (k : Nat) (t tau : List ℝ) (y : List (Dual ℝ)) (hy : ∀ d ∈ y, d.WF)
    (l r : Nat) (sD : PPSpline ℝ (Dual ℝ))
    (h : (⟨k, t, none⟩ : PPSpline ℝ (Dual ℝ)).csolve tau y l r false = some sD) :
    ∃ sF : PPSpline ℝ ℝ,
      (⟨k, t, none⟩ : PPSpline ℝ ℝ).csolve tau (y.map (fun d => d.real)) l r false = some sF ∧
      ∀ x m, (sD.ppdnev x m).map (fun d => d.real) = sF.ppdnev x m :=
  spline_hom (fun d => d.real) real_modHom k t tau y hy l r sD h

/-- SECOND-ORDER DATA: the value, every first-order and every (stored, half) second-order sensitivity of the
evaluated spline is the float spline solved on the corresponding projection of the data. -/
theorem C15_data_sensitivity2 (k : Nat) (t tau : List ℝ) (y : List (Dual2 ℝ)) (hy : ∀ d ∈ y, d.WF)
    (l r : Nat) (v w : String) (sD : PPSpline ℝ (Dual2 ℝ))
    (h : (⟨k, t, none⟩ : PPSpline ℝ (Dual2 ℝ)).csolve tau y l r false = some sD) :
    (∃ sF : PPSpline ℝ ℝ,
      (⟨k, t, none⟩ : PPSpline ℝ ℝ).csolve tau (y.map (fun d => d.real)) l r false = some sF ∧
      ∀ x m, (sD.ppdnev x m).map (fun d => d.real) = sF.ppdnev x m) ∧
    (∃ sF : PPSpline ℝ ℝ,
      (⟨k, t, none⟩ : PPSpline ℝ ℝ).csolve tau (y.map (fun d => Dual2.den d v)) l r false = some sF ∧
      ∀ x m, (sD.ppdnev x m).map (fun d => Dual2.den d v) = sF.ppdnev x m) ∧
    (∃ sF : PPSpline ℝ ℝ,
      (⟨k, t, none⟩ : PPSpline ℝ ℝ).csolve tau (y.map (fun d => Dual2.den2 d v w)) l r false = some sF ∧
      ∀ x m, (sD.ppdnev x m).map (fun d => Dual2.den2 d v w) = sF.ppdnev x m) :=
  ⟨spline_homG _ Dual2.WF real_modHom2 k t tau y hy l r sD h,
   spline_homG _ Dual2.WF (den_modHom2 v) k t tau y hy l r sD h,
   spline_homG _ Dual2.WF (den2_modHom v w) k t tau y hy l r sD h⟩

end DataSensitivity

end Rateslib
