/-
Non-singular systems never meet a zero pivot (ordered fields, partial pivoting by magnitude): if the
current column were zero from the diagonal down, the partially eliminated matrix would have a kernel
vector, contradicting uniqueness of the solution.
-/
import RateslibModel.Proofs.Gauss3
import Mathlib.Algebra.Order.Field.Basic
import Mathlib.Algebra.Order.AbsoluteValue.Basic
namespace Rateslib
open Finset

section Kernel
variable {K : Type} [Field K]

/-- a field element one can divide by -/
theorem good_of_ne {p : K} (hp : p ≠ 0) : Good p := fun x => div_mul_cancel₀ x hp

/-- If, at column `j` of a partially eliminated matrix (zeros below the diagonal in the columns before
`j`, non-zero diagonal there), the whole column `j` from the diagonal down is zero, the matrix has a
kernel vector with a 1 in position `j`. -/
theorem kernel_of_zero_col (n j : Nat) (a : Nat → Nat → K) (hj : j < n)
    (hz : ∀ r c, c < j → c < r → r < n → a r c = 0) (hd : ∀ i, i < j → a i i ≠ 0)
    (hcol : ∀ r, j ≤ r → r < n → a r j = 0) :
    ∃ z : Nat → K, z j = 1 ∧ ∀ r, r < n → rowDot n a z r = 0 := by
  -- back substitution on the leading j × j block with right-hand side −(column j)
  let u : Sys K := ⟨a, fun r => -a r j⟩
  have hzu : ZerosBelow j j u := fun r c hc hcr hr => hz r c hc hcr (by omega)
  have hdu : ∀ i, i < j → Good (u.a i i) := fun i hi => good_of_ne (hd i hi)
  let y := (List.range' 0 j).foldr (backStep j u) (fun _ => 0)
  have hy : ∀ r, r < j → rowDot j a y r = -a r j := fun r hr =>
    back_spec j u hzu hdu j 0 (by omega) r (Nat.zero_le r) hr
  refine ⟨fun c => if c < j then y c else if c = j then 1 else 0, by simp, ?_⟩
  intro r hr
  unfold rowDot
  rw [Finset.range_eq_Ico, ← Finset.sum_Ico_consecutive _ (Nat.zero_le j) (le_of_lt hj),
    Finset.sum_eq_sum_Ico_succ_bot hj]
  have h1 : ∑ c ∈ Finset.Ico 0 j, a r c * (if c < j then y c else if c = j then 1 else 0)
      = ∑ c ∈ Finset.Ico 0 j, a r c * y c := by
    apply Finset.sum_congr rfl
    intro c hc
    rw [Finset.mem_Ico] at hc
    rw [if_pos hc.2]
  have h3 : ∑ c ∈ Finset.Ico (j + 1) n, a r c * (if c < j then y c else if c = j then 1 else 0) = 0 := by
    apply Finset.sum_eq_zero
    intro c hc
    rw [Finset.mem_Ico] at hc
    rw [if_neg (by omega), if_neg (by omega)]; ring
  rw [h1, h3]
  simp only [lt_irrefl, if_false, if_true]
  by_cases hrj : r < j
  · have := hy r hrj
    unfold rowDot at this
    rw [Finset.range_eq_Ico] at this
    rw [this]; ring
  · have h0 : ∑ c ∈ Finset.Ico 0 j, a r c * y c = 0 := by
      apply Finset.sum_eq_zero
      intro c hc
      rw [Finset.mem_Ico] at hc
      rw [hz r c hc.2 (by omega) hr]; ring
    rw [h0, hcol r (by omega) hr]; ring

end Kernel

section Ordered
variable {K : Type} [Field K] [LinearOrder K] [IsStrictOrderedRing K]

/-- the pivot comparison of the code: `|x| ≥ |y|` -/
def absGeK (x y : K) : Bool := decide (|y| ≤ |x|)

omit [IsStrictOrderedRing K] in
/-- partial pivoting picks an entry of maximal magnitude in the column, from the diagonal down -/
theorem pivotIdx_max (n j : Nat) (a : Nat → Nat → K) :
    ∀ r, j ≤ r → r < n → |a r j| ≤ |a (@pivotIdx K (ringLinOps absGeK) n j a) j| := by
  unfold pivotIdx
  have key : ∀ (l : List Nat) (best : Nat),
      let b' := l.foldl (fun best r => if @LinOps.absGe K (ringLinOps absGeK) (a r j) (a best j) then r else best) best
      |a best j| ≤ |a b' j| ∧ ∀ r ∈ l, |a r j| ≤ |a b' j| := by
    intro l
    induction l with
    | nil => intro best; exact ⟨le_refl _, fun r hr => by cases hr⟩
    | cons x xs ih =>
      intro best
      simp only [List.foldl_cons]
      by_cases hx : @LinOps.absGe K (ringLinOps absGeK) (a x j) (a best j) = true
      · rw [if_pos hx]
        have hle : |a best j| ≤ |a x j| := by
          have : absGeK (a x j) (a best j) = true := hx
          simpa [absGeK] using this
        obtain ⟨h1, h2⟩ := ih x
        refine ⟨le_trans hle h1, ?_⟩
        intro r hr
        rcases List.mem_cons.mp hr with rfl | hr
        · exact h1
        · exact h2 r hr
      · rw [if_neg hx]
        have hlt : |a x j| ≤ |a best j| := by
          have hx' : ¬ absGeK (a x j) (a best j) = true := hx
          have : ¬ |a best j| ≤ |a x j| := by simpa [absGeK] using hx'
          exact le_of_lt (not_le.mp this)
        obtain ⟨h1, h2⟩ := ih best
        refine ⟨h1, ?_⟩
        intro r hr
        rcases List.mem_cons.mp hr with rfl | hr
        · exact le_trans hlt h1
        · exact h2 r hr
  intro r hjr hrn
  exact (key _ j).2 r (by rw [List.mem_range'_1]; omega)

omit [IsStrictOrderedRing K] in
theorem swapped_pivot (n : Nat) (s : Sys K) (j : Nat) :
    (swapped absGeK n s j).a j j = s.a (@pivotIdx K (ringLinOps absGeK) n j s.a) j := by
  unfold swapped
  simp only
  split
  · simp [swapRows]
  · rename_i h
    have : j = @pivotIdx K (ringLinOps absGeK) n j s.a := by simpa using h
    rw [← this]

omit [LinearOrder K] [IsStrictOrderedRing K] in
theorem rowDot_add (n : Nat) (a : Nat → Nat → K) (x z : Nat → K) (r : Nat) :
    rowDot n a (fun c => x c + z c) r = rowDot n a x r + rowDot n a z r := by
  unfold rowDot
  rw [← Finset.sum_add_distrib]
  apply Finset.sum_congr rfl
  intro c _; ring

/-- A system with exactly one solution never meets a zero pivot: partial pivoting always finds a
non-zero entry in the current column. -/
theorem pivots_good_of_unique (n : Nat) : ∀ (k j : Nat) (s : Sys K), j + k = n → ZerosBelow n j s →
    (∀ i, i < j → s.a i i ≠ 0) → (∃ x0, Sol n s x0) →
    (∀ x y, Sol n s x → Sol n s y → ∀ c, c < n → x c = y c) →
    PivotsGood absGeK n (List.range' j k) s := by
  intro k
  induction k with
  | zero => intro j s _ _ _ _ _; exact trivial
  | succ k ih =>
    intro j s hjk hz hd hex huniq
    have hj : j < n := by omega
    rw [List.range'_succ]
    have hp : (swapped absGeK n s j).a j j ≠ 0 := by
      intro h0
      rw [swapped_pivot] at h0
      have hcol : ∀ r, j ≤ r → r < n → s.a r j = 0 := by
        intro r h1 h2
        have := pivotIdx_max n j s.a r h1 h2
        rw [h0, abs_zero] at this
        exact abs_eq_zero.mp (le_antisymm this (abs_nonneg _))
      obtain ⟨z, hz1, hz2⟩ := kernel_of_zero_col n j s.a hj hz hd hcol
      obtain ⟨x0, hx0⟩ := hex
      have hx1 : Sol n s (fun c => x0 c + z c) := by
        intro r hr
        rw [rowDot_add, hx0 r hr, hz2 r hr, add_zero]
      have := huniq _ _ hx0 hx1 j hj
      simp only [hz1] at this
      have : (0 : K) = 1 := by linarith
      exact zero_ne_one this
    have hg : Good ((swapped absGeK n s j).a j j) := good_of_ne hp
    obtain ⟨e1, e2, e3, e4⟩ := elimStep_spec absGeK n s j hj hz hg
    refine ⟨hg, ih (j + 1) _ (by omega) e1 ?_ ?_ ?_⟩
    · intro i hi
      by_cases hij : i = j
      · subst hij; rw [e4]; exact hp
      · rw [(e3 i (by omega)).1]; exact hd i (by omega)
    · obtain ⟨x0, hx0⟩ := hex
      exact ⟨x0, (e2 x0).2 hx0⟩
    · intro x y hx hy
      exact huniq x y ((e2 x).1 hx) ((e2 y).1 hy)

end Ordered
end Rateslib
