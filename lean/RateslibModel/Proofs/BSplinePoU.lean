import RateslibModel.Proofs.BSpline
namespace Rateslib
open Finset

/-- Partition of unity of the pure recursion on a non-empty knot span `[t_j, t_{j+1})`:
the `k` functions `B_{j-k+1,k}, …, B_{j,k}` sum to one (every knot multiplicity). -/
theorem pureB_sum_span (t : List ℝ) (hs : SortedKnots t) (x : ℝ) (j : Nat)
    (hj1 : knot t j ≤ x) (hj2 : x < knot t (j + 1)) :
    ∀ k, 1 ≤ k → k ≤ j + 1 → j + k < t.length →
      ∑ r ∈ range k, pureB t x k (j + 1 - k + r) = 1 := by
  intro k
  induction k with
  | zero => intro h; omega
  | succ k ih =>
    intro _ hkj hlen
    by_cases hk : k = 0
    · subst hk
      simp only [zero_add, range_one, sum_singleton, Nat.add_zero]
      have : j + 1 - 1 = j := by omega
      rw [this]
      unfold pureB
      simp only [if_true]
      rw [if_pos ⟨hj1, hj2⟩]
    · have hk1 : 1 ≤ k := by omega
      have IH := ih hk1 (by omega) (by omega)
      -- f r = B_k at index j - k + r,  r = 0 .. k+1
      set f : Nat → ℝ := fun r => pureB t x k (j - k + r) with hf
      have hidx : ∀ r, j + 1 - (k + 1) + r = j - k + r := by intro r; omega
      have hf0 : f 0 = 0 := by
        simp only [hf, Nat.add_zero]
        apply pureB_support t hs x k (j - k) (by omega)
        right
        have : j - k + k = j := by omega
        rw [this]; exact hj1
      have hfl : f (k + 1) = 0 := by
        simp only [hf]
        apply pureB_support t hs x k (j - k + (k + 1)) (by omega)
        left
        have : j - k + (k + 1) = j + 1 := by omega
        rw [this]; exact hj2
      -- each summand splits as a_r f r + b_r f (r+1)
      have hsplit : ∀ r, pureB t x (k + 1) (j - k + r) =
          (if knot t (j - k + r) ≠ knot t (j - k + r + k) then
            (x - knot t (j - k + r)) / (knot t (j - k + r + k) - knot t (j - k + r)) else 0) * f r +
          (if knot t (j - k + r + 1) ≠ knot t (j - k + r + (k + 1)) then
            (knot t (j - k + r + (k + 1)) - x) / (knot t (j - k + r + (k + 1)) - knot t (j - k + r + 1)) else 0)
            * f (r + 1) := by
        intro r
        conv => lhs; unfold pureB
        rw [if_neg hk]
        simp only [hf]
        have e : j - k + r + 1 = j - k + (r + 1) := by omega
        rw [e]
        split <;> split <;> simp
      simp only [hidx]
      simp only [hsplit]
      rw [sum_add_distrib]
      -- first sum: drop r = 0 ; second sum: drop r = k
      rw [sum_range_succ' (fun r => _ * f r), sum_range_succ (fun r => _ * f (r + 1))]
      simp only [hf0, hfl, mul_zero, add_zero]
      rw [← sum_add_distrib]
      -- the remaining coefficients add up to one on every term
      have hIH : ∑ r ∈ range k, f (r + 1) = 1 := by
        rw [← IH]
        apply sum_congr rfl
        intro r _
        simp only [hf]
        congr 1; omega
      rw [← hIH]
      apply sum_congr rfl
      intro r hr
      rw [mem_range] at hr
      have e1 : j - k + (r + 1) = j - k + r + 1 := by omega
      have e2 : j - k + r + 1 + k = j - k + r + (k + 1) := by omega
      rw [e1, e2]
      -- positive width: t_{i+1} ≤ t_j ≤ x < t_{j+1} ≤ t_{i+k+1}
      have hw1 : knot t (j - k + r + 1) ≤ knot t j := hs _ _ (by omega) (by omega)
      have hw2 : knot t (j + 1) ≤ knot t (j - k + r + (k + 1)) := hs _ _ (by omega) (by omega)
      have hne : knot t (j - k + r + 1) ≠ knot t (j - k + r + (k + 1)) := by
        intro h; linarith
      rw [if_pos hne, if_pos hne, ← add_mul]
      have hd : knot t (j - k + r + (k + 1)) - knot t (j - k + r + 1) ≠ 0 := sub_ne_zero.2 (Ne.symm hne)
      have : (x - knot t (j - k + r + 1)) / (knot t (j - k + r + (k + 1)) - knot t (j - k + r + 1)) +
          (knot t (j - k + r + (k + 1)) - x) / (knot t (j - k + r + (k + 1)) - knot t (j - k + r + 1)) = 1 := by
        field_simp; ring
      rw [this, one_mul]

end Rateslib
