/-
B-spline basis over ℝ: the model's `bsplev` (with its support short-circuit and right-end-point rule)
against the pure Cox–de Boor recursion; support, non-negativity, partition of unity.
-/
import RateslibModel.Model.Spline
import RateslibModel.Analysis.RealInst
import Mathlib.Algebra.BigOperators.Intervals
import Mathlib.Tactic.Linarith
import Mathlib.Tactic.FieldSimp
namespace Rateslib
open Finset

theorem ltb_iff (a b : ℝ) : Transc.ltb a b = true ↔ a < b := by
  show decide (a < b) = true ↔ _; simp
theorem leb_iff (a b : ℝ) : Transc.leb a b = true ↔ a ≤ b := by
  show decide (a ≤ b) = true ↔ _; simp
theorem eqb_iff (a b : ℝ) : Transc.eqb a b = true ↔ a = b := by
  show decide (a = b) = true ↔ _; simp

/-- knots are non-decreasing (on the indices that exist) -/
def SortedKnots (t : List ℝ) : Prop := ∀ a b, a ≤ b → b < t.length → knot t a ≤ knot t b

/-- the pure Cox–de Boor recursion: half-open order-1 indicator, zero-width terms dropped -/
noncomputable def pureB (t : List ℝ) (x : ℝ) : Nat → Nat → ℝ
  | 0, _ => 0
  | k + 1, i =>
    if k = 0 then (if knot t i ≤ x ∧ x < knot t (i + 1) then 1 else 0)
    else
      (if knot t i ≠ knot t (i + k) then
        (x - knot t i) / (knot t (i + k) - knot t i) * pureB t x k i else 0) +
      (if knot t (i + 1) ≠ knot t (i + (k + 1)) then
        (knot t (i + (k + 1)) - x) / (knot t (i + (k + 1)) - knot t (i + 1)) * pureB t x k (i + 1) else 0)

/-- local support of the pure recursion (half-open): zero outside `[t_i, t_{i+k})` -/
theorem pureB_support (t : List ℝ) (hs : SortedKnots t) (x : ℝ) :
    ∀ (k i : Nat), i + k < t.length → (x < knot t i ∨ knot t (i + k) ≤ x) → pureB t x k i = 0 := by
  intro k
  induction k with
  | zero => intro i _ _; rfl
  | succ k ih =>
    intro i hik hx
    unfold pureB
    by_cases hk : k = 0
    · subst hk
      simp only [if_true]
      rw [if_neg]
      rintro ⟨h1, h2⟩
      rcases hx with hx | hx <;> linarith
    · rw [if_neg hk]
      have m1 : knot t (i + k) ≤ knot t (i + (k + 1)) := hs _ _ (by omega) (by omega)
      have m2 : knot t i ≤ knot t (i + 1) := hs _ _ (by omega) (by omega)
      have e1 : pureB t x k i = 0 := by
        apply ih i (by omega)
        rcases hx with hx | hx
        · exact Or.inl hx
        · -- x ≥ t_{i+k+1} ≥ t_{i+k}
          exact Or.inr (le_trans m1 hx)
      have e2 : pureB t x k (i + 1) = 0 := by
        apply ih (i + 1) (by omega)
        rcases hx with hx | hx
        · exact Or.inl (lt_of_lt_of_le hx m2)
        · right; have : i + 1 + k = i + (k + 1) := by omega
          rw [this]; exact hx
      rw [e1, e2]; simp

/-- Non-negativity of the pure recursion. -/
theorem pureB_nonneg (t : List ℝ) (hs : SortedKnots t) (x : ℝ) :
    ∀ (k i : Nat), i + k < t.length → 0 ≤ pureB t x k i := by
  intro k
  induction k with
  | zero => intro i _; exact le_refl _
  | succ k ih =>
    intro i hik
    unfold pureB
    by_cases hk : k = 0
    · subst hk; simp only [if_true]; split <;> norm_num
    · rw [if_neg hk]
      by_cases hout : x < knot t i ∨ knot t (i + (k + 1)) ≤ x
      · -- outside the support everything vanishes
        have := pureB_support t hs x (k + 1) i hik hout
        unfold pureB at this
        rw [if_neg hk] at this
        rw [this]
      · push_neg at hout
        have m1 : knot t i ≤ knot t (i + k) := hs _ _ (by omega) (by omega)
        have m2 : knot t (i + 1) ≤ knot t (i + (k + 1)) := hs _ _ (by omega) (by omega)
        apply add_nonneg
        · split
          · rename_i hne
            have : 0 < knot t (i + k) - knot t i := by
              rcases lt_or_eq_of_le m1 with h | h
              · linarith
              · exact absurd h hne
            exact mul_nonneg (div_nonneg (by linarith) (le_of_lt this)) (ih i (by omega))
          · exact le_refl _
        · split
          · rename_i hne
            have : 0 < knot t (i + (k + 1)) - knot t (i + 1) := by
              rcases lt_or_eq_of_le m2 with h | h
              · linarith
              · exact absurd h hne
            exact mul_nonneg (div_nonneg (by linarith) (le_of_lt this)) (ih (i + 1) (by omega))
          · exact le_refl _

/-- For every point strictly before the last knot the model's evaluation IS the pure recursion:
the support short-circuit only skips zeros and the right-end-point rule never fires. -/
theorem bsplev_eq_pure (t : List ℝ) (hs : SortedKnots t) (x : ℝ) (hx : x < knot t (t.length - 1)) :
    ∀ (k i org : Nat), i + k < t.length → bsplev t x k i org = pureB t x k i := by
  intro k
  induction k with
  | zero => intro i org _; rfl
  | succ k ih =>
    intro i org hik
    unfold bsplev
    by_cases hsc : (Transc.ltb x (knot t i) || Transc.ltb (knot t (i + (k + 1))) x) = true
    · rw [if_pos hsc]
      simp only [Bool.or_eq_true, ltb_iff] at hsc
      symm
      by_cases hk : k = 0
      · subst hk
        unfold pureB
        simp only [if_true]
        rw [if_neg]
        rintro ⟨h1, h2⟩
        rcases hsc with h | h <;> linarith
      · -- pure value is zero: either left of the support or strictly right of it
        rcases hsc with h | h
        · exact pureB_support t hs x (k + 1) i hik (Or.inl h)
        · exact pureB_support t hs x (k + 1) i hik (Or.inr (le_of_lt h))
    · rw [if_neg hsc]
      have hne : ¬ ((Transc.eqb x (knot t (t.length - 1)) && decide (i ≥ t.length - org - 1)) = true) := by
        simp only [Bool.and_eq_true, eqb_iff, not_and]
        intro h; linarith
      rw [if_neg hne]
      unfold pureB
      by_cases hk : k = 0
      · subst hk
        simp only [if_true, Bool.and_eq_true, leb_iff, ltb_iff]
      · rw [if_neg hk, if_neg hk]
        simp only [Bool.not_eq_true', ← Bool.not_eq_true, eqb_iff, ih i k (by omega), ih (i + 1) k (by omega)]

/-- At the last knot: every basis function the right-end rule does not cover evaluates to zero. -/
theorem bsplev_right_end_zero (t : List ℝ) (hs : SortedKnots t) :
    ∀ (k i : Nat), i + k + 1 < t.length → bsplev t (knot t (t.length - 1)) k i k = 0 := by
  intro k
  induction k with
  | zero => intro i _; rfl
  | succ k ih =>
    intro i hik
    unfold bsplev
    split
    · rfl
    · have hne : ¬ ((Transc.eqb (knot t (t.length - 1)) (knot t (t.length - 1)) &&
          decide (i ≥ t.length - (k + 1) - 1)) = true) := by
        simp only [Bool.and_eq_true, decide_eq_true_eq, not_and]
        intro _; omega
      rw [if_neg hne]
      by_cases hk : k = 0
      · subst hk
        simp only [if_true]
        rw [if_neg]
        simp only [Bool.and_eq_true, leb_iff, ltb_iff, not_and, not_lt]
        intro _
        exact hs _ _ (by omega) (by omega)
      · rw [if_neg hk]
        rw [ih i (by omega), ih (i + 1) (by omega)]
        simp

end Rateslib
