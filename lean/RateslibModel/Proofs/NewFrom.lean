import RateslibModel.Proofs.Dual2Layout
import RateslibModel.Proofs.DualOps
namespace Rateslib
open Dual



section Proofs
variable {α : Type}

theorem varsCmp_false_ne_arcEq (a b : List String) : varsCmp false a b ≠ .arcEq := by
  unfold varsCmp; simp only [Bool.false_eq_true, if_false]
  repeat' split
  all_goals simp

theorem varsCmp_false_valEq (a b : List String) (h : varsCmp false a b = .valEq) : a = b := by
  unfold varsCmp at h; simp only [Bool.false_eq_true, if_false] at h
  repeat' split at h
  all_goals (try cases h)
  simpa using ‹(a == b) = true›

namespace Dual
variable [OfNat α 0]

/-- re-indexing with the state `vars_cmp` computes: name by name the derivative is kept for the names of
the new list and dropped (0) for the others; the result has exactly the new list. -/
theorem toNewVars_cmp (d : Dual α) (nv : List String) (hd : d.WF) (hn : nv.Nodup) :
    let r := d.toNewVars nv (varsCmp false d.vars nv)
    r.WF ∧ r.vars = nv ∧ r.real = d.real ∧ ∀ n, den r n = if n ∈ nv then den d n else 0 := by
  intro r
  by_cases hv : varsCmp false d.vars nv = .valEq
  · have e := varsCmp_false_valEq _ _ hv
    have hr : r = ⟨d.real, nv, d.dual⟩ := by simp only [r, hv, toNewVars]
    rw [hr]
    refine ⟨⟨hn, by rw [← e]; exact hd.2⟩, rfl, rfl, ?_⟩
    intro n
    by_cases h : n ∈ nv
    · rw [if_pos h]; simp only [den, e]
    · rw [if_neg h]; exact lookup_not_mem _ _ _ h
  · have hst : varsCmp false d.vars nv ≠ .arcEq ∧ varsCmp false d.vars nv ≠ .valEq :=
      ⟨varsCmp_false_ne_arcEq _ _, hv⟩
    obtain ⟨h1, h2, h3⟩ := wf_toNewVars_lookup d nv _ hst hn
    exact ⟨h1, h2, h3, fun n => den_toNewVars_lookup d nv _ hst n⟩

end Dual

namespace Dual2
variable [OfNat α 0]

theorem toNewVars_cmp (d : Dual2 α) (nv : List String) (hd : d.WF) (hn : nv.Nodup) :
    let r := d.toNewVars nv (varsCmp false d.vars nv)
    r.WF ∧ r.vars = nv ∧ r.real = d.real ∧ (∀ n, den r n = if n ∈ nv then den d n else 0) ∧
      ∀ n w, den2 r n w = if n ∈ nv ∧ w ∈ nv then den2 d n w else 0 := by
  intro r
  by_cases hv : varsCmp false d.vars nv = .valEq
  · have e := varsCmp_false_valEq _ _ hv
    have hr : r = ⟨d.real, nv, d.dual, d.dual2⟩ := by simp only [r, hv, toNewVars]
    rw [hr]
    refine ⟨⟨hn, by rw [← e]; exact hd.2.1, by rw [← e]; exact hd.2.2.1, by rw [← e]; exact hd.2.2.2⟩,
      rfl, rfl, ?_, ?_⟩
    · intro n
      by_cases h : n ∈ nv
      · rw [if_pos h]; simp only [den, e]
      · rw [if_neg h]; exact lookup_not_mem _ _ _ h
    · intro n w
      by_cases h : n ∈ nv ∧ w ∈ nv
      · rw [if_pos h]; simp only [den2, e]
      · rw [if_neg h]
        by_cases hn' : n ∈ nv
        · exact lookup2_not_mem_right _ _ _ _ (fun hw => h ⟨hn', hw⟩)
        · exact lookup2_not_mem_left _ _ _ _ hn'
  · have hst : varsCmp false d.vars nv ≠ .arcEq ∧ varsCmp false d.vars nv ≠ .valEq :=
      ⟨varsCmp_false_ne_arcEq _ _, hv⟩
    obtain ⟨h1, h2, h3⟩ := wf_toNewVars_lookup d nv _ hst hn
    exact ⟨h1, h2, h3, fun n => den_toNewVars_lookup d nv _ hst n,
      fun n w => den2_toNewVars_lookup d nv _ hst n w⟩

end Dual2
end Proofs

section Constructors
variable {α : Type} [Add α] [Sub α] [Mul α] [Div α] [Neg α] [OfNat α 0] [OfNat α 1] [OfNat α 2]

theorem Dual.new_wf (real : α) (vars : List String) : (Dual.new real vars).WF :=
  ⟨nodup_dedup vars, by simp [Dual.new, onesV]⟩

theorem Dual.tryNew_wf (real : α) (vars : List String) (dual : List α) (d : Dual α)
    (h : Dual.tryNew real vars dual = some d) : d.WF ∧ d.real = real ∧ d.vars = dedup vars := by
  unfold Dual.tryNew at h
  simp only at h
  generalize (if dual.isEmpty = true then onesV (dedup vars).length else dual) = dd at h
  by_cases hl : ((dedup vars).length != dd.length) = true
  · rw [if_pos hl] at h; cases h
  · rw [if_neg hl] at h; cases h
    refine ⟨⟨nodup_dedup vars, ?_⟩, rfl, rfl⟩
    have : (dedup vars).length = dd.length := by simpa using hl
    exact this.symm

theorem Dual2.new_wf (real : α) (vars : List String) : (Dual2.new real vars).WF := by
  refine ⟨nodup_dedup vars, by simp [Dual2.new, onesV], by simp [Dual2.new, zerosM], ?_⟩
  intro r hr
  simp only [Dual2.new, zerosM, List.mem_replicate] at hr
  rw [hr.2]; simp [zerosV, Dual2.new]

end Constructors

end Rateslib
