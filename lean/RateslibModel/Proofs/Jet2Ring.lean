/-
Second-order jets along a direction form the commutative ring ℝ[ε]/(ε³); the directional 2-jet of list-level
second-order numbers is a homomorphism of the solver's arithmetic into it.
-/
import RateslibModel.Proofs.LinHom
import RateslibModel.Model.Spline
import RateslibModel.Analysis.Refine2
import Mathlib.Algebra.Ring.MinimalAxioms
import Mathlib.Analysis.SpecialFunctions.Pow.Real
set_option linter.unusedSectionVars false
set_option linter.unusedVariables false
namespace Rateslib
open Expr

/-! ### second-order jets along a direction form a commutative ring: ℝ[ε]/(ε³) -/
namespace J2

instance : Zero J2 := ⟨⟨0, 0, 0⟩⟩
instance : One J2 := ⟨⟨1, 0, 0⟩⟩
instance : Add J2 := ⟨fun a b => ⟨a.v0 + b.v0, a.v1 + b.v1, a.v2 + b.v2⟩⟩
instance : Neg J2 := ⟨fun a => ⟨-a.v0, -a.v1, -a.v2⟩⟩
noncomputable instance : Mul J2 := ⟨mulJ2⟩

@[simp] theorem zero_v0 : (0 : J2).v0 = 0 := rfl
@[simp] theorem zero_v1 : (0 : J2).v1 = 0 := rfl
@[simp] theorem zero_v2 : (0 : J2).v2 = 0 := rfl
@[simp] theorem one_v0 : (1 : J2).v0 = 1 := rfl
@[simp] theorem one_v1 : (1 : J2).v1 = 0 := rfl
@[simp] theorem one_v2 : (1 : J2).v2 = 0 := rfl
@[simp] theorem add_v0 (a b : J2) : (a + b).v0 = a.v0 + b.v0 := rfl
@[simp] theorem add_v1 (a b : J2) : (a + b).v1 = a.v1 + b.v1 := rfl
@[simp] theorem add_v2 (a b : J2) : (a + b).v2 = a.v2 + b.v2 := rfl
@[simp] theorem neg_v0 (a : J2) : (-a).v0 = -a.v0 := rfl
@[simp] theorem neg_v1 (a : J2) : (-a).v1 = -a.v1 := rfl
@[simp] theorem neg_v2 (a : J2) : (-a).v2 = -a.v2 := rfl
@[simp] theorem mul_v0 (a b : J2) : (a * b).v0 = a.v0 * b.v0 := rfl
@[simp] theorem mul_v1 (a b : J2) : (a * b).v1 = a.v1 * b.v0 + b.v1 * a.v0 := rfl
@[simp] theorem mul_v2 (a b : J2) :
    (a * b).v2 = (a.v2 * b.v0 + b.v2 * a.v0) + 1 / 2 * (a.v1 * b.v1 + b.v1 * a.v1) := rfl

noncomputable instance : CommRing J2 :=
  CommRing.ofMinimalAxioms
    (fun a b c => by apply J2.ext' <;> simp <;> ring)
    (fun a => by apply J2.ext' <;> simp)
    (fun a => by apply J2.ext' <;> simp)
    (fun a b c => by apply J2.ext' <;> simp <;> ring)
    (fun a b => by apply J2.ext' <;> simp <;> ring)
    (fun a => by apply J2.ext' <;> simp)
    (fun a b c => by apply J2.ext' <;> simp <;> ring)

@[simp] theorem sub_v0 (a b : J2) : (a - b).v0 = a.v0 - b.v0 := by
  rw [sub_eq_add_neg]; simp; ring
@[simp] theorem sub_v1 (a b : J2) : (a - b).v1 = a.v1 - b.v1 := by
  rw [sub_eq_add_neg]; simp; ring
@[simp] theorem sub_v2 (a b : J2) : (a - b).v2 = a.v2 - b.v2 := by
  rw [sub_eq_add_neg]; simp; ring

/-- the reciprocal jet (`x.pow(-1)`) -/
noncomputable def inv (b : J2) : J2 :=
  ⟨b.v0⁻¹, -b.v1 * (b.v0⁻¹) ^ 2, -b.v2 * (b.v0⁻¹) ^ 2 + b.v1 * b.v1 * (b.v0⁻¹) ^ 3⟩

/-- division as the code performs it: multiplication by the reciprocal power -/
noncomputable instance : Div J2 := ⟨fun a b => a * inv b⟩

theorem div_def (a b : J2) : a / b = a * inv b := rfl

theorem inv_mul_cancel' (p : J2) (hp : p.v0 ≠ 0) : inv p * p = 1 := by
  apply J2.ext'
  · simp [inv, hp]
  · simp only [mul_v1, inv, one_v1]; field_simp; ring
  · simp only [mul_v2, mul_v1, inv, one_v2]; field_simp; ring

/-- a jet whose VALUE is non-zero can be divided by -/
theorem good (p : J2) (hp : p.v0 ≠ 0) : Good p := by
  intro x
  rw [div_def, mul_assoc, inv_mul_cancel' p hp, mul_one]

end J2

/-! ### list-level second-order numbers → 2-jets along a direction -/

/-- the pivot comparison on jets: by the magnitudes of the values -/
noncomputable def geJ (x y : J2) : Bool := !(Transc.ltb (absS x.v0) (absS y.v0))

@[reducible] noncomputable def linOpsJ : LinOps J2 := ringLinOps geJ
attribute [local instance] linOpsJ

theorem rpow_neg_two (r : ℝ) : r ^ ((-1 : ℝ) - 1) = (r⁻¹) ^ 2 := by
  have : ((-1 : ℝ) - 1) = ((-2 : ℤ) : ℝ) := by norm_num
  rw [this, Real.rpow_intCast]
  rw [zpow_neg, inv_pow]; rfl

theorem rpow_neg_three (r : ℝ) : r ^ ((-1 : ℝ) - 2) = (r⁻¹) ^ 3 := by
  have : ((-1 : ℝ) - 2) = ((-3 : ℤ) : ℝ) := by norm_num
  rw [this, Real.rpow_intCast]
  rw [zpow_neg, inv_pow]; rfl

theorem dirJet_linHom (α β : ℝ) (v w : String) :
    @LinHom (Dual2 ℝ) J2 linOpsDual2 linOpsJ (dirJet α β v w) Dual2.WF := by
  refine ⟨⟨(new_const_spec 0).1, ?_⟩, ?_, ?_, ?_, ?_, ?_⟩
  · obtain ⟨_, r, d1, d2⟩ := new_const_spec 0
    show dirJet α β v w (Dual2.new 0 []) = (0 : J2)
    apply J2.ext'
    · exact r
    · simp [dirJet, d1]
    · simp [dirJet, d2]
  · intro a b ha hb
    have S := Dual2.add_spec false a b ha hb (by simp)
    refine ⟨S.wf, ?_⟩
    show dirJet α β v w (Dual2.add false a b) = dirJet α β v w a + dirJet α β v w b
    apply J2.ext'
    · exact S.real
    · simp only [dirJet, J2.add_v1, S.den]; ring
    · simp only [dirJet, J2.add_v2, S.den2]; ring
  · intro a b ha hb
    have S := Dual2.sub_spec false a b ha hb (by simp)
    refine ⟨S.wf, ?_⟩
    show dirJet α β v w (Dual2.sub false a b) = dirJet α β v w a - dirJet α β v w b
    apply J2.ext'
    · rw [J2.sub_v0]; exact S.real
    · simp only [dirJet, J2.sub_v1, S.den]; ring
    · simp only [dirJet, J2.sub_v2, S.den2]; ring
  · intro a b ha hb
    have S := Dual2.mul_spec false a b ha hb (by simp)
    exact ⟨S.wf, mul_dirJet a b ha hb α β v w⟩
  · intro a b ha hb
    have P := pow_spec b hb (-1)
    have S := Dual2.mul_spec false a _ ha P.wf (by simp)
    refine ⟨S.wf, ?_⟩
    show dirJet α β v w (Dual2.mul false a (Dual2.pow b (-1))) = dirJet α β v w a * J2.inv (dirJet α β v w b)
    rw [mul_dirJet a _ ha P.wf, chain_dirJet P]
    show mulJ2 _ _ = mulJ2 _ _
    congr 1
    apply J2.ext'
    · show b.real ^ (-1 : ℝ) = (b.real)⁻¹
      exact Real.rpow_neg_one _
    · show -1 * b.real ^ ((-1 : ℝ) - 1) * (dirJet α β v w b).v1 = -(dirJet α β v w b).v1 * ((b.real)⁻¹) ^ 2
      rw [rpow_neg_two]; ring
    · show -1 * b.real ^ ((-1 : ℝ) - 1) * (dirJet α β v w b).v2
          + 1 / 2 * (-1) * (-1 - 1) * b.real ^ ((-1 : ℝ) - 2) * ((dirJet α β v w b).v1 * (dirJet α β v w b).v1)
        = -(dirJet α β v w b).v2 * ((b.real)⁻¹) ^ 2
          + (dirJet α β v w b).v1 * (dirJet α β v w b).v1 * ((b.real)⁻¹) ^ 3
      rw [rpow_neg_two, rpow_neg_three]; ring
  · intro a b _ _
    rfl

/-- SECOND-ORDER MATRIX AND RIGHT-HAND SIDE, list level: along every direction `α·e_v + β·e_w` of the
variable space, the 2-jets of the list-level solver's answer ARE the answer of the same elimination (same
pivot choices) run in the ring of 2-jets `ℝ[ε]/(ε³)` on the 2-jets of the data. -/
theorem dsolve21_dual2_refines (α β : ℝ) (v w : String) (n : Nat) (s : Sys (Dual2 ℝ))
    (ha : ∀ r c, (s.a r c).WF) (hb : ∀ r, (s.b r).WF) (r : Nat) :
    (@dsolve21 (Dual2 ℝ) linOpsDual2 n s r).WF ∧
    dirJet α β v w (@dsolve21 (Dual2 ℝ) linOpsDual2 n s r)
      = @dsolve21 J2 linOpsJ n
          ⟨fun r c => dirJet α β v w (s.a r c), fun r => dirJet α β v w (s.b r)⟩ r :=
  @dsolve21_hom _ _ linOpsDual2 linOpsJ _ _ (dirJet_linHom α β v w) n s _
    ⟨fun r c => ⟨ha r c, rfl⟩, fun r => ⟨hb r, rfl⟩⟩ r

theorem v0_linHom : @LinHom J2 ℝ linOpsJ (ringLinOps geR) J2.v0 (fun _ => True) := by
  refine ⟨⟨trivial, rfl⟩, fun a b _ _ => ⟨trivial, rfl⟩, fun a b _ _ => ⟨trivial, ?_⟩,
    fun a b _ _ => ⟨trivial, rfl⟩, fun a b _ _ => ⟨trivial, ?_⟩, fun a b _ _ => rfl⟩
  · show (a - b).v0 = a.v0 - b.v0
    exact J2.sub_v0 a b
  · show (a * J2.inv b).v0 = a.v0 / b.v0
    rw [J2.mul_v0, div_eq_mul_inv]; rfl

theorem pivotsGood_of_values2 (n : Nat) : ∀ (js : List Nat) (s : Sys J2) (s' : Sys ℝ),
    SRel J2.v0 (fun _ => True) s s' → PivotsGood geR n js s' → PivotsGood geJ n js s := by
  intro js
  induction js with
  | nil => intro _ _ _ _; trivial
  | cons j js ih =>
    intro s s' h hp
    obtain ⟨hg, hp'⟩ := hp
    have hk : @pivotIdx _ linOpsJ n j s.a = @pivotIdx ℝ (ringLinOps geR) n j s'.a :=
      @pivotIdx_hom _ _ linOpsJ (ringLinOps geR) _ _ v0_linHom n j s.a s'.a h.1
    have hsw : SRel J2.v0 (fun _ => True) (swapped geJ n s j) (swapped geR n s' j) := by
      unfold swapped
      simp only
      rw [show @pivotIdx _ (ringLinOps geJ) n j s.a = @pivotIdx _ linOpsJ n j s.a from rfl, hk]
      split
      · exact srel_swap s s' h _ _
      · exact h
    refine ⟨J2.good _ ?_, ih _ _ ?_ hp'⟩
    · rw [(hsw.1 j j).2]; exact ne_zero_of_good_real hg
    · exact @srel_elimStep _ _ linOpsJ (ringLinOps geR) _ _ v0_linHom n s s' h j

open Finset in
/-- SECOND-ORDER MATRIX AND RIGHT-HAND SIDE: if the elimination on the VALUES meets no zero pivot, the
list-level solver's answer satisfies `A x = b` as an identity of 2-jets along EVERY direction
`α·e_v + β·e_w` — i.e. in value, in every first derivative and in every second derivative carried by `A`
or `b` (the 2-jet product is the product rule to second order). -/
theorem dual2_matrix_solution (α β : ℝ) (v w : String) (n : Nat) (s : Sys (Dual2 ℝ))
    (ha : ∀ r c, (s.a r c).WF) (hb : ∀ r, (s.b r).WF)
    (hp : PivotsGood geR n (List.range n) ⟨fun r c => (s.a r c).real, fun r => (s.b r).real⟩) :
    ∀ r, r < n →
      ∑ c ∈ range n, dirJet α β v w (s.a r c) * dirJet α β v w (@dsolve21 (Dual2 ℝ) linOpsDual2 n s c)
        = dirJet α β v w (s.b r) := by
  intro r hr
  set sJ : Sys J2 := ⟨fun r c => dirJet α β v w (s.a r c), fun r => dirJet α β v w (s.b r)⟩ with hsJ
  have hrel : SRel J2.v0 (fun _ => True) sJ ⟨fun r c => (s.a r c).real, fun r => (s.b r).real⟩ :=
    ⟨fun r c => ⟨trivial, rfl⟩, fun r => ⟨trivial, rfl⟩⟩
  have hpJ := pivotsGood_of_values2 n _ sJ _ hrel hp
  have hsound := dsolve21_sound geJ n sJ hpJ r hr
  unfold rowDot at hsound
  have hx : ∀ c, @dsolve21 _ (ringLinOps geJ) n sJ c = dirJet α β v w (@dsolve21 (Dual2 ℝ) linOpsDual2 n s c) :=
    fun c => ((dsolve21_dual2_refines α β v w n s ha hb c).2).symm
  simp only [hx] at hsound
  exact hsound


/-! ### splines with second-order coefficients at second-order abscissae -/

/-- the 2-jet of a basis function composed with the 2-jet of the abscissa (Taylor to second order) -/
noncomputable def basisJet (t : List ℝ) (k m i : Nat) (x : J2) : J2 :=
  ⟨bspldnev t x.v0 m i k none, bspldnev t x.v0 (m + 1) i k none * x.v1,
   bspldnev t x.v0 (m + 1) i k none * x.v2 + 1 / 2 * bspldnev t x.v0 (m + 2) i k none * (x.v1 * x.v1)⟩

theorem bspldnevDual2_dirJet (t : List ℝ) (x : Dual2 ℝ) (hx : x.WF) (i k m : Nat) (α β : ℝ) (v w : String) :
    (bspldnevDual2 t x i k m).WF ∧
    dirJet α β v w (bspldnevDual2 t x i k m) = basisJet t k m i (dirJet α β v w x) := by
  have S : ChainSpec x (bspldnevDual2 t x i k m) (bspldnev t x.real m i k none)
      (bspldnev t x.real (m + 1) i k none) (half * bspldnev t x.real (m + 2) i k none) :=
    cdf_shape_spec x hx _ _ _
  refine ⟨S.wf, ?_⟩
  rw [chain_dirJet S]
  apply J2.ext'
  · rfl
  · rfl
  · simp only [basisJet, half]; rfl

/-- EVALUATION AT A SECOND-ORDER ABSCISSA OF A SPLINE WITH SECOND-ORDER COEFFICIENTS (list level, any
layouts): along every direction of the variable space, the 2-jet of the result is the spline formula
`Σ c_i · B_i(x)` evaluated in the ring of 2-jets at the 2-jets of the coefficients and of the abscissa —
product rule and chain rule to second order, all variables at once. -/
theorem ppdnevDual2D2_jet (s : PPSpline ℝ (Dual2 ℝ)) (c : List (Dual2 ℝ)) (hc : s.c = some c)
    (hwf : ∀ d ∈ c, d.WF) (x : Dual2 ℝ) (hx : x.WF) (m : Nat) (α β : ℝ) (v w : String) :
    ∃ d, ppdnevDual2D2 s x m = some d ∧ d.WF ∧
      dirJet α β v w d
        = ((List.range s.n).map fun i =>
            dirJet α β v w (c.getD i (Dual2.new 0 [])) * basisJet s.t s.k m i (dirJet α β v w x)).sum := by
  have hz : (Dual2.new (0 : ℝ) []).WF := (new_const_spec 0).1
  have hcw : ∀ i, (c.getD i (Dual2.new 0 [])).WF := by
    intro i
    rw [List.getD_eq_getElem?_getD]
    cases hi : c[i]? with
    | none => exact hz
    | some d => exact hwf d (List.mem_of_getElem? hi)
  have hform : ppdnevDual2D2 s x m = some (@dotOver (Dual2 ℝ) linOpsDual2 (List.range s.n)
      (fun i => c.getD i (Dual2.new 0 [])) (fun i => bspldnevDual2 s.t x i s.k m)) := by
    simp only [ppdnevDual2D2, hc, Option.map_some]; rfl
  have H := @dot_hom _ _ linOpsDual2 linOpsJ _ _ (dirJet_linHom α β v w)
    (fun i => c.getD i (Dual2.new 0 [])) (fun i => bspldnevDual2 s.t x i s.k m)
    (fun i => dirJet α β v w (c.getD i (Dual2.new 0 [])))
    (fun i => basisJet s.t s.k m i (dirJet α β v w x))
    (fun i => ⟨hcw i, rfl⟩) (fun i => ⟨(bspldnevDual2_dirJet s.t x hx i s.k m α β v w).1,
      (bspldnevDual2_dirJet s.t x hx i s.k m α β v w).2⟩) (List.range s.n)
  refine ⟨_, hform, H.1, ?_⟩
  rw [H.2]
  exact dotOver_eq geJ _ _ _

end Rateslib
