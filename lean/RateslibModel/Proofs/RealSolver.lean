/-
The pivot comparison of the float code path over ℝ (`|x| ≥ |y|` as `!(|x| < |y|)`), shared by the
theorems that speak about the model's own solver instance.
-/
import RateslibModel.Model.Linalg
import RateslibModel.Analysis.RealInst
namespace Rateslib

/-- the pivot comparison of the float code path -/
noncomputable def geR : ℝ → ℝ → Bool := fun x y => !(Transc.ltb (absS x) (absS y))

end Rateslib
