import RateslibModel.Model.Holidays
import RateslibModel.Gen.HolidayTables
namespace Rateslib.C07
open Rateslib

/-- every weekday occurrence of the documented fixed-date and Easter-linked holidays of "tro" is a
holiday reported by the running code -/
theorem partial_tro : subsetSorted (ruleDates troPartial) Gen.wdHols_tro = true ∧ Gen.mask_tro = [5, 6] := by
  decide +kernel

end Rateslib.C07
