import RateslibModel.Model.Holidays
import RateslibModel.Gen.HolidayTables
namespace Rateslib.C07
open Rateslib

/-- Good Fridays of the reference years -/
def goodFridays : List Int := refYears.map (fun y => easterDay y - 2)

/-- 'fed' is the 'nyc' calendar without Good Friday (on the tables reported by the running code) -/
theorem fed_is_nyc_minus_good_friday :
    Gen.wdHols_fed = Gen.wdHols_nyc.filter (fun d => !goodFridays.contains d)
    ∧ Gen.mask_fed = Gen.mask_nyc := by
  decide +kernel

theorem all_bus :
    Gen.wdHols_all = [] ∧ Gen.weHols_all = [] ∧ Gen.mask_all = [] ∧
    Gen.wdHols_bus = [] ∧ Gen.weHols_bus = [] ∧ Gen.mask_bus = [5, 6] := by
  decide +kernel

end Rateslib.C07
