import RateslibModel.Model.Holidays
import RateslibModel.Gen.HolidayTables
namespace Rateslib.C07
open Rateslib

/-- the weekday holidays reported by the running code for "osl" are exactly those the published
rules generate, and the week mask is Saturday/Sunday -/
theorem full_osl : Gen.wdHols_osl = ruleDates oslRules ∧ Gen.mask_osl = [5, 6] := by decide +kernel

end Rateslib.C07
