import RateslibModel.Model.Holidays
import RateslibModel.Gen.HolidayTables
namespace Rateslib.C07
open Rateslib

/-- the weekday holidays reported by the running code for "fed" are exactly those the published
rules generate, and the week mask is Saturday/Sunday -/
theorem full_fed : Gen.wdHols_fed = ruleDates fedRules ∧ Gen.mask_fed = [5, 6] := by decide +kernel

end Rateslib.C07
