import RateslibModel.Model.Holidays
import RateslibModel.Gen.HolidayTables
import RateslibModel.Gen.Fixings
namespace Rateslib.C07
open Rateslib

/-- over the period covered by the aud fixing history the business days of "syd" are exactly the
publication dates -/
theorem fixings_aud :
    Gen.fixingDates_aud ≠ [] ∧
    busDaysCheck Gen.mask_syd
      ((Gen.fixingDates_aud.getLast?.getD 0 - Gen.fixingDates_aud.headD 0 + 1).toNat)
      (Gen.fixingDates_aud.headD 0) Gen.wdHols_syd Gen.fixingDates_aud = true := by
  decide +kernel

end Rateslib.C07
