import RateslibModel.Model.Holidays
import RateslibModel.Gen.HolidayTables
namespace Rateslib.C07
open Rateslib

/-- every weekday occurrence of the documented fixed-date and Easter-linked holidays of "wlg" is a
holiday reported by the running code -/
theorem partial_wlg : subsetSorted (ruleDates wlgPartial) Gen.wdHols_wlg = true ∧ Gen.mask_wlg = [5, 6] := by
  decide +kernel

end Rateslib.C07
