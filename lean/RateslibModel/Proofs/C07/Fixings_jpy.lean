import RateslibModel.Model.Holidays
import RateslibModel.Gen.HolidayTables
import RateslibModel.Gen.Fixings
namespace Rateslib.C07
open Rateslib

/-- over the period covered by the jpy fixing history the business days of "tyo" are exactly the
publication dates -/
theorem fixings_jpy :
    Gen.fixingDates_jpy ≠ [] ∧
    busDaysCheck Gen.mask_tyo
      ((Gen.fixingDates_jpy.getLast?.getD 0 - Gen.fixingDates_jpy.headD 0 + 1).toNat)
      (Gen.fixingDates_jpy.headD 0) Gen.wdHols_tyo Gen.fixingDates_jpy = true := by
  decide +kernel

end Rateslib.C07
