import RateslibModel.Model.Holidays
import RateslibModel.Gen.HolidayTables
import RateslibModel.Gen.Fixings
namespace Rateslib.C07
open Rateslib

/-- over the period covered by the cad fixing history the business days of "tro" are exactly the
publication dates -/
theorem fixings_cad :
    Gen.fixingDates_cad ≠ [] ∧
    busDaysCheck Gen.mask_tro
      ((Gen.fixingDates_cad.getLast?.getD 0 - Gen.fixingDates_cad.headD 0 + 1).toNat)
      (Gen.fixingDates_cad.headD 0) Gen.wdHols_tro Gen.fixingDates_cad = true := by
  decide +kernel

end Rateslib.C07
