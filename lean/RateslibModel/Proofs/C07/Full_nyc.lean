import RateslibModel.Model.Holidays
import RateslibModel.Gen.HolidayTables
namespace Rateslib.C07
open Rateslib

/-- the weekday holidays reported by the running code for "nyc" are exactly those the published
rules generate, and the week mask is Saturday/Sunday -/
theorem full_nyc : Gen.wdHols_nyc = ruleDates nycRules ∧ Gen.mask_nyc = [5, 6] := by decide +kernel

end Rateslib.C07
