import RateslibModel.Model.Holidays
import RateslibModel.Gen.HolidayTables
namespace Rateslib.C07
open Rateslib

/-- every weekday occurrence of the documented fixed-date and Easter-linked holidays of "mum" is a
holiday reported by the running code -/
theorem partial_mum : subsetSorted (ruleDates mumPartial) Gen.wdHols_mum = true ∧ Gen.mask_mum = [5, 6] := by
  decide +kernel

end Rateslib.C07
