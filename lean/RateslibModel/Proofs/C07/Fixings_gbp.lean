import RateslibModel.Model.Holidays
import RateslibModel.Gen.HolidayTables
import RateslibModel.Gen.Fixings
namespace Rateslib.C07
open Rateslib

/-- over the period covered by the gbp fixing history the business days of "ldn" are exactly the
publication dates -/
theorem fixings_gbp :
    Gen.fixingDates_gbp ≠ [] ∧
    busDaysCheck Gen.mask_ldn
      ((Gen.fixingDates_gbp.getLast?.getD 0 - Gen.fixingDates_gbp.headD 0 + 1).toNat)
      (Gen.fixingDates_gbp.headD 0) Gen.wdHols_ldn Gen.fixingDates_gbp = true := by
  decide +kernel

end Rateslib.C07
