import RateslibModel.Model.Holidays
import RateslibModel.Gen.HolidayTables
import RateslibModel.Gen.Fixings
namespace Rateslib.C07
open Rateslib

/-- over the period covered by the eur fixing history the business days of "tgt" are exactly the
publication dates -/
theorem fixings_eur :
    Gen.fixingDates_eur ≠ [] ∧
    busDaysCheck Gen.mask_tgt
      ((Gen.fixingDates_eur.getLast?.getD 0 - Gen.fixingDates_eur.headD 0 + 1).toNat)
      (Gen.fixingDates_eur.headD 0) Gen.wdHols_tgt Gen.fixingDates_eur = true := by
  decide +kernel

end Rateslib.C07
