import RateslibModel.Model.Holidays
import RateslibModel.Gen.HolidayTables
namespace Rateslib.C07
open Rateslib

/-- every weekday occurrence of the documented fixed-date and Easter-linked holidays of "syd" is a
holiday reported by the running code -/
theorem partial_syd : subsetSorted (ruleDates sydPartial) Gen.wdHols_syd = true ∧ Gen.mask_syd = [5, 6] := by
  decide +kernel

end Rateslib.C07
