import RateslibModel.Model.Holidays
import RateslibModel.Gen.HolidayTables
import RateslibModel.Gen.Fixings
namespace Rateslib.C07
open Rateslib

/-- over the period covered by the nok fixing history the business days of "osl" are exactly the
publication dates -/
theorem fixings_nok :
    Gen.fixingDates_nok ≠ [] ∧
    busDaysCheck Gen.mask_osl
      ((Gen.fixingDates_nok.getLast?.getD 0 - Gen.fixingDates_nok.headD 0 + 1).toNat)
      (Gen.fixingDates_nok.headD 0) Gen.wdHols_osl Gen.fixingDates_nok = true := by
  decide +kernel

end Rateslib.C07
