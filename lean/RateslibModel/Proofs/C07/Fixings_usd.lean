import RateslibModel.Model.Holidays
import RateslibModel.Gen.HolidayTables
import RateslibModel.Gen.Fixings
namespace Rateslib.C07
open Rateslib

/-- over the period covered by the usd fixing history the business days of "nyc" are exactly the
publication dates -/
theorem fixings_usd :
    Gen.fixingDates_usd ≠ [] ∧
    busDaysCheck Gen.mask_nyc
      ((Gen.fixingDates_usd.getLast?.getD 0 - Gen.fixingDates_usd.headD 0 + 1).toNat)
      (Gen.fixingDates_usd.headD 0) Gen.wdHols_nyc Gen.fixingDates_usd = true := by
  decide +kernel

end Rateslib.C07
