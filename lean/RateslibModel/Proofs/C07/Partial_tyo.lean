import RateslibModel.Model.Holidays
import RateslibModel.Gen.HolidayTables
namespace Rateslib.C07
open Rateslib

/-- every weekday occurrence of the documented fixed-date and Easter-linked holidays of "tyo" is a
holiday reported by the running code -/
theorem partial_tyo : subsetSorted (ruleDates tyoPartial) Gen.wdHols_tyo = true ∧ Gen.mask_tyo = [5, 6] := by
  decide +kernel

end Rateslib.C07
