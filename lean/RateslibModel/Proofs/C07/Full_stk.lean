import RateslibModel.Model.Holidays
import RateslibModel.Gen.HolidayTables
namespace Rateslib.C07
open Rateslib

/-- the weekday holidays reported by the running code for "stk" are exactly those the published
rules generate, and the week mask is Saturday/Sunday -/
theorem full_stk : Gen.wdHols_stk = ruleDates stkRules ∧ Gen.mask_stk = [5, 6] := by decide +kernel

end Rateslib.C07
