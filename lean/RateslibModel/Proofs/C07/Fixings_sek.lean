import RateslibModel.Model.Holidays
import RateslibModel.Gen.HolidayTables
import RateslibModel.Gen.Fixings
namespace Rateslib.C07
open Rateslib

/-- over the period covered by the sek fixing history the business days of "stk" are exactly the
publication dates -/
theorem fixings_sek :
    Gen.fixingDates_sek ≠ [] ∧
    busDaysCheck Gen.mask_stk
      ((Gen.fixingDates_sek.getLast?.getD 0 - Gen.fixingDates_sek.headD 0 + 1).toNat)
      (Gen.fixingDates_sek.headD 0) Gen.wdHols_stk Gen.fixingDates_sek = true := by
  decide +kernel

end Rateslib.C07
