import RateslibModel.Gen.DocNames
import RateslibModel.Gen.HolidayTables
namespace Rateslib.C07
open Rateslib

/-- every calendar name listed in the documentation resolves (and the list is not empty) -/
theorem doc_names_resolve :
    (Gen.docNameResolution.map Prod.snd).all id = true ∧ Gen.docNameResolution.length ≥ 1 := by
  decide +kernel

/-- all fourteen built-in names resolve -/
theorem builtin_names_resolve :
    [Gen.resolves_all, Gen.resolves_bus, Gen.resolves_nyc, Gen.resolves_fed, Gen.resolves_tgt,
     Gen.resolves_ldn, Gen.resolves_stk, Gen.resolves_osl, Gen.resolves_zur, Gen.resolves_tro,
     Gen.resolves_tyo, Gen.resolves_syd, Gen.resolves_wlg, Gen.resolves_mum].all id = true := by
  decide +kernel

end Rateslib.C07
