import RateslibModel.Model.Holidays
import RateslibModel.Gen.HolidayTables
import RateslibModel.Gen.Fixings
namespace Rateslib.C07
open Rateslib

/-- over the period covered by the inr fixing history the business days of "mum" are exactly the
publication dates -/
theorem fixings_inr :
    Gen.fixingDates_inr ≠ [] ∧
    busDaysCheck Gen.mask_mum
      ((Gen.fixingDates_inr.getLast?.getD 0 - Gen.fixingDates_inr.headD 0 + 1).toNat)
      (Gen.fixingDates_inr.headD 0) Gen.wdHols_mum Gen.fixingDates_inr = true := by
  decide +kernel

end Rateslib.C07
