/-
Helper lemmas for Props/C20.lean: the loader model (`Model/Load.lean`) only ever returns values that
passed the validating data models.
-/
import RateslibModel.Model.Load
import RateslibModel.Proofs.DualOps
namespace Rateslib
open Load

theorem ccy_try_new_spec (name c : String) (h : ccyTryNew name = some c) :
    c = lowerStr name ∧ c.utf8ByteSize = 3 := by
  unfold ccyTryNew at h
  simp only at h
  split at h
  · next h3 => injection h with h; subst h; exact ⟨rfl, h3⟩
  · cases h


/-! ### lower-casing -/

theorem toNat_ofNat_small (m : Nat) (h : m < 0xD800) : (Char.ofNat m).toNat = m := by
  have hv : m.isValidChar := Or.inl h
  simp [Char.ofNat, hv, Char.toNat, Char.ofNatAux]

/-- the code points `lowerChar` moves -/
def IsCapital (n : Nat) : Prop :=
  (0x41 ≤ n ∧ n ≤ 0x5A) ∨ (0xC0 ≤ n ∧ n ≤ 0xDE ∧ n ≠ 0xD7) ∨ (0x410 ≤ n ∧ n ≤ 0x42F) ∨ (0x400 ≤ n ∧ n ≤ 0x40F) ∨
  n = 0x212A ∨ n = 0x212B ∨ n = 0x2126 ∨ n = 0x1E9E ∨ n = 0x23A ∨ n = 0x23E

theorem lowerChar_of_not_capital (c : Char) (h : ¬ IsCapital c.toNat) : lowerChar c = c := by
  unfold IsCapital at h
  unfold lowerChar
  simp only
  rw [if_neg (by omega), if_neg (by omega), if_neg (by omega), if_neg (by omega), if_neg (by omega),
    if_neg (by omega), if_neg (by omega), if_neg (by omega)]

/-- no image of `lowerChar` is a capital -/
theorem not_capital_lowerChar (c : Char) : ¬ IsCapital (lowerChar c).toNat := by
  unfold lowerChar IsCapital
  simp only
  split
  · rw [toNat_ofNat_small _ (by omega)]; omega
  · split
    · rw [toNat_ofNat_small _ (by omega)]; omega
    · split
      · rw [toNat_ofNat_small _ (by omega)]; omega
      · split
        · rw [toNat_ofNat_small _ (by omega)]; omega
        · split
          · rw [toNat_ofNat_small _ (by omega)]; omega
          · split
            · rw [toNat_ofNat_small _ (by omega)]; omega
            · split
              · rw [toNat_ofNat_small _ (by omega)]; omega
              · split
                · rw [toNat_ofNat_small _ (by omega)]; omega
                · omega

/-- lower-casing a lower-cased character changes nothing -/
theorem lowerChar_idem (c : Char) : lowerChar (lowerChar c) = lowerChar c :=
  lowerChar_of_not_capital _ (not_capital_lowerChar c)

theorem lowerStr_idem (s : String) : lowerStr (lowerStr s) = lowerStr s := by
  unfold lowerStr
  rw [String.map_map]
  congr 1
  funext c
  exact lowerChar_idem c

theorem ccy_stored_reloads (name c : String) (h : ccyTryNew name = some c) : ccyTryNew c = some c := by
  obtain ⟨h1, h2⟩ := ccy_try_new_spec name c h
  unfold ccyTryNew
  simp only
  rw [h1, lowerStr_idem, ← h1, if_pos h2]

theorem fxpair_self_rejected (l r : String) (h : lowerStr l = lowerStr r) : fxPairTryNew l r = none := by
  have hc : ccyTryNew l = ccyTryNew r := by unfold ccyTryNew; simp only [h]
  unfold fxPairTryNew
  rw [hc]
  cases hr : ccyTryNew r with
  | none => rfl
  | some b => simp

theorem fxpair_accepts_iff (l r : String) :
    (fxPairTryNew l r).isSome ↔
      ((lowerStr l).utf8ByteSize = 3 ∧ (lowerStr r).utf8ByteSize = 3 ∧ lowerStr l ≠ lowerStr r) := by
  unfold fxPairTryNew ccyTryNew
  simp only
  by_cases h1 : (lowerStr l).utf8ByteSize = 3 <;> by_cases h2 : (lowerStr r).utf8ByteSize = 3 <;>
    by_cases h3 : lowerStr l = lowerStr r <;> simp [h1, h2, h3]

section FX
variable {α : Type} [Add α] [Sub α] [Mul α] [Div α] [Neg α] [OfNat α 0] [OfNat α 1] [OfNat α 2]
  [Transc α]

theorem createFxArray_one_ad (cs : List String) (quotes : List (FXQuote α)) (arr : FxArray α)
    (h : createFxArray cs quotes .one = some arr) : arr.ad = .one := by
  unfold createFxArray at h
  simp only at h
  rw [Option.map_eq_some_iff] at h
  obtain ⟨a, _, rfl⟩ := h
  rfl

theorem fxrates_try_new_spec (quotes : List (FXQuote α)) (base : Option String) (f : FXRates α)
    (h : FXRates.tryNew quotes base = .ok f) :
    f.quotes = quotes ∧ f.currencies = fxCurrencies quotes base ∧
    f.currencies.length = f.quotes.length + 1 ∧ f.arr.ad = .one := by
  unfold FXRates.tryNew at h
  simp only at h
  repeat' split at h
  all_goals cases h
  all_goals (rename_i harr; exact ⟨rfl, rfl, by simp only; omega, createFxArray_one_ad _ _ _ harr⟩)

end FX

theorem mapM_mem {α β : Type} (f : α → Option β) : ∀ (l : List α) (r : List β), l.mapM f = some r →
    ∀ x ∈ r, ∃ a ∈ l, f a = some x := by
  intro l
  induction l with
  | nil => intro r h x hx; simp at h; subst h; cases hx
  | cons a as ih =>
    intro r h x hx
    rw [List.mapM_cons] at h
    cases hfa : f a with
    | none => simp [hfa] at h
    | some b =>
      cases hrest : as.mapM f with
      | none => simp [hfa, hrest] at h
      | some bs =>
        simp [hfa, hrest] at h
        subst h
        rcases List.mem_cons.mp hx with rfl | hx
        · exact ⟨a, List.mem_cons_self, hfa⟩
        · obtain ⟨a', ha', hf⟩ := ih bs hrest x hx
          exact ⟨a', List.mem_cons_of_mem _ ha', hf⟩

theorem load_dual (j : JVal) (s : DualShape) (h : loadDual j = some s) : s.nvars = s.ndual := by
  unfold loadDual at h
  rw [Option.bind_eq_some_iff] at h
  obtain ⟨r, _, hv⟩ := h
  unfold validDual at hv
  split at hv
  · next he => injection hv with hv; subst hv; exact he
  · cases hv

theorem load_dual2 (j : JVal) (s : Dual2Shape) (h : loadDual2 j = some s) :
    s.nvars = s.ndual ∧ s.rows = s.nvars ∧ s.cols = s.nvars := by
  unfold loadDual2 at h
  rw [Option.bind_eq_some_iff] at h
  obtain ⟨r, _, hv⟩ := h
  unfold validDual2 at hv
  split at hv
  · next he => injection hv with hv; subst hv; exact he
  · cases hv

theorem valid_spline (k : Nat) (t : List JNum) (c : Option Nat) (n : Nat) (s : SplineShape)
    (h : validSpline k t c n = some s) :
    2 ≤ s.t ∧ s.k ≤ s.t ∧ s.n = s.t - s.k ∧ (∀ l, s.c = some l → l = s.n) ∧ sortedNums t = true := by
  unfold validSpline at h
  split at h
  · cases h
  · next h1 =>
    split at h
    · cases h
    · next h2 =>
      split at h
      · cases h
      · next h3 =>
        injection h with h
        subst h
        simp only [Bool.or_eq_true, decide_eq_true_eq, Bool.not_eq_true', not_or, Nat.not_lt,
          Bool.not_eq_false] at h1
        simp only [gt_iff_lt, bne_iff_ne, ne_eq, Bool.or_eq_true, decide_eq_true_eq, not_or,
          Nat.not_lt, Decidable.not_not] at h2
        refine ⟨h1.1, h2.1, h2.2, ?_, h1.2⟩
        intro l hl
        simp only at hl
        subst hl
        simpa [coeffsOk] using h3

theorem load_spline_inner {α : Type} (elem : JVal → Option α) (j : JVal) (s : SplineShape)
    (h : loadSplineInner elem j = some s) :
    ∃ k t c n, validSpline k t c n = some s := by
  unfold loadSplineInner at h
  repeat' split at h
  all_goals first | cases h | exact ⟨_, _, _, _, h⟩

theorem load_spline {α : Type} (elem : JVal → Option α) (j : JVal) (s : SplineShape)
    (h : loadSpline elem j = some s) :
    2 ≤ s.t ∧ s.k ≤ s.t ∧ s.n = s.t - s.k ∧ (∀ l, s.c = some l → l = s.n) := by
  unfold loadSpline at h
  repeat' split at h
  all_goals first | cases h | skip
  rename_i i _
  cases i with
  | none => cases h
  | some v =>
    obtain ⟨k, t, c, n, hv⟩ := load_spline_inner elem v s h
    obtain ⟨a, b, c', d, _⟩ := valid_spline k t c n s hv
    exact ⟨a, b, c', d⟩

theorem load_ccy (j : JVal) (c : String) (h : loadCcy j = some c) : c.utf8ByteSize = 3 := by
  unfold loadCcy at h
  repeat' split at h
  all_goals first | cases h | skip
  rw [Option.bind_eq_some_iff] at h
  obtain ⟨nm, _, hc⟩ := h
  exact (ccy_try_new_spec nm c hc).2

theorem req_some {α : Type} (f : JVal → Option α) (o : Option JVal) (x : α) (h : req f o = some x) :
    ∃ v, o = some v ∧ f v = some x := by
  cases o with
  | none => cases h
  | some v => exact ⟨v, rfl, h⟩

theorem load_fxpair (j : JVal) (a b : String) (h : loadFXPair j = some (a, b)) :
    a.utf8ByteSize = 3 ∧ b.utf8ByteSize = 3 ∧ a ≠ b := by
  unfold loadFXPair at h
  repeat' split at h
  all_goals first | cases h | skip
  exact ⟨load_ccy _ _ ‹loadCcy _ = some a›, load_ccy _ _ ‹loadCcy _ = some b›, ‹¬ a = b›⟩

theorem load_fxrate (j : JVal) (q : QuoteShape) (h : loadFXRate j = some q) :
    q.lhs.utf8ByteSize = 3 ∧ q.rhs.utf8ByteSize = 3 ∧ q.lhs ≠ q.rhs := by
  unfold loadFXRate at h
  repeat' split at h
  all_goals first | cases h | skip
  obtain ⟨v, _, hv⟩ := req_some _ _ _ ‹req loadFXPair _ = some _›
  exact load_fxpair v _ _ hv

theorem insertCcy_mem (l : List String) (x c : String) (h : c ∈ insertCcy l x) : c ∈ l ∨ c = x := by
  unfold insertCcy at h
  split at h
  · exact Or.inl h
  · rcases List.mem_append.mp h with h | h
    · exact Or.inl h
    · exact Or.inr (by simpa using h)

theorem foldl_ccy_mem {α : Type} (quotes : List (FXQuote α)) : ∀ (init : List String) (c : String),
    c ∈ quotes.foldl (fun acc q => insertCcy (insertCcy acc q.lhs) q.rhs) init →
    c ∈ init ∨ ∃ q ∈ quotes, c = q.lhs ∨ c = q.rhs := by
  induction quotes with
  | nil => intro init c h; exact Or.inl h
  | cons q qs ih =>
    intro init c h
    rw [List.foldl_cons] at h
    rcases ih _ c h with h | ⟨q', hq', hc⟩
    · rcases insertCcy_mem _ _ _ h with h | h
      · rcases insertCcy_mem _ _ _ h with h | h
        · exact Or.inl h
        · exact Or.inr ⟨q, List.mem_cons_self, Or.inl h⟩
      · exact Or.inr ⟨q, List.mem_cons_self, Or.inr h⟩
    · exact Or.inr ⟨q', List.mem_cons_of_mem _ hq', hc⟩

theorem fxCurrencies_mem {α : Type} (quotes : List (FXQuote α)) (base : Option String) (c : String)
    (h : c ∈ fxCurrencies quotes base) :
    base = some c ∨ ∃ q ∈ quotes, c = q.lhs ∨ c = q.rhs := by
  unfold fxCurrencies at h
  rcases foldl_ccy_mem quotes _ c h with h | h
  · left
    cases base with
    | none => cases h
    | some b => simp at h; subst h; rfl
  · exact Or.inr h

theorem valid_fxrates (quotes : List QuoteShape) (ccys : List String) (s : FXShape)
    (hq : ∀ q ∈ quotes, q.lhs.utf8ByteSize = 3 ∧ q.rhs.utf8ByteSize = 3)
    (hc : ∀ c ∈ ccys, c.utf8ByteSize = 3)
    (h : validFXRates quotes ccys = some s) :
    s.currencies.length = s.nquotes + 1 ∧ ∀ c ∈ s.currencies, c.utf8ByteSize = 3 := by
  unfold validFXRates at h
  cases hb : ccys.head? with
  | none => simp [hb] at h
  | some base =>
    simp only [hb] at h
    cases ht : FXRates.tryNew (quotes.map quoteOf) (some base) with
    | error e => simp [ht] at h
    | ok f =>
      simp only [ht] at h
      injection h with h
      subst h
      obtain ⟨h1, h2, h3, _⟩ := fxrates_try_new_spec _ _ f ht
      refine ⟨h3, ?_⟩
      intro c hcm
      simp only at hcm
      rw [h2] at hcm
      rcases fxCurrencies_mem _ _ c hcm with hbase | ⟨q, hqm, hcq⟩
      · injection hbase with hbase
        subst hbase
        exact hc _ (List.mem_of_mem_head? hb)
      · obtain ⟨q0, hq0, rfl⟩ := List.mem_map.mp hqm
        rcases hcq with rfl | rfl
        · exact (hq q0 hq0).1
        · exact (hq q0 hq0).2

theorem load_fxrates (j : JVal) (s : FXShape) (h : loadFXRates j = some s) :
    s.currencies.length = s.nquotes + 1 ∧ ∀ c ∈ s.currencies, c.utf8ByteSize = 3 := by
  unfold loadFXRates at h
  repeat' split at h
  all_goals first | cases h | skip
  obtain ⟨vq, _, hvq⟩ := req_some _ _ _ ‹req (asVec loadFXRate) _ = some _›
  obtain ⟨vc, _, hvc⟩ := req_some _ _ _ ‹req (asVec loadCcy) _ = some _›
  refine valid_fxrates _ _ s ?_ ?_ h
  · intro q hq
    cases vq with
    | arr l =>
      obtain ⟨a, _, ha⟩ := mapM_mem loadFXRate l _ hvq q hq
      exact ⟨(load_fxrate a q ha).1, (load_fxrate a q ha).2.1⟩
    | _ => cases hvq
  · intro c hc
    rw [mem_dedup] at hc
    cases vc with
    | arr l =>
      obtain ⟨a, _, ha⟩ := mapM_mem loadCcy l _ hvc c hc
      exact load_ccy a c ha
    | _ => cases hvc

theorem load_named (table : String → Option Cal) (j : JVal) (nm : String)
    (h : loadNamedCal table j = some nm) : ∃ name u, namedTryNew table name = .ok (nm, u) := by
  unfold loadNamedCal at h
  repeat' split at h
  all_goals first | cases h | skip
  exact ⟨_, _, ‹namedTryNew table _ = .ok _›⟩

/-! ### curves -/

/-- the shape invariant of a loaded curve's nodes: every dual-number node passed its validating model -/
def NodesOK : NodesShape → Prop
  | .f64 _ => True
  | .dual l => ∀ d ∈ l, d.nvars = d.ndual
  | .dual2 l => ∀ d ∈ l, d.nvars = d.ndual ∧ d.rows = d.nvars ∧ d.cols = d.nvars

theorem mem_lastPerKey {α : Type} (l : List (Int × α)) (x : α) (h : x ∈ lastPerKey l) :
    ∃ k, (k, x) ∈ l := by
  unfold lastPerKey at h
  simp only [List.mem_filterMap] at h
  obtain ⟨k, _, hk⟩ := h
  cases hl : (l.filter (fun kv => kv.1 == k)).getLast? with
  | none => rw [hl] at hk; cases hk
  | some p =>
    rw [hl] at hk
    simp only [Option.map_some, Option.some.injEq] at hk
    have hm : p ∈ l.filter (fun kv => kv.1 == k) := List.mem_of_getLast? hl
    have := (List.mem_filter.1 hm).1
    exact ⟨p.1, by rw [← hk]; exact this⟩

theorem asI64Map_mem {α : Type} (elem : JVal → Option α) (j : JVal) (l : List (Int × α))
    (h : asI64Map elem j = some l) : ∀ p ∈ l, ∃ j', elem j' = some p.2 := by
  cases j with
  | obj kvs =>
    simp only [asI64Map] at h
    intro p hp
    obtain ⟨kv, _, hkv⟩ := mapM_mem _ kvs l h p hp
    cases hk : parseI64Key kv.1 with
    | none => simp [hk] at hkv
    | some k =>
      cases he : elem kv.2 with
      | none => simp [hk, he] at hkv
      | some v =>
        simp [hk, he] at hkv
        exact ⟨kv.2, by rw [he, ← hkv]⟩
  | _ => simp [asI64Map] at h

theorem load_nodes (j : JVal) (s : NodesShape) (h : loadNodes j = some s) : NodesOK s := by
  unfold loadNodes at h
  split at h
  · rw [Option.map_eq_some_iff] at h
    obtain ⟨l, _, rfl⟩ := h
    trivial
  · rw [Option.map_eq_some_iff] at h
    obtain ⟨l, hl, rfl⟩ := h
    intro d hd
    obtain ⟨k, hk⟩ := mem_lastPerKey l d hd
    obtain ⟨j', hj'⟩ := asI64Map_mem loadDual _ l hl (k, d) hk
    exact load_dual j' d hj'
  · rw [Option.map_eq_some_iff] at h
    obtain ⟨l, hl, rfl⟩ := h
    intro d hd
    obtain ⟨k, hk⟩ := mem_lastPerKey l d hd
    obtain ⟨j', hj'⟩ := asI64Map_mem loadDual2 _ l hl (k, d) hk
    exact load_dual2 j' d hj'
  · cases h

/-- A curve loaded from ANY JSON tree: every dual-number node is well shaped, the interpolation rule,
day-count convention, modifier and calendar kind are ones the library defines. -/
theorem load_curve (table : String → Option Cal) (j : JVal) (s : CurveShape)
    (h : loadCurve table j = some s) :
    NodesOK s.nodes ∧ s.interpolator ∈ interpolatorNames ∧ s.convention ∈ conventionNames ∧
    s.modifier ∈ modifierNames ∧ s.calendar ∈ ["Cal", "UnionCal", "NamedCal"] := by
  unfold loadCurve at h
  split at h
  · rename_i i _
    obtain ⟨ji, _, hi⟩ := req_some _ _ _ h
    unfold loadCurveDF at hi
    split at hi
    · split at hi
      · rename_i n i' d c m b k hn hi' hd hc hm hb hk
        injection hi with hi
        subst hi
        obtain ⟨jn, _, hjn⟩ := req_some _ _ _ hn
        obtain ⟨jI, _, hjI⟩ := req_some _ _ _ hi'
        obtain ⟨jc, _, hjc⟩ := req_some _ _ _ hc
        obtain ⟨jm, _, hjm⟩ := req_some _ _ _ hm
        obtain ⟨jk, _, hjk⟩ := req_some _ _ _ hk
        refine ⟨load_nodes jn _ hjn, ?_, ?_, ?_, ?_⟩
        · unfold loadInterpolator at hjI
          split at hjI
          · split at hjI
            · rename_i hcond
              injection hjI with hjI
              subst hjI
              simp only [Bool.and_eq_true] at hcond
              exact List.contains_iff_mem.mp hcond.1 |> fun h => by simpa using h
            · cases hjI
          · cases hjI
        · unfold unitEnumOf at hjc
          split at hjc
          · split at hjc
            · rename_i hcond; injection hjc with hjc; subst hjc; simpa using hcond
            · cases hjc
          · split at hjc
            · rename_i hcond; injection hjc with hjc; subst hjc; simpa using hcond
            · cases hjc
          · cases hjc
        · unfold unitEnumOf at hjm
          split at hjm
          · split at hjm
            · rename_i hcond; injection hjm with hjm; subst hjm; simpa using hcond
            · cases hjm
          · split at hjm
            · rename_i hcond; injection hjm with hjm; subst hjm; simpa using hcond
            · cases hjm
          · cases hjm
        · unfold loadCalType at hjk
          split at hjk
          · rw [Option.map_eq_some_iff] at hjk; obtain ⟨_, _, rfl⟩ := hjk; simp
          · rw [Option.map_eq_some_iff] at hjk; obtain ⟨_, _, rfl⟩ := hjk; simp
          · rw [Option.map_eq_some_iff] at hjk; obtain ⟨_, _, rfl⟩ := hjk; simp
          · cases hjk
      · cases hi
    · cases hi
  · cases h

end Rateslib
