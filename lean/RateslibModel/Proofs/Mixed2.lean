/-
Second order: a float on either side of + − × ÷ gives the same number — value, every first and every second
derivative, i.e. the same 2-jet along every direction — as promoting the float to a variable-free constant.
-/
import RateslibModel.Proofs.Jet2Ring
namespace Rateslib
open Expr

attribute [local instance] linOpsJ

theorem dirJet_const (f α β : ℝ) (v w : String) : dirJet α β v w (Dual2.new f []) = ⟨f, 0, 0⟩ := by
  obtain ⟨_, r, d1, d2⟩ := new_const_spec f
  apply J2.ext'
  · exact r
  · simp [dirJet, d1]
  · simp [dirJet, d2]

/-- the 2-jet of a number that keeps `d`'s variable list, gradient and Hessian and only changes the value -/
theorem dirJet_same_parts (d : Dual2 ℝ) (r α β : ℝ) (v w : String) :
    dirJet α β v w ⟨r, d.vars, d.dual, d.dual2⟩ = ⟨r, (dirJet α β v w d).v1, (dirJet α β v w d).v2⟩ := rfl

theorem mixed2_eq_promoted (f : ℝ) (d : Dual2 ℝ) (hd : d.WF) (α β : ℝ) (v w : String) :
    dirJet α β v w (Dual2.addF d f) = dirJet α β v w (Dual2.add false d (Dual2.new f [])) ∧
    dirJet α β v w (Dual2.subF d f) = dirJet α β v w (Dual2.sub false d (Dual2.new f [])) ∧
    dirJet α β v w (Dual2.fSub f d) = dirJet α β v w (Dual2.sub false (Dual2.new f []) d) ∧
    dirJet α β v w (Dual2.mulF d f) = dirJet α β v w (Dual2.mul false d (Dual2.new f [])) ∧
    dirJet α β v w (Dual2.divF d f) = dirJet α β v w (Dual2.div false d (Dual2.new f [])) ∧
    dirJet α β v w (Dual2.fDiv f d) = dirJet α β v w (Dual2.div false (Dual2.new f []) d) := by
  have wn : (Dual2.new f []).WF := (new_const_spec f).1
  have H := dirJet_linHom α β v w
  have hc := dirJet_const f α β v w
  refine ⟨?_, ?_, ?_, ?_, ?_, ?_⟩
  · have := (H.add d (Dual2.new f []) hd wn).2
    rw [show dirJet α β v w (Dual2.add false d (Dual2.new f [])) = dirJet α β v w d + dirJet α β v w (Dual2.new f [])
      from this, hc]
    apply J2.ext' <;> simp [Dual2.addF, dirJet_same_parts] <;> rfl
  · have := (H.sub d (Dual2.new f []) hd wn).2
    rw [show dirJet α β v w (Dual2.sub false d (Dual2.new f [])) = dirJet α β v w d - dirJet α β v w (Dual2.new f [])
      from this, hc]
    apply J2.ext' <;> simp [Dual2.subF, dirJet_same_parts] <;> rfl
  · have := (H.sub (Dual2.new f []) d wn hd).2
    rw [show dirJet α β v w (Dual2.sub false (Dual2.new f []) d) = dirJet α β v w (Dual2.new f []) - dirJet α β v w d
      from this, hc]
    have N := neg_spec d hd
    have hn : dirJet α β v w (Dual2.fSub f d) = ⟨f - d.real, -(dirJet α β v w d).v1, -(dirJet α β v w d).v2⟩ := by
      have h1 : ∀ n, Dual2.den (Dual2.fSub f d) n = -Dual2.den d n := fun n => by
        have := N.den n; simpa [Dual2.neg, Dual2.fSub, Dual2.den] using this
      have h2 : ∀ n m, Dual2.den2 (Dual2.fSub f d) n m = -Dual2.den2 d n m := fun n m => by
        have := N.den2 n m; simpa [Dual2.neg, Dual2.fSub, Dual2.den2] using this
      apply J2.ext'
      · rfl
      · simp only [dirJet, h1]; ring
      · simp only [dirJet, h2]; ring
    rw [hn]
    apply J2.ext' <;> simp [dirJet]
  · have := (H.mul d (Dual2.new f []) hd wn).2
    rw [show dirJet α β v w (Dual2.mul false d (Dual2.new f [])) = dirJet α β v w d * dirJet α β v w (Dual2.new f [])
      from this, hc]
    have S := scaleL_spec d hd (d.real * f) f
    have hm : dirJet α β v w (Dual2.mulF d f) = ⟨d.real * f, f * (dirJet α β v w d).v1, f * (dirJet α β v w d).v2⟩ := by
      apply J2.ext'
      · rfl
      · simp only [dirJet, Dual2.mulF, S.den]; ring
      · simp only [dirJet, Dual2.mulF, S.den2]; ring
    rw [hm]
    apply J2.ext' <;> simp [dirJet] <;> ring
  · -- d / f = d * f^(-1)
    have P := pow_spec (Dual2.new f []) wn (-1)
    have hp : dirJet α β v w (Dual2.pow (Dual2.new f []) (-1)) = ⟨f⁻¹, 0, 0⟩ := by
      rw [chain_dirJet P, hc]
      apply J2.ext'
      · show (Dual2.new f []).real ^ (-1 : ℝ) = f⁻¹
        exact Real.rpow_neg_one f
      · simp
      · simp
    have hmul := (H.mul d (Dual2.pow (Dual2.new f []) (-1)) hd P.wf).2
    have hdiv : dirJet α β v w (Dual2.div false d (Dual2.new f []))
        = dirJet α β v w d * dirJet α β v w (Dual2.pow (Dual2.new f []) (-1)) := hmul
    rw [hdiv, hp]
    have S := scaleL_spec d hd (d.real / f) (1 / f)
    have hm : dirJet α β v w (Dual2.divF d f)
        = ⟨d.real / f, 1 / f * (dirJet α β v w d).v1, 1 / f * (dirJet α β v w d).v2⟩ := by
      apply J2.ext'
      · rfl
      · simp only [dirJet, Dual2.divF, S.den]; ring
      · simp only [dirJet, Dual2.divF, S.den2]; ring
    rw [hm]
    apply J2.ext' <;> simp [dirJet, div_eq_mul_inv] <;> ring
  · -- f / d = f * d^(-1)
    have P := pow_spec d hd (-1)
    have hmul := (H.mul (Dual2.new f []) (Dual2.pow d (-1)) wn P.wf).2
    have hdiv : dirJet α β v w (Dual2.div false (Dual2.new f []) d)
        = dirJet α β v w (Dual2.new f []) * dirJet α β v w (Dual2.pow d (-1)) := hmul
    rw [hdiv, hc, chain_dirJet P]
    have S := cdf_shape_spec d hd (f / d.real) (-f / (d.real * d.real)) (f / (d.real * d.real * d.real))
    have hm : dirJet α β v w (Dual2.fDiv f d)
        = ⟨f / d.real, -f / (d.real * d.real) * (dirJet α β v w d).v1,
            -f / (d.real * d.real) * (dirJet α β v w d).v2
              + f / (d.real * d.real * d.real) * ((dirJet α β v w d).v1 * (dirJet α β v w d).v1)⟩ := by
      have := chain_dirJet S α β v w
      simpa [Dual2.fDiv] using this
    rw [hm]
    have e1 : d.real ^ (-1 : ℝ) = (d.real)⁻¹ := Real.rpow_neg_one _
    apply J2.ext'
    · simp only [J2.mul_v0]; rw [e1]; ring
    · simp only [J2.mul_v1, rpow_neg_two, e1]; ring
    · simp only [J2.mul_v2, J2.mul_v1, rpow_neg_two, rpow_neg_three, e1]; ring

end Rateslib
