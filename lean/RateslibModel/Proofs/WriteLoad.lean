/-
The documents `to_json` writes are accepted by the loader (document side of C16): for every Dual, Dual2 and
float-noded Curve document of the written form (`Model/Load.lean`, `writeDual`, `writeDual2`, `writeCurveF64`)
whose contents satisfy the type's invariants (distinct names, matching array lengths, distinct integer keys,
known enum names), the loader model returns exactly the shape that was written.
-/
import RateslibModel.Proofs.Load
import Mathlib.Tactic.NormNum
namespace Rateslib
open Load

@[simp] theorem mapM_num (xs : List JNum) : List.mapM (asF64 ∘ JVal.num) xs = some xs := by
  induction xs with
  | nil => rfl
  | cons x xs ih => simp [List.mapM_cons, asF64, ih]

@[simp] theorem mapM_str (xs : List String) : List.mapM (asStr ∘ JVal.str) xs = some xs := by
  induction xs with
  | nil => rfl
  | cons x xs ih => simp [List.mapM_cons, asStr, ih]

theorem asArr1_nd1 (xs : List JNum) (h : xs.length < 2 ^ 64) : asArr1 asF64 (nd1 xs) = some xs := by
  have h' : xs.length < 18446744073709551616 := h
  simp [asArr1, nd1, ndFields, valuesOf, versionOk, asU8, natNum, asVec, asUsize, h']

theorem asArr2_nd2 (r c : Nat) (xs : List JNum) (hr : r < 2 ^ 64) (hc : c < 2 ^ 64) (hl : xs.length = r * c) :
    asArr2 asF64 (nd2 r c xs) = some (r, c) := by
  have hr' : r < 18446744073709551616 := hr
  have hc' : c < 18446744073709551616 := hc
  simp [asArr2, nd2, ndFields, valuesOf, versionOk, asU8, natNum, asVec, asUsize, hr', hc', hl]

theorem load_written_dual (re : JNum) (names : List String) (d : List JNum) (hn : names.Nodup)
    (hl : d.length = names.length) (hsz : d.length < 2 ^ 64) :
    loadDual (writeDual re names d) = some ⟨names.length, names.length⟩ := by
  simp [loadDual, rawDual, writeDual, fieldsOf, fieldOf, valuesOf, req, asF64, asVec,
    asArr1_nd1 d hsz, dedup_of_nodup names hn, validDual, hl]

theorem load_written_dual2 (re : JNum) (names : List String) (d h : List JNum) (hn : names.Nodup)
    (hl : d.length = names.length) (hh : h.length = names.length * names.length) (hsz : d.length < 2 ^ 64) :
    loadDual2 (writeDual2 re names d h) = some ⟨names.length, names.length, names.length, names.length⟩ := by
  have hsz' : names.length < 2 ^ 64 := hl ▸ hsz
  simp [loadDual2, rawDual2, writeDual2, fieldsOf, fieldOf, valuesOf, req, asF64, asVec,
    asArr1_nd1 d hsz, asArr2_nd2 _ _ h hsz' hsz' hh, dedup_of_nodup names hn, validDual2, hl]

theorem eraseDups_of_nodup {α : Type} [BEq α] [LawfulBEq α] : ∀ (l : List α), l.Nodup → l.eraseDups = l := by
  intro l
  induction l with
  | nil => intro _; rfl
  | cons a as ih =>
    intro h
    rw [List.nodup_cons] at h
    rw [List.eraseDups_cons]
    have hf : as.filter (fun b => !b == a) = as := by
      rw [List.filter_eq_self]
      intro b hb
      have : b ≠ a := fun e => h.1 (e ▸ hb)
      simp [this]
    rw [hf, ih h.2]

theorem length_filterMap_of_isSome {α β : Type} (f : α → Option β) :
    ∀ (l : List α), (∀ a ∈ l, (f a).isSome) → (l.filterMap f).length = l.length := by
  intro l
  induction l with
  | nil => intro _; rfl
  | cons a as ih =>
    intro h
    have ha := h a List.mem_cons_self
    obtain ⟨b, hb⟩ := Option.isSome_iff_exists.1 ha
    rw [List.filterMap_cons, hb]
    simp [ih (fun x hx => h x (List.mem_cons_of_mem _ hx))]

/-- distinct keys: every node survives -/
theorem length_lastPerKey {α : Type} (l : List (Int × α)) (h : (l.map (·.1)).Nodup) :
    (lastPerKey l).length = l.length := by
  unfold lastPerKey
  simp only
  rw [eraseDups_of_nodup _ h, length_filterMap_of_isSome]
  · simp
  · intro k hk
    obtain ⟨kv, hkv, rfl⟩ := List.mem_map.1 hk
    have : kv ∈ l.filter (fun x => x.1 == kv.1) := by simp [List.mem_filter, hkv]
    cases hl : (l.filter (fun x => x.1 == kv.1)).getLast? with
    | none => rw [List.getLast?_eq_none_iff] at hl; rw [hl] at this; cases this
    | some v => rfl
theorem asI64Map_written (keys : List String) (ks : List Int) (vals : List JNum)
    (hk : keys.map parseI64Key = ks.map some) (hl : vals.length = keys.length) :
    asI64Map asF64 (.obj (keys.zip (vals.map .num))) = some (ks.zip vals) := by
  unfold asI64Map
  simp only
  induction keys generalizing ks vals with
  | nil =>
    cases ks with
    | nil => simp
    | cons k ks => simp at hk
  | cons s keys ih =>
    cases ks with
    | nil => simp at hk
    | cons k ks =>
      cases vals with
      | nil => simp at hl
      | cons v vals =>
        simp only [List.map_cons, List.cons.injEq] at hk
        have hv : asF64 (JVal.num v) = some v := rfl
        simp only [List.map_cons, List.zip_cons_cons, List.mapM_cons, hk.1, hv]
        rw [ih ks vals hk.2 (by simpa using hl)]
        rfl

theorem load_written_curve (table : String → Option Cal) (keys : List String) (ks : List Int)
    (vals : List JNum) (interp id conv modi : String) (base : Option JNum) (cal : String)
    (hk : keys.map parseI64Key = ks.map some) (hd : ks.Nodup) (hl : vals.length = keys.length)
    (hi : interp ∈ interpolatorNames) (hc : conv ∈ conventionNames)
    (hm : modi ∈ modifierNames) (hcal : loadNamedCal table (.obj [("name", .str cal)]) = some cal) :
    loadCurve table (writeCurveF64 keys vals interp id conv modi base cal)
      = some ⟨.f64 keys.length, interp, id, conv, modi, base.isSome, "NamedCal"⟩ := by
  have hlen : ks.length = keys.length := by
    have := congrArg List.length hk; simpa using this.symm
  have hn : loadNodes (.obj [("F64", .obj (keys.zip (vals.map .num)))]) = some (.f64 keys.length) := by
    simp only [loadNodes, enumOf, asI64Map_written keys ks vals hk hl, Option.map_some]
    rw [length_lastPerKey]
    · simp [hlen, hl]
    · have : (ks.zip vals).map (·.1) = ks := by
        rw [List.map_fst_zip]; omega
      rw [this]; exact hd
  cases base with
  | none =>
    simp [loadCurve, writeCurveF64, loadCurveDF, fieldsOf, fieldOf, valuesOf, req, opt, asOpt, hn, loadInterpolator,
      enumOf, hi, asStr, unitEnumOf, hc, hm, loadCalType, hcal]
  | some b =>
    simp [loadCurve, writeCurveF64, loadCurveDF, fieldsOf, fieldOf, valuesOf, req, opt, asOpt, hn, loadInterpolator,
      enumOf, hi, asStr, unitEnumOf, hc, hm, loadCalType, hcal, asF64]
theorem load_written_spline (k : Nat) (t : List JNum) (c : Option (List JNum)) (n : Nat)
    (ht : 2 ≤ t.length) (hs : sortedNums t = true) (hk : k ≤ t.length) (hn : n = t.length - k)
    (hc : ∀ xs, c = some xs → xs.length = n) (hsz : t.length < 2 ^ 64) :
    loadSpline asF64 (writeSplineF64 k t c n) = some ⟨k, t.length, n, c.map List.length⟩ := by
  have hk' : k < 18446744073709551616 := by have : (2:Nat)^64 = 18446744073709551616 := by norm_num
                                            omega
  have hn' : n < 18446744073709551616 := by have : (2:Nat)^64 = 18446744073709551616 := by norm_num
                                            omega
  have hv : validSpline k t (c.map List.length) n = some ⟨k, t.length, n, c.map List.length⟩ := by
    unfold validSpline
    have h1 : ¬ (t.length < 2) := by omega
    have h2 : ¬ (k > t.length) := by omega
    cases c with
    | none => simp [h1, hs, h2, hn, coeffsOk]
    | some xs => simp [h1, hs, h2, hn, coeffsOk, hc xs rfl]
  cases c with
  | none =>
    simp [loadSpline, writeSplineF64, loadSplineInner, fieldsOf, fieldOf, valuesOf, req, opt, asOpt, asUsize,
      natNum, hk', hn', asVec] at hv ⊢
    exact hv
  | some xs =>
    have hx : xs.length < 2 ^ 64 := by rw [hc xs rfl]; have : (2:Nat)^64 = 18446744073709551616 := by norm_num
                                       omega
    have ha := asArr1_nd1 xs hx
    have hnn : nd1 xs ≠ JVal.null := by simp [nd1]
    simp [loadSpline, writeSplineF64, loadSplineInner, fieldsOf, fieldOf, valuesOf, req, opt, asUsize,
      natNum, hk', hn', asVec] at hv ⊢
    simp [asOpt, nd1] at ha ⊢
    rw [ha]
    simpa using hv

/-- a stored calendar: distinct holidays written in the library's datetime text, distinct weekday names -/
def CalDocOK (c : List String × List String) : Prop :=
  (∃ ds : List Int, c.1.map parseDateTime = ds.map some ∧ ds.Nodup) ∧
  (∃ ws : List Nat, c.2.map parseWeekday = ws.map some ∧ ws.Nodup)

theorem mapM_of_map_eq {α β : Type} (f : α → Option β) : ∀ (xs : List α) (ys : List β),
    xs.map f = ys.map some → xs.mapM f = some ys := by
  intro xs
  induction xs with
  | nil => intro ys h; cases ys with
    | nil => rfl
    | cons y ys => simp at h
  | cons x xs ih =>
    intro ys h
    cases ys with
    | nil => simp at h
    | cons y ys =>
      simp only [List.map_cons, List.cons.injEq] at h
      simp [List.mapM_cons, h.1, ih ys h.2]

theorem load_written_cal (c : List String × List String) (h : CalDocOK c) :
    loadCal (writeCal c.1 c.2) = some ⟨c.1.length, c.2.length⟩ := by
  obtain ⟨⟨ds, hd, hdn⟩, ⟨ws, hw, hwn⟩⟩ := h
  have h1 : List.mapM (asDateTime ∘ JVal.str) c.1 = some ds := by
    apply mapM_of_map_eq
    simpa [asDateTime, asStr, Function.comp_def] using hd
  have h2 : List.mapM (asWeekday ∘ JVal.str) c.2 = some ws := by
    apply mapM_of_map_eq
    simpa [asWeekday, asStr, Function.comp_def] using hw
  have l1 : ds.length = c.1.length := by have := congrArg List.length hd; simpa using this.symm
  have l2 : ws.length = c.2.length := by have := congrArg List.length hw; simpa using this.symm
  simp [loadCal, writeCal, fieldsOf, fieldOf, valuesOf, req, asVec, h1, h2, eraseDups_of_nodup _ hdn,
    eraseDups_of_nodup _ hwn, l1, l2]

theorem mapM_written_cals (cs : List (List String × List String)) (h : ∀ c ∈ cs, CalDocOK c) :
    List.mapM (loadCal ∘ fun c => writeCal c.1 c.2) cs = some (cs.map (fun c => ⟨c.1.length, c.2.length⟩)) := by
  induction cs with
  | nil => rfl
  | cons c cs ih =>
    simp [List.mapM_cons, load_written_cal c (h c List.mem_cons_self),
      ih (fun x hx => h x (List.mem_cons_of_mem _ hx))]

theorem load_written_unioncal (cals : List (List String × List String))
    (settle : Option (List (List String × List String)))
    (hc : ∀ c ∈ cals, CalDocOK c) (hs : ∀ ss, settle = some ss → ∀ c ∈ ss, CalDocOK c) :
    loadUnionCal (writeUnionCal cals settle) = some (cals.length, settle.map List.length) := by
  cases settle with
  | none =>
    simp [loadUnionCal, writeUnionCal, fieldsOf, fieldOf, valuesOf, req, opt, asOpt, asVec, mapM_written_cals cals hc]
  | some ss =>
    have := mapM_written_cals ss (hs ss rfl)
    simp [loadUnionCal, writeUnionCal, fieldsOf, fieldOf, valuesOf, req, opt, asOpt, asVec, mapM_written_cals cals hc,
      this]

/-- `NamedCal::try_new` looks at the lower-cased name only -/
theorem namedTryNew_lower (table : String → Option Cal) (name : String) :
    namedTryNew table (lowerStr name) = namedTryNew table name := by
  unfold namedTryNew
  simp only [lowerStr_idem]

/-- A saved named calendar (stored by its lower-cased name) loads to the same name and the same calendars. -/
theorem load_written_namedcal (table : String → Option Cal) (name nm : String) (u : UnionCal)
    (h : namedTryNew table name = .ok (nm, u)) :
    loadNamedCal table (writeNamedCal nm) = some nm ∧ namedTryNew table nm = .ok (nm, u) := by
  have hnm : nm = lowerStr name := by
    unfold namedTryNew at h
    simp only at h
    split at h
    · split at h
      · cases h
      · injection h with h; injection h with h1 _; exact h1.symm
    · split at h
      · cases h
      · split at h
        · cases h
        · injection h with h; injection h with h1 _; exact h1.symm
    · cases h
  have h2 : namedTryNew table nm = .ok (nm, u) := by rw [hnm, namedTryNew_lower]; rw [← hnm]; exact h
  refine ⟨?_, h2⟩
  simp [loadNamedCal, writeNamedCal, fieldsOf, fieldOf, valuesOf, req, asStr, h2]

theorem nd1_eq (xs : List JNum) : nd1 xs = nd1g (xs.map .num) := by simp [nd1, nd1g]

theorem length_mapM_some {α β : Type} (f : α → Option β) : ∀ (xs : List α) (ys : List β),
    xs.mapM f = some ys → ys.length = xs.length := by
  intro xs
  induction xs with
  | nil => intro ys h; simp at h; subst h; rfl
  | cons x xs ih =>
    intro ys h
    rw [List.mapM_cons] at h
    cases hx : f x with
    | none => simp [hx] at h
    | some y =>
      cases hr : xs.mapM f with
      | none => simp [hx, hr] at h
      | some r =>
        simp [hx, hr] at h
        subst h
        simp [ih r hr]

theorem asArr1_nd1g {α : Type} (elem : JVal → Option α) (items : List JVal) (vals : List α)
    (h : items.mapM elem = some vals) (hsz : items.length < 2 ^ 64) :
    asArr1 elem (nd1g items) = some vals := by
  have h' : items.length < 18446744073709551616 := hsz
  have hl : vals.length = items.length := by
    exact length_mapM_some elem items vals h
  simp [asArr1, nd1g, ndFields, valuesOf, versionOk, asU8, natNum, asVec, asUsize, h', h, hl]

def Load.NumDoc.OK : NumDoc → Prop
  | .f64 _ => True
  | .dual _ names d => names.Nodup ∧ d.length = names.length ∧ d.length < 2 ^ 64
  | .dual2 _ names d h => names.Nodup ∧ d.length = names.length ∧ h.length = names.length * names.length ∧
      d.length < 2 ^ 64

theorem load_written_number (n : NumDoc) (h : n.OK) : loadNumber (writeNumber n) = some () := by
  cases n with
  | f64 x => simp [loadNumber, writeNumber, enumOf, asF64]
  | dual re names d =>
    obtain ⟨h1, h2, h3⟩ := h
    simp [loadNumber, writeNumber, enumOf, load_written_dual re names d h1 h2 h3]
  | dual2 re names d hh =>
    obtain ⟨h1, h2, h3, h4⟩ := h
    simp [loadNumber, writeNumber, enumOf, load_written_dual2 re names d hh h1 h2 h3 h4]

/-! distinct keys: the node map keeps every node, in document order -/

theorem filter_key_of_nodup {α : Type} : ∀ (l : List (Int × α)), (l.map (·.1)).Nodup → ∀ kv ∈ l,
    l.filter (fun x => x.1 == kv.1) = [kv] := by
  intro l
  induction l with
  | nil => intro _ kv h; cases h
  | cons a as ih =>
    intro hn kv hkv
    simp only [List.map_cons, List.nodup_cons] at hn
    rcases List.mem_cons.1 hkv with rfl | hin
    · have : as.filter (fun x => x.1 == kv.1) = [] := by
        rw [List.filter_eq_nil_iff]
        intro x hx hxe
        exact hn.1 (List.mem_map.2 ⟨x, hx, by simpa using hxe⟩)
      simp [List.filter_cons, this]
    · have hne : ¬ (a.1 == kv.1) = true := by
        intro he
        exact hn.1 (List.mem_map.2 ⟨kv, hin, by simpa using (beq_iff_eq.1 he).symm⟩)
      simp only [List.filter_cons, hne]
      exact ih hn.2 kv hin

theorem lastPerKey_of_nodup {α : Type} (l : List (Int × α)) (h : (l.map (·.1)).Nodup) :
    lastPerKey l = l.map (·.2) := by
  unfold lastPerKey
  simp only
  rw [eraseDups_of_nodup _ h, List.filterMap_map]
  rw [show l.map (·.2) = l.filterMap (fun kv => some kv.2) by simp [List.filterMap_eq_map]]
  apply List.filterMap_congr
  intro kv hkv
  simp only [Function.comp]
  rw [filter_key_of_nodup l h kv hkv]
  rfl

theorem writeSplineF64_eq (k : Nat) (t : List JNum) (c : Option (List JNum)) (n : Nat) :
    writeSplineF64 k t c n = writeSplineG k t (c.map (fun xs => xs.map .num)) n := by
  cases c <;> simp [writeSplineF64, writeSplineG, nd1_eq]

theorem load_written_spline_g {α : Type} (elem : JVal → Option α) (k : Nat) (t : List JNum)
    (c : Option (List JVal)) (n : Nat)
    (ht : 2 ≤ t.length) (hs : sortedNums t = true) (hk : k ≤ t.length) (hn : n = t.length - k)
    (hc : ∀ items, c = some items → items.length = n ∧ ∃ vals, items.mapM elem = some vals)
    (hsz : t.length < 2 ^ 64) :
    loadSpline elem (writeSplineG k t c n) = some ⟨k, t.length, n, c.map List.length⟩ := by
  have e64 : (2:Nat)^64 = 18446744073709551616 := by norm_num
  have hk' : k < 18446744073709551616 := by omega
  have hn' : n < 18446744073709551616 := by omega
  have hv : validSpline k t (c.map List.length) n = some ⟨k, t.length, n, c.map List.length⟩ := by
    unfold validSpline
    have h1 : ¬ (t.length < 2) := by omega
    have h2 : ¬ (k > t.length) := by omega
    cases c with
    | none => simp [h1, hs, h2, hn, coeffsOk]
    | some xs => simp [h1, hs, h2, hn, coeffsOk, (hc xs rfl).1]
  cases c with
  | none =>
    simp [loadSpline, writeSplineG, loadSplineInner, fieldsOf, fieldOf, valuesOf, req, opt, asOpt, asUsize,
      natNum, hk', hn', asVec] at hv ⊢
    exact hv
  | some items =>
    obtain ⟨hl, vals, hvals⟩ := hc items rfl
    have hx : items.length < 2 ^ 64 := by omega
    have ha := asArr1_nd1g elem items vals hvals hx
    have hvl : vals.length = items.length := length_mapM_some elem items vals hvals
    simp [loadSpline, writeSplineG, loadSplineInner, fieldsOf, fieldOf, valuesOf, req, opt, asUsize,
      natNum, hk', hn', asVec] at hv ⊢
    simp [asOpt, nd1g] at ha ⊢
    rw [ha]
    simpa [hvl] using hv

/-- written first-order coefficient documents load -/
theorem mapM_written_duals (ds : List (JNum × List String × List JNum))
    (h : ∀ x ∈ ds, NumDoc.OK (.dual x.1 x.2.1 x.2.2)) :
    (ds.map (fun x => writeDual x.1 x.2.1 x.2.2)).mapM loadDual
      = some (ds.map (fun x => ⟨x.2.1.length, x.2.1.length⟩)) := by
  induction ds with
  | nil => rfl
  | cons x xs ih =>
    obtain ⟨h1, h2, h3⟩ := h x List.mem_cons_self
    simp only [List.map_cons, List.mapM_cons, load_written_dual x.1 x.2.1 x.2.2 h1 h2 h3,
      ih (fun y hy => h y (List.mem_cons_of_mem _ hy))]
    rfl

theorem mapM_written_dual2s (ds : List (JNum × List String × List JNum × List JNum))
    (h : ∀ x ∈ ds, NumDoc.OK (.dual2 x.1 x.2.1 x.2.2.1 x.2.2.2)) :
    (ds.map (fun x => writeDual2 x.1 x.2.1 x.2.2.1 x.2.2.2)).mapM loadDual2
      = some (ds.map (fun x => ⟨x.2.1.length, x.2.1.length, x.2.1.length, x.2.1.length⟩)) := by
  induction ds with
  | nil => rfl
  | cons x xs ih =>
    obtain ⟨h1, h2, h3, h4⟩ := h x List.mem_cons_self
    simp only [List.map_cons, List.mapM_cons, load_written_dual2 x.1 x.2.1 x.2.2.1 x.2.2.2 h1 h2 h3 h4,
      ih (fun y hy => h y (List.mem_cons_of_mem _ hy))]
    rfl

theorem writeCurveF64_eq (keys : List String) (vals : List JNum) (interp id conv modi : String)
    (base : Option JNum) (cal : String) :
    writeCurveF64 keys vals interp id conv modi base cal
      = writeCurveG (.obj [("F64", .obj (keys.zip (vals.map .num)))]) (.obj [("NamedCal", writeNamedCal cal)])
          interp id conv modi base := rfl

theorem load_written_curve_g (table : String → Option Cal) (nodesDoc calDoc : JVal) (ns : NodesShape)
    (kind : String) (interp id conv modi : String) (base : Option JNum)
    (hn : loadNodes nodesDoc = some ns) (hcal : loadCalType table calDoc = some kind)
    (hi : interp ∈ interpolatorNames) (hc : conv ∈ conventionNames) (hm : modi ∈ modifierNames) :
    loadCurve table (writeCurveG nodesDoc calDoc interp id conv modi base)
      = some ⟨ns, interp, id, conv, modi, base.isSome, kind⟩ := by
  cases base with
  | none =>
    simp [loadCurve, writeCurveG, loadCurveDF, fieldsOf, fieldOf, valuesOf, req, opt, asOpt, hn, loadInterpolator,
      enumOf, hi, asStr, unitEnumOf, hc, hm, hcal]
  | some b =>
    simp [loadCurve, writeCurveG, loadCurveDF, fieldsOf, fieldOf, valuesOf, req, opt, asOpt, hn, loadInterpolator,
      enumOf, hi, asStr, unitEnumOf, hc, hm, hcal, asF64]

/-- a typed node map written under distinct integer keys: every node is read, in document order -/
theorem asI64Map_written_g {α : Type} (elem : JVal → Option α) (keys : List String) (ks : List Int)
    (items : List JVal) (vals : List α)
    (hk : keys.map parseI64Key = ks.map some) (hv : items.mapM elem = some vals) (hl : items.length = keys.length) :
    asI64Map elem (.obj (keys.zip items)) = some (ks.zip vals) := by
  unfold asI64Map
  simp only
  induction keys generalizing ks items vals with
  | nil =>
    cases ks with
    | nil => simp
    | cons k ks => simp at hk
  | cons s keys ih =>
    cases ks with
    | nil => simp at hk
    | cons k ks =>
      cases items with
      | nil => simp at hl
      | cons it items =>
        simp only [List.map_cons, List.cons.injEq] at hk
        rw [List.mapM_cons] at hv
        cases hx : elem it with
        | none => simp [hx] at hv
        | some v =>
          cases hr : items.mapM elem with
          | none => simp [hx, hr] at hv
          | some r =>
            simp [hx, hr] at hv
            subst hv
            simp only [List.zip_cons_cons, List.mapM_cons, hk.1, hx]
            rw [ih ks items r hk.2 hr (by simpa using hl)]
            rfl

theorem loadNodes_dual (keys : List String) (ks : List Int) (ds : List (JNum × List String × List JNum))
    (hk : keys.map parseI64Key = ks.map some) (hd : ks.Nodup) (hl : ds.length = keys.length)
    (h : ∀ x ∈ ds, NumDoc.OK (.dual x.1 x.2.1 x.2.2)) :
    loadNodes (.obj [("Dual", .obj (keys.zip (ds.map (fun x => writeDual x.1 x.2.1 x.2.2))))])
      = some (.dual (ds.map (fun x => ⟨x.2.1.length, x.2.1.length⟩))) := by
  have hlen : ks.length = keys.length := by have := congrArg List.length hk; simpa using this.symm
  have hm := asI64Map_written_g loadDual keys ks _ _ hk (mapM_written_duals ds h) (by simpa using hl)
  simp only [loadNodes, enumOf, hm, Option.map_some]
  rw [lastPerKey_of_nodup]
  · rw [List.map_snd_zip]; simp; omega
  · rw [List.map_fst_zip]; exact hd; simp; omega

theorem loadNodes_dual2 (keys : List String) (ks : List Int)
    (ds : List (JNum × List String × List JNum × List JNum))
    (hk : keys.map parseI64Key = ks.map some) (hd : ks.Nodup) (hl : ds.length = keys.length)
    (h : ∀ x ∈ ds, NumDoc.OK (.dual2 x.1 x.2.1 x.2.2.1 x.2.2.2)) :
    loadNodes (.obj [("Dual2", .obj (keys.zip (ds.map (fun x => writeDual2 x.1 x.2.1 x.2.2.1 x.2.2.2))))])
      = some (.dual2 (ds.map (fun x => ⟨x.2.1.length, x.2.1.length, x.2.1.length, x.2.1.length⟩))) := by
  have hlen : ks.length = keys.length := by have := congrArg List.length hk; simpa using this.symm
  have hm := asI64Map_written_g loadDual2 keys ks _ _ hk (mapM_written_dual2s ds h) (by simpa using hl)
  simp only [loadNodes, enumOf, hm, Option.map_some]
  rw [lastPerKey_of_nodup]
  · rw [List.map_snd_zip]; simp; omega
  · rw [List.map_fst_zip]; exact hd; simp; omega

theorem loadCalType_cal (table : String → Option Cal) (c : List String × List String) (h : CalDocOK c) :
    loadCalType table (.obj [("Cal", writeCal c.1 c.2)]) = some "Cal" := by
  simp [loadCalType, enumOf, load_written_cal c h]

theorem loadCalType_union (table : String → Option Cal) (cals : List (List String × List String))
    (settle : Option (List (List String × List String)))
    (hc : ∀ c ∈ cals, CalDocOK c) (hs : ∀ ss, settle = some ss → ∀ c ∈ ss, CalDocOK c) :
    loadCalType table (.obj [("UnionCal", writeUnionCal cals settle)]) = some "UnionCal" := by
  simp [loadCalType, enumOf, load_written_unioncal cals settle hc hs]

theorem loadCalType_named (table : String → Option Cal) (nm : String)
    (h : loadNamedCal table (writeNamedCal nm) = some nm) :
    loadCalType table (.obj [("NamedCal", writeNamedCal nm)]) = some "NamedCal" := by
  simp [loadCalType, enumOf, h]

/-- the invariants of a stored quote: both names are stored (lower-cased, three-byte) names, distinct; the
settlement text is the date it stands for -/
def Load.WQuote.OK (q : WQuote) : Prop :=
  ccyTryNew q.lhs = some q.lhs ∧ ccyTryNew q.rhs = some q.rhs ∧ q.lhs ≠ q.rhs ∧ q.rate.OK ∧
  ∀ s d, q.settlement = some (s, d) → parseDateTime s = some d

theorem loadCcy_doc (c : String) (h : ccyTryNew c = some c) : loadCcy (ccyDoc c) = some c := by
  simp [loadCcy, ccyDoc, fieldsOf, fieldOf, valuesOf, req, asStr, h]

theorem load_written_fxrate (q : WQuote) (h : q.OK) : loadFXRate (writeFXRate q) = some q.shape := by
  obtain ⟨h1, h2, h3, hro, h4⟩ := h
  have hp : loadFXPair (.arr [ccyDoc q.lhs, ccyDoc q.rhs]) = some (q.lhs, q.rhs) := by
    simp [loadFXPair, loadCcy_doc _ h1, loadCcy_doc _ h2, h3]
  have hr : loadNumber (writeNumber q.rate) = some () := load_written_number q.rate hro
  cases hs : q.settlement with
  | none =>
    simp [loadFXRate, writeFXRate, fieldsOf, fieldOf, valuesOf, req, opt, asOpt, hp, hr, hs, WQuote.shape]
  | some sd =>
    obtain ⟨s, d⟩ := sd
    have hd := h4 s d hs
    simp [loadFXRate, writeFXRate, fieldsOf, fieldOf, valuesOf, req, opt, asOpt, hp, hr, hs, WQuote.shape,
      asDateTime, asStr, hd]

theorem mapM_written_fxrates (qs : List WQuote) (h : ∀ q ∈ qs, q.OK) :
    List.mapM (loadFXRate ∘ writeFXRate) qs = some (qs.map WQuote.shape) := by
  induction qs with
  | nil => rfl
  | cons q qs ih =>
    simp [List.mapM_cons, load_written_fxrate q (h q List.mem_cons_self),
      ih (fun x hx => h x (List.mem_cons_of_mem _ hx))]

theorem mapM_written_ccys (cs : List String) (h : ∀ c ∈ cs, ccyTryNew c = some c) :
    List.mapM (loadCcy ∘ ccyDoc) cs = some cs := by
  induction cs with
  | nil => rfl
  | cons c cs ih =>
    simp [List.mapM_cons, loadCcy_doc c (h c List.mem_cons_self),
      ih (fun x hx => h x (List.mem_cons_of_mem _ hx))]

/-- A saved FX market reaches the loader's `try_new` with exactly the stored quotes and currencies: loading the
written document is the validation of the stored state, nothing is lost or altered on the way. -/
theorem load_written_fxrates (qs : List WQuote) (cs : List String) (hq : ∀ q ∈ qs, q.OK)
    (hc : ∀ c ∈ cs, ccyTryNew c = some c) (hn : cs.Nodup) :
    loadFXRates (writeFXRates qs cs) = validFXRates (qs.map WQuote.shape) cs := by
  simp [loadFXRates, writeFXRates, fieldsOf, fieldOf, valuesOf, req, asVec, mapM_written_fxrates qs hq,
    mapM_written_ccys cs hc, dedup_of_nodup cs hn]
end Rateslib
