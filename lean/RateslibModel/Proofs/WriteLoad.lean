/-
The documents `to_json` writes are accepted by the loader (document side of C16): for every Dual, Dual2 and
float-noded Curve document of the written form (`Model/Load.lean`, `writeDual`, `writeDual2`, `writeCurveF64`)
whose contents satisfy the type's invariants (distinct names, matching array lengths, distinct integer keys,
known enum names), the loader model returns exactly the shape that was written.
-/
import RateslibModel.Proofs.Load
import Mathlib.Tactic.NormNum
namespace Rateslib
open Load

@[simp] theorem mapM_num (xs : List JNum) : List.mapM (asF64 ∘ JVal.num) xs = some xs := by
  induction xs with
  | nil => rfl
  | cons x xs ih => simp [List.mapM_cons, asF64, ih]

@[simp] theorem mapM_str (xs : List String) : List.mapM (asStr ∘ JVal.str) xs = some xs := by
  induction xs with
  | nil => rfl
  | cons x xs ih => simp [List.mapM_cons, asStr, ih]

theorem asArr1_nd1 (xs : List JNum) (h : xs.length < 2 ^ 64) : asArr1 asF64 (nd1 xs) = some xs := by
  have h' : xs.length < 18446744073709551616 := h
  simp [asArr1, nd1, ndFields, valuesOf, versionOk, asU8, natNum, asVec, asUsize, h']

theorem asArr2_nd2 (r c : Nat) (xs : List JNum) (hr : r < 2 ^ 64) (hc : c < 2 ^ 64) (hl : xs.length = r * c) :
    asArr2 asF64 (nd2 r c xs) = some (r, c) := by
  have hr' : r < 18446744073709551616 := hr
  have hc' : c < 18446744073709551616 := hc
  simp [asArr2, nd2, ndFields, valuesOf, versionOk, asU8, natNum, asVec, asUsize, hr', hc', hl]

theorem load_written_dual (re : JNum) (names : List String) (d : List JNum) (hn : names.Nodup)
    (hl : d.length = names.length) (hsz : d.length < 2 ^ 64) :
    loadDual (writeDual re names d) = some ⟨names.length, names.length⟩ := by
  simp [loadDual, rawDual, writeDual, fieldsOf, fieldOf, valuesOf, req, asF64, asVec,
    asArr1_nd1 d hsz, dedup_of_nodup names hn, validDual, hl]

theorem load_written_dual2 (re : JNum) (names : List String) (d h : List JNum) (hn : names.Nodup)
    (hl : d.length = names.length) (hh : h.length = names.length * names.length) (hsz : d.length < 2 ^ 64) :
    loadDual2 (writeDual2 re names d h) = some ⟨names.length, names.length, names.length, names.length⟩ := by
  have hsz' : names.length < 2 ^ 64 := hl ▸ hsz
  simp [loadDual2, rawDual2, writeDual2, fieldsOf, fieldOf, valuesOf, req, asF64, asVec,
    asArr1_nd1 d hsz, asArr2_nd2 _ _ h hsz' hsz' hh, dedup_of_nodup names hn, validDual2, hl]

theorem eraseDups_of_nodup {α : Type} [BEq α] [LawfulBEq α] : ∀ (l : List α), l.Nodup → l.eraseDups = l := by
  intro l
  induction l with
  | nil => intro _; rfl
  | cons a as ih =>
    intro h
    rw [List.nodup_cons] at h
    rw [List.eraseDups_cons]
    have hf : as.filter (fun b => !b == a) = as := by
      rw [List.filter_eq_self]
      intro b hb
      have : b ≠ a := fun e => h.1 (e ▸ hb)
      simp [this]
    rw [hf, ih h.2]

theorem length_filterMap_of_isSome {α β : Type} (f : α → Option β) :
    ∀ (l : List α), (∀ a ∈ l, (f a).isSome) → (l.filterMap f).length = l.length := by
  intro l
  induction l with
  | nil => intro _; rfl
  | cons a as ih =>
    intro h
    have ha := h a List.mem_cons_self
    obtain ⟨b, hb⟩ := Option.isSome_iff_exists.1 ha
    rw [List.filterMap_cons, hb]
    simp [ih (fun x hx => h x (List.mem_cons_of_mem _ hx))]

/-- distinct keys: every node survives -/
theorem length_lastPerKey {α : Type} (l : List (Int × α)) (h : (l.map (·.1)).Nodup) :
    (lastPerKey l).length = l.length := by
  unfold lastPerKey
  simp only
  rw [eraseDups_of_nodup _ h, length_filterMap_of_isSome]
  · simp
  · intro k hk
    obtain ⟨kv, hkv, rfl⟩ := List.mem_map.1 hk
    have : kv ∈ l.filter (fun x => x.1 == kv.1) := by simp [List.mem_filter, hkv]
    cases hl : (l.filter (fun x => x.1 == kv.1)).getLast? with
    | none => rw [List.getLast?_eq_none_iff] at hl; rw [hl] at this; cases this
    | some v => rfl
theorem asI64Map_written (keys : List String) (ks : List Int) (vals : List JNum)
    (hk : keys.map parseI64Key = ks.map some) (hl : vals.length = keys.length) :
    asI64Map asF64 (.obj (keys.zip (vals.map .num))) = some (ks.zip vals) := by
  unfold asI64Map
  simp only
  induction keys generalizing ks vals with
  | nil =>
    cases ks with
    | nil => simp
    | cons k ks => simp at hk
  | cons s keys ih =>
    cases ks with
    | nil => simp at hk
    | cons k ks =>
      cases vals with
      | nil => simp at hl
      | cons v vals =>
        simp only [List.map_cons, List.cons.injEq] at hk
        have hv : asF64 (JVal.num v) = some v := rfl
        simp only [List.map_cons, List.zip_cons_cons, List.mapM_cons, hk.1, hv]
        rw [ih ks vals hk.2 (by simpa using hl)]
        rfl

theorem load_written_curve (table : String → Option Cal) (keys : List String) (ks : List Int)
    (vals : List JNum) (interp id conv modi : String) (base : Option JNum) (cal : String)
    (hk : keys.map parseI64Key = ks.map some) (hd : ks.Nodup) (hl : vals.length = keys.length)
    (hi : interp ∈ interpolatorNames) (hc : conv ∈ conventionNames)
    (hm : modi ∈ modifierNames) (hcal : loadNamedCal table (.obj [("name", .str cal)]) = some cal) :
    loadCurve table (writeCurveF64 keys vals interp id conv modi base cal)
      = some ⟨.f64 keys.length, interp, id, conv, modi, base.isSome, "NamedCal"⟩ := by
  have hlen : ks.length = keys.length := by
    have := congrArg List.length hk; simpa using this.symm
  have hn : loadNodes (.obj [("F64", .obj (keys.zip (vals.map .num)))]) = some (.f64 keys.length) := by
    simp only [loadNodes, enumOf, asI64Map_written keys ks vals hk hl, Option.map_some]
    rw [length_lastPerKey]
    · simp [hlen, hl]
    · have : (ks.zip vals).map (·.1) = ks := by
        rw [List.map_fst_zip]; omega
      rw [this]; exact hd
  cases base with
  | none =>
    simp [loadCurve, writeCurveF64, loadCurveDF, fieldsOf, fieldOf, valuesOf, req, opt, asOpt, hn, loadInterpolator,
      enumOf, hi, asStr, unitEnumOf, hc, hm, loadCalType, hcal]
  | some b =>
    simp [loadCurve, writeCurveF64, loadCurveDF, fieldsOf, fieldOf, valuesOf, req, opt, asOpt, hn, loadInterpolator,
      enumOf, hi, asStr, unitEnumOf, hc, hm, loadCalType, hcal, asF64]
theorem load_written_spline (k : Nat) (t : List JNum) (c : Option (List JNum)) (n : Nat)
    (ht : 2 ≤ t.length) (hs : sortedNums t = true) (hk : k ≤ t.length) (hn : n = t.length - k)
    (hc : ∀ xs, c = some xs → xs.length = n) (hsz : t.length < 2 ^ 64) :
    loadSpline asF64 (writeSplineF64 k t c n) = some ⟨k, t.length, n, c.map List.length⟩ := by
  have hk' : k < 18446744073709551616 := by have : (2:Nat)^64 = 18446744073709551616 := by norm_num
                                            omega
  have hn' : n < 18446744073709551616 := by have : (2:Nat)^64 = 18446744073709551616 := by norm_num
                                            omega
  have hv : validSpline k t (c.map List.length) n = some ⟨k, t.length, n, c.map List.length⟩ := by
    unfold validSpline
    have h1 : ¬ (t.length < 2) := by omega
    have h2 : ¬ (k > t.length) := by omega
    cases c with
    | none => simp [h1, hs, h2, hn, coeffsOk]
    | some xs => simp [h1, hs, h2, hn, coeffsOk, hc xs rfl]
  cases c with
  | none =>
    simp [loadSpline, writeSplineF64, loadSplineInner, fieldsOf, fieldOf, valuesOf, req, opt, asOpt, asUsize,
      natNum, hk', hn', asVec] at hv ⊢
    exact hv
  | some xs =>
    have hx : xs.length < 2 ^ 64 := by rw [hc xs rfl]; have : (2:Nat)^64 = 18446744073709551616 := by norm_num
                                       omega
    have ha := asArr1_nd1 xs hx
    have hnn : nd1 xs ≠ JVal.null := by simp [nd1]
    simp [loadSpline, writeSplineF64, loadSplineInner, fieldsOf, fieldOf, valuesOf, req, opt, asUsize,
      natNum, hk', hn', asVec] at hv ⊢
    simp [asOpt, nd1] at ha ⊢
    rw [ha]
    simpa using hv

/-- the invariants of a stored quote: both names are stored (lower-cased, three-byte) names, distinct; the
settlement text is the date it stands for -/
def Load.WQuote.OK (q : WQuote) : Prop :=
  ccyTryNew q.lhs = some q.lhs ∧ ccyTryNew q.rhs = some q.rhs ∧ q.lhs ≠ q.rhs ∧
  ∀ s d, q.settlement = some (s, d) → parseDateTime s = some d

theorem loadCcy_doc (c : String) (h : ccyTryNew c = some c) : loadCcy (ccyDoc c) = some c := by
  simp [loadCcy, ccyDoc, fieldsOf, fieldOf, valuesOf, req, asStr, h]

theorem load_written_fxrate (q : WQuote) (h : q.OK) : loadFXRate (writeFXRate q) = some q.shape := by
  obtain ⟨h1, h2, h3, h4⟩ := h
  have hp : loadFXPair (.arr [ccyDoc q.lhs, ccyDoc q.rhs]) = some (q.lhs, q.rhs) := by
    simp [loadFXPair, loadCcy_doc _ h1, loadCcy_doc _ h2, h3]
  have hr : loadNumber (.obj [("F64", .num q.rate)]) = some () := by
    simp [loadNumber, enumOf, asF64]
  cases hs : q.settlement with
  | none =>
    simp [loadFXRate, writeFXRate, fieldsOf, fieldOf, valuesOf, req, opt, asOpt, hp, hr, hs, WQuote.shape]
  | some sd =>
    obtain ⟨s, d⟩ := sd
    have hd := h4 s d hs
    simp [loadFXRate, writeFXRate, fieldsOf, fieldOf, valuesOf, req, opt, asOpt, hp, hr, hs, WQuote.shape,
      asDateTime, asStr, hd]

theorem mapM_written_fxrates (qs : List WQuote) (h : ∀ q ∈ qs, q.OK) :
    List.mapM (loadFXRate ∘ writeFXRate) qs = some (qs.map WQuote.shape) := by
  induction qs with
  | nil => rfl
  | cons q qs ih =>
    simp [List.mapM_cons, load_written_fxrate q (h q List.mem_cons_self),
      ih (fun x hx => h x (List.mem_cons_of_mem _ hx))]

theorem mapM_written_ccys (cs : List String) (h : ∀ c ∈ cs, ccyTryNew c = some c) :
    List.mapM (loadCcy ∘ ccyDoc) cs = some cs := by
  induction cs with
  | nil => rfl
  | cons c cs ih =>
    simp [List.mapM_cons, loadCcy_doc c (h c List.mem_cons_self),
      ih (fun x hx => h x (List.mem_cons_of_mem _ hx))]

/-- A saved FX market reaches the loader's `try_new` with exactly the stored quotes and currencies: loading the
written document is the validation of the stored state, nothing is lost or altered on the way. -/
theorem load_written_fxrates (qs : List WQuote) (cs : List String) (hq : ∀ q ∈ qs, q.OK)
    (hc : ∀ c ∈ cs, ccyTryNew c = some c) (hn : cs.Nodup) :
    loadFXRates (writeFXRates qs cs) = validFXRates (qs.map WQuote.shape) cs := by
  simp [loadFXRates, writeFXRates, fieldsOf, fieldOf, valuesOf, req, asVec, mapM_written_fxrates qs hq,
    mapM_written_ccys cs hc, dedup_of_nodup cs hn]
end Rateslib
