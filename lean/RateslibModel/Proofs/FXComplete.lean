/-
Completeness and rejection for the triangulation `fill` (= mut_arrays_remaining_elements): on a quote
graph that connects all currencies the loop terminates with every pair populated (within `fillFuel`);
on a graph that does not, it never returns a result.  Pure graph reasoning on the `edges` array — the
element type plays no role.
-/
import RateslibModel.Proofs.FXInit
import Mathlib.Tactic.Linarith
set_option linter.unusedSectionVars false
namespace Rateslib

/-! ### counting -/

theorem rowCount_le (n : Nat) (e : Nat → Bool) : ((List.range n).filter e).length ≤ n := by
  calc _ ≤ (List.range n).length := List.length_filter_le _ _
    _ = n := List.length_range

theorem filter_len_mono (l : List Nat) (p q : Nat → Bool) (h : ∀ x ∈ l, p x = true → q x = true) :
    (l.filter p).length ≤ (l.filter q).length := by
  induction l with
  | nil => simp
  | cons x xs ih =>
    have ih' := ih (fun y hy => h y (List.mem_cons_of_mem _ hy))
    have hx := h x List.mem_cons_self
    simp only [List.filter_cons]
    by_cases hp : p x = true
    · rw [if_pos hp, if_pos (hx hp)]; simp only [List.length_cons]; omega
    · rw [if_neg hp]
      split
      · simp only [List.length_cons]; omega
      · exact ih'

theorem filter_len_strict (l : List Nat) (p q : Nat → Bool) (h : ∀ x ∈ l, p x = true → q x = true)
    (x0 : Nat) (hx0 : x0 ∈ l) (hp0 : p x0 = false) (hq0 : q x0 = true) :
    (l.filter p).length < (l.filter q).length := by
  induction l with
  | nil => cases hx0
  | cons x xs ih =>
    have hmono := filter_len_mono xs p q (fun y hy => h y (List.mem_cons_of_mem _ hy))
    simp only [List.filter_cons]
    rcases List.mem_cons.mp hx0 with rfl | hmem
    · rw [hp0, hq0]; simp only [Bool.false_eq_true, if_false, if_true, List.length_cons]; omega
    · have ih' := ih (fun y hy => h y (List.mem_cons_of_mem _ hy)) hmem
      have hx := h x List.mem_cons_self
      by_cases hp : p x = true
      · rw [if_pos hp, if_pos (hx hp)]; simp only [List.length_cons]; omega
      · rw [if_neg hp]
        split
        · simp only [List.length_cons]; omega
        · exact ih'

theorem sum_map_mono (l : List Nat) (f g : Nat → Nat) (h : ∀ x ∈ l, f x ≤ g x) :
    (l.map f).sum ≤ (l.map g).sum := by
  induction l with
  | nil => simp
  | cons x xs ih =>
    have := ih (fun y hy => h y (List.mem_cons_of_mem _ hy))
    have hx := h x List.mem_cons_self
    simp only [List.map_cons, List.sum_cons]; omega

theorem sum_map_strict (l : List Nat) (f g : Nat → Nat) (h : ∀ x ∈ l, f x ≤ g x)
    (x0 : Nat) (hx0 : x0 ∈ l) (hlt : f x0 < g x0) : (l.map f).sum < (l.map g).sum := by
  induction l with
  | nil => cases hx0
  | cons x xs ih =>
    have hm := sum_map_mono xs f g (fun y hy => h y (List.mem_cons_of_mem _ hy))
    have hx := h x List.mem_cons_self
    simp only [List.map_cons, List.sum_cons]
    rcases List.mem_cons.mp hx0 with rfl | hmem
    · omega
    · have := ih (fun y hy => h y (List.mem_cons_of_mem _ hy)) hmem
      omega

theorem edgeCount_le (n : Nat) (e : Nat → Nat → Bool) : edgeCount n e ≤ n * n := by
  unfold edgeCount
  have := sum_le_of_le n ((List.range n).map (fun i => ((List.range n).filter (fun j => e i j)).length))
    (by intro x hx; obtain ⟨k, _, rfl⟩ := List.mem_map.1 hx; exact rowCount_le n _)
  simpa using this

theorem edgeCount_strict (n : Nat) (e e' : Nat → Nat → Bool)
    (hm : ∀ i j, i < n → j < n → e i j = true → e' i j = true)
    (i0 j0 : Nat) (hi : i0 < n) (hj : j0 < n) (h0 : e i0 j0 = false) (h1 : e' i0 j0 = true) :
    edgeCount n e < edgeCount n e' := by
  unfold edgeCount
  apply sum_map_strict (List.range n) _ _ _ i0 (List.mem_range.2 hi)
  · exact filter_len_strict (List.range n) _ _
      (fun j hj' hp => hm i0 j hi (List.mem_range.1 hj') hp) j0 (List.mem_range.2 hj) h0 h1
  · intro i hi'
    exact filter_len_mono (List.range n) _ _
      (fun j hj' hp => hm i j (List.mem_range.1 hi') (List.mem_range.1 hj') hp)

theorem edgeCount_full_of_all (n : Nat) (e : Nat → Nat → Bool)
    (h : ∀ i j, i < n → j < n → e i j = true) : edgeCount n e = n * n := by
  unfold edgeCount
  have hrow : ∀ i ∈ List.range n, ((List.range n).filter (fun j => e i j)).length = n := by
    intro i hi
    have : (List.range n).filter (fun j => e i j) = List.range n := by
      apply List.filter_eq_self.2
      intro j hj; exact h i j (List.mem_range.1 hi) (List.mem_range.1 hj)
    rw [this, List.length_range]
  have : (List.range n).map (fun i => ((List.range n).filter (fun j => e i j)).length)
      = (List.range n).map (fun _ => n) := List.map_congr_left hrow
  rw [this]
  simp

/-! ### the quote graph -/
section Graph
variable {τ : Type} [FxOps τ]

def ReflEdges (n : Nat) (a : FxArr τ) : Prop := ∀ i, i < n → a.edges i i = true

/-- `S` is a union of connected components -/
def Closed (n : Nat) (a : FxArr τ) (S : Nat → Prop) : Prop :=
  ∀ i j, i < n → j < n → a.edges i j = true → (S i ↔ S j)

/-- the populated pairs connect all `n` currencies -/
def Connected (n : Nat) (a : FxArr τ) : Prop :=
  ∀ S : Nat → Prop, Closed n a S → (∃ i, i < n ∧ S i) → ∀ j, j < n → S j

/-- all neighbours of `v` are pairwise populated -/
def CliqueAt (n : Nat) (a : FxArr τ) (v : Nat) : Prop :=
  ∀ x y, x < n → y < n → a.edges v x = true → a.edges v y = true → a.edges x y = true

/-- in a connected, incomplete graph some currency has two neighbours without a rate between them -/
theorem exists_nonclique (n : Nat) (a : FxArr τ) (hs : SymmEdges a) (hr : ReflEdges n a)
    (hc : Connected n a) (u w : Nat) (hu : u < n) (hw : w < n) (huw : a.edges u w = false) :
    ∃ v, v < n ∧ ¬ CliqueAt n a v := by
  by_contra hall
  have hall' : ∀ v, v < n → CliqueAt n a v := by
    intro v hv
    by_contra h
    exact hall ⟨v, hv, h⟩
  have hclosed : Closed n a (fun x => a.edges u x = true) := by
    intro i j hi hj hij
    constructor
    · intro hui
      exact hall' i hi u j hu hj (by rw [hs]; exact hui) hij
    · intro huj
      exact hall' j hj u i hu hi (by rw [hs]; exact huj) (by rw [hs]; exact hij)
  have := hc _ hclosed ⟨u, hu, hr u hu⟩ w hw
  rw [huw] at this
  cases this

theorem pairsOf_mem_of_lt : ∀ (l : List Nat), l.Pairwise (· < ·) → ∀ x y, x ∈ l → y ∈ l → x < y →
    (x, y) ∈ pairsOf l := by
  intro l
  induction l with
  | nil => intro _ x y hx; cases hx
  | cons z zs ih =>
    intro hp x y hx hy hxy
    rw [List.pairwise_cons] at hp
    simp only [pairsOf, List.mem_append, List.mem_map]
    rcases List.mem_cons.mp hx with rfl | hxz
    · rcases List.mem_cons.mp hy with rfl | hyz
      · omega
      · exact Or.inl ⟨y, hyz, rfl⟩
    · rcases List.mem_cons.mp hy with rfl | hyz
      · have := hp.1 x hxz; omega
      · exact Or.inr (ih hp.2 x y hxz hyz hxy)

def nbrsOf (n : Nat) (a : FxArr τ) (v : Nat) : List Nat :=
  (List.range n).filter (fun i => a.edges v i && i != v)

theorem mem_nbrsOf (n : Nat) (a : FxArr τ) (v x : Nat) :
    x ∈ nbrsOf n a v ↔ x < n ∧ a.edges v x = true ∧ x ≠ v := by
  unfold nbrsOf
  simp only [List.mem_filter, List.mem_range, Bool.and_eq_true, bne_iff_ne, ne_eq]

theorem nbrsOf_sorted (n : Nat) (a : FxArr τ) (v : Nat) : (nbrsOf n a v).Pairwise (· < ·) := by
  unfold nbrsOf
  exact List.Pairwise.filter _ List.pairwise_lt_range

theorem combosOf_eq (n : Nat) (a : FxArr τ) (v : Nat) :
    combosOf n a v = (pairsOf (nbrsOf n a v)).filter (fun c => !a.edges c.1 c.2) := rfl

theorem combosOf_nil_of_clique (n : Nat) (a : FxArr τ) (v : Nat) (h : CliqueAt n a v) :
    combosOf n a v = [] := by
  rw [combosOf_eq, List.filter_eq_nil_iff]
  intro c hc
  obtain ⟨h1, h2⟩ := mem_pairsOf _ c hc
  rw [mem_nbrsOf] at h1 h2
  simp [h c.1 c.2 h1.1 h2.1 h1.2.1 h2.2.1]

theorem clique_of_combosOf_nil (n : Nat) (a : FxArr τ) (v : Nat) (hs : SymmEdges a) (hr : ReflEdges n a)
    (h : combosOf n a v = []) : CliqueAt n a v := by
  intro x y hx hy hvx hvy
  by_cases hxy : x = y
  · subst hxy; exact hr x hx
  by_cases hxv : x = v
  · subst hxv; exact hvy
  by_cases hyv : y = v
  · subst hyv; rw [hs]; exact hvx
  have key : ∀ p q, p < n → q < n → a.edges v p = true → a.edges v q = true → p ≠ v → q ≠ v → p < q →
      a.edges p q = true := by
    intro p q hp hq hvp hvq hpv hqv hpq
    have hmem := pairsOf_mem_of_lt _ (nbrsOf_sorted n a v) p q
      ((mem_nbrsOf n a v p).2 ⟨hp, hvp, hpv⟩) ((mem_nbrsOf n a v q).2 ⟨hq, hvq, hqv⟩) hpq
    by_contra hne
    have : (p, q) ∈ combosOf n a v := by
      rw [combosOf_eq, List.mem_filter]
      exact ⟨hmem, by simpa using hne⟩
    rw [h] at this
    cases this
  rcases Nat.lt_or_gt_of_ne hxy with hlt | hgt
  · exact key x y hx hy hvx hvy hxv hyv hlt
  · rw [hs]; exact key y x hy hx hvy hvx hyv hxv hgt

/-- the edges after one node pass: the old ones plus the listed pairs, both ways round -/
theorem foldl_edges_char (node : Nat) (i j : Nat) : ∀ (cs : List (Nat × Nat)) (acc : FxArr τ),
    (cs.foldl (fillStep node) acc).edges i j
      = (acc.edges i j || (cs.any (fun c => decide (i = c.1 ∧ j = c.2) || decide (i = c.2 ∧ j = c.1)))) := by
  intro cs
  induction cs with
  | nil => intro acc; simp
  | cons c cs ih =>
    intro acc
    rw [List.foldl_cons, ih, fillStep_edges]
    simp only [List.any_cons]
    cases acc.edges i j <;> cases decide (i = c.1 ∧ j = c.2) <;> cases decide (i = c.2 ∧ j = c.1) <;> simp


theorem fillNode_edges (n : Nat) (a : FxArr τ) (v i j : Nat) :
    (fillNode n a v).1.edges i j
      = (a.edges i j || ((combosOf n a v).any
          (fun c => decide (i = c.1 ∧ j = c.2) || decide (i = c.2 ∧ j = c.1)))) := by
  rw [fillNode_eq]; exact foldl_edges_char v i j _ a

theorem fillNode_mono (n : Nat) (a : FxArr τ) (v i j : Nat) (h : a.edges i j = true) :
    (fillNode n a v).1.edges i j = true := by
  rw [fillNode_edges, h]; rfl

theorem mem_combosOf' (n : Nat) (a : FxArr τ) (v : Nat) (c : Nat × Nat) (h : c ∈ combosOf n a v) :
    c.1 < n ∧ c.2 < n ∧ c.1 ≠ v ∧ c.2 ≠ v ∧ a.edges v c.1 = true ∧ a.edges v c.2 = true ∧
      a.edges c.1 c.2 = false := by
  have h0 := mem_combosOf n a v c h
  rw [combosOf_eq, List.mem_filter] at h
  obtain ⟨h1, h2⟩ := mem_pairsOf _ c h.1
  rw [mem_nbrsOf] at h1 h2
  exact ⟨h1.1, h2.1, h1.2.2, h2.2.2, h1.2.1, h2.2.1, h0⟩

/-- the pass does not change who the node's neighbours are -/
theorem fillNode_nbr (n : Nat) (a : FxArr τ) (v x : Nat) :
    (fillNode n a v).1.edges v x = a.edges v x := by
  rw [fillNode_edges]
  have : (combosOf n a v).any (fun c => decide (v = c.1 ∧ x = c.2) || decide (v = c.2 ∧ x = c.1)) = false := by
    rw [List.any_eq_false]
    intro c hc
    obtain ⟨_, _, h3, h4, _⟩ := mem_combosOf' n a v c hc
    simp only [Bool.or_eq_true, decide_eq_true_eq, not_or, not_and]
    exact ⟨fun h => absurd h.symm h3, fun h => absurd h.symm h4⟩
  rw [this, Bool.or_false]

/-- after the pass the node's neighbours are pairwise populated -/
theorem fillNode_clique (n : Nat) (a : FxArr τ) (v : Nat) (hs : SymmEdges a) (hr : ReflEdges n a) :
    CliqueAt n (fillNode n a v).1 v := by
  intro x y hx hy hvx hvy
  rw [fillNode_nbr] at hvx hvy
  by_cases hold : a.edges x y = true
  · exact fillNode_mono n a v x y hold
  have hxy : x ≠ y := by rintro rfl; exact hold (hr x hx)
  have hxv : x ≠ v := by rintro rfl; exact hold hvy
  have hyv : y ≠ v := by rintro rfl; exact hold (by rw [hs]; exact hvx)
  have hold' : a.edges x y = false := by simpa using hold
  rw [fillNode_edges, hold', Bool.false_or, List.any_eq_true]
  rcases Nat.lt_or_gt_of_ne hxy with hlt | hgt
  · refine ⟨(x, y), ?_, by simp⟩
    rw [combosOf_eq, List.mem_filter]
    exact ⟨pairsOf_mem_of_lt _ (nbrsOf_sorted n a v) x y ((mem_nbrsOf n a v x).2 ⟨hx, hvx, hxv⟩)
      ((mem_nbrsOf n a v y).2 ⟨hy, hvy, hyv⟩) hlt, by simp [hold']⟩
  · refine ⟨(y, x), ?_, by simp⟩
    rw [combosOf_eq, List.mem_filter]
    have hyx : a.edges y x = false := by rw [hs]; exact hold'
    exact ⟨pairsOf_mem_of_lt _ (nbrsOf_sorted n a v) y x ((mem_nbrsOf n a v y).2 ⟨hy, hvy, hyv⟩)
      ((mem_nbrsOf n a v x).2 ⟨hx, hvx, hxv⟩) hgt, by simp [hyx]⟩

theorem fillNode_strict (n : Nat) (a : FxArr τ) (v : Nat) (h : combosOf n a v ≠ []) :
    edgeCount n a.edges < edgeCount n (fillNode n a v).1.edges := by
  obtain ⟨c, hc⟩ := List.exists_mem_of_ne_nil _ h
  obtain ⟨h1, h2, _, _, _, _, h7⟩ := mem_combosOf' n a v c hc
  apply edgeCount_strict n _ _ (fun i j _ _ hij => fillNode_mono n a v i j hij) c.1 c.2 h1 h2 h7
  rw [fillNode_edges, h7, Bool.false_or, List.any_eq_true]
  exact ⟨c, hc, by simp⟩

theorem connected_mono (n : Nat) (a a' : FxArr τ) (hc : Connected n a)
    (hm : ∀ i j, a.edges i j = true → a'.edges i j = true) : Connected n a' := by
  intro S hS
  exact hc S (fun i j hi hj hij => hS i j hi hj (hm i j hij))

theorem clique_mono_nbr (n : Nat) (a : FxArr τ) (v p : Nat) (hp : CliqueAt n a p)
    (hcomb : combosOf n a v = []) : CliqueAt n (fillNode n a v).1 p := by
  have : (fillNode n a v).1 = a := by rw [fillNode_eq, hcomb]; rfl
  rw [this]; exact hp


/-! ### the loop -/

theorem lastMaxBy_foldl_some : ∀ (l : List (Nat × Nat)) (m : Nat × Nat),
    ∃ x, x ∈ m :: l ∧ l.foldl (fun acc x => match acc with
      | none => some x
      | some m => if x.1 ≥ m.1 then some x else some m) (some m) = some x := by
  intro l
  induction l with
  | nil => intro m; exact ⟨m, List.mem_cons_self, rfl⟩
  | cons y ys ih =>
    intro m
    simp only [List.foldl_cons]
    by_cases h : y.1 ≥ m.1
    · rw [if_pos h]
      obtain ⟨x, hx, he⟩ := ih y
      exact ⟨x, List.mem_cons_of_mem _ hx, he⟩
    · rw [if_neg h]
      obtain ⟨x, hx, he⟩ := ih m
      refine ⟨x, ?_, he⟩
      rcases List.mem_cons.mp hx with rfl | hx
      · exact List.mem_cons_self
      · exact List.mem_cons_of_mem _ (List.mem_cons_of_mem _ hx)

theorem lastMaxBy_mem (l : List (Nat × Nat)) (h : l ≠ []) : ∃ x, x ∈ l ∧ lastMaxBy l = some x := by
  cases l with
  | nil => exact absurd rfl h
  | cons y ys =>
    unfold lastMaxBy
    simp only [List.foldl_cons]
    exact lastMaxBy_foldl_some ys y

/-- how many of the `n` currencies are in the list of exhausted nodes -/
def inPrev (n : Nat) (prev : List Nat) : Nat := ((List.range n).filter (fun i => prev.contains i)).length

theorem filter_insert_len (node : Nat) (p : Nat → Bool) (hp : p node = false) : ∀ (l : List Nat),
    l.Nodup → node ∈ l →
    (l.filter (fun i => i == node || p i)).length = (l.filter p).length + 1 := by
  intro l
  induction l with
  | nil => intro _ h; cases h
  | cons x xs ih =>
    intro hnd hmem
    rw [List.nodup_cons] at hnd
    simp only [List.filter_cons]
    by_cases hx : x = node
    · subst hx
      have hrest : xs.filter (fun i => i == x || p i) = xs.filter p := by
        apply List.filter_congr
        intro y hy
        have : y ≠ x := by rintro rfl; exact hnd.1 hy
        simp [this]
      simp only [beq_self_eq_true, Bool.true_or, if_true, hp, Bool.false_eq_true, if_false,
        List.length_cons, hrest]
    · have hmem' : node ∈ xs := by
        rcases List.mem_cons.mp hmem with h | h
        · exact absurd h.symm hx
        · exact h
      have := ih hnd.2 hmem'
      have hb : (x == node) = false := by simpa using hx
      simp only [hb, Bool.false_or]
      by_cases hpx : p x = true
      · simp only [hpx, if_true, List.length_cons]; omega
      · simp only [hpx, Bool.false_eq_true, if_false]; exact this

theorem inPrev_cons (n : Nat) (prev : List Nat) (node : Nat) (hn : node < n) (hnp : node ∉ prev) :
    inPrev n (node :: prev) = inPrev n prev + 1 := by
  unfold inPrev
  have : (List.range n).filter (fun i => (node :: prev).contains i)
      = (List.range n).filter (fun i => i == node || prev.contains i) := by
    apply List.filter_congr
    intro i _
    simp only [List.contains_cons]
  rw [this]
  exact filter_insert_len node (fun i => prev.contains i) (by simpa using hnp) _ List.nodup_range
    (List.mem_range.2 hn)

theorem inPrev_le (n : Nat) (prev : List Nat) : inPrev n prev ≤ n := rowCount_le n _

/-- COMPLETENESS of the triangulation: if the populated pairs connect all `n` currencies (symmetric,
with the diagonal), the loop terminates with a result for every fuel above the bound
`(n² − populated)·(n+1) + (n − exhausted)` — in particular for `fillFuel n` from the seed. -/
theorem fill_complete (n : Nat) : ∀ (fuel : Nat) (a : FxArr τ) (prev : List Nat),
    SymmEdges a → ReflEdges n a → Connected n a → (∀ p ∈ prev, p < n → CliqueAt n a p) →
    (n * n - edgeCount n a.edges) * (n + 1) + (n - inPrev n prev) < fuel →
    ∃ a', fill n fuel a prev = some a' := by
  intro fuel
  induction fuel with
  | zero => intro a prev _ _ _ _ h; omega
  | succ fuel ih =>
    intro a prev hs hr hc hp hfuel
    unfold fill
    by_cases hfull : edgeCount n a.edges = n * n
    · rw [if_pos hfull]; exact ⟨a, rfl⟩
    rw [if_neg hfull]
    simp only
    -- an unpopulated pair exists, hence a node with two unconnected neighbours, which is not exhausted
    have hex : ∃ u w, u < n ∧ w < n ∧ a.edges u w = false := by
      by_contra hno
      apply hfull
      apply edgeCount_full_of_all
      intro i j hi hj
      by_contra hij
      exact hno ⟨i, j, hi, hj, by simpa using hij⟩
    obtain ⟨u, w, hu, hw, huw⟩ := hex
    obtain ⟨v, hv, hvc⟩ := exists_nonclique n a hs hr hc u w hu hw huw
    have hvp : v ∉ prev := fun hmem => hvc (hp v hmem hv)
    have havail : ((List.range n).filter (fun i => !prev.contains i)).map
        (fun i => (rowSum n a.edges i, i)) ≠ [] := by
      intro h
      have hv' : v ∈ (List.range n).filter (fun i => !prev.contains i) := by
        rw [List.mem_filter]; exact ⟨List.mem_range.2 hv, by simpa using hvp⟩
      have := List.map_eq_nil_iff.1 h
      rw [this] at hv'; cases hv'
    obtain ⟨x, hxm, hxe⟩ := lastMaxBy_mem _ havail
    rw [hxe]
    obtain ⟨r, node⟩ := x
    simp only
    obtain ⟨i, hi, hie⟩ := List.mem_map.1 hxm
    have hnode : node = i := by injection hie with _ h2; exact h2.symm
    rw [List.mem_filter] at hi
    have hnn : node < n := by rw [hnode]; exact List.mem_range.1 hi.1
    have hnp : node ∉ prev := by rw [hnode]; simpa using hi.2
    have hs' : SymmEdges (fillNode n a node).1 := by rw [fillNode_eq]; exact foldl_symm node _ a hs
    have hr' : ReflEdges n (fillNode n a node).1 := fun i hi => fillNode_mono n a node i i (hr i hi)
    have hc' : Connected n (fillNode n a node).1 :=
      connected_mono n a _ hc (fun i j hij => fillNode_mono n a node i j hij)
    have hcnt : (fillNode n a node).2 = (combosOf n a node).length := by rw [fillNode_eq]
    rcases hfn : fillNode n a node with ⟨a', counter⟩
    rw [hfn] at hs' hr' hc' hcnt
    simp only at hs' hr' hc' hcnt ⊢
    by_cases h0 : counter = 0
    · rw [if_pos h0]
      have hcomb : combosOf n a node = [] := by
        rw [h0] at hcnt; exact List.length_eq_zero_iff.1 hcnt.symm
      have haa : a' = a := by
        have : (fillNode n a node).1 = a := by rw [fillNode_eq, hcomb]; rfl
        rw [hfn] at this; exact this
      subst haa
      apply ih a' (node :: prev) hs hr hc
      · intro p hpm hpn
        rcases List.mem_cons.mp hpm with rfl | hpm
        · exact clique_of_combosOf_nil n a' p hs hr hcomb
        · exact hp p hpm hpn
      · rw [inPrev_cons n prev node hnn hnp]
        have := inPrev_le n (node :: prev)
        rw [inPrev_cons n prev node hnn hnp] at this
        omega
    · rw [if_neg h0]
      have hcomb : combosOf n a node ≠ [] := by
        intro h; apply h0; rw [hcnt, h]; rfl
      have hstrict := fillNode_strict n a node hcomb
      rw [hfn] at hstrict
      simp only at hstrict
      have hle := edgeCount_le n a'.edges
      apply ih a' [node] hs' hr' hc'
      · intro p hpm _
        rcases List.mem_cons.mp hpm with rfl | hpm
        · have := fillNode_clique n a p hs hr
          rw [hfn] at this; exact this
        · cases hpm
      · have h1 : n * n - edgeCount n a'.edges + 1 ≤ n * n - edgeCount n a.edges := by omega
        have h2 : n - inPrev n [node] ≤ n := Nat.sub_le _ _
        have h3 : (n * n - edgeCount n a'.edges + 1) * (n + 1) ≤ (n * n - edgeCount n a.edges) * (n + 1) :=
          Nat.mul_le_mul_right _ h1
        have h4 : (n * n - edgeCount n a'.edges + 1) * (n + 1)
            = (n * n - edgeCount n a'.edges) * (n + 1) + (n + 1) := by ring
        omega


/-- a set of currencies closed under the populated pairs stays closed through a node pass -/
theorem fillNode_closed (n : Nat) (a : FxArr τ) (v : Nat) (hv : v < n) (S : Nat → Prop)
    (hS : Closed n a S) : Closed n (fillNode n a v).1 S := by
  intro i j hi hj hij
  rw [fillNode_edges, Bool.or_eq_true] at hij
  rcases hij with hij | hij
  · exact hS i j hi hj hij
  · rw [List.any_eq_true] at hij
    obtain ⟨c, hc, hcc⟩ := hij
    obtain ⟨h1, h2, _, _, h5, h6, _⟩ := mem_combosOf' n a v c hc
    have e1 : S v ↔ S c.1 := hS v c.1 hv h1 h5
    have e2 : S v ↔ S c.2 := hS v c.2 hv h2 h6
    simp only [Bool.or_eq_true, decide_eq_true_eq] at hcc
    rcases hcc with ⟨rfl, rfl⟩ | ⟨rfl, rfl⟩
    · exact e1.symm.trans e2
    · exact e2.symm.trans e1

/-- REJECTION: if the populated pairs do NOT connect the currencies (some non-empty proper set of them
is closed), the loop never returns a result, whatever the fuel. -/
theorem fill_none_of_disconnected (n : Nat) (S : Nat → Prop) (i0 j0 : Nat) (hi0 : i0 < n) (hj0 : j0 < n)
    (hin : S i0) (hout : ¬ S j0) : ∀ (fuel : Nat) (a : FxArr τ) (prev : List Nat),
    SymmEdges a → Closed n a S → fill n fuel a prev = none := by
  intro fuel
  induction fuel with
  | zero => intro a prev _ _; rfl
  | succ fuel ih =>
    intro a prev hs hS
    unfold fill
    by_cases hfull : edgeCount n a.edges = n * n
    · exfalso
      have := edges_full n a.edges hfull i0 j0 hi0 hj0
      exact hout ((hS i0 j0 hi0 hj0 this).1 hin)
    rw [if_neg hfull]
    simp only
    cases hl : lastMaxBy (((List.range n).filter (fun i => !prev.contains i)).map
        (fun i => (rowSum n a.edges i, i))) with
    | none => rfl
    | some x =>
      obtain ⟨r, node⟩ := x
      simp only
      have hmem : (r, node) ∈ ((List.range n).filter (fun i => !prev.contains i)).map
          (fun i => (rowSum n a.edges i, i)) := by
        by_cases hne : ((List.range n).filter (fun i => !prev.contains i)).map
            (fun i => (rowSum n a.edges i, i)) = []
        · rw [hne] at hl; cases hl
        · obtain ⟨x, hx, he⟩ := lastMaxBy_mem _ hne
          rw [hl] at he; injection he with he; rw [he]; exact hx
      obtain ⟨i, hi, hie⟩ := List.mem_map.1 hmem
      have hnn : node < n := by
        have : node = i := by injection hie with _ h2; exact h2.symm
        rw [this]; exact List.mem_range.1 (List.mem_filter.1 hi).1
      have hs' : SymmEdges (fillNode n a node).1 := by rw [fillNode_eq]; exact foldl_symm node _ a hs
      have hS' := fillNode_closed n a node hnn S hS
      rcases hfn : fillNode n a node with ⟨a', counter⟩
      rw [hfn] at hs' hS'
      simp only at hs' hS' ⊢
      split
      · exact ih a' _ hs' hS'
      · exact ih a' _ hs' hS'

theorem init_refl (n : Nat) (pairs : List (Nat × Nat × τ)) (zero : τ) : ReflEdges n (initArr pairs zero) := by
  intro i _
  rw [initArr_eq]
  generalize hacc : (⟨fun a b => if a = b then FxOps.one else zero, fun a b => decide (a = b)⟩ : FxArr τ) = acc
  have h0 : acc.edges i i = true := by subst hacc; simp
  clear hacc
  induction pairs generalizing acc with
  | nil => exact h0
  | cons p ps ih =>
    apply ih
    rw [initStep_edges, h0]; simp

theorem foldl_init_edges (i j : Nat) : ∀ (qs : List (Nat × Nat × τ)) (acc' : FxArr τ) (P : Prop),
    (acc'.edges i j = true ↔ P) →
    ((qs.foldl initStep acc').edges i j = true ↔
      P ∨ ∃ q ∈ qs, (i = q.1 ∧ j = q.2.1) ∨ (i = q.2.1 ∧ j = q.1)) := by
  intro qs
  induction qs with
  | nil => intro acc' P hP; simpa using hP
  | cons q qs ihq =>
    intro acc' P hP
    rw [List.foldl_cons]
    have hq : (initStep acc' q).edges i j = true ↔ (P ∨ ((i = q.1 ∧ j = q.2.1) ∨ (i = q.2.1 ∧ j = q.1))) := by
      rw [initStep_edges]
      simp only [Bool.or_eq_true, decide_eq_true_eq, hP]
      tauto
    rw [ihq _ _ hq]
    constructor
    · rintro ((h | h) | ⟨q', hq', h⟩)
      · exact Or.inl h
      · exact Or.inr ⟨q, List.mem_cons_self, h⟩
      · exact Or.inr ⟨q', List.mem_cons_of_mem _ hq', h⟩
    · rintro (h | ⟨q', hq', h⟩)
      · exact Or.inl (Or.inl h)
      · rcases List.mem_cons.mp hq' with rfl | hq''
        · exact Or.inl (Or.inr h)
        · exact Or.inr ⟨q', hq'', h⟩

/-- the seed's populated pairs: the diagonal and every quoted pair, both ways round -/
theorem init_edges (pairs : List (Nat × Nat × τ)) (zero : τ) (i j : Nat) :
    (initArr pairs zero).edges i j = true ↔
      i = j ∨ ∃ p ∈ pairs, (i = p.1 ∧ j = p.2.1) ∨ (i = p.2.1 ∧ j = p.1) := by
  rw [initArr_eq]
  apply foldl_init_edges
  simp

theorem fillFuel_enough (n : Nat) (e : Nat) : (n * n - e) * (n + 1) + (n - 0) < fillFuel n := by
  unfold fillFuel
  have : (n * n - e) * (n + 1) ≤ n * n * (n + 1) := Nat.mul_le_mul_right _ (Nat.sub_le _ _)
  have h2 : (n * n + 1) * (n + 1) = n * n * (n + 1) + (n + 1) := by ring
  omega

end Graph

end Rateslib
