/-
The triangulation `fill` (= mut_arrays_remaining_elements): (A) it only ever writes unpopulated
entries; (B) it commutes with every homomorphism of the element arithmetic (so values do not depend
on the derivative order); (C) over a field it preserves "every populated entry is u i / u j".
-/
import RateslibModel.Model.FX
import Mathlib.Algebra.Field.Basic
import Mathlib.Tactic.FieldSimp
import Mathlib.Tactic.Ring
namespace Rateslib

variable {τ : Type} [FxOps τ]

/-- one write step of the inner loop -/
def fillStep (node : Nat) (acc : FxArr τ) (c : Nat × Nat) : FxArr τ :=
  let v := FxOps.mul (acc.fx c.1 node) (acc.fx node c.2)
  let fx1 := upd2 acc.fx c.1 c.2 v
  let fx2 := upd2 fx1 c.2 c.1 (FxOps.recip (fx1 c.1 c.2))
  ⟨fx2, upd2 (upd2 acc.edges c.1 c.2 true) c.2 c.1 true⟩

def combosOf (n : Nat) (a : FxArr τ) (node : Nat) : List (Nat × Nat) :=
  (pairsOf ((List.range n).filter (fun i => a.edges node i && i != node))).filter (fun c => !a.edges c.1 c.2)

theorem fillNode_eq (n : Nat) (a : FxArr τ) (node : Nat) :
    fillNode n a node = ((combosOf n a node).foldl (fillStep node) a, (combosOf n a node).length) := rfl

/-! ### (A) populated entries are never rewritten -/

theorem foldl_untouched (node : Nat) (i j : Nat) : ∀ (cs : List (Nat × Nat)) (acc : FxArr τ),
    (∀ c ∈ cs, ¬(i = c.1 ∧ j = c.2) ∧ ¬(i = c.2 ∧ j = c.1)) →
    (cs.foldl (fillStep node) acc).fx i j = acc.fx i j := by
  intro cs
  induction cs with
  | nil => intro acc _; rfl
  | cons c cs ih =>
    intro acc h
    rw [List.foldl_cons, ih _ (fun c' hc' => h c' (List.mem_cons_of_mem _ hc'))]
    have h0 := h c (List.mem_cons_self)
    simp only [fillStep, upd2]
    rw [if_neg h0.2, if_neg h0.1]

def SymmEdges (a : FxArr τ) : Prop := ∀ i j, a.edges i j = a.edges j i

theorem mem_combosOf (n : Nat) (a : FxArr τ) (node : Nat) (c : Nat × Nat) (h : c ∈ combosOf n a node) :
    a.edges c.1 c.2 = false := by
  unfold combosOf at h
  have := (List.mem_filter.1 h).2
  simpa using this

/-- a populated entry keeps its value through one node pass -/
theorem fillNode_keeps (n : Nat) (a : FxArr τ) (node : Nat) (hs : SymmEdges a) (i j : Nat)
    (h : a.edges i j = true) : (fillNode n a node).1.fx i j = a.fx i j := by
  rw [fillNode_eq]
  apply foldl_untouched
  intro c hc
  have hc0 := mem_combosOf n a node c hc
  constructor
  · rintro ⟨rfl, rfl⟩; rw [hc0] at h; cases h
  · rintro ⟨rfl, rfl⟩; rw [hs, hc0] at h; cases h

theorem fillStep_edges_mono (node : Nat) (acc : FxArr τ) (c : Nat × Nat) (i j : Nat)
    (h : acc.edges i j = true) : (fillStep node acc c).edges i j = true := by
  simp only [fillStep, upd2]
  split
  · rfl
  · split
    · rfl
    · exact h

theorem fillStep_edges (node : Nat) (acc : FxArr τ) (c : Nat × Nat) (i j : Nat) :
    (fillStep node acc c).edges i j
      = (decide (i = c.2 ∧ j = c.1) || (decide (i = c.1 ∧ j = c.2) || acc.edges i j)) := by
  simp only [fillStep, upd2]
  by_cases h1 : i = c.2 ∧ j = c.1
  · simp [h1]
  · by_cases h2 : i = c.1 ∧ j = c.2
    · simp [h1, h2]
    · simp [h1, h2]

theorem fillStep_symm (node : Nat) (acc : FxArr τ) (c : Nat × Nat) (hs : SymmEdges acc) :
    SymmEdges (fillStep node acc c) := by
  intro i j
  rw [fillStep_edges, fillStep_edges, hs i j]
  have e1 : decide (i = c.2 ∧ j = c.1) = decide (j = c.1 ∧ i = c.2) := by
    congr 1; exact propext and_comm
  have e2 : decide (i = c.1 ∧ j = c.2) = decide (j = c.2 ∧ i = c.1) := by
    congr 1; exact propext and_comm
  rw [e1, e2]
  cases decide (j = c.1 ∧ i = c.2) <;> cases decide (j = c.2 ∧ i = c.1) <;> rfl

theorem foldl_edges_mono (node : Nat) (i j : Nat) : ∀ (cs : List (Nat × Nat)) (acc : FxArr τ),
    acc.edges i j = true → (cs.foldl (fillStep node) acc).edges i j = true := by
  intro cs
  induction cs with
  | nil => intro acc h; exact h
  | cons c cs ih => intro acc h; exact ih _ (fillStep_edges_mono node acc c i j h)

theorem foldl_symm (node : Nat) : ∀ (cs : List (Nat × Nat)) (acc : FxArr τ),
    SymmEdges acc → SymmEdges (cs.foldl (fillStep node) acc) := by
  intro cs
  induction cs with
  | nil => intro acc h; exact h
  | cons c cs ih => intro acc h; exact ih _ (fillStep_symm node acc c h)

/-- a populated entry keeps its value through the whole triangulation -/
theorem fill_keeps (n : Nat) : ∀ (fuel : Nat) (a a' : FxArr τ) (prev : List Nat), SymmEdges a →
    fill n fuel a prev = some a' → ∀ i j, a.edges i j = true → a'.fx i j = a.fx i j ∧ a'.edges i j = true := by
  intro fuel
  induction fuel with
  | zero => intro a a' prev _ h; simp [fill] at h
  | succ fuel ih =>
    intro a a' prev hs h i j hij
    unfold fill at h
    split at h
    · cases h; exact ⟨rfl, hij⟩
    · simp only at h
      split at h
      · cases h
      · rename_i node _
        have hk := fillNode_keeps n a node hs i j hij
        have hsym : SymmEdges (fillNode n a node).1 := by rw [fillNode_eq]; exact foldl_symm node _ a hs
        have hmono : (fillNode n a node).1.edges i j = true := by
          rw [fillNode_eq]; exact foldl_edges_mono node i j _ a hij
        split at h
        · obtain ⟨r1, r2⟩ := ih _ a' _ hsym h i j hmono
          exact ⟨r1.trans hk, r2⟩
        · obtain ⟨r1, r2⟩ := ih _ a' _ hsym h i j hmono
          exact ⟨r1.trans hk, r2⟩

/-! ### (B) homomorphisms of the element arithmetic -/

variable {σ : Type} [FxOps σ]

structure FxHom (h : τ → σ) : Prop where
  mul : ∀ a b, h (FxOps.mul a b) = FxOps.mul (h a) (h b)
  recip : ∀ a, h (FxOps.recip a) = FxOps.recip (h a)

def FxArr.map (h : τ → σ) (a : FxArr τ) : FxArr σ := ⟨fun i j => h (a.fx i j), a.edges⟩

theorem upd2_map {β γ : Type} (h : β → γ) (f : Nat → Nat → β) (i j : Nat) (v : β) :
    (fun a b => h (upd2 f i j v a b)) = upd2 (fun a b => h (f a b)) i j (h v) := by
  funext a b; simp only [upd2]; split <;> rfl

theorem fillStep_map (h : τ → σ) (hh : FxHom h) (node : Nat) (acc : FxArr τ) (c : Nat × Nat) :
    (fillStep node acc c).map h = fillStep node (acc.map h) c := by
  simp only [fillStep, FxArr.map]
  congr 1
  rw [upd2_map, upd2_map]
  congr 1
  · rw [hh.mul]
  · simp only [upd2, and_self, if_true, hh.recip, hh.mul]

theorem foldl_map (h : τ → σ) (hh : FxHom h) (node : Nat) : ∀ (cs : List (Nat × Nat)) (acc : FxArr τ),
    (cs.foldl (fillStep node) acc).map h = cs.foldl (fillStep node) (acc.map h) := by
  intro cs
  induction cs with
  | nil => intro acc; rfl
  | cons c cs ih => intro acc; rw [List.foldl_cons, List.foldl_cons, ih, fillStep_map h hh]

/-- the triangulation commutes with every homomorphism of the element arithmetic -/
theorem fill_map (h : τ → σ) (hh : FxHom h) (n : Nat) : ∀ (fuel : Nat) (a : FxArr τ) (prev : List Nat),
    (fill n fuel a prev).map (FxArr.map h) = fill n fuel (a.map h) prev := by
  intro fuel
  induction fuel with
  | zero => intro a prev; rfl
  | succ fuel ih =>
    intro a prev
    unfold fill
    have he : (a.map h).edges = a.edges := rfl
    rw [he]
    split
    · rfl
    · simp only
      split
      · rfl
      · rename_i node _
        have hc : combosOf n (a.map h) node = combosOf n a node := rfl
        have e1 : (fillNode n (a.map h) node) = ((fillNode n a node).1.map h, (fillNode n a node).2) := by
          rw [fillNode_eq, fillNode_eq, hc, foldl_map h hh]
        rw [e1]
        simp only
        split
        · exact ih _ _
        · exact ih _ _

/-! ### (C) the potential invariant over a field -/

section Field
variable {K : Type} [Field K]

/-- the arithmetic of the f64 code path, over an arbitrary field -/
instance fieldFxOps : FxOps K where
  mul := (· * ·)
  recip := fun x => 1 / x
  one := 1

/-- every populated entry is the ratio of the two currencies' potentials -/
def Consistent (u : Nat → K) (a : FxArr K) : Prop :=
  ∀ i j, a.edges i j = true → a.fx i j = u i / u j

theorem fillStep_consistent (u : Nat → K) (hu : ∀ i, u i ≠ 0) (node : Nat) (acc : FxArr K) (c : Nat × Nat)
    (hc : Consistent u acc) (h1 : acc.edges c.1 node = true) (h2 : acc.edges node c.2 = true) :
    Consistent u (fillStep node acc c) := by
  intro i j hij
  have hv : FxOps.mul (acc.fx c.1 node) (acc.fx node c.2) = u c.1 / u c.2 := by
    show acc.fx c.1 node * acc.fx node c.2 = _
    rw [hc _ _ h1, hc _ _ h2]
    field_simp [hu node, hu c.2]
  simp only [fillStep, upd2] at hij ⊢
  by_cases hA : i = c.2 ∧ j = c.1
  · rw [if_pos hA]
    simp only [and_self, if_true, hv]
    show 1 / (u c.1 / u c.2) = _
    rw [hA.1, hA.2]; field_simp [hu c.1, hu c.2]
  · rw [if_neg hA]
    by_cases hB : i = c.1 ∧ j = c.2
    · rw [if_pos hB, hv, hB.1, hB.2]
    · rw [if_neg hB]
      rw [if_neg hA, if_neg hB] at hij
      exact hc i j hij

theorem foldl_consistent (u : Nat → K) (hu : ∀ i, u i ≠ 0) (node : Nat) :
    ∀ (cs : List (Nat × Nat)) (acc : FxArr K), Consistent u acc →
      (∀ c ∈ cs, acc.edges c.1 node = true ∧ acc.edges node c.2 = true) →
      Consistent u (cs.foldl (fillStep node) acc) := by
  intro cs
  induction cs with
  | nil => intro acc h _; exact h
  | cons c cs ih =>
    intro acc h hn
    rw [List.foldl_cons]
    obtain ⟨n1, n2⟩ := hn c List.mem_cons_self
    refine ih _ (fillStep_consistent u hu node acc c h n1 n2) ?_
    intro c' hc'
    obtain ⟨m1, m2⟩ := hn c' (List.mem_cons_of_mem _ hc')
    exact ⟨fillStep_edges_mono node acc c _ _ m1, fillStep_edges_mono node acc c _ _ m2⟩

theorem mem_pairsOf (l : List Nat) (c : Nat × Nat) (h : c ∈ pairsOf l) : c.1 ∈ l ∧ c.2 ∈ l := by
  induction l with
  | nil => simp [pairsOf] at h
  | cons x xs ih =>
    simp only [pairsOf, List.mem_append, List.mem_map] at h
    rcases h with ⟨y, hy, rfl⟩ | h
    · exact ⟨List.mem_cons_self, List.mem_cons_of_mem _ hy⟩
    · exact ⟨List.mem_cons_of_mem _ (ih h).1, List.mem_cons_of_mem _ (ih h).2⟩

theorem fillNode_consistent (u : Nat → K) (hu : ∀ i, u i ≠ 0) (n : Nat) (a : FxArr K) (node : Nat)
    (hc : Consistent u a) (hs : SymmEdges a) : Consistent u (fillNode n a node).1 := by
  rw [fillNode_eq]
  apply foldl_consistent u hu node _ a hc
  intro c hcm
  unfold combosOf at hcm
  have hp := mem_pairsOf _ c (List.mem_filter.1 hcm).1
  have e1 := (List.mem_filter.1 hp.1).2
  have e2 := (List.mem_filter.1 hp.2).2
  simp only [Bool.and_eq_true] at e1 e2
  exact ⟨by rw [hs]; exact e1.1, e2.1⟩

theorem fill_consistent (u : Nat → K) (hu : ∀ i, u i ≠ 0) (n : Nat) :
    ∀ (fuel : Nat) (a a' : FxArr K) (prev : List Nat), Consistent u a → SymmEdges a →
      fill n fuel a prev = some a' → Consistent u a' ∧ edgeCount n a'.edges = n * n := by
  intro fuel
  induction fuel with
  | zero => intro a a' prev _ _ h; simp [fill] at h
  | succ fuel ih =>
    intro a a' prev hc hs h
    unfold fill at h
    split at h
    · rename_i hfull; cases h; exact ⟨hc, hfull⟩
    · simp only at h
      split at h
      · cases h
      · rename_i node _
        have hc' := fillNode_consistent u hu n a node hc hs
        have hs' : SymmEdges (fillNode n a node).1 := by rw [fillNode_eq]; exact foldl_symm node _ a hs
        split at h
        · exact ih _ a' _ hc' hs' h
        · exact ih _ a' _ hc' hs' h

end Field
end Rateslib
