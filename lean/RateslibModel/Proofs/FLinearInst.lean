/-
Instances of the linearity theorem of Proofs/FLinear.lean on list-level first-order dual numbers over ℝ:
the value projection and the per-name derivative are module homomorphisms on well-formed numbers; hence
the float-matrix solver and the spline solve/evaluate pipeline commute with them.
-/
import RateslibModel.Proofs.FLinear
import RateslibModel.Proofs.DualOps
import RateslibModel.Analysis.Refine
import RateslibModel.Model.Spline
set_option linter.unusedSimpArgs false
namespace Rateslib
open Rateslib.Dual

/-- the per-name derivative is linear on well-formed first-order numbers -/
theorem den_modHom (v : String) :
    ModHom (K := ℝ) (σ := Dual ℝ) (ρ := ℝ) (fun d => den d v) Dual.WF := by
  refine ⟨⟨Expr.wf_new' 0 [], lookup_not_mem _ _ _
    (by show v ∉ (Dual.new (0 : ℝ) []).vars; simp [Dual.new, dedup])⟩, ?_, ?_, ?_⟩
  · intro a b ha hb
    have S := add_spec false a b ha hb (by simp)
    exact ⟨S.wf, S.den v⟩
  · intro a b ha hb
    have S := sub_spec false a b ha hb (by simp)
    exact ⟨S.wf, S.den v⟩
  · intro c a ha
    exact ⟨Expr.wf_scaleL a c _ ha, den_scaleL a c ha _ v⟩

/-- so is the value projection -/
theorem real_modHom : ModHom (K := ℝ) (σ := Dual ℝ) (ρ := ℝ) (fun d => d.real) Dual.WF := by
  refine ⟨⟨Expr.wf_new' 0 [], rfl⟩, ?_, ?_, ?_⟩
  · intro a b ha hb
    have S := add_spec false a b ha hb (by simp)
    exact ⟨S.wf, S.real⟩
  · intro a b ha hb
    have S := sub_spec false a b ha hb (by simp)
    exact ⟨S.wf, S.real⟩
  · intro c a ha
    exact ⟨Expr.wf_scaleL a c _ ha, by show a.real * c = c * a.real; ring⟩
end Rateslib

namespace Rateslib
open Rateslib.Dual Finset

/-- SOLVER, float matrix and dual-number right-hand side: the list-level solution is well-formed, its
values are the solution for the values of the data, and its sensitivity to every variable name is the
solution for the data's sensitivities to that name — the solver is linear in the right-hand side. -/
theorem fdsolve21_dual_rhs (n : Nat) (a : Nat → Nat → ℝ) (b : Nat → Dual ℝ) (hb : ∀ i, (b i).WF)
    (v : String) (r : Nat) :
    (fdsolve21 (α := ℝ) n ⟨a, b⟩ r).WF ∧
    (fdsolve21 (α := ℝ) n ⟨a, b⟩ r).real = fdsolve21 (α := ℝ) (σ := ℝ) n ⟨a, fun i => (b i).real⟩ r ∧
    den (fdsolve21 (α := ℝ) n ⟨a, b⟩ r) v = fdsolve21 (α := ℝ) (σ := ℝ) n ⟨a, fun i => den (b i) v⟩ r := by
  have h1 := fdsolve21_hom (K := ℝ) real_modHom n ⟨a, b⟩ ⟨a, fun i => (b i).real⟩ ⟨rfl, fun i => ⟨hb i, rfl⟩⟩ r
  have h2 := fdsolve21_hom (K := ℝ) (den_modHom v) n ⟨a, b⟩ ⟨a, fun i => den (b i) v⟩ ⟨rfl, fun i => ⟨hb i, rfl⟩⟩ r
  exact ⟨h1.1, h1.2, h2.2⟩

end Rateslib

namespace Rateslib
open Rateslib.Dual

theorem getD_map_hom {σ ρ : Type} (φ : σ → ρ) (z : σ) (z' : ρ) (hz : φ z = z') (l : List σ) (i : Nat) :
    (l.map φ).getD i z' = φ (l.getD i z) := by
  simp only [List.getD_eq_getElem?_getD, List.getElem?_map]
  cases l[i]? <;> simp [hz]

section
variable {τ : Type} [ModOps ℝ τ]

/-- the square solve, spelled out -/
theorem csolve_square (k : Nat) (t tau : List ℝ) (y : List τ) (l r : Nat) :
    (⟨k, t, none⟩ : PPSpline ℝ τ).csolve tau y l r false =
      if tau.length = t.length - k ∧ tau.length = y.length then
        some ⟨k, t, some ((List.range (t.length - k)).map
          (fdsolve21 (α := ℝ) (t.length - k)
            ⟨bsplMatrix k t (t.length - k) tau l r, fun i => y.getD i (ModOps.zero ℝ)⟩))⟩
      else none := by
  unfold PPSpline.csolve
  simp only [PPSpline.n, Bool.false_and, Bool.not_false, Bool.and_true, fdsolve, Bool.false_eq_true,
    if_false]
  by_cases h1 : tau.length = t.length - k
  · by_cases h2 : tau.length = y.length
    · simp [h1, h2]
    · simp [h1, h2]
  · simp [h1]
end

theorem getD_map_range {σ : Type} (f : Nat → σ) (n i : Nat) (z : σ) :
    ((List.range n).map f).getD i z = if i < n then f i else z := by
  simp only [List.getD_eq_getElem?_getD, List.getElem?_map]
  by_cases hi : i < n
  · simp [List.getElem?_range hi, hi]
  · have : (List.range n)[i]? = none := by rw [List.getElem?_eq_none_iff]; simp; omega
    simp [this, hi]

/-- SPLINE SENSITIVITIES TO THE DATA: solve a spline on dual-number data `y` (any layouts); then for every
linear functional `φ` of the kind "value" or "sensitivity to the variable named v", applying `φ` to the
evaluated spline (any abscissa, any derivative order) gives the spline solved on the data `φ(y)`:
with data tagged one variable per datum, the sensitivity to datum j is the spline through the j-th unit
data.  (Square systems; `φ` any module homomorphism on well-formed numbers.) -/
theorem spline_hom (φ : Dual ℝ → ℝ) (H : ModHom (K := ℝ) φ Dual.WF)
    (k : Nat) (t tau : List ℝ) (y : List (Dual ℝ)) (hy : ∀ d ∈ y, d.WF) (l r : Nat)
    (sD' : PPSpline ℝ (Dual ℝ)) (h : (⟨k, t, none⟩ : PPSpline ℝ (Dual ℝ)).csolve tau y l r false = some sD') :
    ∃ sF' : PPSpline ℝ ℝ, (⟨k, t, none⟩ : PPSpline ℝ ℝ).csolve tau (y.map φ) l r false = some sF' ∧
      ∀ x m, (sD'.ppdnev x m).map φ = sF'.ppdnev x m := by
  have hz : φ (ModOps.zero ℝ) = (0 : ℝ) := H.zero.2
  rw [csolve_square] at h ⊢
  rw [List.length_map]
  by_cases hc : tau.length = t.length - k ∧ tau.length = y.length
  · rw [if_pos hc] at h ⊢
    injection h with h
    subst h
    refine ⟨_, rfl, ?_⟩
    intro x m
    simp only [PPSpline.ppdnev, PPSpline.n, Option.map_some]
    congr 1
    have hyG : ∀ i, Dual.WF (y.getD i (ModOps.zero ℝ)) := by
      intro i
      rw [List.getD_eq_getElem?_getD]
      cases hi : y[i]? with
      | none => exact H.zero.1
      | some d => exact hy d (List.mem_of_getElem? hi)
    have hrel : FRel φ Dual.WF
        (⟨bsplMatrix k t (t.length - k) tau l r, fun i => y.getD i (ModOps.zero ℝ)⟩ : FSys ℝ (Dual ℝ))
        (⟨bsplMatrix k t (t.length - k) tau l r, fun i => (y.map φ).getD i (ModOps.zero ℝ)⟩ : FSys ℝ ℝ) :=
      ⟨rfl, fun i => ⟨hyG i, (getD_map_hom φ _ _ hz y i).symm⟩⟩
    have hsol := fdsolve21_hom (K := ℝ) H (t.length - k) _ _ hrel
    apply (fdot_hom H _ _ _ _ _).2
    intro i
    rw [getD_map_range, getD_map_range]
    by_cases hi : i < t.length - k
    · rw [if_pos hi, if_pos hi]; exact hsol i
    · rw [if_neg hi, if_neg hi]; exact H.zero
  · rw [if_neg hc] at h; cases h
end Rateslib
