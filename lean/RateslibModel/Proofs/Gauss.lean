/-
Soundness of the Gaussian elimination model over a commutative ring with a division operation:
if every pivot `p` the algorithm divides by satisfies `x / p * p = x` (in a field: `p ≠ 0`; in a ring
of dual numbers: the value part of `p` is non-zero), then `A · (dsolve21 A b) = b`.
-/
import RateslibModel.Model.Linalg
import Mathlib.Algebra.BigOperators.Ring.Finset
import Mathlib.Algebra.BigOperators.Intervals
import Mathlib.Tactic.Ring
import Mathlib.Tactic.Linarith
namespace Rateslib
open Finset

variable {R : Type} [CommRing R] [Div R]

/-- a pivot one can divide by -/
def Good (p : R) : Prop := ∀ x : R, x / p * p = x

/-- the solver's arithmetic over `R`, with an arbitrary pivot-comparison function -/
@[reducible] def ringLinOps (ge : R → R → Bool) : LinOps R :=
  ⟨(· + ·), (· - ·), (· * ·), (· / ·), 0, ge⟩

variable (ge : R → R → Bool)

theorem lo_add (a b : R) : @LinOps.add R (ringLinOps ge) a b = a + b := rfl
theorem lo_sub (a b : R) : @LinOps.sub R (ringLinOps ge) a b = a - b := rfl
theorem lo_mul (a b : R) : @LinOps.mul R (ringLinOps ge) a b = a * b := rfl
theorem lo_div (a b : R) : @LinOps.div R (ringLinOps ge) a b = a / b := rfl
theorem lo_zero : @LinOps.zero R (ringLinOps ge) = 0 := rfl

/-- row `r` of `A · x` -/
def rowDot (n : Nat) (a : Nat → Nat → R) (x : Nat → R) (r : Nat) : R := ∑ c ∈ range n, a r c * x c

def Sol (n : Nat) (s : Sys R) (x : Nat → R) : Prop := ∀ r, r < n → rowDot n s.a x r = s.b r

theorem foldl_dot (f g : Nat → R) : ∀ (idx : List Nat) (acc : R),
    idx.foldl (fun acc m => acc + f m * g m) acc = acc + (idx.map (fun m => f m * g m)).sum := by
  intro idx
  induction idx with
  | nil => intro acc; simp
  | cons m ms ih => intro acc; simp only [List.foldl_cons, List.map_cons, List.sum_cons, ih]; ring

theorem dotOver_eq (idx : List Nat) (f g : Nat → R) :
    @dotOver R (ringLinOps ge) idx f g = (idx.map (fun m => f m * g m)).sum := by
  have := foldl_dot f g idx 0
  simp only [zero_add] at this
  simpa only [dotOver, lo_add, lo_mul, lo_zero] using this

theorem sum_range' (f : Nat → R) (a k : Nat) :
    ((List.range' a k).map f).sum = ∑ c ∈ Finset.Ico a (a + k), f c := by
  induction k generalizing a with
  | zero => simp
  | succ k ih =>
    rw [List.range'_succ, List.map_cons, List.sum_cons, ih (a + 1)]
    rw [Finset.sum_Ico_eq_sum_range, Finset.sum_Ico_eq_sum_range]
    have h1 : a + 1 + k - (a + 1) = k := by omega
    have h2 : a + (k + 1) - a = k + 1 := by omega
    rw [h1, h2, Finset.sum_range_succ' (fun i => f (a + i))]
    simp only [Nat.add_zero]
    rw [add_comm]
    congr 1
    apply Finset.sum_congr rfl
    intro i _
    congr 1; omega

/-! ### row operations preserve the solution set -/

theorem swap_sol (n : Nat) (s : Sys R) (j k : Nat) (hj : j < n) (hk : k < n) (x : Nat → R) :
    Sol n (swapRows s j k) x ↔ Sol n s x := by
  unfold Sol rowDot swapRows
  constructor
  · intro h r hr
    by_cases h1 : r = j
    · subst h1
      have := h k hk
      by_cases hkj : k = r
      · subst hkj; simpa using this
      · simpa [hkj] using this
    · by_cases h2 : r = k
      · subst h2
        have := h j hj
        simpa using this
      · have := h r hr
        simpa [h1, h2] using this
  · intro h r hr
    by_cases h1 : r = j
    · subst h1; simpa using h k hk
    · by_cases h2 : r = k
      · subst h2; simpa [h1] using h j hj
      · simpa [h1, h2] using h r hr

/-- the reduction of row `l` is the row operation `row_l ← row_l − scl · row_j`, on EVERY column,
provided both rows are already zero in the columns before `j` and the pivot can be divided by -/
theorem elimRow_entries (n j l : Nat) (s : Sys R) (hj : j < n)
    (hz : ∀ c, c < j → s.a j c = 0 ∧ s.a l c = 0) (hg : Good (s.a j j)) (c : Nat) (hc : c < n) :
    (@elimRow R (ringLinOps ge) n j s l).a l c = s.a l c - (s.a l j / s.a j j) * s.a j c := by
  simp only [elimRow, lo_sub, lo_mul, lo_div, lo_zero, if_true]
  by_cases h1 : c = j
  · subst h1
    rw [if_pos rfl, hg (s.a l c)]; ring
  · rw [if_neg h1]
    by_cases h2 : j < c
    · rw [if_pos ⟨h2, hc⟩]
    · rw [if_neg (fun h => h2 h.1)]
      have hcj : c < j := by omega
      rw [(hz c hcj).1, (hz c hcj).2]; ring

theorem elimRow_other (n j l : Nat) (s : Sys R) (r : Nat) (hr : r ≠ l) :
    (@elimRow R (ringLinOps ge) n j s l).a r = s.a r ∧ (@elimRow R (ringLinOps ge) n j s l).b r = s.b r := by
  constructor
  · funext c; simp [elimRow, hr]
  · simp [elimRow, hr]

theorem elimRow_sol (n j l : Nat) (s : Sys R) (hj : j < n) (hl : l < n) (hne : l ≠ j)
    (hz : ∀ c, c < j → s.a j c = 0 ∧ s.a l c = 0) (hg : Good (s.a j j)) (x : Nat → R) :
    Sol n (@elimRow R (ringLinOps ge) n j s l) x ↔ Sol n s x := by
  have hrow : rowDot n (@elimRow R (ringLinOps ge) n j s l).a x l
      = rowDot n s.a x l - (s.a l j / s.a j j) * rowDot n s.a x j := by
    unfold rowDot
    rw [Finset.mul_sum, ← Finset.sum_sub_distrib]
    apply Finset.sum_congr rfl
    intro c hc
    rw [elimRow_entries ge n j l s hj hz hg c (Finset.mem_range.1 hc)]; ring
  have hb : (@elimRow R (ringLinOps ge) n j s l).b l = s.b l - (s.a l j / s.a j j) * s.b j := by
    simp only [elimRow, lo_sub, lo_mul, lo_div, if_true]
  have hoth : ∀ r, r ≠ l → rowDot n (@elimRow R (ringLinOps ge) n j s l).a x r = rowDot n s.a x r ∧
      (@elimRow R (ringLinOps ge) n j s l).b r = s.b r := by
    intro r hr
    obtain ⟨e1, e2⟩ := elimRow_other ge n j l s r hr
    exact ⟨by unfold rowDot; rw [e1], e2⟩
  unfold Sol
  constructor
  · intro h r hr
    by_cases h1 : r = l
    · subst h1
      have hl' := h r hr
      have hjj := h j hj
      rw [(hoth j (Ne.symm hne)).1, (hoth j (Ne.symm hne)).2] at hjj
      rw [hrow, hb, hjj] at hl'
      have := sub_left_injective hl'
      exact this
    · have := h r hr
      rwa [(hoth r h1).1, (hoth r h1).2] at this
  · intro h r hr
    by_cases h1 : r = l
    · subst h1
      rw [hrow, hb, h r hr, h j hj]
    · rw [(hoth r h1).1, (hoth r h1).2]; exact h r hr

end Rateslib
