import RateslibModel.Model.Holidays
namespace Rateslib

theorem mem_insertU (x y : Int) : ∀ l : List Int, y ∈ insertU x l ↔ y = x ∨ y ∈ l := by
  intro l
  induction l with
  | nil => simp [insertU]
  | cons z zs ih =>
    unfold insertU
    split
    · simp
    · split
      · rename_i h; subst h; simp
      · simp [ih]; constructor
        · rintro (h | h | h) <;> simp [h]
        · rintro (h | h | h) <;> simp [h]

theorem mem_sortU (y : Int) : ∀ l : List Int, y ∈ sortU l ↔ y ∈ l := by
  intro l
  induction l with
  | nil => simp [sortU]
  | cons x xs ih =>
    have : sortU (x :: xs) = insertU x (sortU xs) := rfl
    rw [this, mem_insertU, ih]; simp

/-- semantic reading of the generated table: a date is in `ruleDates rs` iff it lies in the supported
range, is a Monday–Friday, and is an observed date of some rule for some reference year -/
theorem mem_ruleDates (rs : List Rule) (d : Int) :
    d ∈ ruleDates rs ↔
      (rangeLo ≤ d ∧ d ≤ rangeHi ∧ isMonFri d = true ∧ ∃ y ∈ refYears, ∃ r ∈ rs, d ∈ r.dates y) := by
  unfold ruleDates
  simp only [List.mem_flatten, List.mem_map]
  constructor
  · rintro ⟨l, ⟨y, hy, rfl⟩, hd⟩
    unfold yearDates at hd
    rw [mem_sortU, List.mem_filter] at hd
    obtain ⟨hm, hf⟩ := hd
    simp only [List.mem_flatten, List.mem_map] at hm
    obtain ⟨l', ⟨r, hr, rfl⟩, hd'⟩ := hm
    simp only [Bool.and_eq_true, decide_eq_true_eq] at hf
    exact ⟨hf.1.1, hf.1.2, hf.2, y, hy, r, hr, hd'⟩
  · rintro ⟨h1, h2, h3, y, hy, r, hr, hd⟩
    refine ⟨yearDates rs y, ⟨y, hy, rfl⟩, ?_⟩
    unfold yearDates
    rw [mem_sortU, List.mem_filter]
    refine ⟨?_, by simp [h1, h2, h3]⟩
    simp only [List.mem_flatten, List.mem_map]
    exact ⟨r.dates y, ⟨r, hr, rfl⟩, hd⟩

theorem subsetSorted_sound : ∀ (a b : List Int), subsetSorted a b = true → ∀ x ∈ a, x ∈ b := by
  intro a b
  induction a, b using subsetSorted.induct with
  | case1 b => intro _ x hx; cases hx
  | case2 x xs => intro h; simp [subsetSorted] at h
  | case3 xs y ys ih =>
    intro h z hz
    rw [subsetSorted, if_pos rfl] at h
    rcases List.mem_cons.1 hz with rfl | hz
    · simp
    · exact ih h z hz
  | case4 x xs y ys hne hlt ih =>
    intro h z hz
    rw [subsetSorted, if_neg hne, if_pos hlt] at h
    exact List.mem_cons_of_mem _ (ih h z hz)
  | case5 x xs y ys hne hlt =>
    intro h
    rw [subsetSorted, if_neg hne, if_neg hlt] at h
    cases h

end Rateslib
