/-
Polynomial reproduction: completeness of the solver (every solution of a system whose elimination meets no
zero pivot is the returned one), polynomials of degree below the order as splines with all their
derivatives, and reproduction by `csolve`.
-/
import RateslibModel.Proofs.BSplineDeriv
import RateslibModel.Proofs.SplineDeriv
import RateslibModel.Proofs.Marsden
import RateslibModel.Proofs.RealSolver
import RateslibModel.Proofs.Gauss4
import RateslibModel.Proofs.FSolve
import Mathlib.Analysis.Calculus.Deriv.Polynomial
import Mathlib.Analysis.Calculus.TangentCone.Real
namespace Rateslib
open Set Filter Topology Polynomial

/-! ### uniqueness of the solution when no pivot is zero -/
section Unique
variable {K : Type} [Field K] (ge : K → K → Bool)

theorem ne_zero_of_good {p : K} (h : Good p) : p ≠ 0 := by
  intro h0
  have := h 1
  rw [h0, mul_zero] at this
  exact zero_ne_one this

/-- an upper-triangular system with non-zero diagonal has at most one solution -/
theorem upper_unique (n : Nat) (u : Sys K) (hz : ZerosBelow n n u) (hd : ∀ i, i < n → u.a i i ≠ 0)
    (x y : Nat → K) (hx : Sol n u x) (hy : Sol n u y) : ∀ c, c < n → x c = y c := by
  have key : ∀ k c, n - k ≤ c → c < n → x c = y c := by
    intro k
    induction k with
    | zero => intro c h1 h2; omega
    | succ k ih =>
      intro c h1 h2
      by_cases hc : n - k ≤ c
      · exact ih c hc h2
      · have ex := hx c h2
        have ey := hy c h2
        unfold rowDot at ex ey
        rw [Finset.range_eq_Ico, ← Finset.sum_Ico_consecutive _ (Nat.zero_le c) (le_of_lt h2),
          Finset.sum_eq_sum_Ico_succ_bot h2] at ex ey
        have z : ∀ w : Nat → K, ∑ j ∈ Finset.Ico 0 c, u.a c j * w j = 0 := by
          intro w
          apply Finset.sum_eq_zero
          intro j hj
          rw [Finset.mem_Ico] at hj
          rw [hz c j (by omega) hj.2 h2]; ring
        have tl : ∑ j ∈ Finset.Ico (c + 1) n, u.a c j * x j = ∑ j ∈ Finset.Ico (c + 1) n, u.a c j * y j := by
          apply Finset.sum_congr rfl
          intro j hj
          rw [Finset.mem_Ico] at hj
          rw [ih j (by omega) hj.2]
        rw [z x, tl] at ex
        rw [z y] at ey
        have : u.a c c * x c = u.a c c * y c := by
          have := ex.trans ey.symm
          linear_combination this
        exact mul_left_cancel₀ (hd c h2) this
  intro c hc
  exact key n c (by omega) hc

/-- COMPLETENESS of the solver: if no pivot is zero, EVERY solution of the system is the returned one. -/
theorem dsolve21_unique (n : Nat) (s : Sys K) (hp : PivotsGood ge n (List.range n) s)
    (x : Nat → K) (hx : Sol n s x) : ∀ c, c < n → x c = @dsolve21 K (ringLinOps ge) n s c := by
  have hsound := dsolve21_sound ge n s hp
  have hz0 : ZerosBelow n 0 s := fun r c hc _ _ => by omega
  rw [List.range_eq_range'] at hp
  obtain ⟨f1, f2, f3⟩ := forward_spec ge n n 0 s (by omega) hz0 (fun i hi => by omega) hp
  exact upper_unique n _ f1 (fun i hi => ne_zero_of_good (f3 i hi)) x _ ((f2 x).2 hx) ((f2 _).2 hsound)

end Unique

/-! ### a polynomial of degree below the order, as a spline, with all its derivatives -/

theorem fdot_real_sum (n : Nat) (f g : Nat → ℝ) :
    fdotOver (α := ℝ) (σ := ℝ) (List.range n) f g = ∑ i ∈ Finset.range n, f i * g i := by
  have h1 : fdotOver (α := ℝ) (σ := ℝ) (List.range n) f g
      = @dotOver ℝ (ringLinOps (fun _ _ => true)) (List.range n) f g := rfl
  rw [h1, dotOver_eq, List.range_eq_range', sum_range', Finset.range_eq_Ico]
  simp

/-- the spline function with coefficients `a`, derivative order `m` -/
noncomputable def splineFn (t : List ℝ) (K : Nat) (a : Nat → ℝ) (m : Nat) (x : ℝ) : ℝ :=
  fdotOver (α := ℝ) (σ := ℝ) (List.range (t.length - K)) (fun i => bspldnev t x m i K none) a

theorem splineFn_right (t : List ℝ) (hs : SortedKnots t) (K : Nat) (a : Nat → ℝ) (m : Nat) (x : ℝ)
    (hx : x < knot t (t.length - 1)) :
    HasDerivWithinAt (splineFn t K a m) (splineFn t K a (m + 1) x) (Ici x) x := by
  apply fdot_hasDeriv
  intro i hi
  rw [List.mem_range] at hi
  exact bspldnev_right_deriv t hs x hx m K i none (by omega)

theorem splineFn_left (t : List ℝ) (K : Nat) (H : RightEnd t K) (a : Nat → ℝ) (m : Nat) :
    HasDerivWithinAt (splineFn t K a m) (splineFn t K a (m + 1) (knot t (t.length - 1)))
      (Iic (knot t (t.length - 1))) (knot t (t.length - 1)) := by
  apply fdot_hasDeriv
  intro i hi
  rw [List.mem_range] at hi
  exact bspldnev_left_deriv_end t K H m i (by omega)

/-- A POLYNOMIAL OF DEGREE BELOW THE ORDER IS A SPLINE WITH ALL ITS DERIVATIVES: with Marsden's
coefficients, the model's derivative evaluation of every order `m`, anywhere in the domain — knots and both
end points included — is the `m`-th derivative of the polynomial. -/
theorem poly_spline_derivs (t : List ℝ) (K : Nat) (H : RightEnd t K) (he : EndKnots t K)
    (p : ℝ[X]) (hp : p.natDegree < K) :
    ∀ (m : Nat) (x : ℝ), knot t 0 ≤ x → x ≤ knot t (t.length - 1) →
      splineFn t K (marsdenCoef t K p) m x = (derivative^[m] p).eval x := by
  have hlen := H.len
  intro m
  induction m with
  | zero =>
    intro x hx0 hx1
    unfold splineFn
    rw [fdot_real_sum]
    have := poly_in_span t H.sorted K H.hK he p hp x hx0 hx1
    rw [Function.iterate_zero, id, ← this]
    apply Finset.sum_congr rfl
    intro i _
    show bsplev t x K i K * _ = _
    ring
  | succ m ih =>
    intro x hx0 hx1
    rw [Function.iterate_succ_apply']
    have hpoly := (derivative^[m] p).hasDerivAt x
    rcases lt_or_eq_of_le hx1 with hlt | heq
    · -- right derivative
      have h1 := splineFn_right t H.sorted K (marsdenCoef t K p) m x hlt
      have h2 : HasDerivWithinAt (fun y => (derivative^[m] p).eval y)
          (splineFn t K (marsdenCoef t K p) (m + 1) x) (Ici x) x := by
        refine h1.congr_of_eventuallyEq ?_ (ih x hx0 hx1).symm
        have : ∀ᶠ y in 𝓝[≥] x, y < knot t (t.length - 1) := nhdsWithin_le_nhds (Iio_mem_nhds hlt)
        filter_upwards [this, self_mem_nhdsWithin] with y hy hxy
        exact (ih y (le_trans hx0 hxy) (le_of_lt hy)).symm
      exact (uniqueDiffWithinAt_Ici x).eq_deriv _ h2 hpoly.hasDerivWithinAt
    · -- left derivative at the right end point
      subst heq
      have h1 := splineFn_left t K H (marsdenCoef t K p) m
      have h2 : HasDerivWithinAt (fun y => (derivative^[m] p).eval y)
          (splineFn t K (marsdenCoef t K p) (m + 1) (knot t (t.length - 1)))
          (Iic (knot t (t.length - 1))) (knot t (t.length - 1)) := by
        refine h1.congr_of_eventuallyEq ?_ (ih _ hx0 hx1).symm
        have hmem : Ioc (knot t (t.length - K - 1)) (knot t (t.length - 1)) ∈ 𝓝[≤] (knot t (t.length - 1)) :=
          Ioc_mem_nhdsLE H.interior
        filter_upwards [hmem] with y hy
        have h0 : knot t 0 ≤ knot t (t.length - K - 1) := H.sorted _ _ (Nat.zero_le _) (by omega)
        exact (ih y (le_trans h0 (le_of_lt hy.1)) hy.2).symm
      exact (uniqueDiffWithinAt_Iic _).eq_deriv _ h2 hpoly.hasDerivWithinAt

/-! ### polynomial reproduction by `csolve` -/

/-- which derivative the collocation row `j` of `csolve` prescribes -/
def rowOrder (ntau leftN rightN j : Nat) : Nat :=
  if j = ntau - 1 then rightN else if j = 0 then leftN else 0

theorem bsplMatrix_row {α : Type} [Add α] [Sub α] [Mul α] [Div α] [Neg α] [OfNat α 0] [OfNat α 1] [OfNat α 2]
    [Transc α] (k : Nat) (t : List α) (n : Nat) (tau : List α) (leftN rightN j i : Nat) :
    bsplMatrix k t n tau leftN rightN j i
      = bspldnev t (tau.getD j 0) (rowOrder tau.length leftN rightN j) i k none := by
  unfold bsplMatrix rowOrder
  split
  · rfl
  · split
    · rename_i h0; subst h0; rfl
    · rfl

/-- POLYNOMIAL REPRODUCTION: solve a spline of order `K` (square system, sites in the domain, any end
derivative orders) on data taken from a polynomial `p` of degree below `K` — values at interior sites,
the prescribed derivatives at the two end sites.  If the elimination meets no zero pivot (non-singular
collocation matrix), the solved spline and ALL its derivatives equal `p` and its derivatives everywhere in
the domain, knots and both end points included. -/
theorem poly_reproduction (t : List ℝ) (K : Nat) (H : RightEnd t K) (he : EndKnots t K)
    (p : ℝ[X]) (hp : p.natDegree < K) (tau : List ℝ) (l r : Nat)
    (htau : ∀ j, j < tau.length → knot t 0 ≤ tau.getD j 0 ∧ tau.getD j 0 ≤ knot t (t.length - 1))
    (y : List ℝ)
    (hy : ∀ j, j < tau.length → y.getD j 0 = (derivative^[rowOrder tau.length l r j] p).eval (tau.getD j 0))
    (hpiv : PivotsGood geR (t.length - K) (List.range (t.length - K))
      ⟨bsplMatrix K t (t.length - K) tau l r, fun i => y.getD i 0⟩)
    (s' : PPSpline ℝ ℝ) (h : (⟨K, t, none⟩ : PPSpline ℝ ℝ).csolve tau y l r false = some s') :
    ∀ (x : ℝ), knot t 0 ≤ x → x ≤ knot t (t.length - 1) → ∀ m,
      s'.ppdnev x m = some ((derivative^[m] p).eval x) := by
  rw [csolve_square] at h
  split at h
  · rename_i hc
    injection h with h
    subst h
    intro x hx0 hx1 m
    set n := t.length - K with hn
    set sys : FSys ℝ ℝ := ⟨bsplMatrix K t n tau l r, fun i => y.getD i (ModOps.zero ℝ)⟩ with hsys
    -- Marsden's coefficients solve the collocation system
    have hsol : Sol n (toSys sys) (marsdenCoef t K p) := by
      intro j hj
      unfold rowDot
      simp only [toSys, hsys, bsplMatrix_row]
      have hjt : j < tau.length := by omega
      have := poly_spline_derivs t K H he p hp (rowOrder tau.length l r j) (tau.getD j 0)
        (htau j hjt).1 (htau j hjt).2
      unfold splineFn at this
      rw [fdot_real_sum] at this
      rw [this]
      exact (hy j hjt).symm
    have huniq := dsolve21_unique geR n (toSys sys) hpiv (marsdenCoef t K p) hsol
    have hsolve : ∀ c, c < n → fdsolve21 (α := ℝ) (σ := ℝ) n sys c = marsdenCoef t K p c := by
      intro c hc
      have e : fdsolve21 (α := ℝ) (σ := ℝ) n sys = @dsolve21 ℝ (ringLinOps geR) n (toSys sys) :=
        fdsolve21_eq geR n sys
      rw [e]; exact (huniq c hc).symm
    rw [ppdnev_real _ _ rfl]
    congr 1
    have := poly_spline_derivs t K H he p hp m x hx0 hx1
    rw [← this]
    unfold splineFn
    rw [fdot_real_sum, fdot_real_sum]
    apply Finset.sum_congr rfl
    intro i hi
    rw [Finset.mem_range] at hi
    have hi' : i < n := hi
    congr 1
    rw [getD_map_range, if_pos hi']
    exact hsolve i hi'
  · cases h

/-- Marsden's coefficients solve the collocation system of polynomial data -/
theorem marsden_solves (t : List ℝ) (K : Nat) (H : RightEnd t K) (he : EndKnots t K)
    (p : ℝ[X]) (hp : p.natDegree < K) (tau : List ℝ) (l r : Nat)
    (hlen : tau.length = t.length - K)
    (htau : ∀ j, j < tau.length → knot t 0 ≤ tau.getD j 0 ∧ tau.getD j 0 ≤ knot t (t.length - 1))
    (y : List ℝ)
    (hy : ∀ j, j < tau.length → y.getD j 0 = (derivative^[rowOrder tau.length l r j] p).eval (tau.getD j 0)) :
    Sol (t.length - K) ⟨bsplMatrix K t (t.length - K) tau l r, fun i => y.getD i 0⟩ (marsdenCoef t K p) := by
  intro j hj
  unfold rowDot
  simp only [bsplMatrix_row]
  have hjt : j < tau.length := by omega
  have := poly_spline_derivs t K H he p hp (rowOrder tau.length l r j) (tau.getD j 0)
    (htau j hjt).1 (htau j hjt).2
  unfold splineFn at this
  rw [fdot_real_sum] at this
  rw [this]
  exact (hy j hjt).symm

/-- the magnitude comparison of `pivots_good_of_unique` is the comparison of the float code path -/
theorem geR_eq_absGeK : geR = absGeK := by
  funext x y
  have habs : ∀ t : ℝ, absS t = |t| := by
    intro t
    unfold absS
    by_cases h : t < 0
    · have : Transc.ltb t 0 = true := decide_eq_true h
      rw [if_pos this, abs_of_neg h]
    · have : Transc.ltb t 0 = false := decide_eq_false h
      rw [this]; simp only [Bool.false_eq_true, if_false]
      exact (abs_of_nonneg (not_lt.mp h)).symm
  show (!Transc.ltb (absS x) (absS y)) = absGeK x y
  rw [habs, habs]
  unfold absGeK
  show (!decide (|x| < |y|)) = decide (|y| ≤ |x|)
  by_cases h : |x| < |y|
  · simp [h, not_le.mpr h]
  · simp [h, not_lt.mp h]

/-- POLYNOMIAL REPRODUCTION FROM UNIQUENESS ALONE: if the interpolation problem (the collocation system) has AT
MOST ONE solution — what the Schoenberg–Whitney conditions guarantee — then no pivot is zero (a solution exists:
Marsden's), and the solved spline and all its derivatives equal the polynomial's. -/
theorem poly_reproduction_unique (t : List ℝ) (K : Nat) (H : RightEnd t K) (he : EndKnots t K)
    (p : ℝ[X]) (hp : p.natDegree < K) (tau : List ℝ) (l r : Nat)
    (htau : ∀ j, j < tau.length → knot t 0 ≤ tau.getD j 0 ∧ tau.getD j 0 ≤ knot t (t.length - 1))
    (y : List ℝ)
    (hy : ∀ j, j < tau.length → y.getD j 0 = (derivative^[rowOrder tau.length l r j] p).eval (tau.getD j 0))
    (huniq : ∀ a b : Nat → ℝ,
      Sol (t.length - K) ⟨bsplMatrix K t (t.length - K) tau l r, fun i => y.getD i 0⟩ a →
      Sol (t.length - K) ⟨bsplMatrix K t (t.length - K) tau l r, fun i => y.getD i 0⟩ b →
      ∀ c, c < t.length - K → a c = b c)
    (s' : PPSpline ℝ ℝ) (h : (⟨K, t, none⟩ : PPSpline ℝ ℝ).csolve tau y l r false = some s') :
    ∀ (x : ℝ), knot t 0 ≤ x → x ≤ knot t (t.length - 1) → ∀ m,
      s'.ppdnev x m = some ((derivative^[m] p).eval x) := by
  have hlen : tau.length = t.length - K := by
    rw [csolve_square] at h
    split at h
    · rename_i hc; exact hc.1
    · cases h
  have hsol := marsden_solves t K H he p hp tau l r hlen htau y hy
  have hpiv : PivotsGood absGeK (t.length - K) (List.range (t.length - K))
      ⟨bsplMatrix K t (t.length - K) tau l r, fun i => y.getD i 0⟩ := by
    rw [List.range_eq_range']
    exact pivots_good_of_unique (t.length - K) (t.length - K) 0 _ (by omega)
      (fun r c hc _ _ => by omega) (fun i hi => by omega) ⟨_, hsol⟩ huniq
  rw [← geR_eq_absGeK] at hpiv
  exact poly_reproduction t K H he p hp tau l r htau y hy hpiv s' h

/-- the least-squares solve, spelled out: the normal equations `AᵀA c = Aᵀy` over `rows = tau.length` rows -/
theorem csolve_lsq (k : Nat) (t tau : List ℝ) (y : List ℝ) (l r : Nat) :
    (⟨k, t, none⟩ : PPSpline ℝ ℝ).csolve tau y l r true =
      if (tau.length = t.length - k ∨ tau.length > t.length - k) ∧ tau.length = y.length then
        some ⟨k, t, some ((List.range (t.length - k)).map
          (fdsolve21 (α := ℝ) (σ := ℝ) (t.length - k)
            ⟨fun i j => dotOver (List.range tau.length)
                (fun q => bsplMatrix k t (t.length - k) tau l r q i)
                (fun q => bsplMatrix k t (t.length - k) tau l r q j),
             fun i => fdotOver (α := ℝ) (σ := ℝ) (List.range tau.length)
                (fun q => bsplMatrix k t (t.length - k) tau l r q i) (fun q => y.getD q (ModOps.zero ℝ))⟩))⟩
      else none := by
  unfold PPSpline.csolve
  simp only [PPSpline.n, fdsolve, Bool.true_and, if_true]
  by_cases h1 : tau.length = t.length - k
  · by_cases h2 : tau.length = y.length
    · simp [h1, h2]
    · simp [h1, h2]
  · by_cases h3 : tau.length > t.length - k
    · by_cases h2 : tau.length = y.length
      · have h4 : ¬ tau.length ≤ t.length - k := by omega
        simp [h1, h2, h3, h4]
        have h5 : ¬ y.length ≤ t.length - k := by omega
        have h6 : t.length - k < y.length := by omega
        simp [h5, h6]
      · simp [h1, h2, h3]
    · simp [h1, h3]

theorem dot_real_sum (n : Nat) (f g : Nat → ℝ) :
    dotOver (τ := ℝ) (List.range n) f g = ∑ i ∈ Finset.range n, f i * g i := by
  have h1 : dotOver (τ := ℝ) (List.range n) f g
      = @dotOver ℝ (ringLinOps geR) (List.range n) f g := rfl
  rw [h1, dotOver_eq, List.range_eq_range', sum_range', Finset.range_eq_Ico]
  simp

/-- POLYNOMIAL REPRODUCTION, LEAST-SQUARES BRANCH (at least as many sites as coefficients): the normal
equations built from polynomial data are solved by Marsden's coefficients; if their elimination meets no zero
pivot (full column rank), the solved spline and all its derivatives equal the polynomial's. -/
theorem poly_reproduction_lsq (t : List ℝ) (K : Nat) (H : RightEnd t K) (he : EndKnots t K)
    (p : ℝ[X]) (hp : p.natDegree < K) (tau : List ℝ) (l r : Nat)
    (htau : ∀ j, j < tau.length → knot t 0 ≤ tau.getD j 0 ∧ tau.getD j 0 ≤ knot t (t.length - 1))
    (y : List ℝ)
    (hy : ∀ j, j < tau.length → y.getD j 0 = (derivative^[rowOrder tau.length l r j] p).eval (tau.getD j 0))
    (hpiv : PivotsGood geR (t.length - K) (List.range (t.length - K))
      ⟨fun i j => ∑ q ∈ Finset.range tau.length,
          bsplMatrix K t (t.length - K) tau l r q i * bsplMatrix K t (t.length - K) tau l r q j,
       fun i => ∑ q ∈ Finset.range tau.length, bsplMatrix K t (t.length - K) tau l r q i * y.getD q 0⟩)
    (s' : PPSpline ℝ ℝ) (h : (⟨K, t, none⟩ : PPSpline ℝ ℝ).csolve tau y l r true = some s') :
    ∀ (x : ℝ), knot t 0 ≤ x → x ≤ knot t (t.length - 1) → ∀ m,
      s'.ppdnev x m = some ((derivative^[m] p).eval x) := by
  rw [csolve_lsq] at h
  split at h
  · rename_i hc
    injection h with h
    subst h
    intro x hx0 hx1 m
    set n := t.length - K with hn
    set A := bsplMatrix K t n tau l r with hA
    have hsysEq : (⟨fun i j => dotOver (List.range tau.length) (fun q => A q i) (fun q => A q j),
        fun i => fdotOver (α := ℝ) (σ := ℝ) (List.range tau.length) (fun q => A q i)
          (fun q => y.getD q (ModOps.zero ℝ))⟩ : FSys ℝ ℝ)
        = ⟨fun i j => ∑ q ∈ Finset.range tau.length, A q i * A q j,
           fun i => ∑ q ∈ Finset.range tau.length, A q i * y.getD q 0⟩ := by
      congr 1
      · funext i j; exact dot_real_sum _ _ _
      · funext i; exact fdot_real_sum _ _ _
    rw [hsysEq]
    set sys : FSys ℝ ℝ := ⟨fun i j => ∑ q ∈ Finset.range tau.length, A q i * A q j,
      fun i => ∑ q ∈ Finset.range tau.length, A q i * y.getD q 0⟩ with hsys
    -- every row of the collocation system is satisfied by Marsden's coefficients …
    have hrow : ∀ q, q < tau.length →
        ∑ j ∈ Finset.range n, A q j * marsdenCoef t K p j = y.getD q 0 := by
      intro q hq
      have := poly_spline_derivs t K H he p hp (rowOrder tau.length l r q) (tau.getD q 0)
        (htau q hq).1 (htau q hq).2
      unfold splineFn at this
      rw [fdot_real_sum] at this
      rw [hy q hq, ← this]
      apply Finset.sum_congr rfl
      intro j _
      rw [hA, bsplMatrix_row]
    -- … hence so are the normal equations
    have hsol : Sol n (toSys sys) (marsdenCoef t K p) := by
      intro i hi
      unfold rowDot
      simp only [toSys, hsys]
      calc ∑ j ∈ Finset.range n, (∑ q ∈ Finset.range tau.length, A q i * A q j) * marsdenCoef t K p j
          = ∑ q ∈ Finset.range tau.length, A q i * ∑ j ∈ Finset.range n, A q j * marsdenCoef t K p j := by
            simp only [Finset.sum_mul, Finset.mul_sum]
            rw [Finset.sum_comm]
            apply Finset.sum_congr rfl
            intro q _
            apply Finset.sum_congr rfl
            intro j _; ring
        _ = ∑ q ∈ Finset.range tau.length, A q i * y.getD q 0 := by
            apply Finset.sum_congr rfl
            intro q hq
            rw [hrow q (Finset.mem_range.1 hq)]
    have huniq := dsolve21_unique geR n (toSys sys) hpiv (marsdenCoef t K p) hsol
    have hsolve : ∀ c, c < n → fdsolve21 (α := ℝ) (σ := ℝ) n sys c = marsdenCoef t K p c := by
      intro c hc
      have e : fdsolve21 (α := ℝ) (σ := ℝ) n sys = @dsolve21 ℝ (ringLinOps geR) n (toSys sys) :=
        fdsolve21_eq geR n sys
      rw [e]; exact (huniq c hc).symm
    rw [ppdnev_real _ _ rfl]
    congr 1
    have := poly_spline_derivs t K H he p hp m x hx0 hx1
    rw [← this]
    unfold splineFn
    rw [fdot_real_sum, fdot_real_sum]
    apply Finset.sum_congr rfl
    intro i hi
    rw [Finset.mem_range] at hi
    have hi' : i < n := hi
    congr 1
    rw [getD_map_range, if_pos hi']
    exact hsolve i hi'
  · cases h

end Rateslib
