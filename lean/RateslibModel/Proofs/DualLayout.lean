/-
Name-indexed semantics of first-order dual numbers and the central refinement lemmas:
every binary operation acts per variable NAME, whatever the stored layout.
-/
import RateslibModel.Model.Dual
import Mathlib.Algebra.Ring.Defs
import Mathlib.Tactic.Ring
import Mathlib.Data.List.Nodup
namespace Rateslib

section Lookup
variable {α : Type} [OfNat α 0]

theorem lookup_not_mem (vars : List String) (dual : List α) (n : String) (h : n ∉ vars) :
    lookupOrZero vars dual n = 0 := by
  unfold lookupOrZero
  rw [List.idxOf?_eq_none_iff.2 h]

theorem lookup_idx (vars : List String) (dual : List α) (n : String) (i : Nat)
    (h : vars.idxOf? n = some i) : lookupOrZero vars dual n = dual.getD i 0 := by
  unfold lookupOrZero; rw [h]

theorem idxOf_of_mem (vars : List String) (n : String) (h : n ∈ vars) :
    ∃ i, vars.idxOf? n = some i ∧ ∃ hi : i < vars.length, vars[i] = n := by
  cases hx : vars.idxOf? n with
  | none => exact absurd h (List.idxOf?_eq_none_iff.1 hx)
  | some i =>
    obtain ⟨hi, h1, _⟩ := List.idxOf?_eq_some_iff.1 hx
    exact ⟨i, rfl, hi, h1⟩

theorem idxOf_nodup (vars : List String) (hn : vars.Nodup) (i : Nat) (hi : i < vars.length) :
    vars.idxOf? vars[i] = some i := by
  rw [List.idxOf?_eq_some_iff]
  refine ⟨hi, rfl, fun j hj hEq => ?_⟩
  have := (List.getElem_inj hn).mp hEq
  omega

/-- looking a name up in a freshly re-indexed array returns the function value -/
theorem lookup_map_names (nv : List String) (f : String → α) (n : String) (h : n ∈ nv) :
    lookupOrZero nv (nv.map f) n = f n := by
  obtain ⟨i, hi, hlt, hv⟩ := idxOf_of_mem nv n h
  rw [lookup_idx _ _ _ _ hi, List.getD_eq_getElem?_getD, List.getElem?_map,
    List.getElem?_eq_getElem hlt, hv]
  rfl

theorem lookup_map (vars : List String) (l : List α) (g : α → α) (n : String)
    (hl : l.length = vars.length) (h : n ∈ vars) :
    lookupOrZero vars (l.map g) n = g (lookupOrZero vars l n) := by
  obtain ⟨i, hi, hlt, _⟩ := idxOf_of_mem vars n h
  rw [lookup_idx _ _ _ _ hi, lookup_idx _ _ _ _ hi, List.getD_eq_getElem?_getD,
    List.getD_eq_getElem?_getD, List.getElem?_map, List.getElem?_eq_getElem (by omega)]
  rfl

theorem lookup_zipWith (vars : List String) (l1 l2 : List α) (f : α → α → α) (n : String)
    (h1 : l1.length = vars.length) (h2 : l2.length = vars.length) (h : n ∈ vars) :
    lookupOrZero vars (List.zipWith f l1 l2) n = f (lookupOrZero vars l1 n) (lookupOrZero vars l2 n) := by
  obtain ⟨i, hi, hlt, _⟩ := idxOf_of_mem vars n h
  rw [lookup_idx _ _ _ _ hi, lookup_idx _ _ _ _ hi, lookup_idx _ _ _ _ hi]
  simp only [List.getD_eq_getElem?_getD, List.getElem?_zipWith,
    List.getElem?_eq_getElem (show i < l1.length by omega),
    List.getElem?_eq_getElem (show i < l2.length by omega), Option.getD_some]

/-- two arrays over the same duplicate-free names agree iff they agree name by name -/
theorem ext_of_lookup (vars : List String) (hn : vars.Nodup) (l1 l2 : List α)
    (h1 : l1.length = vars.length) (h2 : l2.length = vars.length)
    (h : ∀ n, lookupOrZero vars l1 n = lookupOrZero vars l2 n) : l1 = l2 := by
  apply List.ext_getElem (by omega)
  intro i hi1 hi2
  have hi : i < vars.length := by omega
  have := h vars[i]
  rw [lookup_idx _ _ _ _ (idxOf_nodup vars hn i hi), lookup_idx _ _ _ _ (idxOf_nodup vars hn i hi),
    List.getD_eq_getElem?_getD, List.getD_eq_getElem?_getD, List.getElem?_eq_getElem hi1,
    List.getElem?_eq_getElem hi2] at this
  simpa using this

end Lookup

/-! ### variable lists -/

theorem mem_unionVars (a b : List String) (n : String) : n ∈ unionVars a b ↔ n ∈ a ∨ n ∈ b := by
  unfold unionVars
  simp only [List.mem_append, List.mem_filter, Bool.not_eq_true', List.contains_eq_mem,
    decide_eq_false_iff_not]
  constructor
  · rintro (h | ⟨h, _⟩) <;> simp [h]
  · rintro (h | h)
    · exact Or.inl h
    · by_cases ha : n ∈ a
      · exact Or.inl ha
      · exact Or.inr ⟨h, ha⟩

theorem nodup_unionVars (a b : List String) (ha : a.Nodup) (hb : b.Nodup) : (unionVars a b).Nodup := by
  unfold unionVars
  rw [List.nodup_append]
  refine ⟨ha, hb.filter _, ?_⟩
  intro x hx y hy
  simp only [List.mem_filter, Bool.not_eq_true', List.contains_eq_mem, decide_eq_false_iff_not] at hy
  rintro rfl
  exact hy.2 hx

namespace Dual
variable {α : Type}

/-- shape invariant of a first-order dual number -/
def WF (d : Dual α) : Prop := d.vars.Nodup ∧ d.dual.length = d.vars.length

variable [OfNat α 0]

/-- derivative with respect to the variable NAMED `n` (0 if the number does not carry it) -/
def den (d : Dual α) (n : String) : α := lookupOrZero d.vars d.dual n

theorem den_toNewVars_lookup (d : Dual α) (nv : List String) (st : VarsRel)
    (hst : st ≠ .arcEq ∧ st ≠ .valEq) (n : String) :
    den (d.toNewVars nv st) n = if n ∈ nv then den d n else 0 := by
  have : d.toNewVars nv st = ⟨d.real, nv, nv.map (lookupOrZero d.vars d.dual)⟩ := by
    cases st <;> simp_all [toNewVars]
  rw [this]
  unfold den
  by_cases h : n ∈ nv
  · rw [if_pos h]; exact lookup_map_names nv _ n h
  · rw [if_neg h]; exact lookup_not_mem _ _ _ h

theorem wf_toNewVars_lookup (d : Dual α) (nv : List String) (st : VarsRel)
    (hst : st ≠ .arcEq ∧ st ≠ .valEq) (hn : nv.Nodup) :
    (d.toNewVars nv st).WF ∧ (d.toNewVars nv st).vars = nv ∧ (d.toNewVars nv st).real = d.real := by
  have : d.toNewVars nv st = ⟨d.real, nv, nv.map (lookupOrZero d.vars d.dual)⟩ := by
    cases st <;> simp_all [toNewVars]
  rw [this]
  exact ⟨⟨hn, by simp⟩, rfl, rfl⟩

/-- what every binary operation relies on: after alignment both operands live on one duplicate-free
list that is, as a set, the union of the two lists, and nothing changed name by name. -/
structure AlignedSpec (a b x y : Dual α) : Prop where
  vars_eq : x.vars = y.vars
  wfx : x.WF
  wfy : y.WF
  denx : ∀ n, den x n = den a n
  deny : ∀ n, den y n = den b n
  realx : x.real = a.real
  realy : y.real = b.real
  mem : ∀ n, n ∈ x.vars ↔ n ∈ a.vars ∨ n ∈ b.vars

theorem contains_all_iff (a b : List String) :
    (b.all fun v => a.contains v) = true ↔ ∀ n ∈ b, n ∈ a := by
  simp [List.all_eq_true]

theorem aligned_spec (p : Bool) (a b : Dual α) (ha : a.WF) (hb : b.WF)
    (hp : p = true → a.vars = b.vars) :
    AlignedSpec a b (aligned p a b).1 (aligned p a b).2 := by
  unfold aligned
  cases hc : varsCmp p a.vars b.vars with
  | arcEq =>
    have hv : a.vars = b.vars := by
      unfold varsCmp at hc
      by_cases h : p = true
      · exact hp h
      · simp only [h] at hc
        repeat' split at hc
        all_goals simp_all
    exact ⟨hv, ha, hb, fun _ => rfl, fun _ => rfl, rfl, rfl, fun n => by simp [hv]⟩
  | valEq =>
    have hv : a.vars = b.vars := by
      unfold varsCmp at hc
      repeat' split at hc
      all_goals simp_all
    exact ⟨hv, ha, hb, fun _ => rfl, fun _ => rfl, rfl, rfl, fun n => by simp [hv]⟩
  | superset =>
    have hsub : ∀ n ∈ b.vars, n ∈ a.vars := by
      unfold varsCmp at hc
      repeat' split at hc
      all_goals simp_all
    simp only [toUnionVars]
    obtain ⟨w1, w2, w3⟩ := wf_toNewVars_lookup b a.vars .subset (by simp) ha.1
    refine ⟨w2.symm, ha, w1, fun _ => rfl, fun n => ?_, rfl, w3, fun n => ?_⟩
    · rw [den_toNewVars_lookup b a.vars .subset (by simp)]
      by_cases h : n ∈ a.vars
      · rw [if_pos h]
      · rw [if_neg h]
        exact (lookup_not_mem _ _ _ (fun hb' => h (hsub n hb'))).symm
    · constructor
      · exact Or.inl
      · rintro (h | h)
        · exact h
        · exact hsub n h
  | subset =>
    have hsub : ∀ n ∈ a.vars, n ∈ b.vars := by
      unfold varsCmp at hc
      repeat' split at hc
      all_goals simp_all
    simp only [toUnionVars]
    obtain ⟨w1, w2, w3⟩ := wf_toNewVars_lookup a b.vars .subset (by simp) hb.1
    refine ⟨w2, w1, hb, fun n => ?_, fun _ => rfl, w3, rfl, fun n => ?_⟩
    · rw [den_toNewVars_lookup a b.vars .subset (by simp)]
      by_cases h : n ∈ b.vars
      · rw [if_pos h]
      · rw [if_neg h]
        exact (lookup_not_mem _ _ _ (fun ha' => h (hsub n ha'))).symm
    · rw [w2]
      constructor
      · exact Or.inr
      · rintro (h | h)
        · exact hsub n h
        · exact h
  | difference =>
    simp only [toUnionVars]
    have hn := nodup_unionVars a.vars b.vars ha.1 hb.1
    obtain ⟨w1, w2, w3⟩ := wf_toNewVars_lookup a (unionVars a.vars b.vars) .difference (by simp) hn
    obtain ⟨v1, v2, v3⟩ := wf_toNewVars_lookup b (unionVars a.vars b.vars) .difference (by simp) hn
    refine ⟨w2.trans v2.symm, w1, v1, fun n => ?_, fun n => ?_, w3, v3, fun n => ?_⟩
    · rw [den_toNewVars_lookup a _ .difference (by simp)]
      by_cases h : n ∈ unionVars a.vars b.vars
      · rw [if_pos h]
      · rw [if_neg h]
        exact (lookup_not_mem _ _ _ (fun h' => h ((mem_unionVars _ _ _).2 (Or.inl h')))).symm
    · rw [den_toNewVars_lookup b _ .difference (by simp)]
      by_cases h : n ∈ unionVars a.vars b.vars
      · rw [if_pos h]
      · rw [if_neg h]
        exact (lookup_not_mem _ _ _ (fun h' => h ((mem_unionVars _ _ _).2 (Or.inr h')))).symm
    · rw [w2]; exact mem_unionVars _ _ _

/-- the pointer-equality flag cannot change the aligned pair when the invariant
`ptrEq → equal lists` holds -/
theorem aligned_ptr_irrelevant (a b : Dual α) (h : a.vars = b.vars) :
    aligned true a b = aligned false a b := by
  unfold aligned varsCmp
  simp [h]

end Dual
end Rateslib
