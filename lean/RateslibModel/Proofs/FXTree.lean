/-
C09/C10 without hypotheses on potentials: whenever the triangulation returns a result for `n − 1` quotes
over `n` currencies, the quoted pairs form a tree (`Proofs/TreePotential.lean`), so a value potential `u`
(`quote = u a / u b`) and, for every quote, the cut it alone crosses, EXIST.
-/
import RateslibModel.Proofs.FXComplete
import RateslibModel.Proofs.FXSens
import RateslibModel.Proofs.TreePotential
import Mathlib.Algebra.Group.Units.Basic
import Mathlib.Algebra.GroupWithZero.Units.Basic
import Mathlib.Algebra.Group.TypeTags.Basic
namespace Rateslib

section Conn
variable {τ : Type} [FxOps τ]

/-- a result is returned only if the quoted pairs connect all currencies -/
theorem connected_of_fill (n fuel : Nat) (pairs : List (Nat × Nat × τ)) (zero : τ) (a' : FxArr τ)
    (h : fill n fuel (initArr pairs zero) [] = some a') : Connected n (initArr pairs zero) := by
  intro S hS ⟨i0, hi0, hin⟩ j hj
  by_contra hout
  have := fill_none_of_disconnected n S i0 j hi0 hj hin hout fuel _ [] (init_symm pairs zero) hS
  rw [this] at h; cases h

/-- connectedness of the seeded array is connectedness of the list of quoted index pairs, whatever the
values attached to them -/
theorem connectedE_of_connected {G : Type} (n : Nat) (pairs : List (Nat × Nat × τ)) (zero : τ)
    (g : Nat × Nat × τ → G) (hc : Connected n (initArr pairs zero)) :
    ConnectedE n (pairs.map fun p => (p.1, p.2.1, g p)) := by
  intro S hS hne j hj
  apply hc S _ hne j hj
  intro i k _ _ hik
  rw [init_edges] at hik
  rcases hik with rfl | ⟨p, hp, h | h⟩
  · rfl
  · have := hS (p.1, p.2.1, g p) (List.mem_map.2 ⟨p, hp, rfl⟩)
    rw [h.1, h.2]; exact this
  · have := hS (p.1, p.2.1, g p) (List.mem_map.2 ⟨p, hp, rfl⟩)
    rw [h.1, h.2]; exact this.symm

end Conn

/-! ### C09: the value potential exists -/
section Field
variable {K : Type} [Field K]

/-- EXISTENCE OF THE POTENTIAL: `n − 1` non-zero quotes over `n` currencies for which the triangulation
returns a result are all of the form `u a / u b` for one non-vanishing `u`. -/
theorem potential_of_fill (n fuel : Nat) (pairs : List (Nat × Nat × K)) (a' : FxArr K)
    (hidx : ∀ p ∈ pairs, p.1 < n ∧ p.2.1 < n) (hlen : pairs.length + 1 = n)
    (hnz : ∀ p ∈ pairs, p.2.2 ≠ 0)
    (h : fill n fuel (initArr pairs 0) [] = some a') :
    ∃ u : Nat → K, (∀ i, u i ≠ 0) ∧ ∀ p ∈ pairs, p.2.2 = u p.1 / u p.2.1 := by
  classical
  have hc := connected_of_fill n fuel pairs 0 a' h
  let g : Nat × Nat × K → Kˣ := fun p => if hx : p.2.2 = 0 then 1 else Units.mk0 p.2.2 hx
  have hce := connectedE_of_connected n pairs 0 g hc
  obtain ⟨φ, hφ⟩ := forest_potential n (pairs.map fun p => (p.1, p.2.1, g p))
    (by intro e he; obtain ⟨p, hp, rfl⟩ := List.mem_map.1 he; exact hidx p hp)
    (by rw [List.length_map]; exact hlen) hce
  refine ⟨fun i => (φ i : K), fun i => (φ i).ne_zero, fun p hp => ?_⟩
  have := hφ (p.1, p.2.1, g p) (List.mem_map.2 ⟨p, hp, rfl⟩)
  simp only at this
  have hx := hnz p hp
  have hg : g p = Units.mk0 p.2.2 hx := by simp only [g, dif_neg hx]
  rw [hg] at this
  have h2 := congrArg (fun z : Kˣ => (z : K)) this
  simp only [Units.val_div_eq_div_val, Units.val_mk0] at h2
  exact h2.symm

end Field

/-! ### C10: the cut exists -/
section Cut
open Rateslib.Dual

/-- connectedness only looks at the index pairs -/
theorem connectedE_values {G G' : Type} (n : Nat) (l : List (Nat × Nat × G)) (l' : List (Nat × Nat × G'))
    (h : l.map (fun e => (e.1, e.2.1)) = l'.map (fun e => (e.1, e.2.1))) (hc : ConnectedE n l) :
    ConnectedE n l' := by
  intro S hS hne j hj
  apply hc S _ hne j hj
  intro e he
  have : (e.1, e.2.1) ∈ l'.map (fun e => (e.1, e.2.1)) := by
    rw [← h]; exact List.mem_map.2 ⟨e, he, rfl⟩
  obtain ⟨e', he', hee⟩ := List.mem_map.1 this
  have := hS e' he'
  simp only [Prod.mk.injEq] at hee
  rw [← hee.1, ← hee.2]; exact this

/-- EXISTENCE OF THE CUT: in a connected market of `n − 1` quotes (index pairs, flagged `true` when the quote
carries the variable of `q0 = (a0, b0)`) there is a 0/1 function `σ` of the currencies with `σ a0 = 1`,
`σ b0 = 0` that no unflagged quote crosses. -/
theorem cut_of_connected (n : Nat) (edges : List (Nat × Nat × Bool))
    (hidx : ∀ e ∈ edges, e.1 < n ∧ e.2.1 < n) (hlen : edges.length + 1 = n)
    (hc : ConnectedE n edges)
    (a0 b0 : Nat) (ha0 : a0 < n) (hq0 : (a0, b0, true) ∈ edges)
    (hsame : ∀ e ∈ edges, e.2.2 = true → e.1 = a0 ∧ e.2.1 = b0) :
    ∃ σ : Nat → ℝ, (∀ i, i < n → σ i = 0 ∨ σ i = 1) ∧ σ a0 = 1 ∧ σ b0 = 0 ∧
      ∀ e ∈ edges, e.2.2 = false → σ e.1 = σ e.2.1 := by
  let val : Nat × Nat × Bool → Multiplicative ℝ := fun e => Multiplicative.ofAdd (if e.2.2 then 1 else 0)
  let medges : List (Nat × Nat × Multiplicative ℝ) := edges.map fun e => (e.1, e.2.1, val e)
  have hce : ConnectedE n medges :=
    connectedE_values n edges medges (by simp only [medges, List.map_map]; rfl) hc
  have hlen' : medges.length + 1 = n := by simp only [medges, List.length_map]; exact hlen
  have hidx' : ∀ e ∈ medges, e.1 < n ∧ e.2.1 < n := by
    intro e he
    obtain ⟨p, hp, rfl⟩ := List.mem_map.1 he
    exact hidx p hp
  obtain ⟨φ, hφ⟩ := forest_potential n medges hidx' hlen' hce
  have htwo := potential_two_valued n medges hce φ hφ a0 b0 ha0 (by
    intro e he
    obtain ⟨p, hp, rfl⟩ := List.mem_map.1 he
    cases hb : p.2.2 with
    | false => left; simp [val, hb]
    | true => right; exact hsame p hp hb)
  have h0 := hφ (a0, b0, val (a0, b0, true)) (List.mem_map.2 ⟨(a0, b0, true), hq0, rfl⟩)
  simp only [val, if_true] at h0
  have h0' : Multiplicative.toAdd (φ a0) - Multiplicative.toAdd (φ b0) = 1 := by
    have := congrArg Multiplicative.toAdd h0
    simpa using this
  refine ⟨fun i => Multiplicative.toAdd (φ i) - Multiplicative.toAdd (φ b0), fun i hi => ?_, h0', by simp,
    fun e he hb => ?_⟩
  · rcases htwo i hi with h | h
    · right; simp only [h]; exact h0'
    · left; simp [h]
  · have := hφ (e.1, e.2.1, val e) (List.mem_map.2 ⟨e, he, rfl⟩)
    simp only [val, hb] at this
    have h2 := congrArg Multiplicative.toAdd this
    simp only [toAdd_div, Bool.false_eq_true, if_false, toAdd_ofAdd] at h2
    simp only
    linarith

/-- the quoted pairs connect the currencies whenever `create_fx_array` returns an array (any order) -/
theorem connectedE_of_create (currencies : List String) (quotes : List (FXQuote ℝ)) (ad : ADOrder)
    (arr : FxArray ℝ) (h : createFxArray currencies quotes ad = some arr) :
    ConnectedE currencies.length
      (quotes.map fun q => ((pairIdx currencies q).1, (pairIdx currencies q).2, q)) := by
  unfold createFxArray at h
  simp only at h
  cases ad with
  | zero =>
    simp only at h
    cases hf : fill currencies.length (fillFuel currencies.length)
        (initArr (List.map (fun p => (p.1.1, p.1.2, p.2.toF64))
          (List.map (fun q => (pairIdx currencies q, setOrder q.rate ADOrder.zero [fxVarName q])) quotes))
          (0 : ℝ)) [] with
    | none => rw [hf] at h; cases h
    | some A =>
      have hce := connectedE_of_connected (G := Unit) currencies.length _ _ (fun _ => ())
        (connected_of_fill _ _ _ _ A hf)
      refine connectedE_values _ _ _ ?_ hce
      simp only [List.map_map]; rfl
  | one =>
    simp only at h
    cases hf : fill currencies.length (fillFuel currencies.length)
        (initArr (List.map (fun p => (p.1.1, p.1.2, p.2.toDual))
          (List.map (fun q => (pairIdx currencies q, setOrder q.rate ADOrder.one [fxVarName q])) quotes))
          (Dual.new (0 : ℝ) [])) [] with
    | none => rw [hf] at h; cases h
    | some A =>
      have hce := connectedE_of_connected (G := Unit) currencies.length _ _ (fun _ => ())
        (connected_of_fill _ _ _ _ A hf)
      refine connectedE_values _ _ _ ?_ hce
      simp only [List.map_map]; rfl
  | two =>
    simp only at h
    cases hf : fill currencies.length (fillFuel currencies.length)
        (initArr (List.map (fun p => (p.1.1, p.1.2, p.2.toDual2))
          (List.map (fun q => (pairIdx currencies q, setOrder q.rate ADOrder.two [fxVarName q])) quotes))
          (Dual2.new (0 : ℝ) [])) [] with
    | none => rw [hf] at h; cases h
    | some A =>
      have hce := connectedE_of_connected (G := Unit) currencies.length _ _ (fun _ => ())
        (connected_of_fill _ _ _ _ A hf)
      refine connectedE_values _ _ _ ?_ hce
      simp only [List.map_map]; rfl

/-- the value potential of a connected market of `n − 1` non-zero plain-number quotes -/
theorem potential_of_connected (currencies : List String) (quotes : List (FXQuote ℝ))
    (hcount : quotes.length + 1 = currencies.length)
    (hidx : ∀ q ∈ quotes, (pairIdx currencies q).1 < currencies.length ∧
      (pairIdx currencies q).2 < currencies.length)
    (hplain : ∀ q ∈ quotes, ∃ f, q.rate = .f64 f ∧ f ≠ 0)
    (hconn : ConnectedE currencies.length
      (quotes.map fun q => ((pairIdx currencies q).1, (pairIdx currencies q).2, q))) :
    ∃ u : Nat → ℝ, (∀ i, u i ≠ 0) ∧ ∀ q ∈ quotes, ∃ f, q.rate = .f64 f ∧
      f = u (pairIdx currencies q).1 / u (pairIdx currencies q).2 := by
  classical
  let gv : FXQuote ℝ → ℝˣ := fun q =>
    match q.rate with
    | .f64 f => if hx : f = 0 then 1 else Units.mk0 f hx
    | _ => 1
  obtain ⟨φ, hφ⟩ := forest_potential currencies.length
    (quotes.map fun q => ((pairIdx currencies q).1, (pairIdx currencies q).2, gv q))
    (by intro e he; obtain ⟨q, hq, rfl⟩ := List.mem_map.1 he; exact hidx q hq)
    (by rw [List.length_map]; exact hcount)
    (connectedE_values _ _ _ (by simp only [List.map_map]; rfl) hconn)
  refine ⟨fun i => (φ i : ℝ), fun i => (φ i).ne_zero, ?_⟩
  intro q hq
  obtain ⟨f, hf, hfz⟩ := hplain q hq
  refine ⟨f, hf, ?_⟩
  have := hφ _ (List.mem_map.2 ⟨q, hq, rfl⟩)
  simp only at this
  have hg : gv q = Units.mk0 f hfz := by simp only [gv, hf, dif_neg hfz]
  rw [hg] at this
  have h2 := congrArg (fun z : ℝˣ => (z : ℝ)) this
  simp only [Units.val_div_eq_div_val, Units.val_mk0] at h2
  exact h2.symm

/-- the 0/1 cut of a quote `q0` in a connected market of `n − 1` quotes -/
theorem cut_of_quote (currencies : List String) (quotes : List (FXQuote ℝ))
    (hcount : quotes.length + 1 = currencies.length)
    (hidx : ∀ q ∈ quotes, (pairIdx currencies q).1 < currencies.length ∧
      (pairIdx currencies q).2 < currencies.length)
    (hconn : ConnectedE currencies.length
      (quotes.map fun q => ((pairIdx currencies q).1, (pairIdx currencies q).2, q)))
    (q0 : FXQuote ℝ) (hq0 : q0 ∈ quotes)
    (hsame : ∀ q ∈ quotes, fxVarName q = fxVarName q0 →
      pairIdx currencies q = pairIdx currencies q0 ∧ q.rate = q0.rate) :
    ∃ σ : Nat → ℝ, (∀ i, i < currencies.length → σ i = 0 ∨ σ i = 1) ∧
      σ (pairIdx currencies q0).1 = 1 ∧ σ (pairIdx currencies q0).2 = 0 ∧
      ∀ q ∈ quotes, fxVarName q ≠ fxVarName q0 → σ (pairIdx currencies q).1 = σ (pairIdx currencies q).2 := by
  obtain ⟨σ, hσ01, hσa, hσb, hσo⟩ := cut_of_connected currencies.length
    (quotes.map fun q => ((pairIdx currencies q).1, (pairIdx currencies q).2,
      decide (fxVarName q = fxVarName q0)))
    (by intro e he; obtain ⟨q, hq, rfl⟩ := List.mem_map.1 he; exact hidx q hq)
    (by rw [List.length_map]; exact hcount)
    (connectedE_values _ _ _ (by simp only [List.map_map]; rfl) hconn)
    (pairIdx currencies q0).1 (pairIdx currencies q0).2 (hidx q0 hq0).1
    (List.mem_map.2 ⟨q0, hq0, by simp⟩)
    (by
      intro e he hb
      obtain ⟨q, hq, rfl⟩ := List.mem_map.1 he
      simp only [decide_eq_true_eq] at hb
      have := (hsame q hq hb).1
      simp only [this, and_self])
  refine ⟨σ, hσ01, hσa, hσb, fun q hq hne => ?_⟩
  exact hσo _ (List.mem_map.2 ⟨q, hq, rfl⟩) (by simp [hne])

/-- FIRST-ORDER SENSITIVITIES ON A TREE OF PLAIN-NUMBER QUOTES, no hypothesis on potentials: whenever the
first-order array is returned for `n − 1` non-zero plain-number quotes over `n` currencies, there are a
non-vanishing `u` and, for each quote `q0`, a 0/1 cut `σ` (`σ a0 = 1`, `σ b0 = 0`) such that every cross
`i/j` has value `u i / u j` and sensitivity `(σ i − σ j) · cross / quote` to `fx_<q0>`: `+cross/quote`,
`−cross/quote` or `0`. -/
theorem fx_sensitivity_tree (currencies : List String) (quotes : List (FXQuote ℝ))
    (hcount : quotes.length + 1 = currencies.length)
    (hidx : ∀ q ∈ quotes, (pairIdx currencies q).1 < currencies.length ∧
      (pairIdx currencies q).2 < currencies.length)
    (hplain : ∀ q ∈ quotes, ∃ f, q.rate = .f64 f ∧ f ≠ 0)
    (q0 : FXQuote ℝ) (hq0 : q0 ∈ quotes) (f0 : ℝ) (hf0 : q0.rate = .f64 f0)
    (hsame : ∀ q ∈ quotes, fxVarName q = fxVarName q0 →
      pairIdx currencies q = pairIdx currencies q0 ∧ q.rate = q0.rate)
    (a1 : Nat → Nat → Dual ℝ) (h1 : createFxArray currencies quotes .one = some (.dual a1)) :
    ∃ (u σ : Nat → ℝ), (∀ i, u i ≠ 0) ∧ (∀ i, i < currencies.length → σ i = 0 ∨ σ i = 1) ∧
      σ (pairIdx currencies q0).1 = 1 ∧ σ (pairIdx currencies q0).2 = 0 ∧
      ∀ i j, i < currencies.length → j < currencies.length →
        (a1 i j).real = u i / u j ∧
        den (a1 i j) (fxVarName q0) = (σ i - σ j) * (a1 i j).real / f0 := by
  have hconn := connectedE_of_create currencies quotes .one _ h1
  obtain ⟨u, hu, hval⟩ := potential_of_connected currencies quotes hcount hidx hplain hconn
  obtain ⟨σ, hσ01, hσa, hσb, hσo⟩ := cut_of_quote currencies quotes hcount hidx hconn q0 hq0 hsame
  refine ⟨u, σ, hu, hσ01, hσa, hσb, ?_⟩
  obtain ⟨f0', hf0', hf0u⟩ := hval q0 hq0
  have hff : f0' = f0 := by rw [hf0] at hf0'; injection hf0' with h; exact h.symm
  rw [hff] at hf0u
  exact fx_sensitivity_cut currencies quotes u hu hval q0 f0 hf0 hf0u σ (by rw [hσa, hσb]; ring) hσo hsame a1 h1

/-- SECOND ORDER ON A TREE, one quote twice: `½ · cross · (s² − s) / quote²` with `s = σ i − σ j ∈ {−1, 0, 1}`. -/
theorem fx_sensitivity2_same_tree (currencies : List String) (quotes : List (FXQuote ℝ))
    (hcount : quotes.length + 1 = currencies.length)
    (hidx : ∀ q ∈ quotes, (pairIdx currencies q).1 < currencies.length ∧
      (pairIdx currencies q).2 < currencies.length)
    (hplain : ∀ q ∈ quotes, ∃ f, q.rate = .f64 f ∧ f ≠ 0)
    (q0 : FXQuote ℝ) (hq0 : q0 ∈ quotes) (f0 : ℝ) (hf0 : q0.rate = .f64 f0)
    (hsame : ∀ q ∈ quotes, fxVarName q = fxVarName q0 →
      pairIdx currencies q = pairIdx currencies q0 ∧ q.rate = q0.rate)
    (a2 : Nat → Nat → Dual2 ℝ) (h2 : createFxArray currencies quotes .two = some (.dual2 a2)) :
    ∃ σ : Nat → ℝ, (∀ i, i < currencies.length → σ i = 0 ∨ σ i = 1) ∧
      σ (pairIdx currencies q0).1 = 1 ∧ σ (pairIdx currencies q0).2 = 0 ∧
      ∀ i j, i < currencies.length → j < currencies.length →
        Dual2.den2 (a2 i j) (fxVarName q0) (fxVarName q0)
          = 1 / 2 * (a2 i j).real * ((σ i - σ j) ^ 2 - (σ i - σ j)) / f0 ^ 2 := by
  have hconn := connectedE_of_create currencies quotes .two _ h2
  obtain ⟨u, hu, hval⟩ := potential_of_connected currencies quotes hcount hidx hplain hconn
  obtain ⟨σ, hσ01, hσa, hσb, hσo⟩ := cut_of_quote currencies quotes hcount hidx hconn q0 hq0 hsame
  refine ⟨σ, hσ01, hσa, hσb, ?_⟩
  obtain ⟨f0', hf0', hf0u⟩ := hval q0 hq0
  have hff : f0' = f0 := by rw [hf0] at hf0'; injection hf0' with h; exact h.symm
  rw [hff] at hf0u
  exact fx_sensitivity2_same currencies quotes u hu hval q0 f0 hf0 hf0u σ (by rw [hσa, hσb]; ring) hσo hsame a2 h2

/-- SECOND ORDER ON A TREE, two different quotes: `½ · cross · s0 · s1 / (quote0 · quote1)`. -/
theorem fx_sensitivity2_cross_tree (currencies : List String) (quotes : List (FXQuote ℝ))
    (hcount : quotes.length + 1 = currencies.length)
    (hidx : ∀ q ∈ quotes, (pairIdx currencies q).1 < currencies.length ∧
      (pairIdx currencies q).2 < currencies.length)
    (hplain : ∀ q ∈ quotes, ∃ f, q.rate = .f64 f ∧ f ≠ 0)
    (q0 q1 : FXQuote ℝ) (hq0 : q0 ∈ quotes) (hq1 : q1 ∈ quotes) (f0 f1 : ℝ)
    (hf0 : q0.rate = .f64 f0) (hf1 : q1.rate = .f64 f1) (hne : fxVarName q0 ≠ fxVarName q1)
    (hsame0 : ∀ q ∈ quotes, fxVarName q = fxVarName q0 →
      pairIdx currencies q = pairIdx currencies q0 ∧ q.rate = q0.rate)
    (hsame1 : ∀ q ∈ quotes, fxVarName q = fxVarName q1 →
      pairIdx currencies q = pairIdx currencies q1 ∧ q.rate = q1.rate)
    (a2 : Nat → Nat → Dual2 ℝ) (h2 : createFxArray currencies quotes .two = some (.dual2 a2)) :
    ∃ σ0 σ1 : Nat → ℝ, (∀ i, i < currencies.length → σ0 i = 0 ∨ σ0 i = 1) ∧
      (∀ i, i < currencies.length → σ1 i = 0 ∨ σ1 i = 1) ∧
      ∀ i j, i < currencies.length → j < currencies.length →
        Dual2.den2 (a2 i j) (fxVarName q0) (fxVarName q1)
          = 1 / 2 * (a2 i j).real * ((σ0 i - σ0 j) * (σ1 i - σ1 j)) / (f0 * f1) := by
  have hconn := connectedE_of_create currencies quotes .two _ h2
  obtain ⟨u, hu, hval⟩ := potential_of_connected currencies quotes hcount hidx hplain hconn
  obtain ⟨σ0, h01, ha0, hb0, ho0⟩ := cut_of_quote currencies quotes hcount hidx hconn q0 hq0 hsame0
  obtain ⟨σ1, h11, ha1, hb1, ho1⟩ := cut_of_quote currencies quotes hcount hidx hconn q1 hq1 hsame1
  refine ⟨σ0, σ1, h01, h11, ?_⟩
  obtain ⟨f0', hf0', hf0u⟩ := hval q0 hq0
  have hff0 : f0' = f0 := by rw [hf0] at hf0'; injection hf0' with h; exact h.symm
  rw [hff0] at hf0u
  obtain ⟨f1', hf1', hf1u⟩ := hval q1 hq1
  have hff1 : f1' = f1 := by rw [hf1] at hf1'; injection hf1' with h; exact h.symm
  rw [hff1] at hf1u
  exact fx_sensitivity2_cross currencies quotes u hu hval q0 q1 f0 f1 hf0 hf1 hf0u hf1u hne σ0 σ1
    (by rw [ha0, hb0]; ring) (by rw [ha1, hb1]; ring) ho0 ho1 hsame0 hsame1 a2 h2

end Cut
end Rateslib
