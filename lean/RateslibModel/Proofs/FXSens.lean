/-
FX sensitivities: the triangulation preserves every relation closed under its arithmetic; instantiated with
"value u_i/u_j and sensitivity value·(λ_i − λ_j)" (first order) and its second-order analogue, this gives
the sensitivity of every cross rate to every quote.
-/
import RateslibModel.Proofs.FXInit
import RateslibModel.Proofs.DualOps
import RateslibModel.Analysis.Refine2
namespace Rateslib

/-! ### the triangulation preserves every relation closed under its arithmetic -/
section Rel
variable {τ : Type} [FxOps τ]

/-- a relation "`x` is a legitimate (i, j) entry" closed under the arithmetic of the triangulation -/
structure FxRel (R : Nat → Nat → τ → Prop) : Prop where
  one : ∀ i, R i i FxOps.one
  mul : ∀ i j k x y, R i j x → R j k y → R i k (FxOps.mul x y)
  recip : ∀ i j x, R i j x → R j i (FxOps.recip x)

/-- every populated entry satisfies the relation -/
def ConsistentR (R : Nat → Nat → τ → Prop) (a : FxArr τ) : Prop :=
  ∀ i j, a.edges i j = true → R i j (a.fx i j)

variable {R : Nat → Nat → τ → Prop}

theorem fillStep_consistentR (H : FxRel R) (node : Nat) (acc : FxArr τ) (c : Nat × Nat)
    (hc : ConsistentR R acc) (h1 : acc.edges c.1 node = true) (h2 : acc.edges node c.2 = true) :
    ConsistentR R (fillStep node acc c) := by
  intro i j hij
  have hv : R c.1 c.2 (FxOps.mul (acc.fx c.1 node) (acc.fx node c.2)) :=
    H.mul _ _ _ _ _ (hc _ _ h1) (hc _ _ h2)
  simp only [fillStep, upd2] at hij ⊢
  by_cases hA : i = c.2 ∧ j = c.1
  · rw [if_pos hA]
    simp only [and_self, if_true]
    rw [hA.1, hA.2]
    exact H.recip _ _ _ hv
  · rw [if_neg hA]
    by_cases hB : i = c.1 ∧ j = c.2
    · rw [if_pos hB, hB.1, hB.2]; exact hv
    · rw [if_neg hB]
      rw [if_neg hA, if_neg hB] at hij
      exact hc i j hij

theorem foldl_consistentR (H : FxRel R) (node : Nat) :
    ∀ (cs : List (Nat × Nat)) (acc : FxArr τ), ConsistentR R acc →
      (∀ c ∈ cs, acc.edges c.1 node = true ∧ acc.edges node c.2 = true) →
      ConsistentR R (cs.foldl (fillStep node) acc) := by
  intro cs
  induction cs with
  | nil => intro acc h _; exact h
  | cons c cs ih =>
    intro acc h hn
    rw [List.foldl_cons]
    obtain ⟨n1, n2⟩ := hn c List.mem_cons_self
    refine ih _ (fillStep_consistentR H node acc c h n1 n2) ?_
    intro c' hc'
    obtain ⟨m1, m2⟩ := hn c' (List.mem_cons_of_mem _ hc')
    exact ⟨fillStep_edges_mono node acc c _ _ m1, fillStep_edges_mono node acc c _ _ m2⟩

theorem mem_pairsOf' (l : List Nat) (c : Nat × Nat) (h : c ∈ pairsOf l) : c.1 ∈ l ∧ c.2 ∈ l := by
  induction l with
  | nil => simp [pairsOf] at h
  | cons x xs ih =>
    simp only [pairsOf, List.mem_append, List.mem_map] at h
    rcases h with ⟨y, hy, rfl⟩ | h
    · exact ⟨List.mem_cons_self, List.mem_cons_of_mem _ hy⟩
    · exact ⟨List.mem_cons_of_mem _ (ih h).1, List.mem_cons_of_mem _ (ih h).2⟩

theorem fillNode_consistentR (H : FxRel R) (n : Nat) (a : FxArr τ) (node : Nat)
    (hc : ConsistentR R a) (hs : SymmEdges a) : ConsistentR R (fillNode n a node).1 := by
  rw [fillNode_eq]
  apply foldl_consistentR H node _ a hc
  intro c hcm
  unfold combosOf at hcm
  have hp := mem_pairsOf' _ c (List.mem_filter.1 hcm).1
  have e1 := (List.mem_filter.1 hp.1).2
  have e2 := (List.mem_filter.1 hp.2).2
  simp only [Bool.and_eq_true] at e1 e2
  exact ⟨by rw [hs]; exact e1.1, e2.1⟩

/-- THE TRIANGULATION PRESERVES EVERY ARITHMETIC-CLOSED RELATION, and its result is fully populated. -/
theorem fill_consistentR (H : FxRel R) (n : Nat) :
    ∀ (fuel : Nat) (a a' : FxArr τ) (prev : List Nat), ConsistentR R a → SymmEdges a →
      fill n fuel a prev = some a' → ConsistentR R a' ∧ edgeCount n a'.edges = n * n := by
  intro fuel
  induction fuel with
  | zero => intro a a' prev _ _ h; simp [fill] at h
  | succ fuel ih =>
    intro a a' prev hc hs h
    unfold fill at h
    split at h
    · rename_i hfull; cases h; exact ⟨hc, hfull⟩
    · simp only at h
      split at h
      · cases h
      · rename_i node _
        have hc' := fillNode_consistentR H n a node hc hs
        have hs' : SymmEdges (fillNode n a node).1 := by rw [fillNode_eq]; exact foldl_symm node _ a hs
        split at h
        · exact ih _ a' _ hc' hs' h
        · exact ih _ a' _ hc' hs' h

theorem initStep_consistentR (H : FxRel R) (acc : FxArr τ) (p : Nat × Nat × τ)
    (hc : ConsistentR R acc) (hp : R p.1 p.2.1 p.2.2) : ConsistentR R (initStep acc p) := by
  intro i j hij
  simp only [initStep, upd2] at hij ⊢
  by_cases hA : i = p.2.1 ∧ j = p.1
  · rw [if_pos hA]
    simp only [and_self, if_true]
    rw [hA.1, hA.2]
    exact H.recip _ _ _ hp
  · rw [if_neg hA]
    by_cases hB : i = p.1 ∧ j = p.2.1
    · rw [if_pos hB, hB.1, hB.2]; exact hp
    · rw [if_neg hB]
      rw [if_neg hA, if_neg hB] at hij
      exact hc i j hij

theorem init_consistentR (H : FxRel R) (pairs : List (Nat × Nat × τ)) (zero : τ)
    (hp : ∀ p ∈ pairs, R p.1 p.2.1 p.2.2) : ConsistentR R (initArr pairs zero) := by
  rw [initArr_eq]
  generalize hacc : (⟨fun a b => if a = b then FxOps.one else zero, fun a b => decide (a = b)⟩ : FxArr τ) = acc
  have h0 : ConsistentR R acc := by
    subst hacc
    intro i j hij
    simp only [decide_eq_true_eq] at hij
    subst hij
    simp only [if_true]
    exact H.one i
  clear hacc
  induction pairs generalizing acc with
  | nil => exact h0
  | cons p ps ih =>
    exact ih (fun q hq => hp q (List.mem_cons_of_mem _ hq)) _
      (initStep_consistentR H acc p h0 (hp p List.mem_cons_self))

/-- seeded and triangulated: every one of the `n × n` entries satisfies the relation -/
theorem fill_init_rel (H : FxRel R) (n fuel : Nat) (pairs : List (Nat × Nat × τ)) (zero : τ)
    (hp : ∀ p ∈ pairs, R p.1 p.2.1 p.2.2) (a' : FxArr τ)
    (h : fill n fuel (initArr pairs zero) [] = some a') :
    ∀ i j, i < n → j < n → R i j (a'.fx i j) := by
  obtain ⟨hc, hfull⟩ := fill_consistentR H n fuel _ a' [] (init_consistentR H pairs zero hp)
    (init_symm pairs zero) h
  intro i j hi hj
  exact hc i j (edges_full n a'.edges hfull i j hi hj)

end Rel

/-! ### first order: values and log-derivative potentials -/
section First
open Rateslib.Dual

/-- "`d` is the (i, j) rate", seen from the variable named `v`: well formed, value `u i / u j`, and the
sensitivity to `v` is the value times the difference of the log-derivative potential `lam` -/
def RateRel (u : Nat → ℝ) (lam : Nat → ℝ) (v : String) (i j : Nat) (d : Dual ℝ) : Prop :=
  d.WF ∧ d.real = u i / u j ∧ den d v = u i / u j * (lam i - lam j)

theorem rateRel_fxRel (u : Nat → ℝ) (hu : ∀ i, u i ≠ 0) (lam : Nat → ℝ) (v : String) :
    FxRel (τ := Dual ℝ) (RateRel u lam v) := by
  refine ⟨fun i => ?_, fun i j k x y hx hy => ?_, fun i j x hx => ?_⟩
  · refine ⟨Expr.wf_new' 1 [], ?_, ?_⟩
    · show (1 : ℝ) = _; rw [div_self (hu i)]
    · have : den (Dual.new (1 : ℝ) []) v = 0 :=
        lookup_not_mem _ _ _ (by show v ∉ (Dual.new (1 : ℝ) []).vars; simp [Dual.new, dedup])
      show den (Dual.new (1 : ℝ) []) v = _
      rw [this]; ring
  · obtain ⟨wx, rx, dx⟩ := hx
    obtain ⟨wy, ry, dy⟩ := hy
    have S := mul_spec false x y wx wy (by simp)
    refine ⟨S.wf, ?_, ?_⟩
    · show (Dual.mul false x y).real = _
      rw [S.real, rx, ry]; field_simp [hu j, hu k]
    · show den (Dual.mul false x y) v = _
      rw [S.den v, dx, dy, rx, ry]
      field_simp [hu j, hu k]
      ring
  · obtain ⟨wx, rx, dx⟩ := hx
    refine ⟨Expr.wf_scaleL x _ _ wx, ?_, ?_⟩
    · show 1 / x.real = _
      rw [rx]; field_simp [hu i, hu j]
    · show den (Dual.fDiv 1 x) v = _
      unfold Dual.fDiv
      rw [den_scaleL x _ wx _ v, dx, rx]
      field_simp [hu i, hu j]
      ring

end First

/-! ### second order -/
section Second

/-- second order, seen from the pair of variable names `(v, w)`: additionally the stored (half)
second-order sensitivity is `½ · value · (L_v · L_w + M)`, `L` the first and `M` the second
log-derivative potential differences -/
def RateRel2 (u : Nat → ℝ) (lv lw mu : Nat → ℝ) (v w : String) (i j : Nat) (d : Dual2 ℝ) : Prop :=
  d.WF ∧ d.real = u i / u j ∧ Dual2.den d v = u i / u j * (lv i - lv j) ∧
  Dual2.den d w = u i / u j * (lw i - lw j) ∧
  Dual2.den2 d v w = 1 / 2 * (u i / u j) * ((lv i - lv j) * (lw i - lw j) + (mu i - mu j))

theorem rateRel2_fxRel (u : Nat → ℝ) (hu : ∀ i, u i ≠ 0) (lv lw mu : Nat → ℝ) (v w : String) :
    FxRel (τ := Dual2 ℝ) (RateRel2 u lv lw mu v w) := by
  refine ⟨fun i => ?_, fun i j k x y hx hy => ?_, fun i j x hx => ?_⟩
  · obtain ⟨w1, r1, d1, d2⟩ := new_const_spec 1
    refine ⟨w1, ?_, ?_, ?_, ?_⟩
    · show (Dual2.new (1 : ℝ) []).real = _; rw [r1, div_self (hu i)]
    · show Dual2.den (Dual2.new (1 : ℝ) []) v = _; rw [d1 v]; ring
    · show Dual2.den (Dual2.new (1 : ℝ) []) w = _; rw [d1 w]; ring
    · show Dual2.den2 (Dual2.new (1 : ℝ) []) v w = _; rw [d2 v w]; ring
  · obtain ⟨wx, rx, dxv, dxw, hx2⟩ := hx
    obtain ⟨wy, ry, dyv, dyw, hy2⟩ := hy
    have S := Dual2.mul_spec false x y wx wy (by simp)
    refine ⟨S.wf, ?_, ?_, ?_, ?_⟩
    · show (Dual2.mul false x y).real = _
      rw [S.real, rx, ry]; field_simp [hu j, hu k]
    · show Dual2.den (Dual2.mul false x y) v = _
      rw [S.den v, dxv, dyv, rx, ry]
      field_simp [hu j, hu k]
      ring
    · show Dual2.den (Dual2.mul false x y) w = _
      rw [S.den w, dxw, dyw, rx, ry]
      field_simp [hu j, hu k]
      ring
    · show Dual2.den2 (Dual2.mul false x y) v w = _
      rw [S.den2 v w, hx2, hy2, dxv, dyv, dxw, dyw, rx, ry]
      simp only [half]
      field_simp [hu j, hu k]
      ring
  · obtain ⟨wx, rx, dxv, dxw, hx2⟩ := hx
    have hr : x.real ≠ 0 := by rw [rx]; exact div_ne_zero (hu i) (hu j)
    have S := cdf_shape_spec x wx (1 / x.real) (-1 / (x.real * x.real)) (1 / (x.real * x.real * x.real))
    refine ⟨S.wf, ?_, ?_, ?_, ?_⟩
    · show 1 / x.real = _
      rw [rx]; field_simp [hu i, hu j]
    · show Dual2.den (Dual2.fDiv 1 x) v = _
      have := S.den v
      simp only [Dual2.fDiv] at this ⊢
      rw [this, dxv, rx]
      field_simp [hu i, hu j]
      ring
    · show Dual2.den (Dual2.fDiv 1 x) w = _
      have := S.den w
      simp only [Dual2.fDiv] at this ⊢
      rw [this, dxw, rx]
      field_simp [hu i, hu j]
      ring
    · show Dual2.den2 (Dual2.fDiv 1 x) v w = _
      have := S.den2 v w
      simp only [Dual2.fDiv] at this ⊢
      rw [this, hx2, dxv, dxw, rx]
      field_simp [hu i, hu j]
      ring

end Second

/-! ### the FX array built from quotes -/
section Build
open Rateslib.Dual

theorem den_new_single (f : ℝ) (nm v : String) :
    den (Dual.new f [nm]) v = if v = nm then 1 else 0 := by
  by_cases h : v = nm
  · subst h
    simp [den, Dual.new, dedup, onesV, lookupOrZero, List.idxOf?]
  · rw [if_neg h]
    exact lookup_not_mem _ _ _ (by show v ∉ (Dual.new f [nm]).vars; simp [Dual.new, dedup, h])

/-- FIRST-ORDER SENSITIVITIES OF EVERY RATE (general form): if the lifted quotes are described by value
potentials `u` and, for the variable `v`, a log-derivative potential `lam`, so is every entry of the
triangulated first-order array. -/
theorem fxArray_rateRel (currencies : List String) (quotes : List (FXQuote ℝ)) (u : Nat → ℝ)
    (hu : ∀ i, u i ≠ 0) (lam : Nat → ℝ) (v : String)
    (hq : ∀ q ∈ quotes, RateRel u lam v (pairIdx currencies q).1 (pairIdx currencies q).2
      (setOrder q.rate .one [fxVarName q]).toDual)
    (a1 : Nat → Nat → Dual ℝ) (h1 : createFxArray currencies quotes .one = some (.dual a1)) :
    ∀ i j, i < currencies.length → j < currencies.length → RateRel u lam v i j (a1 i j) := by
  unfold createFxArray at h1
  simp only at h1
  cases hf : fill currencies.length (fillFuel currencies.length)
      (initArr (List.map (fun p => (p.1.1, p.1.2, p.2.toDual))
        (List.map (fun q => (pairIdx currencies q, setOrder q.rate ADOrder.one [fxVarName q])) quotes))
        (Dual.new (0 : ℝ) [])) [] with
  | none => rw [hf] at h1; cases h1
  | some A =>
    rw [hf] at h1
    simp only [Option.map_some, Option.some.injEq, FxArray.dual.injEq] at h1
    subst h1
    apply fill_init_rel (rateRel_fxRel u hu lam v) _ _ _ _ _ A hf
    intro p hp
    simp only [List.map_map, List.mem_map, Function.comp] at hp
    obtain ⟨q, hqm, rfl⟩ := hp
    exact hq q hqm


/-- FIRST-ORDER SENSITIVITIES, quotes given as plain numbers: take a quote `q0` (pair a0/b0, rate `f0`,
variable `fx_a0b0`) and a CUT `σ` of the currencies that `q0` crosses (σ a0 − σ b0 = 1) and no other quote
crosses — in a tree of quotes: the two sides of the edge `q0`.  Then the sensitivity of EVERY cross i/j to
`fx_a0b0` is `(σ i − σ j) · cross / f0`: `+cross/f0` or `−cross/f0` when the path from i to j crosses `q0`
(sign by direction of travel), `0` when it does not. -/
theorem fx_sensitivity_cut (currencies : List String) (quotes : List (FXQuote ℝ)) (u : Nat → ℝ)
    (hu : ∀ i, u i ≠ 0)
    (hval : ∀ q ∈ quotes, ∃ f, q.rate = .f64 f ∧
      f = u (pairIdx currencies q).1 / u (pairIdx currencies q).2)
    (q0 : FXQuote ℝ) (f0 : ℝ) (hf0 : q0.rate = .f64 f0) (hf0u : f0 = u (pairIdx currencies q0).1 / u (pairIdx currencies q0).2)
    (σ : Nat → ℝ) (h0 : σ (pairIdx currencies q0).1 - σ (pairIdx currencies q0).2 = 1)
    (hoth : ∀ q ∈ quotes, fxVarName q ≠ fxVarName q0 → σ (pairIdx currencies q).1 = σ (pairIdx currencies q).2)
    (hsame : ∀ q ∈ quotes, fxVarName q = fxVarName q0 →
      pairIdx currencies q = pairIdx currencies q0 ∧ q.rate = q0.rate)
    (a1 : Nat → Nat → Dual ℝ) (h1 : createFxArray currencies quotes .one = some (.dual a1)) :
    ∀ i j, i < currencies.length → j < currencies.length →
      (a1 i j).real = u i / u j ∧
      den (a1 i j) (fxVarName q0) = (σ i - σ j) * (a1 i j).real / f0 := by
  have hf0ne : f0 ≠ 0 := by rw [hf0u]; exact div_ne_zero (hu _) (hu _)
  have key := fxArray_rateRel currencies quotes u hu (fun i => σ i / f0) (fxVarName q0) ?_ a1 h1
  · intro i j hi hj
    obtain ⟨_, r, d⟩ := key i j hi hj
    refine ⟨r, ?_⟩
    rw [d, r]; field_simp
  · intro q hq
    obtain ⟨f, hf, hfu⟩ := hval q hq
    rw [hf]
    show RateRel u _ _ _ _ (Dual.new f [fxVarName q])
    refine ⟨Expr.wf_new' f _, hfu, ?_⟩
    rw [den_new_single]
    by_cases hn : fxVarName q = fxVarName q0
    · obtain ⟨hp, hr⟩ := hsame q hq hn
      rw [if_pos hn.symm, ← hfu]
      simp only [hp]
      have : f = f0 := by
        rw [hf, hf0] at hr
        injection hr
      rw [this]
      field_simp
      linarith
    · rw [if_neg (fun h => hn h.symm)]
      simp only [hoth q hq hn]; ring

theorem den_new2_single (f : ℝ) (nm v : String) :
    Dual2.den (Dual2.new f [nm]) v = if v = nm then 1 else 0 := by
  by_cases h : v = nm
  · subst h
    simp [Dual2.den, Dual2.new, dedup, onesV, lookupOrZero, List.idxOf?]
  · rw [if_neg h]
    exact lookup_not_mem _ _ _ (by show v ∉ (Dual2.new f [nm]).vars; simp [Dual2.new, dedup, h])

theorem den2_new2_single (f : ℝ) (nm v w : String) : Dual2.den2 (Dual2.new f [nm]) v w = 0 := by
  by_cases h : v = nm
  · by_cases h2 : w = nm
    · subst h; subst h2
      simp [Dual2.den2, Dual2.new, dedup, zerosM, zerosV, lookup2OrZero, List.idxOf?]
    · exact lookup2_not_mem_right _ _ _ _ (by show w ∉ (Dual2.new f [nm]).vars; simp [Dual2.new, dedup, h2])
  · exact lookup2_not_mem_left _ _ _ _ (by show v ∉ (Dual2.new f [nm]).vars; simp [Dual2.new, dedup, h])

theorem wf_new2 (f : ℝ) (nm : String) : (Dual2.new f [nm]).WF := by
  refine ⟨by simp [Dual2.new, dedup], by simp [Dual2.new, dedup, onesV], by simp [Dual2.new, dedup, zerosM], ?_⟩
  intro r hr
  simp [Dual2.new, dedup, zerosM, zerosV] at hr
  simp [hr, Dual2.new, dedup]

/-- SECOND-ORDER SENSITIVITIES OF EVERY RATE (general form) -/
theorem fxArray_rateRel2 (currencies : List String) (quotes : List (FXQuote ℝ)) (u : Nat → ℝ)
    (hu : ∀ i, u i ≠ 0) (lv lw mu : Nat → ℝ) (v w : String)
    (hq : ∀ q ∈ quotes, RateRel2 u lv lw mu v w (pairIdx currencies q).1 (pairIdx currencies q).2
      (setOrder q.rate .two [fxVarName q]).toDual2)
    (a2 : Nat → Nat → Dual2 ℝ) (h2 : createFxArray currencies quotes .two = some (.dual2 a2)) :
    ∀ i j, i < currencies.length → j < currencies.length → RateRel2 u lv lw mu v w i j (a2 i j) := by
  unfold createFxArray at h2
  simp only at h2
  cases hf : fill currencies.length (fillFuel currencies.length)
      (initArr (List.map (fun p => (p.1.1, p.1.2, p.2.toDual2))
        (List.map (fun q => (pairIdx currencies q, setOrder q.rate ADOrder.two [fxVarName q])) quotes))
        (Dual2.new (0 : ℝ) [])) [] with
  | none => rw [hf] at h2; cases h2
  | some A =>
    rw [hf] at h2
    simp only [Option.map_some, Option.some.injEq, FxArray.dual2.injEq] at h2
    subst h2
    apply fill_init_rel (rateRel2_fxRel u hu lv lw mu v w) _ _ _ _ _ A hf
    intro p hp
    simp only [List.map_map, List.mem_map, Function.comp] at hp
    obtain ⟨q, hqm, rfl⟩ := hp
    exact hq q hqm


/-- SECOND-ORDER SENSITIVITIES, plain-number quotes, both variables the SAME quote `q0` (cut `σ`): the
stored (half) second derivative of the cross i/j with respect to `fx_a0b0` twice is
`½ · cross · (s² − s) / f0²`, `s = σ i − σ j`: `0` when the cross is proportional to the quote (`s = 1`) or
independent of it (`s = 0`), `cross / f0²` when it is proportional to its reciprocal (`s = −1`). -/
theorem fx_sensitivity2_same (currencies : List String) (quotes : List (FXQuote ℝ)) (u : Nat → ℝ)
    (hu : ∀ i, u i ≠ 0)
    (hval : ∀ q ∈ quotes, ∃ f, q.rate = .f64 f ∧
      f = u (pairIdx currencies q).1 / u (pairIdx currencies q).2)
    (q0 : FXQuote ℝ) (f0 : ℝ) (hf0 : q0.rate = .f64 f0) (hf0u : f0 = u (pairIdx currencies q0).1 / u (pairIdx currencies q0).2)
    (σ : Nat → ℝ) (h0 : σ (pairIdx currencies q0).1 - σ (pairIdx currencies q0).2 = 1)
    (hoth : ∀ q ∈ quotes, fxVarName q ≠ fxVarName q0 → σ (pairIdx currencies q).1 = σ (pairIdx currencies q).2)
    (hsame : ∀ q ∈ quotes, fxVarName q = fxVarName q0 →
      pairIdx currencies q = pairIdx currencies q0 ∧ q.rate = q0.rate)
    (a2 : Nat → Nat → Dual2 ℝ) (h2 : createFxArray currencies quotes .two = some (.dual2 a2)) :
    ∀ i j, i < currencies.length → j < currencies.length →
      Dual2.den2 (a2 i j) (fxVarName q0) (fxVarName q0)
        = 1 / 2 * (a2 i j).real * ((σ i - σ j) ^ 2 - (σ i - σ j)) / f0 ^ 2 := by
  have hf0ne : f0 ≠ 0 := by rw [hf0u]; exact div_ne_zero (hu _) (hu _)
  have key := fxArray_rateRel2 currencies quotes u hu (fun i => σ i / f0) (fun i => σ i / f0)
    (fun i => -(σ i / f0 ^ 2)) (fxVarName q0) (fxVarName q0) ?_ a2 h2
  · intro i j hi hj
    obtain ⟨_, r, _, _, d⟩ := key i j hi hj
    rw [d, r]; field_simp; ring
  · intro q hq
    obtain ⟨f, hf, hfu⟩ := hval q hq
    rw [hf]
    show RateRel2 u _ _ _ _ _ _ _ (Dual2.new f [fxVarName q])
    have hden : Dual2.den (Dual2.new f [fxVarName q]) (fxVarName q0)
        = u (pairIdx currencies q).1 / u (pairIdx currencies q).2 *
          (σ (pairIdx currencies q).1 / f0 - σ (pairIdx currencies q).2 / f0) := by
      rw [den_new2_single]
      by_cases hn : fxVarName q = fxVarName q0
      · obtain ⟨hp, hr⟩ := hsame q hq hn
        rw [if_pos hn.symm, ← hfu]
        simp only [hp]
        have : f = f0 := by
          rw [hf, hf0] at hr
          injection hr
        rw [this]
        field_simp
        linarith
      · rw [if_neg (fun h => hn h.symm)]
        simp only [hoth q hq hn]; ring
    refine ⟨wf_new2 f _, hfu, hden, hden, ?_⟩
    rw [den2_new2_single]
    by_cases hn : fxVarName q = fxVarName q0
    · obtain ⟨hp, hr⟩ := hsame q hq hn
      simp only [hp]
      have e : σ (pairIdx currencies q0).1 = σ (pairIdx currencies q0).2 + 1 := by linarith
      rw [e]
      field_simp
      ring
    · simp only [hoth q hq hn]; ring

/-- SECOND-ORDER SENSITIVITIES, plain-number quotes, two DIFFERENT quotes `q0`, `q1` (cuts `σ0`, `σ1`): the
stored (half) mixed second derivative of the cross i/j is `½ · cross · s0 · s1 / (f0 · f1)`. -/
theorem fx_sensitivity2_cross (currencies : List String) (quotes : List (FXQuote ℝ)) (u : Nat → ℝ)
    (hu : ∀ i, u i ≠ 0)
    (hval : ∀ q ∈ quotes, ∃ f, q.rate = .f64 f ∧
      f = u (pairIdx currencies q).1 / u (pairIdx currencies q).2)
    (q0 q1 : FXQuote ℝ) (f0 f1 : ℝ) (hf0 : q0.rate = .f64 f0) (hf1 : q1.rate = .f64 f1)
    (hf0u : f0 = u (pairIdx currencies q0).1 / u (pairIdx currencies q0).2)
    (hf1u : f1 = u (pairIdx currencies q1).1 / u (pairIdx currencies q1).2)
    (hne : fxVarName q0 ≠ fxVarName q1)
    (σ0 σ1 : Nat → ℝ)
    (h0 : σ0 (pairIdx currencies q0).1 - σ0 (pairIdx currencies q0).2 = 1)
    (h1 : σ1 (pairIdx currencies q1).1 - σ1 (pairIdx currencies q1).2 = 1)
    (hoth0 : ∀ q ∈ quotes, fxVarName q ≠ fxVarName q0 → σ0 (pairIdx currencies q).1 = σ0 (pairIdx currencies q).2)
    (hoth1 : ∀ q ∈ quotes, fxVarName q ≠ fxVarName q1 → σ1 (pairIdx currencies q).1 = σ1 (pairIdx currencies q).2)
    (hsame0 : ∀ q ∈ quotes, fxVarName q = fxVarName q0 →
      pairIdx currencies q = pairIdx currencies q0 ∧ q.rate = q0.rate)
    (hsame1 : ∀ q ∈ quotes, fxVarName q = fxVarName q1 →
      pairIdx currencies q = pairIdx currencies q1 ∧ q.rate = q1.rate)
    (a2 : Nat → Nat → Dual2 ℝ) (h2 : createFxArray currencies quotes .two = some (.dual2 a2)) :
    ∀ i j, i < currencies.length → j < currencies.length →
      Dual2.den2 (a2 i j) (fxVarName q0) (fxVarName q1)
        = 1 / 2 * (a2 i j).real * ((σ0 i - σ0 j) * (σ1 i - σ1 j)) / (f0 * f1) := by
  have hf0ne : f0 ≠ 0 := by rw [hf0u]; exact div_ne_zero (hu _) (hu _)
  have hf1ne : f1 ≠ 0 := by rw [hf1u]; exact div_ne_zero (hu _) (hu _)
  have key := fxArray_rateRel2 currencies quotes u hu (fun i => σ0 i / f0) (fun i => σ1 i / f1)
    (fun _ => 0) (fxVarName q0) (fxVarName q1) ?_ a2 h2
  · intro i j hi hj
    obtain ⟨_, r, _, _, d⟩ := key i j hi hj
    rw [d, r]; field_simp; ring
  · intro q hq
    obtain ⟨f, hf, hfu⟩ := hval q hq
    rw [hf]
    show RateRel2 u _ _ _ _ _ _ _ (Dual2.new f [fxVarName q])
    have hden : ∀ (q' : FXQuote ℝ) (f' : ℝ) (σ : Nat → ℝ), q'.rate = .f64 f' → f' ≠ 0 →
        σ (pairIdx currencies q').1 - σ (pairIdx currencies q').2 = 1 →
        (fxVarName q ≠ fxVarName q' → σ (pairIdx currencies q).1 = σ (pairIdx currencies q).2) →
        (fxVarName q = fxVarName q' → pairIdx currencies q = pairIdx currencies q' ∧ q.rate = q'.rate) →
        Dual2.den (Dual2.new f [fxVarName q]) (fxVarName q')
          = u (pairIdx currencies q).1 / u (pairIdx currencies q).2 *
            (σ (pairIdx currencies q).1 / f' - σ (pairIdx currencies q).2 / f') := by
      intro q' f' σ hf' hne' hc ho hsm
      rw [den_new2_single]
      by_cases hn : fxVarName q = fxVarName q'
      · obtain ⟨hp, hr⟩ := hsm hn
        rw [if_pos hn.symm, ← hfu]
        simp only [hp]
        have : f = f' := by
          rw [hf, hf'] at hr
          injection hr
        rw [this]
        field_simp
        linarith
      · rw [if_neg (fun h => hn h.symm)]
        simp only [ho hn]; ring
    refine ⟨wf_new2 f _, hfu, hden q0 f0 σ0 hf0 hf0ne h0 (hoth0 q hq) (hsame0 q hq),
      hden q1 f1 σ1 hf1 hf1ne h1 (hoth1 q hq) (hsame1 q hq), ?_⟩
    rw [den2_new2_single]
    by_cases hn0 : fxVarName q = fxVarName q0
    · have hn1 : fxVarName q ≠ fxVarName q1 := fun h => hne (hn0.symm.trans h)
      simp only [hoth1 q hq hn1]; ring
    · simp only [hoth0 q hq hn0]; ring

end Build
end Rateslib
