import RateslibModel.Model.Cal
namespace Rateslib
namespace DR

variable (c : DR)

/-- A date is eligible if it is a business day and, when settlement is enforced, a settlement day. -/
def Elig (s : Bool) (d : Int) : Prop := c.isBus d = true ∧ (s = true → c.isSettlement d = true)

instance (s : Bool) (d : Int) : Decidable (c.Elig s d) := by unfold Elig; infer_instance

theorem rollFwd_some : ∀ (fuel : Nat) (d r : Int), c.rollFwd fuel d = some r →
    d ≤ r ∧ r < d + fuel ∧ c.isBus r = true ∧ ∀ x, d ≤ x → x < r → c.isBus x = false := by
  intro fuel
  induction fuel with
  | zero => intro d r h; simp [rollFwd] at h
  | succ f ih =>
    intro d r h
    unfold rollFwd at h
    by_cases hb : c.isBus d = true
    · rw [if_pos hb] at h
      cases h
      exact ⟨by omega, by omega, hb, fun x h1 h2 => by omega⟩
    · rw [if_neg hb] at h
      obtain ⟨h1, h2, h3, h4⟩ := ih (d + 1) r h
      refine ⟨by omega, by omega, h3, fun x hx1 hx2 => ?_⟩
      by_cases hxd : x = d
      · subst hxd; simpa using hb
      · exact h4 x (by omega) hx2

theorem rollFwd_exists : ∀ (fuel : Nat) (d e : Int), d ≤ e → e < d + fuel → c.isBus e = true →
    ∃ r, c.rollFwd fuel d = some r := by
  intro fuel
  induction fuel with
  | zero => intro d e h1 h2 _; omega
  | succ f ih =>
    intro d e h1 h2 h3
    unfold rollFwd
    by_cases hb : c.isBus d = true
    · exact ⟨d, by rw [if_pos hb]⟩
    · rw [if_neg hb]
      have : e ≠ d := fun h => hb (h ▸ h3)
      exact ih (d + 1) e (by omega) (by omega) h3

theorem rollBwd_some : ∀ (fuel : Nat) (d r : Int), c.rollBwd fuel d = some r →
    r ≤ d ∧ d - fuel < r ∧ c.isBus r = true ∧ ∀ x, r < x → x ≤ d → c.isBus x = false := by
  intro fuel
  induction fuel with
  | zero => intro d r h; simp [rollBwd] at h
  | succ f ih =>
    intro d r h
    unfold rollBwd at h
    by_cases hb : c.isBus d = true
    · rw [if_pos hb] at h
      cases h
      exact ⟨by omega, by omega, hb, fun x h1 h2 => by omega⟩
    · rw [if_neg hb] at h
      obtain ⟨h1, h2, h3, h4⟩ := ih (d - 1) r h
      refine ⟨by omega, by omega, h3, fun x hx1 hx2 => ?_⟩
      by_cases hxd : x = d
      · subst hxd; simpa using hb
      · exact h4 x hx1 (by omega)

theorem rollBwd_exists : ∀ (fuel : Nat) (d e : Int), e ≤ d → d - fuel < e → c.isBus e = true →
    ∃ r, c.rollBwd fuel d = some r := by
  intro fuel
  induction fuel with
  | zero => intro d e h1 h2 _; omega
  | succ f ih =>
    intro d e h1 h2 h3
    unfold rollBwd
    by_cases hb : c.isBus d = true
    · exact ⟨d, by rw [if_pos hb]⟩
    · rw [if_neg hb]
      have : e ≠ d := fun h => hb (h ▸ h3)
      exact ih (d - 1) e (by omega) (by omega) h3

theorem rollFwd_fix (fuel : Nat) (d : Int) (h : c.isBus d = true) : c.rollFwd (fuel + 1) d = some d := by
  unfold rollFwd; rw [if_pos h]

theorem rollBwd_fix (fuel : Nat) (d : Int) (h : c.isBus d = true) : c.rollBwd (fuel + 1) d = some d := by
  unfold rollBwd; rw [if_pos h]

/-- the settlement loop, entered at a business day `nd`, returns the first business day at or
after `nd` that can settle -/
theorem settleFwdLoop_some (fuel : Nat) : ∀ (f : Nat) (nd r : Int), c.isBus nd = true →
    c.settleFwdLoop fuel f nd = some r →
    nd ≤ r ∧ c.Elig true r ∧ ∀ x, nd ≤ x → x < r → ¬ c.Elig true x := by
  intro f
  induction f with
  | zero => intro nd r _ h; simp [settleFwdLoop] at h
  | succ f ih =>
    intro nd r hb h
    unfold settleFwdLoop at h
    by_cases hs : c.isSettlement nd = true
    · rw [if_pos hs] at h
      cases h
      exact ⟨by omega, ⟨hb, fun _ => hs⟩, fun x h1 h2 => by omega⟩
    · rw [if_neg hs] at h
      cases hr : c.rollFwd fuel (nd + 1) with
      | none => rw [hr] at h; cases h
      | some nd' =>
        rw [hr] at h
        obtain ⟨a1, _, a3, a4⟩ := c.rollFwd_some fuel (nd + 1) nd' hr
        obtain ⟨b1, b2, b3⟩ := ih nd' r a3 h
        refine ⟨by omega, b2, fun x hx1 hx2 hE => ?_⟩
        by_cases hxn : x = nd
        · subst hxn; exact hs (hE.2 rfl)
        · by_cases hx3 : x < nd'
          · have := a4 x (by omega) hx3
            rw [hE.1] at this; cases this
          · exact b3 x (by omega) hx2 hE

theorem settleBwdLoop_some (fuel : Nat) : ∀ (f : Nat) (nd r : Int), c.isBus nd = true →
    c.settleBwdLoop fuel f nd = some r →
    r ≤ nd ∧ c.Elig true r ∧ ∀ x, r < x → x ≤ nd → ¬ c.Elig true x := by
  intro f
  induction f with
  | zero => intro nd r _ h; simp [settleBwdLoop] at h
  | succ f ih =>
    intro nd r hb h
    unfold settleBwdLoop at h
    by_cases hs : c.isSettlement nd = true
    · rw [if_pos hs] at h
      cases h
      exact ⟨by omega, ⟨hb, fun _ => hs⟩, fun x h1 h2 => by omega⟩
    · rw [if_neg hs] at h
      cases hr : c.rollBwd fuel (nd - 1) with
      | none => rw [hr] at h; cases h
      | some nd' =>
        rw [hr] at h
        obtain ⟨a1, _, a3, a4⟩ := c.rollBwd_some fuel (nd - 1) nd' hr
        obtain ⟨b1, b2, b3⟩ := ih nd' r a3 h
        refine ⟨by omega, b2, fun x hx1 hx2 hE => ?_⟩
        by_cases hxn : x = nd
        · subst hxn; exact hs (hE.2 rfl)
        · by_cases hx3 : nd' < x
          · have := a4 x hx3 (by omega)
            rw [hE.1] at this; cases this
          · exact b3 x hx1 (by omega) hE

theorem rollFwdSettled_some (fuel : Nat) (d r : Int) (h : c.rollFwdSettled fuel d = some r) :
    d ≤ r ∧ c.Elig true r ∧ ∀ x, d ≤ x → x < r → ¬ c.Elig true x := by
  unfold rollFwdSettled at h
  cases hr : c.rollFwd fuel d with
  | none => rw [hr] at h; cases h
  | some nd =>
    rw [hr] at h
    obtain ⟨a1, _, a3, a4⟩ := c.rollFwd_some fuel d nd hr
    obtain ⟨b1, b2, b3⟩ := c.settleFwdLoop_some fuel fuel nd r a3 h
    refine ⟨by omega, b2, fun x hx1 hx2 hE => ?_⟩
    by_cases hx3 : x < nd
    · have := a4 x hx1 hx3
      rw [hE.1] at this; cases this
    · exact b3 x (by omega) hx2 hE

theorem rollBwdSettled_some (fuel : Nat) (d r : Int) (h : c.rollBwdSettled fuel d = some r) :
    r ≤ d ∧ c.Elig true r ∧ ∀ x, r < x → x ≤ d → ¬ c.Elig true x := by
  unfold rollBwdSettled at h
  cases hr : c.rollBwd fuel d with
  | none => rw [hr] at h; cases h
  | some nd =>
    rw [hr] at h
    obtain ⟨a1, _, a3, a4⟩ := c.rollBwd_some fuel d nd hr
    obtain ⟨b1, b2, b3⟩ := c.settleBwdLoop_some fuel fuel nd r a3 h
    refine ⟨by omega, b2, fun x hx1 hx2 hE => ?_⟩
    by_cases hx3 : nd < x
    · have := a4 x hx3 hx2
      rw [hE.1] at this; cases this
    · exact b3 x hx1 (by omega) hE

/-- fuel sufficiency of the settlement loop: if an eligible day `e` lies within reach, the loop
terminates with a value -/
theorem settleFwdLoop_exists (fuel : Nat) (e : Int) (he : c.Elig true e) :
    ∀ (f : Nat) (nd : Int), nd ≤ e → e < nd + f → e < nd + fuel → ∃ r, c.settleFwdLoop fuel f nd = some r := by
  intro f
  induction f with
  | zero => intro nd h1 h2 _; omega
  | succ f ih =>
    intro nd h1 h2 h3
    unfold settleFwdLoop
    by_cases hs : c.isSettlement nd = true
    · exact ⟨nd, by rw [if_pos hs]⟩
    · rw [if_neg hs]
      have hne : e ≠ nd := fun h => hs (h ▸ he.2 rfl)
      obtain ⟨nd', hr⟩ := c.rollFwd_exists fuel (nd + 1) e (by omega) (by omega) he.1
      rw [hr]
      obtain ⟨a1, a2, a3, a4⟩ := c.rollFwd_some fuel (nd + 1) nd' hr
      have hle : nd' ≤ e := by
        by_cases hlt : e < nd'
        · have := a4 e (by omega) hlt
          rw [he.1] at this; cases this
        · omega
      exact ih nd' hle (by omega) (by omega)

theorem settleBwdLoop_exists (fuel : Nat) (e : Int) (he : c.Elig true e) :
    ∀ (f : Nat) (nd : Int), e ≤ nd → nd - f < e → nd - fuel < e → ∃ r, c.settleBwdLoop fuel f nd = some r := by
  intro f
  induction f with
  | zero => intro nd h1 h2 _; omega
  | succ f ih =>
    intro nd h1 h2 h3
    unfold settleBwdLoop
    by_cases hs : c.isSettlement nd = true
    · exact ⟨nd, by rw [if_pos hs]⟩
    · rw [if_neg hs]
      have hne : e ≠ nd := fun h => hs (h ▸ he.2 rfl)
      obtain ⟨nd', hr⟩ := c.rollBwd_exists fuel (nd - 1) e (by omega) (by omega) he.1
      rw [hr]
      obtain ⟨a1, a2, a3, a4⟩ := c.rollBwd_some fuel (nd - 1) nd' hr
      have hle : e ≤ nd' := by
        by_cases hlt : nd' < e
        · have := a4 e hlt (by omega)
          rw [he.1] at this; cases this
        · omega
      exact ih nd' hle (by omega) (by omega)

theorem rollFwdSettled_exists (fuel : Nat) (d e : Int) (h1 : d ≤ e) (h2 : e < d + fuel)
    (he : c.Elig true e) : ∃ r, c.rollFwdSettled fuel d = some r := by
  unfold rollFwdSettled
  obtain ⟨nd, hr⟩ := c.rollFwd_exists fuel d e h1 h2 he.1
  rw [hr]
  obtain ⟨a1, a2, a3, a4⟩ := c.rollFwd_some fuel d nd hr
  have hle : nd ≤ e := by
    by_cases hlt : e < nd
    · have := a4 e h1 hlt
      rw [he.1] at this; cases this
    · omega
  exact c.settleFwdLoop_exists fuel e he fuel nd hle (by omega) (by omega)

theorem rollBwdSettled_exists (fuel : Nat) (d e : Int) (h1 : e ≤ d) (h2 : d - fuel < e)
    (he : c.Elig true e) : ∃ r, c.rollBwdSettled fuel d = some r := by
  unfold rollBwdSettled
  obtain ⟨nd, hr⟩ := c.rollBwd_exists fuel d e h1 h2 he.1
  rw [hr]
  obtain ⟨a1, a2, a3, a4⟩ := c.rollBwd_some fuel d nd hr
  have hle : e ≤ nd := by
    by_cases hlt : nd < e
    · have := a4 e hlt h1
      rw [he.1] at this; cases this
    · omega
  exact c.settleBwdLoop_exists fuel e he fuel nd hle (by omega) (by omega)

theorem rollFwdSettled_fix (fuel : Nat) (d : Int) (h : c.Elig true d) :
    c.rollFwdSettled (fuel + 1) d = some d := by
  unfold rollFwdSettled
  rw [c.rollFwd_fix fuel d h.1]
  simp only
  unfold settleFwdLoop
  rw [if_pos (h.2 rfl)]

theorem rollBwdSettled_fix (fuel : Nat) (d : Int) (h : c.Elig true d) :
    c.rollBwdSettled (fuel + 1) d = some d := by
  unfold rollBwdSettled
  rw [c.rollBwd_fix fuel d h.1]
  simp only
  unfold settleBwdLoop
  rw [if_pos (h.2 rfl)]

end DR
end Rateslib
