import RateslibModel.Proofs.Roll
namespace Rateslib
namespace DR

variable (c : DR)

/-- number of business days among `a+1 … a+k` -/
def countN (a : Int) : Nat → Nat
  | 0 => 0
  | k + 1 => countN a k + (if c.isBus (a + ((k + 1 : Nat) : Int)) then 1 else 0)

/-- number of business days in the half-open interval `(a, b]` -/
def count (a b : Int) : Nat := c.countN a (b - a).toNat

theorem countN_add (a : Int) (j : Nat) : ∀ k : Nat,
    c.countN a (j + k) = c.countN a j + c.countN (a + (j : Int)) k := by
  intro k
  induction k with
  | zero => simp [countN]
  | succ k ih =>
    rw [← Nat.add_assoc, countN, ih, countN]
    have : a + ((j + k + 1 : Nat) : Int) = a + (j : Int) + ((k + 1 : Nat) : Int) := by omega
    rw [this]; omega

theorem count_add (a b d : Int) (h1 : a ≤ b) (h2 : b ≤ d) :
    c.count a d = c.count a b + c.count b d := by
  unfold count
  have h : (d - a).toNat = (b - a).toNat + (d - b).toNat := by omega
  rw [h, countN_add]
  have : a + ((b - a).toNat : Int) = b := by omega
  rw [this]

theorem countN_zero (a : Int) : ∀ k : Nat, (∀ x, a < x → x ≤ a + (k : Int) → c.isBus x = false) →
    c.countN a k = 0 := by
  intro k
  induction k with
  | zero => intro _; rfl
  | succ k ih =>
    intro h
    rw [countN, ih (fun x h1 h2 => h x h1 (by omega)), h _ (by omega) (by omega)]
    simp

/-- between a day and the next business day strictly after it lies exactly one business day
(counting the result, not the start) -/
theorem count_next (fuel : Nat) (d d' : Int) (h : c.rollFwd fuel (d + 1) = some d') :
    d < d' ∧ c.isBus d' = true ∧ c.count d d' = 1 := by
  obtain ⟨a1, _, a3, a4⟩ := c.rollFwd_some fuel (d + 1) d' h
  refine ⟨by omega, a3, ?_⟩
  rw [c.count_add d (d' - 1) d' (by omega) (by omega)]
  have hz : c.count d (d' - 1) = 0 := by
    unfold count
    exact c.countN_zero d _ (fun x h1 h2 => a4 x (by omega) (by omega))
  have h1 : c.count (d' - 1) d' = 1 := by
    unfold count
    have : (d' - (d' - 1)).toNat = 1 := by omega
    rw [this]; simp [countN, a3]
  omega

theorem count_prev (fuel : Nat) (d d' : Int) (h : c.rollBwd fuel (d - 1) = some d') :
    d' < d ∧ c.isBus d' = true ∧ c.count (d' - 1) (d - 1) = 1 := by
  obtain ⟨a1, _, a3, a4⟩ := c.rollBwd_some fuel (d - 1) d' h
  refine ⟨by omega, a3, ?_⟩
  rw [c.count_add (d' - 1) d' (d - 1) (by omega) (by omega)]
  have hz : c.count d' (d - 1) = 0 := by
    unfold count
    exact c.countN_zero d' _ (fun x h1 h2 => a4 x h1 (by omega))
  have h1 : c.count (d' - 1) d' = 1 := by
    unfold count
    have : (d' - (d' - 1)).toNat = 1 := by omega
    rw [this]; simp [countN, a3]
  omega

theorem stepFwd_count (fuel : Nat) : ∀ (k : Nat) (d r : Int), c.stepFwd fuel k d = some r →
    d ≤ r ∧ c.count d r = k ∧ (c.isBus d = true → c.isBus r = true) := by
  intro k
  induction k with
  | zero =>
    intro d r h
    simp only [stepFwd] at h; cases h
    exact ⟨by omega, by simp [count, countN], id⟩
  | succ k ih =>
    intro d r h
    unfold stepFwd at h
    cases hr : c.rollFwd fuel (d + 1) with
    | none => rw [hr] at h; cases h
    | some d' =>
      rw [hr] at h
      obtain ⟨a1, a2, a3⟩ := c.count_next fuel d d' hr
      obtain ⟨b1, b2, b3⟩ := ih d' r h
      refine ⟨by omega, ?_, fun _ => b3 a2⟩
      rw [c.count_add d d' r (by omega) b1]; omega

theorem stepBwd_count (fuel : Nat) : ∀ (k : Nat) (d r : Int), c.stepBwd fuel k d = some r →
    r ≤ d ∧ c.count (r - 1) (d - 1) = k ∧ (c.isBus d = true → c.isBus r = true) := by
  intro k
  induction k with
  | zero =>
    intro d r h
    simp only [stepBwd] at h; cases h
    exact ⟨by omega, by simp [count, countN], id⟩
  | succ k ih =>
    intro d r h
    unfold stepBwd at h
    cases hr : c.rollBwd fuel (d - 1) with
    | none => rw [hr] at h; cases h
    | some d' =>
      rw [hr] at h
      obtain ⟨a1, a2, a3⟩ := c.count_prev fuel d d' hr
      obtain ⟨b1, b2, b3⟩ := ih d' r h
      refine ⟨by omega, ?_, fun _ => b3 a2⟩
      rw [c.count_add (r - 1) (d' - 1) (d - 1) (by omega) (by omega)]; omega

/-! ### next / previous business day are mutually inverse on business days -/

theorem rollBwd_unique (fuel : Nat) (x e : Int) (he : c.isBus e = true) (h1 : e ≤ x)
    (h2 : x - fuel < e) (h3 : ∀ y, e < y → y ≤ x → c.isBus y = false) :
    c.rollBwd fuel x = some e := by
  obtain ⟨r, hr⟩ := c.rollBwd_exists fuel x e h1 h2 he
  obtain ⟨a1, _, a3, a4⟩ := c.rollBwd_some fuel x r hr
  have : r = e := by
    by_cases hlt : r < e
    · have := a4 e hlt h1; rw [he] at this; cases this
    · by_cases hgt : e < r
      · have := h3 r hgt a1; rw [a3] at this; cases this
      · omega
  rw [hr, this]

theorem rollFwd_unique (fuel : Nat) (x e : Int) (he : c.isBus e = true) (h1 : x ≤ e)
    (h2 : e < x + fuel) (h3 : ∀ y, x ≤ y → y < e → c.isBus y = false) :
    c.rollFwd fuel x = some e := by
  obtain ⟨r, hr⟩ := c.rollFwd_exists fuel x e h1 h2 he
  obtain ⟨a1, _, a3, a4⟩ := c.rollFwd_some fuel x r hr
  have : r = e := by
    by_cases hlt : e < r
    · have := a4 e h1 hlt; rw [he] at this; cases this
    · by_cases hgt : r < e
      · have := h3 r a1 hgt; rw [a3] at this; cases this
      · omega
  rw [hr, this]

theorem prev_of_next (fuel : Nat) (d d' : Int) (hd : c.isBus d = true)
    (h : c.rollFwd fuel (d + 1) = some d') : c.rollBwd fuel (d' - 1) = some d := by
  obtain ⟨a1, a2, _, a4⟩ := c.rollFwd_some fuel (d + 1) d' h
  exact c.rollBwd_unique fuel (d' - 1) d hd (by omega) (by omega) (fun y h1 h2 => a4 y (by omega) (by omega))

theorem next_of_prev (fuel : Nat) (d d' : Int) (hd : c.isBus d = true)
    (h : c.rollBwd fuel (d - 1) = some d') : c.rollFwd fuel (d' + 1) = some d := by
  obtain ⟨a1, a2, _, a4⟩ := c.rollBwd_some fuel (d - 1) d' h
  exact c.rollFwd_unique fuel (d' + 1) d hd (by omega) (by omega) (fun y h1 h2 => a4 y (by omega) (by omega))

theorem stepBwd_snoc (fuel : Nat) : ∀ (k : Nat) (r : Int),
    c.stepBwd fuel (k + 1) r =
      match c.stepBwd fuel k r with
      | none => none
      | some x => c.rollBwd fuel (x - 1) := by
  intro k
  induction k with
  | zero =>
    intro r
    simp only [stepBwd]
    cases c.rollBwd fuel (r - 1) <;> rfl
  | succ k ih =>
    intro r
    rw [stepBwd]
    cases hr : c.rollBwd fuel (r - 1) with
    | none => simp [stepBwd, hr]
    | some r' =>
      simp only
      rw [ih r']
      conv => rhs; rw [stepBwd, hr]

theorem stepFwd_snoc (fuel : Nat) : ∀ (k : Nat) (r : Int),
    c.stepFwd fuel (k + 1) r =
      match c.stepFwd fuel k r with
      | none => none
      | some x => c.rollFwd fuel (x + 1) := by
  intro k
  induction k with
  | zero =>
    intro r
    simp only [stepFwd]
    cases c.rollFwd fuel (r + 1) <;> rfl
  | succ k ih =>
    intro r
    rw [stepFwd]
    cases hr : c.rollFwd fuel (r + 1) with
    | none => simp [stepFwd, hr]
    | some r' =>
      simp only
      rw [ih r']
      conv => rhs; rw [stepFwd, hr]

theorem stepBwd_of_stepFwd (fuel : Nat) : ∀ (k : Nat) (d r : Int), c.isBus d = true →
    c.stepFwd fuel k d = some r → c.stepBwd fuel k r = some d := by
  intro k
  induction k with
  | zero => intro d r _ h; simp only [stepFwd] at h; cases h; rfl
  | succ k ih =>
    intro d r hd h
    unfold stepFwd at h
    cases hr : c.rollFwd fuel (d + 1) with
    | none => rw [hr] at h; cases h
    | some d' =>
      rw [hr] at h
      have hd' := (c.count_next fuel d d' hr).2.1
      rw [stepBwd_snoc, ih d' r hd' h]
      exact c.prev_of_next fuel d d' hd hr

theorem stepFwd_of_stepBwd (fuel : Nat) : ∀ (k : Nat) (d r : Int), c.isBus d = true →
    c.stepBwd fuel k d = some r → c.stepFwd fuel k r = some d := by
  intro k
  induction k with
  | zero => intro d r _ h; simp only [stepBwd] at h; cases h; rfl
  | succ k ih =>
    intro d r hd h
    unfold stepBwd at h
    cases hr : c.rollBwd fuel (d - 1) with
    | none => rw [hr] at h; cases h
    | some d' =>
      rw [hr] at h
      have hd' := (c.count_prev fuel d d' hr).2.1
      rw [stepFwd_snoc, ih d' r hd' h]
      exact c.next_of_prev fuel d d' hd hr

end DR
end Rateslib
