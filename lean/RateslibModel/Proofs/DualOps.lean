import RateslibModel.Proofs.DualLayout
namespace Rateslib

/-- the scalar equality test decides equality (true of `f64 ==` on non-NaN values up to ±0, of `ℝ`,
of every type with decidable equality) -/
class LawfulEqb (α : Type) [Transc α] : Prop where
  eqb_iff : ∀ x y : α, Transc.eqb x y = true ↔ x = y

theorem dedup_of_nodup : ∀ (l : List String), l.Nodup → dedup l = l := by
  intro l
  induction l with
  | nil => intro _; rfl
  | cons x xs ih =>
    intro h
    rw [List.nodup_cons] at h
    unfold dedup
    rw [ih h.2]
    congr 1
    rw [List.filter_eq_self]
    intro y hy
    simp only [bne_iff_ne, ne_eq]
    rintro rfl
    exact h.1 hy

theorem mem_dedup (l : List String) (n : String) : n ∈ dedup l ↔ n ∈ l := by
  induction l with
  | nil => simp [dedup]
  | cons x xs ih =>
    unfold dedup
    simp only [List.mem_cons, List.mem_filter, bne_iff_ne, ne_eq, ih]
    constructor
    · rintro (h | ⟨h, _⟩) <;> simp [h]
    · rintro (h | h)
      · exact Or.inl h
      · by_cases hx : n = x
        · exact Or.inl hx
        · exact Or.inr ⟨h, hx⟩

theorem nodup_dedup (l : List String) : (dedup l).Nodup := by
  induction l with
  | nil => simp [dedup]
  | cons x xs ih =>
    unfold dedup
    rw [List.nodup_cons]
    refine ⟨?_, ih.filter _⟩
    simp

namespace Dual
variable {α : Type} [CommRing α]

theorem dual_eq_map_den (d : Dual α) (h : d.WF) : d.dual = d.vars.map (den d) := by
  apply List.ext_getElem (by simp [h.2])
  intro i h1 h2
  have hi : i < d.vars.length := by simpa using h2
  rw [List.getElem_map]
  unfold den
  rw [lookup_idx _ _ _ _ (idxOf_nodup d.vars h.1 i hi), List.getD_eq_getElem?_getD,
    List.getElem?_eq_getElem h1]
  rfl

/-- per-name action of an elementwise combination of two aligned arrays -/
theorem den_zip (x y : Dual α) (f : α → α → α) (hf : f 0 0 = 0) (hv : x.vars = y.vars)
    (wx : x.WF) (wy : y.WF) (r : α) (n : String) :
    den ⟨r, x.vars, List.zipWith f x.dual y.dual⟩ n = f (den x n) (den y n) := by
  unfold den
  by_cases h : n ∈ x.vars
  · simp only
    rw [lookup_zipWith x.vars x.dual y.dual f n wx.2 (by rw [wy.2, hv]) h, hv]
  · simp only
    rw [lookup_not_mem _ _ _ h, lookup_not_mem _ _ _ h, lookup_not_mem _ _ _ (hv ▸ h), hf]

theorem den_scaleR (x : Dual α) (s : α) (wx : x.WF) (r : α) (n : String) :
    den ⟨r, x.vars, vscaleR x.dual s⟩ n = den x n * s := by
  unfold den vscaleR
  by_cases h : n ∈ x.vars
  · simp only; rw [lookup_map x.vars x.dual _ n wx.2 h]
  · simp only; rw [lookup_not_mem _ _ _ h, lookup_not_mem _ _ _ h]; ring

theorem den_scaleL (x : Dual α) (s : α) (wx : x.WF) (r : α) (n : String) :
    den ⟨r, x.vars, vscaleL s x.dual⟩ n = s * den x n := by
  unfold den vscaleL
  by_cases h : n ∈ x.vars
  · simp only; rw [lookup_map x.vars x.dual _ n wx.2 h]
  · simp only; rw [lookup_not_mem _ _ _ h, lookup_not_mem _ _ _ h]; ring

theorem den_neg (x : Dual α) (wx : x.WF) (r : α) (n : String) :
    den ⟨r, x.vars, vneg x.dual⟩ n = - den x n := by
  unfold den vneg
  by_cases h : n ∈ x.vars
  · simp only; rw [lookup_map x.vars x.dual _ n wx.2 h]
  · simp only; rw [lookup_not_mem _ _ _ h, lookup_not_mem _ _ _ h]; ring

/-- result of a binary operation: shape, names, value and per-name derivative -/
structure OpSpec (a b r : Dual α) (fr : α) (fd : String → α) : Prop where
  wf : r.WF
  mem : ∀ n, n ∈ r.vars ↔ n ∈ a.vars ∨ n ∈ b.vars
  real : r.real = fr
  den : ∀ n, Dual.den r n = fd n

theorem add_spec (p : Bool) (a b : Dual α) (ha : a.WF) (hb : b.WF) (hp : p = true → a.vars = b.vars) :
    OpSpec a b (add p a b) (a.real + b.real) (fun n => den a n + den b n) := by
  rcases hxy : aligned p a b with ⟨x, y⟩
  have S : AlignedSpec a b x y := by
    have := aligned_spec p a b ha hb hp
    rw [hxy] at this; exact this
  simp only [add, hxy]
  refine ⟨⟨S.wfx.1, ?_⟩, S.mem, by rw [S.realx, S.realy], fun n => ?_⟩
  · simp only [vadd, List.length_zipWith, S.wfx.2, S.wfy.2, S.vars_eq, Nat.min_self]
  · rw [show vadd x.dual y.dual = List.zipWith (· + ·) x.dual y.dual from rfl,
      den_zip x y (· + ·) (by simp) S.vars_eq S.wfx S.wfy, S.denx, S.deny]

theorem sub_spec (p : Bool) (a b : Dual α) (ha : a.WF) (hb : b.WF) (hp : p = true → a.vars = b.vars) :
    OpSpec a b (sub p a b) (a.real - b.real) (fun n => den a n - den b n) := by
  rcases hxy : aligned p a b with ⟨x, y⟩
  have S : AlignedSpec a b x y := by
    have := aligned_spec p a b ha hb hp
    rw [hxy] at this; exact this
  simp only [sub, hxy]
  refine ⟨⟨S.wfx.1, ?_⟩, S.mem, by rw [S.realx, S.realy], fun n => ?_⟩
  · simp only [vsub, List.length_zipWith, S.wfx.2, S.wfy.2, S.vars_eq, Nat.min_self]
  · rw [show vsub x.dual y.dual = List.zipWith (· - ·) x.dual y.dual from rfl,
      den_zip x y (· - ·) (by simp) S.vars_eq S.wfx S.wfy, S.denx, S.deny]

theorem mul_spec (p : Bool) (a b : Dual α) (ha : a.WF) (hb : b.WF) (hp : p = true → a.vars = b.vars) :
    OpSpec a b (mul p a b) (a.real * b.real)
      (fun n => den a n * b.real + den b n * a.real) := by
  rcases hxy : aligned p a b with ⟨x, y⟩
  have S : AlignedSpec a b x y := by
    have := aligned_spec p a b ha hb hp
    rw [hxy] at this; exact this
  simp only [mul, hxy]
  have wx' : (⟨x.real, x.vars, vscaleR x.dual y.real⟩ : Dual α).WF :=
    ⟨S.wfx.1, by simp [vscaleR, S.wfx.2]⟩
  have wy' : (⟨y.real, y.vars, vscaleR y.dual x.real⟩ : Dual α).WF :=
    ⟨S.wfy.1, by simp [vscaleR, S.wfy.2]⟩
  refine ⟨⟨S.wfx.1, ?_⟩, S.mem, by rw [S.realx, S.realy], fun n => ?_⟩
  · simp only [vadd, vscaleR, List.length_zipWith, List.length_map, S.wfx.2, S.wfy.2, S.vars_eq,
      Nat.min_self]
  · have := den_zip ⟨x.real, x.vars, vscaleR x.dual y.real⟩ ⟨y.real, y.vars, vscaleR y.dual x.real⟩
      (· + ·) (by simp) S.vars_eq wx' wy' (x.real * y.real) n
    simp only at this
    rw [show vadd (vscaleR x.dual y.real) (vscaleR y.dual x.real)
        = List.zipWith (· + ·) (vscaleR x.dual y.real) (vscaleR y.dual x.real) from rfl, this,
      den_scaleR x y.real S.wfx, den_scaleR y x.real S.wfy, S.denx, S.deny, S.realx, S.realy]

theorem zipWith_eqb_all [Transc α] [LawfulEqb α] : ∀ (l1 l2 : List α), l1.length = l2.length →
    ((List.zipWith Transc.eqb l1 l2).all id = true ↔ l1 = l2) := by
  intro l1
  induction l1 with
  | nil => intro l2 h; cases l2 <;> simp_all
  | cons x xs ih =>
    intro l2 h
    cases l2 with
    | nil => simp at h
    | cons y ys =>
      simp only [List.length_cons, Nat.add_right_cancel_iff] at h
      simp only [List.zipWith_cons_cons, List.all_cons, id, Bool.and_eq_true, List.cons.injEq,
        LawfulEqb.eqb_iff, ih ys h]

/-- equality treats a missing variable and a zero derivative as the same thing -/
theorem eq_spec [Transc α] [LawfulEqb α] (p : Bool) (a b : Dual α) (ha : a.WF) (hb : b.WF)
    (hp : p = true → a.vars = b.vars) :
    eq p a b = true ↔ (a.real = b.real ∧ ∀ n, den a n = den b n) := by
  rcases hxy : aligned p a b with ⟨x, y⟩
  have S : AlignedSpec a b x y := by
    have := aligned_spec p a b ha hb hp
    rw [hxy] at this; exact this
  unfold eq
  by_cases hr : a.real = b.real
  · have : Transc.eqb a.real b.real = true := (LawfulEqb.eqb_iff _ _).2 hr
    simp only [this, Bool.not_true, Bool.false_eq_true, if_false, hxy]
    have hl : x.dual.length = y.dual.length := by rw [S.wfx.2, S.wfy.2, S.vars_eq]
    simp only [hl, beq_self_eq_true, Bool.true_and, zipWith_eqb_all _ _ hl]
    constructor
    · intro h
      refine ⟨hr, fun n => ?_⟩
      rw [← S.denx, ← S.deny]; unfold den; rw [h, S.vars_eq]
    · rintro ⟨_, h⟩
      apply ext_of_lookup x.vars S.wfx.1 _ _ S.wfx.2 (by rw [S.wfy.2, S.vars_eq])
      intro n
      have := h n
      rw [← S.denx, ← S.deny] at this
      unfold den at this
      rw [this, S.vars_eq]
  · have : Transc.eqb a.real b.real = false := by
      cases h : Transc.eqb a.real b.real with
      | false => rfl
      | true => exact absurd ((LawfulEqb.eqb_iff _ _).1 h) hr
    simp [this, hr]

/-- gradients are read back by name, in the order asked for -/
theorem gradient1_spec (d : Dual α) (vs : List String) (hd : d.WF) (hv : vs.Nodup) :
    d.gradient1 vs = vs.map (den d) := by
  unfold gradient1
  rw [dedup_of_nodup vs hv]
  simp only
  cases hc : varsCmp false d.vars vs with
  | arcEq => unfold varsCmp at hc; repeat' split at hc
             all_goals simp_all
  | valEq =>
    have : d.vars = vs := by
      unfold varsCmp at hc
      repeat' split at hc
      all_goals simp_all
    simp only [← this]
    exact dual_eq_map_den d hd
  | superset => rfl
  | subset => rfl
  | difference => rfl

end Dual
end Rateslib
