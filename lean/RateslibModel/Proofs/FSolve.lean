/-
Over a field the float-matrix solver `fdsolve21` (x[i] = (1/u_ii)·v) computes the same vector as the
generic solver `dsolve21` (x[i] = v/u_ii); hence it inherits soundness.
-/
import RateslibModel.Proofs.Gauss3
import Mathlib.Algebra.Field.Basic
namespace Rateslib

variable {K : Type} [Field K] (ge : K → K → Bool)

@[reducible] def fieldModOps : ModOps K K := ⟨(· * ·), (· - ·), (· + ·), 0⟩

def toSys (s : FSys K K) : Sys K := ⟨s.a, s.b⟩

theorem felimRow_toSys (n j : Nat) (s : FSys K K) (l : Nat) :
    toSys (@felimRow K K (ringLinOps ge) fieldModOps n j s l) = @elimRow K (ringLinOps ge) n j (toSys s) l := rfl

theorem fswap_toSys (s : FSys K K) (j k : Nat) : toSys (fswapRows s j k) = swapRows (toSys s) j k := rfl

theorem foldl_felimRow (n j : Nat) : ∀ (ls : List Nat) (s : FSys K K),
    toSys (ls.foldl (@felimRow K K (ringLinOps ge) fieldModOps n j) s)
      = ls.foldl (@elimRow K (ringLinOps ge) n j) (toSys s) := by
  intro ls
  induction ls with
  | nil => intro s; rfl
  | cons l ls ih => intro s; rw [List.foldl_cons, List.foldl_cons, ih, felimRow_toSys]

theorem felimStep_toSys (n : Nat) (s : FSys K K) (j : Nat) :
    toSys (@felimStep K K (ringLinOps ge) fieldModOps n s j) = @elimStep K (ringLinOps ge) n (toSys s) j := by
  unfold felimStep elimStep
  simp only
  rw [foldl_felimRow]
  congr 1
  show toSys (if j ≠ @pivotIdx K (ringLinOps ge) n j s.a then fswapRows s j _ else s) = _
  have ha : (toSys s).a = s.a := rfl
  rw [ha]
  split
  · rfl
  · rfl

theorem fforward_toSys (n : Nat) : ∀ (js : List Nat) (s : FSys K K),
    toSys (js.foldl (@felimStep K K (ringLinOps ge) fieldModOps n) s)
      = js.foldl (@elimStep K (ringLinOps ge) n) (toSys s) := by
  intro js
  induction js with
  | nil => intro s; rfl
  | cons j js ih => intro s; rw [List.foldl_cons, List.foldl_cons, ih, felimStep_toSys]

theorem fdot_eq (idx : List Nat) (f g : Nat → K) :
    @fdotOver K K fieldModOps idx f g = @dotOver K (ringLinOps ge) idx f g := rfl

theorem fback_eq (n : Nat) (s : FSys K K) :
    @fbackSubst K K (ringLinOps ge) fieldModOps _ n s = @backSubst K (ringLinOps ge) n (toSys s) := by
  unfold fbackSubst backSubst
  congr 1
  funext x i
  funext r
  simp only [toSys, fdot_eq ge, lo_sub, lo_div]
  split
  · show (1 : K) / s.a i i * _ = _ / s.a i i
    rw [div_mul_eq_mul_div, one_mul]
    rfl
  · rfl

/-- the two solvers agree over a field -/
theorem fdsolve21_eq (n : Nat) (s : FSys K K) :
    @fdsolve21 K K (ringLinOps ge) fieldModOps _ n s = @dsolve21 K (ringLinOps ge) n (toSys s) := by
  unfold fdsolve21 dsolve21 fforwardElim forwardElim
  rw [fback_eq, fforward_toSys]

end Rateslib
