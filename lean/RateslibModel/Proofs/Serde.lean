import RateslibModel.Model.Serde
namespace Rateslib.Serde

/-- `dec` inverts `enc` on the values satisfying `P`, consuming exactly what `enc` produced -/
def Lawful {α : Type} (enc : α → Bytes) (dec : Bytes → Option (α × Bytes)) (P : α → Prop) : Prop :=
  ∀ x, P x → ∀ rest, dec (enc x ++ rest) = some (x, rest)

theorem decLE_encLE : ∀ (k n : Nat) (rest : Bytes), n < 256 ^ k → decLE k (encLE n k ++ rest) = some (n, rest) := by
  intro k
  induction k with
  | zero => intro n rest h; simp at h; subst h; rfl
  | succ k ih =>
    intro n rest h
    have h2 : n / 256 < 256 ^ k := by
      rw [Nat.pow_succ] at h
      exact Nat.div_lt_of_lt_mul (by rw [Nat.mul_comm]; exact h)
    simp only [encLE, List.cons_append, decLE, ih (n / 256) rest h2]
    have hb : (n % 256).toUInt8.toNat = n % 256 := by
      simp [Nat.toUInt8, UInt8.toNat, UInt8.ofNat]
      try omega
    rw [hb]
    congr 2
    omega

theorem lawful_u64 : Lawful encU64 decU64 (fun n => n < 2 ^ 64) := by
  intro n h rest
  exact decLE_encLE 8 n rest (by simpa using h)

theorem lawful_u32 : Lawful encU32 decU32 (fun n => n < 2 ^ 32) := by
  intro n h rest
  exact decLE_encLE 4 n rest (by simpa using h)

theorem lawful_u8 : Lawful encU8 decU8 (fun n => n < 2 ^ 8) := by
  intro n h rest
  exact decLE_encLE 1 n rest (by simpa using h)

theorem decN_spec {α : Type} (enc : α → Bytes) (dec : Bytes → Option (α × Bytes)) (P : α → Prop)
    (hl : Lawful enc dec P) : ∀ (l : List α) (rest : Bytes), (∀ x ∈ l, P x) →
      decN dec l.length ((l.map enc).flatten ++ rest) = some (l, rest) := by
  intro l
  induction l with
  | nil => intro rest _; rfl
  | cons x xs ih =>
    intro rest h
    simp only [List.length_cons, List.map_cons, List.flatten_cons, List.append_assoc, decN]
    rw [hl x (h x List.mem_cons_self)]
    simp only
    rw [ih rest (fun y hy => h y (List.mem_cons_of_mem _ hy))]

theorem lawful_seq {α : Type} (enc : α → Bytes) (dec : Bytes → Option (α × Bytes)) (P : α → Prop)
    (hl : Lawful enc dec P) :
    Lawful (encSeq enc) (decSeq dec) (fun l => l.length < 2 ^ 64 ∧ ∀ x ∈ l, P x) := by
  intro l h rest
  unfold encSeq decSeq
  simp only [List.append_assoc, lawful_u64 l.length h.1]
  exact decN_spec enc dec P hl l rest h.2

theorem lawful_str : Lawful encStr decStr (fun s => s.length < 2 ^ 64) := by
  intro s h rest
  unfold encStr decStr
  simp only [List.append_assoc, lawful_u64 s.length h]
  simp

theorem lawful_opt {α : Type} (enc : α → Bytes) (dec : Bytes → Option (α × Bytes)) (P : α → Prop)
    (hl : Lawful enc dec P) :
    Lawful (encOpt enc) (decOpt dec) (fun o => ∀ x, o = some x → P x) := by
  intro o h rest
  cases o with
  | none =>
    unfold encOpt decOpt
    simp only [lawful_u8 0 (by decide : (0:Nat) < 2 ^ 8)]
  | some x =>
    unfold encOpt decOpt
    simp only [List.append_assoc, lawful_u8 1 (by decide : (1:Nat) < 2 ^ 8), hl x (h x rfl)]

def ValidArr1 (a : Arr1) : Prop := a.dim < 2 ^ 64 ∧ a.data.length < 2 ^ 64 ∧ ∀ x ∈ a.data, x < 2 ^ 64
def ValidArr2 (a : Arr2) : Prop :=
  a.d0 < 2 ^ 64 ∧ a.d1 < 2 ^ 64 ∧ a.data.length < 2 ^ 64 ∧ ∀ x ∈ a.data, x < 2 ^ 64

theorem lawful_arr1 : Lawful encArr1 decArr1 ValidArr1 := by
  intro a h rest
  unfold encArr1 decArr1
  simp only [List.append_assoc, lawful_u8 1 (by decide : (1:Nat) < 2 ^ 8), lawful_u64 a.dim h.1,
    lawful_seq encU64 decU64 _ lawful_u64 a.data ⟨h.2.1, h.2.2⟩]

theorem lawful_arr2 : Lawful encArr2 decArr2 ValidArr2 := by
  intro a h rest
  unfold encArr2 decArr2
  simp only [List.append_assoc, lawful_u8 1 (by decide : (1:Nat) < 2 ^ 8), lawful_u64 a.d0 h.1,
    lawful_u64 a.d1 h.2.1, lawful_seq encU64 decU64 _ lawful_u64 a.data ⟨h.2.2.1, h.2.2.2⟩]

def ValidVars (vs : List Bytes) : Prop := vs.length < 2 ^ 64 ∧ ∀ s ∈ vs, s.length < 2 ^ 64

def ValidDual (d : SDual) : Prop := d.real < 2 ^ 64 ∧ ValidVars d.vars ∧ ValidArr1 d.dual
def ValidDual2 (d : SDual2) : Prop :=
  d.real < 2 ^ 64 ∧ ValidVars d.vars ∧ ValidArr1 d.dual ∧ ValidArr2 d.dual2

theorem lawful_dual : Lawful encDual decDual ValidDual := by
  intro d h rest
  unfold encDual decDual
  simp only [List.append_assoc, lawful_u64 d.real h.1,
    lawful_seq encStr decStr _ lawful_str d.vars h.2.1, lawful_arr1 d.dual h.2.2]

theorem lawful_dual2 : Lawful encDual2 decDual2 ValidDual2 := by
  intro d h rest
  unfold encDual2 decDual2
  simp only [List.append_assoc, lawful_u64 d.real h.1,
    lawful_seq encStr decStr _ lawful_str d.vars h.2.1, lawful_arr1 d.dual h.2.2.1,
    lawful_arr2 d.dual2 h.2.2.2]

def ValidNumber : SNumber → Prop
  | .dual d => ValidDual d
  | .dual2 d => ValidDual2 d
  | .f64 b => b < 2 ^ 64

theorem lawful_number : Lawful encNumber decNumber ValidNumber := by
  intro x h rest
  cases x with
  | dual d =>
    unfold encNumber decNumber
    simp only [List.append_assoc, lawful_u32 0 (by decide : (0:Nat) < 2 ^ 32), lawful_dual d h]
  | dual2 d =>
    unfold encNumber decNumber
    simp only [List.append_assoc, lawful_u32 1 (by decide : (1:Nat) < 2 ^ 32), lawful_dual2 d h]
  | f64 b =>
    unfold encNumber decNumber
    simp only [List.append_assoc, lawful_u32 2 (by decide : (2:Nat) < 2 ^ 32), lawful_u64 b h]

theorem lawful_arr1T {α : Type} (enc : α → Bytes) (dec : Bytes → Option (α × Bytes)) (P : α → Prop)
    (hl : Lawful enc dec P) :
    Lawful (encArr1T enc) (decArr1T dec)
      (fun a => a.dim < 2 ^ 64 ∧ a.data.length < 2 ^ 64 ∧ ∀ x ∈ a.data, P x) := by
  intro a h rest
  unfold encArr1T decArr1T
  simp only [List.append_assoc, lawful_u8 1 (by decide : (1:Nat) < 2 ^ 8), lawful_u64 a.dim h.1,
    lawful_seq enc dec P hl a.data ⟨h.2.1, h.2.2⟩]

def ValidSpline {α : Type} (P : α → Prop) (s : SSpline α) : Prop :=
  s.k < 2 ^ 64 ∧ (s.t.length < 2 ^ 64 ∧ ∀ x ∈ s.t, x < 2 ^ 64) ∧
  (∀ a, s.c = some a → a.dim < 2 ^ 64 ∧ a.data.length < 2 ^ 64 ∧ ∀ x ∈ a.data, P x) ∧ s.n < 2 ^ 64

theorem lawful_spline {α : Type} (enc : α → Bytes) (dec : Bytes → Option (α × Bytes)) (P : α → Prop)
    (hl : Lawful enc dec P) : Lawful (encSpline enc) (decSpline dec) (ValidSpline P) := by
  intro s h rest
  unfold encSpline decSpline
  simp only [List.append_assoc, lawful_u64 s.k h.1,
    lawful_seq encU64 decU64 _ lawful_u64 s.t h.2.1,
    lawful_opt (encArr1T enc) (decArr1T dec) _ (lawful_arr1T enc dec P hl) s.c h.2.2.1,
    lawful_u64 s.n h.2.2.2]

def ValidFXRate (q : SFXRate) : Prop :=
  q.lhs.length < 2 ^ 64 ∧ q.rhs.length < 2 ^ 64 ∧ ValidNumber q.rate ∧
  ∀ s, q.settlement = some s → s.length < 2 ^ 64

theorem lawful_fxrate : Lawful encFXRate decFXRate ValidFXRate := by
  intro q h rest
  unfold encFXRate decFXRate
  simp only [List.append_assoc, lawful_str q.lhs h.1,
    lawful_str q.rhs h.2.1, lawful_number q.rate h.2.2.1,
    lawful_opt encStr decStr _ lawful_str q.settlement h.2.2.2]

def ValidFXRates (f : SFXRates) : Prop :=
  (f.quotes.length < 2 ^ 64 ∧ ∀ q ∈ f.quotes, ValidFXRate q) ∧ ValidVars f.currencies

theorem lawful_fxrates : Lawful encFXRates decFXRates ValidFXRates := by
  intro f h rest
  unfold encFXRates decFXRates
  simp only [List.append_assoc, lawful_seq encFXRate decFXRate _ lawful_fxrate f.quotes h.1,
    lawful_seq encStr decStr _ lawful_str f.currencies h.2]

/-! ### curves -/
theorem lawful_nodeVal (kind : Nat) :
    Lawful encNodeVal (decNodeVal kind) (fun v => v.kind = kind ∧ ValidNumber v) := by
  intro v h rest
  obtain ⟨hk, hv⟩ := h
  cases v with
  | f64 b =>
    simp only [SNumber.kind] at hk; subst hk
    simp only [encNodeVal, decNodeVal]
    rw [lawful_u64 b (by simpa [ValidNumber] using hv)]
  | dual d =>
    simp only [SNumber.kind] at hk; subst hk
    simp only [encNodeVal, decNodeVal]
    rw [lawful_dual d (by simpa [ValidNumber] using hv)]
  | dual2 d =>
    simp only [SNumber.kind] at hk; subst hk
    simp only [encNodeVal, decNodeVal]
    rw [lawful_dual2 d (by simpa [ValidNumber] using hv)]

theorem lawful_node (kind : Nat) :
    Lawful encNode (decNode kind) (fun p => p.1 < 2 ^ 64 ∧ p.2.kind = kind ∧ ValidNumber p.2) := by
  intro p h rest
  unfold encNode decNode
  simp only [List.append_assoc, lawful_u64 p.1 h.1, lawful_nodeVal kind p.2 h.2]

def ValidCurve (c : SCurve) : Prop :=
  c.nodesKind < 2 ^ 32 ∧
  (c.nodes.length < 2 ^ 64 ∧ ∀ p ∈ c.nodes, p.1 < 2 ^ 64 ∧ p.2.kind = c.nodesKind ∧ ValidNumber p.2) ∧
  c.interp < 2 ^ 32 ∧ c.id.length < 2 ^ 64 ∧ c.convention < 2 ^ 32 ∧ c.modifier < 2 ^ 32 ∧
  (∀ b, c.indexBase = some b → b < 2 ^ 64) ∧ c.calendar.length < 2 ^ 64

theorem encCurve_eq (c : SCurve) :
    encCurve c = encU32 c.nodesKind ++ encSeq encNode c.nodes ++ encU32 c.interp ++ encStr c.id ++
      encU32 c.convention ++ encU32 c.modifier ++ encOpt encU64 c.indexBase ++ encU32 2 ++ encStr c.calendar := rfl

theorem lawful_curve : Lawful encCurve decCurve ValidCurve := by
  intro c h rest
  obtain ⟨h1, h2, h3, h4, h5, h6, h7, h8⟩ := h
  rw [encCurve_eq]
  unfold decCurve
  simp only [List.append_assoc, lawful_u32 c.nodesKind h1,
    lawful_seq encNode (decNode c.nodesKind) _ (lawful_node c.nodesKind) c.nodes h2,
    lawful_u32 c.interp h3, lawful_str c.id h4, lawful_u32 c.convention h5, lawful_u32 c.modifier h6,
    lawful_opt encU64 decU64 _ lawful_u64 c.indexBase h7,
    lawful_u32 2 (by decide), lawful_str c.calendar h8]

end Rateslib.Serde
