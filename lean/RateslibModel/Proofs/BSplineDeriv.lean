/-
Derivatives of the B-spline basis (C14).

The Cox–de Boor recursion is taken over an arbitrary family `b i` of order-1 functions and differentiated
within an arbitrary set `S`: with the half-open indicators `[t_i, t_{i+1})` and `S = [x, ∞)` this gives
the RIGHT derivatives of the Cox–de Boor piecewise polynomial at every point; with the indicators
`(t_i, t_{i+1}]` (the left-continuous representative of the same piecewise polynomial) and `S = (−∞, x]`
it gives the LEFT derivatives, which is what the right end point needs.  The model's `bspldnev` is then
identified with the derivative recursion: strictly before the last knot (right derivatives) and exactly
at the last knot (left derivatives; here the right-end-point rule of `bsplev`, which depends on the
ORIGINAL order carried through the derivative recursion, is what makes the values right).
-/
import RateslibModel.Proofs.BSpline
import Mathlib.Analysis.Calculus.Deriv.Mul
import Mathlib.Analysis.Calculus.Deriv.Add
import Mathlib.Topology.Order.Basic
namespace Rateslib
open Set Filter Topology

/-! ### the recursion over given order-1 functions -/

/-- Cox–de Boor recursion over the order-1 functions `b`, without zero-width guards (a zero denominator
makes the term zero in ℝ, exactly what the guards of the implementation do) -/
noncomputable def genB (b : Nat → ℝ → ℝ) (t : List ℝ) (x : ℝ) : Nat → Nat → ℝ
  | 0, _ => 0
  | k + 1, i =>
    if k = 0 then b i x
    else (x - knot t i) / (knot t (i + k) - knot t i) * genB b t x k i
       + (knot t (i + (k + 1)) - x) / (knot t (i + (k + 1)) - knot t (i + 1)) * genB b t x k (i + 1)

/-- the derivative recursion: order `m` of the function of order `k`, index `i` -/
noncomputable def genD (b : Nat → ℝ → ℝ) (t : List ℝ) (x : ℝ) : Nat → Nat → Nat → ℝ
  | 0, k, i => genB b t x k i
  | _ + 1, 0, _ => 0
  | m + 1, k + 1, i => (k : ℝ) * (genD b t x m k i / (knot t (i + k) - knot t i)
      - genD b t x m k (i + 1) / (knot t (i + (k + 1)) - knot t (i + 1)))

theorem genB_one (b : Nat → ℝ → ℝ) (t : List ℝ) (x : ℝ) (i : Nat) : genB b t x 1 i = b i x := by
  simp [genB]

theorem genB_succ (b : Nat → ℝ → ℝ) (t : List ℝ) (x : ℝ) (k i : Nat) (hk : k ≠ 0) :
    genB b t x (k + 1) i
      = (x - knot t i) / (knot t (i + k) - knot t i) * genB b t x k i
        + (knot t (i + (k + 1)) - x) / (knot t (i + (k + 1)) - knot t (i + 1)) * genB b t x k (i + 1) := by
  rw [genB, if_neg hk]

/-- the algebraic heart of the derivative formula -/
theorem deriv_identity (x k ti ti1 tk tk1 tk2 ti2 P0 P1 P2 : ℝ)
    (h1 : ti ≤ ti1) (h3 : ti1 ≤ tk1) (h2 : tk1 ≤ tk2) :
    (x - ti) / (tk1 - ti) * (k * (P0 / (tk - ti) - P1 / (tk1 - ti1)))
      + (tk2 - x) / (tk2 - ti1) * (k * (P1 / (tk1 - ti1) - P2 / (tk2 - ti2)))
    = k * (((x - ti) / (tk - ti) * P0 + (tk1 - x) / (tk1 - ti1) * P1) / (tk1 - ti)
        - ((x - ti1) / (tk1 - ti1) * P1 + (tk2 - x) / (tk2 - ti2) * P2) / (tk2 - ti1)) := by
  by_cases ha2 : tk1 - ti1 = 0
  · rw [ha2]; simp only [div_zero, zero_mul, mul_zero, sub_zero, zero_sub, add_zero, zero_add]
    ring
  · have hpos : 0 < tk1 - ti1 := lt_of_le_of_ne (by linarith) (Ne.symm ha2)
    have hd1 : tk1 - ti ≠ 0 := by
      have : 0 < tk1 - ti := by linarith
      exact ne_of_gt this
    have hd2 : tk2 - ti1 ≠ 0 := by
      have : 0 < tk2 - ti1 := by linarith
      exact ne_of_gt this
    by_cases hb : tk - ti = 0
    · by_cases hc : tk2 - ti2 = 0
      · rw [hb, hc]; simp only [div_zero, zero_mul, sub_zero, zero_sub, zero_add, add_zero, mul_zero]
        field_simp
        ring
      · rw [hb]; simp only [div_zero, zero_mul, zero_sub, zero_add]
        field_simp
        ring
    · by_cases hc : tk2 - ti2 = 0
      · rw [hc]; simp only [div_zero, zero_mul, sub_zero, add_zero, mul_zero]
        field_simp
        ring
      · field_simp
        ring

/-- THE DERIVATIVE FORMULA, within any set `S` in which the order-1 functions have derivative 0 at `x`:
`B_{i,k}` has at `x` the derivative `(k−1)·(B_{i,k−1}(x)/(t_{i+k−1}−t_i) − B_{i+1,k−1}(x)/(t_{i+k}−t_{i+1}))`
— by induction on the order, through the recursion. -/
theorem genB_hasDeriv (b : Nat → ℝ → ℝ) (t : List ℝ) (hs : SortedKnots t) (S : Set ℝ) (x : ℝ)
    (hb : ∀ i, HasDerivWithinAt (b i) 0 S x) :
    ∀ (k i : Nat), i + k < t.length →
      HasDerivWithinAt (fun y => genB b t y k i) (genD b t x 1 k i) S x := by
  intro k
  induction k with
  | zero =>
    intro i _
    have : (fun y => genB b t y 0 i) = fun _ => (0 : ℝ) := by funext y; rfl
    rw [this]; exact hasDerivWithinAt_const _ _ _
  | succ k ih =>
    intro i hik
    by_cases hk : k = 0
    · subst hk
      have e : genD b t x 1 1 i = 0 := by simp [genD]
      have f : (fun y => genB b t y 1 i) = b i := by funext y; exact genB_one b t y i
      rw [e, f]; exact hb i
    · obtain ⟨k', rfl⟩ : ∃ k', k = k' + 1 := ⟨k - 1, by omega⟩
      have hfun : (fun y => genB b t y (k' + 1 + 1) i) = fun y =>
          (y - knot t i) / (knot t (i + (k' + 1)) - knot t i) * genB b t y (k' + 1) i
          + (knot t (i + (k' + 1 + 1)) - y) / (knot t (i + (k' + 1 + 1)) - knot t (i + 1))
              * genB b t y (k' + 1) (i + 1) := by
        funext y; exact genB_succ b t y (k' + 1) i (by omega)
      rw [hfun]
      have ih1 := ih i (by omega)
      have ih2 := ih (i + 1) (by omega)
      have w1 : HasDerivWithinAt (fun y : ℝ => (y - knot t i) / (knot t (i + (k' + 1)) - knot t i))
          (1 / (knot t (i + (k' + 1)) - knot t i)) S x := by
        have := ((hasDerivWithinAt_id x S).sub_const (knot t i)).div_const
          (knot t (i + (k' + 1)) - knot t i)
        simpa using this
      have w2 : HasDerivWithinAt (fun y : ℝ => (knot t (i + (k' + 1 + 1)) - y)
            / (knot t (i + (k' + 1 + 1)) - knot t (i + 1)))
          (-1 / (knot t (i + (k' + 1 + 1)) - knot t (i + 1))) S x := by
        have := ((hasDerivWithinAt_id x S).const_sub (knot t (i + (k' + 1 + 1)))).div_const
          (knot t (i + (k' + 1 + 1)) - knot t (i + 1))
        simpa using this
      have hsum := (w1.mul ih1).add (w2.mul ih2)
      refine hsum.congr_deriv ?_
      have i1 : i + 1 + k' = i + (k' + 1) := by omega
      have i2 : i + 1 + (k' + 1) = i + (k' + 1 + 1) := by omega
      have hs1 : knot t i ≤ knot t (i + 1) := hs _ _ (by omega) (by omega)
      have hs2 : knot t (i + 1) ≤ knot t (i + (k' + 1)) := hs _ _ (by omega) (by omega)
      have hs3 : knot t (i + (k' + 1)) ≤ knot t (i + (k' + 1 + 1)) := hs _ _ (by omega) (by omega)
      simp only [genD, i1, i2, Nat.cast_add, Nat.cast_one]
      by_cases hk0 : k' = 0
      · subst hk0
        simp only [Nat.cast_zero, zero_mul, mul_zero, add_zero, zero_add]
        ring
      · have hX := deriv_identity x (k' : ℝ) (knot t i) (knot t (i + 1)) (knot t (i + k'))
          (knot t (i + (k' + 1))) (knot t (i + (k' + 1 + 1))) (knot t (i + 1 + 1))
          (genB b t x k' i) (genB b t x k' (i + 1)) (genB b t x k' (i + 1 + 1)) hs1 hs2 hs3
        rw [genB_succ b t x k' i hk0, genB_succ b t x k' (i + 1) hk0, i1, i2]
        linear_combination hX

/-- ALL ORDERS: the `(m+1)`-th derivative recursion is the derivative of the `m`-th. -/
theorem genD_hasDeriv (b : Nat → ℝ → ℝ) (t : List ℝ) (hs : SortedKnots t) (S : Set ℝ) (x : ℝ)
    (hb : ∀ i, HasDerivWithinAt (b i) 0 S x) :
    ∀ (m k i : Nat), i + k < t.length →
      HasDerivWithinAt (fun y => genD b t y m k i) (genD b t x (m + 1) k i) S x := by
  intro m
  induction m with
  | zero =>
    intro k i hik
    have : (fun y => genD b t y 0 k i) = fun y => genB b t y k i := by funext y; simp [genD]
    rw [this]; exact genB_hasDeriv b t hs S x hb k i hik
  | succ m ih =>
    intro k i hik
    cases k with
    | zero =>
      have e1 : (fun y => genD b t y (m + 1) 0 i) = fun _ => (0 : ℝ) := by funext y; simp [genD]
      have e2 : genD b t x (m + 1 + 1) 0 i = 0 := by simp [genD]
      rw [e1, e2]; exact hasDerivWithinAt_const _ _ _
    | succ k' =>
      have e1 : (fun y => genD b t y (m + 1) (k' + 1) i) = fun y => (k' : ℝ) *
          (genD b t y m k' i / (knot t (i + k') - knot t i)
            - genD b t y m k' (i + 1) / (knot t (i + (k' + 1)) - knot t (i + 1))) := by
        funext y; simp [genD]
      have e2 : genD b t x (m + 1 + 1) (k' + 1) i = (k' : ℝ) *
          (genD b t x (m + 1) k' i / (knot t (i + k') - knot t i)
            - genD b t x (m + 1) k' (i + 1) / (knot t (i + (k' + 1)) - knot t (i + 1))) := by
        simp [genD]
      rw [e1, e2]
      exact ((((ih k' i (by omega)).div_const _).sub ((ih k' (i + 1) (by omega)).div_const _)).const_mul _)

/-- derivative orders at or above the order of the spline vanish -/
theorem genD_high (b : Nat → ℝ → ℝ) (t : List ℝ) (x : ℝ) :
    ∀ (m k i : Nat), k ≤ m → 0 < m → genD b t x m k i = 0 := by
  intro m
  induction m with
  | zero => intro k i _ h; omega
  | succ m ih =>
    intro k i hk _
    cases k with
    | zero => simp [genD]
    | succ k' =>
      simp only [genD]
      by_cases hk0 : k' = 0
      · subst hk0; simp
      · rw [ih k' i (by omega) (by omega), ih k' (i + 1) (by omega) (by omega)]; simp

/-! ### the two representatives of the Cox–de Boor piecewise polynomial -/

/-- right-continuous order-1 functions: indicators of `[t_i, t_{i+1})` -/
noncomputable def bR (t : List ℝ) (i : Nat) (x : ℝ) : ℝ := if knot t i ≤ x ∧ x < knot t (i + 1) then 1 else 0
/-- left-continuous order-1 functions: indicators of `(t_i, t_{i+1}]` -/
noncomputable def bL (t : List ℝ) (i : Nat) (x : ℝ) : ℝ := if knot t i < x ∧ x ≤ knot t (i + 1) then 1 else 0

/-- the pure Cox–de Boor recursion of `Proofs/BSpline.lean` is the recursion over the half-open
indicators (its zero-width guards only skip terms that are zero) -/
theorem pureB_eq_genB (t : List ℝ) (x : ℝ) : ∀ (k i : Nat), pureB t x k i = genB (bR t) t x k i := by
  intro k
  induction k with
  | zero => intro i; rfl
  | succ k ih =>
    intro i
    rw [pureB, genB]
    by_cases hk : k = 0
    · subst hk; simp [bR]
    · rw [if_neg hk, if_neg hk, ih i, ih (i + 1)]
      congr 1
      · split
        · rfl
        · rename_i h
          have : knot t (i + k) - knot t i = 0 := by
            have : knot t i = knot t (i + k) := by simpa using h
            rw [this]; ring
          rw [this, div_zero, zero_mul]
      · split
        · rfl
        · rename_i h
          have : knot t (i + (k + 1)) - knot t (i + 1) = 0 := by
            have : knot t (i + 1) = knot t (i + (k + 1)) := by simpa using h
            rw [this]; ring
          rw [this, div_zero, zero_mul]

/-- the two representatives agree wherever `x` is not a knot: they are the same piecewise polynomial -/
theorem genB_bL_eq_bR (t : List ℝ) (x : ℝ) (hx : ∀ j, j < t.length → knot t j ≠ x) :
    ∀ (k i : Nat), i + k < t.length → genB (bL t) t x k i = genB (bR t) t x k i := by
  intro k
  induction k with
  | zero => intro i _; rfl
  | succ k ih =>
    intro i hik
    rw [genB, genB]
    by_cases hk : k = 0
    · subst hk
      simp only [if_true, bL, bR]
      have h1 : knot t i < x ↔ knot t i ≤ x := ⟨le_of_lt, fun h => lt_of_le_of_ne h (hx i (by omega))⟩
      have h2 : x ≤ knot t (i + 1) ↔ x < knot t (i + 1) :=
        ⟨fun h => lt_of_le_of_ne h (Ne.symm (hx (i + 1) (by omega))), le_of_lt⟩
      simp only [h1, h2]
    · rw [if_neg hk, if_neg hk, ih i (by omega), ih (i + 1) (by omega)]

theorem genD_bL_eq_bR (t : List ℝ) (x : ℝ) (hx : ∀ j, j < t.length → knot t j ≠ x) :
    ∀ (m k i : Nat), i + k < t.length → genD (bL t) t x m k i = genD (bR t) t x m k i := by
  intro m
  induction m with
  | zero => intro k i hik; simp only [genD]; exact genB_bL_eq_bR t x hx k i hik
  | succ m ih =>
    intro k i hik
    cases k with
    | zero => simp [genD]
    | succ k' => simp only [genD]; rw [ih k' i (by omega), ih k' (i + 1) (by omega)]

/-- order 1, right-continuous: constant immediately to the right of every point -/
theorem bR_hasDeriv (t : List ℝ) (x : ℝ) (i : Nat) : HasDerivWithinAt (bR t i) 0 (Ici x) x := by
  have hev : ∀ᶠ y in 𝓝[≥] x, bR t i y = bR t i x := by
    by_cases h1 : knot t i ≤ x
    · by_cases h2 : x < knot t (i + 1)
      · have : ∀ᶠ y in 𝓝[≥] x, y < knot t (i + 1) := nhdsWithin_le_nhds (Iio_mem_nhds h2)
        filter_upwards [this, self_mem_nhdsWithin] with y hy hxy
        simp only [bR]
        rw [if_pos ⟨le_trans h1 hxy, hy⟩, if_pos ⟨h1, h2⟩]
      · filter_upwards [self_mem_nhdsWithin] with y hxy
        simp only [bR]
        rw [if_neg (fun h => h2 (lt_of_le_of_lt hxy h.2)), if_neg (fun h => h2 h.2)]
    · have hlt : x < knot t i := not_le.mp h1
      have : ∀ᶠ y in 𝓝[≥] x, y < knot t i := nhdsWithin_le_nhds (Iio_mem_nhds hlt)
      filter_upwards [this] with y hy
      simp only [bR]
      rw [if_neg (fun h => not_le.mpr hy h.1), if_neg (fun h => h1 h.1)]
  have hc : HasDerivWithinAt (fun _ : ℝ => bR t i x) 0 (Ici x) x := hasDerivWithinAt_const _ _ _
  exact hc.congr_of_eventuallyEq hev rfl

/-- order 1, left-continuous: constant immediately to the left of every point -/
theorem bL_hasDeriv (t : List ℝ) (x : ℝ) (i : Nat) : HasDerivWithinAt (bL t i) 0 (Iic x) x := by
  have hev : ∀ᶠ y in 𝓝[≤] x, bL t i y = bL t i x := by
    by_cases h1 : x ≤ knot t (i + 1)
    · by_cases h2 : knot t i < x
      · have : ∀ᶠ y in 𝓝[≤] x, knot t i < y := nhdsWithin_le_nhds (Ioi_mem_nhds h2)
        filter_upwards [this, self_mem_nhdsWithin] with y hy hxy
        simp only [bL]
        rw [if_pos ⟨hy, le_trans hxy h1⟩, if_pos ⟨h2, h1⟩]
      · filter_upwards [self_mem_nhdsWithin] with y hxy
        simp only [bL]
        rw [if_neg (fun h => h2 (lt_of_lt_of_le h.1 hxy)), if_neg (fun h => h2 h.1)]
    · have hlt : knot t (i + 1) < x := not_le.mp h1
      have : ∀ᶠ y in 𝓝[≤] x, knot t (i + 1) < y := nhdsWithin_le_nhds (Ioi_mem_nhds hlt)
      filter_upwards [this] with y hy
      simp only [bL]
      rw [if_neg (fun h => not_le.mpr hy h.2), if_neg (fun h => h1 h.2)]
  have hc : HasDerivWithinAt (fun _ : ℝ => bL t i x) 0 (Iic x) x := hasDerivWithinAt_const _ _ _
  exact hc.congr_of_eventuallyEq hev rfl

/-! ### the model against the derivative recursion -/

theorem ofInt_real (n : Nat) : (Transc.ofInt ((n : Nat) : Int) : ℝ) = (n : ℝ) := by
  show ((n : Int) : ℝ) = (n : ℝ); simp

/-- a guarded quotient is the quotient (division by zero is zero over ℝ as in Lean) -/
theorem guard_div (r a d : ℝ) : (if (!Transc.eqb d 0) = true then r + a / d else r) = r + a / d := by
  by_cases h : d = 0
  · subst h; simp
  · have : Transc.eqb d (0:ℝ) = false := by
      rw [← Bool.not_eq_true, eqb_iff]; exact h
    simp [this]

theorem guard_div_sub (r a d : ℝ) : (if (!Transc.eqb d 0) = true then r - a / d else r) = r - a / d := by
  by_cases h : d = 0
  · subst h; simp
  · have : Transc.eqb d (0:ℝ) = false := by
      rw [← Bool.not_eq_true, eqb_iff]; exact h
    simp [this]

/-- STRICTLY BEFORE THE LAST KNOT the model's derivative evaluation is the derivative recursion over the
half-open indicators: the zero-denominator guards only skip terms that are zero, and the original order
that is carried along is never consulted. -/
theorem bspldnev_eq_genD (t : List ℝ) (hs : SortedKnots t) (x : ℝ) (hx : x < knot t (t.length - 1)) :
    ∀ (m k i : Nat) (org : Option Nat), i + k < t.length →
      bspldnev t x m i k org = genD (bR t) t x m k i := by
  intro m
  induction m with
  | zero =>
    intro k i org hik
    show bsplev t x k i k = genB (bR t) t x k i
    rw [bsplev_eq_pure t hs x hx k i k hik, pureB_eq_genB]
  | succ m ih =>
    intro k i org hik
    unfold bspldnev
    by_cases hc : (decide (k = 1) || decide (m + 1 ≥ k)) = true
    · rw [if_pos hc]
      simp only [Bool.or_eq_true, decide_eq_true_eq] at hc
      exact (genD_high _ t x (m + 1) k i (by omega) (by omega)).symm
    · rw [if_neg hc]
      simp only [Bool.or_eq_true, decide_eq_true_eq, not_or] at hc
      obtain ⟨k', rfl⟩ : ∃ k', k = k' + 1 := ⟨k - 1, by omega⟩
      have e1 : i + (k' + 1) - 1 = i + k' := by omega
      have e2 : k' + 1 - 1 = k' := by omega
      simp only [e1, e2, guard_div, guard_div_sub, ofInt_real]
      by_cases hm : m = 0
      · subst hm
        rw [if_pos rfl, bsplev_eq_pure t hs x hx k' i _ (by omega),
          bsplev_eq_pure t hs x hx k' (i + 1) _ (by omega), pureB_eq_genB, pureB_eq_genB]
        simp only [genD]; ring
      · rw [if_neg hm, ih k' i _ (by omega), ih k' (i + 1) _ (by omega)]
        simp only [genD]; ring


/-! ### the right end point -/

/-- an order-`K` knot vector whose last knot has multiplicity exactly `K` -/
structure RightEnd (t : List ℝ) (K : Nat) : Prop where
  sorted : SortedKnots t
  hK : 1 ≤ K
  len : K + 1 ≤ t.length
  endEq : knot t (t.length - K) = knot t (t.length - 1)
  interior : knot t (t.length - K - 1) < knot t (t.length - 1)

namespace RightEnd
variable {t : List ℝ} {K : Nat}

theorem at_end (H : RightEnd t K) (j : Nat) (h1 : t.length - K ≤ j) (h2 : j < t.length) :
    knot t j = knot t (t.length - 1) := by
  have a := H.sorted (t.length - K) j h1 h2
  have b := H.sorted j (t.length - 1) (by omega) (by have := H.len; omega)
  rw [H.endEq] at a
  exact le_antisymm b a

theorem before_end (H : RightEnd t K) (j : Nat) (h1 : j ≤ t.length - K - 1) :
    knot t j < knot t (t.length - 1) :=
  lt_of_le_of_lt (H.sorted j _ h1 (by have := H.len; omega)) H.interior

/-- the model's value rule at the last knot, with the ORIGINAL order `K` carried along: 1 on the last
non-empty span's function whatever the current order `j`, 0 on every function further left -/
theorem bsplev_end (H : RightEnd t K) : ∀ (j i : Nat), 1 ≤ j → i + j < t.length → i ≤ t.length - K - 1 →
    bsplev t (knot t (t.length - 1)) j i K = if i = t.length - K - 1 then 1 else 0 := by
  intro j i hj hij his
  have hlen := H.len
  have hK := H.hK
  obtain ⟨j', rfl⟩ : ∃ j', j = j' + 1 := ⟨j - 1, by omega⟩
  by_cases hi : i = t.length - K - 1
  · rw [if_pos hi]
    unfold bsplev
    have e1 : knot t (i + (j' + 1)) = knot t (t.length - 1) := H.at_end _ (by omega) hij
    have e0 : knot t i < knot t (t.length - 1) := H.before_end i his
    rw [if_neg, if_pos]
    · simp only [Bool.and_eq_true, eqb_iff, decide_eq_true_eq, true_and]; omega
    · simp only [Bool.or_eq_true, ltb_iff, not_or, not_lt, e1]
      exact ⟨le_of_lt e0, le_refl _⟩
  · rw [if_neg hi]
    have hle : knot t (i + (j' + 1)) ≤ knot t (t.length - 1) := H.sorted _ _ (by omega) (by omega)
    unfold bsplev
    by_cases hsup : knot t (i + (j' + 1)) < knot t (t.length - 1)
    · rw [if_pos]
      simp only [Bool.or_eq_true, ltb_iff]; exact Or.inr hsup
    · have heq : knot t (i + (j' + 1)) = knot t (t.length - 1) := le_antisymm hle (not_lt.mp hsup)
      have e0 : knot t i < knot t (t.length - 1) := H.before_end i his
      rw [if_neg, if_neg]
      · by_cases hj0 : j' = 0
        · subst hj0
          rw [if_pos rfl, if_neg]
          simp only [Bool.and_eq_true, leb_iff, ltb_iff, not_and, not_lt]
          intro _; rw [← heq]
        · rw [if_neg hj0]
          have z : bsplev t (knot t (t.length - 1)) j' i j' = 0 :=
            bsplev_right_end_zero t H.sorted j' i (by omega)
          rw [z, heq]
          simp
      · simp only [Bool.and_eq_true, eqb_iff, decide_eq_true_eq, true_and]; omega
      · simp only [Bool.or_eq_true, ltb_iff, not_or, not_lt, heq]
        exact ⟨le_of_lt e0, le_refl _⟩

/-- the left-continuous representative at the last knot: 1 on the last non-empty span's function, 0 on
all others, whatever the order -/
theorem genB_bL_end (H : RightEnd t K) : ∀ (j i : Nat), 1 ≤ j → i + j < t.length →
    genB (bL t) t (knot t (t.length - 1)) j i = if i = t.length - K - 1 then 1 else 0 := by
  intro j
  have hlen := H.len
  have hK := H.hK
  induction j with
  | zero => intro i h; omega
  | succ j ih =>
    intro i _ hij
    by_cases hj0 : j = 0
    · subst hj0
      rw [genB_one]
      simp only [bL]
      by_cases hi : i = t.length - K - 1
      · rw [if_pos hi, if_pos]
        refine ⟨H.before_end i (by omega), ?_⟩
        rw [H.at_end (i + 1) (by omega) (by omega)]
      · rw [if_neg hi, if_neg]
        rintro ⟨h1, h2⟩
        by_cases hlt : i < t.length - K - 1
        · have := H.before_end (i + 1) (by omega); linarith
        · have := H.at_end i (by omega) (by omega); linarith
    · rw [genB_succ _ t _ j i hj0, ih i (by omega) (by omega), ih (i + 1) (by omega) (by omega)]
      by_cases hi : i = t.length - K - 1
      · rw [if_pos hi, if_neg (by omega)]
        have e1 : knot t (i + j) = knot t (t.length - 1) := H.at_end _ (by omega) (by omega)
        have e0 : knot t i < knot t (t.length - 1) := H.before_end i (by omega)
        rw [e1, div_self (by linarith)]; ring
      · rw [if_neg hi]
        by_cases hi1 : i + 1 = t.length - K - 1
        · rw [if_pos hi1]
          have e1 : knot t (i + (j + 1)) = knot t (t.length - 1) := H.at_end _ (by omega) (by omega)
          rw [e1]; simp
        · rw [if_neg hi1]; ring

/-- a value leaf of the derivative recursion, divided by the width of its support: the model's value
(which is 1 also on the zero-width functions right of the last span) and the true value agree -/
theorem leaf_div (H : RightEnd t K) (j i : Nat) (hj : 1 ≤ j) (hij : i + j < t.length) :
    bsplev t (knot t (t.length - 1)) j i K / (knot t (i + j) - knot t i)
      = genB (bL t) t (knot t (t.length - 1)) j i / (knot t (i + j) - knot t i) := by
  have hlen := H.len
  by_cases his : i ≤ t.length - K - 1
  · rw [H.bsplev_end j i hj hij his, H.genB_bL_end j i hj hij]
  · have e1 := H.at_end i (by omega) (by omega)
    have e2 := H.at_end (i + j) (by omega) hij
    rw [e1, e2, sub_self, div_zero, div_zero]

/-- AT THE LAST KNOT the model's derivative evaluation, carrying the original order `K`, is the
derivative recursion over the LEFT-continuous indicators. -/
theorem bspldnev_end_succ (H : RightEnd t K) :
    ∀ (m k i : Nat) (org : Option Nat), i + k < t.length → org.getD k = K →
      bspldnev t (knot t (t.length - 1)) (m + 1) i k org
        = genD (bL t) t (knot t (t.length - 1)) (m + 1) k i := by
  intro m
  induction m with
  | zero =>
    intro k i org hik horg
    unfold bspldnev
    by_cases hc : (decide (k = 1) || decide (0 + 1 ≥ k)) = true
    · rw [if_pos hc]
      simp only [Bool.or_eq_true, decide_eq_true_eq] at hc
      exact (genD_high _ t _ 1 k i (by omega) (by omega)).symm
    · rw [if_neg hc]
      simp only [Bool.or_eq_true, decide_eq_true_eq, not_or] at hc
      obtain ⟨k', rfl⟩ : ∃ k', k = k' + 1 := ⟨k - 1, by omega⟩
      have e1 : i + (k' + 1) - 1 = i + k' := by omega
      have e2 : k' + 1 - 1 = k' := by omega
      have i1 : i + (k' + 1) = i + 1 + k' := by omega
      simp only [e1, e2, guard_div, guard_div_sub, ofInt_real, horg, if_true]
      rw [H.leaf_div k' i (by omega) (by omega)]
      have := H.leaf_div k' (i + 1) (by omega) (by omega)
      rw [← i1] at this
      rw [this]
      simp only [genD]; ring
  | succ m ih =>
    intro k i org hik horg
    unfold bspldnev
    by_cases hc : (decide (k = 1) || decide (m + 1 + 1 ≥ k)) = true
    · rw [if_pos hc]
      simp only [Bool.or_eq_true, decide_eq_true_eq] at hc
      exact (genD_high _ t _ (m + 1 + 1) k i (by omega) (by omega)).symm
    · rw [if_neg hc]
      simp only [Bool.or_eq_true, decide_eq_true_eq, not_or] at hc
      obtain ⟨k', rfl⟩ : ∃ k', k = k' + 1 := ⟨k - 1, by omega⟩
      have e1 : i + (k' + 1) - 1 = i + k' := by omega
      have e2 : k' + 1 - 1 = k' := by omega
      simp only [e1, e2, guard_div, guard_div_sub, ofInt_real, horg]
      rw [if_neg (by omega), ih k' i (some K) (by omega) rfl, ih k' (i + 1) (some K) (by omega) rfl]
      simp only [genD]; ring

theorem bspldnev_end (H : RightEnd t K) (m i : Nat) (hi : i + K < t.length) :
    bspldnev t (knot t (t.length - 1)) m i K none = genD (bL t) t (knot t (t.length - 1)) m K i := by
  cases m with
  | zero =>
    show bsplev t _ K i K = genB (bL t) t _ K i
    rw [H.bsplev_end K i H.hK hi (by omega), H.genB_bL_end K i H.hK hi]
  | succ m => exact H.bspldnev_end_succ m K i none hi rfl

end RightEnd

/-! ### the statements about the model alone -/

/-- RIGHT DERIVATIVES: at every point strictly before the last knot — interior knots of any multiplicity
and the left end point included — the order-`(m+1)` output of `bspldnev`, as a function of the
abscissa, is the right derivative of its order-`m` output. -/
theorem bspldnev_right_deriv (t : List ℝ) (hs : SortedKnots t) (x : ℝ) (hx : x < knot t (t.length - 1))
    (m k i : Nat) (org : Option Nat) (hik : i + k < t.length) :
    HasDerivWithinAt (fun y => bspldnev t y m i k org) (bspldnev t x (m + 1) i k org) (Ici x) x := by
  have h := genD_hasDeriv (bR t) t hs (Ici x) x (bR_hasDeriv t x) m k i hik
  rw [bspldnev_eq_genD t hs x hx (m + 1) k i org hik]
  refine h.congr_of_eventuallyEq ?_ (bspldnev_eq_genD t hs x hx m k i org hik)
  have : ∀ᶠ y in 𝓝[≥] x, y < knot t (t.length - 1) := nhdsWithin_le_nhds (Iio_mem_nhds hx)
  filter_upwards [this] with y hy
  exact bspldnev_eq_genD t hs y hy m k i org hik

/-- LEFT DERIVATIVES AT THE RIGHT END POINT: for a spline of order `K` whose last knot has multiplicity
`K`, the order-`(m+1)` output of `bspldnev` at the last knot is the LEFT derivative there of its
order-`m` output. -/
theorem bspldnev_left_deriv_end (t : List ℝ) (K : Nat) (H : RightEnd t K) (m i : Nat) (hi : i + K < t.length) :
    HasDerivWithinAt (fun y => bspldnev t y m i K none)
      (bspldnev t (knot t (t.length - 1)) (m + 1) i K none) (Iic (knot t (t.length - 1)))
      (knot t (t.length - 1)) := by
  have hlen := H.len
  have h := genD_hasDeriv (bL t) t H.sorted (Iic (knot t (t.length - 1))) (knot t (t.length - 1))
    (bL_hasDeriv t _) m K i hi
  rw [H.bspldnev_end (m + 1) i hi]
  refine h.congr_of_eventuallyEq ?_ (H.bspldnev_end m i hi)
  have : Ioc (knot t (t.length - K - 1)) (knot t (t.length - 1)) ∈ 𝓝[≤] (knot t (t.length - 1)) :=
    Ioc_mem_nhdsLE H.interior
  filter_upwards [this] with y hy
  rcases lt_or_eq_of_le hy.2 with hlt | heq
  · -- strictly inside the last span: not a knot, both representatives agree
    rw [bspldnev_eq_genD t H.sorted y hlt m K i none hi]
    symm
    apply genD_bL_eq_bR t y _ m K i hi
    intro j hj hjy
    by_cases hjs : j ≤ t.length - K - 1
    · have := H.sorted j (t.length - K - 1) hjs (by omega)
      have := hy.1
      linarith
    · have := H.at_end j (by omega) hj
      linarith
  · rw [heq]; exact H.bspldnev_end m i hi

end Rateslib
