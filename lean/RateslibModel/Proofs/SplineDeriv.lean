/-
The spline function `Σ c_i B_i` over ℝ: its one-sided derivatives; evaluation at dual-number abscissae
(first and second order, float and dual-number coefficients): chain rule and product rule at the level of
variable names; linearity of the float-matrix solver in second-order right-hand sides.
-/
import RateslibModel.Proofs.BSplineDeriv
import RateslibModel.Proofs.FLinearInst
import RateslibModel.Analysis.Refine2
namespace Rateslib
open Set Filter Topology

/-! ### the spline function over ℝ: sums, derivative -/

theorem fdot_real_scale (idx : List Nat) (c B : Nat → ℝ) (d : ℝ) :
    fdotOver (α := ℝ) (σ := ℝ) idx c (fun i => B i * d) = fdotOver (α := ℝ) (σ := ℝ) idx B c * d := by
  unfold fdotOver
  have key : ∀ (l : List Nat) (a : ℝ),
      l.foldl (fun acc m => ModOps.add (α := ℝ) acc (ModOps.smul (c m) (B m * d))) (a * d)
        = l.foldl (fun acc m => ModOps.add (α := ℝ) acc (ModOps.smul (B m) (c m))) a * d := by
    intro l
    induction l with
    | nil => intro a; rfl
    | cons m l ih =>
      intro a
      simp only [List.foldl_cons]
      have : ModOps.add (α := ℝ) (a * d) (ModOps.smul (c m) (B m * d))
          = (ModOps.add (α := ℝ) a (ModOps.smul (B m) (c m))) * d := by
        show a * d + c m * (B m * d) = (a + B m * c m) * d
        ring
      rw [this, ih]
  have := key idx 0
  rw [zero_mul] at this
  exact this

theorem fdot_real_comm (idx : List Nat) (c B : Nat → ℝ) :
    fdotOver (α := ℝ) (σ := ℝ) idx c B = fdotOver (α := ℝ) (σ := ℝ) idx B c := by
  have := fdot_real_scale idx c B 1
  simpa using this

theorem fdot_real_lin2 (idx : List Nat) (c B1 B2 : Nat → ℝ) (p q : ℝ) :
    fdotOver (α := ℝ) (σ := ℝ) idx c (fun i => B1 i * p + B2 i * q)
      = fdotOver (α := ℝ) (σ := ℝ) idx B1 c * p + fdotOver (α := ℝ) (σ := ℝ) idx B2 c * q := by
  unfold fdotOver
  have key : ∀ (l : List Nat) (a1 a2 : ℝ),
      l.foldl (fun acc m => ModOps.add (α := ℝ) acc (ModOps.smul (c m) (B1 m * p + B2 m * q))) (a1 * p + a2 * q)
        = l.foldl (fun acc m => ModOps.add (α := ℝ) acc (ModOps.smul (B1 m) (c m))) a1 * p
          + l.foldl (fun acc m => ModOps.add (α := ℝ) acc (ModOps.smul (B2 m) (c m))) a2 * q := by
    intro l
    induction l with
    | nil => intro a1 a2; rfl
    | cons m l ih =>
      intro a1 a2
      simp only [List.foldl_cons]
      have : ModOps.add (α := ℝ) (a1 * p + a2 * q) (ModOps.smul (c m) (B1 m * p + B2 m * q))
          = (ModOps.add (α := ℝ) a1 (ModOps.smul (B1 m) (c m))) * p
            + (ModOps.add (α := ℝ) a2 (ModOps.smul (B2 m) (c m))) * q := by
        show a1 * p + a2 * q + c m * (B1 m * p + B2 m * q) = (a1 + B1 m * c m) * p + (a2 + B2 m * c m) * q
        ring
      rw [this, ih]
  have := key idx 0 0
  simp only [zero_mul, add_zero] at this
  exact this

/-- a weighted sum of functions is differentiated term by term -/
theorem fdot_hasDeriv (S : Set ℝ) (x : ℝ) (idx : List Nat) (B : Nat → ℝ → ℝ) (B' : Nat → ℝ) (c : Nat → ℝ)
    (h : ∀ i ∈ idx, HasDerivWithinAt (B i) (B' i) S x) :
    HasDerivWithinAt (fun y => fdotOver (α := ℝ) (σ := ℝ) idx (fun i => B i y) c)
      (fdotOver (α := ℝ) (σ := ℝ) idx B' c) S x := by
  unfold fdotOver
  have key : ∀ (l : List Nat), (∀ i ∈ l, HasDerivWithinAt (B i) (B' i) S x) →
      ∀ (A : ℝ → ℝ) (A' : ℝ), HasDerivWithinAt A A' S x →
      HasDerivWithinAt
        (fun y => l.foldl (fun acc m => ModOps.add (α := ℝ) acc (ModOps.smul (B m y) (c m))) (A y))
        (l.foldl (fun acc m => ModOps.add (α := ℝ) acc (ModOps.smul (B' m) (c m))) A') S x := by
    intro l
    induction l with
    | nil => intro _ A A' hA; exact hA
    | cons m l ih =>
      intro hl A A' hA
      simp only [List.foldl_cons]
      apply ih (fun i hi => hl i (List.mem_cons_of_mem _ hi))
      show HasDerivWithinAt (fun y => A y + B m y * c m) (A' + B' m * c m) S x
      exact hA.add ((hl m (List.mem_cons_self ..)).mul_const (c m))
  exact key idx h (fun _ => ModOps.zero ℝ) (ModOps.zero ℝ) (hasDerivWithinAt_const _ _ _)

theorem ppdnev_real (s : PPSpline ℝ ℝ) (c : List ℝ) (hc : s.c = some c) (x : ℝ) (m : Nat) :
    s.ppdnev x m = some (fdotOver (α := ℝ) (σ := ℝ) (List.range s.n)
      (fun i => bspldnev s.t x m i s.k none) (fun i => c.getD i 0)) := by
  simp only [PPSpline.ppdnev, hc, Option.map_some]
  rfl

/-- THE SPLINE'S DERIVATIVES, from the right: strictly before the last knot, the order-`(m+1)` evaluation
of a solved spline is the right derivative of its order-`m` evaluation. -/
theorem ppdnev_right_deriv (s : PPSpline ℝ ℝ) (c : List ℝ) (hc : s.c = some c) (hs : SortedKnots s.t)
    (x : ℝ) (hx : x < knot s.t (s.t.length - 1)) (m : Nat) :
    ∃ (f : ℝ → ℝ) (f' : ℝ), (∀ y, s.ppdnev y m = some (f y)) ∧ s.ppdnev x (m + 1) = some f' ∧
      HasDerivWithinAt f f' (Ici x) x := by
  refine ⟨_, _, fun y => ppdnev_real s c hc y m, ppdnev_real s c hc x (m + 1), ?_⟩
  apply fdot_hasDeriv
  intro i hi
  rw [List.mem_range] at hi
  exact bspldnev_right_deriv s.t hs x hx m s.k i none (by unfold PPSpline.n at hi; omega)

/-- … and from the left at the right end point. -/
theorem ppdnev_left_deriv_end (s : PPSpline ℝ ℝ) (c : List ℝ) (hc : s.c = some c) (H : RightEnd s.t s.k)
    (m : Nat) :
    ∃ (f : ℝ → ℝ) (f' : ℝ), (∀ y, s.ppdnev y m = some (f y)) ∧
      s.ppdnev (knot s.t (s.t.length - 1)) (m + 1) = some f' ∧
      HasDerivWithinAt f f' (Iic (knot s.t (s.t.length - 1))) (knot s.t (s.t.length - 1)) := by
  refine ⟨_, _, fun y => ppdnev_real s c hc y m, ppdnev_real s c hc _ (m + 1), ?_⟩
  apply fdot_hasDeriv
  intro i hi
  rw [List.mem_range] at hi
  exact bspldnev_left_deriv_end s.t s.k H m i (by unfold PPSpline.n at hi; omega)

/-! ### dual-number abscissae, first order -/
open Rateslib.Dual in
/-- EVALUATION AT A DUAL-NUMBER ABSCISSA (float coefficients, first order): the result is well formed, its
value is the plain evaluation at the value of the abscissa, and its sensitivity to every variable name is
the spline's next derivative there times the abscissa's sensitivity to that name. -/
theorem ppdnevDualF_spec (s : PPSpline ℝ ℝ) (x : Dual ℝ) (hx : x.WF) (m : Nat) (v : String) :
    (∀ d, ppdnevDualF s x m = some d → d.WF) ∧
    (ppdnevDualF s x m).map (fun d => d.real) = s.ppdnev x.real m ∧
    (ppdnevDualF s x m).map (fun d => den d v) = (s.ppdnev x.real (m + 1)).map (fun S1 => S1 * den x v) := by
  cases hc : s.c with
  | none => simp [ppdnevDualF, PPSpline.ppdnev, hc]
  | some c =>
    have hform : ppdnevDualF s x m = some (fdotOver (α := ℝ) (σ := Dual ℝ) (List.range s.n)
        (fun i => c.getD i 0) (fun i => bspldnevDual s.t x i s.k m)) := by
      simp only [ppdnevDualF, hc, Option.map_some]; rfl
    have hg : ∀ i, (bspldnevDual s.t x i s.k m).WF := fun i => Expr.wf_scaleL x _ _ hx
    have h1 := fdot_hom (K := ℝ) real_modHom (fun i => c.getD i 0) (fun i => bspldnevDual s.t x i s.k m)
      (fun i => bspldnev s.t x.real m i s.k none) (fun i => ⟨hg i, rfl⟩) (List.range s.n)
    have h2 := fdot_hom (K := ℝ) (den_modHom v) (fun i => c.getD i 0) (fun i => bspldnevDual s.t x i s.k m)
      (fun i => bspldnev s.t x.real (m + 1) i s.k none * den x v)
      (fun i => ⟨hg i, den_scaleL x _ hx _ v⟩) (List.range s.n)
    rw [hform, ppdnev_real s c hc, ppdnev_real s c hc]
    refine ⟨fun d hd => ?_, ?_, ?_⟩
    · cases hd; exact h1.1
    · simp only [Option.map_some]; rw [h1.2, fdot_real_comm]
    · simp only [Option.map_some]; rw [h2.2, fdot_real_scale]

/-! ### second order -/

theorem real_modHom2 : ModHom (K := ℝ) (σ := Dual2 ℝ) (ρ := ℝ) (fun d => d.real) Dual2.WF := by
  refine ⟨⟨(new_const_spec 0).1, rfl⟩, ?_, ?_, ?_⟩
  · intro a b ha hb
    have S := Dual2.add_spec false a b ha hb (by simp)
    exact ⟨S.wf, S.real⟩
  · intro a b ha hb
    have S := Dual2.sub_spec false a b ha hb (by simp)
    exact ⟨S.wf, S.real⟩
  · intro c a ha
    have S := scaleL_spec a ha (a.real * c) c
    exact ⟨S.wf, by show a.real * c = c * a.real; ring⟩

theorem den_modHom2 (v : String) :
    ModHom (K := ℝ) (σ := Dual2 ℝ) (ρ := ℝ) (fun d => Dual2.den d v) Dual2.WF := by
  refine ⟨⟨(new_const_spec 0).1, (new_const_spec 0).2.2.1 v⟩, ?_, ?_, ?_⟩
  · intro a b ha hb
    have S := Dual2.add_spec false a b ha hb (by simp)
    exact ⟨S.wf, S.den v⟩
  · intro a b ha hb
    have S := Dual2.sub_spec false a b ha hb (by simp)
    exact ⟨S.wf, S.den v⟩
  · intro c a ha
    have S := scaleL_spec a ha (a.real * c) c
    exact ⟨S.wf, S.den v⟩

theorem den2_modHom (v w : String) :
    ModHom (K := ℝ) (σ := Dual2 ℝ) (ρ := ℝ) (fun d => Dual2.den2 d v w) Dual2.WF := by
  refine ⟨⟨(new_const_spec 0).1, (new_const_spec 0).2.2.2 v w⟩, ?_, ?_, ?_⟩
  · intro a b ha hb
    have S := Dual2.add_spec false a b ha hb (by simp)
    exact ⟨S.wf, S.den2 v w⟩
  · intro a b ha hb
    have S := Dual2.sub_spec false a b ha hb (by simp)
    exact ⟨S.wf, S.den2 v w⟩
  · intro c a ha
    have S := scaleL_spec a ha (a.real * c) c
    refine ⟨S.wf, ?_⟩
    have := S.den2 v w
    show Dual2.den2 (Dual2.mulF a c) v w = c * Dual2.den2 a v w
    simp only [Dual2.mulF]
    rw [this]; ring

/-- SOLVER, float matrix and SECOND-order right-hand side (list level, any layouts): values, first-order
and (half) second-order sensitivities of the answer are the answers for the values and sensitivities of
the data — the solver is linear in the right-hand side. -/
theorem fdsolve21_dual2_rhs (n : Nat) (a : Nat → Nat → ℝ) (b : Nat → Dual2 ℝ) (hb : ∀ i, (b i).WF)
    (v w : String) (r : Nat) :
    (fdsolve21 (α := ℝ) n ⟨a, b⟩ r).WF ∧
    (fdsolve21 (α := ℝ) n ⟨a, b⟩ r).real = fdsolve21 (α := ℝ) (σ := ℝ) n ⟨a, fun i => (b i).real⟩ r ∧
    Dual2.den (fdsolve21 (α := ℝ) n ⟨a, b⟩ r) v
      = fdsolve21 (α := ℝ) (σ := ℝ) n ⟨a, fun i => Dual2.den (b i) v⟩ r ∧
    Dual2.den2 (fdsolve21 (α := ℝ) n ⟨a, b⟩ r) v w
      = fdsolve21 (α := ℝ) (σ := ℝ) n ⟨a, fun i => Dual2.den2 (b i) v w⟩ r := by
  have h1 := fdsolve21_hom (K := ℝ) real_modHom2 n ⟨a, b⟩ ⟨a, fun i => (b i).real⟩ ⟨rfl, fun i => ⟨hb i, rfl⟩⟩ r
  have h2 := fdsolve21_hom (K := ℝ) (den_modHom2 v) n ⟨a, b⟩ ⟨a, fun i => Dual2.den (b i) v⟩
    ⟨rfl, fun i => ⟨hb i, rfl⟩⟩ r
  have h3 := fdsolve21_hom (K := ℝ) (den2_modHom v w) n ⟨a, b⟩ ⟨a, fun i => Dual2.den2 (b i) v w⟩
    ⟨rfl, fun i => ⟨hb i, rfl⟩⟩ r
  exact ⟨h1.1, h1.2, h2.2, h3.2⟩

/-- EVALUATION AT A SECOND-ORDER DUAL-NUMBER ABSCISSA (float coefficients): value, first-order
sensitivities `S'(x)·∂x`, and stored (half) second-order sensitivities `S'(x)·½∂²x + ½S''(x)·∂x∂x`
— the spline's own first and second derivatives. -/
theorem ppdnevDual2F_spec (s : PPSpline ℝ ℝ) (x : Dual2 ℝ) (hx : x.WF) (m : Nat) (v w : String) :
    (∀ d, ppdnevDual2F s x m = some d → d.WF) ∧
    (ppdnevDual2F s x m).map (fun d => d.real) = s.ppdnev x.real m ∧
    (ppdnevDual2F s x m).map (fun d => Dual2.den d v)
      = (s.ppdnev x.real (m + 1)).map (fun S1 => S1 * Dual2.den x v) ∧
    (∀ S1 S2, s.ppdnev x.real (m + 1) = some S1 → s.ppdnev x.real (m + 2) = some S2 →
      (ppdnevDual2F s x m).map (fun d => Dual2.den2 d v w)
        = some (S1 * Dual2.den2 x v w + S2 * (1 / 2 * (Dual2.den x v * Dual2.den x w)))) := by
  cases hc : s.c with
  | none => simp [ppdnevDual2F, PPSpline.ppdnev, hc]
  | some c =>
    have hform : ppdnevDual2F s x m = some (fdotOver (α := ℝ) (σ := Dual2 ℝ) (List.range s.n)
        (fun i => c.getD i 0) (fun i => bspldnevDual2 s.t x i s.k m)) := by
      simp only [ppdnevDual2F, hc, Option.map_some]; rfl
    have hsp : ∀ i, ChainSpec x (bspldnevDual2 s.t x i s.k m) (bspldnev s.t x.real m i s.k none)
        (bspldnev s.t x.real (m + 1) i s.k none) (half * bspldnev s.t x.real (m + 2) i s.k none) :=
      fun i => cdf_shape_spec x hx _ _ _
    have h1 := fdot_hom (K := ℝ) real_modHom2 (fun i => c.getD i 0) (fun i => bspldnevDual2 s.t x i s.k m)
      (fun i => bspldnev s.t x.real m i s.k none) (fun i => ⟨(hsp i).wf, (hsp i).real⟩) (List.range s.n)
    have h2 := fdot_hom (K := ℝ) (den_modHom2 v) (fun i => c.getD i 0) (fun i => bspldnevDual2 s.t x i s.k m)
      (fun i => bspldnev s.t x.real (m + 1) i s.k none * Dual2.den x v)
      (fun i => ⟨(hsp i).wf, (hsp i).den v⟩) (List.range s.n)
    have h3 := fdot_hom (K := ℝ) (den2_modHom v w) (fun i => c.getD i 0) (fun i => bspldnevDual2 s.t x i s.k m)
      (fun i => bspldnev s.t x.real (m + 1) i s.k none * Dual2.den2 x v w
        + bspldnev s.t x.real (m + 2) i s.k none * (1 / 2 * (Dual2.den x v * Dual2.den x w)))
      (fun i => ⟨(hsp i).wf, by rw [(hsp i).den2 v w]; simp only [half]; ring⟩) (List.range s.n)
    rw [hform, ppdnev_real s c hc, ppdnev_real s c hc, ppdnev_real s c hc]
    refine ⟨fun d hd => ?_, ?_, ?_, ?_⟩
    · cases hd; exact h1.1
    · simp only [Option.map_some]; rw [h1.2, fdot_real_comm]
    · simp only [Option.map_some]; rw [h2.2, fdot_real_scale]
    · intro S1 S2 e1 e2
      cases e1; cases e2
      simp only [Option.map_some]; rw [h3.2, fdot_real_lin2]


/-! ### dual-number coefficients AND dual-number abscissa (first order) -/
section DualCoeff
open Rateslib.Dual

/-- the sum `Σ c_i · b_i` of products of first-order numbers, as the code folds it -/
theorem dmul11_spec (c b : Nat → Dual ℝ) (hc : ∀ i, (c i).WF) (hb : ∀ i, (b i).WF) (v : String) :
    ∀ (idx : List Nat) (acc : Dual ℝ), acc.WF →
      let r := idx.foldl (fun acc i => Dual.add false acc (Dual.mul false (c i) (b i))) acc
      r.WF ∧ r.real = idx.foldl (fun a i => a + (c i).real * (b i).real) acc.real ∧
      den r v = idx.foldl (fun a i => a + (den (c i) v * (b i).real + den (b i) v * (c i).real)) (den acc v) := by
  intro idx
  induction idx with
  | nil => intro acc h; exact ⟨h, rfl, rfl⟩
  | cons i idx ih =>
    intro acc hacc
    simp only [List.foldl_cons]
    have M := mul_spec false (c i) (b i) (hc i) (hb i) (by simp)
    have A := add_spec false acc _ hacc M.wf (by simp)
    have := ih _ A.wf
    simp only at this
    rw [A.real, A.den v, M.real, M.den v] at this
    exact this

theorem foldl_split (idx : List Nat) (dc cr B B' : Nat → ℝ) (dx : ℝ) : ∀ (a1 a2 : ℝ),
    idx.foldl (fun a i => a + (dc i * B i + (B' i * dx) * cr i)) (a1 + a2 * dx)
      = idx.foldl (fun a i => a + B i * dc i) a1 + idx.foldl (fun a i => a + B' i * cr i) a2 * dx := by
  induction idx with
  | nil => intro a1 a2; rfl
  | cons i idx ih =>
    intro a1 a2
    simp only [List.foldl_cons]
    have : a1 + a2 * dx + (dc i * B i + (B' i * dx) * cr i) = (a1 + B i * dc i) + (a2 + B' i * cr i) * dx := by ring
    rw [this, ih]

theorem foldl_comm_mul (idx : List Nat) (cr B : Nat → ℝ) : ∀ (a : ℝ),
    idx.foldl (fun a i => a + cr i * B i) a = idx.foldl (fun a i => a + B i * cr i) a := by
  induction idx with
  | nil => intro a; rfl
  | cons i idx ih => intro a; simp only [List.foldl_cons]; rw [mul_comm, ih]

/-- EVALUATION AT A DUAL-NUMBER ABSCISSA OF A SPLINE WITH DUAL-NUMBER COEFFICIENTS (first order): the value
is the value-spline's evaluation; the sensitivity to a name `v` is the evaluation of the spline whose
coefficients are the coefficients' sensitivities to `v`, PLUS the value-spline's next derivative times the
abscissa's sensitivity to `v` — product rule and chain rule together. -/
theorem ppdnevDualD_spec (s : PPSpline ℝ (Dual ℝ)) (c : List (Dual ℝ)) (hc : s.c = some c)
    (hwf : ∀ d ∈ c, d.WF) (x : Dual ℝ) (hx : x.WF) (m : Nat) (v : String) :
    ∃ d, ppdnevDualD s x m = some d ∧ d.WF ∧
      some d.real = (⟨s.k, s.t, some (c.map fun d => d.real)⟩ : PPSpline ℝ ℝ).ppdnev x.real m ∧
      ∃ A B, (⟨s.k, s.t, some (c.map fun d => den d v)⟩ : PPSpline ℝ ℝ).ppdnev x.real m = some A ∧
        (⟨s.k, s.t, some (c.map fun d => d.real)⟩ : PPSpline ℝ ℝ).ppdnev x.real (m + 1) = some B ∧
        den d v = A + B * den x v := by
  have hz : (Dual.new (0 : ℝ) []).WF := Expr.wf_new' 0 []
  have hzd : den (Dual.new (0 : ℝ) []) v = 0 :=
    lookup_not_mem _ _ _ (by show v ∉ (Dual.new (0 : ℝ) []).vars; simp [Dual.new, dedup])
  have hcw : ∀ i, (c.getD i (Dual.new 0 [])).WF := by
    intro i
    rw [List.getD_eq_getElem?_getD]
    cases hi : c[i]? with
    | none => exact hz
    | some d => exact hwf d (List.mem_of_getElem? hi)
  have hb : ∀ i, (bspldnevDual s.t x i s.k m).WF := fun i => Expr.wf_scaleL x _ _ hx
  have S := dmul11_spec (fun i => c.getD i (Dual.new 0 [])) (fun i => bspldnevDual s.t x i s.k m) hcw hb v
    (List.range s.n) (Dual.new 0 []) hz
  simp only at S
  refine ⟨_, by simp only [ppdnevDualD, hc, Option.map_some], S.1, ?_, ?_⟩
  · rw [ppdnev_real _ (c.map fun d => d.real) rfl, S.2.1]
    congr 1
    show _ = (List.range (PPSpline.n _)).foldl _ _
    have e : ∀ i, (c.map fun d : Dual ℝ => d.real).getD i 0 = (c.getD i (Dual.new 0 [])).real :=
      fun i => getD_map_hom (fun d : Dual ℝ => d.real) (Dual.new 0 []) 0 rfl c i
    simp only [e]
    exact foldl_comm_mul _ _ _ _
  · refine ⟨_, _, ppdnev_real _ (c.map fun d => den d v) rfl _ _, ppdnev_real _ (c.map fun d => d.real) rfl _ _, ?_⟩
    rw [S.2.2, hzd]
    have e1 : ∀ i, (c.map fun d : Dual ℝ => d.real).getD i 0 = (c.getD i (Dual.new 0 [])).real :=
      fun i => getD_map_hom (fun d : Dual ℝ => d.real) (Dual.new 0 []) 0 rfl c i
    have e2 : ∀ i, (c.map fun d : Dual ℝ => den d v).getD i 0 = den (c.getD i (Dual.new 0 [])) v :=
      fun i => getD_map_hom (fun d : Dual ℝ => den d v) (Dual.new 0 []) 0 hzd c i
    have hden : ∀ i, den (bspldnevDual s.t x i s.k m) v = bspldnev s.t x.real (m + 1) i s.k none * den x v :=
      fun i => den_scaleL x _ hx _ v
    simp only [hden]
    have := foldl_split (List.range s.n) (fun i => den (c.getD i (Dual.new 0 [])) v)
      (fun i => (c.getD i (Dual.new 0 [])).real) (fun i => bspldnev s.t x.real m i s.k none)
      (fun i => bspldnev s.t x.real (m + 1) i s.k none) (den x v) 0 0
    simp only [zero_mul, add_zero] at this
    show _ = fdotOver (α := ℝ) (σ := ℝ) _ _ _ + fdotOver (α := ℝ) (σ := ℝ) _ _ _ * _
    simp only [e1, e2]
    exact this

end DualCoeff


/-! ### sensitivities to second-order data -/

/-- `spline_hom` for any right-hand-side type: applying a module homomorphism to the evaluated spline
gives the spline solved on the mapped data (square systems) -/
theorem spline_homG {σ : Type} [ModOps ℝ σ] (φ : σ → ℝ) (G : σ → Prop) (H : ModHom (K := ℝ) φ G)
    (k : Nat) (t tau : List ℝ) (y : List σ) (hy : ∀ d ∈ y, G d) (l r : Nat)
    (sD' : PPSpline ℝ σ) (h : (⟨k, t, none⟩ : PPSpline ℝ σ).csolve tau y l r false = some sD') :
    ∃ sF' : PPSpline ℝ ℝ, (⟨k, t, none⟩ : PPSpline ℝ ℝ).csolve tau (y.map φ) l r false = some sF' ∧
      ∀ x m, (sD'.ppdnev x m).map φ = sF'.ppdnev x m := by
  have hz : φ (ModOps.zero ℝ) = (0 : ℝ) := H.zero.2
  rw [csolve_square] at h ⊢
  rw [List.length_map]
  by_cases hc : tau.length = t.length - k ∧ tau.length = y.length
  · rw [if_pos hc] at h ⊢
    injection h with h
    subst h
    refine ⟨_, rfl, ?_⟩
    intro x m
    simp only [PPSpline.ppdnev, PPSpline.n, Option.map_some]
    congr 1
    have hyG : ∀ i, G (y.getD i (ModOps.zero ℝ)) := by
      intro i
      rw [List.getD_eq_getElem?_getD]
      cases hi : y[i]? with
      | none => exact H.zero.1
      | some d => exact hy d (List.mem_of_getElem? hi)
    have hrel : FRel φ G
        (⟨bsplMatrix k t (t.length - k) tau l r, fun i => y.getD i (ModOps.zero ℝ)⟩ : FSys ℝ σ)
        (⟨bsplMatrix k t (t.length - k) tau l r, fun i => (y.map φ).getD i (ModOps.zero ℝ)⟩ : FSys ℝ ℝ) :=
      ⟨rfl, fun i => ⟨hyG i, (getD_map_hom φ _ _ hz y i).symm⟩⟩
    have hsol := fdsolve21_hom (K := ℝ) H (t.length - k) _ _ hrel
    apply (fdot_hom H _ _ _ _ _).2
    intro i
    rw [getD_map_range, getD_map_range]
    by_cases hi : i < t.length - k
    · rw [if_pos hi, if_pos hi]; exact hsol i
    · rw [if_neg hi, if_neg hi]; exact H.zero
  · rw [if_neg hc] at h; cases h

end Rateslib
