import RateslibModel.Proofs.BusDays
namespace Rateslib
namespace DR

variable (c : DR)

/-- business days among `s, s+1, …, s+k-1`, in order -/
def busIn (s : Int) : Nat → List Int
  | 0 => []
  | k + 1 => (if c.isBus s then [s] else []) ++ busIn (s + 1) k

theorem calDateRange_filter (s : Int) : ∀ k : Nat,
    ((List.range k).map (fun (i : Nat) => s + (i : Int))).filter c.isBus = c.busIn s k := by
  intro k
  induction k generalizing s with
  | zero => rfl
  | succ k ih =>
    rw [List.range_succ_eq_map, List.map_cons, List.map_map, busIn, ← ih (s + 1)]
    have : ((fun (i : Nat) => s + (i : Int)) ∘ Nat.succ) = (fun (i : Nat) => s + 1 + (i : Int)) := by
      funext i; simp only [Function.comp]; omega
    rw [this]
    simp only [Int.add_zero, Int.natCast_zero]
    by_cases h : c.isBus s = true
    · simp [h]
    · simp [h]

theorem filter_calDateRange (s e : Int) :
    (calDateRange s e).filter c.isBus = c.busIn s (e - s + 1).toNat := by
  unfold calDateRange
  exact c.calDateRange_filter s _

theorem busIn_nil (a : Int) : ∀ k : Nat, (∀ x, a ≤ x → x < a + (k : Int) → c.isBus x = false) →
    c.busIn a k = [] := by
  intro k
  induction k generalizing a with
  | zero => intro _; rfl
  | succ k ih =>
    intro h
    rw [busIn, h a (by omega) (by omega), ih (a + 1) (fun x h1 h2 => h x (by omega) (by omega))]
    simp

theorem busIn_drop (a : Int) (k : Nat) : ∀ j : Nat,
    (∀ x, a ≤ x → x < a + (j : Int) → c.isBus x = false) →
    c.busIn a (j + k) = c.busIn (a + (j : Int)) k := by
  intro j
  induction j generalizing a with
  | zero => intro _; simp
  | succ j ih =>
    intro h
    have : j + 1 + k = (j + k) + 1 := by omega
    rw [this, busIn, h a (by omega) (by omega), ih (a + 1) (fun x h1 h2 => h x (by omega) (by omega))]
    have : a + 1 + (j : Int) = a + ((j + 1 : Nat) : Int) := by omega
    rw [this]; simp

theorem busRangeLoop_spec (fuel : Nat) (e : Int) : ∀ (f : Nat) (s : Int) (acc l : List Int),
    c.isBus s = true → c.busRangeLoop fuel e f s acc = some l →
    l = acc ++ c.busIn s (e - s + 1).toNat := by
  intro f
  induction f with
  | zero => intro s acc l _ h; simp [busRangeLoop] at h
  | succ f ih =>
    intro s acc l hs h
    unfold busRangeLoop at h
    by_cases hle : s ≤ e
    · rw [if_pos hle] at h
      cases hr : c.rollFwd fuel (s + 1) with
      | none => rw [hr] at h; cases h
      | some s' =>
        rw [hr] at h
        obtain ⟨a1, _, a3, a4⟩ := c.rollFwd_some fuel (s + 1) s' hr
        have := ih s' (acc ++ [s]) l a3 h
        rw [this]
        have hk : (e - s + 1).toNat = (e - s).toNat + 1 := by omega
        rw [hk, busIn, hs]
        simp only [if_true, List.append_assoc, List.cons_append, List.nil_append]
        congr 2
        by_cases hs' : s' ≤ e + 1
        · have hj : (e - s).toNat = (s' - (s + 1)).toNat + (e - s' + 1).toNat := by omega
          rw [hj, c.busIn_drop (s + 1) _ _ (fun x h1 h2 => a4 x h1 (by omega))]
          have : s + 1 + ((s' - (s + 1)).toNat : Int) = s' := by omega
          rw [this]
        · have h0 : (e - s' + 1).toNat = 0 := by omega
          rw [h0, busIn, c.busIn_nil (s + 1) _ (fun x h1 h2 => a4 x h1 (by omega))]
    · rw [if_neg hle] at h
      cases h
      have h0 : (e - s + 1).toNat = 0 := by omega
      rw [h0, busIn]; simp

end DR
end Rateslib
