/-
Linearity of the float-matrix solver `fdsolve21` in its right-hand side: it commutes with every map of
right-hand-side types that respects the module operations.  Instantiated (Props/C13, C15) with the
per-name derivative `den · v` and the value projection on list-level dual numbers.
-/
import RateslibModel.Model.Linalg
set_option linter.unusedSectionVars false
set_option linter.unusedVariables false
namespace Rateslib

/-- a map between two right-hand-side types of the float-matrix solver that respects the module
operations on a set `G` of well-formed elements closed under them -/
structure ModHom {K σ ρ : Type} [ModOps K σ] [ModOps K ρ] (φ : σ → ρ) (G : σ → Prop) : Prop where
  zero : G (ModOps.zero K) ∧ φ (ModOps.zero K) = ModOps.zero K
  add : ∀ a b, G a → G b → G (ModOps.add (α := K) a b) ∧ φ (ModOps.add (α := K) a b) = ModOps.add (α := K) (φ a) (φ b)
  sub : ∀ a b, G a → G b → G (ModOps.sub (α := K) a b) ∧ φ (ModOps.sub (α := K) a b) = ModOps.sub (α := K) (φ a) (φ b)
  smul : ∀ (c : K) a, G a → G (ModOps.smul c a) ∧ φ (ModOps.smul c a) = ModOps.smul c (φ a)

section
variable {K σ ρ : Type} [LinOps K] [OfNat K 1] [ModOps K σ] [ModOps K ρ] (φ : σ → ρ) (G : σ → Prop)

/-- same matrix, right-hand sides related by `φ` -/
def FRel (s : FSys K σ) (s' : FSys K ρ) : Prop := s.a = s'.a ∧ ∀ i, G (s.b i) ∧ φ (s.b i) = s'.b i

variable {φ G}

theorem frel_swap (H : ModHom (K := K) φ G) (s : FSys K σ) (s' : FSys K ρ) (h : FRel φ G s s') (j k : Nat) :
    FRel φ G (fswapRows s j k) (fswapRows s' j k) := by
  obtain ⟨ha, hb⟩ := h
  refine ⟨by simp only [fswapRows, ha], fun i => ?_⟩
  simp only [fswapRows]
  split
  · exact hb k
  · split
    · exact hb j
    · exact hb i

theorem frel_elimRow (H : ModHom (K := K) φ G) (n j : Nat) (s : FSys K σ) (s' : FSys K ρ) (h : FRel φ G s s')
    (l : Nat) : FRel φ G (felimRow n j s l) (felimRow n j s' l) := by
  obtain ⟨ha, hb⟩ := h
  refine ⟨by simp only [felimRow, ha], fun i => ?_⟩
  simp only [felimRow, ha]
  split
  · have s1 := H.smul (LinOps.div (s'.a l j) (s'.a j j)) (s.b j) (hb j).1
    have s2 := H.sub (s.b l) _ (hb l).1 s1.1
    exact ⟨s2.1, by rw [s2.2, s1.2, (hb l).2, (hb j).2]⟩
  · exact hb i

theorem frel_foldl_elimRow (H : ModHom (K := K) φ G) (n j : Nat) : ∀ (ls : List Nat) (s : FSys K σ) (s' : FSys K ρ),
    FRel φ G s s' → FRel φ G (ls.foldl (felimRow n j) s) (ls.foldl (felimRow n j) s') := by
  intro ls
  induction ls with
  | nil => intro s s' h; exact h
  | cons l ls ih => intro s s' h; exact ih _ _ (frel_elimRow H n j s s' h l)

theorem frel_elimStep (H : ModHom (K := K) φ G) (n : Nat) (s : FSys K σ) (s' : FSys K ρ) (h : FRel φ G s s')
    (j : Nat) : FRel φ G (felimStep n s j) (felimStep n s' j) := by
  unfold felimStep
  simp only
  apply frel_foldl_elimRow H
  rw [h.1]
  split
  · exact frel_swap H s s' h _ _
  · exact h

theorem frel_forward (H : ModHom (K := K) φ G) (n : Nat) : ∀ (js : List Nat) (s : FSys K σ) (s' : FSys K ρ),
    FRel φ G s s' → FRel φ G (js.foldl (felimStep n) s) (js.foldl (felimStep n) s') := by
  intro js
  induction js with
  | nil => intro s s' h; exact h
  | cons j js ih => intro s s' h; exact ih _ _ (frel_elimStep H n s s' h j)

theorem fdot_hom_aux (H : ModHom (K := K) φ G) (f : Nat → K) (g : Nat → σ) (g' : Nat → ρ)
    (hg : ∀ i, G (g i) ∧ φ (g i) = g' i) : ∀ (idx : List Nat) (acc : σ) (acc' : ρ), G acc → φ acc = acc' →
    G (idx.foldl (fun acc m => ModOps.add (α := K) acc (ModOps.smul (f m) (g m))) acc) ∧
    φ (idx.foldl (fun acc m => ModOps.add (α := K) acc (ModOps.smul (f m) (g m))) acc)
      = idx.foldl (fun acc m => ModOps.add (α := K) acc (ModOps.smul (f m) (g' m))) acc' := by
  intro idx
  induction idx with
  | nil => intro acc acc' h1 h2; exact ⟨h1, h2⟩
  | cons m ms ih =>
    intro acc acc' h1 h2
    simp only [List.foldl_cons]
    have s1 := H.smul (f m) (g m) (hg m).1
    have a1 := H.add acc _ h1 s1.1
    exact ih _ _ a1.1 (by rw [a1.2, s1.2, h2, (hg m).2])

theorem fdot_hom (H : ModHom (K := K) φ G) (f : Nat → K) (g : Nat → σ) (g' : Nat → ρ)
    (hg : ∀ i, G (g i) ∧ φ (g i) = g' i) (idx : List Nat) :
    G (fdotOver idx f g) ∧ φ (fdotOver idx f g) = fdotOver idx f g' :=
  fdot_hom_aux H f g g' hg idx _ _ H.zero.1 H.zero.2

theorem frel_back (H : ModHom (K := K) φ G) (n : Nat) (s : FSys K σ) (s' : FSys K ρ) (h : FRel φ G s s') :
    ∀ r, G (fbackSubst n s r) ∧ φ (fbackSubst n s r) = fbackSubst n s' r := by
  unfold fbackSubst
  generalize (List.range n).reverse = idx
  have base : ∀ r : Nat, G ((fun _ => ModOps.zero K : Nat → σ) r) ∧
      φ ((fun _ => ModOps.zero K : Nat → σ) r) = (fun _ => ModOps.zero K : Nat → ρ) r := fun _ => H.zero
  revert base
  generalize (fun _ => ModOps.zero K : Nat → σ) = x0
  generalize (fun _ => ModOps.zero K : Nat → ρ) = x0'
  intro base
  induction idx generalizing x0 x0' with
  | nil => exact base
  | cons i is ih =>
    simp only [List.foldl_cons]
    apply ih
    intro r
    split
    · have d := fdot_hom H (s.a i) x0 x0' base (List.range' (i + 1) (n - (i + 1)))
      have s1 := H.sub (s.b i) _ (h.2 i).1 d.1
      have s2 := H.smul (LinOps.div (1 : K) (s.a i i)) _ s1.1
      refine ⟨s2.1, ?_⟩
      rw [s2.2, s1.2, (h.2 i).2, d.2, h.1]
    · exact base r

/-- LINEARITY OF THE FLOAT-MATRIX SOLVER IN ITS RIGHT-HAND SIDE: for every map `φ` of right-hand-side
types that respects the module operations (on the well-formed elements), solving and then applying `φ`
equals applying `φ` to the data and then solving with the SAME matrix. -/
theorem fdsolve21_hom (H : ModHom (K := K) φ G) (n : Nat) (s : FSys K σ) (s' : FSys K ρ) (h : FRel φ G s s') :
    ∀ r, G (fdsolve21 n s r) ∧ φ (fdsolve21 n s r) = fdsolve21 n s' r := by
  unfold fdsolve21 fforwardElim
  exact frel_back H n _ _ (frel_forward H n _ s s' h)

end
end Rateslib
