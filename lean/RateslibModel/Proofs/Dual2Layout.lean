/-
Name-indexed semantics of SECOND-order dual numbers: `den d n` (derivative by name), `den2 d n w`
(stored, i.e. half, second derivative by pair of names), the shape invariant `WF`, and the refinement
lemmas: alignment changes nothing name by name, and `+`, `−`, `×` act name by name (sum, difference,
product rule with the symmetrised cross term) whatever the stored layout and storage sharing.
-/
import RateslibModel.Proofs.DualOps
namespace Rateslib

section Lookup2
variable {α : Type} [OfNat α 0]

/-- an `k × k` matrix stored as a list of rows -/
def MShape (k : Nat) (m : List (List α)) : Prop := m.length = k ∧ ∀ r ∈ m, r.length = k

theorem lookup2_not_mem_left (vars : List String) (m : List (List α)) (n w : String) (h : n ∉ vars) :
    lookup2OrZero vars m n w = 0 := by
  unfold lookup2OrZero
  rw [List.idxOf?_eq_none_iff.2 h]

theorem lookup2_not_mem_right (vars : List String) (m : List (List α)) (n w : String) (h : w ∉ vars) :
    lookup2OrZero vars m n w = 0 := by
  unfold lookup2OrZero
  rw [List.idxOf?_eq_none_iff.2 h]
  cases vars.idxOf? n <;> rfl

theorem lookup2_idx (vars : List String) (m : List (List α)) (n w : String) (i j : Nat)
    (hi : vars.idxOf? n = some i) (hj : vars.idxOf? w = some j) :
    lookup2OrZero vars m n w = (m.getD i []).getD j 0 := by
  unfold lookup2OrZero; rw [hi, hj]

theorem lookup2_map_names (nv : List String) (f : String → String → α) (n w : String)
    (hn : n ∈ nv) (hw : w ∈ nv) :
    lookup2OrZero nv (nv.map (fun v => nv.map (fun u => f v u))) n w = f n w := by
  obtain ⟨i, hi, hilt, hiv⟩ := idxOf_of_mem nv n hn
  obtain ⟨j, hj, hjlt, hjv⟩ := idxOf_of_mem nv w hw
  rw [lookup2_idx _ _ _ _ _ _ hi hj]
  simp only [List.getD_eq_getElem?_getD, List.getElem?_map, List.getElem?_eq_getElem hilt,
    List.getElem?_eq_getElem hjlt, Option.map_some, Option.getD_some, hiv, hjv]

omit [OfNat α 0] in
theorem mshape_row (k : Nat) (m : List (List α)) (h : MShape k m) (i : Nat) (hi : i < k) :
    ∃ hi' : i < m.length, (m[i]).length = k :=
  ⟨by rw [h.1]; exact hi, h.2 _ (List.getElem_mem _)⟩

theorem lookup2_zipWith (vars : List String) (m1 m2 : List (List α)) (f : α → α → α) (n w : String)
    (h1 : MShape vars.length m1) (h2 : MShape vars.length m2) (hn : n ∈ vars) (hw : w ∈ vars) :
    lookup2OrZero vars (List.zipWith (List.zipWith f) m1 m2) n w
      = f (lookup2OrZero vars m1 n w) (lookup2OrZero vars m2 n w) := by
  obtain ⟨i, hi, hilt, _⟩ := idxOf_of_mem vars n hn
  obtain ⟨j, hj, hjlt, _⟩ := idxOf_of_mem vars w hw
  obtain ⟨a1, r1⟩ := mshape_row _ m1 h1 i hilt
  obtain ⟨a2, r2⟩ := mshape_row _ m2 h2 i hilt
  rw [lookup2_idx _ _ _ _ _ _ hi hj, lookup2_idx _ _ _ _ _ _ hi hj, lookup2_idx _ _ _ _ _ _ hi hj]
  simp only [List.getD_eq_getElem?_getD, List.getElem?_zipWith, List.getElem?_eq_getElem a1,
    List.getElem?_eq_getElem a2, Option.getD_some,
    List.getElem?_eq_getElem (show j < (m1[i]).length by omega),
    List.getElem?_eq_getElem (show j < (m2[i]).length by omega)]

theorem lookup2_map (vars : List String) (m : List (List α)) (g : α → α) (n w : String)
    (h : MShape vars.length m) (hn : n ∈ vars) (hw : w ∈ vars) :
    lookup2OrZero vars (m.map (fun r => r.map g)) n w = g (lookup2OrZero vars m n w) := by
  obtain ⟨i, hi, hilt, _⟩ := idxOf_of_mem vars n hn
  obtain ⟨j, hj, hjlt, _⟩ := idxOf_of_mem vars w hw
  obtain ⟨a1, r1⟩ := mshape_row _ m h i hilt
  rw [lookup2_idx _ _ _ _ _ _ hi hj, lookup2_idx _ _ _ _ _ _ hi hj]
  simp only [List.getD_eq_getElem?_getD, List.getElem?_map, List.getElem?_eq_getElem a1,
    Option.map_some, Option.getD_some, List.getElem?_eq_getElem (show j < (m[i]).length by omega)]

theorem lookup2_transpose (vars : List String) (m : List (List α)) (n w : String)
    (h : MShape vars.length m) (hn : n ∈ vars) (hw : w ∈ vars) :
    lookup2OrZero vars (transposeM vars.length m) n w = lookup2OrZero vars m w n := by
  obtain ⟨i, hi, hilt, _⟩ := idxOf_of_mem vars n hn
  obtain ⟨j, hj, hjlt, _⟩ := idxOf_of_mem vars w hw
  obtain ⟨a1, r1⟩ := mshape_row _ m h j hjlt
  rw [lookup2_idx _ _ _ _ _ _ hi hj, lookup2_idx _ _ _ _ _ _ hj hi]
  unfold transposeM
  simp only [List.getD_eq_getElem?_getD, List.getElem?_map, List.getElem?_range hilt,
    Option.map_some, Option.getD_some, List.getElem?_eq_getElem a1]

end Lookup2

section Outer
variable {α : Type} [CommRing α]

theorem lookup2_outer (vars : List String) (a b : List α) (n w : String)
    (ha : a.length = vars.length) (hb : b.length = vars.length) (hn : n ∈ vars) (hw : w ∈ vars) :
    lookup2OrZero vars (outer a b) n w = lookupOrZero vars a n * lookupOrZero vars b w := by
  obtain ⟨i, hi, hilt, _⟩ := idxOf_of_mem vars n hn
  obtain ⟨j, hj, hjlt, _⟩ := idxOf_of_mem vars w hw
  rw [lookup2_idx _ _ _ _ _ _ hi hj, lookup_idx _ _ _ _ hi, lookup_idx _ _ _ _ hj]
  unfold outer
  simp only [List.getD_eq_getElem?_getD, List.getElem?_map,
    List.getElem?_eq_getElem (show i < a.length by omega),
    List.getElem?_eq_getElem (show j < b.length by omega), Option.map_some, Option.getD_some]

theorem mshape_outer (k : Nat) (a b : List α) (ha : a.length = k) (hb : b.length = k) :
    MShape k (outer a b) := by
  unfold outer
  refine ⟨by simp [ha], ?_⟩
  intro r hr
  simp only [List.mem_map] at hr
  obtain ⟨x, _, rfl⟩ := hr
  simp [hb]

end Outer

namespace Dual2
variable {α : Type}

/-- shape invariant of a second-order number -/
def WF (d : Dual2 α) : Prop :=
  d.vars.Nodup ∧ d.dual.length = d.vars.length ∧ d.dual2.length = d.vars.length ∧
    ∀ r ∈ d.dual2, r.length = d.vars.length

variable [OfNat α 0]

/-- first and (stored, i.e. half) second derivative by NAME -/
def den (d : Dual2 α) (n : String) : α := lookupOrZero d.vars d.dual n
def den2 (d : Dual2 α) (n m : String) : α := lookup2OrZero d.vars d.dual2 n m

omit [OfNat α 0] in
theorem WF.mshape {d : Dual2 α} (h : d.WF) : MShape d.vars.length d.dual2 := ⟨h.2.2.1, h.2.2.2⟩

theorem toNewVars_eq (d : Dual2 α) (nv : List String) (st : VarsRel) (hst : st ≠ .arcEq ∧ st ≠ .valEq) :
    d.toNewVars nv st = ⟨d.real, nv, nv.map (lookupOrZero d.vars d.dual),
      nv.map (fun v => nv.map (fun w => lookup2OrZero d.vars d.dual2 v w))⟩ := by
  cases st <;> simp_all [toNewVars]

theorem den_toNewVars_lookup (d : Dual2 α) (nv : List String) (st : VarsRel)
    (hst : st ≠ .arcEq ∧ st ≠ .valEq) (n : String) :
    den (d.toNewVars nv st) n = if n ∈ nv then den d n else 0 := by
  rw [toNewVars_eq d nv st hst]
  unfold den
  by_cases h : n ∈ nv
  · rw [if_pos h]; exact lookup_map_names nv _ n h
  · rw [if_neg h]; exact lookup_not_mem _ _ _ h

theorem den2_toNewVars_lookup (d : Dual2 α) (nv : List String) (st : VarsRel)
    (hst : st ≠ .arcEq ∧ st ≠ .valEq) (n w : String) :
    den2 (d.toNewVars nv st) n w = if n ∈ nv ∧ w ∈ nv then den2 d n w else 0 := by
  rw [toNewVars_eq d nv st hst]
  unfold den2
  by_cases h : n ∈ nv ∧ w ∈ nv
  · rw [if_pos h]; exact lookup2_map_names nv _ n w h.1 h.2
  · rw [if_neg h]
    by_cases hn : n ∈ nv
    · exact lookup2_not_mem_right _ _ _ _ (fun hw => h ⟨hn, hw⟩)
    · exact lookup2_not_mem_left _ _ _ _ hn

theorem wf_toNewVars_lookup (d : Dual2 α) (nv : List String) (st : VarsRel)
    (hst : st ≠ .arcEq ∧ st ≠ .valEq) (hn : nv.Nodup) :
    (d.toNewVars nv st).WF ∧ (d.toNewVars nv st).vars = nv ∧ (d.toNewVars nv st).real = d.real := by
  rw [toNewVars_eq d nv st hst]
  refine ⟨⟨hn, by simp, by simp, ?_⟩, rfl, rfl⟩
  intro r hr
  simp only [List.mem_map] at hr
  obtain ⟨v, _, rfl⟩ := hr
  simp

/-- after alignment both operands live on one duplicate-free list that is, as a set, the union of
the two lists, and nothing changed name by name — first AND second order -/
structure AlignedSpec (a b x y : Dual2 α) : Prop where
  vars_eq : x.vars = y.vars
  wfx : x.WF
  wfy : y.WF
  denx : ∀ n, den x n = den a n
  deny : ∀ n, den y n = den b n
  den2x : ∀ n w, den2 x n w = den2 a n w
  den2y : ∀ n w, den2 y n w = den2 b n w
  realx : x.real = a.real
  realy : y.real = b.real
  mem : ∀ n, n ∈ x.vars ↔ n ∈ a.vars ∨ n ∈ b.vars

theorem den_not_mem (d : Dual2 α) (n : String) (h : n ∉ d.vars) : den d n = 0 := lookup_not_mem _ _ _ h
theorem den2_not_mem_left (d : Dual2 α) (n w : String) (h : n ∉ d.vars) : den2 d n w = 0 :=
  lookup2_not_mem_left _ _ _ _ h
theorem den2_not_mem_right (d : Dual2 α) (n w : String) (h : w ∉ d.vars) : den2 d n w = 0 :=
  lookup2_not_mem_right _ _ _ _ h

/-- re-indexing onto a superset of the names changes nothing name by name -/
theorem toNewVars_super (d : Dual2 α) (nv : List String) (st : VarsRel)
    (hst : st ≠ .arcEq ∧ st ≠ .valEq) (hsub : ∀ n ∈ d.vars, n ∈ nv) :
    (∀ n, den (d.toNewVars nv st) n = den d n) ∧ (∀ n w, den2 (d.toNewVars nv st) n w = den2 d n w) := by
  constructor
  · intro n
    rw [den_toNewVars_lookup d nv st hst]
    by_cases h : n ∈ nv
    · rw [if_pos h]
    · rw [if_neg h]; exact (den_not_mem d n (fun h' => h (hsub n h'))).symm
  · intro n w
    rw [den2_toNewVars_lookup d nv st hst]
    by_cases h : n ∈ nv ∧ w ∈ nv
    · rw [if_pos h]
    · rw [if_neg h]
      by_cases hn : n ∈ nv
      · exact (den2_not_mem_right d n w (fun h' => h ⟨hn, hsub w h'⟩)).symm
      · exact (den2_not_mem_left d n w (fun h' => hn (hsub n h'))).symm

theorem aligned_spec (p : Bool) (a b : Dual2 α) (ha : a.WF) (hb : b.WF)
    (hp : p = true → a.vars = b.vars) :
    AlignedSpec a b (aligned p a b).1 (aligned p a b).2 := by
  unfold aligned
  cases hc : varsCmp p a.vars b.vars with
  | arcEq =>
    have hv : a.vars = b.vars := by
      unfold varsCmp at hc
      by_cases h : p = true
      · exact hp h
      · simp only [h] at hc
        repeat' split at hc
        all_goals simp_all
    exact ⟨hv, ha, hb, fun _ => rfl, fun _ => rfl, fun _ _ => rfl, fun _ _ => rfl, rfl, rfl,
      fun n => by simp [hv]⟩
  | valEq =>
    have hv : a.vars = b.vars := by
      unfold varsCmp at hc
      repeat' split at hc
      all_goals simp_all
    exact ⟨hv, ha, hb, fun _ => rfl, fun _ => rfl, fun _ _ => rfl, fun _ _ => rfl, rfl, rfl,
      fun n => by simp [hv]⟩
  | superset =>
    have hsub : ∀ n ∈ b.vars, n ∈ a.vars := by
      unfold varsCmp at hc
      repeat' split at hc
      all_goals simp_all
    simp only [toUnionVars]
    obtain ⟨w1, w2, w3⟩ := wf_toNewVars_lookup b a.vars .subset (by simp) ha.1
    obtain ⟨d1, d2⟩ := toNewVars_super b a.vars .subset (by simp) hsub
    refine ⟨w2.symm, ha, w1, fun _ => rfl, d1, fun _ _ => rfl, d2, rfl, w3, fun n => ?_⟩
    constructor
    · exact Or.inl
    · rintro (h | h)
      · exact h
      · exact hsub n h
  | subset =>
    have hsub : ∀ n ∈ a.vars, n ∈ b.vars := by
      unfold varsCmp at hc
      repeat' split at hc
      all_goals simp_all
    simp only [toUnionVars]
    obtain ⟨w1, w2, w3⟩ := wf_toNewVars_lookup a b.vars .subset (by simp) hb.1
    obtain ⟨d1, d2⟩ := toNewVars_super a b.vars .subset (by simp) hsub
    refine ⟨w2, w1, hb, d1, fun _ => rfl, d2, fun _ _ => rfl, w3, rfl, fun n => ?_⟩
    rw [w2]
    constructor
    · exact Or.inr
    · rintro (h | h)
      · exact hsub n h
      · exact h
  | difference =>
    simp only [toUnionVars]
    have hn := nodup_unionVars a.vars b.vars ha.1 hb.1
    obtain ⟨w1, w2, w3⟩ := wf_toNewVars_lookup a (unionVars a.vars b.vars) .difference (by simp) hn
    obtain ⟨v1, v2, v3⟩ := wf_toNewVars_lookup b (unionVars a.vars b.vars) .difference (by simp) hn
    obtain ⟨d1, d2⟩ := toNewVars_super a (unionVars a.vars b.vars) .difference (by simp)
      (fun n h => (mem_unionVars _ _ _).2 (Or.inl h))
    obtain ⟨e1, e2⟩ := toNewVars_super b (unionVars a.vars b.vars) .difference (by simp)
      (fun n h => (mem_unionVars _ _ _).2 (Or.inr h))
    refine ⟨w2.trans v2.symm, w1, v1, d1, e1, d2, e2, w3, v3, fun n => ?_⟩
    rw [w2]; exact mem_unionVars _ _ _

theorem aligned_ptr_irrelevant (a b : Dual2 α) (h : a.vars = b.vars) :
    aligned true a b = aligned false a b := by
  unfold aligned varsCmp
  simp [h]

end Dual2

namespace Dual2
variable {α : Type} [CommRing α] [Div α]

omit [CommRing α] [Div α] in
/-- matrix shape lemmas -/
theorem mshape_zipWith (k : Nat) (m1 m2 : List (List α)) (f : α → α → α)
    (h1 : MShape k m1) (h2 : MShape k m2) : MShape k (List.zipWith (List.zipWith f) m1 m2) := by
  refine ⟨by simp [h1.1, h2.1], ?_⟩
  intro r hr
  obtain ⟨i, hi, rfl⟩ := List.getElem_of_mem hr
  simp only [List.length_zipWith, h1.1, h2.1, Nat.min_self] at hi
  simp only [List.getElem_zipWith, List.length_zipWith]
  rw [h1.2 _ (List.getElem_mem _), h2.2 _ (List.getElem_mem _), Nat.min_self]

omit [CommRing α] [Div α] in
theorem mshape_map (k : Nat) (m : List (List α)) (g : α → α) (h : MShape k m) :
    MShape k (m.map (fun r => r.map g)) := by
  refine ⟨by simp [h.1], ?_⟩
  intro r hr
  simp only [List.mem_map] at hr
  obtain ⟨x, hx, rfl⟩ := hr
  simp [h.2 x hx]

omit [Div α] in
theorem mshape_transpose (k : Nat) (m : List (List α)) (h : MShape k m) : MShape k (transposeM k m) := by
  unfold transposeM
  refine ⟨by simp, ?_⟩
  intro r hr
  simp only [List.mem_map] at hr
  obtain ⟨x, _, rfl⟩ := hr
  simp [h.1]

omit [Div α] in
/-- per-name-pair action of an elementwise combination of two aligned matrices -/
theorem den2_zip (x y : Dual2 α) (f : α → α → α) (hf : f 0 0 = 0) (hv : x.vars = y.vars)
    (mx : MShape x.vars.length x.dual2) (my : MShape x.vars.length y.dual2) (r : α) (dl : List α)
    (n w : String) :
    den2 ⟨r, x.vars, dl, List.zipWith (List.zipWith f) x.dual2 y.dual2⟩ n w
      = f (den2 x n w) (den2 y n w) := by
  unfold den2
  simp only
  by_cases hn : n ∈ x.vars
  · by_cases hw : w ∈ x.vars
    · rw [lookup2_zipWith x.vars x.dual2 y.dual2 f n w mx my hn hw, hv]
    · rw [lookup2_not_mem_right _ _ _ _ hw, lookup2_not_mem_right _ _ _ _ hw,
        lookup2_not_mem_right _ _ _ _ (hv ▸ hw), hf]
  · rw [lookup2_not_mem_left _ _ _ _ hn, lookup2_not_mem_left _ _ _ _ hn,
      lookup2_not_mem_left _ _ _ _ (hv ▸ hn), hf]

omit [Div α] in
theorem den2_map (x : Dual2 α) (g : α → α) (hg : g 0 = 0) (mx : MShape x.vars.length x.dual2)
    (r : α) (dl : List α) (n w : String) :
    den2 ⟨r, x.vars, dl, x.dual2.map (fun row => row.map g)⟩ n w = g (den2 x n w) := by
  unfold den2
  simp only
  by_cases hn : n ∈ x.vars
  · by_cases hw : w ∈ x.vars
    · rw [lookup2_map x.vars x.dual2 g n w mx hn hw]
    · rw [lookup2_not_mem_right _ _ _ _ hw, lookup2_not_mem_right _ _ _ _ hw, hg]
  · rw [lookup2_not_mem_left _ _ _ _ hn, lookup2_not_mem_left _ _ _ _ hn, hg]

/-- result of a binary operation: shape, names, value, per-name derivative, per-name-pair (half) second
derivative -/
structure OpSpec (a b r : Dual2 α) (fr : α) (fd : String → α) (fh : String → String → α) : Prop where
  wf : r.WF
  mem : ∀ n, n ∈ r.vars ↔ n ∈ a.vars ∨ n ∈ b.vars
  real : r.real = fr
  den : ∀ n, Dual2.den r n = fd n
  den2 : ∀ n w, Dual2.den2 r n w = fh n w

/-- the first-order part of a second-order number, as a first-order number -/
def lower (d : Dual2 α) : Dual α := ⟨d.real, d.vars, d.dual⟩

omit [CommRing α] [Div α] in
theorem lower_wf (d : Dual2 α) (h : d.WF) : (lower d).WF := ⟨h.1, h.2.1⟩

theorem add_spec (p : Bool) (a b : Dual2 α) (ha : a.WF) (hb : b.WF) (hp : p = true → a.vars = b.vars) :
    OpSpec a b (add p a b) (a.real + b.real) (fun n => den a n + den b n)
      (fun n w => den2 a n w + den2 b n w) := by
  rcases hxy : aligned p a b with ⟨x, y⟩
  have S : AlignedSpec a b x y := by
    have := aligned_spec p a b ha hb hp
    rw [hxy] at this; exact this
  simp only [add, hxy]
  have my : MShape x.vars.length y.dual2 := by rw [S.vars_eq]; exact S.wfy.mshape
  have msh := mshape_zipWith x.vars.length x.dual2 y.dual2 (· + ·) S.wfx.mshape my
  refine ⟨⟨S.wfx.1, ?_, msh.1, msh.2⟩, S.mem, by rw [S.realx, S.realy], fun n => ?_, fun n w => ?_⟩
  · simp only [vadd, List.length_zipWith, S.wfx.2.1, S.wfy.2.1, S.vars_eq, Nat.min_self]
  · have := Dual.den_zip (lower x) (lower y) (· + ·) (by simp) S.vars_eq (lower_wf x S.wfx)
      (lower_wf y S.wfy) (x.real + y.real) n
    simp only [lower, Dual.den] at this
    simp only [den, vadd]
    rw [this]
    exact congrArg₂ (· + ·) (S.denx n) (S.deny n)
  · have := den2_zip x y (· + ·) (by simp) S.vars_eq S.wfx.mshape my (x.real + y.real)
      (vadd x.dual y.dual) n w
    rw [show madd x.dual2 y.dual2 = List.zipWith (List.zipWith (· + ·)) x.dual2 y.dual2 from rfl, this,
      S.den2x, S.den2y]

theorem sub_spec (p : Bool) (a b : Dual2 α) (ha : a.WF) (hb : b.WF) (hp : p = true → a.vars = b.vars) :
    OpSpec a b (sub p a b) (a.real - b.real) (fun n => den a n - den b n)
      (fun n w => den2 a n w - den2 b n w) := by
  rcases hxy : aligned p a b with ⟨x, y⟩
  have S : AlignedSpec a b x y := by
    have := aligned_spec p a b ha hb hp
    rw [hxy] at this; exact this
  simp only [sub, hxy]
  have my : MShape x.vars.length y.dual2 := by rw [S.vars_eq]; exact S.wfy.mshape
  have msh := mshape_zipWith x.vars.length x.dual2 y.dual2 (· - ·) S.wfx.mshape my
  refine ⟨⟨S.wfx.1, ?_, msh.1, msh.2⟩, S.mem, by rw [S.realx, S.realy], fun n => ?_, fun n w => ?_⟩
  · simp only [vsub, List.length_zipWith, S.wfx.2.1, S.wfy.2.1, S.vars_eq, Nat.min_self]
  · have := Dual.den_zip (lower x) (lower y) (· - ·) (by simp) S.vars_eq (lower_wf x S.wfx)
      (lower_wf y S.wfy) (x.real - y.real) n
    simp only [lower, Dual.den] at this
    simp only [den, vsub]
    rw [this]
    exact congrArg₂ (· - ·) (S.denx n) (S.deny n)
  · have := den2_zip x y (· - ·) (by simp) S.vars_eq S.wfx.mshape my (x.real - y.real)
      (vsub x.dual y.dual) n w
    rw [show msub x.dual2 y.dual2 = List.zipWith (List.zipWith (· - ·)) x.dual2 y.dual2 from rfl, this,
      S.den2x, S.den2y]


theorem mul_spec (p : Bool) (a b : Dual2 α) (ha : a.WF) (hb : b.WF) (hp : p = true → a.vars = b.vars) :
    OpSpec a b (mul p a b) (a.real * b.real)
      (fun n => den a n * b.real + den b n * a.real)
      (fun n w => den2 a n w * b.real + den2 b n w * a.real
        + half * (den a n * den b w + den a w * den b n)) := by
  rcases hxy : aligned p a b with ⟨x, y⟩
  have S : AlignedSpec a b x y := by
    have := aligned_spec p a b ha hb hp
    rw [hxy] at this; exact this
  simp only [mul, hxy]
  have hxl : x.dual.length = x.vars.length := S.wfx.2.1
  have hyl : y.dual.length = x.vars.length := by rw [S.wfy.2.1, S.vars_eq]
  rw [hxl]
  have mx := S.wfx.mshape
  have my : MShape x.vars.length y.dual2 := by rw [S.vars_eq]; exact S.wfy.mshape
  have m1 : MShape x.vars.length (mscaleR x.dual2 y.real) := mshape_map _ _ (· * y.real) mx
  have m2 : MShape x.vars.length (mscaleR y.dual2 x.real) := mshape_map _ _ (· * x.real) my
  have m12 : MShape x.vars.length (madd (mscaleR x.dual2 y.real) (mscaleR y.dual2 x.real)) :=
    mshape_zipWith _ _ _ (· + ·) m1 m2
  have mc : MShape x.vars.length (outer x.dual y.dual) := mshape_outer _ _ _ hxl hyl
  have mt : MShape x.vars.length (transposeM x.vars.length (outer x.dual y.dual)) :=
    mshape_transpose _ _ mc
  have mct : MShape x.vars.length (madd (outer x.dual y.dual)
      (transposeM x.vars.length (outer x.dual y.dual))) := mshape_zipWith _ _ _ (· + ·) mc mt
  have mh : MShape x.vars.length (mscaleL half (madd (outer x.dual y.dual)
      (transposeM x.vars.length (outer x.dual y.dual)))) := mshape_map _ _ (half * ·) mct
  have mall := mshape_zipWith _ _ _ (· + ·) m12 mh
  have wx' : (⟨x.real, x.vars, vscaleR x.dual y.real⟩ : Dual α).WF :=
    ⟨S.wfx.1, by simp [vscaleR, hxl]⟩
  have wy' : (⟨y.real, y.vars, vscaleR y.dual x.real⟩ : Dual α).WF :=
    ⟨S.wfy.1, by simp [vscaleR, S.wfy.2.1]⟩
  refine ⟨⟨S.wfx.1, ?_, mall.1, mall.2⟩, S.mem, by rw [S.realx, S.realy], fun n => ?_, fun n w => ?_⟩
  · simp only [vadd, vscaleR, List.length_zipWith, List.length_map, hxl, hyl, Nat.min_self]
  · have := Dual.den_zip ⟨x.real, x.vars, vscaleR x.dual y.real⟩ ⟨y.real, y.vars, vscaleR y.dual x.real⟩
      (· + ·) (by simp) S.vars_eq wx' wy' (x.real * y.real) n
    simp only [Dual.den] at this
    simp only [den, vadd]
    rw [this]
    have e1 := Dual.den_scaleR (lower x) y.real (lower_wf x S.wfx) x.real n
    have e2 := Dual.den_scaleR (lower y) x.real (lower_wf y S.wfy) y.real n
    simp only [lower, Dual.den] at e1 e2
    rw [e1, e2]
    have d1 := S.denx n
    have d2 := S.deny n
    simp only [den] at d1 d2
    rw [d1, d2, S.realx, S.realy]
  · have ex := S.den2x n w
    have ey := S.den2y n w
    have dxn := S.denx n
    have dxw := S.denx w
    have dyn := S.deny n
    have dyw := S.deny w
    rw [← ex, ← ey, ← dxn, ← dxw, ← dyn, ← dyw, ← S.realx, ← S.realy]
    by_cases hn : n ∈ x.vars
    · by_cases hw : w ∈ x.vars
      · unfold den2 den
        simp only
        rw [show madd (madd (mscaleR x.dual2 y.real) (mscaleR y.dual2 x.real))
              (mscaleL half (madd (outer x.dual y.dual) (transposeM x.vars.length (outer x.dual y.dual))))
            = List.zipWith (List.zipWith (· + ·))
                (madd (mscaleR x.dual2 y.real) (mscaleR y.dual2 x.real))
                (mscaleL half (madd (outer x.dual y.dual)
                  (transposeM x.vars.length (outer x.dual y.dual)))) from rfl,
          lookup2_zipWith _ _ _ _ n w m12 mh hn hw,
          show madd (mscaleR x.dual2 y.real) (mscaleR y.dual2 x.real)
            = List.zipWith (List.zipWith (· + ·)) (mscaleR x.dual2 y.real) (mscaleR y.dual2 x.real)
            from rfl,
          lookup2_zipWith _ _ _ _ n w m1 m2 hn hw,
          show mscaleR x.dual2 y.real = x.dual2.map (fun r => r.map (· * y.real)) from rfl,
          lookup2_map _ _ _ n w mx hn hw,
          show mscaleR y.dual2 x.real = y.dual2.map (fun r => r.map (· * x.real)) from rfl,
          lookup2_map _ _ _ n w my hn hw,
          show mscaleL half (madd (outer x.dual y.dual) (transposeM x.vars.length (outer x.dual y.dual)))
            = (madd (outer x.dual y.dual) (transposeM x.vars.length (outer x.dual y.dual))).map
                (fun r => r.map (half * ·)) from rfl,
          lookup2_map _ _ _ n w mct hn hw,
          show madd (outer x.dual y.dual) (transposeM x.vars.length (outer x.dual y.dual))
            = List.zipWith (List.zipWith (· + ·)) (outer x.dual y.dual)
                (transposeM x.vars.length (outer x.dual y.dual)) from rfl,
          lookup2_zipWith _ _ _ _ n w mc mt hn hw,
          lookup2_transpose _ _ n w mc hn hw,
          lookup2_outer _ _ _ n w hxl hyl hn hw, lookup2_outer _ _ _ w n hxl hyl hw hn,
          ← S.vars_eq]
      · have hR : ∀ (r : α) (dl : List α) (M : List (List α)),
            den2 (⟨r, x.vars, dl, M⟩ : Dual2 α) n w = 0 :=
          fun r dl M => lookup2_not_mem_right x.vars M n w hw
        rw [hR, den2_not_mem_right x n w hw, den2_not_mem_right y n w (S.vars_eq ▸ hw),
          den_not_mem x w hw, den_not_mem y w (S.vars_eq ▸ hw)]
        ring
    · have hR : ∀ (r : α) (dl : List α) (M : List (List α)),
          den2 (⟨r, x.vars, dl, M⟩ : Dual2 α) n w = 0 :=
        fun r dl M => lookup2_not_mem_left x.vars M n w hn
      rw [hR, den2_not_mem_left x n w hn, den2_not_mem_left y n w (S.vars_eq ▸ hn),
        den_not_mem x n hn, den_not_mem y n (S.vars_eq ▸ hn)]
      ring

end Dual2

/-! ### total (membership-free) forms of the look-up lemmas, and unfolding lemmas for the matrix helpers -/
section Total
variable {α : Type} [CommRing α]

theorem L2_zip (vars : List String) (m1 m2 : List (List α)) (f : α → α → α) (hf : f 0 0 = 0)
    (h1 : MShape vars.length m1) (h2 : MShape vars.length m2) (n w : String) :
    lookup2OrZero vars (List.zipWith (List.zipWith f) m1 m2) n w
      = f (lookup2OrZero vars m1 n w) (lookup2OrZero vars m2 n w) := by
  by_cases hn : n ∈ vars
  · by_cases hw : w ∈ vars
    · exact lookup2_zipWith vars m1 m2 f n w h1 h2 hn hw
    · rw [lookup2_not_mem_right _ _ _ _ hw, lookup2_not_mem_right _ _ _ _ hw,
        lookup2_not_mem_right _ _ _ _ hw, hf]
  · rw [lookup2_not_mem_left _ _ _ _ hn, lookup2_not_mem_left _ _ _ _ hn,
      lookup2_not_mem_left _ _ _ _ hn, hf]

theorem L2_map (vars : List String) (m : List (List α)) (g : α → α) (hg : g 0 = 0)
    (h : MShape vars.length m) (n w : String) :
    lookup2OrZero vars (m.map (fun r => r.map g)) n w = g (lookup2OrZero vars m n w) := by
  by_cases hn : n ∈ vars
  · by_cases hw : w ∈ vars
    · exact lookup2_map vars m g n w h hn hw
    · rw [lookup2_not_mem_right _ _ _ _ hw, lookup2_not_mem_right _ _ _ _ hw, hg]
  · rw [lookup2_not_mem_left _ _ _ _ hn, lookup2_not_mem_left _ _ _ _ hn, hg]

theorem L2_outer (vars : List String) (a b : List α) (ha : a.length = vars.length)
    (hb : b.length = vars.length) (n w : String) :
    lookup2OrZero vars (outer a b) n w = lookupOrZero vars a n * lookupOrZero vars b w := by
  by_cases hn : n ∈ vars
  · by_cases hw : w ∈ vars
    · exact lookup2_outer vars a b n w ha hb hn hw
    · rw [lookup2_not_mem_right _ _ _ _ hw, lookup_not_mem _ _ _ hw, mul_zero]
  · rw [lookup2_not_mem_left _ _ _ _ hn, lookup_not_mem _ _ _ hn, zero_mul]

theorem L1_map (vars : List String) (l : List α) (g : α → α) (hg : g 0 = 0)
    (hl : l.length = vars.length) (n : String) :
    lookupOrZero vars (l.map g) n = g (lookupOrZero vars l n) := by
  by_cases h : n ∈ vars
  · exact lookup_map vars l g n hl h
  · rw [lookup_not_mem _ _ _ h, lookup_not_mem _ _ _ h, hg]

end Total

section U
variable {α : Type} [CommRing α]
theorem madd_eq (A B : List (List α)) : madd A B = List.zipWith (List.zipWith (· + ·)) A B := rfl
theorem msub_eq (A B : List (List α)) : msub A B = List.zipWith (List.zipWith (· - ·)) A B := rfl
theorem mscaleL_eq (s : α) (M : List (List α)) : mscaleL s M = M.map (fun r => r.map (s * ·)) := rfl
theorem mscaleR_eq (s : α) (M : List (List α)) : mscaleR M s = M.map (fun r => r.map (· * s)) := rfl
theorem mneg_eq (M : List (List α)) : mneg M = M.map (fun r => r.map (fun x => -x)) := rfl
theorem vscaleL_eq (s : α) (v : List α) : vscaleL s v = v.map (s * ·) := rfl
theorem vscaleR_eq (s : α) (v : List α) : vscaleR v s = v.map (· * s) := rfl
theorem vneg_eq (v : List α) : vneg v = v.map (fun x => -x) := rfl
theorem Dual2.den_mk (r : α) (vs : List String) (dl : List α) (M : List (List α)) (n : String) :
    Dual2.den ⟨r, vs, dl, M⟩ n = lookupOrZero vs dl n := rfl
theorem Dual2.den2_mk (r : α) (vs : List String) (dl : List α) (M : List (List α)) (n w : String) :
    Dual2.den2 ⟨r, vs, dl, M⟩ n w = lookup2OrZero vs M n w := rfl
end U


/-! ### matrices by name, and equality -/
namespace Dual2
variable {α : Type} [CommRing α] [Div α]

omit [Div α] in
theorem den2_idx (d : Dual2 α) (h1 : d.vars.Nodup) (i j : Nat) (hi : i < d.vars.length)
    (hj : j < d.vars.length) :
    den2 d d.vars[i] d.vars[j] = (d.dual2.getD i []).getD j 0 := by
  unfold Dual2.den2 lookup2OrZero
  rw [idxOf_nodup d.vars h1 i hi, idxOf_nodup d.vars h1 j hj]

omit [Div α] in
theorem dual2_eq_map_den2 (d : Dual2 α) (h : d.WF) :
    d.dual2 = d.vars.map (fun v => d.vars.map (fun w => den2 d v w)) := by
  obtain ⟨h1, _, h3, h4⟩ := h
  apply List.ext_getElem (by simp [h3])
  intro i hi1 hi2
  have hi : i < d.vars.length := by simpa using hi2
  rw [List.getElem_map]
  have hrow : (d.dual2[i]).length = d.vars.length := h4 _ (List.getElem_mem hi1)
  apply List.ext_getElem (by simp [hrow])
  intro j hj1 hj2
  have hj : j < d.vars.length := by simpa using hj2
  rw [List.getElem_map, den2_idx d h1 i j hi hj]
  simp only [List.getD_eq_getElem?_getD, List.getElem?_eq_getElem hi1, Option.getD_some,
    List.getElem?_eq_getElem hj1]


omit [CommRing α] [Div α] in
theorem flatten_inj_of_shape (k : Nat) : ∀ (m1 m2 : List (List α)),
    (∀ r ∈ m1, r.length = k) → (∀ r ∈ m2, r.length = k) → m1.length = m2.length →
    m1.flatten = m2.flatten → m1 = m2 := by
  intro m1
  induction m1 with
  | nil => intro m2 _ _ hl _; cases m2 with
    | nil => rfl
    | cons _ _ => simp at hl
  | cons r1 rs ih =>
    intro m2 h1 h2 hl hf
    cases m2 with
    | nil => simp at hl
    | cons r2 rs2 =>
      simp only [List.flatten_cons] at hf
      have hr : r1.length = r2.length := by
        rw [h1 r1 List.mem_cons_self, h2 r2 List.mem_cons_self]
      obtain ⟨e1, e2⟩ := List.append_inj hf hr
      subst e1
      congr 1
      exact ih rs2 (fun r hr => h1 r (List.mem_cons_of_mem _ hr)) (fun r hr => h2 r (List.mem_cons_of_mem _ hr))
        (by simpa using hl) e2

omit [Div α] in
/-- second-order equality treats a missing variable and zero derivatives as the same thing: two numbers
are equal exactly when value, every first derivative by name and every (half) second derivative by pair of
names agree -/
theorem eq_spec [Transc α] [LawfulEqb α] (p : Bool) (a b : Dual2 α) (ha : a.WF) (hb : b.WF)
    (hp : p = true → a.vars = b.vars) :
    eq p a b = true ↔
      (a.real = b.real ∧ (∀ n, den a n = den b n) ∧ ∀ n w, den2 a n w = den2 b n w) := by
  rcases hxy : aligned p a b with ⟨x, y⟩
  have S : AlignedSpec a b x y := by
    have := aligned_spec p a b ha hb hp
    rw [hxy] at this; exact this
  unfold eq
  by_cases hr : a.real = b.real
  · have : Transc.eqb a.real b.real = true := (LawfulEqb.eqb_iff _ _).2 hr
    simp only [this, Bool.not_true, Bool.false_eq_true, if_false, hxy]
    have hl : x.dual.length = y.dual.length := by rw [S.wfx.2.1, S.wfy.2.1, S.vars_eq]
    have hrows : x.dual2.length = y.dual2.length := by rw [S.wfx.2.2.1, S.wfy.2.2.1, S.vars_eq]
    have hyrow : ∀ r ∈ y.dual2, r.length = x.vars.length := by
      intro r hr'; rw [S.vars_eq]; exact S.wfy.2.2.2 r hr'
    have hfl : x.dual2.flatten.length = y.dual2.flatten.length := by
      have e1 : ∀ (m : List (List α)), (∀ r ∈ m, r.length = x.vars.length) →
          m.flatten.length = m.length * x.vars.length := by
        intro m
        induction m with
        | nil => intro _; simp
        | cons r rs ih =>
          intro h
          rw [List.flatten_cons, List.length_append, ih (fun r' hr' => h r' (List.mem_cons_of_mem _ hr')),
            h r List.mem_cons_self, List.length_cons]
          ring
      rw [e1 _ S.wfx.2.2.2, e1 _ hyrow, hrows]
    simp only [hl, hfl, beq_self_eq_true, Bool.true_and, Bool.and_true, Bool.and_eq_true,
      Dual.zipWith_eqb_all _ _ hl, Dual.zipWith_eqb_all _ _ hfl]
    constructor
    · rintro ⟨h1, h2⟩
      have hm : x.dual2 = y.dual2 :=
        flatten_inj_of_shape x.vars.length _ _ S.wfx.2.2.2 hyrow hrows h2
      refine ⟨hr, fun n => ?_, fun n w => ?_⟩
      · rw [← S.denx, ← S.deny]; unfold den; rw [h1, S.vars_eq]
      · rw [← S.den2x, ← S.den2y]; unfold den2; rw [hm, S.vars_eq]
    · rintro ⟨_, h1, h2⟩
      constructor
      · apply ext_of_lookup x.vars S.wfx.1 _ _ S.wfx.2.1 (by rw [S.wfy.2.1, S.vars_eq])
        intro n
        have := h1 n
        rw [← S.denx, ← S.deny] at this
        unfold den at this
        rw [this, S.vars_eq]
      · have ex := dual2_eq_map_den2 x S.wfx
        have ey := dual2_eq_map_den2 y S.wfy
        have : x.dual2 = y.dual2 := by
          rw [ex, ey, ← S.vars_eq]
          apply List.map_congr_left
          intro v _
          apply List.map_congr_left
          intro w _
          rw [S.den2x, S.den2y]; exact h2 v w
        rw [this]
  · have : Transc.eqb a.real b.real = false := by
      cases h : Transc.eqb a.real b.real with
      | false => rfl
      | true => exact absurd ((LawfulEqb.eqb_iff _ _).1 h) hr
    simp [this, hr]

end Dual2

end Rateslib
