import RateslibModel.Model.Curve
import Mathlib.Data.List.Pairwise
import Mathlib.Order.Basic
namespace Rateslib

/-- `i` is the interval index for `v` in the strictly increasing list `xs`: the interval whose right
end is the first node on or after `v`, clamped to the first and last intervals. -/
def IsLeftIndex (xs : List Int) (v : Int) (i : Nat) : Prop :=
  i + 1 < xs.length ∧ (i = 0 ∨ xs.getD i 0 < v) ∧ (i + 2 = xs.length ∨ v ≤ xs.getD (i + 1) 0)

theorem getD_take (l : List Int) (k i : Nat) (h : i < k) : (l.take k).getD i 0 = l.getD i 0 := by
  simp [List.getD_eq_getElem?_getD, List.getElem?_take, h]

theorem getD_drop (l : List Int) (k i : Nat) : (l.drop k).getD i 0 = l.getD (k + i) 0 := by
  simp [List.getD_eq_getElem?_getD, List.getElem?_drop]

theorem indexLeftAux_spec : ∀ (fuel : Nat) (l : List Int) (v : Int) (lc : Nat),
    2 ≤ l.length → l.length ≤ fuel →
    ∃ i, indexLeftAux (fun a b => decide (a ≤ b)) (fun a b => decide (a = b)) fuel l v lc = some (lc + i)
      ∧ IsLeftIndex l v i := by
  intro fuel
  induction fuel with
  | zero => intro l v lc h2 hf; omega
  | succ fuel ih =>
    intro l v lc h2 hf
    unfold indexLeftAux
    rcases hn : l.length with _ | _ | _ | n
    · omega
    · omega
    · exact ⟨0, by simp, by unfold IsLeftIndex; omega⟩
    · -- length n + 3
      simp only
      obtain ⟨s, hs⟩ : ∃ s, s = (n + 1 + 1 + 1 - 1) / 2 := ⟨_, rfl⟩
      rw [← hs]
      have hsplit : s < l.length := by omega
      rw [List.getElem?_eq_getElem hsplit]
      simp only
      have hm : l[s] = l.getD s 0 := by
        rw [List.getD_eq_getElem?_getD, List.getElem?_eq_getElem hsplit]; rfl
      by_cases h3 : (n + 1 + 1 + 1 == 3 && decide (v = l[s])) = true
      · rw [if_pos h3]
        simp only [Bool.and_eq_true, beq_iff_eq, decide_eq_true_eq] at h3
        have hn0 : n = 0 := by omega
        have hs1 : s = 1 := by omega
        refine ⟨0, by simp, ?_⟩
        unfold IsLeftIndex
        refine ⟨by omega, Or.inl rfl, Or.inr ?_⟩
        rw [h3.2, hm, hs1]; simp
      · rw [if_neg h3]
        by_cases hle : v ≤ l[s]
        · rw [if_pos (by simpa using hle)]
          have hlen : (l.take (s + 1)).length = s + 1 := by
            rw [List.length_take]; omega
          obtain ⟨i, hi, hspec⟩ := ih (l.take (s + 1)) v lc (by omega) (by omega)
          refine ⟨i, hi, ?_⟩
          unfold IsLeftIndex at hspec ⊢
          rw [hlen] at hspec
          obtain ⟨s1, s2, s3⟩ := hspec
          refine ⟨by omega, ?_, ?_⟩
          · rcases s2 with s2 | s2
            · exact Or.inl s2
            · right; rwa [getD_take l _ i (by omega)] at s2
          · rcases s3 with s3 | s3
            · right
              have : i + 1 = s := by omega
              rw [this, ← hm]; exact hle
            · right; rwa [getD_take l _ (i + 1) (by omega)] at s3
        · rw [if_neg (by simpa using hle)]
          have hlen : (l.drop s).length = l.length - s := List.length_drop
          obtain ⟨j, hj, hspec⟩ := ih (l.drop s) v (lc + s) (by omega) (by omega)
          refine ⟨s + j, by rw [hj]; congr 1; omega, ?_⟩
          unfold IsLeftIndex at hspec ⊢
          rw [hlen] at hspec
          obtain ⟨s1, s2, s3⟩ := hspec
          refine ⟨by omega, ?_, ?_⟩
          · right
            rcases s2 with s2 | s2
            · subst s2; simp only [Nat.add_zero]; rw [← hm]; omega
            · rwa [getD_drop] at s2
          · rcases s3 with s3 | s3
            · left; omega
            · right; rw [getD_drop] at s3
              have : s + (j + 1) = s + j + 1 := by omega
              rwa [this] at s3

theorem indexLeftInt_spec (xs : List Int) (v : Int) (h2 : 2 ≤ xs.length) :
    ∃ i, indexLeftInt xs v = some i ∧ IsLeftIndex xs v i := by
  obtain ⟨i, hi, hs⟩ := indexLeftAux_spec (xs.length + 1) xs v 0 h2 (by omega)
  exact ⟨i, by simpa [indexLeftInt, indexLeft] using hi, hs⟩

/-- for strictly increasing nodes the left index is unique -/
theorem isLeftIndex_unique (xs : List Int) (hs : xs.Pairwise (· < ·)) (v : Int) (i j : Nat)
    (hi : IsLeftIndex xs v i) (hj : IsLeftIndex xs v j) : i = j := by
  have mono : ∀ a b, a < b → b < xs.length → xs.getD a 0 < xs.getD b 0 := by
    intro a b hab hb
    have ha : a < xs.length := by omega
    simp only [List.getD_eq_getElem?_getD, List.getElem?_eq_getElem ha, List.getElem?_eq_getElem hb,
      Option.getD_some]
    exact List.pairwise_iff_getElem.1 hs a b ha hb hab
  unfold IsLeftIndex at hi hj
  obtain ⟨i1, i2, i3⟩ := hi
  obtain ⟨j1, j2, j3⟩ := hj
  by_contra hne
  rcases Nat.lt_or_gt_of_ne hne with h | h
  · -- i < j : v ≤ xs[i+1] ≤ xs[j] < v
    have hj' : xs.getD j 0 < v := by rcases j2 with j2 | j2 <;> [omega; exact j2]
    have hi' : v ≤ xs.getD (i + 1) 0 := by rcases i3 with i3 | i3 <;> [omega; exact i3]
    by_cases he : i + 1 = j
    · subst he; omega
    · have := mono (i + 1) j (by omega) (by omega); omega
  · have hi' : xs.getD i 0 < v := by rcases i2 with i2 | i2 <;> [omega; exact i2]
    have hj' : v ≤ xs.getD (j + 1) 0 := by rcases j3 with j3 | j3 <;> [omega; exact j3]
    by_cases he : j + 1 = i
    · subst he; omega
    · have := mono (j + 1) i (by omega) (by omega); omega

end Rateslib
