/-
Graph theory for C09/C10: `n − 1` edges that connect `n` vertices form a tree, and on a tree EVERY assignment
of group elements to the edges is a coboundary — there is a potential `φ` with `φ a / φ b = g` on every edge
`(a, b, g)`.  Proved by running a union–find over the edge list: every edge either merges two classes (the
potential of one class is rescaled so that the new edge fits; edges inside a class keep their ratios) or
closes a cycle; the number of classes is `n −` (number of merging edges); connectedness leaves one class at
the end, so all `n − 1` edges merged, and all of them fit.
-/
import Mathlib.Data.Finset.Image
import Mathlib.Data.Finset.Card
import Mathlib.Algebra.Group.Basic
import Mathlib.Tactic.Ring
set_option linter.unusedSectionVars false
namespace Rateslib

/-- the edges connect all `n` vertices: every non-empty vertex set closed under the edges is everything -/
def ConnectedE {G : Type} (n : Nat) (edges : List (Nat × Nat × G)) : Prop :=
  ∀ S : Nat → Prop, (∀ e ∈ edges, S e.1 ↔ S e.2.1) → (∃ i, i < n ∧ S i) → ∀ j, j < n → S j

section UF
variable {G : Type} [CommGroup G]

/-- union–find state: class representative, potential, the edges that merged two classes so far -/
structure UF (G : Type) where
  rep : Nat → Nat
  phi : Nat → G
  goods : List (Nat × Nat × G)

def ufStep (s : UF G) (e : Nat × Nat × G) : UF G :=
  if s.rep e.1 = s.rep e.2.1 then s
  else
    ⟨fun j => if s.rep j = s.rep e.2.1 then s.rep e.1 else s.rep j,
     fun j => if s.rep j = s.rep e.2.1 then s.phi j * (s.phi e.1 / (e.2.2 * s.phi e.2.1)) else s.phi j,
     s.goods ++ [e]⟩

/-- the invariant after processing the edge list `done` -/
structure UFInv (n : Nat) (done : List (Nat × Nat × G)) (s : UF G) : Prop where
  same : ∀ e ∈ done, s.rep e.1 = s.rep e.2.1
  fits : ∀ e ∈ s.goods, s.phi e.1 / s.phi e.2.1 = e.2.2
  sub : s.goods.Sublist done
  count : ((Finset.range n).image s.rep).card + s.goods.length = n

theorem ufInv_init (n : Nat) : UFInv (G := G) n [] ⟨id, fun _ => 1, []⟩ := by
  refine ⟨fun e he => (by cases he), fun e he => (by cases he), List.Sublist.refl _, ?_⟩
  simp

theorem ufInv_step (n : Nat) (done : List (Nat × Nat × G)) (s : UF G) (e : Nat × Nat × G)
    (ha : e.1 < n) (hb : e.2.1 < n) (h : UFInv n done s) : UFInv n (done ++ [e]) (ufStep s e) := by
  unfold ufStep
  by_cases hc : s.rep e.1 = s.rep e.2.1
  · rw [if_pos hc]
    refine ⟨fun e' he' => ?_, h.fits, h.sub.trans (List.sublist_append_left _ _), h.count⟩
    rcases List.mem_append.1 he' with h1 | h1
    · exact h.same e' h1
    · rw [List.mem_singleton.1 h1]; exact hc
  · rw [if_neg hc]
    refine ⟨fun e' he' => ?_, fun e' he' => ?_, ?_, ?_⟩
    · rcases List.mem_append.1 he' with h1 | h1
      · simp only
        rw [h.same e' h1]
      · rw [List.mem_singleton.1 h1]
        simp [hc]
    · simp only at he' ⊢
      rcases List.mem_append.1 he' with h1 | h1
      · have hs := h.same e' (h.sub.subset h1)
        rw [hs]
        by_cases hq : s.rep e'.2.1 = s.rep e.2.1
        · rw [if_pos hq, if_pos hq, ← h.fits e' h1]
          simp [div_eq_mul_inv, mul_inv_rev, mul_comm, mul_left_comm, mul_assoc]
        · rw [if_neg hq, if_neg hq]; exact h.fits e' h1
      · rw [List.mem_singleton.1 h1, if_neg hc, if_pos rfl]
        simp [div_eq_mul_inv, mul_inv_rev, mul_comm, mul_left_comm, mul_assoc]
    · exact List.Sublist.append h.sub (List.Sublist.refl _)
    · -- the classes: the class of `e.2.1` disappears
      have himg : (Finset.range n).image (fun j => if s.rep j = s.rep e.2.1 then s.rep e.1 else s.rep j)
          = ((Finset.range n).image s.rep).erase (s.rep e.2.1) := by
        ext x
        simp only [Finset.mem_image, Finset.mem_range, Finset.mem_erase]
        constructor
        · rintro ⟨j, hj, rfl⟩
          by_cases hq : s.rep j = s.rep e.2.1
          · rw [if_pos hq]; exact ⟨hc, e.1, ha, rfl⟩
          · rw [if_neg hq]; exact ⟨hq, j, hj, rfl⟩
        · rintro ⟨hx, j, hj, rfl⟩
          exact ⟨j, hj, by rw [if_neg hx]⟩
      simp only
      rw [himg, Finset.card_erase_of_mem (Finset.mem_image.2 ⟨e.2.1, Finset.mem_range.2 hb, rfl⟩),
        List.length_append, List.length_singleton]
      have hpos : 0 < ((Finset.range n).image s.rep).card :=
        Finset.card_pos.2 ⟨_, Finset.mem_image.2 ⟨e.2.1, Finset.mem_range.2 hb, rfl⟩⟩
      have := h.count
      omega

theorem ufInv_run (n : Nat) : ∀ (todo done : List (Nat × Nat × G)) (s : UF G),
    (∀ e ∈ todo, e.1 < n ∧ e.2.1 < n) → UFInv n done s → UFInv n (done ++ todo) (todo.foldl ufStep s) := by
  intro todo
  induction todo with
  | nil => intro done s _ h; simpa using h
  | cons e es ih =>
    intro done s hidx h
    have h1 := ufInv_step n done s e (hidx e List.mem_cons_self).1 (hidx e List.mem_cons_self).2 h
    have := ih (done ++ [e]) (ufStep s e) (fun e' he' => hidx e' (List.mem_cons_of_mem _ he')) h1
    simpa [List.append_assoc] using this

/-- A TREE ADMITS EVERY EDGE ASSIGNMENT AS A COBOUNDARY: `n − 1` edges (listed with group elements) that
connect `n` vertices have a potential `φ` with `φ a / φ b = g` on every edge `(a, b, g)`. -/
theorem forest_potential (n : Nat) (edges : List (Nat × Nat × G))
    (hidx : ∀ e ∈ edges, e.1 < n ∧ e.2.1 < n) (hlen : edges.length + 1 = n) (hconn : ConnectedE n edges) :
    ∃ φ : Nat → G, ∀ e ∈ edges, φ e.1 / φ e.2.1 = e.2.2 := by
  have hinv := ufInv_run n edges [] ⟨id, fun _ => 1, []⟩ hidx (ufInv_init n)
  simp only [List.nil_append] at hinv
  set s := edges.foldl ufStep (⟨id, fun _ => 1, []⟩ : UF G) with hs
  -- connectedness: one class
  have hone : ∀ j, j < n → s.rep j = s.rep 0 := by
    apply hconn (fun j => s.rep j = s.rep 0)
    · intro e he; rw [hinv.same e he]
    · exact ⟨0, by omega, rfl⟩
  have hcard : ((Finset.range n).image s.rep).card = 1 := by
    have : (Finset.range n).image s.rep = {s.rep 0} := by
      ext x
      simp only [Finset.mem_image, Finset.mem_range, Finset.mem_singleton]
      constructor
      · rintro ⟨j, hj, rfl⟩; exact hone j hj
      · rintro rfl; exact ⟨0, by omega, rfl⟩
    rw [this, Finset.card_singleton]
  have hg : s.goods.length = edges.length := by have := hinv.count; omega
  have heq : s.goods = edges := hinv.sub.eq_of_length hg
  exact ⟨s.phi, fun e he => hinv.fits e (heq ▸ he)⟩

/-- on a connected graph whose edges all carry `1` except one edge `(a0, b0)`, a potential takes only the two
values it has at `a0` and `b0` -/
theorem potential_two_valued (n : Nat) (edges : List (Nat × Nat × G)) (hconn : ConnectedE n edges)
    (φ : Nat → G) (hφ : ∀ e ∈ edges, φ e.1 / φ e.2.1 = e.2.2) (a0 b0 : Nat) (ha0 : a0 < n)
    (hone : ∀ e ∈ edges, e.2.2 = 1 ∨ (e.1 = a0 ∧ e.2.1 = b0)) :
    ∀ i, i < n → φ i = φ a0 ∨ φ i = φ b0 := by
  apply hconn (fun i => φ i = φ a0 ∨ φ i = φ b0)
  · intro e he
    rcases hone e he with h1 | ⟨h1, h2⟩
    · have := hφ e he
      rw [h1, div_eq_one] at this
      rw [this]
    · rw [h1, h2]; simp
  · exact ⟨a0, ha0, Or.inl rfl⟩

end UF
end Rateslib
