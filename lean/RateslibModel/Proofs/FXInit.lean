import RateslibModel.Proofs.FXFill
namespace Rateslib

theorem sum_le_of_le (n : Nat) : ∀ l : List Nat, (∀ x ∈ l, x ≤ n) → l.sum ≤ l.length * n := by
  intro l
  induction l with
  | nil => intro _; simp
  | cons x xs ih =>
    intro h
    have := ih (fun y hy => h y (List.mem_cons_of_mem _ hy))
    have hx := h x List.mem_cons_self
    simp only [List.sum_cons, List.length_cons, Nat.succ_mul]
    omega

theorem all_eq_of_sum (n : Nat) : ∀ l : List Nat, (∀ x ∈ l, x ≤ n) → l.sum = l.length * n → ∀ x ∈ l, x = n := by
  intro l
  induction l with
  | nil => intro _ _ x hx; cases hx
  | cons y ys ih =>
    intro h hs x hx
    have hy := h y List.mem_cons_self
    have hys := sum_le_of_le n ys (fun z hz => h z (List.mem_cons_of_mem _ hz))
    simp only [List.sum_cons, List.length_cons, Nat.succ_mul] at hs
    have h1 : y = n := by omega
    have h2 : ys.sum = ys.length * n := by omega
    rcases List.mem_cons.1 hx with rfl | hx
    · exact h1
    · exact ih (fun z hz => h z (List.mem_cons_of_mem _ hz)) h2 x hx

/-- a full edge count means every pair of currencies is populated -/
theorem edges_full (n : Nat) (edges : Nat → Nat → Bool) (h : edgeCount n edges = n * n) :
    ∀ i j, i < n → j < n → edges i j = true := by
  intro i j hi hj
  unfold edgeCount at h
  have hle : ∀ x ∈ (List.range n).map (fun i => ((List.range n).filter (fun j => edges i j)).length), x ≤ n := by
    intro x hx
    obtain ⟨k, _, rfl⟩ := List.mem_map.1 hx
    calc _ ≤ (List.range n).length := List.length_filter_le _ _
      _ = n := List.length_range
  have hall := all_eq_of_sum n _ hle (by simpa using h)
  have hi' : ((List.range n).filter (fun j => edges i j)).length = n :=
    hall _ (List.mem_map.2 ⟨i, List.mem_range.2 hi, rfl⟩)
  have : (List.range n).filter (fun j => edges i j) = List.range n := by
    apply List.Sublist.eq_of_length (List.filter_sublist)
    rw [hi', List.length_range]
  have hj' : j ∈ (List.range n).filter (fun j => edges i j) := by rw [this]; exact List.mem_range.2 hj
  exact (List.mem_filter.1 hj').2

variable {τ : Type} [FxOps τ]

def initStep (acc : FxArr τ) (p : Nat × Nat × τ) : FxArr τ :=
  let fx1 := upd2 acc.fx p.1 p.2.1 p.2.2
  let fx2 := upd2 fx1 p.2.1 p.1 (FxOps.recip (fx1 p.1 p.2.1))
  ⟨fx2, upd2 (upd2 acc.edges p.1 p.2.1 true) p.2.1 p.1 true⟩

theorem initArr_eq (pairs : List (Nat × Nat × τ)) (zero : τ) :
    initArr pairs zero = pairs.foldl initStep ⟨fun a b => if a = b then FxOps.one else zero, fun a b => decide (a = b)⟩ := by
  unfold initArr
  congr 1

theorem initStep_edges (acc : FxArr τ) (p : Nat × Nat × τ) (i j : Nat) :
    (initStep acc p).edges i j
      = (decide (i = p.2.1 ∧ j = p.1) || (decide (i = p.1 ∧ j = p.2.1) || acc.edges i j)) := by
  simp only [initStep, upd2]
  by_cases h1 : i = p.2.1 ∧ j = p.1
  · simp [h1]
  · by_cases h2 : i = p.1 ∧ j = p.2.1
    · simp [h1, h2]
    · simp [h1, h2]

theorem initStep_symm (acc : FxArr τ) (p : Nat × Nat × τ) (hs : SymmEdges acc) : SymmEdges (initStep acc p) := by
  intro i j
  rw [initStep_edges, initStep_edges, hs i j]
  have e1 : decide (i = p.2.1 ∧ j = p.1) = decide (j = p.1 ∧ i = p.2.1) := by congr 1; exact propext and_comm
  have e2 : decide (i = p.1 ∧ j = p.2.1) = decide (j = p.2.1 ∧ i = p.1) := by congr 1; exact propext and_comm
  rw [e1, e2]
  cases decide (j = p.1 ∧ i = p.2.1) <;> cases decide (j = p.2.1 ∧ i = p.1) <;> rfl

theorem init_symm (pairs : List (Nat × Nat × τ)) (zero : τ) : SymmEdges (initArr pairs zero) := by
  rw [initArr_eq]
  generalize hacc : (⟨fun a b => if a = b then FxOps.one else zero, fun a b => decide (a = b)⟩ : FxArr τ) = acc
  have h0 : SymmEdges acc := by
    subst hacc; intro i j; simp only; congr 1; exact propext eq_comm
  clear hacc
  induction pairs generalizing acc with
  | nil => exact h0
  | cons p ps ih => exact ih _ (initStep_symm acc p h0)

section Field
variable {K : Type} [Field K]

theorem initStep_consistent (u : Nat → K) (hu : ∀ i, u i ≠ 0) (acc : FxArr K) (p : Nat × Nat × K)
    (hc : Consistent u acc) (hp : p.2.2 = u p.1 / u p.2.1) : Consistent u (initStep acc p) := by
  intro i j hij
  simp only [initStep, upd2] at hij ⊢
  by_cases hA : i = p.2.1 ∧ j = p.1
  · rw [if_pos hA]
    simp only [and_self, if_true]
    show 1 / p.2.2 = _
    rw [hp, hA.1, hA.2]; field_simp [hu p.1, hu p.2.1]
  · rw [if_neg hA]
    by_cases hB : i = p.1 ∧ j = p.2.1
    · rw [if_pos hB, hp, hB.1, hB.2]
    · rw [if_neg hB]
      rw [if_neg hA, if_neg hB] at hij
      exact hc i j hij

theorem init_consistent (u : Nat → K) (hu : ∀ i, u i ≠ 0) (pairs : List (Nat × Nat × K))
    (hp : ∀ p ∈ pairs, p.2.2 = u p.1 / u p.2.1) : Consistent u (initArr pairs 0) := by
  rw [initArr_eq]
  generalize hacc : (⟨fun a b => if a = b then FxOps.one else 0, fun a b => decide (a = b)⟩ : FxArr K) = acc
  have h0 : Consistent u acc := by
    subst hacc
    intro i j hij
    simp only [decide_eq_true_eq] at hij
    subst hij
    simp only [if_true]
    show (1 : K) = _
    field_simp [hu i]
  clear hacc
  induction pairs generalizing acc with
  | nil => exact h0
  | cons p ps ih =>
    exact ih (fun q hq => hp q (List.mem_cons_of_mem _ hq)) _
      (initStep_consistent u hu acc p h0 (hp p List.mem_cons_self))

end Field
end Rateslib
