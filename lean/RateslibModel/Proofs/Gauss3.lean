import RateslibModel.Proofs.Gauss2
namespace Rateslib
open Finset

variable {R : Type} [CommRing R] [Div R] (ge : R → R → Bool)

/-- one step of the back substitution -/
def backStep (n : Nat) (s : Sys R) (i : Nat) (x : Nat → R) : Nat → R :=
  let v := s.b i - ∑ c ∈ Finset.Ico (i + 1) n, s.a i c * x c
  fun r => if r = i then v / s.a i i else x r

theorem backSubst_eq (n : Nat) (s : Sys R) :
    @backSubst R (ringLinOps ge) n s = (List.range' 0 n).foldr (backStep n s) (fun _ => 0) := by
  unfold backSubst
  rw [List.foldl_reverse, List.range_eq_range']
  congr 1
  funext i x
  funext r
  simp only [backStep, lo_sub, lo_div]
  have hsum : @dotOver R (ringLinOps ge) (List.range' (i + 1) (n - (i + 1))) (s.a i) x
      = ∑ c ∈ Finset.Ico (i + 1) n, s.a i c * x c := by
    rw [dotOver_eq, sum_range']
    by_cases h : i + 1 ≤ n
    · have : i + 1 + (n - (i + 1)) = n := by omega
      rw [this]
    · have h1 : n - (i + 1) = 0 := by omega
      rw [h1, Nat.add_zero, Finset.Ico_self, Finset.Ico_eq_empty (by omega)]
  rw [hsum]

theorem back_spec (n : Nat) (u : Sys R) (hz : ZerosBelow n n u) (hd : ∀ i, i < n → Good (u.a i i)) :
    ∀ (k i : Nat), i + k = n →
      ∀ r, i ≤ r → r < n → rowDot n u.a ((List.range' i k).foldr (backStep n u) (fun _ => 0)) r = u.b r := by
  intro k
  induction k with
  | zero => intro i hik r h1 h2; omega
  | succ k ih =>
    intro i hik r hir hr
    rw [List.range'_succ, List.foldr_cons]
    set x' := (List.range' (i + 1) k).foldr (backStep n u) (fun _ => 0) with hx'
    have hi : i < n := by omega
    by_cases hri : r = i
    · subst hri
      unfold rowDot
      rw [Finset.range_eq_Ico, ← Finset.sum_Ico_consecutive _ (Nat.zero_le r) (le_of_lt hr),
        Finset.sum_eq_sum_Ico_succ_bot hr]
      have h0 : ∑ c ∈ Finset.Ico 0 r, u.a r c * backStep n u r x' c = 0 := by
        apply Finset.sum_eq_zero
        intro c hc
        rw [Finset.mem_Ico] at hc
        rw [hz r c (by omega) hc.2 hr]; ring
      have h2 : ∑ c ∈ Finset.Ico (r + 1) n, u.a r c * backStep n u r x' c
          = ∑ c ∈ Finset.Ico (r + 1) n, u.a r c * x' c := by
        apply Finset.sum_congr rfl
        intro c hc
        rw [Finset.mem_Ico] at hc
        have : c ≠ r := by omega
        simp only [backStep, this, if_false]
      rw [h0, h2]
      simp only [backStep, if_true]
      have hg := hd r hr (u.b r - ∑ c ∈ Finset.Ico (r + 1) n, u.a r c * x' c)
      rw [mul_comm, hg]; ring
    · have hlt : i < r := by omega
      have := ih (i + 1) (by omega) r (by omega) hr
      rw [← hx'] at this
      rw [← this]
      unfold rowDot
      apply Finset.sum_congr rfl
      intro c _
      by_cases hci : c = i
      · subst hci
        rw [hz r c (by omega) hlt hr]; ring
      · simp only [backStep, hci, if_false]

/-- Soundness: if every pivot can be divided by, the returned vector satisfies `A x = b`. -/
theorem dsolve21_sound (n : Nat) (s : Sys R) (hp : PivotsGood ge n (List.range n) s) :
    Sol n s (@dsolve21 R (ringLinOps ge) n s) := by
  have hz0 : ZerosBelow n 0 s := fun r c hc _ _ => by omega
  rw [List.range_eq_range'] at hp
  obtain ⟨f1, f2, f3⟩ := forward_spec ge n n 0 s (by omega) hz0 (fun i hi => by omega) hp
  have hfe : @forwardElim R (ringLinOps ge) n s
      = (List.range' 0 n).foldl (@elimStep R (ringLinOps ge) n) s := by
    unfold forwardElim; rw [List.range_eq_range']
  unfold dsolve21
  rw [hfe]
  apply (f2 _).1
  intro r hr
  rw [backSubst_eq]
  exact back_spec n _ f1 f3 n 0 (by omega) r (Nat.zero_le r) hr

end Rateslib
