/-
The generic solver commutes with every homomorphism of its arithmetic (pivot choices included); the
(value, sensitivity-to-v) projection of list-level first-order numbers is such a homomorphism into the ring
of dual numbers ℝ[ε]/(ε²), so the list-level solver on a dual-number MATRIX refines the ring-level one.
-/
import RateslibModel.Model.Linalg
import RateslibModel.Proofs.RealSolver
import RateslibModel.Proofs.DualOps
import RateslibModel.Analysis.Refine
import RateslibModel.Proofs.Gauss3
import Mathlib.Algebra.TrivSqZeroExt.Basic
import Mathlib.Data.Real.Basic
set_option linter.unusedSectionVars false
set_option linter.unusedVariables false
namespace Rateslib

/-! ### the generic solver commutes with every homomorphism of its arithmetic -/

/-- a map between two element types of the generic solver that respects its arithmetic and its pivot
comparison, on a set `G` of well-formed elements closed under the arithmetic -/
structure LinHom {τ ρ : Type} [LinOps τ] [LinOps ρ] (φ : τ → ρ) (G : τ → Prop) : Prop where
  zero : G (LinOps.zero) ∧ φ LinOps.zero = LinOps.zero
  add : ∀ a b, G a → G b → G (LinOps.add a b) ∧ φ (LinOps.add a b) = LinOps.add (φ a) (φ b)
  sub : ∀ a b, G a → G b → G (LinOps.sub a b) ∧ φ (LinOps.sub a b) = LinOps.sub (φ a) (φ b)
  mul : ∀ a b, G a → G b → G (LinOps.mul a b) ∧ φ (LinOps.mul a b) = LinOps.mul (φ a) (φ b)
  div : ∀ a b, G a → G b → G (LinOps.div a b) ∧ φ (LinOps.div a b) = LinOps.div (φ a) (φ b)
  absGe : ∀ a b, G a → G b → LinOps.absGe a b = LinOps.absGe (φ a) (φ b)

section
variable {τ ρ : Type} [LinOps τ] [LinOps ρ] (φ : τ → ρ) (G : τ → Prop)

/-- matrices and right-hand sides related entry by entry -/
def SRel (s : Sys τ) (s' : Sys ρ) : Prop :=
  (∀ r c, G (s.a r c) ∧ φ (s.a r c) = s'.a r c) ∧ ∀ r, G (s.b r) ∧ φ (s.b r) = s'.b r

variable {φ G}

theorem pivotIdx_hom (H : LinHom φ G) (n j : Nat) (a : Nat → Nat → τ) (a' : Nat → Nat → ρ)
    (h : ∀ r c, G (a r c) ∧ φ (a r c) = a' r c) : pivotIdx n j a = pivotIdx n j a' := by
  unfold pivotIdx
  have key : ∀ (l : List Nat) (best : Nat),
      l.foldl (fun best r => if LinOps.absGe (a r j) (a best j) then r else best) best
        = l.foldl (fun best r => if LinOps.absGe (a' r j) (a' best j) then r else best) best := by
    intro l
    induction l with
    | nil => intro best; rfl
    | cons r l ih =>
      intro best
      simp only [List.foldl_cons]
      have : LinOps.absGe (a r j) (a best j) = LinOps.absGe (a' r j) (a' best j) := by
        rw [H.absGe _ _ (h r j).1 (h best j).1, (h r j).2, (h best j).2]
      rw [this]
      split
      · exact ih r
      · exact ih best
  exact key _ j

theorem srel_swap (s : Sys τ) (s' : Sys ρ) (h : SRel φ G s s') (j k : Nat) :
    SRel φ G (swapRows s j k) (swapRows s' j k) := by
  obtain ⟨ha, hb⟩ := h
  refine ⟨fun r c => ?_, fun r => ?_⟩
  · simp only [swapRows]
    split
    · exact ha k c
    · split
      · exact ha j c
      · exact ha r c
  · simp only [swapRows]
    split
    · exact hb k
    · split
      · exact hb j
      · exact hb r

theorem srel_elimRow (H : LinHom φ G) (n j : Nat) (s : Sys τ) (s' : Sys ρ) (h : SRel φ G s s') (l : Nat) :
    SRel φ G (elimRow n j s l) (elimRow n j s' l) := by
  obtain ⟨ha, hb⟩ := h
  have hscl := H.div (s.a l j) (s.a j j) (ha l j).1 (ha j j).1
  rw [(ha l j).2, (ha j j).2] at hscl
  refine ⟨fun r c => ?_, fun r => ?_⟩
  · simp only [elimRow]
    split
    · split
      · exact H.zero
      · split
        · have m := H.mul _ (s.a j c) hscl.1 (ha j c).1
          have sb := H.sub (s.a l c) _ (ha l c).1 m.1
          exact ⟨sb.1, by rw [sb.2, m.2, hscl.2, (ha l c).2, (ha j c).2]⟩
        · exact ha l c
    · exact ha r c
  · simp only [elimRow]
    split
    · have m := H.mul _ (s.b j) hscl.1 (hb j).1
      have sb := H.sub (s.b l) _ (hb l).1 m.1
      exact ⟨sb.1, by rw [sb.2, m.2, hscl.2, (hb l).2, (hb j).2]⟩
    · exact hb r

theorem srel_foldl_elimRow (H : LinHom φ G) (n j : Nat) : ∀ (ls : List Nat) (s : Sys τ) (s' : Sys ρ),
    SRel φ G s s' → SRel φ G (ls.foldl (elimRow n j) s) (ls.foldl (elimRow n j) s') := by
  intro ls
  induction ls with
  | nil => intro s s' h; exact h
  | cons l ls ih => intro s s' h; exact ih _ _ (srel_elimRow H n j s s' h l)

theorem srel_elimStep (H : LinHom φ G) (n : Nat) (s : Sys τ) (s' : Sys ρ) (h : SRel φ G s s') (j : Nat) :
    SRel φ G (elimStep n s j) (elimStep n s' j) := by
  unfold elimStep
  simp only
  apply srel_foldl_elimRow H
  rw [pivotIdx_hom H n j s.a s'.a h.1]
  split
  · exact srel_swap s s' h _ _
  · exact h

theorem srel_forward (H : LinHom φ G) (n : Nat) : ∀ (js : List Nat) (s : Sys τ) (s' : Sys ρ),
    SRel φ G s s' → SRel φ G (js.foldl (elimStep n) s) (js.foldl (elimStep n) s') := by
  intro js
  induction js with
  | nil => intro s s' h; exact h
  | cons j js ih => intro s s' h; exact ih _ _ (srel_elimStep H n s s' h j)

theorem dot_hom_aux (H : LinHom φ G) (f g : Nat → τ) (f' g' : Nat → ρ)
    (hf : ∀ i, G (f i) ∧ φ (f i) = f' i) (hg : ∀ i, G (g i) ∧ φ (g i) = g' i) :
    ∀ (idx : List Nat) (acc : τ) (acc' : ρ), G acc → φ acc = acc' →
    G (idx.foldl (fun acc m => LinOps.add acc (LinOps.mul (f m) (g m))) acc) ∧
    φ (idx.foldl (fun acc m => LinOps.add acc (LinOps.mul (f m) (g m))) acc)
      = idx.foldl (fun acc m => LinOps.add acc (LinOps.mul (f' m) (g' m))) acc' := by
  intro idx
  induction idx with
  | nil => intro acc acc' h1 h2; exact ⟨h1, h2⟩
  | cons m ms ih =>
    intro acc acc' h1 h2
    simp only [List.foldl_cons]
    have m1 := H.mul (f m) (g m) (hf m).1 (hg m).1
    have a1 := H.add acc _ h1 m1.1
    exact ih _ _ a1.1 (by rw [a1.2, m1.2, h2, (hf m).2, (hg m).2])

theorem dot_hom (H : LinHom φ G) (f g : Nat → τ) (f' g' : Nat → ρ)
    (hf : ∀ i, G (f i) ∧ φ (f i) = f' i) (hg : ∀ i, G (g i) ∧ φ (g i) = g' i) (idx : List Nat) :
    G (dotOver idx f g) ∧ φ (dotOver idx f g) = dotOver idx f' g' :=
  dot_hom_aux H f g f' g' hf hg idx _ _ H.zero.1 H.zero.2

theorem srel_back (H : LinHom φ G) (n : Nat) (s : Sys τ) (s' : Sys ρ) (h : SRel φ G s s') :
    ∀ r, G (backSubst n s r) ∧ φ (backSubst n s r) = backSubst n s' r := by
  unfold backSubst
  generalize (List.range n).reverse = idx
  have base : ∀ r : Nat, G ((fun _ => LinOps.zero : Nat → τ) r) ∧
      φ ((fun _ => LinOps.zero : Nat → τ) r) = (fun _ => LinOps.zero : Nat → ρ) r := fun _ => H.zero
  revert base
  generalize (fun _ => LinOps.zero : Nat → τ) = x0
  generalize (fun _ => LinOps.zero : Nat → ρ) = x0'
  intro base
  induction idx generalizing x0 x0' with
  | nil => exact base
  | cons i is ih =>
    simp only [List.foldl_cons]
    apply ih
    intro r
    split
    · have d := dot_hom H (s.a i) x0 (s'.a i) x0' (h.1 i) base (List.range' (i + 1) (n - (i + 1)))
      have s1 := H.sub (s.b i) _ (h.2 i).1 d.1
      have s2 := H.div _ (s.a i i) s1.1 (h.1 i i).1
      refine ⟨s2.1, ?_⟩
      rw [s2.2, s1.2, (h.2 i).2, d.2, (h.1 i i).2]
    · exact base r

/-- THE GENERIC SOLVER COMMUTES WITH EVERY HOMOMORPHISM OF ITS ARITHMETIC (pivot choices included). -/
theorem dsolve21_hom (H : LinHom φ G) (n : Nat) (s : Sys τ) (s' : Sys ρ) (h : SRel φ G s s') :
    ∀ r, G (dsolve21 n s r) ∧ φ (dsolve21 n s r) = dsolve21 n s' r := by
  unfold dsolve21 forwardElim
  exact srel_back H n _ _ (srel_forward H n _ s s' h)

/-- … and so does `dsolve`, least-squares branch (normal equations) included -/
theorem dsolve_hom (H : LinHom φ G) (rows n : Nat) (s : Sys τ) (s' : Sys ρ) (h : SRel φ G s s') (lsq : Bool) :
    ∀ r, G (dsolve rows n s lsq r) ∧ φ (dsolve rows n s lsq r) = dsolve rows n s' lsq r := by
  unfold dsolve
  cases lsq with
  | false => simpa using dsolve21_hom H n s s' h
  | true =>
    simp only [if_true]
    apply dsolve21_hom H n
    refine ⟨fun i j => ?_, fun i => ?_⟩
    · exact dot_hom H _ _ _ _ (fun r => h.1 r i) (fun r => h.1 r j) _
    · exact dot_hom H _ _ _ _ (fun r => h.1 r i) h.2 _

end

/-! ### list-level first-order numbers → the ring of dual numbers, one variable name at a time -/

open TrivSqZeroExt in
/-- division of dual numbers as the code performs it: multiplication by the reciprocal -/
noncomputable instance tszDiv : Div (TrivSqZeroExt ℝ ℝ) := ⟨fun x y => x * y⁻¹⟩

/-- the pivot comparison on dual numbers: by the magnitudes of the values -/
noncomputable def geT (x y : TrivSqZeroExt ℝ ℝ) : Bool := !(Transc.ltb (absS x.fst) (absS y.fst))

/-- the solver's arithmetic in the ring of dual numbers -/
@[reducible] noncomputable def linOpsT : LinOps (TrivSqZeroExt ℝ ℝ) := ringLinOps geT
attribute [local instance] linOpsT

open Rateslib.Dual

/-- the (value, sensitivity to `v`) pair of a list-level number -/
noncomputable def jetT (v : String) (d : Dual ℝ) : TrivSqZeroExt ℝ ℝ :=
  TrivSqZeroExt.inl d.real + TrivSqZeroExt.inr (den d v)

@[simp] theorem jetT_fst (v : String) (d : Dual ℝ) : (jetT v d).fst = d.real := by simp [jetT]
@[simp] theorem jetT_snd (v : String) (d : Dual ℝ) : (jetT v d).snd = den d v := by simp [jetT]

theorem jetT_linHom (v : String) :
    @LinHom (Dual ℝ) (TrivSqZeroExt ℝ ℝ) linOpsDual linOpsT (jetT v) Dual.WF := by
  refine ⟨⟨Expr.wf_new' 0 [], ?_⟩, ?_, ?_, ?_, ?_, ?_⟩
  · have : den (Dual.new (0 : ℝ) []) v = 0 :=
      lookup_not_mem _ _ _ (by show v ∉ (Dual.new (0 : ℝ) []).vars; simp [Dual.new, dedup])
    show jetT v (Dual.new 0 []) = (0 : TrivSqZeroExt ℝ ℝ)
    ext
    · simp; rfl
    · simp [this]
  · intro a b ha hb
    have S := add_spec false a b ha hb (by simp)
    refine ⟨S.wf, ?_⟩
    show jetT v (Dual.add false a b) = jetT v a + jetT v b
    ext
    · simp [S.real]
    · simp [S.den v]
  · intro a b ha hb
    have S := sub_spec false a b ha hb (by simp)
    refine ⟨S.wf, ?_⟩
    show jetT v (Dual.sub false a b) = jetT v a - jetT v b
    ext
    · simp [S.real]
    · simp [S.den v]
  · intro a b ha hb
    have S := mul_spec false a b ha hb (by simp)
    refine ⟨S.wf, ?_⟩
    show jetT v (Dual.mul false a b) = jetT v a * jetT v b
    ext
    · simp [S.real]
    · simp only [jetT_snd, TrivSqZeroExt.snd_mul, jetT_fst, smul_eq_mul, MulOpposite.smul_eq_mul_unop,
        MulOpposite.unop_op, S.den v]
      ring
  · intro a b ha hb
    have wb_ : (⟨1 / b.real, b.vars, vscaleL (-1 / (b.real * b.real)) b.dual⟩ : Dual ℝ).WF :=
      Expr.wf_scaleL _ _ _ hb
    have S := mul_spec false a _ ha wb_ (by simp)
    have hd := den_scaleL b (-1 / (b.real * b.real)) hb (1 / b.real) v
    refine ⟨S.wf, ?_⟩
    show jetT v (Dual.div false a b) = jetT v a * (jetT v b)⁻¹
    have hr : (Dual.div false a b).real = a.real * (1 / b.real) := S.real
    have hdn : den (Dual.div false a b) v
        = den a v * (1 / b.real) + (-1 / (b.real * b.real) * den b v) * a.real := by
      have := S.den v
      rw [hd] at this
      exact this
    ext
    · simp only [jetT_fst, TrivSqZeroExt.fst_mul, TrivSqZeroExt.fst_inv, hr]
      ring
    · simp only [jetT_snd, TrivSqZeroExt.snd_mul, TrivSqZeroExt.snd_inv, TrivSqZeroExt.fst_inv, jetT_fst,
        smul_eq_mul, MulOpposite.smul_eq_mul_unop, MulOpposite.unop_op, hdn, smul_neg, neg_smul]
      by_cases h0 : b.real = 0
      · rw [h0]; simp
      · field_simp
        ring
  · intro a b _ _
    show (!(Transc.ltb (absS a.real) (absS b.real))) = geT (jetT v a) (jetT v b)
    unfold geT
    rw [jetT_fst, jetT_fst]

/-- DUAL-NUMBER MATRIX AND RIGHT-HAND SIDE, list level, any layouts: for every variable name `v`, the
(value, sensitivity-to-`v`) pairs of the list-level solver's answer ARE the answer of the same
elimination (same pivot choices) run in the ring of dual numbers `ℝ[ε]/(ε²)` on the (value, sensitivity)
pairs of the data. -/
theorem dsolve21_dual_refines (v : String) (n : Nat) (s : Sys (Dual ℝ))
    (ha : ∀ r c, (s.a r c).WF) (hb : ∀ r, (s.b r).WF) (r : Nat) :
    (@dsolve21 (Dual ℝ) linOpsDual n s r).WF ∧
    jetT v (@dsolve21 (Dual ℝ) linOpsDual n s r)
      = @dsolve21 (TrivSqZeroExt ℝ ℝ) linOpsT n
          ⟨fun r c => jetT v (s.a r c), fun r => jetT v (s.b r)⟩ r :=
  @dsolve21_hom _ _ linOpsDual linOpsT _ _ (jetT_linHom v) n s _ ⟨fun r c => ⟨ha r c, rfl⟩, fun r => ⟨hb r, rfl⟩⟩ r


/-! ### value-regular systems: the pivots of the dual-number elimination are those of the values -/

theorem fst_linHom :
    @LinHom (TrivSqZeroExt ℝ ℝ) ℝ linOpsT (ringLinOps geR) TrivSqZeroExt.fst (fun _ => True) := by
  refine ⟨⟨trivial, rfl⟩, fun a b _ _ => ⟨trivial, rfl⟩, fun a b _ _ => ⟨trivial, rfl⟩,
    fun a b _ _ => ⟨trivial, rfl⟩, fun a b _ _ => ⟨trivial, ?_⟩, fun a b _ _ => rfl⟩
  show (a * b⁻¹).fst = a.fst / b.fst
  rw [TrivSqZeroExt.fst_mul, TrivSqZeroExt.fst_inv, div_eq_mul_inv]

theorem good_tsz (p : TrivSqZeroExt ℝ ℝ) (hp : p.fst ≠ 0) : Good p := by
  intro x
  show x * p⁻¹ * p = x
  rw [mul_assoc, TrivSqZeroExt.inv_mul_cancel hp, mul_one]

theorem ne_zero_of_good_real {p : ℝ} (h : Good p) : p ≠ 0 := by
  intro h0
  have := h 1
  rw [h0, mul_zero] at this
  exact zero_ne_one this

/-- if the elimination on the VALUES meets no zero pivot, every pivot of the elimination in the ring of
dual numbers can be divided by -/
theorem pivotsGood_of_values (n : Nat) : ∀ (js : List Nat) (s : Sys (TrivSqZeroExt ℝ ℝ)) (s' : Sys ℝ),
    SRel TrivSqZeroExt.fst (fun _ => True) s s' → PivotsGood geR n js s' → PivotsGood geT n js s := by
  intro js
  induction js with
  | nil => intro _ _ _ _; trivial
  | cons j js ih =>
    intro s s' h hp
    obtain ⟨hg, hp'⟩ := hp
    have hk : @pivotIdx _ linOpsT n j s.a = @pivotIdx ℝ (ringLinOps geR) n j s'.a :=
      @pivotIdx_hom _ _ linOpsT (ringLinOps geR) _ _ fst_linHom n j s.a s'.a h.1
    have hsw : SRel TrivSqZeroExt.fst (fun _ => True) (swapped geT n s j) (swapped geR n s' j) := by
      unfold swapped
      simp only
      rw [show @pivotIdx _ (ringLinOps geT) n j s.a = @pivotIdx _ linOpsT n j s.a from rfl, hk]
      split
      · exact srel_swap s s' h _ _
      · exact h
    refine ⟨good_tsz _ ?_, ih _ _ ?_ hp'⟩
    · rw [(hsw.1 j j).2]; exact ne_zero_of_good_real hg
    · exact @srel_elimStep _ _ linOpsT (ringLinOps geR) _ _ fst_linHom n s s' h j


open Finset in
/-- DUAL-NUMBER MATRIX AND RIGHT-HAND SIDE (list level, any layouts, any variable tagging): if the
elimination on the VALUES of the system meets no zero pivot (a non-singular, here: uniquely solvable,
value system — `C13_nonsingular`), the list-level solver's answer satisfies `A x = b` in value AND in the
first derivative with respect to every variable name carried by `A` or `b`. -/
theorem dual_matrix_solution (v : String) (n : Nat) (s : Sys (Dual ℝ))
    (ha : ∀ r c, (s.a r c).WF) (hb : ∀ r, (s.b r).WF)
    (hp : PivotsGood geR n (List.range n) ⟨fun r c => (s.a r c).real, fun r => (s.b r).real⟩) :
    ∀ r, r < n →
      (∑ c ∈ range n, (s.a r c).real * (@dsolve21 (Dual ℝ) linOpsDual n s c).real = (s.b r).real) ∧
      (∑ c ∈ range n, ((s.a r c).real * den (@dsolve21 (Dual ℝ) linOpsDual n s c) v
          + den (s.a r c) v * (@dsolve21 (Dual ℝ) linOpsDual n s c).real) = den (s.b r) v) := by
  intro r hr
  set sJ : Sys (TrivSqZeroExt ℝ ℝ) := ⟨fun r c => jetT v (s.a r c), fun r => jetT v (s.b r)⟩ with hsJ
  have hrel : SRel TrivSqZeroExt.fst (fun _ => True) sJ ⟨fun r c => (s.a r c).real, fun r => (s.b r).real⟩ :=
    ⟨fun r c => ⟨trivial, jetT_fst v _⟩, fun r => ⟨trivial, jetT_fst v _⟩⟩
  have hpJ := pivotsGood_of_values n _ sJ _ hrel hp
  have hsound := dsolve21_sound geT n sJ hpJ r hr
  unfold rowDot at hsound
  have hx : ∀ c, @dsolve21 _ (ringLinOps geT) n sJ c = jetT v (@dsolve21 (Dual ℝ) linOpsDual n s c) :=
    fun c => ((dsolve21_dual_refines v n s ha hb c).2).symm
  simp only [hx] at hsound
  constructor
  · have := congrArg TrivSqZeroExt.fst hsound
    rw [TrivSqZeroExt.fst_sum] at this
    simpa [hsJ] using this
  · have := congrArg TrivSqZeroExt.snd hsound
    rw [TrivSqZeroExt.snd_sum] at this
    simp only [hsJ, TrivSqZeroExt.snd_mul, jetT_fst, jetT_snd, smul_eq_mul, MulOpposite.smul_eq_mul_unop,
      MulOpposite.unop_op] at this
    rw [← this]

end Rateslib
