/-
Marsden's identity for the model's B-spline basis, on every knot span and on the whole domain (right end
point included), and its consequence: every polynomial of degree below the order is a spline, with explicit
coefficients.
-/
import RateslibModel.Props.C14
import Mathlib.Algebra.Polynomial.Eval.Degree
import Mathlib.Algebra.Polynomial.Roots
import Mathlib.Algebra.Polynomial.Coeff
namespace Rateslib
open Finset

/-- Marsden's dual polynomials: `ψ_{i}(y) = ∏_{r<n} (y − t_{i+1+r})` (for order `k`, `n = k − 1`) -/
noncomputable def psiN (t : List ℝ) (y : ℝ) (n i : Nat) : ℝ := ∏ r ∈ range n, (y - knot t (i + 1 + r))

theorem psiN_succ_right (t : List ℝ) (y : ℝ) (n i : Nat) :
    psiN t y (n + 1) i = psiN t y n i * (y - knot t (i + 1 + n)) := by
  unfold psiN; rw [prod_range_succ]

theorem psiN_succ_left (t : List ℝ) (y : ℝ) (n i : Nat) :
    psiN t y (n + 1) i = (y - knot t (i + 1)) * psiN t y n (i + 1) := by
  unfold psiN; rw [prod_range_succ', mul_comm]
  congr 1
  apply prod_congr rfl
  intro r _
  congr 2; omega

/-- MARSDEN'S IDENTITY on a non-empty knot span `[t_j, t_{j+1})`: for every `y`,
`Σ ψ_{i,k}(y) · B_{i,k}(x) = (y − x)^{k−1}` over the `k` functions alive on the span (every knot
multiplicity). -/
theorem marsden_span (t : List ℝ) (hs : SortedKnots t) (x y : ℝ) (j : Nat)
    (hj1 : knot t j ≤ x) (hj2 : x < knot t (j + 1)) :
    ∀ k, 1 ≤ k → k ≤ j + 1 → j + k < t.length →
      ∑ r ∈ range k, psiN t y (k - 1) (j + 1 - k + r) * pureB t x k (j + 1 - k + r) = (y - x) ^ (k - 1) := by
  intro k
  induction k with
  | zero => intro h; omega
  | succ k ih =>
    intro _ hkj hlen
    by_cases hk : k = 0
    · subst hk
      simp only [zero_add, range_one, sum_singleton, Nat.add_zero, Nat.sub_self, pow_zero]
      have : j + 1 - 1 = j := by omega
      rw [this]
      unfold pureB psiN
      simp only [if_true, range_zero, prod_empty, one_mul]
      rw [if_pos ⟨hj1, hj2⟩]
    · have hk1 : 1 ≤ k := by omega
      have IH := ih hk1 (by omega) (by omega)
      set f : Nat → ℝ := fun r => pureB t x k (j - k + r) with hf
      have hidx : ∀ r, j + 1 - (k + 1) + r = j - k + r := by intro r; omega
      have hf0 : f 0 = 0 := by
        simp only [hf, Nat.add_zero]
        apply pureB_support t hs x k (j - k) (by omega)
        right
        have : j - k + k = j := by omega
        rw [this]; exact hj1
      have hfl : f (k + 1) = 0 := by
        simp only [hf]
        apply pureB_support t hs x k (j - k + (k + 1)) (by omega)
        left
        have : j - k + (k + 1) = j + 1 := by omega
        rw [this]; exact hj2
      have hsplit : ∀ r, pureB t x (k + 1) (j - k + r) =
          (if knot t (j - k + r) ≠ knot t (j - k + r + k) then
            (x - knot t (j - k + r)) / (knot t (j - k + r + k) - knot t (j - k + r)) else 0) * f r +
          (if knot t (j - k + r + 1) ≠ knot t (j - k + r + (k + 1)) then
            (knot t (j - k + r + (k + 1)) - x) / (knot t (j - k + r + (k + 1)) - knot t (j - k + r + 1)) else 0)
            * f (r + 1) := by
        intro r
        conv => lhs; unfold pureB
        rw [if_neg hk]
        simp only [hf]
        have e : j - k + r + 1 = j - k + (r + 1) := by omega
        rw [e]
        split <;> split <;> simp
      have hk' : k + 1 - 1 = k := by omega
      simp only [hidx, hk']
      simp only [hsplit, mul_add]
      rw [sum_add_distrib]
      rw [sum_range_succ' (fun r => psiN t y k (j - k + r) * (_ * f r)),
        sum_range_succ (fun r => psiN t y k (j - k + r) * (_ * f (r + 1)))]
      simp only [hf0, hfl, mul_zero, add_zero]
      rw [← sum_add_distrib]
      have hIH : ∑ r ∈ range k, psiN t y (k - 1) (j - k + r + 1) * f (r + 1) = (y - x) ^ (k - 1) := by
        rw [← IH]
        apply sum_congr rfl
        intro r _
        simp only [hf]
        have : j + 1 - k + r = j - k + r + 1 := by omega
        rw [this]
        congr 2
      have hpow : (y - x) ^ k = (y - x) * (y - x) ^ (k - 1) := by
        have : k = (k - 1) + 1 := by omega
        conv => lhs; rw [this]
        rw [pow_succ]; ring
      rw [hpow, ← hIH, mul_sum]
      apply sum_congr rfl
      intro r hr
      rw [mem_range] at hr
      have e1 : j - k + (r + 1) = j - k + r + 1 := by omega
      have e2 : j - k + r + 1 + k = j - k + r + (k + 1) := by omega
      rw [e1, e2]
      have hw1 : knot t (j - k + r + 1) ≤ knot t j := hs _ _ (by omega) (by omega)
      have hw2 : knot t (j + 1) ≤ knot t (j - k + r + (k + 1)) := hs _ _ (by omega) (by omega)
      have hne : knot t (j - k + r + 1) ≠ knot t (j - k + r + (k + 1)) := by
        intro h; linarith
      rw [if_pos hne, if_pos hne]
      have hd : knot t (j - k + r + (k + 1)) - knot t (j - k + r + 1) ≠ 0 := sub_ne_zero.2 (Ne.symm hne)
      -- ψ_{k+1}(i) = ψ_k(i)·(y − t_{i+k}),  ψ_{k+1}(i−1) = (y − t_i)·ψ_k(i)   with i = j−k+r+1
      have hkk : k - 1 + 1 = k := by omega
      have p1 : psiN t y k (j - k + r + 1) = psiN t y (k - 1) (j - k + r + 1) * (y - knot t (j - k + r + (k + 1))) := by
        have h := psiN_succ_right t y (k - 1) (j - k + r + 1)
        rw [hkk] at h
        rw [h]
        congr 3; omega
      have p2 : psiN t y k (j - k + r) = (y - knot t (j - k + r + 1)) * psiN t y (k - 1) (j - k + r + 1) := by
        have h := psiN_succ_left t y (k - 1) (j - k + r)
        rw [hkk] at h
        exact h
      rw [p1, p2]
      field_simp
      ring


/-- MARSDEN'S IDENTITY ON THE WHOLE DOMAIN, for the model's `bsplev` — right end point included. -/
theorem marsden_domain (t : List ℝ) (hs : SortedKnots t) (K : Nat) (hK : 1 ≤ K)
    (he : EndKnots t K) (x y : ℝ) (hx0 : knot t 0 ≤ x) (hx1 : x ≤ knot t (t.length - 1)) :
    ∑ i ∈ range (t.length - K), psiN t y (K - 1) i * bsplev t x K i K = (y - x) ^ (K - 1) := by
  obtain ⟨hlen, e0, eL⟩ := he
  set n := t.length - K with hn
  have hnK : K ≤ n := by omega
  rcases lt_or_eq_of_le hx1 with hlt | heq
  · have hpure : ∀ i, i < n → bsplev t x K i K = pureB t x K i := by
      intro i hi; exact bsplev_eq_pure t hs x hlt K i K (by omega)
    rw [sum_congr rfl (fun i hi => by rw [hpure i (mem_range.1 hi)])]
    set j := Nat.findGreatest (fun j => knot t j ≤ x) (n - 1) with hjdef
    have hPK : knot t (K - 1) ≤ x := by rw [e0]; exact hx0
    have hjspec : knot t j ≤ x := Nat.findGreatest_spec (P := fun j => knot t j ≤ x) (by omega : K - 1 ≤ n - 1) hPK
    have hjge : K - 1 ≤ j := Nat.le_findGreatest (by omega) hPK
    have hjle : j ≤ n - 1 := Nat.findGreatest_le _
    have hjnext : x < knot t (j + 1) := by
      by_cases hjn : j = n - 1
      · have : j + 1 = t.length - K := by omega
        rw [this, eL]; exact hlt
      · by_contra hcon
        push Not at hcon
        have := Nat.findGreatest_is_greatest (P := fun j => knot t j ≤ x) (k := j + 1) (n := n - 1)
          (by omega) (by omega)
        exact this hcon
    have hwin := sum_window (fun i => psiN t y (K - 1) i * pureB t x K i) n (j + 1 - K) K (by omega) (by
      intro i hi hout
      have : pureB t x K i = 0 := by
        apply pureB_support t hs x K i (by omega)
        rcases hout with h | h
        · right
          have : knot t (i + K) ≤ knot t j := hs _ _ (by omega) (by omega)
          linarith
        · left
          have : knot t (j + 1) ≤ knot t i := hs _ _ (by omega) (by omega)
          linarith
      simp only [this, mul_zero])
    rw [hwin]
    exact marsden_span t hs x y j hjspec hjnext K hK (by omega) (by omega)
  · rw [heq]
    have hval : ∀ i, i < n → bsplev t (knot t (t.length - 1)) K i K = if i = n - 1 then 1 else 0 := by
      intro i hi
      rw [C14_right_end t hs K hK (by omega) i (by omega)]
      have : (i + K + 1 = t.length) ↔ (i = n - 1) := by omega
      simp only [this]
    rw [sum_congr rfl (fun i hi => by rw [hval i (mem_range.1 hi)])]
    simp only [mul_ite, mul_one, mul_zero]
    rw [sum_ite_eq' (range n) (n - 1), if_pos (mem_range.2 (by omega))]
    unfold psiN
    rw [prod_congr rfl (g := fun _ => y - knot t (t.length - 1))]
    · rw [prod_const, card_range]
    · intro r hr
      rw [mem_range] at hr
      have h1 : knot t (t.length - K) ≤ knot t (n - 1 + 1 + r) := hs _ _ (by omega) (by omega)
      have h2 : knot t (n - 1 + 1 + r) ≤ knot t (t.length - 1) := hs _ _ (by omega) (by omega)
      rw [eL] at h1
      rw [le_antisymm h2 h1]

/-! ### every polynomial of degree below the order is a spline -/
open Polynomial

/-- the dual polynomials as polynomials -/
noncomputable def psiPoly (t : List ℝ) (n i : Nat) : ℝ[X] := ∏ r ∈ range n, (X - C (knot t (i + 1 + r)))

theorem psiPoly_eval (t : List ℝ) (n i : Nat) (y : ℝ) : (psiPoly t n i).eval y = psiN t y n i := by
  unfold psiPoly psiN
  rw [eval_prod]
  apply prod_congr rfl
  intro r _
  simp

/-- Marsden's identity as an identity of polynomials in `y` -/
theorem marsden_poly (t : List ℝ) (hs : SortedKnots t) (K : Nat) (hK : 1 ≤ K)
    (he : EndKnots t K) (x : ℝ) (hx0 : knot t 0 ≤ x) (hx1 : x ≤ knot t (t.length - 1)) :
    ∑ i ∈ range (t.length - K), C (bsplev t x K i K) * psiPoly t (K - 1) i = (X + C (-x)) ^ (K - 1) := by
  apply Polynomial.funext
  intro y
  rw [eval_finsetSum]
  simp only [eval_mul, eval_C, psiPoly_eval, eval_pow, eval_add, eval_X]
  have := marsden_domain t hs K hK he x y hx0 hx1
  rw [← sub_eq_add_neg, ← this]
  apply sum_congr rfl
  intro i _; ring

/-- the monomials `x^d`, `d < K`, are splines (coefficients from Marsden's identity) -/
theorem monomial_in_span (t : List ℝ) (hs : SortedKnots t) (K : Nat) (hK : 1 ≤ K)
    (he : EndKnots t K) (x : ℝ) (hx0 : knot t 0 ≤ x) (hx1 : x ≤ knot t (t.length - 1)) (d : Nat) (hd : d < K) :
    ∑ i ∈ range (t.length - K),
        ((-1) ^ d / ((K - 1).choose (K - 1 - d) : ℝ) * (psiPoly t (K - 1) i).coeff (K - 1 - d)) * bsplev t x K i K
      = x ^ d := by
  have h := congrArg (fun q : ℝ[X] => q.coeff (K - 1 - d)) (marsden_poly t hs K hK he x hx0 hx1)
  simp only [finsetSum_coeff, coeff_C_mul, coeff_X_add_C_pow] at h
  have hkd : K - 1 - (K - 1 - d) = d := by omega
  rw [hkd] at h
  have hch : ((K - 1).choose (K - 1 - d) : ℝ) ≠ 0 := by
    have : 0 < (K - 1).choose (K - 1 - d) := Nat.choose_pos (by omega)
    exact_mod_cast this.ne'
  have hx : x ^ d = (-1) ^ d / ((K - 1).choose (K - 1 - d) : ℝ) * ((-x) ^ d * ((K - 1).choose (K - 1 - d) : ℝ)) := by
    have h1 : (-1 : ℝ) ^ d * (-x) ^ d = x ^ d := by rw [← mul_pow]; simp
    field_simp
    exact h1.symm
  rw [hx, ← h, mul_sum]
  apply sum_congr rfl
  intro i _; ring

/-- the B-spline coefficients of a polynomial of degree below the order -/
noncomputable def marsdenCoef (t : List ℝ) (K : Nat) (p : ℝ[X]) (i : Nat) : ℝ :=
  ∑ d ∈ range K, p.coeff d * ((-1) ^ d / ((K - 1).choose (K - 1 - d) : ℝ) * (psiPoly t (K - 1) i).coeff (K - 1 - d))

/-- EVERY POLYNOMIAL OF DEGREE BELOW THE ORDER IS A SPLINE on the whole domain, right end point included. -/
theorem poly_in_span (t : List ℝ) (hs : SortedKnots t) (K : Nat) (hK : 1 ≤ K)
    (he : EndKnots t K) (p : ℝ[X]) (hp : p.natDegree < K)
    (x : ℝ) (hx0 : knot t 0 ≤ x) (hx1 : x ≤ knot t (t.length - 1)) :
    ∑ i ∈ range (t.length - K), marsdenCoef t K p i * bsplev t x K i K = p.eval x := by
  rw [eval_eq_sum_range' hp x]
  unfold marsdenCoef
  simp only [sum_mul]
  rw [sum_comm]
  apply sum_congr rfl
  intro d hd
  rw [mem_range] at hd
  rw [← monomial_in_span t hs K hK he x hx0 hx1 d hd, mul_sum]
  apply sum_congr rfl
  intro i _; ring

end Rateslib
