import RateslibModel.Model.Dates
namespace Rateslib

theorem toDay_add (y m d k : Int) : toDay y m (d + k) = toDay y m d + k := by
  simp only [toDay]; omega

theorem monthLen_bounds (y m : Int) (h1 : 1 ≤ m) (h2 : m ≤ 12) : 28 ≤ monthLen y m ∧ monthLen y m ≤ 31 := by
  unfold monthLen
  repeat' split
  all_goals first | omega | (simp_all; omega) | simp_all

theorem addMonthsYm_spec (y mo k : Int) (h1 : 1 ≤ mo) (h2 : mo ≤ 12) :
    (addMonthsYm y mo k).1 * 12 + ((addMonthsYm y mo k).2 - 1) = y * 12 + (mo - 1) + k
    ∧ 1 ≤ (addMonthsYm y mo k).2 ∧ (addMonthsYm y mo k).2 ≤ 12 := by
  unfold addMonthsYm
  simp only
  rcases Int.lt_trichotomy k 0 with hk | hk | hk
  · have hs : k.sign = -1 := Int.sign_eq_neg_one_of_neg hk
    rw [hs]; repeat' split
    all_goals omega
  · subst hk; simp; repeat' split
    all_goals omega
  · have hs : k.sign = 1 := Int.sign_eq_one_of_pos hk
    rw [hs]; repeat' split
    all_goals omega

end Rateslib

namespace Rateslib

theorem validYmd_iff (y m d : Int) :
    validYmd y m d = true ↔ 1 ≤ m ∧ m ≤ 12 ∧ 1 ≤ d ∧ d ≤ monthLen y m := by
  simp [validYmd, and_assoc]

/-- `get_roll_by_day` caps the requested day at the month length. -/
theorem getRollByDayAux_spec (y m : Int) (h1 : 1 ≤ m) (h2 : m ≤ 12) :
    ∀ (f : Nat) (day : Int), 1 ≤ day → day ≤ 31 → day < f →
      getRollByDayAux y m f day = .ok ⟨y, m, min day (monthLen y m)⟩ := by
  have hb := monthLen_bounds y m h1 h2
  intro f
  induction f with
  | zero => intro day _ _ h; omega
  | succ f ih =>
    intro day hd1 hd2 hf
    unfold getRollByDayAux
    by_cases hv : validYmd y m day = true
    · rw [if_pos hv]
      have := (validYmd_iff y m day).1 hv
      have : min day (monthLen y m) = day := by omega
      rw [this]
    · rw [if_neg hv]
      have hgt : monthLen y m < day := by
        have : ¬ (1 ≤ m ∧ m ≤ 12 ∧ 1 ≤ day ∧ day ≤ monthLen y m) :=
          fun h => hv ((validYmd_iff y m day).2 h)
        omega
      have h28 : day > 28 := by omega
      rw [if_pos h28, ih (day - 1) (by omega) (by omega) (by omega)]
      congr 2
      omega

theorem getRollByDay_spec (y m day : Int) (h1 : 1 ≤ m) (h2 : m ≤ 12) (hd1 : 1 ≤ day) (hd2 : day ≤ 31) :
    getRollByDay y m day = .ok ⟨y, m, min day (monthLen y m)⟩ := by
  unfold getRollByDay
  exact getRollByDayAux_spec y m h1 h2 _ day hd1 hd2 (by omega)

theorem getEom_spec (y m : Int) (h1 : 1 ≤ m) (h2 : m ≤ 12) :
    getEom y m = .ok ⟨y, m, monthLen y m⟩ := by
  have hb := monthLen_bounds y m h1 h2
  have hv : ∀ d, validYmd y m d = true ↔ (1 ≤ d ∧ d ≤ monthLen y m) := by
    intro d; rw [validYmd_iff]; omega
  unfold getEom
  have h : monthLen y m = 31 ∨ monthLen y m = 30 ∨ monthLen y m = 29 ∨ monthLen y m = 28 := by omega
  rcases h with h | h | h | h
  · simp [getEomAux, hv, h]
  · simp [getEomAux, hv, h]
  · simp [getEomAux, hv, h]
  · simp [getEomAux, hv, h]

theorem weekday_getImm (y m : Int) :
    weekday (toDay y m (getImm y m).d) = 2 ∧ 15 ≤ (getImm y m).d ∧ (getImm y m).d ≤ 21
      ∧ (getImm y m).y = y ∧ (getImm y m).m = m := by
  have h17 : toDay y m 17 = toDay y m 1 + 16 := by simp only [toDay]; omega
  have h16 : toDay y m 16 = toDay y m 1 + 15 := by simp only [toDay]; omega
  have h15 : toDay y m 15 = toDay y m 1 + 14 := by simp only [toDay]; omega
  have h21 : toDay y m 21 = toDay y m 1 + 20 := by simp only [toDay]; omega
  have h20 : toDay y m 20 = toDay y m 1 + 19 := by simp only [toDay]; omega
  have h19 : toDay y m 19 = toDay y m 1 + 18 := by simp only [toDay]; omega
  have h18 : toDay y m 18 = toDay y m 1 + 17 := by simp only [toDay]; omega
  unfold getImm
  have hw : 0 ≤ weekday (toDay y m 1) ∧ weekday (toDay y m 1) < 7 := by unfold weekday; omega
  split <;> simp_all [weekday] <;> omega

end Rateslib
