import RateslibModel.Model.Curve
import Mathlib.Data.List.Perm.Basic
import Mathlib.Data.List.Nodup
namespace Rateslib
open List

variable {β : Type}

theorem perm_insertByKey (k : Int) (v : β) : ∀ l : List (Int × β), insertByKey k v l ~ (k, v) :: l := by
  intro l
  induction l with
  | nil => exact Perm.refl _
  | cons p rest ih =>
    obtain ⟨k', v'⟩ := p
    unfold insertByKey
    split
    · exact Perm.refl _
    · exact (Perm.cons _ ih).trans (Perm.swap _ _ _)

theorem perm_sortByKey : ∀ l : List (Int × β), sortByKey l ~ l := by
  intro l
  induction l with
  | nil => exact Perm.refl _
  | cons p rest ih =>
    show insertByKey p.1 p.2 (sortByKey rest) ~ p :: rest
    exact (perm_insertByKey p.1 p.2 _).trans (Perm.cons _ ih)

theorem sorted_insertByKey (k : Int) (v : β) : ∀ l : List (Int × β),
    l.Pairwise (fun p q => p.1 ≤ q.1) → (insertByKey k v l).Pairwise (fun p q => p.1 ≤ q.1) := by
  intro l
  induction l with
  | nil => intro _; simp [insertByKey]
  | cons p rest ih =>
    intro h
    obtain ⟨k', v'⟩ := p
    rw [pairwise_cons] at h
    unfold insertByKey
    split
    · rename_i hlt
      rw [pairwise_cons]
      refine ⟨?_, pairwise_cons.2 h⟩
      intro q hq
      rcases mem_cons.1 hq with rfl | hq
      · simp only; omega
      · have := h.1 q hq; simp only at this ⊢; omega
    · rename_i hge
      rw [pairwise_cons]
      refine ⟨?_, ih h.2⟩
      intro q hq
      have hq' := (perm_insertByKey k v rest).mem_iff.1 hq
      rcases mem_cons.1 hq' with rfl | hq'
      · simp only; omega
      · exact h.1 q hq'

theorem sorted_sortByKey : ∀ l : List (Int × β), (sortByKey l).Pairwise (fun p q => p.1 ≤ q.1) := by
  intro l
  induction l with
  | nil => simp [sortByKey]
  | cons p rest ih => exact sorted_insertByKey p.1 p.2 _ ih

/-- the supply order of the nodes does not matter (distinct dates) -/
theorem sortByKey_perm_invariant (l₁ l₂ : List (Int × β)) (hp : l₁ ~ l₂)
    (hd : (l₁.map Prod.fst).Nodup) : sortByKey l₁ = sortByKey l₂ := by
  have hperm : sortByKey l₁ ~ sortByKey l₂ := (perm_sortByKey l₁).trans (hp.trans (perm_sortByKey l₂).symm)
  refine Perm.eq_of_pairwise ?_ (sorted_sortByKey l₁) (sorted_sortByKey l₂) hperm
  intro a b ha hb hab hba
  have ha' : a ∈ l₁ := (perm_sortByKey l₁).mem_iff.1 ha
  have hb' : b ∈ l₁ := hp.mem_iff.2 ((perm_sortByKey l₂).mem_iff.1 hb)
  have hk : a.1 = b.1 := by omega
  -- distinct keys: equal key ⇒ equal pair
  exact List.inj_on_of_nodup_map hd ha' hb' hk


/-- mapping over `(range n).zip` of float-wrapped values = mapping over the bare values -/
theorem zip_range_map_f64 {α γ : Type} (xs : List α) (g : Nat × Number α → γ) (g' : Nat × α → γ)
    (h : ∀ i x, g (i, Number.f64 x) = g' (i, x)) :
    ((List.range xs.length).zip (xs.map Number.f64)).map g = ((List.range xs.length).zip xs).map g' := by
  rw [List.zip_map_right, List.map_map]
  apply List.map_congr_left
  intro p _
  exact h p.1 p.2

end Rateslib
