import RateslibModel.Proofs.Gauss
namespace Rateslib
open Finset

variable {R : Type} [CommRing R] [Div R] (ge : R → R → Bool)

/-- columns `< j` are eliminated below the diagonal -/
def ZerosBelow (n j : Nat) (s : Sys R) : Prop := ∀ r c, c < j → c < r → r < n → s.a r c = 0

theorem pivotIdx_bounds (n j : Nat) (a : Nat → Nat → R) (hj : j < n) :
    j ≤ @pivotIdx R (ringLinOps ge) n j a ∧ @pivotIdx R (ringLinOps ge) n j a < n := by
  unfold pivotIdx
  have key : ∀ (l : List Nat) (best : Nat), (j ≤ best ∧ best < n) → (∀ r ∈ l, j ≤ r ∧ r < n) →
      j ≤ l.foldl (fun best r => if @LinOps.absGe R (ringLinOps ge) (a r j) (a best j) then r else best) best ∧
      l.foldl (fun best r => if @LinOps.absGe R (ringLinOps ge) (a r j) (a best j) then r else best) best < n := by
    intro l
    induction l with
    | nil => intro best hb _; exact hb
    | cons r rs ih =>
      intro best hb hl
      rw [List.foldl_cons]
      apply ih
      · split
        · exact hl r List.mem_cons_self
        · exact hb
      · intro r' hr'; exact hl r' (List.mem_cons_of_mem _ hr')
  apply key _ j ⟨le_refl j, hj⟩
  intro r hr
  rw [List.mem_range'_1] at hr
  omega

/-- the system at step `j` after the row swap -/
def swapped (n : Nat) (s : Sys R) (j : Nat) : Sys R :=
  let k := @pivotIdx R (ringLinOps ge) n j s.a
  if j ≠ k then swapRows s j k else s

theorem elimStep_eq (n : Nat) (s : Sys R) (j : Nat) :
    @elimStep R (ringLinOps ge) n s j
      = (List.range' (j + 1) (n - (j + 1))).foldl (@elimRow R (ringLinOps ge) n j) (swapped ge n s j) := rfl

theorem swapped_spec (n : Nat) (s : Sys R) (j : Nat) (hj : j < n) (hz : ZerosBelow n j s) :
    ZerosBelow n j (swapped ge n s j) ∧ (∀ x, Sol n (swapped ge n s j) x ↔ Sol n s x) ∧
    (∀ r, r < j → (swapped ge n s j).a r = s.a r ∧ (swapped ge n s j).b r = s.b r) := by
  obtain ⟨k1, k2⟩ := pivotIdx_bounds ge n j s.a hj
  unfold swapped
  simp only
  split
  · rename_i hne
    refine ⟨?_, fun x => swap_sol n s j _ hj k2 x, ?_⟩
    · intro r c hc hcr hr
      simp only [swapRows]
      split
      · exact hz _ c hc (by omega) k2
      · split
        · exact hz j c hc (by omega) hj
        · exact hz r c hc hcr hr
    · intro r hr
      have h1 : r ≠ j := by omega
      have h2 : r ≠ @pivotIdx R (ringLinOps ge) n j s.a := by omega
      constructor
      · funext c; simp [swapRows, h1, h2]
      · simp [swapRows, h1, h2]
  · exact ⟨hz, fun _ => Iff.rfl, fun _ _ => ⟨rfl, rfl⟩⟩

/-- invariant of the inner loop over the rows below the pivot row -/
structure InnerInv (n j : Nat) (s1 s' : Sys R) : Prop where
  rowj : s'.a j = s1.a j ∧ s'.b j = s1.b j
  zeros : ZerosBelow n j s'
  sol : ∀ x, Sol n s' x ↔ Sol n s1 x
  above : ∀ r, r < j → s'.a r = s1.a r ∧ s'.b r = s1.b r

theorem inner_loop (n j : Nat) (s1 : Sys R) (hj : j < n) (hg : Good (s1.a j j)) :
    ∀ (ls : List Nat) (s' : Sys R), (∀ l ∈ ls, j < l ∧ l < n) → InnerInv n j s1 s' →
      InnerInv n j s1 (ls.foldl (@elimRow R (ringLinOps ge) n j) s') ∧
      (∀ l ∈ ls, (ls.foldl (@elimRow R (ringLinOps ge) n j) s').a l j = 0) ∧
      (∀ l, s'.a l j = 0 → (ls.foldl (@elimRow R (ringLinOps ge) n j) s').a l j = 0) := by
  intro ls
  induction ls with
  | nil => intro s' _ h; exact ⟨h, ⟨fun _ hl => absurd hl (List.not_mem_nil), fun _ h0 => h0⟩⟩
  | cons l ls ih =>
    intro s' hls hinv
    have hl := hls l List.mem_cons_self
    have hlj : l ≠ j := by omega
    have hz : ∀ c, c < j → s'.a j c = 0 ∧ s'.a l c = 0 := by
      intro c hc
      refine ⟨?_, hinv.zeros l c hc (by omega) hl.2⟩
      by_cases hcj : c < j
      · -- row j, column c < j: zero by the invariant (c < j = r)
        exact hinv.zeros j c hc hc hj
      · omega
    have hg' : Good (s'.a j j) := by rw [hinv.rowj.1]; exact hg
    have hstep : InnerInv n j s1 (@elimRow R (ringLinOps ge) n j s' l) := by
      refine ⟨?_, ?_, ?_, ?_⟩
      · obtain ⟨e1, e2⟩ := elimRow_other ge n j l s' j (Ne.symm hlj)
        exact ⟨e1.trans hinv.rowj.1, e2.trans hinv.rowj.2⟩
      · intro r c hc hcr hr
        by_cases hrl : r = l
        · subst hrl
          rw [elimRow_entries ge n j r s' hj hz hg' c (by omega), (hz c hc).1, (hz c hc).2]; ring
        · rw [(elimRow_other ge n j l s' r hrl).1]; exact hinv.zeros r c hc hcr hr
      · intro x
        exact (elimRow_sol ge n j l s' hj hl.2 hlj hz hg' x).trans (hinv.sol x)
      · intro r hr
        have hrl : r ≠ l := by omega
        obtain ⟨e1, e2⟩ := elimRow_other ge n j l s' r hrl
        exact ⟨e1.trans (hinv.above r hr).1, e2.trans (hinv.above r hr).2⟩
    obtain ⟨i1, i2, i3⟩ := ih _ (fun l' hl' => hls l' (List.mem_cons_of_mem _ hl')) hstep
    rw [List.foldl_cons]
    refine ⟨i1, ?_, ?_⟩
    · intro l' hl'
      rcases List.mem_cons.1 hl' with rfl | hl'
      · apply i3
        rw [elimRow_entries ge n j l' s' hj hz hg' j hj, hg' (s'.a l' j)]; ring
      · exact i2 l' hl'
    · intro l' h0
      apply i3
      by_cases hll : l' = l
      · subst hll
        rw [elimRow_entries ge n j l' s' hj hz hg' j hj, hg' (s'.a l' j)]; ring
      · rw [(elimRow_other ge n j l s' l' hll).1]; exact h0

/-- one column step: the next column is eliminated, the solution set is unchanged, finished rows and
the pivot row are final -/
theorem elimStep_spec (n : Nat) (s : Sys R) (j : Nat) (hj : j < n) (hz : ZerosBelow n j s)
    (hg : Good ((swapped ge n s j).a j j)) :
    ZerosBelow n (j + 1) (@elimStep R (ringLinOps ge) n s j) ∧
    (∀ x, Sol n (@elimStep R (ringLinOps ge) n s j) x ↔ Sol n s x) ∧
    (∀ r, r < j → (@elimStep R (ringLinOps ge) n s j).a r = s.a r ∧ (@elimStep R (ringLinOps ge) n s j).b r = s.b r) ∧
    (@elimStep R (ringLinOps ge) n s j).a j = (swapped ge n s j).a j := by
  obtain ⟨z1, z2, z3⟩ := swapped_spec ge n s j hj hz
  have hinv0 : InnerInv n j (swapped ge n s j) (swapped ge n s j) :=
    ⟨⟨rfl, rfl⟩, z1, fun _ => Iff.rfl, fun _ _ => ⟨rfl, rfl⟩⟩
  have hls : ∀ l ∈ List.range' (j + 1) (n - (j + 1)), j < l ∧ l < n := by
    intro l hl; rw [List.mem_range'_1] at hl; omega
  obtain ⟨i1, i2, _⟩ := inner_loop ge n j (swapped ge n s j) hj hg _ _ hls hinv0
  rw [elimStep_eq]
  refine ⟨?_, fun x => (i1.sol x).trans (z2 x), ?_, i1.rowj.1⟩
  · intro r c hc hcr hr
    by_cases hcj : c = j
    · subst hcj
      exact i2 r (by rw [List.mem_range'_1]; omega)
    · exact i1.zeros r c (by omega) hcr hr
  · intro r hr
    exact ⟨(i1.above r hr).1.trans (z3 r hr).1, (i1.above r hr).2.trans (z3 r hr).2⟩

/-- every pivot met by the forward elimination can be divided by -/
def PivotsGood (n : Nat) : List Nat → Sys R → Prop
  | [], _ => True
  | j :: js, s => Good ((swapped ge n s j).a j j) ∧ PivotsGood n js (@elimStep R (ringLinOps ge) n s j)

theorem forward_spec (n : Nat) : ∀ (k j : Nat) (s : Sys R), j + k = n → ZerosBelow n j s →
    (∀ i, i < j → Good (s.a i i)) → PivotsGood ge n (List.range' j k) s →
    let u := (List.range' j k).foldl (@elimStep R (ringLinOps ge) n) s
    ZerosBelow n n u ∧ (∀ x, Sol n u x ↔ Sol n s x) ∧ (∀ i, i < n → Good (u.a i i)) := by
  intro k
  induction k with
  | zero =>
    intro j s hjk hz hd _
    have : j = n := by omega
    subst this
    exact ⟨hz, fun _ => Iff.rfl, hd⟩
  | succ k ih =>
    intro j s hjk hz hd hp
    have hj : j < n := by omega
    rw [List.range'_succ] at hp ⊢
    obtain ⟨hg, hp'⟩ := hp
    obtain ⟨e1, e2, e3, e4⟩ := elimStep_spec ge n s j hj hz hg
    have hd' : ∀ i, i < j + 1 → Good ((@elimStep R (ringLinOps ge) n s j).a i i) := by
      intro i hi
      by_cases hij : i = j
      · subst hij; rw [e4]; exact hg
      · rw [(e3 i (by omega)).1]; exact hd i (by omega)
    obtain ⟨f1, f2, f3⟩ := ih (j + 1) _ (by omega) e1 hd' hp'
    simp only [List.foldl_cons]
    exact ⟨f1, fun x => (f2 x).trans (e2 x), f3⟩

end Rateslib
