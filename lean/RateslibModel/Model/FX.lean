/-
Model of rust/fx/rates/mod.rs: `FXRates::try_new`, `create_fx_array`, `create_initial_edges`,
`create_initial_fx_array`, the recursive triangulation `mut_arrays_remaining_elements`, `rate`,
`update`, `set_ad_order`.

The `n × n` arrays (`Array2<T>`, `Array2<i16>`) are modelled as functions `Nat → Nat → _` with
functional update; only indices `< n` are ever read.  Currencies are their (lower-cased) names.
-/
import RateslibModel.Model.Dual
import RateslibModel.Model.Dates
namespace Rateslib

/-- the arithmetic the triangulation needs on the three element types -/
class FxOps (τ : Type) where
  mul : τ → τ → τ
  /-- `1.0_f64 / &x` -/
  recip : τ → τ
  one : τ

section
variable {α : Type} [Add α] [Sub α] [Mul α] [Div α] [Neg α] [OfNat α 0] [OfNat α 1] [OfNat α 2]
  [Transc α]

instance fxOpsScalar : FxOps α where
  mul := (· * ·)
  recip := fun x => 1 / x
  one := 1

instance fxOpsDual : FxOps (Dual α) where
  mul := Dual.mul false
  recip := fun x => Dual.fDiv 1 x
  one := Dual.new 1 []

instance fxOpsDual2 : FxOps (Dual2 α) where
  mul := Dual2.mul false
  recip := fun x => Dual2.fDiv 1 x
  one := Dual2.new 1 []
end

def upd2 {β : Type} (f : Nat → Nat → β) (i j : Nat) (v : β) : Nat → Nat → β :=
  fun a b => if a = i ∧ b = j then v else f a b

structure FxArr (τ : Type) where
  fx : Nat → Nat → τ
  edges : Nat → Nat → Bool

variable {τ : Type} [FxOps τ]

/-- `create_initial_edges` + `create_initial_fx_array`: identity, then each quote and its reciprocal.
`pairs` are (row, col, rate) with indices into the currency list. -/
def initArr (pairs : List (Nat × Nat × τ)) (zero : τ) : FxArr τ :=
  pairs.foldl
    (fun acc p =>
      let (row, col, r) := p
      let fx1 := upd2 acc.fx row col r
      let fx2 := upd2 fx1 col row (FxOps.recip (fx1 row col))
      ⟨fx2, upd2 (upd2 acc.edges row col true) col row true⟩)
    ⟨fun a b => if a = b then FxOps.one else zero, fun a b => decide (a = b)⟩

def edgeCount (n : Nat) (edges : Nat → Nat → Bool) : Nat :=
  ((List.range n).map (fun i => ((List.range n).filter (fun j => edges i j)).length)).sum

def rowSum (n : Nat) (edges : Nat → Nat → Bool) (i : Nat) : Nat :=
  ((List.range n).filter (fun j => edges i j)).length

/-- `Iterator::max_by_key`: the LAST maximal element -/
def lastMaxBy (l : List (Nat × Nat)) : Option (Nat × Nat) :=
  l.foldl (fun acc x => match acc with
    | none => some x
    | some m => if x.1 ≥ m.1 then some x else some m) none

/-- index-ordered 2-combinations of a list -/
def pairsOf : List Nat → List (Nat × Nat)
  | [] => []
  | x :: xs => xs.map (fun y => (x, y)) ++ pairsOf xs

/-- one pass of the body of `mut_arrays_remaining_elements` for the chosen `node`: populate every
unpopulated pair of its neighbours through `node`; returns the new arrays and the number populated -/
def fillNode (n : Nat) (a : FxArr τ) (node : Nat) : FxArr τ × Nat :=
  let nbrs := (List.range n).filter (fun i => a.edges node i && i != node)
  let combos := (pairsOf nbrs).filter (fun c => !a.edges c.1 c.2)
  let a' := combos.foldl
    (fun acc c =>
      let v := FxOps.mul (acc.fx c.1 node) (acc.fx node c.2)
      let fx1 := upd2 acc.fx c.1 c.2 v
      let fx2 := upd2 fx1 c.2 c.1 (FxOps.recip (fx1 c.1 c.2))
      ⟨fx2, upd2 (upd2 acc.edges c.1 c.2 true) c.2 c.1 true⟩)
    a
  (a', combos.length)

/-- `mut_arrays_remaining_elements` with fuel; `none` = the error "cannot be solved" (or fuel
exhausted) -/
def fill (n : Nat) : Nat → FxArr τ → List Nat → Option (FxArr τ)
  | 0, _, _ => none
  | fuel + 1, a, prev =>
    if edgeCount n a.edges = n * n then some a
    else
      let avail := ((List.range n).filter (fun i => !prev.contains i)).map (fun i => (rowSum n a.edges i, i))
      match lastMaxBy avail with
      | none => none
      | some (_, node) =>
        let (a', counter) := fillNode n a node
        if counter = 0 then fill n fuel a' (node :: prev)
        else fill n fuel a' [node]

def fillFuel (n : Nat) : Nat := (n * n + 1) * (n + 1) + 1

/-! ### the `FXRates` object -/

structure FXQuote (α : Type) where
  lhs : String
  rhs : String
  rate : Number α
  settlement : Option Int

inductive FxArray (α : Type) where
  | f64 (a : Nat → Nat → α)
  | dual (a : Nat → Nat → Dual α)
  | dual2 (a : Nat → Nat → Dual2 α)

structure FXRates (α : Type) where
  quotes : List (FXQuote α)
  currencies : List String
  arr : FxArray α

section
variable {α : Type} [Add α] [Sub α] [Mul α] [Div α] [Neg α] [OfNat α 0] [OfNat α 1] [OfNat α 2]
  [Transc α]

/-- `IndexSet` insertion: keep first occurrences -/
def insertCcy (l : List String) (c : String) : List String := if l.contains c then l else l ++ [c]

def fxCurrencies (quotes : List (FXQuote α)) (base : Option String) : List String :=
  quotes.foldl (fun acc q => insertCcy (insertCcy acc q.lhs) q.rhs)
    (match base with | some b => [b] | none => [])

def fxVarName (q : FXQuote α) : String := "fx_" ++ q.lhs ++ q.rhs

def pairIdx (currencies : List String) (q : FXQuote α) : Nat × Nat :=
  (currencies.idxOf q.lhs, currencies.idxOf q.rhs)

/-- `create_fx_array`: lift every quote to the requested order (floats are tagged `fx_<pair>`; dual
quotes keep their own variables), seed, triangulate.  `none` = the error result. -/
def createFxArray (currencies : List String) (quotes : List (FXQuote α)) (ad : ADOrder) :
    Option (FxArray α) :=
  let n := currencies.length
  let lifted := quotes.map (fun q => (pairIdx currencies q, setOrder q.rate ad [fxVarName q]))
  match ad with
  | .zero =>
    let ps := lifted.map (fun p => (p.1.1, p.1.2, p.2.toF64))
    (fill n (fillFuel n) (initArr ps (0 : α)) []).map (fun a => FxArray.f64 a.fx)
  | .one =>
    let ps := lifted.map (fun p => (p.1.1, p.1.2, p.2.toDual))
    (fill n (fillFuel n) (initArr ps (Dual.new (0 : α) [])) []).map (fun a => FxArray.dual a.fx)
  | .two =>
    let ps := lifted.map (fun p => (p.1.1, p.1.2, p.2.toDual2))
    (fill n (fillFuel n) (initArr ps (Dual2.new (0 : α) [])) []).map (fun a => FxArray.dual2 a.fx)

inductive FxErr where
  | empty | underspecified | overspecified | settlement | unsolvable | unknownPair
deriving DecidableEq, Repr

/-- `FXRates::try_new` -/
def FXRates.tryNew (quotes : List (FXQuote α)) (base : Option String) : Except FxErr (FXRates α) :=
  if quotes.isEmpty then .error .empty
  else
    let currencies := fxCurrencies quotes base
    let q := currencies.length
    if q > quotes.length + 1 then .error .underspecified
    else if q < quotes.length + 1 then .error .overspecified
    else
      let s0 := (quotes.head?.map (·.settlement)).getD none
      let consistent := match s0 with
        | some d => quotes.all (fun x => x.settlement == some d)
        | none => quotes.all (fun x => x.settlement.isNone)
      if !consistent then .error .settlement
      else match createFxArray currencies quotes .one with
        | none => .error .unsolvable
        | some arr => .ok ⟨quotes, currencies, arr⟩

/-- `FXRates::rate` -/
def FXRates.rate (f : FXRates α) (lhs rhs : String) : Option (Number α) :=
  if f.currencies.contains lhs && f.currencies.contains rhs then
    let i := f.currencies.idxOf lhs
    let j := f.currencies.idxOf rhs
    match f.arr with
    | .f64 a => some (.f64 (a i j))
    | .dual a => some (.dual (a i j))
    | .dual2 a => some (.dual2 (a i j))
  else none

def samePair (a b : FXQuote α) : Bool := a.lhs == b.lhs && a.rhs == b.rhs

/-- `FXRates::update`: refuse unknown pairs; otherwise replace the matching quote (the LAST match)
and rebuild from the current first currency. -/
def FXRates.update (f : FXRates α) (news : List (FXQuote α)) : Except FxErr (FXRates α) :=
  if !(news.all (fun v => f.quotes.any (fun x => samePair x v))) then .error .unknownPair
  else
    let quotes' := news.foldl
      (fun qs fxr =>
        let idx := ((List.range qs.length).zip qs).foldl
          (fun a p => if samePair fxr p.2 then p.1 else a) 0
        qs.set idx fxr)
      f.quotes
    FXRates.tryNew quotes' f.currencies.head?

def FxArray.ad : FxArray α → ADOrder
  | .f64 _ => .zero | .dual _ => .one | .dual2 _ => .two

/-- `FXRates::set_ad_order` -/
def FXRates.setAdOrder (f : FXRates α) (ad : ADOrder) : Except FxErr (FXRates α) :=
  match ad, f.arr with
  | .zero, .f64 _ => .ok f
  | .one, .dual _ => .ok f
  | .two, .dual2 _ => .ok f
  | .one, .f64 _ | .two, .f64 _ | .two, .dual _ =>
    match createFxArray f.currencies f.quotes ad with
    | none => .error .unsolvable
    | some arr => .ok { f with arr := arr }
  | .one, .dual2 a => .ok { f with arr := .dual (fun i j => Dual.ofDual2 (a i j)) }
  | .zero, .dual a => .ok { f with arr := .f64 (fun i j => (a i j).real) }
  | .zero, .dual2 a => .ok { f with arr := .f64 (fun i j => (a i j).real) }

end
end Rateslib
