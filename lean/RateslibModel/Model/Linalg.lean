/-
Model of rust/dual/linalg/linalg_dual.rs and linalg_f64.rs: Gaussian elimination with partial
pivoting on generic numbers (`dsolve21_`, `dsolve_upper21_`, `argabsmax`, `row_swap`/`el_swap`,
`dsolve` with the least-squares branch, `dmul11_/21_/22_`) and the float-matrix variant (`fdsolve21_`,
`fdsolve_upper21_`, `fdsolve`).  Matrices are functions `Nat → Nat → τ`, vectors `Nat → τ`; only
indices `< n` are read.
-/
import RateslibModel.Model.Dual
namespace Rateslib

/-- the arithmetic of the generic solver -/
class LinOps (τ : Type) where
  add : τ → τ → τ
  sub : τ → τ → τ
  mul : τ → τ → τ
  div : τ → τ → τ
  zero : τ
  /-- `x.abs().partial_cmp(&y.abs()) != Less`, i.e. |x| ≥ |y| (comparison on the real parts) -/
  absGe : τ → τ → Bool

structure Sys (τ : Type) where
  a : Nat → Nat → τ
  b : Nat → τ

variable {τ : Type} [LinOps τ]

/-- `Iterator::sum` of products over the index list (left fold from zero) -/
def dotOver (idx : List Nat) (f g : Nat → τ) : τ :=
  idx.foldl (fun acc m => LinOps.add acc (LinOps.mul (f m) (g m))) LinOps.zero

/-- `argabsmax` over rows `j..n-1` of column `j` (+ j): index of the LAST element of maximal |·| -/
def pivotIdx (n j : Nat) (a : Nat → Nat → τ) : Nat :=
  (List.range' j (n - j)).foldl (fun best r => if LinOps.absGe (a r j) (a best j) then r else best) j

/-- `row_swap` + `el_swap` -/
def swapRows (s : Sys τ) (j k : Nat) : Sys τ :=
  ⟨fun r c => if r = j then s.a k c else if r = k then s.a j c else s.a r c,
   fun r => if r = j then s.b k else if r = k then s.b j else s.b r⟩

/-- reduction of row `l` by the pivot row `j` (dsolve21_ inner loops): columns `> j` are updated,
column `j` is set to zero explicitly, columns `< j` are left alone -/
def elimRow (n j : Nat) (s : Sys τ) (l : Nat) : Sys τ :=
  let scl := LinOps.div (s.a l j) (s.a j j)
  ⟨fun r c =>
      if r = l then
        (if c = j then LinOps.zero
         else if j < c ∧ c < n then LinOps.sub (s.a l c) (LinOps.mul scl (s.a j c))
         else s.a l c)
      else s.a r c,
   fun r => if r = l then LinOps.sub (s.b l) (LinOps.mul scl (s.b j)) else s.b r⟩

def elimStep (n : Nat) (s : Sys τ) (j : Nat) : Sys τ :=
  let k := pivotIdx n j s.a
  let s1 := if j ≠ k then swapRows s j k else s
  (List.range' (j + 1) (n - (j + 1))).foldl (elimRow n j) s1

def forwardElim (n : Nat) (s : Sys τ) : Sys τ := (List.range n).foldl (elimStep n) s

/-- `dsolve_upper21_`: back substitution from the last row up -/
def backSubst (n : Nat) (s : Sys τ) : Nat → τ :=
  (List.range n).reverse.foldl
    (fun x i =>
      let v := LinOps.sub (s.b i) (dotOver (List.range' (i + 1) (n - (i + 1))) (s.a i) x)
      fun r => if r = i then LinOps.div v (s.a i i) else x r)
    (fun _ => LinOps.zero)

/-- `dsolve21_` -/
def dsolve21 (n : Nat) (s : Sys τ) : Nat → τ := backSubst n (forwardElim n s)

/-- `dsolve`: with `allow_lsq` solve the normal equations `AᵀA x = Aᵀb` (`rows × n` system) -/
def dsolve (rows n : Nat) (s : Sys τ) (allowLsq : Bool) : Nat → τ :=
  if allowLsq then
    dsolve21 n ⟨fun i j => dotOver (List.range rows) (fun r => s.a r i) (fun r => s.a r j),
                fun i => dotOver (List.range rows) (fun r => s.a r i) s.b⟩
  else dsolve21 n s

/-! ### float matrix, generic right-hand side (`fdsolve`) -/

/-- `f64 * T`, `T - T`, zero of `T` -/
class ModOps (α τ : Type) where
  smul : α → τ → τ
  sub : τ → τ → τ
  add : τ → τ → τ
  zero : τ

structure FSys (α τ : Type) where
  a : Nat → Nat → α
  b : Nat → τ

section
variable {α σ : Type} [LinOps α] [ModOps α σ] [OfNat α 1]

def fdotOver (idx : List Nat) (f : Nat → α) (g : Nat → σ) : σ :=
  idx.foldl (fun acc m => ModOps.add (α := α) acc (ModOps.smul (f m) (g m))) (ModOps.zero α)

def fswapRows (s : FSys α σ) (j k : Nat) : FSys α σ :=
  ⟨fun r c => if r = j then s.a k c else if r = k then s.a j c else s.a r c,
   fun r => if r = j then s.b k else if r = k then s.b j else s.b r⟩

def felimRow (n j : Nat) (s : FSys α σ) (l : Nat) : FSys α σ :=
  let scl := LinOps.div (s.a l j) (s.a j j)
  ⟨fun r c =>
      if r = l then
        (if c = j then LinOps.zero
         else if j < c ∧ c < n then LinOps.sub (s.a l c) (LinOps.mul scl (s.a j c))
         else s.a l c)
      else s.a r c,
   fun r => if r = l then ModOps.sub (α := α) (s.b l) (ModOps.smul scl (s.b j)) else s.b r⟩

def felimStep (n : Nat) (s : FSys α σ) (j : Nat) : FSys α σ :=
  let k := pivotIdx n j s.a
  let s1 := if j ≠ k then fswapRows s j k else s
  (List.range' (j + 1) (n - (j + 1))).foldl (felimRow n j) s1

def fforwardElim (n : Nat) (s : FSys α σ) : FSys α σ := (List.range n).foldl (felimStep n) s

/-- `fdsolve_upper21_`: `x[i] = (1.0 / u[i][i]) * v` -/
def fbackSubst (n : Nat) (s : FSys α σ) : Nat → σ :=
  (List.range n).reverse.foldl
    (fun x i =>
      let v := ModOps.sub (α := α) (s.b i) (fdotOver (List.range' (i + 1) (n - (i + 1))) (s.a i) x)
      fun r => if r = i then ModOps.smul (LinOps.div (1 : α) (s.a i i)) v else x r)
    (fun _ => ModOps.zero α)

def fdsolve21 (n : Nat) (s : FSys α σ) : Nat → σ := fbackSubst n (fforwardElim n s)

def fdsolve (rows n : Nat) (s : FSys α σ) (allowLsq : Bool) : Nat → σ :=
  if allowLsq then
    fdsolve21 n ⟨fun i j => dotOver (List.range rows) (fun r => s.a r i) (fun r => s.a r j),
                 fun i => fdotOver (List.range rows) (fun r => s.a r i) s.b⟩
  else fdsolve21 n s

end

/-! ### instances for the three number types -/
section
variable {α : Type} [Add α] [Sub α] [Mul α] [Div α] [Neg α] [OfNat α 0] [OfNat α 1] [OfNat α 2]
  [Transc α]

def absS (x : α) : α := if Transc.ltb x 0 then -x else x

instance linOpsScalar : LinOps α where
  add := (· + ·)
  sub := (· - ·)
  mul := (· * ·)
  div := (· / ·)
  zero := 0
  absGe := fun x y => !(Transc.ltb (absS x) (absS y))

instance linOpsDual : LinOps (Dual α) where
  add := Dual.add false
  sub := Dual.sub false
  mul := Dual.mul false
  div := Dual.div false
  zero := Dual.new 0 []
  absGe := fun x y => !(Transc.ltb (absS x.real) (absS y.real))

instance linOpsDual2 : LinOps (Dual2 α) where
  add := Dual2.add false
  sub := Dual2.sub false
  mul := Dual2.mul false
  div := Dual2.div false
  zero := Dual2.new 0 []
  absGe := fun x y => !(Transc.ltb (absS x.real) (absS y.real))

instance modOpsScalar : ModOps α α where
  smul := (· * ·)
  sub := (· - ·)
  add := (· + ·)
  zero := 0

instance modOpsDual : ModOps α (Dual α) where
  smul := fun f d => Dual.fMul f d
  sub := Dual.sub false
  add := Dual.add false
  zero := Dual.new 0 []

instance modOpsDual2 : ModOps α (Dual2 α) where
  smul := fun f d => Dual2.mulF d f
  sub := Dual2.sub false
  add := Dual2.add false
  zero := Dual2.new 0 []
end

end Rateslib
