/-
Model of rust/curves: `index_left` (interpolation/utils.rs), the five interpolation rules, node
sorting and AD-order management of `CurveDF` (curve.rs) and of the Python-facing constructor
(`nodes_into_order`, curve_py.rs), `index_value`.
Timestamps are `Int` seconds; a date is `day * 86400`.
-/
import RateslibModel.Model.Dual
import RateslibModel.Model.Dates
namespace Rateslib

/-- `index_left` (utils.rs:69-92) on a list with order test `le` and equality test `eq`.
`none` = the implementation panics (length 0 or 1).  `fuel` bounds the recursion depth. -/
def indexLeftAux {β : Type} (le eq : β → β → Bool) : Nat → List β → β → Nat → Option Nat
  | 0, _, _, _ => none
  | fuel + 1, l, v, lc =>
    match l.length with
    | 0 => none
    | 1 => none
    | 2 => some lc
    | n =>
      let split := (n - 1) / 2
      match l[split]? with
      | none => none
      | some m =>
        if n == 3 && eq v m then some lc
        else if le v m then indexLeftAux le eq fuel (l.take (split + 1)) v lc
        else indexLeftAux le eq fuel (l.drop split) v (lc + split)

def indexLeft {β : Type} (le eq : β → β → Bool) (l : List β) (v : β) : Option Nat :=
  indexLeftAux le eq (l.length + 1) l v 0

def indexLeftInt (l : List Int) (v : Int) : Option Nat :=
  indexLeft (fun a b => decide (a ≤ b)) (fun a b => decide (a = b)) l v

inductive Interp where
  | logLinear | linear | linearZeroRate | flatForward | flatBackward | null
deriving DecidableEq, Repr

/-- the arithmetic the generic interpolation formulas need, for each of the three value types -/
class NumOps (α : Type) (τ : Type) where
  add : τ → τ → τ
  sub : τ → τ → τ
  mulF : τ → α → τ
  log : τ → τ
  exp : τ → τ

section
variable {α : Type} [Add α] [Sub α] [Mul α] [Div α] [Neg α] [OfNat α 0] [OfNat α 1] [OfNat α 2]
  [Transc α]

instance : NumOps α α where
  add := (· + ·)
  sub := (· - ·)
  mulF := (· * ·)
  log := Transc.ln
  exp := Transc.exp

instance : NumOps α (Dual α) where
  add := Dual.add false
  sub := Dual.sub false
  mulF := Dual.mulF
  log := Dual.log
  exp := Dual.exp

instance : NumOps α (Dual2 α) where
  add := Dual2.add false
  sub := Dual2.sub false
  mulF := Dual2.mulF
  log := Dual2.log
  exp := Dual2.exp

variable {τ : Type} [NumOps α τ]

/-- `linear_interp`: `y1 + (y2 - y1) * ((x - x1) / (x2 - x1))` -/
def linearInterp (x1 : α) (y1 : τ) (x2 : α) (y2 : τ) (x : α) : τ :=
  NumOps.add (α := α) y1 (NumOps.mulF (NumOps.sub (α := α) y2 y1) ((x - x1) / (x2 - x1)))

/-- `log_linear_interp` -/
def logLinearInterp (x1 : α) (y1 : τ) (x2 : α) (y2 : τ) (x : α) : τ :=
  NumOps.exp (α := α) (linearInterp x1 (NumOps.log (α := α) y1) x2 (NumOps.log (α := α) y2) x)

/-- `linear_zero_interp` -/
def linearZeroInterp (x0 x1 : α) (y1 : τ) (x2 : α) (y2 : τ) (x : α) : τ :=
  let t1 := x1 - x0
  let t2 := x2 - x0
  let t := x - x0
  let r2 : τ := NumOps.mulF (NumOps.log (α := α) y2) (-1 / t2)
  let r : τ :=
    if Transc.eqb t1 0 then r2
    else
      let r1 : τ := NumOps.mulF (NumOps.log (α := α) y1) (-1 / t1)
      NumOps.add (α := α) r1 (NumOps.mulF (NumOps.sub (α := α) r2 r1) ((t - t1) / (t2 - t1)))
  NumOps.exp (α := α) (NumOps.mulF r (-t))

/-- the value one rule returns on the interval `[index, index+1]` of sorted nodes -/
def interpOn (rule : Interp) (keys : List Int) (vals : List τ) (index : Nat) (x : Int) : Option τ := do
  let x1 ← keys[index]?
  let y1 ← vals[index]?
  let x2 ← keys[index + 1]?
  let y2 ← vals[index + 1]?
  let f : Int → α := Transc.ofInt
  match rule with
  | .linear => some (linearInterp (f x1) y1 (f x2) y2 (f x))
  | .logLinear => some (logLinearInterp (f x1) y1 (f x2) y2 (f x))
  | .linearZeroRate => do
    let x0 ← keys[0]?
    some (linearZeroInterp (f x0) (f x1) y1 (f x2) y2 (f x))
  | .flatForward => some (if x ≥ x2 then y2 else y1)
  | .flatBackward => some (if x ≤ x1 then y1 else y2)
  | .null => none

/-- insertion sort of (key, value) pairs by key (IndexMap::sort_keys is stable; keys are distinct) -/
def insertByKey {β : Type} (k : Int) (v : β) : List (Int × β) → List (Int × β)
  | [] => [(k, v)]
  | (k', v') :: rest => if k < k' then (k, v) :: (k', v') :: rest else (k', v') :: insertByKey k v rest

def sortByKey {β : Type} (l : List (Int × β)) : List (Int × β) :=
  l.foldr (fun p acc => insertByKey p.1 p.2 acc) []

/-- nodes of one AD order -/
inductive NodeVals (α : Type) where
  | f64 (v : List α)
  | dual (v : List (Dual α))
  | dual2 (v : List (Dual2 α))

structure Curve (α : Type) where
  keys : List Int
  vals : NodeVals α
  interp : Interp
  id : String
  indexBase : Option α

def NodeVals.ad : NodeVals α → ADOrder
  | .f64 _ => .zero | .dual _ => .one | .dual2 _ => .two

def NodeVals.toNumbers : NodeVals α → List (Number α)
  | .f64 v => v.map Number.f64 | .dual v => v.map Number.dual | .dual2 v => v.map Number.dual2

/-- `nodes_into_order` (curve_py.rs:230-248) followed by `CurveDF::try_new`: sort by date, then bring
every node to the requested order, tagging the i-th sorted node `<id><i>` when it is a float. -/
def Curve.new (nodes : List (Int × Number α)) (interp : Interp) (ad : ADOrder) (id : String)
    (indexBase : Option α) : Curve α :=
  let sorted := sortByKey nodes
  let vars := getVariableTags id sorted.length
  let keys := sorted.map Prod.fst
  let tagged := (List.range sorted.length).zip (sorted.map Prod.snd)
  let tag (i : Nat) : List String := [vars.getD i ""]
  let vals : NodeVals α := match ad with
    | .zero => .f64 (tagged.map (fun p => p.2.toF64))
    | .one => .dual (tagged.map (fun p => (setOrder p.2 .one (tag p.1)).toDual))
    | .two => .dual2 (tagged.map (fun p => (setOrder p.2 .two (tag p.1)).toDual2))
  ⟨keys, vals, interp, id, indexBase⟩

/-- `CurveDF::set_ad_order` (curve.rs:77-132) -/
def Curve.setAdOrder (c : Curve α) (ad : ADOrder) : Curve α :=
  let vars := getVariableTags c.id c.keys.length
  let tag (i : Nat) : List String := [vars.getD i ""]
  let vals : NodeVals α := match ad, c.vals with
    | .zero, .f64 v => .f64 v
    | .one, .dual v => .dual v
    | .two, .dual2 v => .dual2 v
    | .one, .f64 v => .dual (((List.range v.length).zip v).map (fun p => Dual.new p.2 (tag p.1)))
    | .two, .f64 v => .dual2 (((List.range v.length).zip v).map (fun p => Dual2.new p.2 (tag p.1)))
    | .one, .dual2 v => .dual (v.map Dual.ofDual2)
    | .zero, .dual v => .f64 (v.map (·.real))
    | .zero, .dual2 v => .f64 (v.map (·.real))
    | .two, .dual v => .dual2 (v.map Dual2.ofDual)
  { c with vals := vals }

/-- `CurveDF::interpolated_value`; `none` = panic (null interpolator, fewer than two nodes) -/
def Curve.value (c : Curve α) (ts : Int) : Option (Number α) := do
  let index ← indexLeftInt c.keys ts
  match c.vals with
  | .f64 v => (interpOn (α := α) c.interp c.keys v index ts).map Number.f64
  | .dual v => (interpOn (α := α) c.interp c.keys v index ts).map Number.dual
  | .dual2 v => (interpOn (α := α) c.interp c.keys v index ts).map Number.dual2

/-- `CurveDF::index_value`: `ok none` = panic inside the look-up -/
def Curve.indexValue (c : Curve α) (ts : Int) : Outcome (Number α) :=
  match c.indexBase with
  | none => .err
  | some ib =>
    match c.keys.head? with
    | none => .panic "index_value:first_key"
    | some k0 =>
      if ts < k0 then .ok (.f64 0)
      else match c.value ts with
        | none => .panic "index_value:interpolated_value"
        | some v => .ok (fOpNumber .div ib v)

end
end Rateslib
