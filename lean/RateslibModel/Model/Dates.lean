/-
Model of the civil-calendar layer used by rust/calendars/dateroll.rs.

A date is a day number (`Int`) counted from 1970-01-01 (= 0).  All datetimes in
the library's own tables are midnight; times of day are not modelled.
`chrono` itself is *modelled, not verified*: `toDay`/`ofDay`/`weekday` are
compared with chrono on every date 1970-01-01..2200-12-31 by the correspondence
check (exhaustive).
-/
namespace Rateslib

/-- Gregorian leap-year rule. -/
def isLeapRule (y : Int) : Bool :=
  (y % 4 == 0 && y % 100 != 0) || y % 400 == 0

/-- Length of month `m` (1..12) of year `y`; 0 for an invalid month. -/
def monthLen (y : Int) (m : Int) : Int :=
  if m == 2 then (if isLeapRule y then 29 else 28)
  else if m == 4 || m == 6 || m == 9 || m == 11 then 30
  else if 1 ≤ m && m ≤ 12 then 31
  else 0

/-- `NaiveDate::from_ymd_opt(y, m, d).is_some()` (within chrono's year range). -/
def validYmd (y m d : Int) : Bool :=
  1 ≤ m && m ≤ 12 && 1 ≤ d && d ≤ monthLen y m

/-- days_from_civil (proleptic Gregorian), shifted so that 1970-01-01 = 0. -/
def toDay (y m d : Int) : Int :=
  let y' := if m ≤ 2 then y - 1 else y
  let era := y' / 400
  let yoe := y' - era * 400
  let mp := if m > 2 then m - 3 else m + 9
  let doy := (153 * mp + 2) / 5 + d - 1
  let doe := yoe * 365 + yoe / 4 - yoe / 100 + doy
  era * 146097 + doe - 719468

structure Ymd where
  y : Int
  m : Int
  d : Int
deriving Repr, DecidableEq, BEq

/-- civil_from_days. -/
def ofDay (n : Int) : Ymd :=
  let z := n + 719468
  let era := z / 146097
  let doe := z - era * 146097
  let yoe := (doe - doe / 1460 + doe / 36524 - doe / 146096) / 365
  let y := yoe + era * 400
  let doy := doe - (365 * yoe + yoe / 4 - yoe / 100)
  let mp := (5 * doy + 2) / 153
  let d := doy - (153 * mp + 2) / 5 + 1
  let m := if mp < 10 then mp + 3 else mp - 9
  { y := if m ≤ 2 then y + 1 else y, m := m, d := d }

def monthOf (n : Int) : Int := (ofDay n).m
def yearOf (n : Int) : Int := (ofDay n).y
def dayOf (n : Int) : Int := (ofDay n).d

/-- Weekday with 0 = Monday … 6 = Sunday (chrono's `num_days_from_monday`). -/
def weekday (n : Int) : Int := (n + 3) % 7

/-! ### Roll days (`RollDay`, `get_roll`, `get_roll_by_day`, `get_imm`, `get_eom`) -/

inductive RollDay where
  | unspecified
  | int (day : Int)
  | eom
  | som
  | imm
deriving Repr, DecidableEq

/-- Outcome of a function that may panic in the implementation. -/
inductive Outcome (α : Type) where
  | ok (a : α)
  | err
  | panic (site : String)
deriving Repr, DecidableEq

/-- `get_roll_by_day`: try `(y, m, day)`; if invalid and `day > 28` retry with `day - 1`;
otherwise the implementation panics.  Structural on a fuel that `day` itself bounds. -/
def getRollByDayAux (y m : Int) : Nat → Int → Outcome Ymd
  | 0, _ => .panic "get_roll_by_day:fuel"
  | f + 1, day =>
    if validYmd y m day then .ok ⟨y, m, day⟩
    else if day > 28 then getRollByDayAux y m f (day - 1)
    else .panic "get_roll_by_day:unexpected"

def getRollByDay (y m day : Int) : Outcome Ymd :=
  getRollByDayAux y m (day.toNat + 1) day

/-- `get_imm`: seven-way table on the weekday of the 1st. -/
def getImm (y m : Int) : Ymd :=
  match weekday (toDay y m 1) with
  | 0 => ⟨y, m, 17⟩
  | 1 => ⟨y, m, 16⟩
  | 2 => ⟨y, m, 15⟩
  | 3 => ⟨y, m, 21⟩
  | 4 => ⟨y, m, 20⟩
  | 5 => ⟨y, m, 19⟩
  | _ => ⟨y, m, 18⟩

/-- `get_eom`: count down from 31 until the date exists. -/
def getEomAux (y m : Int) : Nat → Int → Outcome Ymd
  | 0, _ => .panic "get_eom:fuel"
  | f + 1, day => if validYmd y m day then .ok ⟨y, m, day⟩ else getEomAux y m f (day - 1)

def getEom (y m : Int) : Outcome Ymd := getEomAux y m 4 31

def isLeapYear (y : Int) : Bool := validYmd y 2 29

def getRoll (y m : Int) : RollDay → Outcome Ymd
  | .int d => getRollByDay y m d
  | .eom => getRollByDay y m 31
  | .som => getRollByDay y m 1
  | .imm => .ok (getImm y m)
  | .unspecified => .err

def isImm (n : Int) : Bool :=
  let c := ofDay n
  let i := getImm c.y c.m
  n == toDay i.y i.m i.d

def isEom (n : Int) : Bool :=
  let c := ofDay n
  match getEom c.y c.m with
  | .ok e => n == toDay e.y e.m e.d
  | _ => false

/-- The year/month split of `DateRoll::add_months` (dateroll.rs:289-303): returns
`(year + yr_roll, new_month)`.  Branches at top level, final tuple per arm. -/
def addMonthsYm (y mo months : Int) : Int × Int :=
  let yr := ((months.natAbs / 12 : Nat) : Int) * months.sign
  let rem := months - yr * 12
  let nm := mo + rem
  if nm ≤ 0 then
    (if nm % 12 = 0 then (y + (yr - 1), 12) else (y + (yr - 1), nm % 12))
  else if nm ≥ 13 then
    (if nm % 12 = 0 then (y + (yr + 1), 12) else (y + (yr + 1), nm % 12))
  else
    (if nm = 0 then (y + yr, 12) else (y + yr, nm))

/-- `add_months` before business-day adjustment: the unadjusted target date. -/
def addMonthsRaw (c : Ymd) (months : Int) (roll : RollDay) : Outcome Ymd :=
  let roll' := match roll with
    | .unspecified => RollDay.int c.d
    | r => r
  let (y', m') := addMonthsYm c.y c.m months
  getRoll y' m' roll'

end Rateslib
