/-
Published holiday rules of the built-in calendars (C07), transcribed from the pandas generator
scripts rust/calendars/named/*_script.py, with pandas' semantics:
  * a yearly rule has a reference date (year, month, day) to which either an observance function or
    an offset (nth weekday via dateutil's relativedelta, or Easter + k days) is applied;
  * optional start/end dates filter the OBSERVED date;
  * one-off holidays carry their year;
  * the calendar keeps the dates in 1970-01-01..2200-12-31 (reference years 1969..2201 are tried).
This transcription is part of the specification (trusted, reviewed against the scripts).
-/
import RateslibModel.Model.Dates
namespace Rateslib

/-- Western (Gregorian) Easter Sunday, dateutil.easter method 3, as (month, day). -/
def easterMd (y : Int) : Int × Int :=
  let g := y % 19
  let c := y / 100
  let h := (c - c / 4 - (8 * c + 13) / 25 + 19 * g + 15) % 30
  let i := h - (h / 28) * (1 - (h / 28) * (29 / (h + 1)) * ((21 - g) / 11))
  let j := (y + y / 4 + i + 2 - c + c / 4) % 7
  let p := i - j
  (3 + (p + 26) / 30, 1 + (p + 27 + (p + 6) / 40) % 31)

def easterDay (y : Int) : Int := toDay y (easterMd y).1 (easterMd y).2

inductive Obs where
  | none | sundayToMonday | nearestWorkday | nextMonday | nextMondayOrTuesday
deriving DecidableEq, Repr

/-- pandas observance functions on a day number (weekday 0 = Monday) -/
def Obs.apply (o : Obs) (d : Int) : Int :=
  let w := weekday d
  match o with
  | .none => d
  | .sundayToMonday => if w = 6 then d + 1 else d
  | .nearestWorkday => if w = 5 then d - 1 else if w = 6 then d + 1 else d
  | .nextMonday => if w = 5 then d + 2 else if w = 6 then d + 1 else d
  | .nextMondayOrTuesday => if w = 5 ∨ w = 6 then d + 2 else if w = 0 then d + 1 else d

inductive RuleKind where
  /-- `Holiday(month, day, observance)` -/
  | fixed (m d : Int) (obs : Obs)
  /-- `Holiday(month, day, offset=DateOffset(weekday=WD(n)))`: n > 0: the n-th `wd` on or after the
  reference date; n < 0: the |n|-th `wd` on or before it -/
  | nthWeekday (m d wd n : Int)
  /-- `offset=[Easter(), Day(k)]` -/
  | easter (k : Int)
  /-- `Holiday(year, month, day)` -/
  | oneOff (y m d : Int)
deriving DecidableEq, Repr

structure Rule where
  kind : RuleKind
  start : Option Int := none   -- observed date must be ≥ start (day number)
  stop : Option Int := none    -- observed date must be ≤ stop
deriving DecidableEq, Repr

/-- observed dates produced by a rule for reference year `y` (at most one) -/
def RuleKind.dates (k : RuleKind) (y : Int) : List Int :=
  match k with
  | .fixed m d obs => [obs.apply (toDay y m d)]
  | .nthWeekday m d wd n =>
    let r := toDay y m d
    if n > 0 then [r + (wd - weekday r) % 7 + 7 * (n - 1)]
    else [r - (weekday r - wd) % 7 - 7 * (-n - 1)]
  | .easter k => [easterDay y + k]
  | .oneOff y' m d => if y' = y then [toDay y' m d] else []

def Rule.dates (r : Rule) (y : Int) : List Int :=
  (r.kind.dates y).filter (fun d =>
    (match r.start with | some s => decide (s ≤ d) | none => true) &&
    (match r.stop with | some e => decide (d ≤ e) | none => true))

/-- insertion into an ascending duplicate-free list -/
def insertU (x : Int) : List Int → List Int
  | [] => [x]
  | y :: ys => if x < y then x :: y :: ys else if x = y then y :: ys else y :: insertU x ys

def sortU (l : List Int) : List Int := l.foldr insertU []

def rangeLo : Int := 0
def rangeHi : Int := 84370

/-- Monday..Friday -/
def isMonFri (d : Int) : Bool := weekday d < 5

/-- all observed dates of reference year `y`, ascending, inside the supported range, weekdays only -/
def yearDates (rs : List Rule) (y : Int) : List Int :=
  sortU (((rs.map (fun r => r.dates y)).flatten).filter
    (fun d => decide (rangeLo ≤ d) && decide (d ≤ rangeHi) && isMonFri d))

def refYears : List Int := (List.range 233).map (fun (i : Nat) => 1969 + (i : Int))

/-- the weekday holidays the rules generate over 1970..2200: per reference year, ascending -/
def ruleDates (rs : List Rule) : List Int := (refYears.map (yearDates rs)).flatten

def fx (m d : Int) (o : Obs := .none) : Rule := { kind := .fixed m d o }
def nth (m d wd n : Int) : Rule := { kind := .nthWeekday m d wd n }
def east (k : Int) : Rule := { kind := .easter k }
def once (y m d : Int) : Rule := { kind := .oneOff y m d }

def goodFriday : Rule := east (-2)

def tgtRules : List Rule :=
  [fx 1 1, goodFriday, east 1, fx 5 1, fx 12 25, fx 12 26]

def nycRules : List Rule :=
  [fx 1 1 .sundayToMonday,
   { nth 1 1 0 3 with start := some (toDay 1986 1 1) },          -- MLK, 3rd Monday of January, from 1986
   nth 2 1 0 3,                                                   -- Presidents
   goodFriday,
   nth 5 31 0 (-1),                                               -- Memorial: last Monday of May
   { fx 6 19 .sundayToMonday with start := some (toDay 2022 1 1) }, -- Juneteenth from 2022
   fx 7 4 .nearestWorkday,
   nth 9 1 0 1,                                                   -- Labour
   nth 10 1 0 2,                                                  -- Columbus
   fx 11 11 .sundayToMonday,
   nth 11 1 3 4,                                                  -- Thanksgiving: 4th Thursday
   fx 12 25 .nearestWorkday,
   once 2018 12 5]

/-- 'fed' is the 'nyc' rule set without Good Friday -/
def fedRules : List Rule := nycRules.filter (· ≠ goodFriday)

def ldnRules : List Rule :=
  [fx 1 1 .nextMonday, goodFriday, east 1,
   { nth 5 1 0 1 with stop := some (toDay 2020 1 1) },
   once 2020 5 8,
   { nth 5 1 0 1 with start := some (toDay 2021 1 1) },
   { nth 5 31 0 (-1) with stop := some (toDay 2022 5 1) },
   { nth 5 31 0 (-1) with start := some (toDay 2022 7 1) },
   once 2022 6 2, once 2022 6 3, once 2022 9 19, once 2023 5 8,
   nth 8 31 0 (-1),
   fx 12 25 .nextMonday, fx 12 26 .nextMondayOrTuesday]

def stkRules : List Rule :=
  [fx 1 1, fx 1 6, goodFriday, east 1, fx 5 1, east 39, fx 6 6, nth 6 25 4 (-1),
   fx 12 24, fx 12 25, fx 12 26, fx 12 31]

def oslRules : List Rule :=
  [fx 1 1, east (-3), goodFriday, east 1, fx 5 1, fx 5 17, east 39, east 50,
   fx 12 24, fx 12 25, fx 12 26]

def zurRules : List Rule :=
  [fx 1 1, fx 1 2, goodFriday, east 1, fx 5 1, east 39, east 50, fx 8 1, fx 12 25, fx 12 26]

/-! Partial rule sets: the documented fixed-date and Easter-linked holidays of the remaining
calendars (RULES constants of the `.rs` files; start years from the generator scripts). -/

def troPartial : List Rule :=
  [fx 1 1, fx 7 1, fx 11 11, fx 12 25, fx 12 26,
   { fx 9 30 with start := some (toDay 2021 1 1) }, goodFriday]

def tyoPartial : List Rule :=
  [fx 1 1, fx 1 2, fx 1 3, fx 2 11, fx 4 29, fx 5 3, fx 5 4, fx 5 5, fx 11 3, fx 11 23, fx 12 31,
   { fx 2 23 with start := some (toDay 2020 1 1) },
   { fx 8 11 with start := some (toDay 2016 1 1), stop := some (toDay 2019 12 31) },
   { fx 8 11 with start := some (toDay 2022 1 1) },
   { fx 12 23 with stop := some (toDay 2018 12 31) }]

def sydPartial : List Rule :=
  [fx 1 1, fx 1 26, fx 4 25, fx 12 25, fx 12 26, goodFriday, east 1]

def wlgPartial : List Rule :=
  [fx 1 1, fx 1 2, fx 2 6, fx 4 25, fx 12 25, fx 12 26, goodFriday, east 1]

def mumPartial : List Rule :=
  [fx 1 26, fx 4 14, fx 5 1, fx 8 15, fx 10 2, fx 12 25, goodFriday]

/-- is every element of the ascending list `a` an element of the ascending list `b`? (merge walk) -/
def subsetSorted : List Int → List Int → Bool
  | [], _ => true
  | _ :: _, [] => false
  | x :: xs, y :: ys =>
    if x = y then subsetSorted xs (y :: ys)
    else if y < x then subsetSorted (x :: xs) ys
    else false
termination_by a b => a.length + b.length

/-- business days `lo ≤ d ≤ hi` of a calendar given by its masked weekdays and its ASCENDING list of
weekday holidays (merge walk; `n` = number of days still to visit) -/
def busDaysWalk (mask : List Int) : Nat → Int → List Int → List Int
  | 0, _, _ => []
  | n + 1, d, hols =>
    let hols' := hols.dropWhile (· < d)
    if mask.contains (weekday d) then busDaysWalk mask n (d + 1) hols'
    else match hols' with
      | h :: _ => if h = d then busDaysWalk mask n (d + 1) hols' else d :: busDaysWalk mask n (d + 1) hols'
      | [] => d :: busDaysWalk mask n (d + 1) hols'

def busDaysBetween (mask : List Int) (hols : List Int) (lo hi : Int) : List Int :=
  busDaysWalk mask ((hi - lo + 1).toNat) lo hols

end Rateslib

namespace Rateslib

/-- tail-recursive form of `busDaysWalk … = expected` (the kernel evaluates it without deep
recursion): walk the days, requiring every business day to be the next expected date -/
def busDaysCheck (mask : List Int) : Nat → Int → List Int → List Int → Bool
  | 0, _, _, expected => expected.isEmpty
  | n + 1, d, hols, expected =>
    let hols' := hols.dropWhile (· < d)
    let isHol := match hols' with
      | h :: _ => h == d
      | [] => false
    if mask.contains (weekday d) || isHol then busDaysCheck mask n (d + 1) hols' expected
    else match expected with
      | e :: es => if e = d then busDaysCheck mask n (d + 1) hols' es else false
      | [] => false

end Rateslib
