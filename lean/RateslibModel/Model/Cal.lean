/-
Model of rust/calendars/calendar.rs (Cal, UnionCal, NamedCal predicates) and of the
provided methods of the `DateRoll` trait in rust/calendars/dateroll.rs.

The unbounded `while` loops of the implementation are modelled with a fuel
argument; `none` means "fuel exhausted".  The theorems show the fuel is
sufficient whenever an eligible day exists within `fuel` days, which is what the
property quantifies over (calendars with at least one working weekday and a
finite holiday list).
-/
import RateslibModel.Model.Dates
namespace Rateslib

/-- Rust's `char::to_lowercase` on the code points the model covers exactly: Basic Latin and Latin-1
Supplement (U+0000–U+00FF) and the Cyrillic block up to U+045F, where every cased capital maps to ONE code
point at a fixed offset and every other code point maps to itself, plus the six capitals whose lower-case form
has another UTF-8 length.  Cased letters elsewhere (Greek with its context-dependent final sigma, the one-to-many
`İ`, …) are outside the modelled domain; the correspondence run
sweeps every code point of the two ranges, alone and in context (`lower` lines). -/
def lowerChar (c : Char) : Char :=
  let n := c.toNat
  if (0x41 ≤ n ∧ n ≤ 0x5A) ∨ (0xC0 ≤ n ∧ n ≤ 0xDE ∧ n ≠ 0xD7) ∨ (0x410 ≤ n ∧ n ≤ 0x42F) then Char.ofNat (n + 32)
  else if 0x400 ≤ n ∧ n ≤ 0x40F then Char.ofNat (n + 80)
  -- the capitals whose lower-case form has ANOTHER UTF-8 length (a three-byte code can stop being three bytes):
  -- Kelvin sign, Angstrom sign, Ohm sign, capital sharp s, Ⱥ, Ⱦ
  else if n = 0x212A then Char.ofNat 0x6B
  else if n = 0x212B then Char.ofNat 0xE5
  else if n = 0x2126 then Char.ofNat 0x3C9
  else if n = 0x1E9E then Char.ofNat 0xDF
  else if n = 0x23A then Char.ofNat 0x2C65
  else if n = 0x23E then Char.ofNat 0x2C66
  else c

/-- `str::to_lowercase` (used by `Ccy::try_new` and `NamedCal::try_new`) -/
def lowerStr (s : String) : String := s.map lowerChar

/-- The three primitive predicates of the `DateRoll` trait. -/
structure DR where
  isWeekday : Int → Bool
  isHoliday : Int → Bool
  isSettlement : Int → Bool

/-- `cal_date_range` -/
def calDateRange (s e : Int) : List Int :=
  (List.range ((e - s + 1).toNat)).map (fun (i : Nat) => s + (i : Int))

namespace DR

def isBus (c : DR) (d : Int) : Bool := c.isWeekday d && !c.isHoliday d
def isNonBus (c : DR) (d : Int) : Bool := !c.isBus d

/-- `roll_forward_bus_day` -/
def rollFwd (c : DR) : Nat → Int → Option Int
  | 0, _ => none
  | f + 1, d => if c.isBus d then some d else rollFwd c f (d + 1)

/-- `roll_backward_bus_day` -/
def rollBwd (c : DR) : Nat → Int → Option Int
  | 0, _ => none
  | f + 1, d => if c.isBus d then some d else rollBwd c f (d - 1)

/-- `roll_mod_forward_bus_day` -/
def rollModFwd (c : DR) (fuel : Nat) (d : Int) : Option Int :=
  match c.rollFwd fuel d with
  | none => none
  | some n => if monthOf n != monthOf d then c.rollBwd fuel d else some n

/-- `roll_mod_backward_bus_day` -/
def rollModBwd (c : DR) (fuel : Nat) (d : Int) : Option Int :=
  match c.rollBwd fuel d with
  | none => none
  | some n => if monthOf n != monthOf d then c.rollFwd fuel d else some n

/-- the `while !is_settlement` loop of `roll_forward_settled_bus_day`, entered with a business day -/
def settleFwdLoop (c : DR) (fuel : Nat) : Nat → Int → Option Int
  | 0, _ => none
  | f + 1, nd =>
    if c.isSettlement nd then some nd
    else match c.rollFwd fuel (nd + 1) with
      | none => none
      | some nd' => settleFwdLoop c fuel f nd'

def settleBwdLoop (c : DR) (fuel : Nat) : Nat → Int → Option Int
  | 0, _ => none
  | f + 1, nd =>
    if c.isSettlement nd then some nd
    else match c.rollBwd fuel (nd - 1) with
      | none => none
      | some nd' => settleBwdLoop c fuel f nd'

/-- `roll_forward_settled_bus_day` -/
def rollFwdSettled (c : DR) (fuel : Nat) (d : Int) : Option Int :=
  match c.rollFwd fuel d with
  | none => none
  | some nd => c.settleFwdLoop fuel fuel nd

/-- `roll_backward_settled_bus_day` -/
def rollBwdSettled (c : DR) (fuel : Nat) (d : Int) : Option Int :=
  match c.rollBwd fuel d with
  | none => none
  | some nd => c.settleBwdLoop fuel fuel nd

/-- `roll_forward_mod_settled_bus_day` -/
def rollFwdModSettled (c : DR) (fuel : Nat) (d : Int) : Option Int :=
  match c.rollFwdSettled fuel d with
  | none => none
  | some n => if monthOf n != monthOf d then c.rollBwdSettled fuel d else some n

/-- `roll_backward_mod_settled_bus_day` -/
def rollBwdModSettled (c : DR) (fuel : Nat) (d : Int) : Option Int :=
  match c.rollBwdSettled fuel d with
  | none => none
  | some n => if monthOf n != monthOf d then c.rollFwdSettled fuel d else some n

end DR

inductive Modifier where
  | act | f | modF | p | modP
deriving Repr, DecidableEq

namespace DR

/-- `DateRoll::roll` = `roll_with_settlement` / `roll_without_settlement`. -/
def roll (c : DR) (fuel : Nat) (d : Int) (m : Modifier) (settlement : Bool) : Option Int :=
  if settlement then
    match m with
    | .act => some d
    | .f => c.rollFwdSettled fuel d
    | .p => c.rollBwdSettled fuel d
    | .modF => c.rollFwdModSettled fuel d
    | .modP => c.rollBwdModSettled fuel d
  else
    match m with
    | .act => some d
    | .f => c.rollFwd fuel d
    | .p => c.rollBwd fuel d
    | .modF => c.rollModFwd fuel d
    | .modP => c.rollModBwd fuel d

/-- forward counter loop of `add_bus_days`: `k` remaining iterations -/
def stepFwd (c : DR) (fuel : Nat) : Nat → Int → Option Int
  | 0, d => some d
  | k + 1, d => match c.rollFwd fuel (d + 1) with
    | none => none
    | some d' => stepFwd c fuel k d'

def stepBwd (c : DR) (fuel : Nat) : Nat → Int → Option Int
  | 0, d => some d
  | k + 1, d => match c.rollBwd fuel (d - 1) with
    | none => none
    | some d' => stepBwd c fuel k d'

/-- `add_bus_days`.  `days` is the `i8` argument as an `Int`.
Result: `ok (some r)`, `err` for a non-business start, `ok none` for exhausted fuel. -/
def addBusDays (c : DR) (fuel : Nat) (d : Int) (days : Int) (settlement : Bool) :
    Outcome (Option Int) :=
  if c.isNonBus d then .err
  else if days < 0 then
    match c.stepBwd fuel days.natAbs d with
    | none => .ok none
    | some nd => if !settlement then .ok (some nd) else .ok (c.rollBwdSettled fuel nd)
  else
    match c.stepFwd fuel days.natAbs d with
    | none => .ok none
    | some nd => if !settlement then .ok (some nd) else .ok (c.rollFwdSettled fuel nd)

/-- the `i8` arithmetic `days + 1` / `days - 1` in `lag`: overflow is a panic site
(only reachable for non-business input dates). -/
def i8ok (x : Int) : Bool := -128 ≤ x && x ≤ 127

/-- `lag`; the inner `.unwrap()` is a panic site when `add_bus_days` errs. -/
def lag (c : DR) (fuel : Nat) (d : Int) (days : Int) (settlement : Bool) : Outcome (Option Int) :=
  if c.isBus d then
    match c.addBusDays fuel d days settlement with
    | .err => .panic "lag:unwrap"
    | o => o
  else if days = 0 then .ok (c.rollFwd fuel d)
  else if days < 0 then
    match c.rollBwd fuel d with
    | none => .ok none
    | some s =>
      match c.addBusDays fuel s (days + 1) settlement with
      | .err => .panic "lag:unwrap"
      | o => o
  else
    match c.rollFwd fuel d with
    | none => .ok none
    | some s =>
      match c.addBusDays fuel s (days - 1) settlement with
      | .err => .panic "lag:unwrap"
      | o => o

/-- `add_days`: `date ∓ Days::new(days.unsigned_abs())`, then `roll`.  (Before the repair recorded in
known_findings.json the code negated the `i8` and panicked for `days = -128`.) -/
def addDays (c : DR) (fuel : Nat) (d : Int) (days : Int) (m : Modifier) (settlement : Bool) :
    Outcome (Option Int) :=
  if days < 0 then .ok (c.roll fuel (d - (days.natAbs : Int)) m settlement)
  else .ok (c.roll fuel (d + days) m settlement)

/-- `bus_date_range`: loop `while sample <= end { push; sample = add_bus_days(sample, 1) }`. -/
def busRangeLoop (c : DR) (fuel : Nat) (e : Int) : Nat → Int → List Int → Option (List Int)
  | 0, _, _ => none
  | f + 1, s, acc =>
    if s ≤ e then
      match c.rollFwd fuel (s + 1) with
      | none => none
      | some s' => busRangeLoop c fuel e f s' (acc ++ [s])
    else some acc

def busDateRange (c : DR) (fuel : Nat) (s e : Int) : Outcome (Option (List Int)) :=
  if c.isNonBus s || c.isNonBus e then .err
  else .ok (c.busRangeLoop fuel e ((e - s).toNat + 2) s [])

/-- `add_months`: raw target date, then `roll`. -/
def addMonths (c : DR) (fuel : Nat) (d : Int) (months : Int) (m : Modifier) (roll : RollDay)
    (settlement : Bool) : Outcome (Option Int) :=
  match addMonthsRaw (ofDay d) months roll with
  | .ok t => .ok (c.roll fuel (toDay t.y t.m t.d) m settlement)
  | .err => .panic "add_months:get_roll.unwrap"
  | .panic s => .panic s

end DR

/-! ### Concrete calendars -/

/-- `Cal`: `mask w = true` iff weekday `w` (0 = Mon) is excluded from the working week;
`hol d = true` iff `d` is in the holiday set. -/
structure Cal where
  mask : Int → Bool
  hol : Int → Bool

def Cal.toDR (c : Cal) : DR where
  isWeekday d := !c.mask (weekday d)
  isHoliday d := c.hol d
  isSettlement _ := true

structure UnionCal where
  calendars : List Cal
  settlement : Option (List Cal)

def UnionCal.toDR (u : UnionCal) : DR where
  isWeekday d := u.calendars.all (fun c => c.toDR.isWeekday d)
  isHoliday d := u.calendars.any (fun c => c.toDR.isHoliday d)
  isSettlement d := match u.settlement with
    | none => true
    | some v => !v.any (fun c => c.toDR.isNonBus d)

/-- Range of the behavioural equality: 1970-01-01 ..= 2200-12-31. -/
def eqLo : Int := 0
def eqHi : Int := 84370

/-- `PartialEq` between calendars of any kind (calendar.rs:224-270). -/
def drEq (a b : DR) : Bool :=
  (calDateRange eqLo eqHi).all (fun x =>
    a.isBus x == b.isBus x && a.isSettlement x == b.isSettlement x)

end Rateslib

namespace Rateslib

/-- `parse_cals`: split on ',' and look every part up in the table of built-in calendars. -/
def lookupAll (table : String → Option Cal) : List String → Option (List Cal)
  | [] => some []
  | n :: ns =>
    match table n with
    | none => none
    | some c =>
      match lookupAll table ns with
      | none => none
      | some cs => some (c :: cs)

def parseCals (table : String → Option Cal) (s : String) : Option (List Cal) :=
  lookupAll table (s.splitOn ",")

/-- `NamedCal::try_new` (calendar.rs:116-144).  Rust's Unicode `to_lowercase` is modelled by
`lowerStr`.  Returns the stored (lower-cased) name and the union calendar. -/
def namedTryNew (table : String → Option Cal) (name : String) : Outcome (String × UnionCal) :=
  let name_ := lowerStr name
  match name_.splitOn "|" with
  | [p0] =>
    match parseCals table p0 with
    | none => .err
    | some cs => .ok (name_, ⟨cs, none⟩)
  | [p0, p1] =>
    match parseCals table p0 with
    | none => .err
    | some cs =>
      match parseCals table p1 with
      | none => .err
      | some ss => .ok (name_, ⟨cs, some ss⟩)
  | _ => .err

end Rateslib
