/-
Model of rust/dual/dual.rs and rust/dual/dual_ops/*.rs: first- and second-order dual numbers,
their variable-list management, arithmetic, elementary functions, comparisons, gradient read-back,
the `Number` container and AD-order conversion.

Polymorphic in the scalar `α` through the core operator classes, so that the same definitions run
on `Float` in the driver and are reasoned about over `ℝ` (or any commutative ring / field) in the
proofs.  `Array1` = `List α`, `Array2` = `List (List α)` (row-major).  The `Arc` identity of the
variable list is the explicit Boolean `ptrEq` argument of every binary operation.
-/
namespace Rateslib

/-- scalar functions outside the ring operations (glibc / statrs in the implementation) -/
class Transc (α : Type) where
  exp : α → α
  ln : α → α
  powf : α → α → α
  sqrt : α → α
  pi : α
  ncdf : α → α
  nicdf : α → α
  trunc : α → α
  fmod : α → α → α
  signum : α → α
  ltb : α → α → Bool
  leb : α → α → Bool
  eqb : α → α → Bool
  /-- `i64 as f64` -/
  ofInt : Int → α

structure Dual (α : Type) where
  real : α
  vars : List String
  dual : List α
deriving Repr

structure Dual2 (α : Type) where
  real : α
  vars : List String
  dual : List α
  dual2 : List (List α)
deriving Repr

inductive VarsRel where
  | arcEq | valEq | superset | subset | difference
deriving DecidableEq, Repr

/-- `Vars::vars_cmp` (dual.rs:66-84): the five-way classification, LHS relative to RHS. -/
def varsCmp (ptrEq : Bool) (a b : List String) : VarsRel :=
  if ptrEq then .arcEq
  else if a == b then .valEq
  else if a.length ≥ b.length && b.all (fun v => a.contains v) then .superset
  else if a.length < b.length && a.all (fun v => b.contains v) then .subset
  else .difference

/-- `IndexSet::from_iter`: keep the first occurrence of every name -/
def dedup : List String → List String
  | [] => []
  | x :: xs => x :: (dedup xs).filter (· != x)

/-- `IndexSet::union`: the left list followed by the right names not in the left -/
def unionVars (a b : List String) : List String := a ++ b.filter (fun v => !a.contains v)

section Generic
variable {α : Type} [Add α] [Sub α] [Mul α] [Div α] [Neg α] [OfNat α 0] [OfNat α 1] [OfNat α 2]

def vadd (a b : List α) : List α := List.zipWith (· + ·) a b
def vsub (a b : List α) : List α := List.zipWith (· - ·) a b
/-- `s * &v` -/
def vscaleL (s : α) (v : List α) : List α := v.map (s * ·)
/-- `&v * s` -/
def vscaleR (v : List α) (s : α) : List α := v.map (· * s)
def vneg (v : List α) : List α := v.map (fun x => -x)
def madd (a b : List (List α)) : List (List α) := List.zipWith vadd a b
def msub (a b : List (List α)) : List (List α) := List.zipWith vsub a b
def mscaleL (s : α) (m : List (List α)) : List (List α) := m.map (vscaleL s)
def mscaleR (m : List (List α)) (s : α) : List (List α) := m.map (fun r => vscaleR r s)
def mneg (m : List (List α)) : List (List α) := m.map vneg
/-- `fouter11_` (linalg_f64.rs): outer product -/
def outer (a b : List α) : List (List α) := a.map (fun x => b.map (fun y => x * y))
def zerosV (n : Nat) : List α := List.replicate n 0
def onesV (n : Nat) : List α := List.replicate n 1
def zerosM (n m : Nat) : List (List α) := List.replicate n (zerosV m)
/-- transpose of an `n × n` matrix given its column count -/
def transposeM (n : Nat) (m : List (List α)) : List (List α) :=
  (List.range n).map (fun j => m.map (fun r => r.getD j 0))
def half : α := 1 / 2

/-- `lookup_or_zero` -/
def lookupOrZero (vars : List String) (dual : List α) (v : String) : α :=
  match vars.idxOf? v with
  | some i => dual.getD i 0
  | none => 0

def lookup2OrZero (vars : List String) (m : List (List α)) (v w : String) : α :=
  match vars.idxOf? v, vars.idxOf? w with
  | some i, some j => (m.getD i []).getD j 0
  | _, _ => 0

namespace Dual

/-- `Dual::new`: unit sensitivity to every (de-duplicated) name -/
def new (real : α) (vars : List String) : Dual α :=
  let v := dedup vars
  ⟨real, v, onesV v.length⟩

/-- `Dual::try_new`; `none` = the error result -/
def tryNew (real : α) (vars : List String) (dual : List α) : Option (Dual α) :=
  let v := dedup vars
  let d := if dual.isEmpty then onesV v.length else dual
  if v.length != d.length then none else some ⟨real, v, d⟩

/-- `Vars::to_new_vars` with a given state -/
def toNewVars (d : Dual α) (nv : List String) (state : VarsRel) : Dual α :=
  match state with
  | .arcEq | .valEq => ⟨d.real, nv, d.dual⟩
  | _ => ⟨d.real, nv, nv.map (lookupOrZero d.vars d.dual)⟩

/-- `Dual::new_from` (dual.rs): `Dual::new` re-indexed onto ANOTHER number's variable list
(`to_new_vars(other.vars(), None)`: the state is computed by `vars_cmp`; the fresh list is never the
same allocation as the other's) -/
def newFrom (otherVars : List String) (real : α) (vars : List String) : Dual α :=
  let d := Dual.new real vars
  d.toNewVars otherVars (varsCmp false d.vars otherVars)

/-- `Dual::try_new_from` (dual.rs); `none` = the error result of `try_new` -/
def tryNewFrom (otherVars : List String) (real : α) (vars : List String) (dual : List α) :
    Option (Dual α) :=
  match tryNew real vars dual with
  | none => none
  | some d => some (d.toNewVars otherVars (varsCmp false d.vars otherVars))

/-- `Vars::to_union_vars` with a given state -/
def toUnionVars (a b : Dual α) (state : VarsRel) : Dual α × Dual α :=
  match state with
  | .arcEq => (a, b)
  | .valEq => (a, b.toNewVars a.vars .valEq)
  | .superset => (a, b.toNewVars a.vars .subset)
  | .subset => (a.toNewVars b.vars .subset, b)
  | .difference =>
    let cv := unionVars a.vars b.vars
    (a.toNewVars cv .difference, b.toNewVars cv .difference)

/-- the aligned pair every binary operation works on -/
def aligned (ptrEq : Bool) (a b : Dual α) : Dual α × Dual α :=
  match varsCmp ptrEq a.vars b.vars with
  | .arcEq => (a, b)
  | .valEq => (a, b)
  | st => toUnionVars a b st

def add (ptrEq : Bool) (a b : Dual α) : Dual α :=
  let (x, y) := aligned ptrEq a b
  ⟨x.real + y.real, x.vars, vadd x.dual y.dual⟩

def sub (ptrEq : Bool) (a b : Dual α) : Dual α :=
  let (x, y) := aligned ptrEq a b
  ⟨x.real - y.real, x.vars, vsub x.dual y.dual⟩

def mul (ptrEq : Bool) (a b : Dual α) : Dual α :=
  let (x, y) := aligned ptrEq a b
  ⟨x.real * y.real, x.vars, vadd (vscaleR x.dual y.real) (vscaleR y.dual x.real)⟩

/-- `Dual / Dual`: `a * (1/b.real, -1/(b.real²) * b.dual)`; the reciprocal shares `b`'s list -/
def div (ptrEq : Bool) (a b : Dual α) : Dual α :=
  let b_ : Dual α := ⟨1 / b.real, b.vars, vscaleL (-1 / (b.real * b.real)) b.dual⟩
  mul ptrEq a b_

def addF (a : Dual α) (b : α) : Dual α := ⟨a.real + b, a.vars, a.dual⟩
def fAdd (b : α) (a : Dual α) : Dual α := ⟨a.real + b, a.vars, a.dual⟩   -- commutative expansion
def subF (a : Dual α) (b : α) : Dual α := ⟨a.real - b, a.vars, a.dual⟩
def fSub (a : α) (b : Dual α) : Dual α := ⟨a - b.real, b.vars, vneg b.dual⟩
def mulF (a : Dual α) (b : α) : Dual α := ⟨a.real * b, a.vars, vscaleL b a.dual⟩
def fMul (b : α) (a : Dual α) : Dual α := ⟨a.real * b, a.vars, vscaleL b a.dual⟩   -- commutative expansion
def divF (a : Dual α) (b : α) : Dual α := ⟨a.real / b, a.vars, vscaleL (1 / b) a.dual⟩

def neg (a : Dual α) : Dual α := ⟨-a.real, a.vars, vneg a.dual⟩
/-- borrowed negation: `&a.dual * -1.0` -/
def negRef (a : Dual α) : Dual α := ⟨-a.real, a.vars, vscaleR a.dual (-1)⟩

variable [Transc α]

/-- `coeff_pow(c, x, e)`: the power `x^e` as a factor of a derivative coefficient `c · x^e`; zero when the
coefficient is exactly zero (also at `x = 0`, where `x^e` is infinite) — the repair of the `0 · ∞ = NaN`
defect of `pow` recorded in known_findings.json -/
def coeffPow (c x e : α) : α := if Transc.eqb c 0 then 0 else Transc.powf x e

/-- `Pow<f64>`: `dual * power * coeff_pow(power, real, power-1)` -/
def pow (a : Dual α) (p : α) : Dual α :=
  ⟨Transc.powf a.real p, a.vars, vscaleR (vscaleR a.dual p) (coeffPow p a.real (p - 1))⟩

/-- `f64 / Dual`: value `a / x`, derivative `−a / x²` (after the repair recorded in known_findings.json; before
it the code computed `a * x.pow(-1)`, whose value is 1 ulp off the quotient for some `x`) -/
def fDiv (a : α) (b : Dual α) : Dual α :=
  ⟨a / b.real, b.vars, vscaleL (-a / (b.real * b.real)) b.dual⟩

def exp (a : Dual α) : Dual α :=
  let c := Transc.exp a.real
  ⟨c, a.vars, vscaleL c a.dual⟩

def log (a : Dual α) : Dual α := ⟨Transc.ln a.real, a.vars, vscaleL (1 / a.real) a.dual⟩

/-- the density factor `1/sqrt(2π) * exp(-0.5 * x²)` as the code computes it -/
def normPdf (x : α) : α :=
  1 / Transc.sqrt (2 * Transc.pi) * Transc.exp (-half * Transc.powf x 2)

def normCdf (a : Dual α) : Dual α :=
  ⟨Transc.ncdf a.real, a.vars, vscaleL (normPdf a.real) a.dual⟩

/-- `sqrt(2π) * exp(0.5 * base²)` -/
def invPdf (base : α) : α := Transc.sqrt (2 * Transc.pi) * Transc.exp (half * Transc.powf base 2)

def invNormCdf (a : Dual α) : Dual α :=
  let base := Transc.nicdf a.real
  ⟨base, a.vars, vscaleL (invPdf base) a.dual⟩

/-- `Signed::abs`: tests `real > 0` -/
def abs (a : Dual α) : Dual α :=
  if Transc.ltb 0 a.real then ⟨a.real, a.vars, a.dual⟩ else ⟨-a.real, a.vars, vscaleL (-1) a.dual⟩

def signum (a : Dual α) : Dual α := Dual.new (Transc.signum a.real) []

/-- `Dual % Dual = a - trunc(a.real / b.real) * b` -/
def rem (ptrEq : Bool) (a b : Dual α) : Dual α :=
  let d := Transc.trunc (a.real / b.real)
  sub ptrEq a (fMul d b)

def remF (a : Dual α) (b : α) : Dual α := ⟨Transc.fmod a.real b, a.vars, a.dual⟩
/-- `f64 % Dual = Dual::new(a, []) % b` (never pointer-equal) -/
def fRem (a : α) (b : Dual α) : Dual α := rem false (Dual.new a []) b

/-- `PartialEq<Dual> for Dual` -/
def eq (ptrEq : Bool) (a b : Dual α) : Bool :=
  if !Transc.eqb a.real b.real then false
  else
    let (x, y) := aligned ptrEq a b
    x.dual.length == y.dual.length && (List.zipWith Transc.eqb x.dual y.dual).all id

def eqF (a : Dual α) (b : α) : Bool := eq false (Dual.new b []) a
def lt (a b : Dual α) : Bool := Transc.ltb a.real b.real
def le (a b : Dual α) : Bool := Transc.leb a.real b.real
def ltF (a : Dual α) (b : α) : Bool := Transc.ltb a.real b
def fLt (a : α) (b : Dual α) : Bool := Transc.ltb a b.real

/-- `Signed::abs_sub` -/
def absSub (ptrEq : Bool) (a b : Dual α) : Dual α :=
  if le a b then Dual.new 0 [] else sub ptrEq a b

/-- `Sum`: fold from a variable-free zero, adding left to right (no operand shares storage with
the fresh zero; later partial sums share with whatever the previous addition returned, which the
model does not need to track because `add` with `ptrEq = false` is layout-independent — C03) -/
def sum (xs : List (Dual α)) : Dual α := xs.foldl (fun acc x => add false acc x) (Dual.new 0 [])

/-- `Gradient1::gradient1` (dual.rs:272-293) -/
def gradient1 (d : Dual α) (vars : List String) : List α :=
  let av := dedup vars
  match varsCmp false d.vars av with
  | .arcEq | .valEq => d.dual
  | _ => av.map (lookupOrZero d.vars d.dual)

end Dual

namespace Dual2

def new (real : α) (vars : List String) : Dual2 α :=
  let v := dedup vars
  ⟨real, v, onesV v.length, zerosM v.length v.length⟩

/-- reshape a flat row-major vector into `n` rows of `n` -/
def reshape (n : Nat) (flat : List α) : List (List α) :=
  (List.range n).map (fun i => (flat.drop (i * n)).take n)

def tryNew (real : α) (vars : List String) (dual : List α) (dual2 : List α) : Option (Dual2 α) :=
  let v := dedup vars
  let d := if dual.isEmpty then onesV v.length else dual
  if v.length != d.length then none
  else if dual2.isEmpty then some ⟨real, v, d, zerosM v.length v.length⟩
  else if dual2.length != v.length * v.length then none
  else some ⟨real, v, d, reshape v.length dual2⟩

def toNewVars (d : Dual2 α) (nv : List String) (state : VarsRel) : Dual2 α :=
  match state with
  | .arcEq | .valEq => ⟨d.real, nv, d.dual, d.dual2⟩
  | _ => ⟨d.real, nv, nv.map (lookupOrZero d.vars d.dual),
          nv.map (fun v => nv.map (fun w => lookup2OrZero d.vars d.dual2 v w))⟩

/-- `Dual2::new_from` (dual.rs) -/
def newFrom (otherVars : List String) (real : α) (vars : List String) : Dual2 α :=
  let d := Dual2.new real vars
  d.toNewVars otherVars (varsCmp false d.vars otherVars)

/-- `Dual2::try_new_from` (dual.rs); `none` = the error result of `try_new` -/
def tryNewFrom (otherVars : List String) (real : α) (vars : List String) (dual dual2 : List α) :
    Option (Dual2 α) :=
  match tryNew real vars dual dual2 with
  | none => none
  | some d => some (d.toNewVars otherVars (varsCmp false d.vars otherVars))

def toUnionVars (a b : Dual2 α) (state : VarsRel) : Dual2 α × Dual2 α :=
  match state with
  | .arcEq => (a, b)
  | .valEq => (a, b.toNewVars a.vars .valEq)
  | .superset => (a, b.toNewVars a.vars .subset)
  | .subset => (a.toNewVars b.vars .subset, b)
  | .difference =>
    let cv := unionVars a.vars b.vars
    (a.toNewVars cv .difference, b.toNewVars cv .difference)

def aligned (ptrEq : Bool) (a b : Dual2 α) : Dual2 α × Dual2 α :=
  match varsCmp ptrEq a.vars b.vars with
  | .arcEq => (a, b)
  | .valEq => (a, b)
  | st => toUnionVars a b st

def add (ptrEq : Bool) (a b : Dual2 α) : Dual2 α :=
  let (x, y) := aligned ptrEq a b
  ⟨x.real + y.real, x.vars, vadd x.dual y.dual, madd x.dual2 y.dual2⟩

def sub (ptrEq : Bool) (a b : Dual2 α) : Dual2 α :=
  let (x, y) := aligned ptrEq a b
  ⟨x.real - y.real, x.vars, vsub x.dual y.dual, msub x.dual2 y.dual2⟩

/-- product rule with the symmetrised cross term `½ (αβᵀ + βαᵀ)` -/
def mul (ptrEq : Bool) (a b : Dual2 α) : Dual2 α :=
  let (x, y) := aligned ptrEq a b
  let d2 := madd (mscaleR x.dual2 y.real) (mscaleR y.dual2 x.real)
  let cross := outer x.dual y.dual
  let d2' := madd d2 (mscaleL half (madd cross (transposeM x.dual.length cross)))
  ⟨x.real * y.real, x.vars, vadd (vscaleR x.dual y.real) (vscaleR y.dual x.real), d2'⟩

def addF (a : Dual2 α) (b : α) : Dual2 α := ⟨a.real + b, a.vars, a.dual, a.dual2⟩
def subF (a : Dual2 α) (b : α) : Dual2 α := ⟨a.real - b, a.vars, a.dual, a.dual2⟩
def fSub (a : α) (b : Dual2 α) : Dual2 α := ⟨a - b.real, b.vars, vneg b.dual, mneg b.dual2⟩
def mulF (a : Dual2 α) (b : α) : Dual2 α := ⟨a.real * b, a.vars, vscaleL b a.dual, mscaleL b a.dual2⟩
def divF (a : Dual2 α) (b : α) : Dual2 α :=
  ⟨a.real / b, a.vars, vscaleL (1 / b) a.dual, mscaleL (1 / b) a.dual2⟩
def neg (a : Dual2 α) : Dual2 α := ⟨-a.real, a.vars, vneg a.dual, mneg a.dual2⟩
def negRef (a : Dual2 α) : Dual2 α := ⟨-a.real, a.vars, vscaleR a.dual (-1), mscaleR a.dual2 (-1)⟩

variable [Transc α]

def pow (a : Dual2 α) (p : α) : Dual2 α :=
  let coeff := p * Dual.coeffPow p a.real (p - 1)
  let c2 := half * p * (p - 1)
  let coeff2 := c2 * Dual.coeffPow c2 a.real (p - 2)
  let bc := outer a.dual a.dual
  ⟨Transc.powf a.real p, a.vars, vscaleR a.dual coeff, madd (mscaleR a.dual2 coeff) (mscaleR bc coeff2)⟩

/-- `Dual2 / Dual2 = a * b.pow(-1)`; the power shares `b`'s list -/
def div (ptrEq : Bool) (a b : Dual2 α) : Dual2 α := mul ptrEq a (pow b (-1))
def fDiv (a : α) (b : Dual2 α) : Dual2 α :=
  let c1 := -a / (b.real * b.real)
  let c2 := a / (b.real * b.real * b.real)
  ⟨a / b.real, b.vars, vscaleL c1 b.dual, madd (mscaleL c1 b.dual2) (mscaleL c2 (outer b.dual b.dual))⟩

def exp (a : Dual2 α) : Dual2 α :=
  let c := Transc.exp a.real
  ⟨c, a.vars, vscaleL c a.dual, mscaleL c (madd a.dual2 (mscaleL half (outer a.dual a.dual)))⟩

def log (a : Dual2 α) : Dual2 α :=
  let s := 1 / a.real
  ⟨Transc.ln a.real, a.vars, vscaleL s a.dual,
   msub (mscaleL s a.dual2) (mscaleR (mscaleR (outer a.dual a.dual) half) (s * s))⟩

def normCdf (a : Dual2 α) : Dual2 α :=
  let scalar := Dual.normPdf a.real
  let scalar2 := scalar * -a.real
  ⟨Transc.ncdf a.real, a.vars, vscaleL scalar a.dual,
   madd (mscaleL scalar a.dual2) (mscaleL (half * scalar2) (outer a.dual a.dual))⟩

def invNormCdf (a : Dual2 α) : Dual2 α :=
  let base := Transc.nicdf a.real
  let scalar := Dual.invPdf base
  let scalar2 := Transc.powf scalar 2 * base
  ⟨base, a.vars, vscaleL scalar a.dual,
   madd (mscaleL scalar a.dual2) (mscaleL (half * scalar2) (outer a.dual a.dual))⟩

def abs (a : Dual2 α) : Dual2 α :=
  if Transc.ltb 0 a.real then a else ⟨-a.real, a.vars, vscaleL (-1) a.dual, mscaleL (-1) a.dual2⟩

def signum (a : Dual2 α) : Dual2 α := Dual2.new (Transc.signum a.real) []

def rem (ptrEq : Bool) (a b : Dual2 α) : Dual2 α :=
  let d := Transc.trunc (a.real / b.real)
  sub ptrEq a (mulF b d)

def remF (a : Dual2 α) (b : α) : Dual2 α := ⟨Transc.fmod a.real b, a.vars, a.dual, a.dual2⟩
def fRem (a : α) (b : Dual2 α) : Dual2 α := rem false (Dual2.new a []) b

def eq (ptrEq : Bool) (a b : Dual2 α) : Bool :=
  if !Transc.eqb a.real b.real then false
  else
    let (x, y) := aligned ptrEq a b
    x.dual.length == y.dual.length && (List.zipWith Transc.eqb x.dual y.dual).all id &&
    x.dual2.flatten.length == y.dual2.flatten.length &&
    (List.zipWith Transc.eqb x.dual2.flatten y.dual2.flatten).all id

def eqF (a : Dual2 α) (b : α) : Bool := eq false (Dual2.new b []) a
def lt (a b : Dual2 α) : Bool := Transc.ltb a.real b.real
def le (a b : Dual2 α) : Bool := Transc.leb a.real b.real

def absSub (ptrEq : Bool) (a b : Dual2 α) : Dual2 α :=
  if le a b then Dual2.new 0 [] else sub ptrEq a b

def sum (xs : List (Dual2 α)) : Dual2 α := xs.foldl (fun acc x => add false acc x) (Dual2.new 0 [])

def gradient1 (d : Dual2 α) (vars : List String) : List α :=
  let av := dedup vars
  match varsCmp false d.vars av with
  | .arcEq | .valEq => d.dual
  | _ => av.map (lookupOrZero d.vars d.dual)

/-- `Gradient2::gradient2` (dual.rs:316-345): read-back doubles the stored half-Hessian -/
def gradient2 (d : Dual2 α) (vars : List String) : List (List α) :=
  let av := dedup vars
  match varsCmp false d.vars av with
  | .arcEq | .valEq => mscaleL 2 d.dual2
  | _ => mscaleL 2 (av.map (fun v => av.map (fun w => lookup2OrZero d.vars d.dual2 v w)))

/-- `Gradient2::gradient1_manifold` (dual.rs:347-374); `vars` is NOT de-duplicated for the index
look-ups, but the variable list of the elements is that of `Dual2::new(0, vars)`, which is.
The default element (a name the number does not depend on) is the zero with ZERO sensitivities
(before the repair recorded in known_findings.json it carried unit sensitivities). -/
def gradient1Manifold (d : Dual2 α) (vars : List String) : List (Dual2 α) :=
  let dv := dedup vars
  let dz : Dual2 α := ⟨0, dv, zerosV dv.length, zerosM dv.length dv.length⟩
  vars.map (fun v =>
    match d.vars.idxOf? v with
    | some i =>
      ⟨d.dual.getD i 0, dz.vars,
       vars.map (fun w => match d.vars.idxOf? w with
         | some j => (d.dual2.getD i []).getD j 0 * 2
         | none => 0),
       zerosM vars.length vars.length⟩
    | none => dz)

end Dual2

/-- `From<Dual2> for Dual` -/
def Dual.ofDual2 (d : Dual2 α) : Dual α := ⟨d.real, d.vars, d.dual⟩
/-- `From<Dual> for Dual2` -/
def Dual2.ofDual (d : Dual α) : Dual2 α := ⟨d.real, d.vars, d.dual, zerosM d.dual.length d.dual.length⟩

end Generic

/-! ### The `Number` container -/

inductive Number (α : Type) where
  | f64 (x : α)
  | dual (d : Dual α)
  | dual2 (d : Dual2 α)

inductive ADOrder where
  | zero | one | two
deriving DecidableEq, Repr

section NumberOps
variable {α : Type} [Add α] [Sub α] [Mul α] [Div α] [Neg α] [OfNat α 0] [OfNat α 1] [OfNat α 2] [Transc α]

/-- `set_order` / `set_order_clone` (convert.rs:30-59) -/
def setOrder (v : Number α) (o : ADOrder) (vars : List String) : Number α :=
  match v, o with
  | .f64 f, .zero => .f64 f
  | .dual d, .zero => .f64 d.real
  | .dual2 d, .zero => .f64 d.real
  | .f64 f, .one => .dual (Dual.new f vars)
  | .dual d, .one => .dual d
  | .dual2 d, .one => .dual (Dual.ofDual2 d)
  | .f64 f, .two => .dual2 (Dual2.new f vars)
  | .dual d, .two => .dual2 (Dual2.ofDual d)
  | .dual2 d, .two => .dual2 d

def Number.toF64 : Number α → α
  | .f64 f => f | .dual d => d.real | .dual2 d => d.real
def Number.toDual : Number α → Dual α
  | .f64 f => Dual.new f [] | .dual d => d | .dual2 d => Dual.ofDual2 d
def Number.toDual2 : Number α → Dual2 α
  | .f64 f => Dual2.new f [] | .dual d => Dual2.ofDual d | .dual2 d => d

inductive BinOp where
  | add | sub | mul | div | rem
deriving DecidableEq, Repr

def scalarOp (op : BinOp) (a b : α) : α :=
  match op with
  | .add => a + b | .sub => a - b | .mul => a * b | .div => a / b | .rem => Transc.fmod a b

def dualOp (op : BinOp) (p : Bool) (a b : Dual α) : Dual α :=
  match op with
  | .add => Dual.add p a b | .sub => Dual.sub p a b | .mul => Dual.mul p a b
  | .div => Dual.div p a b | .rem => Dual.rem p a b

def dual2Op (op : BinOp) (p : Bool) (a b : Dual2 α) : Dual2 α :=
  match op with
  | .add => Dual2.add p a b | .sub => Dual2.sub p a b | .mul => Dual2.mul p a b
  | .div => Dual2.div p a b | .rem => Dual2.rem p a b

def dualOpF (op : BinOp) (a : Dual α) (b : α) : Dual α :=
  match op with
  | .add => Dual.addF a b | .sub => Dual.subF a b | .mul => Dual.mulF a b
  | .div => Dual.divF a b | .rem => Dual.remF a b

def fOpDual (op : BinOp) (a : α) (b : Dual α) : Dual α :=
  match op with
  | .add => Dual.fAdd a b | .sub => Dual.fSub a b | .mul => Dual.fMul a b
  | .div => Dual.fDiv a b | .rem => Dual.fRem a b

def dual2OpF (op : BinOp) (a : Dual2 α) (b : α) : Dual2 α :=
  match op with
  | .add => Dual2.addF a b | .sub => Dual2.subF a b | .mul => Dual2.mulF a b
  | .div => Dual2.divF a b | .rem => Dual2.remF a b

def fOpDual2 (op : BinOp) (a : α) (b : Dual2 α) : Dual2 α :=
  match op with
  | .add => Dual2.addF b a | .sub => Dual2.fSub a b | .mul => Dual2.mulF b a
  | .div => Dual2.fDiv a b | .rem => Dual2.fRem a b

/-- nine-arm match per operator on `Number`; `none` = the refusing (panicking) arms -/
def numberOp (op : BinOp) (p : Bool) (a b : Number α) : Option (Number α) :=
  match a, b with
  | .f64 f, .f64 g => some (.f64 (scalarOp op f g))
  | .f64 f, .dual d => some (.dual (fOpDual op f d))
  | .f64 f, .dual2 d => some (.dual2 (fOpDual2 op f d))
  | .dual d, .f64 g => some (.dual (dualOpF op d g))
  | .dual d, .dual e => some (.dual (dualOp op p d e))
  | .dual _, .dual2 _ => none
  | .dual2 d, .f64 g => some (.dual2 (dual2OpF op d g))
  | .dual2 _, .dual _ => none
  | .dual2 d, .dual2 e => some (.dual2 (dual2Op op p d e))

def numberOpF (op : BinOp) (a : Number α) (b : α) : Number α :=
  match a with
  | .f64 f => .f64 (scalarOp op f b)
  | .dual d => .dual (dualOpF op d b)
  | .dual2 d => .dual2 (dual2OpF op d b)

def fOpNumber (op : BinOp) (a : α) (b : Number α) : Number α :=
  match b with
  | .f64 f => .f64 (scalarOp op a f)
  | .dual d => .dual (fOpDual op a d)
  | .dual2 d => .dual2 (fOpDual2 op a d)

def numberEq (p : Bool) (a b : Number α) : Option Bool :=
  match a, b with
  | .f64 f, .f64 g => some (Transc.eqb f g)
  | .f64 f, .dual d => some (Dual.eq false (Dual.new f []) d)
  | .f64 f, .dual2 d => some (Dual2.eq false (Dual2.new f []) d)
  | .dual d, .f64 g => some (Dual.eqF d g)
  | .dual d, .dual e => some (Dual.eq p d e)
  | .dual _, .dual2 _ => none
  | .dual2 d, .f64 g => some (Dual2.eqF d g)
  | .dual2 _, .dual _ => none
  | .dual2 d, .dual2 e => some (Dual2.eq p d e)

def numberLt (a b : Number α) : Option Bool :=
  match a, b with
  | .dual _, .dual2 _ => none
  | .dual2 _, .dual _ => none
  | x, y => some (Transc.ltb x.toF64 y.toF64)

end NumberOps

/-- `get_variable_tags` (dual/mod.rs:37-39) -/
def getVariableTags (name : String) (range : Nat) : List String :=
  (List.range range).map (fun i => name ++ toString i)

end Rateslib
