/-
Model of the binary pickling format (bincode 1.3, default options, as produced by serde's derive on
the library's types): fixed-width little-endian integers, `f64` as its 8 bytes, `u64` length prefixes,
`u32` enum variant indices, one-byte `Option` tags, strings as length-prefixed bytes, ndarray arrays as
`{v: u8 = 1, dim, data}`.

Values are modelled by *serialisation views*: floats are their 64-bit patterns (`Nat < 2^64`), strings
are byte lists.  `encX` / `decX` are the encoder and decoder of each type; `Props/C16.lean` proves
`decX (encX x ++ rest) = some (x, rest)` for every valid `x`.
-/
namespace Rateslib.Serde

abbrev Bytes := List UInt8

/-! ### primitives -/

def encLE (n : Nat) : Nat → Bytes
  | 0 => []
  | k + 1 => (n % 256).toUInt8 :: encLE (n / 256) k

def decLE : Nat → Bytes → Option (Nat × Bytes)
  | 0, bs => some (0, bs)
  | _ + 1, [] => none
  | k + 1, b :: bs =>
    match decLE k bs with
    | none => none
    | some (v, rest) => some (b.toNat + 256 * v, rest)

def encU64 (n : Nat) : Bytes := encLE n 8
def decU64 (bs : Bytes) : Option (Nat × Bytes) := decLE 8 bs
def encU32 (n : Nat) : Bytes := encLE n 4
def decU32 (bs : Bytes) : Option (Nat × Bytes) := decLE 4 bs
def encU8 (n : Nat) : Bytes := encLE n 1
def decU8 (bs : Bytes) : Option (Nat × Bytes) := decLE 1 bs

/-- length-prefixed sequence -/
def encSeq {α : Type} (enc : α → Bytes) (l : List α) : Bytes :=
  encU64 l.length ++ (l.map enc).flatten

def decN {α : Type} (dec : Bytes → Option (α × Bytes)) : Nat → Bytes → Option (List α × Bytes)
  | 0, bs => some ([], bs)
  | n + 1, bs =>
    match dec bs with
    | none => none
    | some (x, r) =>
      match decN dec n r with
      | none => none
      | some (xs, r') => some (x :: xs, r')

def decSeq {α : Type} (dec : Bytes → Option (α × Bytes)) (bs : Bytes) : Option (List α × Bytes) :=
  match decU64 bs with
  | none => none
  | some (n, r) => decN dec n r

/-- a string = length-prefixed bytes -/
def encStr (s : Bytes) : Bytes := encU64 s.length ++ s

def decStr (bs : Bytes) : Option (Bytes × Bytes) :=
  match decU64 bs with
  | none => none
  | some (n, r) => if n ≤ r.length then some (r.take n, r.drop n) else none

def encOpt {α : Type} (enc : α → Bytes) : Option α → Bytes
  | none => encU8 0
  | some x => encU8 1 ++ enc x

def decOpt {α : Type} (dec : Bytes → Option (α × Bytes)) (bs : Bytes) : Option (Option α × Bytes) :=
  match decU8 bs with
  | none => none
  | some (0, r) => some (none, r)
  | some (1, r) =>
    (match dec r with
     | none => none
     | some (x, r') => some (some x, r'))
  | some (_, _) => none

/-! ### ndarray -/

/-- `Array1<f64>`: version byte 1, one dimension, the data sequence -/
structure Arr1 where
  dim : Nat
  data : List Nat
deriving DecidableEq, Repr

def encArr1 (a : Arr1) : Bytes := encU8 1 ++ encU64 a.dim ++ encSeq encU64 a.data

def decArr1 (bs : Bytes) : Option (Arr1 × Bytes) :=
  match decU8 bs with
  | some (1, r) =>
    (match decU64 r with
     | none => none
     | some (d, r1) =>
       match decSeq decU64 r1 with
       | none => none
       | some (l, r2) => some (⟨d, l⟩, r2))
  | _ => none

structure Arr2 where
  d0 : Nat
  d1 : Nat
  data : List Nat
deriving DecidableEq, Repr

def encArr2 (a : Arr2) : Bytes := encU8 1 ++ encU64 a.d0 ++ encU64 a.d1 ++ encSeq encU64 a.data

def decArr2 (bs : Bytes) : Option (Arr2 × Bytes) :=
  match decU8 bs with
  | some (1, r) =>
    (match decU64 r with
     | none => none
     | some (d0, r1) =>
       match decU64 r1 with
       | none => none
       | some (d1, r2) =>
         match decSeq decU64 r2 with
         | none => none
         | some (l, r3) => some (⟨d0, d1, l⟩, r3))
  | _ => none

/-! ### dual numbers -/

structure SDual where
  real : Nat
  vars : List Bytes
  dual : Arr1
deriving DecidableEq, Repr

def encDual (d : SDual) : Bytes := encU64 d.real ++ encSeq encStr d.vars ++ encArr1 d.dual

def decDual (bs : Bytes) : Option (SDual × Bytes) :=
  match decU64 bs with
  | none => none
  | some (re, r1) =>
    match decSeq decStr r1 with
    | none => none
    | some (vs, r2) =>
      match decArr1 r2 with
      | none => none
      | some (a, r3) => some (⟨re, vs, a⟩, r3)

structure SDual2 where
  real : Nat
  vars : List Bytes
  dual : Arr1
  dual2 : Arr2
deriving DecidableEq, Repr

def encDual2 (d : SDual2) : Bytes :=
  encU64 d.real ++ encSeq encStr d.vars ++ encArr1 d.dual ++ encArr2 d.dual2

def decDual2 (bs : Bytes) : Option (SDual2 × Bytes) :=
  match decU64 bs with
  | none => none
  | some (re, r1) =>
    match decSeq decStr r1 with
    | none => none
    | some (vs, r2) =>
      match decArr1 r2 with
      | none => none
      | some (a, r3) =>
        match decArr2 r3 with
        | none => none
        | some (h, r4) => some (⟨re, vs, a, h⟩, r4)

/-- `Number`: variant indices Dual = 0, Dual2 = 1, F64 = 2 (declaration order of the enum) -/
inductive SNumber where
  | dual (d : SDual)
  | dual2 (d : SDual2)
  | f64 (bits : Nat)
deriving DecidableEq, Repr

def encNumber : SNumber → Bytes
  | .dual d => encU32 0 ++ encDual d
  | .dual2 d => encU32 1 ++ encDual2 d
  | .f64 b => encU32 2 ++ encU64 b

def decNumber (bs : Bytes) : Option (SNumber × Bytes) :=
  match decU32 bs with
  | some (0, r) => (match decDual r with | none => none | some (d, r') => some (.dual d, r'))
  | some (1, r) => (match decDual2 r with | none => none | some (d, r') => some (.dual2 d, r'))
  | some (2, r) => (match decU64 r with | none => none | some (b, r') => some (.f64 b, r'))
  | _ => none

/-! ### splines: `PPSpline<T> { k, t, c: Option<Array1<T>>, n }` -/

structure SArr1 (α : Type) where
  dim : Nat
  data : List α

def encArr1T {α : Type} (enc : α → Bytes) (a : SArr1 α) : Bytes :=
  encU8 1 ++ encU64 a.dim ++ encSeq enc a.data

def decArr1T {α : Type} (dec : Bytes → Option (α × Bytes)) (bs : Bytes) : Option (SArr1 α × Bytes) :=
  match decU8 bs with
  | some (1, r) =>
    (match decU64 r with
     | none => none
     | some (d, r1) =>
       match decSeq dec r1 with
       | none => none
       | some (l, r2) => some (⟨d, l⟩, r2))
  | _ => none

structure SSpline (α : Type) where
  k : Nat
  t : List Nat
  c : Option (SArr1 α)
  n : Nat

def encSpline {α : Type} (enc : α → Bytes) (s : SSpline α) : Bytes :=
  encU64 s.k ++ encSeq encU64 s.t ++ encOpt (encArr1T enc) s.c ++ encU64 s.n

def decSpline {α : Type} (dec : Bytes → Option (α × Bytes)) (bs : Bytes) : Option (SSpline α × Bytes) :=
  match decU64 bs with
  | none => none
  | some (k, r1) =>
    match decSeq decU64 r1 with
    | none => none
    | some (t, r2) =>
      match decOpt (decArr1T dec) r2 with
      | none => none
      | some (c, r3) =>
        match decU64 r3 with
        | none => none
        | some (n, r4) => some (⟨k, t, c, n⟩, r4)

/-! ### FX markets: stored as quotes and currencies only; a named calendar: its name only -/

structure SFXRate where
  lhs : Bytes
  rhs : Bytes
  rate : SNumber
  settlement : Option Bytes     -- ISO datetime text
deriving DecidableEq, Repr

def encFXRate (q : SFXRate) : Bytes :=
  encStr q.lhs ++ encStr q.rhs ++ encNumber q.rate ++ encOpt encStr q.settlement

def decFXRate (bs : Bytes) : Option (SFXRate × Bytes) :=
  match decStr bs with
  | none => none
  | some (l, r1) =>
    match decStr r1 with
    | none => none
    | some (r, r2) =>
      match decNumber r2 with
      | none => none
      | some (n, r3) =>
        match decOpt decStr r3 with
        | none => none
        | some (s, r4) => some (⟨l, r, n, s⟩, r4)

structure SFXRates where
  quotes : List SFXRate
  currencies : List Bytes
deriving DecidableEq, Repr

def encFXRates (f : SFXRates) : Bytes := encSeq encFXRate f.quotes ++ encSeq encStr f.currencies

def decFXRates (bs : Bytes) : Option (SFXRates × Bytes) :=
  match decSeq decFXRate bs with
  | none => none
  | some (q, r1) =>
    match decSeq decStr r1 with
    | none => none
    | some (c, r2) => some (⟨q, c⟩, r2)

def encNamedCal (name : Bytes) : Bytes := encStr name
def decNamedCal (bs : Bytes) : Option (Bytes × Bytes) := decStr bs

/-! ### curves (with a named calendar) -/

structure SCurve where
  nodesKind : Nat                     -- 0 = F64, 1 = Dual, 2 = Dual2
  nodes : List (Nat × SNumber)        -- timestamp (two's complement u64), value of that kind (without its own tag)
  interp : Nat                        -- CurveInterpolator variant index
  id : Bytes
  convention : Nat
  modifier : Nat
  indexBase : Option Nat
  calendar : Bytes                    -- NamedCal name (CalType variant 2)

/-- a node value inside the typed map: the bare payload of its kind -/
def encNodeVal : SNumber → Bytes
  | .dual d => encDual d
  | .dual2 d => encDual2 d
  | .f64 b => encU64 b

def decNodeVal (kind : Nat) (bs : Bytes) : Option (SNumber × Bytes) :=
  match kind with
  | 0 => (match decU64 bs with | none => none | some (b, r) => some (.f64 b, r))
  | 1 => (match decDual bs with | none => none | some (d, r) => some (.dual d, r))
  | 2 => (match decDual2 bs with | none => none | some (d, r) => some (.dual2 d, r))
  | _ => none

def encCurve (c : SCurve) : Bytes :=
  encU32 c.nodesKind ++ encSeq (fun p : Nat × SNumber => encU64 p.1 ++ encNodeVal p.2) c.nodes ++
  encU32 c.interp ++ encStr c.id ++ encU32 c.convention ++ encU32 c.modifier ++
  encOpt encU64 c.indexBase ++ encU32 2 ++ encStr c.calendar

def SNumber.kind : SNumber → Nat
  | .f64 _ => 0
  | .dual _ => 1
  | .dual2 _ => 2

/-- one node of the typed map: timestamp, then the bare payload of the map's kind -/
def encNode (p : Nat × SNumber) : Bytes := encU64 p.1 ++ encNodeVal p.2

def decNode (kind : Nat) (bs : Bytes) : Option ((Nat × SNumber) × Bytes) :=
  match decU64 bs with
  | none => none
  | some (t, r) =>
    match decNodeVal kind r with
    | none => none
    | some (v, r') => some ((t, v), r')

/-- `Curve` (with a named calendar): the decoder matching `encCurve` -/
def decCurve (bs : Bytes) : Option (SCurve × Bytes) :=
  match decU32 bs with
  | none => none
  | some (kind, r1) =>
    match decSeq (decNode kind) r1 with
    | none => none
    | some (nodes, r2) =>
      match decU32 r2 with
      | none => none
      | some (interp, r3) =>
        match decStr r3 with
        | none => none
        | some (id, r4) =>
          match decU32 r4 with
          | none => none
          | some (conv, r5) =>
            match decU32 r5 with
            | none => none
            | some (modi, r6) =>
              match decOpt decU64 r6 with
              | none => none
              | some (ib, r7) =>
                match decU32 r7 with
                | some (2, r8) =>
                  (match decStr r8 with
                   | none => none
                   | some (cal, r9) => some (⟨kind, nodes, interp, id, conv, modi, ib, cal⟩, r9))
                | _ => none


end Rateslib.Serde
