/-
Model of rust/splines/spline.rs: the B-spline basis (`bsplev_single_f64`, `bspldnev_single_f64`),
the dual-number wrappers, and `PPSpline` (`bsplmatrix`, `csolve`, `ppdnev_single` and its dual
abscissa variants).
-/
import RateslibModel.Model.Linalg
import RateslibModel.Model.Dates
namespace Rateslib

section Basis
variable {α : Type} [Add α] [Sub α] [Mul α] [Div α] [Neg α] [OfNat α 0] [OfNat α 1] [OfNat α 2]
  [Transc α]

/-- knot `i` (`t[i]`; the implementation panics on an out-of-range index, which valid calls never
produce: `i + k < t.len()`) -/
def knot (t : List α) (i : Nat) : α := t.getD i 0

/-- `bsplev_single_f64(x, i, k, t, org_k)`, by recursion on the order `k`.
`orgK` is the resolved `org_k.unwrap_or(k)`; recursive calls pass `None`, i.e. the lower order. -/
def bsplev (t : List α) (x : α) : Nat → Nat → Nat → α
  | 0, _, _ => 0
  | k + 1, i, orgK =>
    if Transc.ltb x (knot t i) || Transc.ltb (knot t (i + (k + 1))) x then 0
    else if Transc.eqb x (knot t (t.length - 1)) && decide (i ≥ t.length - orgK - 1) then 1
    else if k = 0 then
      (if Transc.leb (knot t i) x && Transc.ltb x (knot t (i + 1)) then 1 else 0)
    else
      let left :=
        if !Transc.eqb (knot t i) (knot t (i + k)) then
          (x - knot t i) / (knot t (i + k) - knot t i) * bsplev t x k i k
        else 0
      let right :=
        if !Transc.eqb (knot t (i + 1)) (knot t (i + (k + 1))) then
          (knot t (i + (k + 1)) - x) / (knot t (i + (k + 1)) - knot t (i + 1)) * bsplev t x k (i + 1) k
        else 0
      left + right

/-- `bspldnev_single_f64(x, i, k, t, m, org_k)`, by recursion on the derivative order `m`.
`orgK : Option Nat` as in the implementation. -/
def bspldnev (t : List α) (x : α) : Nat → Nat → Nat → Option Nat → α
  | 0, i, k, _ => bsplev t x k i k
  | m + 1, i, k, orgK =>
    if k = 1 || m + 1 ≥ k then 0
    else
      let org := orgK.getD k
      let div1 := knot t (i + k - 1) - knot t i
      let div2 := knot t (i + k) - knot t (i + 1)
      let kf : α := Transc.ofInt ((k - 1 : Nat) : Int)
      if m = 0 then
        let r0 : α := 0
        let r1 := if !Transc.eqb div1 0 then r0 + bsplev t x (k - 1) i org / div1 else r0
        let r2 := if !Transc.eqb div2 0 then r1 - bsplev t x (k - 1) (i + 1) org / div2 else r1
        r2 * kf
      else
        let r0 : α := 0
        let r1 := if !Transc.eqb div1 0 then r0 + bspldnev t x m i (k - 1) (some org) / div1 else r0
        let r2 := if !Transc.eqb div2 0 then r1 - bspldnev t x m (i + 1) (k - 1) (some org) / div2 else r1
        r2 * kf

/-- `bspldnev_single_dual`: value `B^(m)(x.real)`, sensitivities `B^(m+1)(x.real) · x.dual` -/
def bspldnevDual (t : List α) (x : Dual α) (i k m : Nat) : Dual α :=
  ⟨bspldnev t x.real m i k none, x.vars, vscaleL (bspldnev t x.real (m + 1) i k none) x.dual⟩

/-- `bspldnev_single_dual2` -/
def bspldnevDual2 (t : List α) (x : Dual2 α) (i k m : Nat) : Dual2 α :=
  let d1 := bspldnev t x.real (m + 1) i k none
  let d2 := bspldnev t x.real (m + 2) i k none
  ⟨bspldnev t x.real m i k none, x.vars, vscaleL d1 x.dual,
   madd (mscaleL d1 x.dual2) (mscaleL (half * d2) (outer x.dual x.dual))⟩

end Basis

/-! ### PPSpline -/

structure PPSpline (α τ : Type) where
  k : Nat
  t : List α
  c : Option (List τ)

def PPSpline.n {α τ : Type} (s : PPSpline α τ) : Nat := s.t.length - s.k

section Spline
variable {α : Type} [Add α] [Sub α] [Mul α] [Div α] [Neg α] [OfNat α 0] [OfNat α 1] [OfNat α 2]
  [Transc α]
variable {τ : Type} [ModOps α τ]

/-- `bsplmatrix`: collocation matrix with derivative rows at the two end sites -/
def bsplMatrix (k : Nat) (t : List α) (n : Nat) (tau : List α) (leftN rightN : Nat) : Nat → Nat → α :=
  fun j i =>
    if j = tau.length - 1 then bspldnev t (tau.getD j 0) rightN i k none
    else if j = 0 then bspldnev t (tau.getD 0 0) leftN i k none
    else bsplev t (tau.getD j 0) k i k

/-- `csolve`; `none` = one of the two error results -/
def PPSpline.csolve (s : PPSpline α τ) (tau : List α) (y : List τ) (leftN rightN : Nat)
    (allowLsq : Bool) : Option (PPSpline α τ) :=
  if tau.length ≠ s.n && !(allowLsq && decide (tau.length > s.n)) then none
  else if tau.length ≠ y.length then none
  else
    let b := bsplMatrix s.k s.t s.n tau leftN rightN
    let c := fdsolve (α := α) (σ := τ) tau.length s.n ⟨b, fun i => y.getD i (ModOps.zero α)⟩ allowLsq
    some { s with c := some ((List.range s.n).map c) }

/-- `ppdnev_single`: `Σ_i B_i^(m)(x) · c_i` (`fdmul11_(b, c)`); `none` = "csolve first" error -/
def PPSpline.ppdnev (s : PPSpline α τ) (x : α) (m : Nat) : Option τ :=
  s.c.map (fun c =>
    fdotOver (α := α) (List.range s.n) (fun i => bspldnev s.t x m i s.k none) (fun i => c.getD i (ModOps.zero α)))

end Spline

section DualAbscissa
variable {α : Type} [Add α] [Sub α] [Mul α] [Div α] [Neg α] [OfNat α 0] [OfNat α 1] [OfNat α 2]
  [Transc α]

/-- `PPSpline<f64>::ppdnev_single_dual`: `fdmul11_(c, b)` with `b_i` dual -/
def ppdnevDualF (s : PPSpline α α) (x : Dual α) (m : Nat) : Option (Dual α) :=
  s.c.map (fun c =>
    (List.range s.n).foldl
      (fun acc i => Dual.add false acc (Dual.fMul (c.getD i 0) (bspldnevDual s.t x i s.k m)))
      (Dual.new 0 []))

def ppdnevDual2F (s : PPSpline α α) (x : Dual2 α) (m : Nat) : Option (Dual2 α) :=
  s.c.map (fun c =>
    (List.range s.n).foldl
      (fun acc i => Dual2.add false acc (Dual2.mulF (bspldnevDual2 s.t x i s.k m) (c.getD i 0)))
      (Dual2.new 0 []))

/-- `PPSpline<Dual>::ppdnev_single_dual`: `dmul11_(c, b)` -/
def ppdnevDualD (s : PPSpline α (Dual α)) (x : Dual α) (m : Nat) : Option (Dual α) :=
  s.c.map (fun c =>
    (List.range s.n).foldl
      (fun acc i => Dual.add false acc (Dual.mul false (c.getD i (Dual.new 0 [])) (bspldnevDual s.t x i s.k m)))
      (Dual.new 0 []))

def ppdnevDual2D2 (s : PPSpline α (Dual2 α)) (x : Dual2 α) (m : Nat) : Option (Dual2 α) :=
  s.c.map (fun c =>
    (List.range s.n).foldl
      (fun acc i => Dual2.add false acc (Dual2.mul false (c.getD i (Dual2.new 0 [])) (bspldnevDual2 s.t x i s.k m)))
      (Dual2.new 0 []))

end DualAbscissa
end Rateslib
