/-
Model of "loading from JSON text" (rust/json/json_py.rs `from_json`, through serde's derive on every
type and the validating data models `DualDataModel`, `Dual2DataModel`, `CcyDataModel`, `(Ccy, Ccy)`,
`NamedCalDataModel`, `FXRatesDataModel`, `PPSplineDataModel`), and of the small validating constructors
`Ccy::try_new`, `FXPair::try_new`.

The input is a JSON *tree* (`JVal`; objects keep every key in document order, so duplicated fields are
visible).  The text-to-tree step (serde_json's tokenizer) is the parser in `Driver/Json.lean`; it is
outside the theorems, which quantify over every tree.

serde's derived struct visitor, as modelled by `fieldsOf`:
  * a JSON object: unknown keys are skipped, a repeated known key is an error, a missing key is an error
    unless the field is an `Option` (then `None`);
  * a JSON array: positional, exactly one element per field.
ndarray's hand-written visitor (`ndFields`): an unknown key is an error, a repeated key is NOT (the last
one wins, every occurrence must still parse), `v` must be 1 wherever it occurs, and the data length
must match the dimension.  Externally tagged enums (`enumOf`): an object with exactly one key.

Numbers: `JNum` holds the literal as sign, decimal mantissa and exponent; the model never rounds, it
only compares (sortedness of spline knots).  On literals that are exactly representable as doubles
(everything the generator emits) exact comparison and `f64` comparison agree.
-/
import RateslibModel.Model.FX
import RateslibModel.Model.Cal
namespace Rateslib.Load

structure JNum where
  neg : Bool
  mant : Nat
  exp10 : Int
  /-- the literal has neither a fraction nor an exponent -/
  isInt : Bool
deriving DecidableEq, Repr

def JNum.scaled (a : JNum) (e : Int) : Int :=
  (if a.neg then -(a.mant : Int) else (a.mant : Int)) * (10 : Int) ^ (a.exp10 - e).toNat

/-- value of `a` ≤ value of `b`, exactly -/
def JNum.le (a b : JNum) : Bool :=
  let e := min a.exp10 b.exp10
  decide (a.scaled e ≤ b.scaled e)

inductive JVal where
  | null
  | bool (b : Bool)
  | num (n : JNum)
  | str (s : String)
  | arr (l : List JVal)
  | obj (kvs : List (String × JVal))

/-! ### serde primitives -/

def asF64 : JVal → Option JNum
  | .num n => some n
  | _ => none

/-- `usize` / `u64`: a non-negative integer literal below 2^64 -/
def asUsize : JVal → Option Nat
  | .num n => if n.isInt && !n.neg && decide (n.mant < 2 ^ 64) then some n.mant else none
  | _ => none

def asU8 : JVal → Option Nat
  | .num n => if n.isInt && !n.neg && decide (n.mant < 256) then some n.mant else none
  | _ => none

def asStr : JVal → Option String
  | .str s => some s
  | _ => none

def asVec {α : Type} (elem : JVal → Option α) : JVal → Option (List α)
  | .arr l => l.mapM elem
  | _ => none

def asOpt {α : Type} (elem : JVal → Option α) : JVal → Option (Option α)
  | .null => some none
  | j => (elem j).map some

/-- all values stored under a key, in document order -/
def valuesOf (kvs : List (String × JVal)) (name : String) : List JVal :=
  (kvs.filter (fun kv => kv.1 == name)).map (·.2)

/-- one field of a derived struct read from an object: `none` = error (duplicate field),
`some none` = absent, `some (some v)` = present once -/
def fieldOf (kvs : List (String × JVal)) (name : String) : Option (Option JVal) :=
  match valuesOf kvs name with
  | [] => some none
  | [v] => some (some v)
  | _ => none

/-- the fields of a derived struct, from an object or positionally from an array -/
def fieldsOf (names : List String) : JVal → Option (List (Option JVal))
  | .obj kvs => names.mapM (fieldOf kvs)
  | .arr l => if l.length = names.length then some (l.map some) else none
  | _ => none

/-- a required field -/
def req {α : Type} (elem : JVal → Option α) : Option JVal → Option α
  | none => none
  | some v => elem v

/-- an `Option<T>` field: absent = `None` -/
def opt {α : Type} (elem : JVal → Option α) : Option JVal → Option (Option α)
  | none => some none
  | some v => asOpt elem v

/-- externally tagged enum: an object with exactly one key -/
def enumOf : JVal → Option (String × JVal)
  | .obj [(k, v)] => some (k, v)
  | _ => none

/-! ### ndarray -/

def ndFields : JVal → Option (List JVal × List JVal × List JVal)
  | .obj kvs =>
    if kvs.all (fun kv => kv.1 == "v" || kv.1 == "dim" || kv.1 == "data") then
      some (valuesOf kvs "v", valuesOf kvs "dim", valuesOf kvs "data")
    else none
  | .arr [v, d, x] => some ([v], [d], [x])
  | _ => none

def versionOk (j : JVal) : Bool := asU8 j == some 1

/-- `Array1<T>`: the element list (its length is the validated dimension) -/
def asArr1 {α : Type} (elem : JVal → Option α) (j : JVal) : Option (List α) :=
  match ndFields j with
  | none => none
  | some (vs, ds, xs) =>
    if vs.isEmpty || !vs.all versionOk then none
    else
      match ds.mapM (asVec asUsize), xs.mapM (asVec elem) with
      | some dims, some datas =>
        match dims.getLast?, datas.getLast? with
        | some [n], some data =>
          if dims.all (fun d => d.length == 1) && data.length == n then some data else none
        | _, _ => none
      | _, _ => none

/-- `Array2<T>`: `(rows, cols)`; the data length must be `rows * cols` -/
def asArr2 {α : Type} (elem : JVal → Option α) (j : JVal) : Option (Nat × Nat) :=
  match ndFields j with
  | none => none
  | some (vs, ds, xs) =>
    if vs.isEmpty || !vs.all versionOk then none
    else
      match ds.mapM (asVec asUsize), xs.mapM (asVec elem) with
      | some dims, some datas =>
        match dims.getLast?, datas.getLast? with
        | some [r, c], some data =>
          if dims.all (fun d => d.length == 2) && data.length == r * c then some (r, c) else none
        | _, _ => none
      | _, _ => none

/-! ### dual numbers -/

structure DualShape where
  nvars : Nat
  ndual : Nat
deriving DecidableEq, Repr

structure Dual2Shape where
  nvars : Nat
  ndual : Nat
  rows : Nat
  cols : Nat
deriving DecidableEq, Repr

/-- `DualDataModel` (plain derive): real, vars (an `IndexSet`: duplicates collapse), dual -/
def rawDual (j : JVal) : Option DualShape :=
  match fieldsOf ["real", "vars", "dual"] j with
  | some [re, vs, du] =>
    match req asF64 re, req (asVec asStr) vs, req (asArr1 asF64) du with
    | some _, some names, some d => some ⟨(dedup names).length, d.length⟩
    | _, _, _ => none
  | _ => none

/-- `TryFrom<DualDataModel> for Dual` -/
def validDual (s : DualShape) : Option DualShape := if s.nvars = s.ndual then some s else none

def loadDual (j : JVal) : Option DualShape := (rawDual j).bind validDual

def rawDual2 (j : JVal) : Option Dual2Shape :=
  match fieldsOf ["real", "vars", "dual", "dual2"] j with
  | some [re, vs, du, h] =>
    match req asF64 re, req (asVec asStr) vs, req (asArr1 asF64) du, req (asArr2 asF64) h with
    | some _, some names, some d, some (r, c) => some ⟨(dedup names).length, d.length, r, c⟩
    | _, _, _, _ => none
  | _ => none

/-- `TryFrom<Dual2DataModel> for Dual2` -/
def validDual2 (s : Dual2Shape) : Option Dual2Shape :=
  if s.nvars = s.ndual ∧ s.rows = s.nvars ∧ s.cols = s.nvars then some s else none

def loadDual2 (j : JVal) : Option Dual2Shape := (rawDual2 j).bind validDual2

/-- `Number`: `{"F64": x}`, `{"Dual": …}`, `{"Dual2": …}` -/
def loadNumber (j : JVal) : Option Unit :=
  match enumOf j with
  | some ("F64", v) => (asF64 v).map (fun _ => ())
  | some ("Dual", v) => (loadDual v).map (fun _ => ())
  | some ("Dual2", v) => (loadDual2 v).map (fun _ => ())
  | _ => none

/-! ### currencies, pairs, FX markets -/

/-- `Ccy::try_new`: lower-case, exactly three bytes (Rust's Unicode lower-casing is modelled by `lowerStr`) -/
def ccyTryNew (name : String) : Option String :=
  let c := lowerStr name
  if c.utf8ByteSize = 3 then some c else none

/-- `FXPair::try_new` -/
def fxPairTryNew (lhs rhs : String) : Option (String × String) :=
  match ccyTryNew lhs, ccyTryNew rhs with
  | some a, some b => if a = b then none else some (a, b)
  | _, _ => none

/-- `Ccy` from JSON: `CcyDataModel { name }`, then `try_new` -/
def loadCcy (j : JVal) : Option String :=
  match fieldsOf ["name"] j with
  | some [n] => (req asStr n).bind ccyTryNew
  | _ => none

/-- `FXPair` from JSON: the tuple `(Ccy, Ccy)` (a two-element array), then distinctness -/
def loadFXPair : JVal → Option (String × String)
  | .arr [a, b] =>
    match loadCcy a, loadCcy b with
    | some x, some y => if x = y then none else some (x, y)
    | _, _ => none
  | _ => none

def isDigit (c : Char) : Bool := decide ('0' ≤ c ∧ c ≤ '9')
def digitsVal (cs : List Char) : Int := cs.foldl (fun a c => a * 10 + ((c.toNat - '0'.toNat : Nat) : Int)) 0

/-- `NaiveDateTime` in the one textual form the library writes, `YYYY-MM-DDTHH:MM:SS`, valid civil
date and time of day; the result is the second count from 1970-01-01. (chrono also accepts other
spellings; the generator does not produce them.) -/
def parseDateTime (s : String) : Option Int :=
  match s.toList with
  | [y1, y2, y3, y4, '-', m1, m2, '-', d1, d2, 'T', h1, h2, ':', n1, n2, ':', s1, s2] =>
    if [y1, y2, y3, y4, m1, m2, d1, d2, h1, h2, n1, n2, s1, s2].all isDigit then
      let y := digitsVal [y1, y2, y3, y4]
      let m := digitsVal [m1, m2]
      let d := digitsVal [d1, d2]
      let h := digitsVal [h1, h2]
      let n := digitsVal [n1, n2]
      let sec := digitsVal [s1, s2]
      if validYmd y m d && decide (h < 24) && decide (n < 60) && decide (sec < 60) then
        some (toDay y m d * 86400 + h * 3600 + n * 60 + sec)
      else none
    else none
  | _ => none

def asDateTime (j : JVal) : Option Int := (asStr j).bind parseDateTime

structure QuoteShape where
  lhs : String
  rhs : String
  settlement : Option Int
deriving DecidableEq, Repr

/-- `FXRate { pair, rate, settlement }` (plain derive) -/
def loadFXRate (j : JVal) : Option QuoteShape :=
  match fieldsOf ["pair", "rate", "settlement"] j with
  | some [p, r, s] =>
    match req loadFXPair p, req loadNumber r, opt asDateTime s with
    | some (a, b), some _, some st => some ⟨a, b, st⟩
    | _, _, _ => none
  | _ => none

/-- a one-point number type: `FXRates::try_new` succeeds or fails on the currency names and
settlement dates alone, never on the rate values, so the shape model runs it on unit "values" -/
structure Pt where
deriving DecidableEq, Repr

instance : Add Pt := ⟨fun _ _ => ⟨⟩⟩
instance : Sub Pt := ⟨fun _ _ => ⟨⟩⟩
instance : Mul Pt := ⟨fun _ _ => ⟨⟩⟩
instance : Div Pt := ⟨fun _ _ => ⟨⟩⟩
instance : Neg Pt := ⟨fun _ => ⟨⟩⟩
instance : OfNat Pt 0 := ⟨⟨⟩⟩
instance : OfNat Pt 1 := ⟨⟨⟩⟩
instance : OfNat Pt 2 := ⟨⟨⟩⟩

instance : Transc Pt where
  exp _ := ⟨⟩
  ln _ := ⟨⟩
  powf _ _ := ⟨⟩
  sqrt _ := ⟨⟩
  pi := ⟨⟩
  ncdf _ := ⟨⟩
  nicdf _ := ⟨⟩
  trunc _ := ⟨⟩
  fmod _ _ := ⟨⟩
  signum _ := ⟨⟩
  ltb _ _ := false
  leb _ _ := true
  eqb _ _ := true
  ofInt _ := ⟨⟩

def quoteOf (q : QuoteShape) : FXQuote Pt := ⟨q.lhs, q.rhs, .f64 ⟨⟩, q.settlement⟩

structure FXShape where
  nquotes : Nat
  currencies : List String
deriving DecidableEq, Repr

/-- `TryFrom<FXRatesDataModel> for FXRates`: the first stored currency is the base; `try_new` decides -/
def validFXRates (quotes : List QuoteShape) (ccys : List String) : Option FXShape :=
  match ccys.head? with
  | none => none
  | some base =>
    match FXRates.tryNew (quotes.map quoteOf) (some base) with
    | .ok f => some ⟨f.quotes.length, f.currencies⟩
    | .error _ => none

/-- `FXRatesDataModel { fx_rates, currencies }` (an `IndexSet<Ccy>`: duplicates collapse) -/
def loadFXRates (j : JVal) : Option FXShape :=
  match fieldsOf ["fx_rates", "currencies"] j with
  | some [q, c] =>
    match req (asVec loadFXRate) q, req (asVec loadCcy) c with
    | some quotes, some ccys => validFXRates quotes (dedup ccys)
    | _, _ => none
  | _ => none

/-! ### calendars -/

/-- `TryFrom<NamedCalDataModel> for NamedCal`: `try_new` on the stored name -/
def loadNamedCal (table : String → Option Cal) (j : JVal) : Option String :=
  match fieldsOf ["name"] j with
  | some [n] =>
    match req asStr n with
    | some name =>
      (match namedTryNew table name with
       | .ok (nm, _) => some nm
       | _ => none)
    | none => none
  | _ => none

/-- chrono's `Weekday` from text: short or long English name, any case -/
def parseWeekday (s : String) : Option Nat :=
  match s.toLower with
  | "mon" | "monday" => some 0
  | "tue" | "tuesday" => some 1
  | "wed" | "wednesday" => some 2
  | "thu" | "thursday" => some 3
  | "fri" | "friday" => some 4
  | "sat" | "saturday" => some 5
  | "sun" | "sunday" => some 6
  | _ => none

def asWeekday (j : JVal) : Option Nat := (asStr j).bind parseWeekday

structure CalShape where
  nhol : Nat
  nmask : Nat
deriving DecidableEq, Repr

/-- `Cal { holidays: IndexSet<NaiveDateTime>, week_mask: HashSet<Weekday> }` (plain derive) -/
def loadCal (j : JVal) : Option CalShape :=
  match fieldsOf ["holidays", "week_mask"] j with
  | some [h, w] =>
    match req (asVec asDateTime) h, req (asVec asWeekday) w with
    | some hs, some ws => some ⟨hs.eraseDups.length, ws.eraseDups.length⟩
    | _, _ => none
  | _ => none

/-- `UnionCal { calendars, settlement_calendars: Option<Vec<Cal>> }` (plain derive) -/
def loadUnionCal (j : JVal) : Option (Nat × Option Nat) :=
  match fieldsOf ["calendars", "settlement_calendars"] j with
  | some [c, s] =>
    match req (asVec loadCal) c, opt (asVec loadCal) s with
    | some cs, some ss => some (cs.length, ss.map List.length)
    | _, _ => none
  | _ => none

/-! ### splines -/

structure SplineShape where
  k : Nat
  t : Nat
  n : Nat
  c : Option Nat
deriving DecidableEq, Repr

/-- `zip(&t[1..], &t[..len-1]).all(|(a, b)| a >= b)` -/
def sortedNums : List JNum → Bool
  | a :: b :: rest => a.le b && sortedNums (b :: rest)
  | _ => true

/-- `c.as_ref().is_some_and(|c| c.len() != n)`, negated -/
def coeffsOk : Option Nat → Nat → Bool
  | some l, n => l == n
  | none, _ => true

/-- `TryFrom<PPSplineDataModel<T>> for PPSpline<T>` -/
def validSpline (k : Nat) (t : List JNum) (c : Option Nat) (n : Nat) : Option SplineShape :=
  if t.length < 2 || !sortedNums t then none
  else if k > t.length || n != t.length - k then none
  else if !coeffsOk c n then none
  else some ⟨k, t.length, n, c⟩

/-- `PPSplineDataModel<T> { k, t, c, n }` -/
def loadSplineInner {α : Type} (elem : JVal → Option α) (j : JVal) : Option SplineShape :=
  match fieldsOf ["k", "t", "c", "n"] j with
  | some [k, t, c, n] =>
    match req asUsize k, req (asVec asF64) t, opt (asArr1 elem) c, req asUsize n with
    | some k, some t, some c, some n => validSpline k t (c.map List.length) n
    | _, _, _, _ => none
  | _ => none

/-- `PPSplineF64 { inner }` etc. -/
def loadSpline {α : Type} (elem : JVal → Option α) (j : JVal) : Option SplineShape :=
  match fieldsOf ["inner"] j with
  | some [i] => req (loadSplineInner elem) i
  | _ => none

/-! ### curves -/

/-- a map key read as `i64` by serde_json (`MapKey::deserialize_i64`): the raw key must be a JSON integer
literal — optional `-`, digits, no leading zero, no fraction or exponent; `-0` is read as the float −0.0 —
within the `i64` range -/
def parseI64Key (s : String) : Option Int :=
  let cs := s.toList
  let neg := cs.head? == some '-'
  let ds := if neg then cs.drop 1 else cs
  if ds.isEmpty || !ds.all isDigit then none
  else if decide (ds.length > 1) && ds.head? == some '0' then none
  else
    let v := digitsVal ds
    if neg && v == 0 then none
    else
      let x := if neg then -v else v
      if decide (-(2 : Int) ^ 63 ≤ x) && decide (x < (2 : Int) ^ 63) then some x else none

/-- `IndexMap<i64, T>`: a JSON object (never an array); every key an `i64`, every value a `T`; a repeated
key replaces the earlier value -/
def asI64Map {α : Type} (elem : JVal → Option α) : JVal → Option (List (Int × α))
  | .obj kvs => kvs.mapM (fun kv =>
      match parseI64Key kv.1, elem kv.2 with
      | some k, some v => some (k, v)
      | _, _ => none)
  | _ => none

/-- a derived enum of unit variants: the variant name as a string, or `{"Name": null}` -/
def unitEnumOf (names : List String) : JVal → Option String
  | .str s => if names.contains s then some s else none
  | .obj [(k, .null)] => if names.contains k then some k else none
  | _ => none

def conventionNames : List String :=
  ["One", "OnePlus", "Act365F", "Act365FPlus", "Act360", "ThirtyE360", "Thirty360", "Thirty360ISDA",
   "ActActISDA", "ActActICMA", "Bus252"]
def modifierNames : List String := ["Act", "F", "ModF", "P", "ModP"]
def interpolatorNames : List String :=
  ["LogLinear", "Linear", "LinearZeroRate", "FlatForward", "FlatBackward", "Null"]

/-- `CurveInterpolator`: a newtype variant around a field-less struct (`{}` with any keys, or `[]`) -/
def loadInterpolator (j : JVal) : Option String :=
  match enumOf j with
  | some (tag, v) =>
    if interpolatorNames.contains tag && (fieldsOf [] v).isSome then some tag else none
  | none => none

inductive NodesShape where
  | f64 (n : Nat)
  | dual (l : List DualShape)
  | dual2 (l : List Dual2Shape)
deriving DecidableEq, Repr

/-- number of distinct keys, values of the LAST occurrence of each key (IndexMap insertion) -/
def lastPerKey {α : Type} (l : List (Int × α)) : List α :=
  let keys := (l.map (·.1)).eraseDups
  keys.filterMap (fun k => ((l.filter (fun kv => kv.1 == k)).getLast?).map (·.2))

/-- `NodesTimestamp`: `{"F64": map}`, `{"Dual": map}`, `{"Dual2": map}` -/
def loadNodes (j : JVal) : Option NodesShape :=
  match enumOf j with
  | some ("F64", v) => (asI64Map asF64 v).map (fun l => .f64 (lastPerKey l).length)
  | some ("Dual", v) => (asI64Map loadDual v).map (fun l => .dual (lastPerKey l))
  | some ("Dual2", v) => (asI64Map loadDual2 v).map (fun l => .dual2 (lastPerKey l))
  | _ => none

/-- `CalType`: `{"Cal": …}`, `{"UnionCal": …}`, `{"NamedCal": …}` -/
def loadCalType (table : String → Option Cal) (j : JVal) : Option String :=
  match enumOf j with
  | some ("Cal", v) => (loadCal v).map (fun _ => "Cal")
  | some ("UnionCal", v) => (loadUnionCal v).map (fun _ => "UnionCal")
  | some ("NamedCal", v) => (loadNamedCal table v).map (fun _ => "NamedCal")
  | _ => none

structure CurveShape where
  nodes : NodesShape
  interpolator : String
  id : String
  convention : String
  modifier : String
  hasIndexBase : Bool
  calendar : String
deriving DecidableEq, Repr

/-- `CurveDF { nodes, interpolator, id, convention, modifier, index_base, calendar }` (plain derive; no
validation: an empty node set loads) -/
def loadCurveDF (table : String → Option Cal) (j : JVal) : Option CurveShape :=
  match fieldsOf ["nodes", "interpolator", "id", "convention", "modifier", "index_base", "calendar"] j with
  | some [n, i, d, c, m, b, k] =>
    match req loadNodes n, req loadInterpolator i, req asStr d, req (unitEnumOf conventionNames) c,
        req (unitEnumOf modifierNames) m, opt asF64 b, req (loadCalType table) k with
    | some n, some i, some d, some c, some m, some b, some k => some ⟨n, i, d, c, m, b.isSome, k⟩
    | _, _, _, _, _, _, _ => none
  | _ => none

/-- `Curve { inner }` -/
def loadCurve (table : String → Option Cal) (j : JVal) : Option CurveShape :=
  match fieldsOf ["inner"] j with
  | some [i] => req (loadCurveDF table) i
  | _ => none

/-! ### the tagged entry point -/

inductive Loaded where
  | dual (s : DualShape)
  | dual2 (s : Dual2Shape)
  | cal (s : CalShape)
  | unionCal (ncal : Nat) (nsettle : Option Nat)
  | namedCal (name : String)
  | fxRates (s : FXShape)
  | spline (tag : String) (s : SplineShape)
  | curve (s : CurveShape)
deriving DecidableEq, Repr

def ofOpt {α β : Type} (f : α → β) : Option α → Outcome β
  | some a => .ok (f a)
  | none => .err

/-- `DeserializedObj::from_json` on a parsed document -/
def loadTagged (table : String → Option Cal) (j : JVal) : Outcome Loaded :=
  match enumOf j with
  | none => .err
  | some (tag, v) =>
    if tag = "Dual" then ofOpt .dual (loadDual v)
    else if tag = "Dual2" then ofOpt .dual2 (loadDual2 v)
    else if tag = "Cal" then ofOpt .cal (loadCal v)
    else if tag = "UnionCal" then ofOpt (fun p => .unionCal p.1 p.2) (loadUnionCal v)
    else if tag = "NamedCal" then ofOpt .namedCal (loadNamedCal table v)
    else if tag = "FXRates" then ofOpt .fxRates (loadFXRates v)
    else if tag = "PPSplineF64" then ofOpt (.spline tag) (loadSpline asF64 v)
    else if tag = "PPSplineDual" then ofOpt (.spline tag) (loadSpline loadDual v)
    else if tag = "PPSplineDual2" then ofOpt (.spline tag) (loadSpline loadDual2 v)
    else if tag = "Curve" then ofOpt .curve (loadCurve table v)
    else .err

/-! ### the documents `to_json` writes (document side of C16; the loader theorems show they are accepted) -/

def natNum (n : Nat) : JNum := ⟨false, n, 0, true⟩

/-- ndarray's document for a one-dimensional array -/
def nd1 (xs : List JNum) : JVal :=
  .obj [("v", .num (natNum 1)), ("dim", .arr [.num (natNum xs.length)]), ("data", .arr (xs.map .num))]

/-- ndarray's document for an `r × c` array given flat -/
def nd2 (r c : Nat) (xs : List JNum) : JVal :=
  .obj [("v", .num (natNum 1)), ("dim", .arr [.num (natNum r), .num (natNum c)]), ("data", .arr (xs.map .num))]

/-- the document `Dual::to_json` writes -/
def writeDual (re : JNum) (names : List String) (d : List JNum) : JVal :=
  .obj [("real", .num re), ("vars", .arr (names.map .str)), ("dual", nd1 d)]

/-- the document `Dual2::to_json` writes -/
def writeDual2 (re : JNum) (names : List String) (d h : List JNum) : JVal :=
  .obj [("real", .num re), ("vars", .arr (names.map .str)), ("dual", nd1 d),
        ("dual2", nd2 names.length names.length h)]

/-- the document `Curve::to_json` writes for a float-noded curve with a named calendar: `keys` are the node
timestamps as the integer literals serde_json writes for `i64` map keys -/
def writeCurveF64 (keys : List String) (vals : List JNum) (interp id conv modi : String) (base : Option JNum)
    (cal : String) : JVal :=
  .obj [("inner", .obj [
    ("nodes", .obj [("F64", .obj (keys.zip (vals.map .num)))]),
    ("interpolator", .obj [(interp, .obj [])]),
    ("id", .str id),
    ("convention", .str conv),
    ("modifier", .str modi),
    ("index_base", match base with | some b => .num b | none => .null),
    ("calendar", .obj [("NamedCal", .obj [("name", .str cal)])])])]

/-- the document `PPSplineF64::to_json` writes: order, knots, coefficients (null before `csolve`), count -/
def writeSplineF64 (k : Nat) (t : List JNum) (c : Option (List JNum)) (n : Nat) : JVal :=
  .obj [("inner", .obj [("k", .num (natNum k)), ("t", .arr (t.map .num)),
    ("c", match c with | some xs => nd1 xs | none => .null), ("n", .num (natNum n))])]

def nd1g (items : List JVal) : JVal :=
  .obj [("v", .num (natNum 1)), ("dim", .arr [.num (natNum items.length)]), ("data", .arr items)]


/-- a stored number: a float, or a first- / second-order number with its names and arrays -/
inductive NumDoc where
  | f64 (x : JNum)
  | dual (re : JNum) (names : List String) (d : List JNum)
  | dual2 (re : JNum) (names : List String) (d h : List JNum)


/-- the document of a `Number` -/
def writeNumber : NumDoc → JVal
  | .f64 x => .obj [("F64", .num x)]
  | .dual re names d => .obj [("Dual", writeDual re names d)]
  | .dual2 re names d h => .obj [("Dual2", writeDual2 re names d h)]


/-- a stored quote: currency names, rate, settlement as (written text, seconds) or none -/
structure WQuote where
  lhs : String
  rhs : String
  rate : NumDoc
  settlement : Option (String × Int)

def ccyDoc (c : String) : JVal := .obj [("name", .str c)]

def writeFXRate (q : WQuote) : JVal :=
  .obj [("pair", .arr [ccyDoc q.lhs, ccyDoc q.rhs]), ("rate", writeNumber q.rate),
        ("settlement", match q.settlement with | some (s, _) => .str s | none => .null)]

/-- the document `FXRates::to_json` writes: the quotes and the currency list (first = base) -/
def writeFXRates (qs : List WQuote) (cs : List String) : JVal :=
  .obj [("fx_rates", .arr (qs.map writeFXRate)), ("currencies", .arr (cs.map ccyDoc))]

def WQuote.shape (q : WQuote) : QuoteShape := ⟨q.lhs, q.rhs, q.settlement.map (·.2)⟩

/-- the document `Cal::to_json` writes: holiday datetimes and weekday names, each in stored order -/
def writeCal (hols mask : List String) : JVal :=
  .obj [("holidays", .arr (hols.map .str)), ("week_mask", .arr (mask.map .str))]

/-- the document `UnionCal::to_json` writes -/
def writeUnionCal (cals : List (List String × List String)) (settle : Option (List (List String × List String))) :
    JVal :=
  .obj [("calendars", .arr (cals.map (fun c => writeCal c.1 c.2))),
        ("settlement_calendars", match settle with
          | some ss => .arr (ss.map (fun c => writeCal c.1 c.2))
          | none => .null)]

/-- the document `NamedCal::to_json` writes: the name only -/
def writeNamedCal (name : String) : JVal := .obj [("name", .str name)]

/-- the spline document with already written coefficient documents -/
def writeSplineG (k : Nat) (t : List JNum) (c : Option (List JVal)) (n : Nat) : JVal :=
  .obj [("inner", .obj [("k", .num (natNum k)), ("t", .arr (t.map .num)),
    ("c", match c with | some items => nd1g items | none => .null), ("n", .num (natNum n))])]


/-- the curve document around already written node and calendar documents -/
def writeCurveG (nodesDoc calDoc : JVal) (interp id conv modi : String) (base : Option JNum) : JVal :=
  .obj [("inner", .obj [
    ("nodes", nodesDoc),
    ("interpolator", .obj [(interp, .obj [])]),
    ("id", .str id),
    ("convention", .str conv),
    ("modifier", .str modi),
    ("index_base", match base with | some b => .num b | none => .null),
    ("calendar", calDoc)])]


end Rateslib.Load
