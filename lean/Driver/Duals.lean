import RateslibModel.Model.Dual
import Driver.Util
import Driver.Erf
import Std.Data.HashMap
open Rateslib Drv

namespace Drv

/-- |x| = m · 2^e for a finite float -/
def decompF (x : Float) : Nat × Int :=
  let bits := x.toBits.toNat
  let ex := (bits >>> 52) % 2048
  let frac := bits % (2 ^ 52)
  if ex == 0 then (frac, -1074) else (frac + 2 ^ 52, (ex : Int) - 1075)

/-- m · 2^e as a float, for a value known to be exactly representable -/
def composeF (m : Nat) (e : Int) : Float :=
  if m == 0 then 0.0 else
  let bits := m.log2 + 1
  let shift := if bits > 53 then bits - 53 else 0
  Float.scaleB (Float.ofNat (m >>> shift)) (e + (shift : Int))

/-- `f64 % f64` (C `fmod`): EXACT remainder with the sign of the dividend, by integer arithmetic -/
def fmodFloat (a b : Float) : Float :=
  if b == 0.0 || a.isNaN || b.isNaN || a.isInf then (0.0 / 0.0)
  else if b.isInf then a
  else
    let (ma, ea) := decompF a
    let (mb, eb) := decompF b
    let e := min ea eb
    let A := ma <<< (ea - e).toNat
    let B := mb <<< (eb - e).toNat
    let r := composeF (A % B) e
    if a.toBits >>> 63 == 1 then -r else r

instance : Transc Float where
  exp := Float.exp
  ln := Float.log
  powf := Float.pow
  sqrt := Float.sqrt
  pi := 3.14159265358979323846264338327950288
  ncdf := Erf.normCdf
  nicdf := Erf.normInvCdf
  trunc := fun x => if x >= 0.0 then x.floor else x.ceil
  fmod := fmodFloat
  signum := fun x => if x.isNaN then x else if x.toBits >>> 63 == 1 then -1.0 else 1.0
  ltb := fun a b => a < b
  leb := fun a b => a <= b
  eqb := fun a b => a == b
  ofInt := Float.ofInt

abbrev Num := Number Float

structure DualState where
  vals : Std.HashMap Nat Num := {}
  grp : Std.HashMap Nat Nat := {}

def sortNames (l : List String) : List String := l.mergeSort (fun a b => a ≤ b)

def fmtDual (d : Dual Float) : String :=
  let names := sortNames d.vars
  let body := names.map (fun n => n ++ " " ++ fmtF (lookupOrZero d.vars d.dual n))
  s!"D {fmtF d.real} v{d.vars.length} d{d.dual.length} " ++ " ".intercalate body

def fmtDual2 (d : Dual2 Float) : String :=
  let names := sortNames d.vars
  let body := names.map (fun n => n ++ " " ++ fmtF (lookupOrZero d.vars d.dual n))
  let hess := names.flatMap (fun n => names.map (fun m => fmtF (lookup2OrZero d.vars d.dual2 n m)))
  let cols := d.dual2.map List.length
  let cmin := cols.foldl min (d.vars.length)
  let cmax := cols.foldl max 0
  s!"D2 {fmtF d.real} v{d.vars.length} d{d.dual.length} r{d.dual2.length} c{cmin}-{if d.dual2.isEmpty then cmin else cmax} "
    ++ " ".intercalate body ++ " | " ++ " ".intercalate hess

def fmtNum : Num → String
  | .f64 x => "F " ++ fmtF x
  | .dual d => fmtDual d
  | .dual2 d => fmtDual2 d

def parseFs? (xs : List String) : Option (List Float) := xs.mapM parseF?

/-- `<k> (<name> <coef>)*k` followed by the rest -/
def parseNamed? (toks : List String) : Option (List String × List Float × List String) :=
  match toks with
  | k :: rest => do
    let k ← k.toNat?
    let pairs := rest.take (2 * k)
    if pairs.length != 2 * k then none
    let rec go : List String → Option (List String × List Float)
      | [] => some ([], [])
      | n :: c :: more => do
        let c ← parseF? c
        let (ns, cs) ← go more
        pure (n :: ns, c :: cs)
      | _ => none
    let (ns, cs) ← go pairs
    pure (ns, cs, rest.drop (2 * k))
  | _ => none

def parseBinOp? : String → Option BinOp
  | "add" => some .add | "sub" => some .sub | "mul" => some .mul | "div" => some .div | "rem" => some .rem
  | _ => none

def ptrEqOf (st : DualState) (i j : Nat) : Bool :=
  match st.grp.get? i, st.grp.get? j with
  | some a, some b => a != 0 && a == b
  | _, _ => i == j

def unOp (op : String) (v : Num) : Option Num :=
  match op, v with
  | "neg", .dual d => some (.dual d.neg) | "neg", .dual2 d => some (.dual2 d.neg)
  | "negref", .dual d => some (.dual d.negRef) | "negref", .dual2 d => some (.dual2 d.negRef)
  | "abs", .dual d => some (.dual d.abs) | "abs", .dual2 d => some (.dual2 d.abs)
  | "signum", .dual d => some (.dual d.signum) | "signum", .dual2 d => some (.dual2 d.signum)
  | "exp", .dual d => some (.dual d.exp) | "exp", .dual2 d => some (.dual2 d.exp)
  | "log", .dual d => some (.dual d.log) | "log", .dual2 d => some (.dual2 d.log)
  | "ncdf", .dual d => some (.dual d.normCdf) | "ncdf", .dual2 d => some (.dual2 d.normCdf)
  | "nicdf", .dual d => some (.dual d.invNormCdf) | "nicdf", .dual2 d => some (.dual2 d.invNormCdf)
  | "nsignum", .dual d => some (.dual d.signum) | "nsignum", .dual2 d => some (.dual2 d.signum)
  | "nneg", .dual d => some (.dual d.neg) | "nneg", .dual2 d => some (.dual2 d.neg)
  | "nnegref", .dual d => some (.dual d.negRef) | "nnegref", .dual2 d => some (.dual2 d.negRef)
  | "nneg", .f64 x => some (.f64 (-x)) | "nnegref", .f64 x => some (.f64 (-x))
  | "neg", .f64 x => some (.f64 (-x))
  | "negref", .f64 x => some (.f64 (-x))
  | "abs", .f64 x => some (.f64 x.abs)
  | "exp", .f64 x => some (.f64 x.exp) | "log", .f64 x => some (.f64 x.log)
  | "ncdf", .f64 x => some (.f64 (Erf.normCdf x)) | "nicdf", .f64 x => some (.f64 (Erf.normInvCdf x))
  | _, _ => none

def powNum (v : Num) (p : Float) : Num :=
  match v with
  | .f64 x => .f64 (Float.pow x p)
  | .dual d => .dual (d.pow p)
  | .dual2 d => .dual2 (d.pow p)

/-- expression evaluation (prefix form); intermediate results never claim pointer equality: by
`aligned_ptr_irrelevant` that cannot change any result -/
partial def evalExpr (st : DualState) : List String → Option (Num × List String)
  | [] => none
  | t :: rest =>
    if t.startsWith "L" then do
      let v ← st.vals.get? (← (t.drop 1).toString.toNat?)
      pure (v, rest)
    else if t.startsWith "K" then do
      let x ← parseF? (t.drop 1).toString
      pure (.f64 x, rest)
    else if t == "+" || t == "-" || t == "*" || t == "/" || t == "%" then do
      let (a, r1) ← evalExpr st rest
      let (b, r2) ← evalExpr st r1
      let op := match t with | "+" => BinOp.add | "-" => .sub | "*" => .mul | "/" => .div | _ => .rem
      let v ← numberOp op false a b
      pure (v, r2)
    else if t.startsWith "p" then do
      let p ← parseF? (t.drop 1).toString
      let (a, r1) ← evalExpr st rest
      pure (powNum a p, r1)
    else do
      let name := match t with
        | "n" => "neg" | "N" => "negref" | "e" => "exp" | "l" => "log" | "c" => "ncdf" | "q" => "nicdf"
        | "a" => "abs" | _ => "?"
      let (a, r1) ← evalExpr st rest
      let v ← unOp name a
      pure (v, r1)

def dualStep' (st : DualState) (toks : List String) : Option (DualState × String) :=
  match toks with
  | "flt" :: id :: [x] => do
    let id ← id.toNat?; let x ← parseF? x
    pure ({ st with vals := st.vals.insert id (.f64 x), grp := st.grp.insert id 0 }, "ok")
  | "dual" :: id :: real :: rest => do
    let id ← id.toNat?; let real ← parseF? real
    let (ns, cs, tail) ← parseNamed? rest
    match tail with
    | [g] =>
      let g ← g.toNat?
      match Dual.tryNew real ns cs with
      | some d => pure ({ st with vals := st.vals.insert id (.dual d), grp := st.grp.insert id g }, "ok")
      | none => pure (st, "err")
    | _ => none
  | "dual2" :: id :: real :: rest => do
    let id ← id.toNat?; let real ← parseF? real
    let (ns, cs, tail) ← parseNamed? rest
    let k := (dedup ns).length
    let hs ← parseFs? (tail.take (tail.length - 1))
    let g ← (tail.getLast?).bind String.toNat?
    let _ := k
    match Dual2.tryNew real ns cs hs with
    | some d => pure ({ st with vals := st.vals.insert id (.dual2 d), grp := st.grp.insert id g }, "ok")
    | none => pure (st, "err")
  | "dualfrom" :: id :: other :: mode :: real :: rest => do
    let id ← id.toNat?; let real ← parseF? real
    let (ns, cs, tail) ← parseNamed? rest
    let extra ← parseFs? tail
    let ov ← match (← st.vals.get? (← other.toNat?)) with
      | .dual d => some d.vars | .dual2 d => some d.vars | .f64 _ => none
    let r := if mode == "n" then some (Dual.newFrom ov real ns) else Dual.tryNewFrom ov real ns (cs ++ extra)
    match r with
    | some d => pure ({ st with vals := st.vals.insert id (.dual d), grp := st.grp.insert id 0 }, fmtNum (.dual d))
    | none => pure (st, "err")
  | "dual2from" :: id :: other :: mode :: real :: rest => do
    let id ← id.toNat?; let real ← parseF? real
    let (ns, cs, tail) ← parseNamed? rest
    let hs ← parseFs? tail
    let ov ← match (← st.vals.get? (← other.toNat?)) with
      | .dual d => some d.vars | .dual2 d => some d.vars | .f64 _ => none
    let r := if mode == "n" then some (Dual2.newFrom ov real ns) else Dual2.tryNewFrom ov real ns cs hs
    match r with
    | some d => pure ({ st with vals := st.vals.insert id (.dual2 d), grp := st.grp.insert id 0 }, fmtNum (.dual2 d))
    | none => pure (st, "err")
  | ["bin", op, i, j] => do
    let op ← parseBinOp? op; let i ← i.toNat?; let j ← j.toNat?
    let a ← st.vals.get? i; let b ← st.vals.get? j
    match numberOp op (ptrEqOf st i j) a b with
    | some v => pure (st, fmtNum v)
    | none => pure (st, "refused")
  | ["numop", op, i, j] => do
    let op ← parseBinOp? op; let i ← i.toNat?; let j ← j.toNat?
    let a ← st.vals.get? i; let b ← st.vals.get? j
    match numberOp op (ptrEqOf st i j) a b with
    | some v => pure (st, fmtNum v)
    | none => pure (st, "refused")
  | ["numopf", op, i, x] => do
    let op ← parseBinOp? op; let i ← i.toNat?; let x ← parseF? x
    let a ← st.vals.get? i
    pure (st, fmtNum (numberOpF op a x))
  | ["fnumop", op, x, i] => do
    let op ← parseBinOp? op; let i ← i.toNat?; let x ← parseF? x
    let a ← st.vals.get? i
    pure (st, fmtNum (fOpNumber op x a))
  | ["binf", op, i, x] => do
    let op ← parseBinOp? op; let i ← i.toNat?; let x ← parseF? x
    let a ← st.vals.get? i
    pure (st, fmtNum (numberOpF op a x))
  | ["fbin", op, x, i] => do
    let op ← parseBinOp? op; let i ← i.toNat?; let x ← parseF? x
    let a ← st.vals.get? i
    pure (st, fmtNum (fOpNumber op x a))
  | ["cmp", op, i, j] => do
    let i ← i.toNat?; let j ← j.toNat?
    let a ← st.vals.get? i; let b ← st.vals.get? j
    let r := match op with
      | "eq" => numberEq (ptrEqOf st i j) a b
      | "ne" => (numberEq (ptrEqOf st i j) a b).map (!·)
      | "lt" => numberLt a b
      | "gt" => numberLt b a
      | "le" => match a, b with
        | .dual _, .dual2 _ => none | .dual2 _, .dual _ => none
        | x, y => some (x.toF64 <= y.toF64)
      | "ge" => match a, b with
        | .dual _, .dual2 _ => none | .dual2 _, .dual _ => none
        | x, y => some (x.toF64 >= y.toF64)
      | _ => none
    match r with
    | some b => pure (st, boolStr b)
    | none => pure (st, "refused")
  | ["cmpf", op, i, x] => do
    let i ← i.toNat?; let x ← parseF? x
    let a ← st.vals.get? i
    let r ← match op with
      | "eq" => numberEq false a (.f64 x)
      | "lt" => some (a.toF64 < x) | "gt" => some (a.toF64 > x)
      | "le" => some (a.toF64 <= x) | "ge" => some (a.toF64 >= x)
      | _ => none
    pure (st, boolStr r)
  | ["fcmp", op, x, i] => do
    let i ← i.toNat?; let x ← parseF? x
    let a ← st.vals.get? i
    let r ← match op with
      | "eq" => numberEq false (.f64 x) a
      | "lt" => some (x < a.toF64) | "gt" => some (x > a.toF64)
      | "le" => some (x <= a.toF64) | "ge" => some (x >= a.toF64)
      | _ => none
    pure (st, boolStr r)
  | ["un", op, i] => do
    let a ← st.vals.get? (← i.toNat?)
    let v ← unOp op a
    pure (st, fmtNum v)
  | ["tonum", i] => do
    let a ← st.vals.get? (← i.toNat?)
    pure (st, fmtNum a)
  | ["npowc", i, p] => do
    let a ← st.vals.get? (← i.toNat?); let p ← parseF? p
    pure (st, fmtNum (powNum a p))
  | ["sign", i] => do
    -- the sign BIT of the value (so that -0.0 is negative), as `f64::is_sign_positive` / `is_sign_negative`
    let a ← st.vals.get? (← i.toNat?)
    let x := a.toF64
    let neg : Bool := x < 0.0 || (x == 0.0 && 1.0 / x < 0.0)
    let one := s!"{if neg then 0 else 1} {if neg then 1 else 0}"
    pure (st, one ++ " " ++ one)
  | ["neut", which, i] => do
    -- zero + x, x + zero, one * x, x * one with the type's own zero / one (a constant without variables),
    -- typed or through the Number container (whose zero / one are the floats 0 and 1)
    let a ← st.vals.get? (← i.toNat?)
    let (mul, left, container) ← match which with
      | "za" => some (false, true, false) | "az" => some (false, false, false)
      | "om" => some (true, true, false) | "mo" => some (true, false, false)
      | "nza" => some (false, true, true) | "naz" => some (false, false, true)
      | "nom" => some (true, true, true) | "nmo" => some (true, false, true)
      | _ => none
    let c : Float := if mul then 1.0 else 0.0
    let e : Num := if container then .f64 c else
      match a with
      | .f64 _ => .f64 c
      | .dual _ => .dual (Dual.new c [])
      | .dual2 _ => .dual2 (Dual2.new c [])
    let op := if mul then BinOp.mul else BinOp.add
    match (if left then numberOp op false e a else numberOp op false a e) with
    | some v => pure (st, fmtNum v)
    | none => pure (st, "refused")
  | ["iszero", i] => do
    let a ← st.vals.get? (← i.toNat?)
    let z : Bool := match a with
      | .f64 x => x == 0.0
      | .dual d => Dual.eq false d (Dual.new 0.0 [])
      | .dual2 d => Dual2.eq false d (Dual2.new 0.0 [])
    pure (st, s!"{if z then 1 else 0} {if z then 1 else 0}")
  | ["isone", i] => do
    let a ← st.vals.get? (← i.toNat?)
    let z : Bool := match a with
      | .f64 x => x == 1.0
      | .dual d => Dual.eq false d (Dual.new 1.0 [])
      | .dual2 d => Dual2.eq false d (Dual2.new 1.0 [])
    pure (st, s!"{if z then 1 else 0}")
  | ["powc", i, p] => do
    let a ← st.vals.get? (← i.toNat?); let p ← parseF? p
    pure (st, fmtNum (powNum a p))
  | "eval" :: expr => do
    let (v, rest) ← evalExpr st expr
    if rest.isEmpty then pure (st, fmtNum v) else none
  | "evalgrad2" :: expr => do
    let (v, rest) ← evalExpr st expr
    if !rest.isEmpty then none
    match v with
    | .dual2 d =>
      let names := sortNames d.vars
      let g1 := d.gradient1 names
      let g2 := d.gradient2 names
      let down := Dual.ofDual2 d
      pure (st, s!"E2 {fmtF d.real} n{names.length} " ++ fmtFs g1 ++ " | " ++ fmtFs g2.flatten ++ " | " ++ fmtDual down)
    | v => pure (st, "E2 " ++ fmtNum v)
  | "grad1" :: i :: names => do
    match ← st.vals.get? (← i.toNat?) with
    | .dual d => pure (st, "G " ++ fmtFs (d.gradient1 names))
    | .dual2 d => pure (st, "G " ++ fmtFs (d.gradient1 names))
    | _ => none
  | "grad2" :: i :: names => do
    match ← st.vals.get? (← i.toNat?) with
    | .dual2 d =>
      let g := d.gradient2 names
      pure (st, s!"H r{g.length} " ++ fmtFs g.flatten)
    | _ => none
  | "manifold" :: i :: names => do
    match ← st.vals.get? (← i.toNat?) with
    | .dual2 d =>
      let g := d.gradient1Manifold names
      pure (st, "M " ++ " ; ".intercalate (g.map fmtDual2))
    | _ => none
  | "manifoldprod" :: i :: j :: names => do
    match ← st.vals.get? (← i.toNat?), ← st.vals.get? (← j.toNat?) with
    | .dual2 a, .dual2 b =>
      let ab := Dual2.mul false a b
      let gab := ab.gradient1Manifold names
      let ga := a.gradient1Manifold names
      let gb := b.gradient1Manifold names
      let parts := (List.range names.length).map (fun k =>
        match gab[k]?, ga[k]?, gb[k]? with
        | some l, some x, some y =>
          let rhs := Dual2.add false (Dual2.mul false x b) (Dual2.mul false a y)
          s!" ; {fmtF l.real} " ++ fmtFs (l.gradient1 names) ++ s!" = {fmtF rhs.real} " ++ fmtFs (rhs.gradient1 names)
        | _, _, _ => " ; ?")
      pure (st, "MP" ++ "".intercalate parts)
    | _, _ => none
  | "sum" :: kind :: ids => do
    let ids ← ids.mapM String.toNat?
    let vs ← ids.mapM (fun i => st.vals.get? i)
    match kind with
    | "1" =>
      let ds ← vs.mapM (fun v => match v with | .dual d => some d | _ => none)
      pure (st, fmtDual (Dual.sum ds))
    | "2" =>
      let ds ← vs.mapM (fun v => match v with | .dual2 d => some d | _ => none)
      pure (st, fmtDual2 (Dual2.sum ds))
    | "n" =>
      -- Number::sum folds from Number::F64(0.0); a refusing arm aborts the fold
      let r := vs.foldl (fun acc x => acc.bind (fun a => numberOp .add false a x)) (some (.f64 0.0))
      match r with
      | some v => pure (st, fmtNum v)
      | none => pure (st, "refused")
    | _ => none
  | "setord" :: i :: ord :: names => do
    let a ← st.vals.get? (← i.toNat?)
    let o ← match ord with | "0" => some ADOrder.zero | "1" => some .one | "2" => some .two | _ => none
    pure (st, fmtNum (setOrder a o names))
  | ["conv", i, to] => do
    let a ← st.vals.get? (← i.toNat?)
    match to with
    | "f" => pure (st, fmtNum (.f64 a.toF64))
    | "d" => pure (st, fmtNum (.dual a.toDual))
    | "D" => pure (st, fmtNum (.dual2 a.toDual2))
    | _ => none
  | _ => none

/-- the comparison ops routed through the generic `Number` container (`ncmp`, `ncmpf`, `fncmp`) have the
same model answers as the contained-type comparisons (C18: container = contained types) -/
def dualStep (st : DualState) (toks : List String) : Option (DualState × String) :=
  match toks with
  | "ncmp" :: r => dualStep' st ("cmp" :: r)
  | "ncmpf" :: r => dualStep' st ("cmpf" :: r)
  | "fncmp" :: r => dualStep' st ("fcmp" :: r)
  | t => dualStep' st t

end Drv
