import RateslibModel.Model.Spline
import Driver.Linalg
open Rateslib Drv

namespace Drv

inductive SplineObj where
  | f (s : PPSpline Float Float)
  | d (s : PPSpline Float (Dual Float))
  | d2 (s : PPSpline Float (Dual2 Float))

structure SplineState where
  sp : Std.HashMap Nat SplineObj := {}

def parseOrg? (s : String) : Option (Option Nat) :=
  if s == "-" then some none else s.toNat?.map some

partial def splineStep (ds : DualState) (st : SplineState) (toks : List String) : Option (SplineState × String) :=
  match toks with
  | "bsplev" :: x :: i :: k :: org :: _nt :: ts => do
    let x ← parseF? x; let i ← i.toNat?; let k ← k.toNat?; let org ← parseOrg? org
    let t ← parseFs? ts
    pure (st, fmtF (bsplev t x k i (org.getD k)))
  | "bspldnev" :: x :: i :: k :: m :: org :: _nt :: ts => do
    let x ← parseF? x; let i ← i.toNat?; let k ← k.toNat?; let m ← m.toNat?; let org ← parseOrg? org
    let t ← parseFs? ts
    pure (st, fmtF (bspldnev t x m i k org))
  | "bspldual" :: ord :: m :: x :: dx :: ddx :: i :: k :: _nt :: ts => do
    let x ← parseF? x; let dx ← parseF? dx; let ddx ← parseF? ddx
    let i ← i.toNat?; let k ← k.toNat?
    let mm ← if m == "-" then some 0 else m.toNat?
    let t ← parseFs? ts
    if ord == "1" then
      let xd : Dual Float := ⟨x, ["x", "y"], [dx, 0.5]⟩
      pure (st, fmtNum (.dual (bspldnevDual t xd i k mm)))
    else
      let xd : Dual2 Float := ⟨x, ["x", "y"], [dx, 0.5], [[ddx, 0.25], [0.25, -1.0]]⟩
      pure (st, fmtNum (.dual2 (bspldnevDual2 t xd i k mm)))
  | "basisrow" :: x :: k :: _nt :: ts => do
    let x ← parseF? x; let k ← k.toNat?
    let t ← parseFs? ts
    let n := t.length - k
    pure (st, "B " ++ fmtFs ((List.range n).map (fun i => bsplev t x k i k)))
  | "spline" :: id :: kind :: k :: _nt :: ts => do
    let id ← id.toNat?; let k ← k.toNat?
    let t ← parseFs? ts
    let obj ← match kind with
      | "f" => some (SplineObj.f ⟨k, t, none⟩)
      | "1" => some (SplineObj.d ⟨k, t, none⟩)
      | "2" => some (SplineObj.d2 ⟨k, t, none⟩)
      | _ => none
    pure ({ st with sp := st.sp.insert id obj }, "ok")
  | "csolve" :: id :: ln :: rn :: lsq :: ntau :: rest => do
    let id ← id.toNat?; let ln ← ln.toNat?; let rn ← rn.toNat?; let ntau ← ntau.toNat?
    let lsq := lsq == "1"
    let tau ← parseFs? (rest.take ntau)
    let ys ← (rest.drop ntau).mapM (parseNodeVal? ds)
    match ← st.sp.get? id with
    | .f s =>
      match s.csolve tau (ys.map Number.toF64) ln rn lsq with
      | some s' => pure ({ st with sp := st.sp.insert id (.f s') }, "ok")
      | none => pure (st, "err")
    | .d s =>
      match s.csolve tau (ys.map Number.toDual) ln rn lsq with
      | some s' => pure ({ st with sp := st.sp.insert id (.d s') }, "ok")
      | none => pure (st, "err")
    | .d2 s =>
      match s.csolve tau (ys.map Number.toDual2) ln rn lsq with
      | some s' => pure ({ st with sp := st.sp.insert id (.d2 s') }, "ok")
      | none => pure (st, "err")
  | ["ppevpoly", id, m, x, _expected] => splineStep ds st ["ppev", id, m, x]
  | ["ppev", id, m, x] => do
    let id ← id.toNat?; let m ← m.toNat?
    let x ← parseNodeVal? ds x
    let obj ← st.sp.get? id
    let out : Option (Option Num) := match obj, x with
      | .f s, .f64 v => some ((s.ppdnev v m).map Number.f64)
      | .d s, .f64 v => some ((s.ppdnev v m).map Number.dual)
      | .d2 s, .f64 v => some ((s.ppdnev v m).map Number.dual2)
      | .f s, .dual v => some ((ppdnevDualF s v m).map Number.dual)
      | .f s, .dual2 v => some ((ppdnevDual2F s v m).map Number.dual2)
      | .d s, .dual v => some ((ppdnevDualD s v m).map Number.dual)
      | .d _, .dual2 _ => some none       -- refused (TypeError)
      | .d2 _, .dual _ => some none       -- refused (TypeError)
      | .d2 s, .dual2 v => some ((ppdnevDual2D2 s v m).map Number.dual2)
    match out with
    | some (some v) => pure (st, fmtNum v)
    | some none => pure (st, "err")
    | none => none
  | ["spc", id] => do
    let obj ← st.sp.get? (← id.toNat?)
    let cs : Option (List Num) := match obj with
      | .f s => s.c.map (·.map Number.f64)
      | .d s => s.c.map (·.map Number.dual)
      | .d2 s => s.c.map (·.map Number.dual2)
    match cs with
    | some l => pure (st, s!"C {l.length} ; " ++ " ; ".intercalate (l.map fmtNum))
    | none => pure (st, "none")
  | _ => none

end Drv
