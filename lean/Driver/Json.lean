/-
Text → `JVal`: a recursive-descent JSON reader mirroring serde_json's tokenizer on the texts the
generator produces (no string escapes beyond the simple ones; `\u` escapes are refused).  Trusted glue:
the theorems of `Props/C20.lean` quantify over every `JVal` tree, so they do not depend on it; the
correspondence run validates it together with the loader model.
-/
import RateslibModel.Model.Load
namespace Drv
open Rateslib.Load

def isWs (c : Char) : Bool := c == ' ' || c == '\n' || c == '\t' || c == '\r'

def skipWs : List Char → List Char
  | c :: cs => if isWs c then skipWs cs else c :: cs
  | [] => []

/-- string body after the opening quote -/
def parseStrBody : List Char → List Char → Option (String × List Char)
  | [], _ => none
  | '"' :: rest, acc => some (String.ofList acc.reverse, rest)
  | '\\' :: e :: rest, acc =>
    (match e with
     | '"' => parseStrBody rest ('"' :: acc)
     | '\\' => parseStrBody rest ('\\' :: acc)
     | '/' => parseStrBody rest ('/' :: acc)
     | 'n' => parseStrBody rest ('\n' :: acc)
     | 't' => parseStrBody rest ('\t' :: acc)
     | 'r' => parseStrBody rest ('\r' :: acc)
     | _ => none)
  | c :: rest, acc => if c.toNat < 32 then none else parseStrBody rest (c :: acc)

def takeDigits : List Char → List Char → List Char × List Char
  | c :: cs, acc => if isDigit c then takeDigits cs (c :: acc) else (acc.reverse, c :: cs)
  | [], acc => (acc.reverse, [])

def natOfDigits (ds : List Char) : Nat := ds.foldl (fun a c => a * 10 + (c.toNat - '0'.toNat)) 0

/-- a JSON number literal: `-? int frac? exp?` (no leading zeros) -/
def parseNum (cs : List Char) : Option (JNum × List Char) :=
  let (neg, cs) := match cs with
    | '-' :: r => (true, r)
    | r => (false, r)
  let (ip, rest) := takeDigits cs []
  if ip.isEmpty then none
  else if ip.length > 1 && ip.head? == some '0' then none
  else
    let (fp, rest, hasFrac) := match rest with
      | '.' :: r => let (f, r') := takeDigits r []; (f, r', true)
      | r => ([], r, false)
    if hasFrac && fp.isEmpty then none
    else
      let (ev, rest, hasExp, expOk) := match rest with
        | e :: r =>
          if e == 'e' || e == 'E' then
            let (sgn, r) := match r with
              | '-' :: r' => ((-1 : Int), r')
              | '+' :: r' => (1, r')
              | r' => (1, r')
            let (d, r') := takeDigits r []
            (sgn * (natOfDigits d : Int), r', true, !d.isEmpty)
          else (0, e :: r, false, true)
        | [] => (0, [], false, true)
      if !expOk then none
      else
        let mant := natOfDigits (ip ++ fp)
        some (⟨neg, mant, ev - (fp.length : Int), !hasFrac && !hasExp⟩, rest)

mutual
def parseVal : Nat → List Char → Option (JVal × List Char)
  | 0, _ => none
  | fuel + 1, cs =>
    match skipWs cs with
    | 'n' :: 'u' :: 'l' :: 'l' :: rest => some (.null, rest)
    | 't' :: 'r' :: 'u' :: 'e' :: rest => some (.bool true, rest)
    | 'f' :: 'a' :: 'l' :: 's' :: 'e' :: rest => some (.bool false, rest)
    | '"' :: rest => (parseStrBody rest []).map (fun (s, r) => (.str s, r))
    | '[' :: rest =>
      (match skipWs rest with
       | ']' :: r => some (.arr [], r)
       | r => (parseElems fuel r []).map (fun (l, r') => (.arr l, r')))
    | '{' :: rest =>
      (match skipWs rest with
       | '}' :: r => some (.obj [], r)
       | r => (parseMembers fuel r []).map (fun (l, r') => (.obj l, r')))
    | c :: rest => if c == '-' || isDigit c then (parseNum (c :: rest)).map (fun (n, r) => (.num n, r)) else none
    | [] => none

def parseElems : Nat → List Char → List JVal → Option (List JVal × List Char)
  | 0, _, _ => none
  | fuel + 1, cs, acc =>
    match parseVal fuel cs with
    | none => none
    | some (v, rest) =>
      match skipWs rest with
      | ',' :: r => parseElems fuel r (v :: acc)
      | ']' :: r => some ((v :: acc).reverse, r)
      | _ => none

def parseMembers : Nat → List Char → List (String × JVal) → Option (List (String × JVal) × List Char)
  | 0, _, _ => none
  | fuel + 1, cs, acc =>
    match skipWs cs with
    | '"' :: rest =>
      (match parseStrBody rest [] with
       | none => none
       | some (k, r) =>
         match skipWs r with
         | ':' :: r' =>
           (match parseVal fuel r' with
            | none => none
            | some (v, r'') =>
              match skipWs r'' with
              | ',' :: r3 => parseMembers fuel r3 ((k, v) :: acc)
              | '}' :: r3 => some (((k, v) :: acc).reverse, r3)
              | _ => none)
         | _ => none)
    | _ => none
end

/-- a whole document: one value, then only white space -/
def parseJson (s : String) : Option JVal :=
  let cs := s.toList
  match parseVal (cs.length + 2) cs with
  | some (v, rest) => if (skipWs rest).isEmpty then some v else none
  | none => none

end Drv
