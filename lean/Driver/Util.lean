/- Parsing/printing helpers shared by the line-protocol driver. -/
namespace Drv

def hexDigit? (c : Char) : Option Nat :=
  if '0' ≤ c && c ≤ '9' then some (c.toNat - '0'.toNat)
  else if 'a' ≤ c && c ≤ 'f' then some (c.toNat - 'a'.toNat + 10)
  else if 'A' ≤ c && c ≤ 'F' then some (c.toNat - 'A'.toNat + 10)
  else none

def parseHex? (s : String) : Option Nat :=
  if s.isEmpty then none else
  s.toList.foldl (fun acc c => match acc, hexDigit? c with
    | some a, some d => some (a * 16 + d)
    | _, _ => none) (some 0)

/-- floats travel as 16-hex-digit IEEE-754 bit patterns -/
def parseF? (s : String) : Option Float :=
  let s := if s.startsWith "h" then (s.drop 1).toString else s
  if s.length != 16 then none else
  (parseHex? s).map (fun n => Float.ofBits n.toUInt64)

def hexChar (n : Nat) : Char :=
  if n < 10 then Char.ofNat (n + '0'.toNat) else Char.ofNat (n - 10 + 'a'.toNat)

def toHex16 (n : Nat) : String :=
  String.ofList ((List.range 16).map (fun i => hexChar ((n >>> (4 * (15 - i))) % 16)))

def fmtF (x : Float) : String := "h" ++ toHex16 x.toBits.toNat

def fmtFs (xs : List Float) : String := " ".intercalate (xs.map fmtF)

def parseInts? (xs : List String) : Option (List Int) := xs.mapM String.toInt?

def boolStr (b : Bool) : String := if b then "1" else "0"

end Drv

namespace Drv
/-- decode a hex-encoded UTF-8 string -/
def decodeHexStr (s : String) : Option String :=
  let cs := s.toList
  let rec go : List Char → List UInt8 → Option (List UInt8)
    | [], acc => some acc.reverse
    | [_], _ => none
    | a :: b :: rest, acc =>
      match hexDigit? a, hexDigit? b with
      | some x, some y => go rest ((x * 16 + y).toUInt8 :: acc)
      | _, _ => none
  if s == "-" then some "" else
  (go cs []).bind (fun bytes => String.fromUTF8? (ByteArray.mk bytes.toArray))
end Drv
