import Driver.Dates
import Driver.Holidays
import Driver.Duals
import Driver.Curves
import Driver.FX
import Driver.Linalg
import Driver.Splines
import Driver.Ser
import Driver.Load
open Drv

structure St where
  dates : DateState := {}
  hols : HolState := {}
  duals : DualState := {}
  curves : CurveState := {}
  fx : FxState := {}
  splines : SplineState := {}

def stepLine (st : St) (line : String) : St × String :=
  let toks := (line.trimAscii.toString.splitOn " ").filter (· ≠ "")
  -- `reset` drops every handle; the tables of built-in calendars (`defname`) are constants and stay
  if toks == ["reset"] then ({ dates := { names := st.dates.names } }, "ok") else
  match dateStep st.dates toks with
  | some (d, out) => ({ st with dates := d }, out)
  | none =>
  match holStep st.hols toks with
  | some (h, out) => ({ st with hols := h }, out)
  | none =>
  match dualStep st.duals toks with
  | some (d, out) => ({ st with duals := d }, out)
  | none =>
  match curveStep st.duals st.curves toks with
  | some (c, out) => ({ st with curves := c }, out)
  | none =>
  match fxStep st.duals st.fx toks with
  | some (f, out) => ({ st with fx := f }, out)
  | none =>
  match linalgStep st.duals toks with
  | some out => (st, out)
  | none =>
  match splineStep st.duals st.splines toks with
  | some (sp, out) => ({ st with splines := sp }, out)
  | none =>
  match serStep st.duals st.curves st.fx st.splines st.dates.calNames toks with
  | some out => (st, out)
  | none =>
  match loadStep st.dates st.splines toks with
  | some out => (st, out)
  | none => (st, "bad-op")

partial def loop (h : IO.FS.Stream) (out : IO.FS.Stream) (st : St) : IO Unit := do
  let line ← h.getLine
  if line.isEmpty then return ()
  let (st', o) := stepLine st line
  out.putStrLn o
  loop h out st'

def main : IO Unit := do
  let stdin ← IO.getStdin
  let stdout ← IO.getStdout
  loop stdin stdout {}
