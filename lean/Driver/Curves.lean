import RateslibModel.Model.Curve
import Driver.Duals
open Rateslib Drv

namespace Drv

structure CurveState where
  curves : Std.HashMap Nat (Curve Float) := {}

def parseInterp? : String → Option Interp
  | "log_linear" => some .logLinear | "linear" => some .linear | "linear_zero_rate" => some .linearZeroRate
  | "flat_forward" => some .flatForward | "flat_backward" => some .flatBackward | "null" => some .null
  | _ => none

def parseOrder? : String → Option ADOrder
  | "0" => some .zero | "1" => some .one | "2" => some .two | _ => none

def parseNodeVal? (ds : DualState) (s : String) : Option Num :=
  if s.startsWith "F" then (parseF? (s.drop 1).toString).map Number.f64
  else if s.startsWith "H" then (s.drop 1).toString.toNat?.bind (fun i => ds.vals.get? i)
  else none

def parseNodes? (ds : DualState) : List String → Option (List (Int × Num))
  | [] => some []
  | d :: v :: rest => do
    let d ← d.toInt?
    let v ← parseNodeVal? ds v
    let more ← parseNodes? ds rest
    pure ((d * 86400, v) :: more)
  | _ => none

def curveStep (ds : DualState) (st : CurveState) (toks : List String) : Option (CurveState × String) :=
  match toks with
  | "curve" :: id :: interp :: ad :: idstr :: base :: _n :: nodes => do
    let id ← id.toNat?; let interp ← parseInterp? interp; let ad ← parseOrder? ad
    let base ← if base == "-" then some none else (parseF? base).map some
    let nodes ← parseNodes? ds nodes
    let c := Curve.new nodes interp ad idstr base
    pure ({ st with curves := st.curves.insert id c }, "ok")
  | "curvedf" :: id :: interp :: idstr :: base :: _n :: nodes => do
    -- the public constructor called directly: float nodes in supply order, derivative order zero
    let id ← id.toNat?; let interp ← parseInterp? interp
    let base ← if base == "-" then some none else (parseF? base).map some
    let nodes ← parseNodes? ds nodes
    let c := Curve.new nodes interp .zero idstr base
    pure ({ st with curves := st.curves.insert id c }, "ok")
  | ["cvjson", id] => do
    -- serialise and load again: the same curve (C16/C20 theorems: the loader returns the document's nodes in
    -- document order, and the writer emits them in stored order)
    let _ ← st.curves.get? (← id.toNat?)
    pure (st, "ok")
  | ["cvvalue", id, day] => do
    let c ← st.curves.get? (← id.toNat?); let day ← day.toInt?
    match c.value (day * 86400) with
    | some v => pure (st, fmtNum v)
    | none => pure (st, "panic")
  | ["cvindex", id, ts] => do
    let c ← st.curves.get? (← id.toNat?); let ts ← ts.toInt?
    match indexLeftInt c.keys ts with
    | some i => pure (st, toString i)
    | none => pure (st, "panic")
  | ["cvorder", id, k] => do
    let id ← id.toNat?
    let c ← st.curves.get? id; let k ← parseOrder? k
    pure ({ st with curves := st.curves.insert id (c.setAdOrder k) }, "ok")
  | ["cvidxval", id, day] => do
    let c ← st.curves.get? (← id.toNat?); let day ← day.toInt?
    match c.indexValue (day * 86400) with
    | .ok v => pure (st, fmtNum v)
    | .err => pure (st, "err")
    | .panic _ => pure (st, "panic")
  | ["cvnodes", id] => do
    let c ← st.curves.get? (← id.toNat?)
    let parts := (c.keys.zip c.vals.toNumbers).map (fun p => s!"{p.1 / 86400} {fmtNum p.2}")
    pure (st, s!"N {c.keys.length} ; " ++ " ; ".intercalate parts)
  | ["cvad", id] => do
    let c ← st.curves.get? (← id.toNat?)
    pure (st, match c.vals.ad with | .zero => "0" | .one => "1" | .two => "2")
  | "idxleft" :: _n :: rest => do
    let xs ← parseFs? rest
    match xs.reverse with
    | v :: revl =>
      match indexLeft (fun a b => a <= b) (fun a b => a == b) revl.reverse v with
      | some i => pure (st, toString i)
      | none => pure (st, "panic")
    | [] => none
  | _ => none

end Drv
