import RateslibModel.Model.Cal
import Driver.Util
import Std.Data.HashMap
import Std.Data.HashSet
open Rateslib Drv

namespace Drv

structure DateState where
  cals : Std.HashMap Nat Cal := {}
  drs : Std.HashMap Nat DR := {}
  names : Std.HashMap String Cal := {}
  calNames : Std.HashMap Nat String := {}

def fuel : Nat := 6000

def mkCal (maskBits : String) (hols : List Int) : Cal :=
  let bits := maskBits.toList
  let set : Std.HashSet Int := Std.HashSet.ofList hols
  { mask := fun w => (bits.getD w.toNat '0') == '1', hol := fun d => set.contains d }

def parseMod? : String → Option Modifier
  | "Act" => some .act | "F" => some .f | "ModF" => some .modF | "P" => some .p | "ModP" => some .modP
  | _ => none

def parseRoll? (s : String) : Option RollDay :=
  match s with
  | "u" => some .unspecified | "e" => some .eom | "s" => some .som | "m" => some .imm
  | _ => if s.startsWith "i" then (s.drop 1).toString.toInt?.map RollDay.int else none

def fmtOptDay : Option Int → String
  | some d => toString d
  | none => "nofuel"

def fmtOutDay : Outcome (Option Int) → String
  | .ok o => fmtOptDay o
  | .err => "err"
  | .panic _ => "panic"

def fmtOutYmd : Outcome Ymd → String
  | .ok t => toString (toDay t.y t.m t.d)
  | .err => "err"
  | .panic _ => "panic"

def takeCals (st : DateState) (ids : List String) : Option (List Cal) :=
  ids.mapM (fun s => s.toNat?.bind (fun i => st.cals.get? i))

def dateStep (st : DateState) (toks : List String) : Option (DateState × String) :=
  match toks with
  | ["civil", d] => do
    let d ← d.toInt?
    let c := ofDay d
    pure (st, s!"{c.y} {c.m} {c.d} {weekday d}")
  | ["today", y, m, d] => do
    let y ← y.toInt?; let m ← m.toInt?; let d ← d.toInt?
    pure (st, if validYmd y m d then toString (toDay y m d) else "invalid")
  | ["imm", y, m] => do
    let y ← y.toInt?; let m ← m.toInt?
    let t := getImm y m
    pure (st, toString (toDay t.y t.m t.d))
  | ["eom", y, m] => do
    let y ← y.toInt?; let m ← m.toInt?
    pure (st, fmtOutYmd (getEom y m))
  | ["leap", y] => do
    let y ← y.toInt?
    pure (st, boolStr (isLeapYear y))
  | ["isimm", d] => do let d ← d.toInt?; pure (st, boolStr (isImm d))
  | ["iseom", d] => do let d ← d.toInt?; pure (st, boolStr (isEom d))
  | ["getroll", y, m, r] => do
    let y ← y.toInt?; let m ← m.toInt?; let r ← parseRoll? r
    pure (st, fmtOutYmd (getRoll y m r))
  | "cal" :: id :: mask :: _n :: ds => do
    let id ← id.toNat?
    let ds ← parseInts? ds
    let c := mkCal mask ds
    pure ({ st with cals := st.cals.insert id c, drs := st.drs.insert id c.toDR }, "ok")
  | "defname" :: name :: mask :: _n :: ds => do
    let ds ← parseInts? ds
    pure ({ st with names := st.names.insert name (mkCal mask ds) }, "ok")
  | "ucal" :: id :: rest => do
    let id ← id.toNat?
    -- rest: m ids… (s|-) ids…
    match rest with
    | m :: more => do
      let m ← m.toNat?
      let cs ← takeCals st (more.take m)
      match more.drop m with
      | ["-"] =>
        let u : UnionCal := ⟨cs, none⟩
        pure ({ st with drs := st.drs.insert id u.toDR }, "ok")
      | "s" :: sids => do
        let ss ← takeCals st sids
        let u : UnionCal := ⟨cs, some ss⟩
        pure ({ st with drs := st.drs.insert id u.toDR }, "ok")
      | _ => none
    | _ => none
  | ["named", id, hexname] => do
    let id ← id.toNat?
    -- the name travels hex-encoded (UTF-8 bytes) so that it may contain any character
    let name ← decodeHexStr hexname
    match namedTryNew (fun s => st.names.get? s) name with
    | .ok (nm, u) => pure ({ st with drs := st.drs.insert id u.toDR, calNames := st.calNames.insert id nm }, "ok")
    | .err => pure (st, "err")
    | .panic _ => pure (st, "panic")
  | ["isbus", h, d] => do
    let c ← st.drs.get? (← h.toNat?); let d ← d.toInt?
    pure (st, boolStr (c.isBus d))
  | ["iswd", h, d] => do
    let c ← st.drs.get? (← h.toNat?); let d ← d.toInt?
    pure (st, boolStr (c.isWeekday d))
  | ["ishol", h, d] => do
    let c ← st.drs.get? (← h.toNat?); let d ← d.toInt?
    pure (st, boolStr (c.isHoliday d))
  | ["issettle", h, d] => do
    let c ← st.drs.get? (← h.toNat?); let d ← d.toInt?
    pure (st, boolStr (c.isSettlement d))
  | ["roll", h, d, m, s] => do
    let c ← st.drs.get? (← h.toNat?); let d ← d.toInt?; let m ← parseMod? m
    pure (st, fmtOptDay (c.roll fuel d m (s == "1")))
  | ["addbus", h, d, n, s] => do
    let c ← st.drs.get? (← h.toNat?); let d ← d.toInt?; let n ← n.toInt?
    pure (st, fmtOutDay (c.addBusDays fuel d n (s == "1")))
  | ["lag", h, d, n, s] => do
    let c ← st.drs.get? (← h.toNat?); let d ← d.toInt?; let n ← n.toInt?
    pure (st, fmtOutDay (c.lag fuel d n (s == "1")))
  | ["adddays", h, d, n, m, s] => do
    let c ← st.drs.get? (← h.toNat?); let d ← d.toInt?; let n ← n.toInt?; let m ← parseMod? m
    pure (st, fmtOutDay (c.addDays fuel d n m (s == "1")))
  | ["addmonths", h, d, n, m, r, s] => do
    let c ← st.drs.get? (← h.toNat?); let d ← d.toInt?; let n ← n.toInt?; let m ← parseMod? m
    let r ← parseRoll? r
    pure (st, fmtOutDay (c.addMonths fuel d n m r (s == "1")))
  | ["busrange", h, s, e] => do
    let c ← st.drs.get? (← h.toNat?); let s ← s.toInt?; let e ← e.toInt?
    match c.busDateRange fuel s e with
    | .ok (some l) => pure (st, " ".intercalate ("ok" :: l.map toString))
    | .ok none => pure (st, "nofuel")
    | .err => pure (st, "err")
    | .panic _ => pure (st, "panic")
  | ["caleq", a, b] => do
    let a ← st.drs.get? (← a.toNat?); let b ← st.drs.get? (← b.toNat?)
    pure (st, boolStr (drEq a b))
  | _ => none

end Drv
