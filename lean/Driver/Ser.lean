import RateslibModel.Model.Serde
import Driver.Splines
import Driver.FX
import Driver.Dates
open Rateslib Drv
open Rateslib.Serde

namespace Drv

def fbits (x : Float) : Nat := x.toBits.toNat
def sbytes (s : String) : Bytes := s.toUTF8.toList

def viewDual (d : Dual Float) : SDual :=
  ⟨fbits d.real, d.vars.map sbytes, ⟨d.dual.length, d.dual.map fbits⟩⟩

def viewDual2 (d : Dual2 Float) : SDual2 :=
  ⟨fbits d.real, d.vars.map sbytes, ⟨d.dual.length, d.dual.map fbits⟩,
   ⟨d.dual2.length, (d.dual2.head?.map List.length).getD d.dual2.length, d.dual2.flatten.map fbits⟩⟩

def viewNum : Num → SNumber
  | .f64 x => .f64 (fbits x)
  | .dual d => .dual (viewDual d)
  | .dual2 d => .dual2 (viewDual2 d)

def hexOf (b : Bytes) : String :=
  String.ofList (b.flatMap (fun x => [hexChar (x.toNat / 16), hexChar (x.toNat % 16)]))

def pad2 (n : Int) : String := if n < 10 then s!"0{n}" else s!"{n}"
def pad4 (n : Int) : String :=
  if n < 10 then s!"000{n}" else if n < 100 then s!"00{n}" else if n < 1000 then s!"0{n}" else s!"{n}"

/-- chrono's serde text of a midnight `NaiveDateTime` -/
def isoOfDay (d : Int) : String :=
  let c := ofDay d
  s!"{pad4 c.y}-{pad2 c.m}-{pad2 c.d}T00:00:00"

def viewSpline {τ : Type} (f : τ → SNumber) (s : PPSpline Float τ) : SSpline SNumber :=
  ⟨s.k, s.t.map fbits, s.c.map (fun c => ⟨c.length, c.map f⟩), s.t.length - s.k⟩

def interpIdx : Interp → Nat
  | .logLinear => 0 | .linear => 1 | .linearZeroRate => 2 | .flatForward => 3 | .flatBackward => 4 | .null => 5

/-- `ser <kind> <id>`: the bincode bytes the model predicts -/
def serStep (ds : DualState) (cs : CurveState) (fs : FxState) (ss : SplineState) (names : Std.HashMap Nat String)
    (toks : List String) : Option String :=
  match toks with
  | ["ser", "dual", id] => do
    match ← ds.vals.get? (← id.toNat?) with
    | .dual d => pure ("B " ++ hexOf (encDual (viewDual d)))
    | .dual2 d => pure ("B " ++ hexOf (encDual2 (viewDual2 d)))
    | n => pure ("B " ++ hexOf (encNumber (viewNum n)))
  | ["ser", "num", id] => do
    let n ← ds.vals.get? (← id.toNat?)
    pure ("B " ++ hexOf (encNumber (viewNum n)))
  | ["ser", "cal", id] => do
    let nm ← names.get? (← id.toNat?)
    pure ("B " ++ hexOf (encNamedCal (sbytes nm)))
  | ["ser", "spline", id] => do
    match ← ss.sp.get? (← id.toNat?) with
    | .f s => pure ("B " ++ hexOf (encSpline (fun n => match n with | .f64 b => encU64 b | x => encNodeVal x) (viewSpline (fun x => .f64 (fbits x)) s)))
    | .d s => pure ("B " ++ hexOf (encSpline encNodeVal (viewSpline (fun x => .dual (viewDual x)) s)))
    | .d2 s => pure ("B " ++ hexOf (encSpline encNodeVal (viewSpline (fun x => .dual2 (viewDual2 x)) s)))
  | ["ser", "fx", id] => do
    let f ← fs.fxs.get? (← id.toNat?)
    let v : SFXRates :=
      ⟨f.quotes.map (fun q => ⟨sbytes q.lhs, sbytes q.rhs, viewNum q.rate, q.settlement.map (fun d => sbytes (isoOfDay d))⟩),
       f.currencies.map sbytes⟩
    pure ("B " ++ hexOf (encFXRates v))
  | ["ser", "curve", id] => do
    let c ← cs.curves.get? (← id.toNat?)
    let kind := match c.vals with | .f64 _ => 0 | .dual _ => 1 | .dual2 _ => 2
    let v : SCurve :=
      ⟨kind, (c.keys.zip c.vals.toNumbers).map (fun p => ((p.1 % (2 ^ 64 : Int)).toNat, viewNum p.2)), interpIdx c.interp,
       sbytes c.id, 2, 2, c.indexBase.map fbits, sbytes "all"⟩
    pure ("B " ++ hexOf (encCurve v))
  | ["rt", _, _] => some "ok"
  | ["f64json", _] => some "ok"
  | _ => none

end Drv
