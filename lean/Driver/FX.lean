import RateslibModel.Model.FX
import Driver.Curves
open Rateslib Drv

namespace Drv

structure FxState where
  fxs : Std.HashMap Nat (FXRates Float) := {}

def parseQuotes? (ds : DualState) : List String → Option (List (FXQuote Float))
  | [] => some []
  | l :: r :: v :: s :: rest => do
    let v ← parseNodeVal? ds v
    let s ← if s == "-" then some none else s.toInt?.map some
    let more ← parseQuotes? ds rest
    pure (⟨l, r, v, s⟩ :: more)
  | _ => none

def fxStep (ds : DualState) (st : FxState) (toks : List String) : Option (FxState × String) :=
  match toks with
  | "fx" :: id :: base :: _n :: quotes => do
    let id ← id.toNat?
    let base := if base == "-" then none else some base
    let qs ← parseQuotes? ds quotes
    match FXRates.tryNew qs base with
    | .ok f => pure ({ st with fxs := st.fxs.insert id f }, "ok")
    | .error _ => pure (st, "err")
  | ["fxrateq", id, l, r] => do
    -- a QUOTED pair (or the diagonal): compared bit for bit
    let f ← st.fxs.get? (← id.toNat?)
    match f.rate l r with
    | some v => pure (st, fmtNum v)
    | none => pure (st, "none")
  | ["fxrate", id, l, r] => do
    let f ← st.fxs.get? (← id.toNat?)
    match f.rate l r with
    | some v => pure (st, fmtNum v)
    | none => pure (st, "none")
  | "fxupdate" :: id :: _n :: quotes => do
    let id ← id.toNat?
    let f ← st.fxs.get? id
    let qs ← parseQuotes? ds quotes
    match f.update qs with
    | .ok f' => pure ({ st with fxs := st.fxs.insert id f' }, "ok")
    | .error _ => pure (st, "err")
  | ["fxorder", id, k] => do
    let id ← id.toNat?
    let f ← st.fxs.get? id; let k ← parseOrder? k
    match f.setAdOrder k with
    | .ok f' => pure ({ st with fxs := st.fxs.insert id f' }, "ok")
    | .error _ => pure (st, "err")
  | ["fxdump", id] => do
    let f ← st.fxs.get? (← id.toNat?)
    let cs := f.currencies
    let cells := cs.flatMap (fun a => cs.map (fun b => match f.rate a b with
      | some v => fmtNum v | none => "none"))
    pure (st, s!"M {cs.length} " ++ " ".intercalate cs ++ " ; " ++ " ; ".intercalate cells)
  | ["fxad", id] => do
    let f ← st.fxs.get? (← id.toNat?)
    pure (st, match f.arr.ad with | .zero => "0" | .one => "1" | .two => "2")
  | _ => none

end Drv
