import RateslibModel.Model.Holidays
import Driver.Util
import Std.Data.HashMap
import Std.Data.HashSet
open Rateslib Drv

namespace Drv

structure HolState where
  cache : Std.HashMap String (Std.HashSet Int) := {}

def fullRules? : String → Option (List Rule)
  | "all" => some [] | "bus" => some []
  | "tgt" => some tgtRules | "nyc" => some nycRules | "fed" => some fedRules | "ldn" => some ldnRules
  | "stk" => some stkRules | "osl" => some oslRules | "zur" => some zurRules
  | _ => none

def partialRules? : String → Option (List Rule)
  | "tro" => some troPartial | "tyo" => some tyoPartial | "syd" => some sydPartial
  | "wlg" => some wlgPartial | "mum" => some mumPartial
  | _ => none

def publishedMask : String → String
  | "all" => "0000000"
  | _ => "0000011"

def ruleSet (st : HolState) (key : String) (rs : List Rule) : HolState × Std.HashSet Int :=
  match st.cache.get? key with
  | some s => (st, s)
  | none =>
    let s : Std.HashSet Int := Std.HashSet.ofList (ruleDates rs)
    ({ st with cache := st.cache.insert key s }, s)

def holStep (st : HolState) (toks : List String) : Option (HolState × String) :=
  match toks with
  | ["rulehol", name, d] => do
    let d ← d.toInt?
    let rs ← fullRules? name
    let (st', s) := ruleSet st name rs
    pure (st', boolStr (s.contains d))
  | ["partialhol", name, d] => do
    let d ← d.toInt?
    let rs ← partialRules? name
    let (st', s) := ruleSet st name rs
    pure (st', if s.contains d then "1" else "-")
  | ["mask", name] => pure (st, publishedMask name)
  | ["fixbus", _name, _d, pub] => pure (st, pub)
  | ["docname", _] => pure (st, "ok")
  | _ => none

end Drv
