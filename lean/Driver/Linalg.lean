import RateslibModel.Model.Linalg
import Driver.Curves
open Rateslib Drv

namespace Drv

def numKind : Num → Nat
  | .f64 _ => 0 | .dual _ => 1 | .dual2 _ => 2

def fmtVec (n : Nat) (x : Nat → Num) : String :=
  s!"X {n} ; " ++ " ; ".intercalate ((List.range n).map (fun i => fmtNum (x i)))

/-- `solve d|f <rows> <cols> <lsq> A-entries (row-major) b-entries` -/
def linalgStep (ds : DualState) (toks : List String) : Option String :=
  match toks with
  | "solve" :: which :: rows :: cols :: lsq :: entries => do
    let rows ← rows.toNat?; let cols ← cols.toNat?
    let lsq := lsq == "1"
    let vals ← entries.mapM (parseNodeVal? ds)
    if vals.length != rows * cols + rows then none
    let av := vals.take (rows * cols)
    let bv := vals.drop (rows * cols)
    let n := cols
    match which with
    | "d" =>
      -- all entries of one kind
      let k := (vals.map numKind).foldl max 0
      match k with
      | 0 =>
        let a : Nat → Nat → Float := fun i j => (av.getD (i * cols + j) (.f64 0)).toF64
        let b : Nat → Float := fun i => (bv.getD i (.f64 0)).toF64
        let x := dsolve rows n ⟨a, b⟩ lsq
        pure (fmtVec n (fun i => .f64 (x i)))
      | 1 =>
        let a : Nat → Nat → Dual Float := fun i j => (av.getD (i * cols + j) (.f64 0)).toDual
        let b : Nat → Dual Float := fun i => (bv.getD i (.f64 0)).toDual
        let x := dsolve rows n ⟨a, b⟩ lsq
        pure (fmtVec n (fun i => .dual (x i)))
      | _ =>
        let a : Nat → Nat → Dual2 Float := fun i j => (av.getD (i * cols + j) (.f64 0)).toDual2
        let b : Nat → Dual2 Float := fun i => (bv.getD i (.f64 0)).toDual2
        let x := dsolve rows n ⟨a, b⟩ lsq
        pure (fmtVec n (fun i => .dual2 (x i)))
    | "f" =>
      let a : Nat → Nat → Float := fun i j => (av.getD (i * cols + j) (.f64 0)).toF64
      let k := (bv.map numKind).foldl max 0
      match k with
      | 0 =>
        let b : Nat → Float := fun i => (bv.getD i (.f64 0)).toF64
        let x := fdsolve (σ := Float) rows n ⟨a, b⟩ lsq
        pure (fmtVec n (fun i => .f64 (x i)))
      | 1 =>
        let b : Nat → Dual Float := fun i => (bv.getD i (.f64 0)).toDual
        let x := fdsolve (σ := Dual Float) rows n ⟨a, b⟩ lsq
        pure (fmtVec n (fun i => .dual (x i)))
      | _ =>
        let b : Nat → Dual2 Float := fun i => (bv.getD i (.f64 0)).toDual2
        let x := fdsolve (σ := Dual2 Float) rows n ⟨a, b⟩ lsq
        pure (fmtVec n (fun i => .dual2 (x i)))
    | _ => none
  | _ => none

end Drv
