/- C20 operations of the line-protocol driver: the tagged JSON loader and the validating constructors. -/
import Driver.Json
import Driver.Dates
import Driver.Splines
namespace Drv
open Rateslib Rateslib.Load

def hexOfStr (s : String) : String :=
  if s.isEmpty then "-" else
  String.ofList (s.toUTF8.toList.flatMap (fun b => [hexChar (b.toNat / 16), hexChar (b.toNat % 16)]))

def optNat : Option Nat → String
  | some n => toString n
  | none => "-"

def fmtLoaded : Loaded → String
  | .dual s => s!"ok Dual v={s.nvars} d={s.ndual}"
  | .dual2 s => s!"ok Dual2 v={s.nvars} d={s.ndual} h={s.rows}x{s.cols}"
  | .cal s => s!"ok Cal h={s.nhol} w={s.nmask}"
  | .unionCal c s => s!"ok UnionCal c={c} s={optNat s}"
  | .namedCal n => s!"ok NamedCal name={hexOfStr n}"
  | .fxRates s => s!"ok FXRates q={s.nquotes} c={",".intercalate (s.currencies.map hexOfStr)}"
  | .spline tag s => s!"ok {tag} k={s.k} t={s.t} n={s.n} c={optNat s.c}"
  | .curve s =>
    let n := match s.nodes with
      | .f64 n => s!"F64:{n}"
      | .dual l => s!"Dual:{l.length}"
      | .dual2 l => s!"Dual2:{l.length}"
    s!"ok Curve n={n} i={s.interpolator} id={hexOfStr s.id} cv={s.convention} m={s.modifier} ib={if s.hasIndexBase then 1 else 0} cal={s.calendar}"


/-- structural equality of JSON trees -/
partial def jeq : JVal → JVal → Bool
  | .null, .null => true
  | .bool a, .bool b => a == b
  | .num a, .num b => decide (a = b)
  | .str a, .str b => a == b
  | .arr a, .arr b => a.length == b.length && (a.zip b).all (fun p => jeq p.1 p.2)
  | .obj a, .obj b => a.length == b.length && (a.zip b).all (fun p => p.1.1 == p.2.1 && jeq p.1.2 p.2.2)
  | _, _ => false

/-! Recognisers: is a tree of the form the model's writers produce (the forms the C16 document theorems quantify
over)?  The components are read off the tree, the writer is applied to them, and the result must be the tree. -/

def isWrittenDual (j : JVal) : Bool :=
  match j with
  | .obj [("real", .num re), ("vars", .arr vs), ("dual", .obj [_, _, ("data", .arr xs)])] =>
    match vs.mapM asStr, xs.mapM asF64 with
    | some names, some d => jeq (writeDual re names d) j
    | _, _ => false
  | _ => false

def isWrittenDual2 (j : JVal) : Bool :=
  match j with
  | .obj [("real", .num re), ("vars", .arr vs), ("dual", .obj [_, _, ("data", .arr xs)]),
          ("dual2", .obj [_, _, ("data", .arr hs)])] =>
    match vs.mapM asStr, xs.mapM asF64, hs.mapM asF64 with
    | some names, some d, some h => jeq (writeDual2 re names d h) j
    | _, _, _ => false
  | _ => false

/-- a `Number` document: `writeNumber` of a float, a written Dual or a written Dual2 -/
def isWrittenNumber (j : JVal) : Bool :=
  match j with
  | .obj [("F64", .num _)] => true
  | .obj [("Dual", d)] => isWrittenDual d
  | .obj [("Dual2", d)] => isWrittenDual2 d
  | _ => false

def isWrittenCal (j : JVal) : Bool :=
  match j with
  | .obj [("holidays", .arr hs), ("week_mask", .arr ws)] =>
    match hs.mapM asStr, ws.mapM asStr with
    | some h, some w => jeq (writeCal h w) j && (h.mapM parseDateTime).isSome && (w.mapM parseWeekday).isSome
    | _, _ => false
  | _ => false

def calDocOf (j : JVal) : Option (List String × List String) :=
  match j with
  | .obj [("holidays", .arr hs), ("week_mask", .arr ws)] =>
    match hs.mapM asStr, ws.mapM asStr with
    | some h, some w => some (h, w)
    | _, _ => none
  | _ => none

def isWrittenUnion (j : JVal) : Bool :=
  match j with
  | .obj [("calendars", .arr cs), ("settlement_calendars", sj)] =>
    let ss : Option (Option (List JVal)) := match sj with
      | .null => some none
      | .arr l => some (some l)
      | _ => none
    match cs.mapM calDocOf, ss with
    | some cals, some none => cs.all isWrittenCal && jeq (writeUnionCal cals none) j
    | some cals, some (some l) =>
      match l.mapM calDocOf with
      | some sl => cs.all isWrittenCal && l.all isWrittenCal && jeq (writeUnionCal cals (some sl)) j
      | none => false
    | _, _ => false
  | _ => false

def isWrittenNamed (j : JVal) : Bool :=
  match j with
  | .obj [("name", .str n)] => jeq (writeNamedCal n) j
  | _ => false

def isWrittenSpline (coeff : JVal → Bool) (j : JVal) : Bool :=
  match j with
  | .obj [("inner", .obj [("k", .num k), ("t", .arr ts), ("c", cj), ("n", .num n)])] =>
    let c : Option (Option (List JVal)) := match cj with
      | .null => some none
      | .obj [_, _, ("data", .arr items)] => if items.all coeff then some (some items) else none
      | _ => none
    match ts.mapM asF64, c with
    | some t, some c => k.isInt && !k.neg && n.isInt && !n.neg && jeq (writeSplineG k.mant t c n.mant) j
    | _, _ => false
  | _ => false

def isNum : JVal → Bool
  | .num _ => true
  | _ => false

def isWrittenCurve (j : JVal) : Bool :=
  match j with
  | .obj [("inner", .obj [("nodes", nodesDoc), ("interpolator", .obj [(interp, _)]),
          ("id", .str id), ("convention", .str conv), ("modifier", .str modi), ("index_base", ib),
          ("calendar", calDoc)])] =>
    let nodesOk := match nodesDoc with
      | .obj [("F64", .obj kvs)] => kvs.all (fun kv => isNum kv.2)
      | .obj [("Dual", .obj kvs)] => kvs.all (fun kv => isWrittenDual kv.2)
      | .obj [("Dual2", .obj kvs)] => kvs.all (fun kv => isWrittenDual2 kv.2)
      | _ => false
    let calOk := match calDoc with
      | .obj [("NamedCal", c)] => isWrittenNamed c
      | .obj [("Cal", c)] => isWrittenCal c
      | .obj [("UnionCal", c)] => isWrittenUnion c
      | _ => false
    let base : Option (Option JNum) := match ib with
      | .num b => some (some b)
      | .null => some none
      | _ => none
    match base with
    | some b => nodesOk && calOk && jeq (writeCurveG nodesDoc calDoc interp id conv modi b) j
    | none => false
  | _ => false

def isWrittenFX (j : JVal) : Bool :=
  match j with
  | .obj [("fx_rates", .arr qs), ("currencies", .arr cs)] =>
    let numDoc : JVal → Option NumDoc
      | .obj [("F64", .num x)] => some (.f64 x)
      | .obj [("Dual", .obj [("real", .num re), ("vars", .arr vs), ("dual", .obj [_, _, ("data", .arr xs)])])] =>
        match vs.mapM asStr, xs.mapM asF64 with
        | some names, some d => some (.dual re names d)
        | _, _ => none
      | .obj [("Dual2", .obj [("real", .num re), ("vars", .arr vs), ("dual", .obj [_, _, ("data", .arr xs)]),
              ("dual2", .obj [_, _, ("data", .arr hs)])])] =>
        match vs.mapM asStr, xs.mapM asF64, hs.mapM asF64 with
        | some names, some d, some h => some (.dual2 re names d h)
        | _, _, _ => none
      | _ => none
    let quote : JVal → Option WQuote
      | .obj [("pair", .arr [.obj [("name", .str a)], .obj [("name", .str b)]]), ("rate", rj), ("settlement", sj)] =>
        match numDoc rj, sj with
        | some r, .null => some ⟨a, b, r, none⟩
        | some r, .str s => (parseDateTime s).map (fun d => ⟨a, b, r, some (s, d)⟩)
        | _, _ => none
      | _ => none
    let ccy : JVal → Option String
      | .obj [("name", .str c)] => some c
      | _ => none
    match qs.mapM quote, cs.mapM ccy with
    | some qs', some cs' => jeq (writeFXRates qs' cs') j
    | _, _ => false
  | _ => false

def writtenForm (j : JVal) : Option String :=
  match j with
  | .obj [(tag, inner)] =>
    let ok := match tag with
      | "Dual" => isWrittenDual inner
      | "Dual2" => isWrittenDual2 inner
      | "Cal" => isWrittenCal inner
      | "UnionCal" => isWrittenUnion inner
      | "NamedCal" => isWrittenNamed inner
      | "Curve" => isWrittenCurve inner
      | "FXRates" => isWrittenFX inner
      | "PPSplineF64" => isWrittenSpline isNum inner
      | "PPSplineDual" => isWrittenSpline isWrittenDual inner
      | "PPSplineDual2" => isWrittenSpline isWrittenDual2 inner
      | _ => false
    if ok then some tag else none
  | _ => none

/-- `<n> item*n` prefix of a token list -/
def counted (t : List String) : Option (List String × List String) :=
  match t with
  | n :: rest => do
    let n ← n.toNat?
    if rest.length < n then none else some (rest.take n, rest.drop n)
  | [] => none

def loadStep (ds : DateState) (sp : SplineState) (toks : List String) : Option String :=
  match toks with
  | [op, h] =>
    if op == "loadjson" || op == "loadjsonx" then do
      let text ← decodeHexStr h
      match parseJson text with
      | none => pure "err"
      | some j =>
        match loadTagged (fun s => ds.names.get? s) j with
        | .ok l => pure (fmtLoaded l)
        | .err => pure "err"
        | .panic _ => pure "panic"
    else if op == "written" then do
      -- a document the library's own `to_json` wrote: of the model writer's form, and accepted by the loader
      let text ← decodeHexStr h
      match parseJson text with
      | none => pure "unparsed"
      | some j =>
        match writtenForm j, loadTagged (fun s => ds.names.get? s) j with
        | some tag, .ok _ => pure s!"written {tag} ok"
        | some tag, _ => pure s!"written {tag} rejected"
        | none, _ => pure "not-of-written-form"
    else if op == "ccy" then do
      let s ← decodeHexStr h
      match ccyTryNew s with
      | some c => pure s!"ok {hexOfStr c}"
      | none => pure "err"
    else if op == "spshape" then do
      let obj ← sp.sp.get? (← h.toNat?)
      let (k, t, n, c) := match obj with
        | .f s => (s.k, s.t.length, s.n, s.c.map List.length)
        | .d s => (s.k, s.t.length, s.n, s.c.map List.length)
        | .d2 s => (s.k, s.t.length, s.n, s.c.map List.length)
      pure s!"k={k} t={t} n={n} c={optNat c}"
    else none
  | ["loadtyped", tag, h] => do
    -- the per-type `from_json` entry points: the same derived `Deserialize` the tagged entry point reaches
    -- through its variant, so the model is the tagged loader on the document wrapped in its tag
    let text ← decodeHexStr h
    match parseJson text with
    | none => pure "err"
    | some j =>
      match loadTagged (fun s => ds.names.get? s) (.obj [(tag, j)]) with
      | .ok l => pure (fmtLoaded l)
      | .err => pure "err"
      | .panic _ => pure "panic"
  | ["fxpair", a, b] => do
    let a ← decodeHexStr a
    let b ← decodeHexStr b
    match fxPairTryNew a b with
    | some (x, y) => pure s!"ok {hexOfStr (x ++ y)}"
    | none => pure "err"
  | "trydual" :: real :: rest => do
    let re ← parseF? real
    let (ns, rest) ← counted rest
    let (dsT, rest) ← counted rest
    if !rest.isEmpty then none else
    let dv ← dsT.mapM parseF?
    match Dual.tryNew re ns dv with
    | some d => pure s!"ok v={d.vars.length} d={d.dual.length}"
    | none => pure "err"
  | "trydualfrom" :: real :: rest => do
    let re ← parseF? real
    let (os, rest) ← counted rest
    let (ns, rest) ← counted rest
    let (dsT, rest) ← counted rest
    if !rest.isEmpty then none else
    let dv ← dsT.mapM parseF?
    match Dual.tryNewFrom (dedup os) re ns dv with
    | some d => pure s!"ok v={d.vars.length} d={d.dual.length}"
    | none => pure "err"
  | "trydual2from" :: real :: rest => do
    let re ← parseF? real
    let (os, rest) ← counted rest
    let (ns, rest) ← counted rest
    let (dsT, rest) ← counted rest
    let (hsT, rest) ← counted rest
    if !rest.isEmpty then none else
    let dv ← dsT.mapM parseF?
    let hv ← hsT.mapM parseF?
    match Dual2.tryNewFrom (dedup os) re ns dv hv with
    | some d => pure s!"ok v={d.vars.length} d={d.dual.length} h={d.dual2.length}x{(d.dual2.headD []).length}"
    | none => pure "err"
  | "trydual2" :: real :: rest => do
    let re ← parseF? real
    let (ns, rest) ← counted rest
    let (dsT, rest) ← counted rest
    let (hsT, rest) ← counted rest
    if !rest.isEmpty then none else
    let dv ← dsT.mapM parseF?
    let hv ← hsT.mapM parseF?
    match Dual2.tryNew re ns dv hv with
    | some d => pure s!"ok v={d.vars.length} d={d.dual.length} h={d.dual2.length}x{(d.dual2.headD []).length}"
    | none => pure "err"
  | _ => none

end Drv
