/- C20 operations of the line-protocol driver: the tagged JSON loader and the validating constructors. -/
import Driver.Json
import Driver.Dates
import Driver.Splines
namespace Drv
open Rateslib Rateslib.Load

def hexOfStr (s : String) : String :=
  if s.isEmpty then "-" else
  String.ofList (s.toUTF8.toList.flatMap (fun b => [hexChar (b.toNat / 16), hexChar (b.toNat % 16)]))

def optNat : Option Nat → String
  | some n => toString n
  | none => "-"

def fmtLoaded : Loaded → String
  | .dual s => s!"ok Dual v={s.nvars} d={s.ndual}"
  | .dual2 s => s!"ok Dual2 v={s.nvars} d={s.ndual} h={s.rows}x{s.cols}"
  | .cal s => s!"ok Cal h={s.nhol} w={s.nmask}"
  | .unionCal c s => s!"ok UnionCal c={c} s={optNat s}"
  | .namedCal n => s!"ok NamedCal name={hexOfStr n}"
  | .fxRates s => s!"ok FXRates q={s.nquotes} c={",".intercalate (s.currencies.map hexOfStr)}"
  | .spline tag s => s!"ok {tag} k={s.k} t={s.t} n={s.n} c={optNat s.c}"
  | .curve s =>
    let n := match s.nodes with
      | .f64 n => s!"F64:{n}"
      | .dual l => s!"Dual:{l.length}"
      | .dual2 l => s!"Dual2:{l.length}"
    s!"ok Curve n={n} i={s.interpolator} id={hexOfStr s.id} cv={s.convention} m={s.modifier} ib={if s.hasIndexBase then 1 else 0} cal={s.calendar}"


/-- structural equality of JSON trees -/
partial def jeq : JVal → JVal → Bool
  | .null, .null => true
  | .bool a, .bool b => a == b
  | .num a, .num b => decide (a = b)
  | .str a, .str b => a == b
  | .arr a, .arr b => a.length == b.length && (a.zip b).all (fun p => jeq p.1 p.2)
  | .obj a, .obj b => a.length == b.length && (a.zip b).all (fun p => p.1.1 == p.2.1 && jeq p.1.2 p.2.2)
  | _, _ => false

/-- is the tagged document of the form the model's writer produces (`writeDual`, `writeDual2`, `writeCurveF64`
of Model/Load.lean, the forms the C16 document theorems quantify over)?  The components are read off the tree,
the writer is applied to them, and the result must be the tree itself. -/
def writtenForm (j : JVal) : Option String :=
  match j with
  | .obj [("Dual", inner)] =>
    match inner with
    | .obj [("real", .num re), ("vars", .arr vs), ("dual", .obj [_, _, ("data", .arr xs)])] =>
      match vs.mapM asStr, xs.mapM asF64 with
      | some names, some d => if jeq (writeDual re names d) inner then some "Dual" else none
      | _, _ => none
    | _ => none
  | .obj [("Dual2", inner)] =>
    match inner with
    | .obj [("real", .num re), ("vars", .arr vs), ("dual", .obj [_, _, ("data", .arr xs)]),
            ("dual2", .obj [_, _, ("data", .arr hs)])] =>
      match vs.mapM asStr, xs.mapM asF64, hs.mapM asF64 with
      | some names, some d, some h => if jeq (writeDual2 re names d h) inner then some "Dual2" else none
      | _, _, _ => none
    | _ => none
  | .obj [("Curve", inner)] =>
    match inner with
    | .obj [("inner", .obj [("nodes", .obj [("F64", .obj kvs)]), ("interpolator", .obj [(interp, _)]),
            ("id", .str id), ("convention", .str conv), ("modifier", .str modi), ("index_base", ib),
            ("calendar", .obj [("NamedCal", .obj [("name", .str cal)])])])] =>
      match kvs.mapM (fun kv => asF64 kv.2), (match ib with | .num b => some (some b) | .null => some none | _ => none) with
      | some vals, some base =>
        if jeq (writeCurveF64 (kvs.map (·.1)) vals interp id conv modi base cal) inner then some "Curve" else none
      | _, _ => none
    | _ => none
  | .obj [("PPSplineF64", inner)] =>
    match inner with
    | .obj [("inner", .obj [("k", .num k), ("t", .arr ts), ("c", cj), ("n", .num n)])] =>
      let c : Option (Option (List JNum)) := match cj with
        | .null => some none
        | .obj [_, _, ("data", .arr xs)] => (xs.mapM asF64).map some
        | _ => none
      match ts.mapM asF64, c with
      | some t, some c =>
        if k.isInt && !k.neg && n.isInt && !n.neg && jeq (writeSplineF64 k.mant t c n.mant) inner
        then some "PPSplineF64" else none
      | _, _ => none
    | _ => none
  | .obj [("FXRates", inner)] =>
    match inner with
    | .obj [("fx_rates", .arr qs), ("currencies", .arr cs)] =>
      let quote : JVal → Option WQuote
        | .obj [("pair", .arr [.obj [("name", .str a)], .obj [("name", .str b)]]),
                ("rate", .obj [("F64", .num r)]), ("settlement", sj)] =>
          match sj with
          | .null => some ⟨a, b, r, none⟩
          | .str s => (parseDateTime s).map (fun d => ⟨a, b, r, some (s, d)⟩)
          | _ => none
        | _ => none
      let ccy : JVal → Option String
        | .obj [("name", .str c)] => some c
        | _ => none
      match qs.mapM quote, cs.mapM ccy with
      | some qs', some cs' => if jeq (writeFXRates qs' cs') inner then some "FXRates" else none
      | _, _ => none
    | _ => none
  | _ => none

/-- `<n> item*n` prefix of a token list -/
def counted (t : List String) : Option (List String × List String) :=
  match t with
  | n :: rest => do
    let n ← n.toNat?
    if rest.length < n then none else some (rest.take n, rest.drop n)
  | [] => none

def loadStep (ds : DateState) (sp : SplineState) (toks : List String) : Option String :=
  match toks with
  | [op, h] =>
    if op == "loadjson" || op == "loadjsonx" then do
      let text ← decodeHexStr h
      match parseJson text with
      | none => pure "err"
      | some j =>
        match loadTagged (fun s => ds.names.get? s) j with
        | .ok l => pure (fmtLoaded l)
        | .err => pure "err"
        | .panic _ => pure "panic"
    else if op == "written" then do
      -- a document the library's own `to_json` wrote: of the model writer's form, and accepted by the loader
      let text ← decodeHexStr h
      match parseJson text with
      | none => pure "unparsed"
      | some j =>
        match writtenForm j, loadTagged (fun s => ds.names.get? s) j with
        | some tag, .ok _ => pure s!"written {tag} ok"
        | some tag, _ => pure s!"written {tag} rejected"
        | none, _ => pure "not-of-written-form"
    else if op == "ccy" then do
      let s ← decodeHexStr h
      match ccyTryNew s with
      | some c => pure s!"ok {hexOfStr c}"
      | none => pure "err"
    else if op == "spshape" then do
      let obj ← sp.sp.get? (← h.toNat?)
      let (k, t, n, c) := match obj with
        | .f s => (s.k, s.t.length, s.n, s.c.map List.length)
        | .d s => (s.k, s.t.length, s.n, s.c.map List.length)
        | .d2 s => (s.k, s.t.length, s.n, s.c.map List.length)
      pure s!"k={k} t={t} n={n} c={optNat c}"
    else none
  | ["loadtyped", tag, h] => do
    -- the per-type `from_json` entry points: the same derived `Deserialize` the tagged entry point reaches
    -- through its variant, so the model is the tagged loader on the document wrapped in its tag
    let text ← decodeHexStr h
    match parseJson text with
    | none => pure "err"
    | some j =>
      match loadTagged (fun s => ds.names.get? s) (.obj [(tag, j)]) with
      | .ok l => pure (fmtLoaded l)
      | .err => pure "err"
      | .panic _ => pure "panic"
  | ["fxpair", a, b] => do
    let a ← decodeHexStr a
    let b ← decodeHexStr b
    match fxPairTryNew a b with
    | some (x, y) => pure s!"ok {hexOfStr (x ++ y)}"
    | none => pure "err"
  | "trydual" :: real :: rest => do
    let re ← parseF? real
    let (ns, rest) ← counted rest
    let (dsT, rest) ← counted rest
    if !rest.isEmpty then none else
    let dv ← dsT.mapM parseF?
    match Dual.tryNew re ns dv with
    | some d => pure s!"ok v={d.vars.length} d={d.dual.length}"
    | none => pure "err"
  | "trydual2" :: real :: rest => do
    let re ← parseF? real
    let (ns, rest) ← counted rest
    let (dsT, rest) ← counted rest
    let (hsT, rest) ← counted rest
    if !rest.isEmpty then none else
    let dv ← dsT.mapM parseF?
    let hv ← hsT.mapM parseF?
    match Dual2.tryNew re ns dv hv with
    | some d => pure s!"ok v={d.vars.length} d={d.dual.length} h={d.dual2.length}x{(d.dual2.headD []).length}"
    | none => pure "err"
  | _ => none

end Drv
