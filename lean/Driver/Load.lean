/- C20 operations of the line-protocol driver: the tagged JSON loader and the validating constructors. -/
import Driver.Json
import Driver.Dates
import Driver.Splines
namespace Drv
open Rateslib Rateslib.Load

def hexOfStr (s : String) : String :=
  if s.isEmpty then "-" else
  String.ofList (s.toUTF8.toList.flatMap (fun b => [hexChar (b.toNat / 16), hexChar (b.toNat % 16)]))

def optNat : Option Nat → String
  | some n => toString n
  | none => "-"

def fmtLoaded : Loaded → String
  | .dual s => s!"ok Dual v={s.nvars} d={s.ndual}"
  | .dual2 s => s!"ok Dual2 v={s.nvars} d={s.ndual} h={s.rows}x{s.cols}"
  | .cal s => s!"ok Cal h={s.nhol} w={s.nmask}"
  | .unionCal c s => s!"ok UnionCal c={c} s={optNat s}"
  | .namedCal n => s!"ok NamedCal name={hexOfStr n}"
  | .fxRates s => s!"ok FXRates q={s.nquotes} c={",".intercalate (s.currencies.map hexOfStr)}"
  | .spline tag s => s!"ok {tag} k={s.k} t={s.t} n={s.n} c={optNat s.c}"
  | .curve s =>
    let n := match s.nodes with
      | .f64 n => s!"F64:{n}"
      | .dual l => s!"Dual:{l.length}"
      | .dual2 l => s!"Dual2:{l.length}"
    s!"ok Curve n={n} i={s.interpolator} id={hexOfStr s.id} cv={s.convention} m={s.modifier} ib={if s.hasIndexBase then 1 else 0} cal={s.calendar}"

/-- `<n> item*n` prefix of a token list -/
def counted (t : List String) : Option (List String × List String) :=
  match t with
  | n :: rest => do
    let n ← n.toNat?
    if rest.length < n then none else some (rest.take n, rest.drop n)
  | [] => none

def loadStep (ds : DateState) (sp : SplineState) (toks : List String) : Option String :=
  match toks with
  | [op, h] =>
    if op == "loadjson" || op == "loadjsonx" then do
      let text ← decodeHexStr h
      match parseJson text with
      | none => pure "err"
      | some j =>
        match loadTagged (fun s => ds.names.get? s) j with
        | .ok l => pure (fmtLoaded l)
        | .err => pure "err"
        | .panic _ => pure "panic"
    else if op == "ccy" then do
      let s ← decodeHexStr h
      match ccyTryNew s with
      | some c => pure s!"ok {hexOfStr c}"
      | none => pure "err"
    else if op == "spshape" then do
      let obj ← sp.sp.get? (← h.toNat?)
      let (k, t, n, c) := match obj with
        | .f s => (s.k, s.t.length, s.n, s.c.map List.length)
        | .d s => (s.k, s.t.length, s.n, s.c.map List.length)
        | .d2 s => (s.k, s.t.length, s.n, s.c.map List.length)
      pure s!"k={k} t={t} n={n} c={optNat c}"
    else none
  | ["fxpair", a, b] => do
    let a ← decodeHexStr a
    let b ← decodeHexStr b
    match fxPairTryNew a b with
    | some (x, y) => pure s!"ok {hexOfStr (x ++ y)}"
    | none => pure "err"
  | "trydual" :: real :: rest => do
    let re ← parseF? real
    let (ns, rest) ← counted rest
    let (dsT, rest) ← counted rest
    if !rest.isEmpty then none else
    let dv ← dsT.mapM parseF?
    match Dual.tryNew re ns dv with
    | some d => pure s!"ok v={d.vars.length} d={d.dual.length}"
    | none => pure "err"
  | "trydual2" :: real :: rest => do
    let re ← parseF? real
    let (ns, rest) ← counted rest
    let (dsT, rest) ← counted rest
    let (hsT, rest) ← counted rest
    if !rest.isEmpty then none else
    let dv ← dsT.mapM parseF?
    let hv ← hsT.mapM parseF?
    match Dual2.tryNew re ns dv hv with
    | some d => pure s!"ok v={d.vars.length} d={d.dual.length} h={d.dual2.length}x{(d.dual2.headD []).length}"
    | none => pure "err"
  | _ => none

end Drv
