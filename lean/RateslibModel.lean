import RateslibModel.Model.Dates
import RateslibModel.Model.Cal
