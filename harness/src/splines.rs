//! Spline operations (C14, C15) against the real code.
use crate::duals::{fmt_num, hf, pf, DualState};
use crate::rng::Rng;
use rateslib::dual::{Dual, Dual2, Number};
use rateslib::splines::{
    bspldnev_single_dual, bspldnev_single_dual2, bspldnev_single_f64, bsplev_single_dual, bsplev_single_dual2,
    bsplev_single_f64, PPSpline,
};
use std::collections::HashMap;
use std::io::Write;
use std::panic::{catch_unwind, AssertUnwindSafe};

pub enum SplineObj {
    F(PPSpline<f64>),
    D(PPSpline<Dual>),
    D2(PPSpline<Dual2>),
}

#[derive(Default)]
pub struct SplineState {
    pub sp: HashMap<usize, SplineObj>,
}

fn guarded<F: FnOnce() -> String>(f: F) -> String {
    match catch_unwind(AssertUnwindSafe(f)) {
        Ok(s) => s,
        Err(_) => "panic".to_string(),
    }
}

fn org(s: &str) -> Option<Option<usize>> {
    if s == "-" {
        Some(None)
    } else {
        s.parse().ok().map(Some)
    }
}

fn num_of(ds: &DualState, v: &str) -> Option<Number> {
    if let Some(x) = v.strip_prefix('F') {
        Some(Number::F64(pf(x)?))
    } else if let Some(h) = v.strip_prefix('H') {
        ds.vals.get(&h.parse().ok()?).cloned()
    } else {
        None
    }
}

pub fn step(ds: &DualState, st: &mut SplineState, t: &[&str]) -> Option<String> {
    Some(match t {
        ["bsplev", x, i, k, o, _nt, ts @ ..] => {
            let (x, i, k, o) = (pf(x)?, i.parse().ok()?, k.parse::<usize>().ok()?, org(o)?);
            let tv: Vec<f64> = ts.iter().map(|s| pf(s)).collect::<Option<_>>()?;
            guarded(|| hf(bsplev_single_f64(&x, i, &k, &tv, o)))
        }
        ["bspldnev", x, i, k, m, o, _nt, ts @ ..] => {
            let (x, i, k, m, o) = (pf(x)?, i.parse().ok()?, k.parse::<usize>().ok()?, m.parse().ok()?, org(o)?);
            let tv: Vec<f64> = ts.iter().map(|s| pf(s)).collect::<Option<_>>()?;
            guarded(|| hf(bspldnev_single_f64(&x, i, &k, &tv, m, o)))
        }
        ["bspldual", ord, m, x, dx, ddx, i, k, _nt, ts @ ..] => {
            // the public dual-abscissa entry points of a single basis function, called directly
            let (x, dx, ddx) = (pf(x)?, pf(dx)?, pf(ddx)?);
            let (i, k): (usize, usize) = (i.parse().ok()?, k.parse().ok()?);
            let mm: Option<usize> = if *m == "-" { None } else { Some(m.parse().ok()?) };
            let tv: Vec<f64> = ts.iter().map(|s| pf(s)).collect::<Option<_>>()?;
            let names = vec!["x".to_string(), "y".to_string()];
            let first = *ord == "1";
            guarded(|| {
                if first {
                    let xd = Dual::try_new(x, names, vec![dx, 0.5]).unwrap();
                    let r = match mm {
                        None => bsplev_single_dual(&xd, i, &k, &tv, None),
                        Some(m) => bspldnev_single_dual(&xd, i, &k, &tv, m, None),
                    };
                    fmt_num(&Number::Dual(r))
                } else {
                    let xd = Dual2::try_new(x, names, vec![dx, 0.5], vec![ddx, 0.25, 0.25, -1.0]).unwrap();
                    let r = match mm {
                        None => bsplev_single_dual2(&xd, i, &k, &tv, None),
                        Some(m) => bspldnev_single_dual2(&xd, i, &k, &tv, m, None),
                    };
                    fmt_num(&Number::Dual2(r))
                }
            })
        }
        ["basisrow", x, k, _nt, ts @ ..] => {
            let (x, k) = (pf(x)?, k.parse::<usize>().ok()?);
            let tv: Vec<f64> = ts.iter().map(|s| pf(s)).collect::<Option<_>>()?;
            guarded(|| {
                let n = tv.len() - k;
                let mut s = "B".to_string();
                for i in 0..n {
                    s.push(' ');
                    s.push_str(&hf(bsplev_single_f64(&x, i, &k, &tv, None)));
                }
                s
            })
        }
        ["spline", id, kind, k, _nt, ts @ ..] => {
            let id: usize = id.parse().ok()?;
            let k: usize = k.parse().ok()?;
            let tv: Vec<f64> = ts.iter().map(|s| pf(s)).collect::<Option<_>>()?;
            let r = catch_unwind(AssertUnwindSafe(|| match *kind {
                "f" => Some(SplineObj::F(PPSpline::new(k, tv, None))),
                "1" => Some(SplineObj::D(PPSpline::new(k, tv, None))),
                "2" => Some(SplineObj::D2(PPSpline::new(k, tv, None))),
                _ => None,
            }));
            match r {
                Ok(Some(o)) => {
                    st.sp.insert(id, o);
                    "ok".to_string()
                }
                Ok(None) => return None,
                Err(_) => "panic".to_string(),
            }
        }
        ["csolve", id, ln, rn, lsq, ntau, rest @ ..] => {
            let id: usize = id.parse().ok()?;
            let (ln, rn): (usize, usize) = (ln.parse().ok()?, rn.parse().ok()?);
            let lsq = *lsq == "1";
            let ntau: usize = ntau.parse().ok()?;
            if rest.len() < ntau {
                return None;
            }
            let tau: Vec<f64> = rest[..ntau].iter().map(|s| pf(s)).collect::<Option<_>>()?;
            let ys: Vec<Number> = rest[ntau..].iter().map(|s| num_of(ds, s)).collect::<Option<_>>()?;
            let obj = st.sp.get_mut(&id)?;
            guarded(|| {
                let r = match obj {
                    SplineObj::F(s) => s.csolve(&tau, &ys.iter().map(f64::from).collect::<Vec<_>>(), ln, rn, lsq),
                    SplineObj::D(s) => s.csolve(&tau, &ys.iter().map(Dual::from).collect::<Vec<_>>(), ln, rn, lsq),
                    SplineObj::D2(s) => s.csolve(&tau, &ys.iter().map(Dual2::from).collect::<Vec<_>>(), ln, rn, lsq),
                };
                match r {
                    Ok(()) => "ok".to_string(),
                    Err(_) => "err".to_string(),
                }
            })
        }
        ["ppev", id, m, x] | ["ppevpoly", id, m, x, _] => {
            let obj = st.sp.get(&id.parse().ok()?)?;
            let m: usize = m.parse().ok()?;
            let x = num_of(ds, x)?;
            guarded(|| {
                let r: Result<Number, ()> = match (obj, &x) {
                    (SplineObj::F(s), Number::F64(v)) => s.ppdnev_single(v, m).map(Number::F64).map_err(|_| ()),
                    (SplineObj::D(s), Number::F64(v)) => s.ppdnev_single(v, m).map(Number::Dual).map_err(|_| ()),
                    (SplineObj::D2(s), Number::F64(v)) => s.ppdnev_single(v, m).map(Number::Dual2).map_err(|_| ()),
                    (SplineObj::F(s), Number::Dual(v)) => s.ppdnev_single_dual(v, m).map(Number::Dual).map_err(|_| ()),
                    (SplineObj::F(s), Number::Dual2(v)) => s.ppdnev_single_dual2(v, m).map(Number::Dual2).map_err(|_| ()),
                    (SplineObj::D(s), Number::Dual(v)) => s.ppdnev_single_dual(v, m).map(Number::Dual).map_err(|_| ()),
                    (SplineObj::D(s), Number::Dual2(v)) => s.ppdnev_single_dual2(v, m).map(Number::Dual2).map_err(|_| ()),
                    (SplineObj::D2(s), Number::Dual(v)) => s.ppdnev_single_dual(v, m).map(Number::Dual).map_err(|_| ()),
                    (SplineObj::D2(s), Number::Dual2(v)) => s.ppdnev_single_dual2(v, m).map(Number::Dual2).map_err(|_| ()),
                };
                match r {
                    Ok(v) => fmt_num(&v),
                    Err(()) => "err".to_string(),
                }
            })
        }
        ["spc", id] => {
            let obj = st.sp.get(&id.parse().ok()?)?;
            let cs: Option<Vec<Number>> = match obj {
                SplineObj::F(s) => s.c().as_ref().map(|c| c.iter().map(|v| Number::F64(*v)).collect()),
                SplineObj::D(s) => s.c().as_ref().map(|c| c.iter().map(|v| Number::Dual(v.clone())).collect()),
                SplineObj::D2(s) => s.c().as_ref().map(|c| c.iter().map(|v| Number::Dual2(v.clone())).collect()),
            };
            match cs {
                Some(l) => format!("C {} ; {}", l.len(), l.iter().map(fmt_num).collect::<Vec<_>>().join(" ; ")),
                None => "none".to_string(),
            }
        }
        ["spshape", id] => {
            let obj = st.sp.get(&id.parse().ok()?)?;
            let (k, t, n, c) = match obj {
                SplineObj::F(s) => (*s.k(), s.t().len(), *s.n(), s.c().as_ref().map(|c| c.len())),
                SplineObj::D(s) => (*s.k(), s.t().len(), *s.n(), s.c().as_ref().map(|c| c.len())),
                SplineObj::D2(s) => (*s.k(), s.t().len(), *s.n(), s.c().as_ref().map(|c| c.len())),
            };
            format!("k={} t={} n={} c={}", k, t, n, c.map_or("-".to_string(), |x| x.to_string()))
        }
        _ => return None,
    })
}

// ------------------------------------------------------------------------------------------

/// a non-decreasing knot vector of order k with k-fold end knots and `nint` interior positions with
/// multiplicities 1..k-1, on a small dyadic grid
fn random_knots(r: &mut Rng, k: usize) -> Vec<f64> {
    let nint = r.range(0, 5) as usize;
    let mut t = vec![0.0; k];
    let mut pos = 0.0;
    for _ in 0..nint {
        pos += *r.pick(&[0.25, 0.5, 1.0, 1.5, 2.0]);
        let mult = if k > 1 { r.range(1, (k - 1).min(3) as i64) as usize } else { 1 };
        for _ in 0..mult {
            t.push(pos);
        }
    }
    pos += *r.pick(&[0.5, 1.0, 2.0]);
    for _ in 0..k {
        t.push(pos);
    }
    t
}

fn join_h(v: &[f64]) -> String {
    v.iter().map(|x| hf(*x)).collect::<Vec<_>>().join(" ")
}

pub fn gen_c14<W: Write>(out: &mut W, thorough: bool, seed: u64) {
    let mut r = Rng::new(seed ^ 0xC14);
    let n_vec = if thorough { 20000 } else { 300 };
    for _ in 0..n_vec {
        let k = r.range(1, 6) as usize;
        let t = random_knots(&mut r, k);
        let n = t.len() - k;
        // evaluation points: every knot, both end points, midpoints, random points, outside points
        let mut xs: Vec<f64> = t.clone();
        xs.dedup();
        let mids: Vec<f64> = xs.windows(2).map(|w| (w[0] + w[1]) / 2.0).collect();
        xs.extend(mids);
        for _ in 0..3 {
            xs.push(t[0] + r.unit() * (t[t.len() - 1] - t[0]));
        }
        xs.push(t[0] - 0.5);
        xs.push(t[t.len() - 1] + 0.5);
        let ts = join_h(&t);
        for x in &xs {
            // the whole basis at x (model-free oracle: non-negative, sums to one inside the domain)
            writeln!(out, "basisrow {} {} {} {}", hf(*x), k, t.len(), ts).unwrap();
            for i in 0..n {
                writeln!(out, "bsplev {} {} {} - {} {}", hf(*x), i, k, t.len(), ts).unwrap();
                for m in 0..=k {
                    writeln!(out, "bspldnev {} {} {} {} - {} {}", hf(*x), i, k, m, t.len(), ts).unwrap();
                }
                // the dual-abscissa entry points, on a third of the functions (a ninth in the thorough tier, whose
                // stream is twenty times longer)
                if (i + (x.to_bits() >> 40) as usize) % (if thorough { 9 } else { 3 }) == 0 {
                    let (dx, ddx) = (r.dyadic(), r.dyadic());
                    for ord in [1, 2] {
                        writeln!(out, "bspldual {} - {} {} {} {} {} {} {}", ord, hf(*x), hf(dx), hf(ddx), i, k, t.len(), ts).unwrap();
                        for m in 0..3usize.min(k + 1) {
                            writeln!(out, "bspldual {} {} {} {} {} {} {} {} {}", ord, m, hf(*x), hf(dx), hf(ddx), i, k, t.len(), ts).unwrap();
                        }
                    }
                }
            }
        }
    }
}

/// sites for a natural-spline style layout: the distinct knots (collocation at knots with derivative end conditions)
fn sites_for(t: &[f64], k: usize, r: &mut Rng) -> (Vec<f64>, usize, usize) {
    let n = t.len() - k;
    let mut distinct: Vec<f64> = t.to_vec();
    distinct.dedup();
    if k == 4 && distinct.len() + 2 == n {
        // natural cubic: knots as sites plus the two end sites repeated with 2nd-derivative conditions
        let mut tau = vec![distinct[0]];
        tau.extend(distinct.iter());
        tau.push(*distinct.last().unwrap());
        // independent end conditions (first or second derivative at each end)
        let ln = *r.pick(&[1usize, 2, 2]);
        let rn = *r.pick(&[1usize, 2, 2]);
        return (tau, ln, rn);
    }
    if k == 3 && distinct.len() + 1 == n && r.chance(1, 2) {
        // quadratic: knots as sites plus ONE end site repeated with a first-derivative condition
        let mut tau = Vec::new();
        let left = r.chance(1, 2);
        if left {
            tau.push(distinct[0]);
        }
        tau.extend(distinct.iter());
        if !left {
            tau.push(*distinct.last().unwrap());
        }
        return (tau, if left { 1 } else { 0 }, if left { 0 } else { 1 });
    }
    // plain interpolation: n strictly increasing sites satisfying Schoenberg-Whitney (Greville abscissae)
    let mut tau = Vec::new();
    for i in 0..n {
        let s: f64 = if k > 1 { t[i + 1..i + k].iter().sum::<f64>() / ((k - 1) as f64) } else { (t[i] + t[i + 1]) / 2.0 };
        tau.push(s);
    }
    (tau, 0, 0)
}

pub fn gen_c15<W: Write>(out: &mut W, thorough: bool, seed: u64) {
    let mut r = Rng::new(seed ^ 0xC15);
    let n_spl = if thorough { 2500 } else { 300 };
    let mut count = 0;
    while count < n_spl {
        let k = r.range(2, 6) as usize;
        // simple interior knots so that Greville sites are strictly increasing
        let nint = r.range(0, 5) as usize;
        let mut t = vec![0.0; k];
        let mut pos = 0.0;
        for _ in 0..nint {
            pos += *r.pick(&[0.5, 1.0, 1.5, 2.0]);
            t.push(pos);
        }
        pos += *r.pick(&[0.5, 1.0, 2.0]);
        for _ in 0..k {
            t.push(pos);
        }
        let n = t.len() - k;
        let (tau, ln, rn) = sites_for(&t, k, &mut r);
        if tau.len() != n {
            continue;
        }
        count += 1;
        let kind = *r.pick(&["f", "1", "2"]);
        writeln!(out, "spline 1 {} {} {} {}", kind, k, t.len(), join_h(&t)).unwrap();
        writeln!(out, "ppev 1 0 F{}", hf(t[0])).unwrap(); // before csolve: error
        // data: polynomial of degree < k (exact reproduction) or random
        let poly = r.chance(1, 2);
        let deg = r.range(0, k as i64 - 1) as usize;
        let coef: Vec<f64> = (0..=deg).map(|_| ((r.unit() * 2.0 - 1.0) * 8.0).round() / 4.0).collect();
        let pval = |x: f64, d: usize| -> f64 {
            // d-th derivative of the polynomial at x
            let mut s = 0.0;
            for (p, c) in coef.iter().enumerate() {
                if p >= d {
                    let mut f = 1.0;
                    for q in 0..d {
                        f *= (p - q) as f64;
                    }
                    s += c * f * x.powi((p - d) as i32);
                }
            }
            s
        };
        let mut ytoks = Vec::new();
        let mut next = 300usize;
        for (j, x) in tau.iter().enumerate() {
            let d = if j == 0 { ln } else if j == tau.len() - 1 { rn } else { 0 };
            let v = if poly { pval(*x, d) } else { ((r.unit() * 2.0 - 1.0) * 8.0).round() / 4.0 };
            if kind == "f" {
                ytoks.push(format!("F{}", hf(v)));
            } else {
                let tag = if kind == "1" { "dual" } else { "dual2" };
                // each datum tagged with its own variable (unit sensitivity) and a shared one
                if kind == "1" {
                    writeln!(out, "{} {} {} 2 y{} {} sh {} 0", tag, next, hf(v), j, hf(1.0), hf(0.5)).unwrap();
                } else {
                    writeln!(out, "{} {} {} 2 y{} {} sh {} {} {} {} {} 0", tag, next, hf(v), j, hf(1.0), hf(0.5), hf(0.0), hf(0.0), hf(0.0), hf(0.0)).unwrap();
                }
                ytoks.push(format!("H{}", next));
                next += 1;
            }
        }
        // site-count errors first (the spline stays unsolved): one site too many without least squares, one
        // too few with and without, data of another length than the sites
        {
            let mut more = tau.clone();
            more.push(tau[tau.len() - 1]);
            let mut ym = ytoks.clone();
            ym.push(ytoks[0].clone());
            writeln!(out, "csolve 1 {} {} 0 {} {} {}", ln, rn, more.len(), join_h(&more), ym.join(" ")).unwrap();
            writeln!(out, "csolve 1 {} {} 0 {} {} {}", ln, rn, tau.len() - 1, join_h(&tau[1..]), ytoks[1..].join(" ")).unwrap();
            writeln!(out, "csolve 1 {} {} 1 {} {} {}", ln, rn, tau.len() - 1, join_h(&tau[1..]), ytoks[1..].join(" ")).unwrap();
            writeln!(out, "csolve 1 {} {} 0 {} {} {}", ln, rn, tau.len(), join_h(&tau), ytoks[1..].join(" ")).unwrap();
            writeln!(out, "ppev 1 0 F{}", hf(t[0])).unwrap();
        }
        writeln!(out, "csolve 1 {} {} 0 {} {} {}", ln, rn, tau.len(), join_h(&tau), ytoks.join(" ")).unwrap();
        writeln!(out, "spc 1").unwrap();
        // values and derivatives on a dense grid incl. sites, knots and end points
        let (lo, hi) = (t[0], t[t.len() - 1]);
        let mut xs: Vec<f64> = tau.clone();
        xs.extend(t.iter());
        for g in 0..=8 {
            xs.push(lo + (hi - lo) * (g as f64) / 8.0);
        }
        xs.sort_by(|a, b| a.partial_cmp(b).unwrap());
        xs.dedup();
        for x in &xs {
            for m in 0..=k.min(3) {
                if poly {
                    writeln!(out, "ppevpoly 1 {} F{} {}", m, hf(*x), hf(pval(*x, m))).unwrap();
                } else {
                    writeln!(out, "ppev 1 {} F{}", m, hf(*x)).unwrap();
                }
            }
        }
        // dual abscissae
        // a random point, the two end points (the right one is where the end-point rule applies) and a knot
        let xds = [lo + (hi - lo) * r.unit(), lo, hi, t[t.len() / 2]];
        for (q, xd) in xds.iter().enumerate() {
            let (i1, i2) = (200 + 2 * q, 201 + 2 * q);
            writeln!(out, "dual {} {} 2 xa {} xb {} 0", i1, hf(*xd), hf(1.0), hf(-0.5)).unwrap();
            writeln!(out, "dual2 {} {} 2 xa {} xb {} {} {} {} {} 0", i2, hf(*xd), hf(1.0), hf(-0.5), hf(0.25), hf(0.0), hf(0.0), hf(-0.125)).unwrap();
            for m in 0..2 {
                writeln!(out, "ppev 1 {} H{}", m, i1).unwrap();
                writeln!(out, "ppev 1 {} H{}", m, i2).unwrap();
            }
        }
        // mismatched site counts are reported as errors
        if tau.len() >= 2 {
            writeln!(out, "csolve 1 0 0 0 {} {} {}", tau.len() - 1, join_h(&tau[..tau.len() - 1]), ytoks[..tau.len() - 1].join(" ")).unwrap();
            writeln!(out, "csolve 1 0 0 0 {} {} {}", tau.len(), join_h(&tau), ytoks[..tau.len() - 1].join(" ")).unwrap();
        }
        writeln!(out, "reset").unwrap();
    }
}
