//! One deterministic PRNG (splitmix64) from which every random choice derives.
pub struct Rng(pub u64);

impl Rng {
    pub fn new(seed: u64) -> Self {
        Rng(seed.wrapping_mul(0x9E3779B97F4A7C15) ^ 0xD1B54A32D192ED03)
    }
    pub fn next(&mut self) -> u64 {
        self.0 = self.0.wrapping_add(0x9E3779B97F4A7C15);
        let mut z = self.0;
        z = (z ^ (z >> 30)).wrapping_mul(0xBF58476D1CE4E5B9);
        z = (z ^ (z >> 27)).wrapping_mul(0x94D049BB133111EB);
        z ^ (z >> 31)
    }
    /// uniform in [0, n)
    pub fn below(&mut self, n: u64) -> u64 {
        if n == 0 {
            0
        } else {
            self.next() % n
        }
    }
    /// uniform in [lo, hi] inclusive
    pub fn range(&mut self, lo: i64, hi: i64) -> i64 {
        lo + self.below((hi - lo + 1) as u64) as i64
    }
    pub fn chance(&mut self, num: u64, den: u64) -> bool {
        self.below(den) < num
    }
    pub fn unit(&mut self) -> f64 {
        (self.next() >> 11) as f64 / (1u64 << 53) as f64
    }
    pub fn pick<'a, T>(&mut self, xs: &'a [T]) -> &'a T {
        &xs[self.below(xs.len() as u64) as usize]
    }
    pub fn shuffle<T>(&mut self, xs: &mut Vec<T>) {
        for i in (1..xs.len()).rev() {
            let j = self.below((i + 1) as u64) as usize;
            xs.swap(i, j);
        }
    }
    /// small dyadic rational: k / 2^s, k in [-64, 64], s in 0..3 — arithmetic on these is exact in f64
    pub fn dyadic(&mut self) -> f64 {
        let k = self.range(-64, 64) as f64;
        let s = self.below(4) as i32;
        k / (2f64).powi(s)
    }
    /// log-uniform magnitude in [lo, hi], positive
    pub fn logu(&mut self, lo: f64, hi: f64) -> f64 {
        (lo.ln() + self.unit() * (hi.ln() - lo.ln())).exp()
    }
}
