//! FX operations (C09, C10) against the real code.
use crate::dates::day;
use crate::duals::{fmt_num, hf, pf, DualState};
use crate::rng::Rng;
use rateslib::dual::{ADOrder, Number};
use rateslib::fx::rates::{Ccy, FXRate, FXRates};
use std::collections::HashMap;
use std::io::Write;
use std::panic::{catch_unwind, AssertUnwindSafe};

#[derive(Default)]
pub struct FxState {
    pub fxs: HashMap<usize, (FXRates, Vec<String>)>,
}

fn guarded<F: FnOnce() -> String>(f: F) -> String {
    match catch_unwind(AssertUnwindSafe(f)) {
        Ok(s) => s,
        Err(_) => "panic".to_string(),
    }
}

fn parse_quotes(ds: &DualState, t: &[&str]) -> Option<Vec<FXRate>> {
    if t.len() % 4 != 0 {
        return None;
    }
    let mut out = Vec::new();
    for c in t.chunks(4) {
        let v = c[2];
        let num = if let Some(x) = v.strip_prefix('F') {
            Number::F64(pf(x)?)
        } else if let Some(h) = v.strip_prefix('H') {
            ds.vals.get(&h.parse().ok()?)?.clone()
        } else {
            return None;
        };
        let s = if c[3] == "-" { None } else { Some(day(c[3].parse().ok()?)) };
        out.push(FXRate::try_new(c[0], c[1], num, s).ok()?);
    }
    Some(out)
}

/// the currency order of the object, recovered through the public API: insertion order is base
/// first, then each pair's two currencies; `get_ccy_index` gives each one's position
fn ccy_order(f: &FXRates, names: &[String]) -> Vec<String> {
    let mut v: Vec<(usize, String)> = names
        .iter()
        .filter_map(|n| f.get_ccy_index(&Ccy::try_new(n).ok()?).map(|i| (i, n.clone())))
        .collect();
    v.sort();
    v.dedup();
    v.into_iter().map(|(_, n)| n).collect()
}

pub fn step(ds: &DualState, st: &mut FxState, t: &[&str]) -> Option<String> {
    Some(match t {
        ["fx", id, base, _n, quotes @ ..] => {
            let id: usize = id.parse().ok()?;
            let qs = parse_quotes(ds, quotes)?;
            let mut names: Vec<String> = Vec::new();
            if *base != "-" {
                names.push(base.to_string());
            }
            for c in quotes.chunks(4) {
                names.push(c[0].to_string());
                names.push(c[1].to_string());
            }
            let b = if *base == "-" { None } else { Some(Ccy::try_new(base).ok()?) };
            match catch_unwind(AssertUnwindSafe(|| FXRates::try_new(qs, b).ok())) {
                Ok(Some(f)) => {
                    st.fxs.insert(id, (f, names));
                    "ok".to_string()
                }
                Ok(None) => "err".to_string(),
                Err(_) => "panic".to_string(),
            }
        }
        ["fxrate", id, l, r] | ["fxrateq", id, l, r] => {
            let (f, _) = st.fxs.get(&id.parse().ok()?)?;
            let (l, r) = (Ccy::try_new(l).ok()?, Ccy::try_new(r).ok()?);
            guarded(|| match f.rate(&l, &r) {
                Some(v) => fmt_num(&v),
                None => "none".to_string(),
            })
        }
        ["fxupdate", id, _n, quotes @ ..] => {
            let qs = parse_quotes(ds, quotes)?;
            let (f, _) = st.fxs.get_mut(&id.parse().ok()?)?;
            guarded(|| match f.update(qs) {
                Ok(()) => "ok".to_string(),
                Err(_) => "err".to_string(),
            })
        }
        ["fxorder", id, k] => {
            let (f, _) = st.fxs.get_mut(&id.parse().ok()?)?;
            let k = match *k {
                "0" => ADOrder::Zero,
                "1" => ADOrder::One,
                "2" => ADOrder::Two,
                _ => return None,
            };
            guarded(|| match f.set_ad_order(k) {
                Ok(()) => "ok".to_string(),
                Err(_) => "err".to_string(),
            })
        }
        ["fxdump", id] => {
            let (f, names) = st.fxs.get(&id.parse().ok()?)?;
            guarded(|| {
                let cs = ccy_order(f, names);
                let mut cells = Vec::new();
                for a in &cs {
                    for b in &cs {
                        let (ca, cb) = (Ccy::try_new(a).unwrap(), Ccy::try_new(b).unwrap());
                        cells.push(match f.rate(&ca, &cb) {
                            Some(v) => fmt_num(&v),
                            None => "none".to_string(),
                        });
                    }
                }
                format!("M {} {} ; {}", cs.len(), cs.join(" "), cells.join(" ; "))
            })
        }
        ["fxad", id] => {
            let (f, _) = st.fxs.get(&id.parse().ok()?)?;
            let (a, b) = {
                let (_, names) = st.fxs.get(&id.parse().ok()?)?;
                (names[0].clone(), names[0].clone())
            };
            let c = Ccy::try_new(&a).ok()?;
            let _ = b;
            match f.rate(&c, &c)? {
                Number::F64(_) => "0",
                Number::Dual(_) => "1",
                Number::Dual2(_) => "2",
            }
            .to_string()
        }
        _ => return None,
    })
}

// ------------------------------------------------------------------------------------------

const CCYS: [&str; 14] = [
    "usd", "eur", "gbp", "jpy", "cad", "aud", "nok", "sek", "chf", "nzd", "inr", "mxn", "brl", "zar",
];

struct Market {
    ccys: Vec<&'static str>,
    // tree edges as (lhs, rhs, rate)
    quotes: Vec<(usize, usize, f64)>,
}

/// a random labelled tree on n currencies via a Prüfer sequence, random orientation and order
fn random_market(r: &mut Rng, n: usize) -> Market {
    let mut pool: Vec<&'static str> = CCYS.to_vec();
    r.shuffle(&mut pool);
    let ccys: Vec<&'static str> = pool[..n].to_vec();
    let mut edges: Vec<(usize, usize)> = Vec::new();
    if n == 2 {
        edges.push((0, 1));
    } else {
        let prufer: Vec<usize> = (0..n - 2).map(|_| r.below(n as u64) as usize).collect();
        let mut degree = vec![1usize; n];
        for &p in &prufer {
            degree[p] += 1;
        }
        for &p in &prufer {
            let leaf = (0..n).find(|&i| degree[i] == 1).unwrap();
            edges.push((leaf, p));
            degree[leaf] -= 1;
            degree[p] -= 1;
        }
        let rest: Vec<usize> = (0..n).filter(|&i| degree[i] == 1).collect();
        edges.push((rest[0], rest[1]));
    }
    let mut quotes: Vec<(usize, usize, f64)> = edges
        .into_iter()
        .map(|(a, b)| {
            let rate = r.logu(1e-2, 1e2);
            if r.chance(1, 2) {
                (a, b, rate)
            } else {
                (b, a, rate)
            }
        })
        .collect();
    r.shuffle(&mut quotes);
    Market { ccys, quotes }
}

fn emit_market<W: Write>(out: &mut W, r: &mut Rng, id: usize, m: &Market, base: Option<usize>, dual_quotes: bool, settle: Option<i64>) {
    let mut toks = Vec::new();
    for (k, (a, b, rate)) in m.quotes.iter().enumerate() {
        let v = if dual_quotes && r.chance(1, 4) {
            let h = 7000 + id * 32 + k;
            writeln!(out, "dual {} {} 2 own{} {} shared {} 0", h, hf(*rate), k, hf(1.0), hf(0.5)).unwrap();
            format!("H{}", h)
        } else {
            format!("F{}", hf(*rate))
        };
        let s = match settle {
            Some(d) => d.to_string(),
            None => "-".to_string(),
        };
        toks.push(format!("{} {} {} {}", m.ccys[*a], m.ccys[*b], v, s));
    }
    let b = match base {
        Some(i) => m.ccys[i].to_string(),
        None => "-".to_string(),
    };
    writeln!(out, "fx {} {} {} {}", id, b, m.quotes.len(), toks.join(" ")).unwrap();
}

fn emit_all_rates<W: Write>(out: &mut W, id: usize, m: &Market) {
    writeln!(out, "fxdump {}", id).unwrap();
    // quoted pairs and the diagonal: returned exactly (bit for bit)
    for (a, b, _) in &m.quotes {
        writeln!(out, "fxrateq {} {} {}", id, m.ccys[*a], m.ccys[*b]).unwrap();
    }
    for a in &m.ccys {
        writeln!(out, "fxrateq {} {} {}", id, a, a).unwrap();
    }
    for a in &m.ccys {
        for b in &m.ccys {
            writeln!(out, "fxrate {} {} {}", id, a, b).unwrap();
        }
    }
}

pub fn gen_c09<W: Write>(out: &mut W, thorough: bool, seed: u64) {
    let mut r = Rng::new(seed ^ 0xC09);
    let n_markets = if thorough { 50000 } else { 400 };
    for i in 0..n_markets {
        let n = 2 + (i % 11);
        let m = random_market(&mut r, n);
        // every base (and no base) on the same quote set; the same quotes in another order
        let base = if r.chance(1, 6) { None } else { Some(r.below(n as u64) as usize) };
        let settle = if r.chance(1, 3) { Some(19000) } else { None };
        emit_market(out, &mut r, 1, &m, base, false, settle);
        emit_all_rates(out, 1, &m);
        let mut m2 = Market { ccys: m.ccys.clone(), quotes: m.quotes.clone() };
        r.shuffle(&mut m2.quotes);
        let base2 = Some(r.below(n as u64) as usize);
        emit_market(out, &mut r, 2, &m2, base2, false, settle);
        for a in &m.ccys {
            for b in &m.ccys {
                writeln!(out, "fxrate 2 {} {}", a, b).unwrap();
            }
        }
        writeln!(out, "fxrate 1 {} xxx", m.ccys[0]).unwrap();
        // malformed quote sets
        let kind = r.below(6);
        let mut bad = Market { ccys: m.ccys.clone(), quotes: m.quotes.clone() };
        let mut bad_settle: Vec<Option<i64>> = vec![settle; bad.quotes.len()];
        match kind {
            0 => {
                bad.quotes.pop();
                bad_settle.pop();
            } // under-specified (unless n == 2: empty)
            1 => {
                let q = bad.quotes[0];
                bad.quotes.push((q.1, q.0, 1.0 / q.2));
                bad_settle.push(settle);
            } // inverted duplicate: over-specified
            2 => {
                let q = bad.quotes[0];
                bad.quotes.push(q);
                bad_settle.push(settle);
            } // duplicate
            3 => {
                if n >= 4 {
                    // right count but a cycle plus an isolated pair: replace one tree edge so that it closes a cycle
                    let q0 = bad.quotes[0];
                    let q1 = bad.quotes[1];
                    let last = bad.quotes.len() - 1;
                    // closes a cycle when q0 and q1 share a currency; otherwise still a forest change
                    bad.quotes[last] = (q0.0, if q1.0 != q0.0 { q1.0 } else { q1.1 }, 1.5);
                }
            }
            4 => {
                if bad_settle.len() >= 2 {
                    bad_settle[1] = Some(19001);
                }
            } // mixed settlement
            _ => {
                if bad_settle.len() >= 2 {
                    bad_settle[0] = if settle.is_some() { None } else { Some(19000) };
                }
            }
        }
        let mut toks = Vec::new();
        for (k, (a, b, rate)) in bad.quotes.iter().enumerate() {
            if a == b {
                continue;
            }
            let s = match bad_settle[k] {
                Some(d) => d.to_string(),
                None => "-".to_string(),
            };
            toks.push(format!("{} {} F{} {}", bad.ccys[*a], bad.ccys[*b], hf(*rate), s));
        }
        writeln!(out, "fx 3 {} {} {}", bad.ccys[0], toks.len(), toks.join(" ")).unwrap();
        writeln!(out, "fxdump 3").unwrap();
        // under-specified through the BASE: the whole quote set minus the quotes naming one leaf currency, with that
        // currency as the base (for three currencies: a single quote and a base outside its pair); and a valid
        // market given with a base that no quote names at all
        {
            let leaf = (0..n).rev().find(|c| m.quotes.iter().filter(|q| q.0 == *c || q.1 == *c).count() == 1).unwrap_or(n - 1);
            let mut toks = Vec::new();
            for (a, b, rate) in m.quotes.iter().filter(|q| q.0 != leaf && q.1 != leaf) {
                toks.push(format!("{} {} F{} -", m.ccys[*a], m.ccys[*b], hf(*rate)));
            }
            if !toks.is_empty() {
                writeln!(out, "fx 3 {} {} {}", m.ccys[leaf], toks.len(), toks.join(" ")).unwrap();
                writeln!(out, "fxdump 3").unwrap();
                writeln!(out, "fxrate 3 {} {}", m.ccys[leaf], m.ccys[(leaf + 1) % n]).unwrap();
            }
            let mut toks = Vec::new();
            for (a, b, rate) in m.quotes.iter() {
                toks.push(format!("{} {} F{} -", m.ccys[*a], m.ccys[*b], hf(*rate)));
            }
            writeln!(out, "fx 3 zzz {} {}", toks.len(), toks.join(" ")).unwrap();
            writeln!(out, "fxdump 3").unwrap();
        }
        writeln!(out, "reset").unwrap();
    }
}

pub fn gen_c10<W: Write>(out: &mut W, thorough: bool, seed: u64) {
    let mut r = Rng::new(seed ^ 0xC10);
    let n_hist = if thorough { 30000 } else { 300 };
    for i in 0..n_hist {
        let n = 2 + (i % 7);
        let mut m = random_market(&mut r, n);
        let base = Some(r.below(n as u64) as usize);
        let dq = r.chance(1, 3);
        emit_market(out, &mut r, 1, &m, base, dq, None);
        writeln!(out, "fxad 1").unwrap();
        emit_all_rates(out, 1, &m);
        let n_ops = r.range(0, 12);
        for _ in 0..n_ops {
            match r.below(5) {
                0 | 1 => {
                    // update a subset of quotes
                    let k = r.range(1, m.quotes.len() as i64) as usize;
                    let mut idx: Vec<usize> = (0..m.quotes.len()).collect();
                    r.shuffle(&mut idx);
                    let mut toks = Vec::new();
                    for &j in &idx[..k] {
                        m.quotes[j].2 = r.logu(1e-2, 1e2);
                        let (a, b, rate) = m.quotes[j];
                        toks.push(format!("{} {} F{} -", m.ccys[a], m.ccys[b], hf(rate)));
                    }
                    writeln!(out, "fxupdate 1 {} {}", k, toks.join(" ")).unwrap();
                }
                2 => {
                    // an update naming an unknown (or inverted) pair must be refused without changing anything
                    let (a, b, _) = m.quotes[0];
                    if r.chance(1, 2) {
                        writeln!(out, "fxupdate 1 1 {} {} F{} -", m.ccys[b], m.ccys[a], hf(2.0)).unwrap();
                    } else {
                        writeln!(out, "fxupdate 1 2 {} {} F{} - {} qqq F{} -", m.ccys[a], m.ccys[b], hf(3.0), m.ccys[a], hf(2.0)).unwrap();
                    }
                }
                _ => {
                    writeln!(out, "fxorder 1 {}", r.below(3)).unwrap();
                }
            }
            writeln!(out, "fxad 1").unwrap();
            writeln!(out, "fxdump 1").unwrap();
            // a market built directly from the latest quotes (model-free cross-check of the values)
            let mut toks = Vec::new();
            for (a, b, rate) in &m.quotes {
                toks.push(format!("{} {} F{} -", m.ccys[*a], m.ccys[*b], hf(*rate)));
            }
            writeln!(out, "fx 2 {} {} {}", m.ccys[base.unwrap()], m.quotes.len(), toks.join(" ")).unwrap();
            writeln!(out, "fxdump 2").unwrap();
        }
        writeln!(out, "reset").unwrap();
    }
}
