//! Date/calendar operations (C04, C05, C06, C08 and the C07 dump) against the real code.
use crate::rng::Rng;
use chrono::{Datelike, Days, NaiveDate, NaiveDateTime};
use rateslib::calendars::{
    get_calendar_by_name, get_eom, get_imm, get_roll, is_eom, is_imm, is_leap_year, Cal, DateRoll,
    Modifier, NamedCal, RollDay, UnionCal,
};
use std::collections::HashMap;
use std::io::Write;
use std::panic::{catch_unwind, AssertUnwindSafe};

pub const NAMES: [&str; 14] = [
    "all", "bus", "nyc", "fed", "tgt", "ldn", "stk", "osl", "zur", "tro", "tyo", "syd", "wlg", "mum",
];
pub const HI: i64 = 84370; // 2200-12-31

#[derive(Clone)]
pub enum AnyCal {
    C(Cal),
    U(UnionCal),
    N(NamedCal),
}

#[derive(Default)]
pub struct DateState {
    pub cals: HashMap<usize, AnyCal>,
}

pub fn day(n: i64) -> NaiveDateTime {
    let base = NaiveDate::from_ymd_opt(1970, 1, 1).unwrap();
    let d = if n >= 0 {
        base + Days::new(n as u64)
    } else {
        base - Days::new((-n) as u64)
    };
    d.and_hms_opt(0, 0, 0).unwrap()
}

pub fn num(d: &NaiveDateTime) -> i64 {
    (d.date() - NaiveDate::from_ymd_opt(1970, 1, 1).unwrap()).num_days()
}

fn parse_mod(s: &str) -> Option<Modifier> {
    Some(match s {
        "Act" => Modifier::Act,
        "F" => Modifier::F,
        "ModF" => Modifier::ModF,
        "P" => Modifier::P,
        "ModP" => Modifier::ModP,
        _ => return None,
    })
}

fn parse_roll(s: &str) -> Option<RollDay> {
    Some(match s {
        "u" => RollDay::Unspecified {},
        "e" => RollDay::EoM {},
        "s" => RollDay::SoM {},
        "m" => RollDay::IMM {},
        _ => {
            if let Some(r) = s.strip_prefix('i') {
                RollDay::Int {
                    day: r.parse().ok()?,
                }
            } else {
                return None;
            }
        }
    })
}

macro_rules! with_cal {
    ($c:expr, $v:ident, $body:expr) => {
        match $c {
            AnyCal::C($v) => $body,
            AnyCal::U($v) => $body,
            AnyCal::N($v) => $body,
        }
    };
}

fn guarded<F: FnOnce() -> String>(f: F) -> String {
    match catch_unwind(AssertUnwindSafe(f)) {
        Ok(s) => s,
        Err(_) => "panic".to_string(),
    }
}

fn mask_vec(bits: &str) -> Vec<u8> {
    bits.bytes()
        .enumerate()
        .filter(|(_, b)| *b == b'1')
        .map(|(i, _)| i as u8)
        .collect()
}

pub fn hex_decode(s: &str) -> Option<String> {
    if s == "-" {
        return Some(String::new());
    }
    let b = s.as_bytes();
    if b.len() % 2 != 0 {
        return None;
    }
    let mut v = Vec::new();
    for i in (0..b.len()).step_by(2) {
        v.push(u8::from_str_radix(std::str::from_utf8(&b[i..i + 2]).ok()?, 16).ok()?);
    }
    String::from_utf8(v).ok()
}

pub fn hex_encode(s: &str) -> String {
    if s.is_empty() {
        return "-".to_string();
    }
    s.bytes().map(|b| format!("{:02x}", b)).collect()
}

pub fn step(st: &mut DateState, t: &[&str]) -> Option<String> {
    let pi = |s: &str| s.parse::<i64>().ok();
    Some(match t {
        ["civil", d] => {
            let d = day(pi(d)?);
            format!(
                "{} {} {} {}",
                d.year(),
                d.month(),
                d.day(),
                d.weekday().num_days_from_monday()
            )
        }
        ["today", y, m, d] => {
            match NaiveDate::from_ymd_opt(pi(y)? as i32, pi(m)? as u32, pi(d)? as u32) {
                Some(x) => num(&x.and_hms_opt(0, 0, 0).unwrap()).to_string(),
                None => "invalid".to_string(),
            }
        }
        ["imm", y, m] => {
            let (y, m) = (pi(y)? as i32, pi(m)? as u32);
            guarded(|| num(&get_imm(y, m)).to_string())
        }
        ["eom", y, m] => {
            let (y, m) = (pi(y)? as i32, pi(m)? as u32);
            guarded(|| num(&get_eom(y, m)).to_string())
        }
        ["leap", y] => {
            let y = pi(y)? as i32;
            guarded(|| (is_leap_year(y) as u8).to_string())
        }
        ["isimm", d] => {
            let d = day(pi(d)?);
            guarded(|| (is_imm(&d) as u8).to_string())
        }
        ["iseom", d] => {
            let d = day(pi(d)?);
            guarded(|| (is_eom(&d) as u8).to_string())
        }
        ["getroll", y, m, r] => {
            let (y, m, r) = (pi(y)? as i32, pi(m)? as u32, parse_roll(r)?);
            guarded(|| match get_roll(y, m, &r) {
                Ok(d) => num(&d).to_string(),
                Err(_) => "err".to_string(),
            })
        }
        ["cal", id, mask, _n, ds @ ..] => {
            let id: usize = id.parse().ok()?;
            let hols: Vec<NaiveDateTime> = ds.iter().map(|s| day(s.parse().unwrap())).collect();
            st.cals
                .insert(id, AnyCal::C(Cal::new(hols, mask_vec(mask))));
            "ok".to_string()
        }
        ["defname", ..] => "ok".to_string(),
        ["ucal", id, m, rest @ ..] => {
            let id: usize = id.parse().ok()?;
            let m: usize = m.parse().ok()?;
            let get = |s: &&str| -> Option<Cal> {
                match st.cals.get(&s.parse::<usize>().ok()?)? {
                    AnyCal::C(c) => Some(c.clone()),
                    _ => None,
                }
            };
            let cs: Vec<Cal> = rest[..m].iter().map(|s| get(s)).collect::<Option<_>>()?;
            let tail = &rest[m..];
            let settle = match tail {
                ["-"] => None,
                ["s", ids @ ..] => Some(ids.iter().map(|s| get(s)).collect::<Option<Vec<Cal>>>()?),
                _ => return None,
            };
            st.cals.insert(id, AnyCal::U(UnionCal::new(cs, settle)));
            "ok".to_string()
        }
        ["named", id, hexname] => {
            let id: usize = id.parse().ok()?;
            let name = hex_decode(hexname)?;
            let r = catch_unwind(AssertUnwindSafe(|| NamedCal::try_new(&name).ok()));
            match r {
                Ok(Some(c)) => {
                    st.cals.insert(id, AnyCal::N(c));
                    "ok".to_string()
                }
                Ok(None) => "err".to_string(),
                Err(_) => "panic".to_string(),
            }
        }
        ["isbus", h, d] => {
            let c = st.cals.get(&h.parse().ok()?)?;
            let d = day(pi(d)?);
            guarded(|| with_cal!(c, x, (x.is_bus_day(&d) as u8).to_string()))
        }
        ["iswd", h, d] => {
            let c = st.cals.get(&h.parse().ok()?)?;
            let d = day(pi(d)?);
            guarded(|| with_cal!(c, x, (x.is_weekday(&d) as u8).to_string()))
        }
        ["ishol", h, d] => {
            let c = st.cals.get(&h.parse().ok()?)?;
            let d = day(pi(d)?);
            guarded(|| with_cal!(c, x, (x.is_holiday(&d) as u8).to_string()))
        }
        ["issettle", h, d] => {
            let c = st.cals.get(&h.parse().ok()?)?;
            let d = day(pi(d)?);
            guarded(|| with_cal!(c, x, (x.is_settlement(&d) as u8).to_string()))
        }
        ["roll", h, d, m, s] => {
            let c = st.cals.get(&h.parse().ok()?)?;
            let (d, m, s) = (day(pi(d)?), parse_mod(m)?, *s == "1");
            guarded(|| with_cal!(c, x, num(&x.roll(&d, &m, s)).to_string()))
        }
        ["addbus", h, d, n, s] => {
            let c = st.cals.get(&h.parse().ok()?)?;
            let (d, n, s) = (day(pi(d)?), pi(n)? as i8, *s == "1");
            guarded(|| {
                with_cal!(c, x, match x.add_bus_days(&d, n, s) {
                    Ok(r) => num(&r).to_string(),
                    Err(_) => "err".to_string(),
                })
            })
        }
        ["lag", h, d, n, s] => {
            let c = st.cals.get(&h.parse().ok()?)?;
            let (d, n, s) = (day(pi(d)?), pi(n)? as i8, *s == "1");
            guarded(|| with_cal!(c, x, num(&x.lag(&d, n, s)).to_string()))
        }
        ["adddays", h, d, n, m, s] => {
            let c = st.cals.get(&h.parse().ok()?)?;
            let (d, n, m, s) = (day(pi(d)?), pi(n)? as i8, parse_mod(m)?, *s == "1");
            guarded(|| with_cal!(c, x, num(&x.add_days(&d, n, &m, s)).to_string()))
        }
        ["addmonths", h, d, n, m, r, s] => {
            let c = st.cals.get(&h.parse().ok()?)?;
            let (d, n, m, r, s) = (
                day(pi(d)?),
                pi(n)? as i32,
                parse_mod(m)?,
                parse_roll(r)?,
                *s == "1",
            );
            guarded(|| with_cal!(c, x, num(&x.add_months(&d, n, &m, &r, s)).to_string()))
        }
        ["busrange", h, s, e] => {
            let c = st.cals.get(&h.parse().ok()?)?;
            let (s, e) = (day(pi(s)?), day(pi(e)?));
            guarded(|| {
                with_cal!(c, x, match x.bus_date_range(&s, &e) {
                    Ok(v) => {
                        let mut o = String::from("ok");
                        for d in v {
                            o.push(' ');
                            o.push_str(&num(&d).to_string());
                        }
                        o
                    }
                    Err(_) => "err".to_string(),
                })
            })
        }
        ["caleq", a, b] => {
            let a = st.cals.get(&a.parse().ok()?)?;
            let b = st.cals.get(&b.parse().ok()?)?;
            guarded(|| {
                let r = match (a, b) {
                    (AnyCal::U(x), AnyCal::C(y)) => x == y,
                    (AnyCal::U(x), AnyCal::U(y)) => x == y,
                    (AnyCal::U(x), AnyCal::N(y)) => x == y,
                    (AnyCal::N(x), AnyCal::C(y)) => x == y,
                    (AnyCal::N(x), AnyCal::U(y)) => x == y,
                    (AnyCal::N(x), AnyCal::N(y)) => x == y,
                    (AnyCal::C(x), AnyCal::U(y)) => x == y,
                    (AnyCal::C(x), AnyCal::N(y)) => x == y,
                    (AnyCal::C(_), AnyCal::C(_)) => return "na".to_string(),
                };
                (r as u8).to_string()
            })
        }
        _ => return None,
    })
}

// ------------------------------------------------------------------------------------------
// table extraction from the running code

/// (mask bits, holiday day numbers in 1970..2200 — weekday and weekend ones alike)
pub fn table_of(name: &str) -> (String, Vec<i64>) {
    let cal = get_calendar_by_name(name).expect("documented name must resolve");
    // week mask: probe one full week
    let mut bits = ['0'; 7];
    for n in 0..7 {
        let d = day(n);
        if !cal.is_weekday(&d) {
            bits[d.weekday().num_days_from_monday() as usize] = '1';
        }
    }
    let mut hols = Vec::new();
    for n in 0..=HI {
        if cal.is_holiday(&day(n)) {
            hols.push(n);
        }
    }
    (bits.iter().collect(), hols)
}

pub fn dump<W: Write>(out: &mut W, what: &str) {
    match what {
        "resolve" => {
            for name in std::env::args().skip(3) {
                let ok = catch_unwind(|| get_calendar_by_name(&name).is_ok()).unwrap_or(false);
                writeln!(out, "{} {}", name, if ok { "ok" } else { "err" }).unwrap();
            }
        }
        "tables" => {
            for name in NAMES {
                match catch_unwind(|| table_of(name)) {
                    Ok((mask, hols)) => {
                        write!(out, "{} {} {}", name, mask, hols.len()).unwrap();
                        for h in hols {
                            write!(out, " {}", h).unwrap();
                        }
                        writeln!(out).unwrap();
                    }
                    Err(_) => writeln!(out, "{} unresolved", name).unwrap(),
                }
            }
        }
        _ => {
            eprintln!("unknown dump {}", what);
            std::process::exit(2);
        }
    }
}

fn emit_defnames<W: Write>(out: &mut W) {
    for name in NAMES {
        let (mask, hols) = table_of(name);
        write!(out, "defname {} {} {}", name, mask, hols.len()).unwrap();
        for h in &hols {
            write!(out, " {}", h).unwrap();
        }
        writeln!(out).unwrap();
    }
}

/// define handles 100+i as explicit `Cal`s equal to the i-th built-in table
fn emit_named_as_cals<W: Write>(out: &mut W) {
    for (i, name) in NAMES.iter().enumerate() {
        let (mask, hols) = table_of(name);
        write!(out, "cal {} {} {}", 100 + i, mask, hols.len()).unwrap();
        for h in &hols {
            write!(out, " {}", h).unwrap();
        }
        writeln!(out).unwrap();
    }
}

// ------------------------------------------------------------------------------------------
// random admissible calendars

pub struct GenCal {
    pub mask: String,
    pub hols: Vec<i64>,
}

/// A random calendar in which weekday `w` is working; holidays cluster around month ends
/// inside [lo, hi].
fn random_cal(r: &mut Rng, w: usize, lo: i64, hi: i64) -> GenCal {
    let mut bits = ['0'; 7];
    let style = r.below(4);
    for i in 0..7 {
        if i == w {
            continue;
        }
        let masked = match style {
            0 => i >= 5,               // western
            1 => r.chance(1, 2),       // random
            2 => r.chance(5, 6),       // sparse working week
            _ => i == 4 || i == 5,     // fri/sat weekend
        };
        if masked {
            bits[i] = '1';
        }
    }
    let mut hols = Vec::new();
    let n_clusters = r.range(0, 40);
    for _ in 0..n_clusters {
        // centre on a month end
        let c = r.range(lo, hi);
        let d = day(c);
        let eom = get_eom(d.year(), d.month());
        let centre = num(&eom) + r.range(-3, 3);
        let len = r.range(1, 9);
        for k in 0..len {
            if r.chance(4, 5) {
                hols.push(centre - len / 2 + k);
            }
        }
    }
    let n_single = r.range(0, 30);
    for _ in 0..n_single {
        hols.push(r.range(lo, hi));
    }
    hols.sort();
    hols.dedup();
    GenCal {
        mask: bits.iter().collect(),
        hols,
    }
}

fn emit_cal<W: Write>(out: &mut W, id: usize, c: &GenCal) {
    write!(out, "cal {} {} {}", id, c.mask, c.hols.len()).unwrap();
    for h in &c.hols {
        write!(out, " {}", h).unwrap();
    }
    writeln!(out).unwrap();
}

/// Emits a random admissible (union) calendar; returns the handle to query and the date window.
/// Handles id..id+5 are used for the parts, id+6 for the union.
fn emit_random_setup<W: Write>(out: &mut W, r: &mut Rng, id: usize) -> (usize, i64, i64) {
    let lo = r.range(10000, 20000);
    let hi = lo + r.range(200, 3000);
    let w = r.below(7) as usize;
    let n_mem = r.range(1, 3) as usize;
    let n_set = if r.chance(1, 2) { 0 } else { r.range(1, 2) as usize };
    let mut ids = Vec::new();
    for k in 0..(n_mem + n_set) {
        let c = random_cal(r, w, lo, hi);
        emit_cal(out, id + k, &c);
        ids.push(id + k);
    }
    if n_mem == 1 && n_set == 0 && r.chance(1, 2) {
        return (id, lo, hi);
    }
    write!(out, "ucal {} {}", id + 6, n_mem).unwrap();
    for k in 0..n_mem {
        write!(out, " {}", ids[k]).unwrap();
    }
    if n_set == 0 {
        write!(out, " -").unwrap();
    } else {
        write!(out, " s").unwrap();
        for k in 0..n_set {
            write!(out, " {}", ids[n_mem + k]).unwrap();
        }
    }
    writeln!(out).unwrap();
    (id + 6, lo, hi)
}

const MODS: [&str; 5] = ["Act", "F", "ModF", "P", "ModP"];

fn biased_date(r: &mut Rng, lo: i64, hi: i64) -> i64 {
    let d = r.range(lo - 20, hi + 20);
    if r.chance(1, 2) {
        // snap near a month end
        let x = day(d);
        num(&get_eom(x.year(), x.month())) + r.range(-4, 4)
    } else {
        d
    }
}

/// named combinations used by C04/C05 (handles 200+)
const COMBOS: [&str; 8] = [
    "tgt", "nyc", "ldn,tgt|fed", "tgt,nyc", "stk|osl", "tyo,syd|nyc,ldn", "bus", "mum,zur",
];

fn emit_combos<W: Write>(out: &mut W) {
    for (i, c) in COMBOS.iter().enumerate() {
        writeln!(out, "named {} {}", 200 + i, hex_encode(c)).unwrap();
    }
}

pub fn gen_c04<W: Write>(out: &mut W, thorough: bool, seed: u64) {
    let mut r = Rng::new(seed ^ 0xC04);
    emit_defnames(out);
    emit_combos(out);
    let (n_cals, n_dates) = if thorough { (600, 1000) } else { (60, 400) };
    for i in 0..n_cals {
        let (h, lo, hi) = emit_random_setup(out, &mut r, 1000 + i * 10);
        for _ in 0..n_dates {
            let d = biased_date(&mut r, lo, hi);
            for m in MODS {
                writeln!(out, "roll {} {} {} 0", h, d, m).unwrap();
                writeln!(out, "roll {} {} {} 1", h, d, m).unwrap();
            }
        }
    }
    // every week mask that leaves a working day, as a plain calendar and as a one-member combination: the
    // searches step one day at a time whatever the weekend looks like (a masked Saturday before a working Sunday, ...)
    for mbits in 0..127u32 {
        let id = 20000 + (mbits as usize) * 2;
        let mask: String = (0..7).map(|i| if (mbits >> i) & 1 == 1 { '1' } else { '0' }).collect();
        let lo = r.range(10000, 20000);
        let hi = lo + 400;
        let mut hols: Vec<i64> = (0..r.range(0, 12)).map(|_| r.range(lo, hi)).collect();
        hols.sort();
        hols.dedup();
        emit_cal(out, id, &GenCal { mask, hols });
        writeln!(out, "ucal {} 1 {} -", id + 1, id).unwrap();
        for _ in 0..(if thorough { 200 } else { 40 }) {
            let d = biased_date(&mut r, lo, hi);
            for m in MODS {
                writeln!(out, "roll {} {} {} {}", id, d, m, r.below(2)).unwrap();
                writeln!(out, "roll {} {} {} {}", id + 1, d, m, r.below(2)).unwrap();
            }
        }
    }
    if thorough {
        // every date of the supported range on every named combination
        for (i, _) in COMBOS.iter().enumerate() {
            for d in 30..=(HI - 30) {
                for m in &MODS[1..] {
                    writeln!(out, "roll {} {} {} 0", 200 + i, d, m).unwrap();
                    writeln!(out, "roll {} {} {} 1", 200 + i, d, m).unwrap();
                }
            }
        }
    } else {
        for (i, _) in COMBOS.iter().enumerate() {
            for _ in 0..2000 {
                let d = biased_date(&mut r, 40, HI - 40);
                let m = r.pick(&MODS);
                writeln!(out, "roll {} {} {} {}", 200 + i, d, m, r.below(2)).unwrap();
            }
        }
    }
}

pub fn gen_c05<W: Write>(out: &mut W, thorough: bool, seed: u64) {
    let mut r = Rng::new(seed ^ 0xC05);
    emit_defnames(out);
    emit_combos(out);
    let n_pairs = if thorough { 2000 } else { 40 };
    for i in 0..n_pairs {
        let (h, lo, hi) = if i % 5 == 4 {
            (200 + (i / 5) % COMBOS.len(), 2000, HI - 2000)
        } else if i % 5 == 3 {
            // a plain calendar with any week mask that leaves a working day
            let mbits = (i * 37 + 11) % 127;
            let mask: String = (0..7).map(|k| if (mbits >> k) & 1 == 1 { '1' } else { '0' }).collect();
            let lo = r.range(10000, 20000);
            let hi = lo + 1500;
            let mut hols: Vec<i64> = (0..r.range(0, 40)).map(|_| r.range(lo, hi)).collect();
            hols.sort();
            hols.dedup();
            emit_cal(out, 1000 + i * 10, &GenCal { mask, hols });
            (1000 + i * 10, lo, hi)
        } else {
            emit_random_setup(out, &mut r, 1000 + i * 10)
        };
        let d = biased_date(&mut r, lo, hi);
        // the harness does not know whether d is a business day: ask, both sides answer
        writeln!(out, "isbus {} {}", h, d).unwrap();
        // roll to a business start as well, so that most starts are accepted
        writeln!(out, "roll {} {} F 0", h, d).unwrap();
        for n in -128i64..=127 {
            let s = r.below(2);
            writeln!(out, "addbus {} {} {} {}", h, d, n, s).unwrap();
            writeln!(out, "lag {} {} {} {}", h, d, n, s).unwrap();
            let m = r.pick(&MODS);
            writeln!(out, "adddays {} {} {} {} {}", h, d, n, m, r.below(2)).unwrap();
        }
        // business starts: take the next few days as candidate starts, all counts
        for k in 1..4 {
            for n in -128i64..=127 {
                writeln!(out, "addbus {} {} {} {}", h, d + k, n, r.below(2)).unwrap();
            }
        }
        for _ in 0..6 {
            let s = biased_date(&mut r, lo, hi);
            let e = s + r.range(-3, 90);
            writeln!(out, "busrange {} {} {}", h, s, e).unwrap();
            // and a pair rolled onto business days by the model-independent trick of asking for
            // ranges at several offsets; some of them start and end on business days
            for k in 0..4 {
                writeln!(out, "busrange {} {} {}", h, s + k, e + 2 * k).unwrap();
            }
        }
    }
}

fn random_case(r: &mut Rng, s: &str) -> String {
    s.chars()
        .map(|c| {
            if r.chance(1, 3) {
                c.to_ascii_uppercase()
            } else {
                c
            }
        })
        .collect()
}

pub fn gen_c06<W: Write>(out: &mut W, thorough: bool, seed: u64) {
    let mut r = Rng::new(seed ^ 0xC06);
    emit_defnames(out);
    emit_named_as_cals(out);
    let n_names = if thorough { 3000 } else { 300 };
    let n_dates = if thorough { 1000 } else { 300 };
    let mut next = 1000usize;
    for _ in 0..n_names {
        let n_mem = r.range(1, 3) as usize;
        let n_set = r.range(0, 2) as usize;
        let mem: Vec<usize> = (0..n_mem).map(|_| r.below(14) as usize).collect();
        let set: Vec<usize> = (0..n_set).map(|_| r.below(14) as usize).collect();
        let mut s = mem.iter().map(|i| NAMES[*i]).collect::<Vec<_>>().join(",");
        if n_set > 0 {
            s.push('|');
            s.push_str(&set.iter().map(|i| NAMES[*i]).collect::<Vec<_>>().join(","));
        }
        let s = random_case(&mut r, &s);
        let hn = next;
        let hu = next + 1;
        next += 2;
        writeln!(out, "named {} {}", hn, hex_encode(&s)).unwrap();
        write!(out, "ucal {} {}", hu, n_mem).unwrap();
        for i in &mem {
            write!(out, " {}", 100 + i).unwrap();
        }
        if n_set == 0 {
            writeln!(out, " -").unwrap();
        } else {
            write!(out, " s").unwrap();
            for i in &set {
                write!(out, " {}", 100 + i).unwrap();
            }
            writeln!(out).unwrap();
        }
        for _ in 0..n_dates {
            let d = r.range(0, HI);
            let q = *r.pick(&["isbus", "issettle", "iswd", "ishol"]);
            writeln!(out, "{} {} {}", q, hn, d).unwrap();
            writeln!(out, "{} {} {}", q, hu, d).unwrap();
        }
        if r.chance(1, 6) || thorough {
            writeln!(out, "caleq {} {}", hn, hu).unwrap();
            writeln!(out, "caleq {} {}", hu, hn).unwrap();
        }
    }
    // malformed stream (handles from 1_000_000: outside the pairwise cross-check)
    next = 1_000_000;
    let bad = [
        "", "xyz", "tgt,", ",tgt", "tgt||fed", "tgt|fed|nyc", "tgt |fed", " tgt", "tgt,xyz", "tgt|xyz",
        "|", "tgt|", "|tgt", "a|b|c|d", "TGT,LDN|FED", "tgt,,ldn", "Tgt", "nyc|nyc", "fed ", "tgT,ldN",
        "all", "bus|all", "é", "tgt\u{0130}",
    ];
    for b in bad {
        writeln!(out, "named {} {}", next, hex_encode(b)).unwrap();
        // if it was accepted on both sides the queries below are answered; otherwise both say bad-op
        writeln!(out, "isbus {} 19000", next).unwrap();
        next += 1;
    }
    for _ in 0..(if thorough { 2000 } else { 200 }) {
        // random strings over a small alphabet
        let len = r.range(0, 9);
        let alphabet = ['t', 'g', 'T', 'l', 'd', 'n', ',', '|', ' ', 'f', 'e', 'b', 'u', 's', 'a'];
        let s: String = (0..len).map(|_| *r.pick(&alphabet)).collect();
        writeln!(out, "named {} {}", next, hex_encode(&s)).unwrap();
        next += 1;
    }
    // equality: calendars built to be equal / to differ on exactly one day
    let n_eq = if thorough { 400 } else { 40 };
    for _ in 0..n_eq {
        let i = r.below(14) as usize;
        let (mask, mut hols) = table_of(NAMES[i]);
        let hn = next;
        writeln!(out, "named {} {}", hn, hex_encode(NAMES[i])).unwrap();
        // an equal explicit union
        writeln!(out, "ucal {} 1 {} -", next + 1, 100 + i).unwrap();
        writeln!(out, "caleq {} {}", hn, next + 1).unwrap();
        writeln!(out, "caleq {} {}", hn, 100 + i).unwrap();
        writeln!(out, "caleq {} {}", 100 + i, hn).unwrap();
        // differ on exactly one (working) day: add a holiday on a business day
        let mut d = r.range(0, HI);
        let cal = get_calendar_by_name(NAMES[i]).unwrap();
        while !cal.is_bus_day(&day(d)) {
            d = r.range(0, HI);
        }
        if r.chance(1, 4) {
            let up = r.chance(1, 2);
            d = if up { 0 } else { HI };
            while !cal.is_bus_day(&day(d)) {
                d = if up { d + 1 } else { d - 1 };
            }
        }
        hols.push(d);
        hols.sort();
        hols.dedup();
        write!(out, "cal {} {} {}", next + 2, mask, hols.len()).unwrap();
        for h in &hols {
            write!(out, " {}", h).unwrap();
        }
        writeln!(out).unwrap();
        writeln!(out, "ucal {} 1 {} -", next + 3, next + 2).unwrap();
        writeln!(out, "caleq {} {}", hn, next + 2).unwrap();
        writeln!(out, "caleq {} {}", next + 2, hn).unwrap();
        writeln!(out, "caleq {} {}", next + 3, hn).unwrap();
        writeln!(out, "caleq {} {}", hn, next + 3).unwrap();
        // same business days, different settlement: union with a settlement calendar
        writeln!(out, "ucal {} 1 {} s {}", next + 4, 100 + i, next + 2).unwrap();
        writeln!(out, "caleq {} {}", next + 4, hn).unwrap();
        writeln!(out, "caleq {} {}", hn, next + 4).unwrap();
        writeln!(out, "caleq {} {}", 100 + i, next + 4).unwrap();
        // behaviourally EQUAL but structurally different: the same table plus immaterial holidays (a day the
        // week mask excludes anyway, a day beyond 2200) - on its own and as a one-member union, both ways round
        let (mask0, mut hols0) = table_of(NAMES[i]);
        let mut extra = Vec::new();
        if let Some(wd) = mask0.bytes().position(|b| b == b'1') {
            // day 4 (1970-01-05) is a Monday: a date falling on the first masked weekday
            let base = r.range(100, HI / 7 - 100) * 7 + 4;
            extra.push(base + wd as i64);
        }
        extra.push(HI + r.range(30, 3000));
        hols0.extend(extra);
        hols0.sort();
        hols0.dedup();
        write!(out, "cal {} {} {}", next + 5, mask0, hols0.len()).unwrap();
        for h in &hols0 {
            write!(out, " {}", h).unwrap();
        }
        writeln!(out).unwrap();
        writeln!(out, "ucal {} 1 {} -", next + 6, next + 5).unwrap();
        writeln!(out, "caleq {} {}", 100 + i, next + 6).unwrap();
        writeln!(out, "caleq {} {}", next + 6, 100 + i).unwrap();
        writeln!(out, "caleq {} {}", next + 5, next + 1).unwrap();
        writeln!(out, "caleq {} {}", next + 1, next + 5).unwrap();
        writeln!(out, "caleq {} {}", hn, next + 5).unwrap();
        writeln!(out, "caleq {} {}", next + 5, hn).unwrap();
        writeln!(out, "caleq {} {}", next + 6, next + 1).unwrap();
        next += 7;
    }
}

pub fn gen_c08<W: Write>(out: &mut W, thorough: bool, seed: u64) {
    let mut r = Rng::new(seed ^ 0xC08);
    writeln!(out, "cal 0 0000000 0").unwrap();
    for y in 1970..=2200 {
        writeln!(out, "leap {}", y).unwrap();
        for m in 1..=12 {
            writeln!(out, "imm {} {}", y, m).unwrap();
            writeln!(out, "eom {} {}", y, m).unwrap();
        }
    }
    for d in 0..=HI {
        writeln!(out, "civil {}", d).unwrap();
        writeln!(out, "isimm {}", d).unwrap();
        writeln!(out, "iseom {}", d).unwrap();
    }
    for y in [1999, 2000, 2023, 2024, 2100] {
        for m in 1..=12 {
            for d in 1..=31 {
                writeln!(out, "today {} {} {}", y, m, d).unwrap();
                writeln!(out, "getroll {} {} i{}", y, m, d).unwrap();
            }
            for rr in ["e", "s", "m", "u"] {
                writeln!(out, "getroll {} {} {}", y, m, rr).unwrap();
            }
        }
    }
    let years: &[i32] = if thorough {
        &[1990, 2000, 2023, 2024, 2100, 2150]
    } else {
        &[2023, 2024, 2100]
    };
    let span: i64 = if thorough { 130 } else { 40 };
    for y in years {
        for m in 1..=12u32 {
            for d in 1..=31u32 {
                if let Some(nd) = NaiveDate::from_ymd_opt(*y, m, d) {
                    let n = num(&nd.and_hms_opt(0, 0, 0).unwrap());
                    for k in -span..=span {
                        let ri = format!("i{}", r.range(1, 31));
                        for rr in ["u", "e", "s", "m", ri.as_str()] {
                            writeln!(out, "addmonths 0 {} {} Act {} 0", n, k, rr).unwrap();
                        }
                    }
                }
            }
        }
    }
    // random long offsets landing inside 1970..2200
    let n = if thorough { 400000 } else { 20000 };
    for _ in 0..n {
        let d = r.range(0, HI);
        let y = day(d).year() as i64;
        let k = r.range((1971 - y) * 12, (2199 - y) * 12);
        let ri = format!("i{}", r.range(1, 31));
        let rr = *r.pick(&["u", "e", "s", "m", ri.as_str()]);
        writeln!(out, "addmonths 0 {} {} Act {} 0", d, k, rr).unwrap();
    }
}
